
(** val negb : bool -> bool **)

let negb = function
| true -> false
| false -> true

type nat =
| O
| S of nat

(** val fst : ('a1 * 'a2) -> 'a1 **)

let fst = function
| (x, _) -> x

(** val snd : ('a1 * 'a2) -> 'a2 **)

let snd = function
| (_, y) -> y

(** val app : 'a1 list -> 'a1 list -> 'a1 list **)

let rec app l m =
  match l with
  | [] -> m
  | a :: l1 -> a :: (app l1 m)

type byte =
| X00
| X01
| X02
| X03
| X04
| X05
| X06
| X07
| X08
| X09
| X0a
| X0b
| X0c
| X0d
| X0e
| X0f
| X10
| X11
| X12
| X13
| X14
| X15
| X16
| X17
| X18
| X19
| X1a
| X1b
| X1c
| X1d
| X1e
| X1f
| X20
| X21
| X22
| X23
| X24
| X25
| X26
| X27
| X28
| X29
| X2a
| X2b
| X2c
| X2d
| X2e
| X2f
| X30
| X31
| X32
| X33
| X34
| X35
| X36
| X37
| X38
| X39
| X3a
| X3b
| X3c
| X3d
| X3e
| X3f
| X40
| X41
| X42
| X43
| X44
| X45
| X46
| X47
| X48
| X49
| X4a
| X4b
| X4c
| X4d
| X4e
| X4f
| X50
| X51
| X52
| X53
| X54
| X55
| X56
| X57
| X58
| X59
| X5a
| X5b
| X5c
| X5d
| X5e
| X5f
| X60
| X61
| X62
| X63
| X64
| X65
| X66
| X67
| X68
| X69
| X6a
| X6b
| X6c
| X6d
| X6e
| X6f
| X70
| X71
| X72
| X73
| X74
| X75
| X76
| X77
| X78
| X79
| X7a
| X7b
| X7c
| X7d
| X7e
| X7f
| X80
| X81
| X82
| X83
| X84
| X85
| X86
| X87
| X88
| X89
| X8a
| X8b
| X8c
| X8d
| X8e
| X8f
| X90
| X91
| X92
| X93
| X94
| X95
| X96
| X97
| X98
| X99
| X9a
| X9b
| X9c
| X9d
| X9e
| X9f
| Xa0
| Xa1
| Xa2
| Xa3
| Xa4
| Xa5
| Xa6
| Xa7
| Xa8
| Xa9
| Xaa
| Xab
| Xac
| Xad
| Xae
| Xaf
| Xb0
| Xb1
| Xb2
| Xb3
| Xb4
| Xb5
| Xb6
| Xb7
| Xb8
| Xb9
| Xba
| Xbb
| Xbc
| Xbd
| Xbe
| Xbf
| Xc0
| Xc1
| Xc2
| Xc3
| Xc4
| Xc5
| Xc6
| Xc7
| Xc8
| Xc9
| Xca
| Xcb
| Xcc
| Xcd
| Xce
| Xcf
| Xd0
| Xd1
| Xd2
| Xd3
| Xd4
| Xd5
| Xd6
| Xd7
| Xd8
| Xd9
| Xda
| Xdb
| Xdc
| Xdd
| Xde
| Xdf
| Xe0
| Xe1
| Xe2
| Xe3
| Xe4
| Xe5
| Xe6
| Xe7
| Xe8
| Xe9
| Xea
| Xeb
| Xec
| Xed
| Xee
| Xef
| Xf0
| Xf1
| Xf2
| Xf3
| Xf4
| Xf5
| Xf6
| Xf7
| Xf8
| Xf9
| Xfa
| Xfb
| Xfc
| Xfd
| Xfe
| Xff

(** val to_bits :
    byte -> bool * (bool * (bool * (bool * (bool * (bool * (bool * bool)))))) **)

let to_bits = function
| X00 -> (false, (false, (false, (false, (false, (false, (false, false)))))))
| X01 -> (true, (false, (false, (false, (false, (false, (false, false)))))))
| X02 -> (false, (true, (false, (false, (false, (false, (false, false)))))))
| X03 -> (true, (true, (false, (false, (false, (false, (false, false)))))))
| X04 -> (false, (false, (true, (false, (false, (false, (false, false)))))))
| X05 -> (true, (false, (true, (false, (false, (false, (false, false)))))))
| X06 -> (false, (true, (true, (false, (false, (false, (false, false)))))))
| X07 -> (true, (true, (true, (false, (false, (false, (false, false)))))))
| X08 -> (false, (false, (false, (true, (false, (false, (false, false)))))))
| X09 -> (true, (false, (false, (true, (false, (false, (false, false)))))))
| X0a -> (false, (true, (false, (true, (false, (false, (false, false)))))))
| X0b -> (true, (true, (false, (true, (false, (false, (false, false)))))))
| X0c -> (false, (false, (true, (true, (false, (false, (false, false)))))))
| X0d -> (true, (false, (true, (true, (false, (false, (false, false)))))))
| X0e -> (false, (true, (true, (true, (false, (false, (false, false)))))))
| X0f -> (true, (true, (true, (true, (false, (false, (false, false)))))))
| X10 -> (false, (false, (false, (false, (true, (false, (false, false)))))))
| X11 -> (true, (false, (false, (false, (true, (false, (false, false)))))))
| X12 -> (false, (true, (false, (false, (true, (false, (false, false)))))))
| X13 -> (true, (true, (false, (false, (true, (false, (false, false)))))))
| X14 -> (false, (false, (true, (false, (true, (false, (false, false)))))))
| X15 -> (true, (false, (true, (false, (true, (false, (false, false)))))))
| X16 -> (false, (true, (true, (false, (true, (false, (false, false)))))))
| X17 -> (true, (true, (true, (false, (true, (false, (false, false)))))))
| X18 -> (false, (false, (false, (true, (true, (false, (false, false)))))))
| X19 -> (true, (false, (false, (true, (true, (false, (false, false)))))))
| X1a -> (false, (true, (false, (true, (true, (false, (false, false)))))))
| X1b -> (true, (true, (false, (true, (true, (false, (false, false)))))))
| X1c -> (false, (false, (true, (true, (true, (false, (false, false)))))))
| X1d -> (true, (false, (true, (true, (true, (false, (false, false)))))))
| X1e -> (false, (true, (true, (true, (true, (false, (false, false)))))))
| X1f -> (true, (true, (true, (true, (true, (false, (false, false)))))))
| X20 -> (false, (false, (false, (false, (false, (true, (false, false)))))))
| X21 -> (true, (false, (false, (false, (false, (true, (false, false)))))))
| X22 -> (false, (true, (false, (false, (false, (true, (false, false)))))))
| X23 -> (true, (true, (false, (false, (false, (true, (false, false)))))))
| X24 -> (false, (false, (true, (false, (false, (true, (false, false)))))))
| X25 -> (true, (false, (true, (false, (false, (true, (false, false)))))))
| X26 -> (false, (true, (true, (false, (false, (true, (false, false)))))))
| X27 -> (true, (true, (true, (false, (false, (true, (false, false)))))))
| X28 -> (false, (false, (false, (true, (false, (true, (false, false)))))))
| X29 -> (true, (false, (false, (true, (false, (true, (false, false)))))))
| X2a -> (false, (true, (false, (true, (false, (true, (false, false)))))))
| X2b -> (true, (true, (false, (true, (false, (true, (false, false)))))))
| X2c -> (false, (false, (true, (true, (false, (true, (false, false)))))))
| X2d -> (true, (false, (true, (true, (false, (true, (false, false)))))))
| X2e -> (false, (true, (true, (true, (false, (true, (false, false)))))))
| X2f -> (true, (true, (true, (true, (false, (true, (false, false)))))))
| X30 -> (false, (false, (false, (false, (true, (true, (false, false)))))))
| X31 -> (true, (false, (false, (false, (true, (true, (false, false)))))))
| X32 -> (false, (true, (false, (false, (true, (true, (false, false)))))))
| X33 -> (true, (true, (false, (false, (true, (true, (false, false)))))))
| X34 -> (false, (false, (true, (false, (true, (true, (false, false)))))))
| X35 -> (true, (false, (true, (false, (true, (true, (false, false)))))))
| X36 -> (false, (true, (true, (false, (true, (true, (false, false)))))))
| X37 -> (true, (true, (true, (false, (true, (true, (false, false)))))))
| X38 -> (false, (false, (false, (true, (true, (true, (false, false)))))))
| X39 -> (true, (false, (false, (true, (true, (true, (false, false)))))))
| X3a -> (false, (true, (false, (true, (true, (true, (false, false)))))))
| X3b -> (true, (true, (false, (true, (true, (true, (false, false)))))))
| X3c -> (false, (false, (true, (true, (true, (true, (false, false)))))))
| X3d -> (true, (false, (true, (true, (true, (true, (false, false)))))))
| X3e -> (false, (true, (true, (true, (true, (true, (false, false)))))))
| X3f -> (true, (true, (true, (true, (true, (true, (false, false)))))))
| X40 -> (false, (false, (false, (false, (false, (false, (true, false)))))))
| X41 -> (true, (false, (false, (false, (false, (false, (true, false)))))))
| X42 -> (false, (true, (false, (false, (false, (false, (true, false)))))))
| X43 -> (true, (true, (false, (false, (false, (false, (true, false)))))))
| X44 -> (false, (false, (true, (false, (false, (false, (true, false)))))))
| X45 -> (true, (false, (true, (false, (false, (false, (true, false)))))))
| X46 -> (false, (true, (true, (false, (false, (false, (true, false)))))))
| X47 -> (true, (true, (true, (false, (false, (false, (true, false)))))))
| X48 -> (false, (false, (false, (true, (false, (false, (true, false)))))))
| X49 -> (true, (false, (false, (true, (false, (false, (true, false)))))))
| X4a -> (false, (true, (false, (true, (false, (false, (true, false)))))))
| X4b -> (true, (true, (false, (true, (false, (false, (true, false)))))))
| X4c -> (false, (false, (true, (true, (false, (false, (true, false)))))))
| X4d -> (true, (false, (true, (true, (false, (false, (true, false)))))))
| X4e -> (false, (true, (true, (true, (false, (false, (true, false)))))))
| X4f -> (true, (true, (true, (true, (false, (false, (true, false)))))))
| X50 -> (false, (false, (false, (false, (true, (false, (true, false)))))))
| X51 -> (true, (false, (false, (false, (true, (false, (true, false)))))))
| X52 -> (false, (true, (false, (false, (true, (false, (true, false)))))))
| X53 -> (true, (true, (false, (false, (true, (false, (true, false)))))))
| X54 -> (false, (false, (true, (false, (true, (false, (true, false)))))))
| X55 -> (true, (false, (true, (false, (true, (false, (true, false)))))))
| X56 -> (false, (true, (true, (false, (true, (false, (true, false)))))))
| X57 -> (true, (true, (true, (false, (true, (false, (true, false)))))))
| X58 -> (false, (false, (false, (true, (true, (false, (true, false)))))))
| X59 -> (true, (false, (false, (true, (true, (false, (true, false)))))))
| X5a -> (false, (true, (false, (true, (true, (false, (true, false)))))))
| X5b -> (true, (true, (false, (true, (true, (false, (true, false)))))))
| X5c -> (false, (false, (true, (true, (true, (false, (true, false)))))))
| X5d -> (true, (false, (true, (true, (true, (false, (true, false)))))))
| X5e -> (false, (true, (true, (true, (true, (false, (true, false)))))))
| X5f -> (true, (true, (true, (true, (true, (false, (true, false)))))))
| X60 -> (false, (false, (false, (false, (false, (true, (true, false)))))))
| X61 -> (true, (false, (false, (false, (false, (true, (true, false)))))))
| X62 -> (false, (true, (false, (false, (false, (true, (true, false)))))))
| X63 -> (true, (true, (false, (false, (false, (true, (true, false)))))))
| X64 -> (false, (false, (true, (false, (false, (true, (true, false)))))))
| X65 -> (true, (false, (true, (false, (false, (true, (true, false)))))))
| X66 -> (false, (true, (true, (false, (false, (true, (true, false)))))))
| X67 -> (true, (true, (true, (false, (false, (true, (true, false)))))))
| X68 -> (false, (false, (false, (true, (false, (true, (true, false)))))))
| X69 -> (true, (false, (false, (true, (false, (true, (true, false)))))))
| X6a -> (false, (true, (false, (true, (false, (true, (true, false)))))))
| X6b -> (true, (true, (false, (true, (false, (true, (true, false)))))))
| X6c -> (false, (false, (true, (true, (false, (true, (true, false)))))))
| X6d -> (true, (false, (true, (true, (false, (true, (true, false)))))))
| X6e -> (false, (true, (true, (true, (false, (true, (true, false)))))))
| X6f -> (true, (true, (true, (true, (false, (true, (true, false)))))))
| X70 -> (false, (false, (false, (false, (true, (true, (true, false)))))))
| X71 -> (true, (false, (false, (false, (true, (true, (true, false)))))))
| X72 -> (false, (true, (false, (false, (true, (true, (true, false)))))))
| X73 -> (true, (true, (false, (false, (true, (true, (true, false)))))))
| X74 -> (false, (false, (true, (false, (true, (true, (true, false)))))))
| X75 -> (true, (false, (true, (false, (true, (true, (true, false)))))))
| X76 -> (false, (true, (true, (false, (true, (true, (true, false)))))))
| X77 -> (true, (true, (true, (false, (true, (true, (true, false)))))))
| X78 -> (false, (false, (false, (true, (true, (true, (true, false)))))))
| X79 -> (true, (false, (false, (true, (true, (true, (true, false)))))))
| X7a -> (false, (true, (false, (true, (true, (true, (true, false)))))))
| X7b -> (true, (true, (false, (true, (true, (true, (true, false)))))))
| X7c -> (false, (false, (true, (true, (true, (true, (true, false)))))))
| X7d -> (true, (false, (true, (true, (true, (true, (true, false)))))))
| X7e -> (false, (true, (true, (true, (true, (true, (true, false)))))))
| X7f -> (true, (true, (true, (true, (true, (true, (true, false)))))))
| X80 -> (false, (false, (false, (false, (false, (false, (false, true)))))))
| X81 -> (true, (false, (false, (false, (false, (false, (false, true)))))))
| X82 -> (false, (true, (false, (false, (false, (false, (false, true)))))))
| X83 -> (true, (true, (false, (false, (false, (false, (false, true)))))))
| X84 -> (false, (false, (true, (false, (false, (false, (false, true)))))))
| X85 -> (true, (false, (true, (false, (false, (false, (false, true)))))))
| X86 -> (false, (true, (true, (false, (false, (false, (false, true)))))))
| X87 -> (true, (true, (true, (false, (false, (false, (false, true)))))))
| X88 -> (false, (false, (false, (true, (false, (false, (false, true)))))))
| X89 -> (true, (false, (false, (true, (false, (false, (false, true)))))))
| X8a -> (false, (true, (false, (true, (false, (false, (false, true)))))))
| X8b -> (true, (true, (false, (true, (false, (false, (false, true)))))))
| X8c -> (false, (false, (true, (true, (false, (false, (false, true)))))))
| X8d -> (true, (false, (true, (true, (false, (false, (false, true)))))))
| X8e -> (false, (true, (true, (true, (false, (false, (false, true)))))))
| X8f -> (true, (true, (true, (true, (false, (false, (false, true)))))))
| X90 -> (false, (false, (false, (false, (true, (false, (false, true)))))))
| X91 -> (true, (false, (false, (false, (true, (false, (false, true)))))))
| X92 -> (false, (true, (false, (false, (true, (false, (false, true)))))))
| X93 -> (true, (true, (false, (false, (true, (false, (false, true)))))))
| X94 -> (false, (false, (true, (false, (true, (false, (false, true)))))))
| X95 -> (true, (false, (true, (false, (true, (false, (false, true)))))))
| X96 -> (false, (true, (true, (false, (true, (false, (false, true)))))))
| X97 -> (true, (true, (true, (false, (true, (false, (false, true)))))))
| X98 -> (false, (false, (false, (true, (true, (false, (false, true)))))))
| X99 -> (true, (false, (false, (true, (true, (false, (false, true)))))))
| X9a -> (false, (true, (false, (true, (true, (false, (false, true)))))))
| X9b -> (true, (true, (false, (true, (true, (false, (false, true)))))))
| X9c -> (false, (false, (true, (true, (true, (false, (false, true)))))))
| X9d -> (true, (false, (true, (true, (true, (false, (false, true)))))))
| X9e -> (false, (true, (true, (true, (true, (false, (false, true)))))))
| X9f -> (true, (true, (true, (true, (true, (false, (false, true)))))))
| Xa0 -> (false, (false, (false, (false, (false, (true, (false, true)))))))
| Xa1 -> (true, (false, (false, (false, (false, (true, (false, true)))))))
| Xa2 -> (false, (true, (false, (false, (false, (true, (false, true)))))))
| Xa3 -> (true, (true, (false, (false, (false, (true, (false, true)))))))
| Xa4 -> (false, (false, (true, (false, (false, (true, (false, true)))))))
| Xa5 -> (true, (false, (true, (false, (false, (true, (false, true)))))))
| Xa6 -> (false, (true, (true, (false, (false, (true, (false, true)))))))
| Xa7 -> (true, (true, (true, (false, (false, (true, (false, true)))))))
| Xa8 -> (false, (false, (false, (true, (false, (true, (false, true)))))))
| Xa9 -> (true, (false, (false, (true, (false, (true, (false, true)))))))
| Xaa -> (false, (true, (false, (true, (false, (true, (false, true)))))))
| Xab -> (true, (true, (false, (true, (false, (true, (false, true)))))))
| Xac -> (false, (false, (true, (true, (false, (true, (false, true)))))))
| Xad -> (true, (false, (true, (true, (false, (true, (false, true)))))))
| Xae -> (false, (true, (true, (true, (false, (true, (false, true)))))))
| Xaf -> (true, (true, (true, (true, (false, (true, (false, true)))))))
| Xb0 -> (false, (false, (false, (false, (true, (true, (false, true)))))))
| Xb1 -> (true, (false, (false, (false, (true, (true, (false, true)))))))
| Xb2 -> (false, (true, (false, (false, (true, (true, (false, true)))))))
| Xb3 -> (true, (true, (false, (false, (true, (true, (false, true)))))))
| Xb4 -> (false, (false, (true, (false, (true, (true, (false, true)))))))
| Xb5 -> (true, (false, (true, (false, (true, (true, (false, true)))))))
| Xb6 -> (false, (true, (true, (false, (true, (true, (false, true)))))))
| Xb7 -> (true, (true, (true, (false, (true, (true, (false, true)))))))
| Xb8 -> (false, (false, (false, (true, (true, (true, (false, true)))))))
| Xb9 -> (true, (false, (false, (true, (true, (true, (false, true)))))))
| Xba -> (false, (true, (false, (true, (true, (true, (false, true)))))))
| Xbb -> (true, (true, (false, (true, (true, (true, (false, true)))))))
| Xbc -> (false, (false, (true, (true, (true, (true, (false, true)))))))
| Xbd -> (true, (false, (true, (true, (true, (true, (false, true)))))))
| Xbe -> (false, (true, (true, (true, (true, (true, (false, true)))))))
| Xbf -> (true, (true, (true, (true, (true, (true, (false, true)))))))
| Xc0 -> (false, (false, (false, (false, (false, (false, (true, true)))))))
| Xc1 -> (true, (false, (false, (false, (false, (false, (true, true)))))))
| Xc2 -> (false, (true, (false, (false, (false, (false, (true, true)))))))
| Xc3 -> (true, (true, (false, (false, (false, (false, (true, true)))))))
| Xc4 -> (false, (false, (true, (false, (false, (false, (true, true)))))))
| Xc5 -> (true, (false, (true, (false, (false, (false, (true, true)))))))
| Xc6 -> (false, (true, (true, (false, (false, (false, (true, true)))))))
| Xc7 -> (true, (true, (true, (false, (false, (false, (true, true)))))))
| Xc8 -> (false, (false, (false, (true, (false, (false, (true, true)))))))
| Xc9 -> (true, (false, (false, (true, (false, (false, (true, true)))))))
| Xca -> (false, (true, (false, (true, (false, (false, (true, true)))))))
| Xcb -> (true, (true, (false, (true, (false, (false, (true, true)))))))
| Xcc -> (false, (false, (true, (true, (false, (false, (true, true)))))))
| Xcd -> (true, (false, (true, (true, (false, (false, (true, true)))))))
| Xce -> (false, (true, (true, (true, (false, (false, (true, true)))))))
| Xcf -> (true, (true, (true, (true, (false, (false, (true, true)))))))
| Xd0 -> (false, (false, (false, (false, (true, (false, (true, true)))))))
| Xd1 -> (true, (false, (false, (false, (true, (false, (true, true)))))))
| Xd2 -> (false, (true, (false, (false, (true, (false, (true, true)))))))
| Xd3 -> (true, (true, (false, (false, (true, (false, (true, true)))))))
| Xd4 -> (false, (false, (true, (false, (true, (false, (true, true)))))))
| Xd5 -> (true, (false, (true, (false, (true, (false, (true, true)))))))
| Xd6 -> (false, (true, (true, (false, (true, (false, (true, true)))))))
| Xd7 -> (true, (true, (true, (false, (true, (false, (true, true)))))))
| Xd8 -> (false, (false, (false, (true, (true, (false, (true, true)))))))
| Xd9 -> (true, (false, (false, (true, (true, (false, (true, true)))))))
| Xda -> (false, (true, (false, (true, (true, (false, (true, true)))))))
| Xdb -> (true, (true, (false, (true, (true, (false, (true, true)))))))
| Xdc -> (false, (false, (true, (true, (true, (false, (true, true)))))))
| Xdd -> (true, (false, (true, (true, (true, (false, (true, true)))))))
| Xde -> (false, (true, (true, (true, (true, (false, (true, true)))))))
| Xdf -> (true, (true, (true, (true, (true, (false, (true, true)))))))
| Xe0 -> (false, (false, (false, (false, (false, (true, (true, true)))))))
| Xe1 -> (true, (false, (false, (false, (false, (true, (true, true)))))))
| Xe2 -> (false, (true, (false, (false, (false, (true, (true, true)))))))
| Xe3 -> (true, (true, (false, (false, (false, (true, (true, true)))))))
| Xe4 -> (false, (false, (true, (false, (false, (true, (true, true)))))))
| Xe5 -> (true, (false, (true, (false, (false, (true, (true, true)))))))
| Xe6 -> (false, (true, (true, (false, (false, (true, (true, true)))))))
| Xe7 -> (true, (true, (true, (false, (false, (true, (true, true)))))))
| Xe8 -> (false, (false, (false, (true, (false, (true, (true, true)))))))
| Xe9 -> (true, (false, (false, (true, (false, (true, (true, true)))))))
| Xea -> (false, (true, (false, (true, (false, (true, (true, true)))))))
| Xeb -> (true, (true, (false, (true, (false, (true, (true, true)))))))
| Xec -> (false, (false, (true, (true, (false, (true, (true, true)))))))
| Xed -> (true, (false, (true, (true, (false, (true, (true, true)))))))
| Xee -> (false, (true, (true, (true, (false, (true, (true, true)))))))
| Xef -> (true, (true, (true, (true, (false, (true, (true, true)))))))
| Xf0 -> (false, (false, (false, (false, (true, (true, (true, true)))))))
| Xf1 -> (true, (false, (false, (false, (true, (true, (true, true)))))))
| Xf2 -> (false, (true, (false, (false, (true, (true, (true, true)))))))
| Xf3 -> (true, (true, (false, (false, (true, (true, (true, true)))))))
| Xf4 -> (false, (false, (true, (false, (true, (true, (true, true)))))))
| Xf5 -> (true, (false, (true, (false, (true, (true, (true, true)))))))
| Xf6 -> (false, (true, (true, (false, (true, (true, (true, true)))))))
| Xf7 -> (true, (true, (true, (false, (true, (true, (true, true)))))))
| Xf8 -> (false, (false, (false, (true, (true, (true, (true, true)))))))
| Xf9 -> (true, (false, (false, (true, (true, (true, (true, true)))))))
| Xfa -> (false, (true, (false, (true, (true, (true, (true, true)))))))
| Xfb -> (true, (true, (false, (true, (true, (true, (true, true)))))))
| Xfc -> (false, (false, (true, (true, (true, (true, (true, true)))))))
| Xfd -> (true, (false, (true, (true, (true, (true, (true, true)))))))
| Xfe -> (false, (true, (true, (true, (true, (true, (true, true)))))))
| Xff -> (true, (true, (true, (true, (true, (true, (true, true)))))))

(** val eqb : bool -> bool -> bool **)

let eqb b1 b2 =
  if b1 then b2 else if b2 then false else true

module Nat =
 struct
  (** val eqb : nat -> nat -> bool **)

  let rec eqb n0 m =
    match n0 with
    | O -> (match m with
            | O -> true
            | S _ -> false)
    | S n' -> (match m with
               | O -> false
               | S m' -> eqb n' m')

  (** val leb : nat -> nat -> bool **)

  let rec leb n0 m =
    match n0 with
    | O -> true
    | S n' -> (match m with
               | O -> false
               | S m' -> leb n' m')

  (** val ltb : nat -> nat -> bool **)

  let ltb n0 m =
    leb (S n0) m
 end

(** val nth_error : 'a1 list -> nat -> 'a1 option **)

let rec nth_error l = function
| O -> (match l with
        | [] -> None
        | x :: _ -> Some x)
| S n1 -> (match l with
           | [] -> None
           | _ :: l0 -> nth_error l0 n1)

(** val map : ('a1 -> 'a2) -> 'a1 list -> 'a2 list **)

let rec map f = function
| [] -> []
| a :: t -> (f a) :: (map f t)

(** val flat_map : ('a1 -> 'a2 list) -> 'a1 list -> 'a2 list **)

let rec flat_map f = function
| [] -> []
| x :: t -> app (f x) (flat_map f t)

(** val existsb : ('a1 -> bool) -> 'a1 list -> bool **)

let rec existsb f = function
| [] -> false
| a :: l0 -> (||) (f a) (existsb f l0)

(** val forallb : ('a1 -> bool) -> 'a1 list -> bool **)

let rec forallb f = function
| [] -> true
| a :: l0 -> (&&) (f a) (forallb f l0)

(** val filter : ('a1 -> bool) -> 'a1 list -> 'a1 list **)

let rec filter f = function
| [] -> []
| x :: l0 -> if f x then x :: (filter f l0) else filter f l0

type positive =
| XI of positive
| XO of positive
| XH

type n =
| N0
| Npos of positive

type z =
| Z0
| Zpos of positive
| Zneg of positive

(** val eqb0 : byte -> byte -> bool **)

let eqb0 a b =
  let (a0, p) = to_bits a in
  let (a1, p0) = p in
  let (a2, p1) = p0 in
  let (a3, p2) = p1 in
  let (a4, p3) = p2 in
  let (a5, p4) = p3 in
  let (a6, a7) = p4 in
  let (b0, p5) = to_bits b in
  let (b1, p6) = p5 in
  let (b2, p7) = p6 in
  let (b3, p8) = p7 in
  let (b4, p9) = p8 in
  let (b5, p10) = p9 in
  let (b6, b7) = p10 in
  (&&)
    ((&&)
      ((&&)
        ((&&)
          ((&&) ((&&) ((&&) (eqb a0 b0) (eqb a1 b1)) (eqb a2 b2)) (eqb a3 b3))
          (eqb a4 b4)) (eqb a5 b5)) (eqb a6 b6)) (eqb a7 b7)

(** val to_N : byte -> n **)

let to_N = function
| X00 -> N0
| X01 -> Npos XH
| X02 -> Npos (XO XH)
| X03 -> Npos (XI XH)
| X04 -> Npos (XO (XO XH))
| X05 -> Npos (XI (XO XH))
| X06 -> Npos (XO (XI XH))
| X07 -> Npos (XI (XI XH))
| X08 -> Npos (XO (XO (XO XH)))
| X09 -> Npos (XI (XO (XO XH)))
| X0a -> Npos (XO (XI (XO XH)))
| X0b -> Npos (XI (XI (XO XH)))
| X0c -> Npos (XO (XO (XI XH)))
| X0d -> Npos (XI (XO (XI XH)))
| X0e -> Npos (XO (XI (XI XH)))
| X0f -> Npos (XI (XI (XI XH)))
| X10 -> Npos (XO (XO (XO (XO XH))))
| X11 -> Npos (XI (XO (XO (XO XH))))
| X12 -> Npos (XO (XI (XO (XO XH))))
| X13 -> Npos (XI (XI (XO (XO XH))))
| X14 -> Npos (XO (XO (XI (XO XH))))
| X15 -> Npos (XI (XO (XI (XO XH))))
| X16 -> Npos (XO (XI (XI (XO XH))))
| X17 -> Npos (XI (XI (XI (XO XH))))
| X18 -> Npos (XO (XO (XO (XI XH))))
| X19 -> Npos (XI (XO (XO (XI XH))))
| X1a -> Npos (XO (XI (XO (XI XH))))
| X1b -> Npos (XI (XI (XO (XI XH))))
| X1c -> Npos (XO (XO (XI (XI XH))))
| X1d -> Npos (XI (XO (XI (XI XH))))
| X1e -> Npos (XO (XI (XI (XI XH))))
| X1f -> Npos (XI (XI (XI (XI XH))))
| X20 -> Npos (XO (XO (XO (XO (XO XH)))))
| X21 -> Npos (XI (XO (XO (XO (XO XH)))))
| X22 -> Npos (XO (XI (XO (XO (XO XH)))))
| X23 -> Npos (XI (XI (XO (XO (XO XH)))))
| X24 -> Npos (XO (XO (XI (XO (XO XH)))))
| X25 -> Npos (XI (XO (XI (XO (XO XH)))))
| X26 -> Npos (XO (XI (XI (XO (XO XH)))))
| X27 -> Npos (XI (XI (XI (XO (XO XH)))))
| X28 -> Npos (XO (XO (XO (XI (XO XH)))))
| X29 -> Npos (XI (XO (XO (XI (XO XH)))))
| X2a -> Npos (XO (XI (XO (XI (XO XH)))))
| X2b -> Npos (XI (XI (XO (XI (XO XH)))))
| X2c -> Npos (XO (XO (XI (XI (XO XH)))))
| X2d -> Npos (XI (XO (XI (XI (XO XH)))))
| X2e -> Npos (XO (XI (XI (XI (XO XH)))))
| X2f -> Npos (XI (XI (XI (XI (XO XH)))))
| X30 -> Npos (XO (XO (XO (XO (XI XH)))))
| X31 -> Npos (XI (XO (XO (XO (XI XH)))))
| X32 -> Npos (XO (XI (XO (XO (XI XH)))))
| X33 -> Npos (XI (XI (XO (XO (XI XH)))))
| X34 -> Npos (XO (XO (XI (XO (XI XH)))))
| X35 -> Npos (XI (XO (XI (XO (XI XH)))))
| X36 -> Npos (XO (XI (XI (XO (XI XH)))))
| X37 -> Npos (XI (XI (XI (XO (XI XH)))))
| X38 -> Npos (XO (XO (XO (XI (XI XH)))))
| X39 -> Npos (XI (XO (XO (XI (XI XH)))))
| X3a -> Npos (XO (XI (XO (XI (XI XH)))))
| X3b -> Npos (XI (XI (XO (XI (XI XH)))))
| X3c -> Npos (XO (XO (XI (XI (XI XH)))))
| X3d -> Npos (XI (XO (XI (XI (XI XH)))))
| X3e -> Npos (XO (XI (XI (XI (XI XH)))))
| X3f -> Npos (XI (XI (XI (XI (XI XH)))))
| X40 -> Npos (XO (XO (XO (XO (XO (XO XH))))))
| X41 -> Npos (XI (XO (XO (XO (XO (XO XH))))))
| X42 -> Npos (XO (XI (XO (XO (XO (XO XH))))))
| X43 -> Npos (XI (XI (XO (XO (XO (XO XH))))))
| X44 -> Npos (XO (XO (XI (XO (XO (XO XH))))))
| X45 -> Npos (XI (XO (XI (XO (XO (XO XH))))))
| X46 -> Npos (XO (XI (XI (XO (XO (XO XH))))))
| X47 -> Npos (XI (XI (XI (XO (XO (XO XH))))))
| X48 -> Npos (XO (XO (XO (XI (XO (XO XH))))))
| X49 -> Npos (XI (XO (XO (XI (XO (XO XH))))))
| X4a -> Npos (XO (XI (XO (XI (XO (XO XH))))))
| X4b -> Npos (XI (XI (XO (XI (XO (XO XH))))))
| X4c -> Npos (XO (XO (XI (XI (XO (XO XH))))))
| X4d -> Npos (XI (XO (XI (XI (XO (XO XH))))))
| X4e -> Npos (XO (XI (XI (XI (XO (XO XH))))))
| X4f -> Npos (XI (XI (XI (XI (XO (XO XH))))))
| X50 -> Npos (XO (XO (XO (XO (XI (XO XH))))))
| X51 -> Npos (XI (XO (XO (XO (XI (XO XH))))))
| X52 -> Npos (XO (XI (XO (XO (XI (XO XH))))))
| X53 -> Npos (XI (XI (XO (XO (XI (XO XH))))))
| X54 -> Npos (XO (XO (XI (XO (XI (XO XH))))))
| X55 -> Npos (XI (XO (XI (XO (XI (XO XH))))))
| X56 -> Npos (XO (XI (XI (XO (XI (XO XH))))))
| X57 -> Npos (XI (XI (XI (XO (XI (XO XH))))))
| X58 -> Npos (XO (XO (XO (XI (XI (XO XH))))))
| X59 -> Npos (XI (XO (XO (XI (XI (XO XH))))))
| X5a -> Npos (XO (XI (XO (XI (XI (XO XH))))))
| X5b -> Npos (XI (XI (XO (XI (XI (XO XH))))))
| X5c -> Npos (XO (XO (XI (XI (XI (XO XH))))))
| X5d -> Npos (XI (XO (XI (XI (XI (XO XH))))))
| X5e -> Npos (XO (XI (XI (XI (XI (XO XH))))))
| X5f -> Npos (XI (XI (XI (XI (XI (XO XH))))))
| X60 -> Npos (XO (XO (XO (XO (XO (XI XH))))))
| X61 -> Npos (XI (XO (XO (XO (XO (XI XH))))))
| X62 -> Npos (XO (XI (XO (XO (XO (XI XH))))))
| X63 -> Npos (XI (XI (XO (XO (XO (XI XH))))))
| X64 -> Npos (XO (XO (XI (XO (XO (XI XH))))))
| X65 -> Npos (XI (XO (XI (XO (XO (XI XH))))))
| X66 -> Npos (XO (XI (XI (XO (XO (XI XH))))))
| X67 -> Npos (XI (XI (XI (XO (XO (XI XH))))))
| X68 -> Npos (XO (XO (XO (XI (XO (XI XH))))))
| X69 -> Npos (XI (XO (XO (XI (XO (XI XH))))))
| X6a -> Npos (XO (XI (XO (XI (XO (XI XH))))))
| X6b -> Npos (XI (XI (XO (XI (XO (XI XH))))))
| X6c -> Npos (XO (XO (XI (XI (XO (XI XH))))))
| X6d -> Npos (XI (XO (XI (XI (XO (XI XH))))))
| X6e -> Npos (XO (XI (XI (XI (XO (XI XH))))))
| X6f -> Npos (XI (XI (XI (XI (XO (XI XH))))))
| X70 -> Npos (XO (XO (XO (XO (XI (XI XH))))))
| X71 -> Npos (XI (XO (XO (XO (XI (XI XH))))))
| X72 -> Npos (XO (XI (XO (XO (XI (XI XH))))))
| X73 -> Npos (XI (XI (XO (XO (XI (XI XH))))))
| X74 -> Npos (XO (XO (XI (XO (XI (XI XH))))))
| X75 -> Npos (XI (XO (XI (XO (XI (XI XH))))))
| X76 -> Npos (XO (XI (XI (XO (XI (XI XH))))))
| X77 -> Npos (XI (XI (XI (XO (XI (XI XH))))))
| X78 -> Npos (XO (XO (XO (XI (XI (XI XH))))))
| X79 -> Npos (XI (XO (XO (XI (XI (XI XH))))))
| X7a -> Npos (XO (XI (XO (XI (XI (XI XH))))))
| X7b -> Npos (XI (XI (XO (XI (XI (XI XH))))))
| X7c -> Npos (XO (XO (XI (XI (XI (XI XH))))))
| X7d -> Npos (XI (XO (XI (XI (XI (XI XH))))))
| X7e -> Npos (XO (XI (XI (XI (XI (XI XH))))))
| X7f -> Npos (XI (XI (XI (XI (XI (XI XH))))))
| X80 -> Npos (XO (XO (XO (XO (XO (XO (XO XH)))))))
| X81 -> Npos (XI (XO (XO (XO (XO (XO (XO XH)))))))
| X82 -> Npos (XO (XI (XO (XO (XO (XO (XO XH)))))))
| X83 -> Npos (XI (XI (XO (XO (XO (XO (XO XH)))))))
| X84 -> Npos (XO (XO (XI (XO (XO (XO (XO XH)))))))
| X85 -> Npos (XI (XO (XI (XO (XO (XO (XO XH)))))))
| X86 -> Npos (XO (XI (XI (XO (XO (XO (XO XH)))))))
| X87 -> Npos (XI (XI (XI (XO (XO (XO (XO XH)))))))
| X88 -> Npos (XO (XO (XO (XI (XO (XO (XO XH)))))))
| X89 -> Npos (XI (XO (XO (XI (XO (XO (XO XH)))))))
| X8a -> Npos (XO (XI (XO (XI (XO (XO (XO XH)))))))
| X8b -> Npos (XI (XI (XO (XI (XO (XO (XO XH)))))))
| X8c -> Npos (XO (XO (XI (XI (XO (XO (XO XH)))))))
| X8d -> Npos (XI (XO (XI (XI (XO (XO (XO XH)))))))
| X8e -> Npos (XO (XI (XI (XI (XO (XO (XO XH)))))))
| X8f -> Npos (XI (XI (XI (XI (XO (XO (XO XH)))))))
| X90 -> Npos (XO (XO (XO (XO (XI (XO (XO XH)))))))
| X91 -> Npos (XI (XO (XO (XO (XI (XO (XO XH)))))))
| X92 -> Npos (XO (XI (XO (XO (XI (XO (XO XH)))))))
| X93 -> Npos (XI (XI (XO (XO (XI (XO (XO XH)))))))
| X94 -> Npos (XO (XO (XI (XO (XI (XO (XO XH)))))))
| X95 -> Npos (XI (XO (XI (XO (XI (XO (XO XH)))))))
| X96 -> Npos (XO (XI (XI (XO (XI (XO (XO XH)))))))
| X97 -> Npos (XI (XI (XI (XO (XI (XO (XO XH)))))))
| X98 -> Npos (XO (XO (XO (XI (XI (XO (XO XH)))))))
| X99 -> Npos (XI (XO (XO (XI (XI (XO (XO XH)))))))
| X9a -> Npos (XO (XI (XO (XI (XI (XO (XO XH)))))))
| X9b -> Npos (XI (XI (XO (XI (XI (XO (XO XH)))))))
| X9c -> Npos (XO (XO (XI (XI (XI (XO (XO XH)))))))
| X9d -> Npos (XI (XO (XI (XI (XI (XO (XO XH)))))))
| X9e -> Npos (XO (XI (XI (XI (XI (XO (XO XH)))))))
| X9f -> Npos (XI (XI (XI (XI (XI (XO (XO XH)))))))
| Xa0 -> Npos (XO (XO (XO (XO (XO (XI (XO XH)))))))
| Xa1 -> Npos (XI (XO (XO (XO (XO (XI (XO XH)))))))
| Xa2 -> Npos (XO (XI (XO (XO (XO (XI (XO XH)))))))
| Xa3 -> Npos (XI (XI (XO (XO (XO (XI (XO XH)))))))
| Xa4 -> Npos (XO (XO (XI (XO (XO (XI (XO XH)))))))
| Xa5 -> Npos (XI (XO (XI (XO (XO (XI (XO XH)))))))
| Xa6 -> Npos (XO (XI (XI (XO (XO (XI (XO XH)))))))
| Xa7 -> Npos (XI (XI (XI (XO (XO (XI (XO XH)))))))
| Xa8 -> Npos (XO (XO (XO (XI (XO (XI (XO XH)))))))
| Xa9 -> Npos (XI (XO (XO (XI (XO (XI (XO XH)))))))
| Xaa -> Npos (XO (XI (XO (XI (XO (XI (XO XH)))))))
| Xab -> Npos (XI (XI (XO (XI (XO (XI (XO XH)))))))
| Xac -> Npos (XO (XO (XI (XI (XO (XI (XO XH)))))))
| Xad -> Npos (XI (XO (XI (XI (XO (XI (XO XH)))))))
| Xae -> Npos (XO (XI (XI (XI (XO (XI (XO XH)))))))
| Xaf -> Npos (XI (XI (XI (XI (XO (XI (XO XH)))))))
| Xb0 -> Npos (XO (XO (XO (XO (XI (XI (XO XH)))))))
| Xb1 -> Npos (XI (XO (XO (XO (XI (XI (XO XH)))))))
| Xb2 -> Npos (XO (XI (XO (XO (XI (XI (XO XH)))))))
| Xb3 -> Npos (XI (XI (XO (XO (XI (XI (XO XH)))))))
| Xb4 -> Npos (XO (XO (XI (XO (XI (XI (XO XH)))))))
| Xb5 -> Npos (XI (XO (XI (XO (XI (XI (XO XH)))))))
| Xb6 -> Npos (XO (XI (XI (XO (XI (XI (XO XH)))))))
| Xb7 -> Npos (XI (XI (XI (XO (XI (XI (XO XH)))))))
| Xb8 -> Npos (XO (XO (XO (XI (XI (XI (XO XH)))))))
| Xb9 -> Npos (XI (XO (XO (XI (XI (XI (XO XH)))))))
| Xba -> Npos (XO (XI (XO (XI (XI (XI (XO XH)))))))
| Xbb -> Npos (XI (XI (XO (XI (XI (XI (XO XH)))))))
| Xbc -> Npos (XO (XO (XI (XI (XI (XI (XO XH)))))))
| Xbd -> Npos (XI (XO (XI (XI (XI (XI (XO XH)))))))
| Xbe -> Npos (XO (XI (XI (XI (XI (XI (XO XH)))))))
| Xbf -> Npos (XI (XI (XI (XI (XI (XI (XO XH)))))))
| Xc0 -> Npos (XO (XO (XO (XO (XO (XO (XI XH)))))))
| Xc1 -> Npos (XI (XO (XO (XO (XO (XO (XI XH)))))))
| Xc2 -> Npos (XO (XI (XO (XO (XO (XO (XI XH)))))))
| Xc3 -> Npos (XI (XI (XO (XO (XO (XO (XI XH)))))))
| Xc4 -> Npos (XO (XO (XI (XO (XO (XO (XI XH)))))))
| Xc5 -> Npos (XI (XO (XI (XO (XO (XO (XI XH)))))))
| Xc6 -> Npos (XO (XI (XI (XO (XO (XO (XI XH)))))))
| Xc7 -> Npos (XI (XI (XI (XO (XO (XO (XI XH)))))))
| Xc8 -> Npos (XO (XO (XO (XI (XO (XO (XI XH)))))))
| Xc9 -> Npos (XI (XO (XO (XI (XO (XO (XI XH)))))))
| Xca -> Npos (XO (XI (XO (XI (XO (XO (XI XH)))))))
| Xcb -> Npos (XI (XI (XO (XI (XO (XO (XI XH)))))))
| Xcc -> Npos (XO (XO (XI (XI (XO (XO (XI XH)))))))
| Xcd -> Npos (XI (XO (XI (XI (XO (XO (XI XH)))))))
| Xce -> Npos (XO (XI (XI (XI (XO (XO (XI XH)))))))
| Xcf -> Npos (XI (XI (XI (XI (XO (XO (XI XH)))))))
| Xd0 -> Npos (XO (XO (XO (XO (XI (XO (XI XH)))))))
| Xd1 -> Npos (XI (XO (XO (XO (XI (XO (XI XH)))))))
| Xd2 -> Npos (XO (XI (XO (XO (XI (XO (XI XH)))))))
| Xd3 -> Npos (XI (XI (XO (XO (XI (XO (XI XH)))))))
| Xd4 -> Npos (XO (XO (XI (XO (XI (XO (XI XH)))))))
| Xd5 -> Npos (XI (XO (XI (XO (XI (XO (XI XH)))))))
| Xd6 -> Npos (XO (XI (XI (XO (XI (XO (XI XH)))))))
| Xd7 -> Npos (XI (XI (XI (XO (XI (XO (XI XH)))))))
| Xd8 -> Npos (XO (XO (XO (XI (XI (XO (XI XH)))))))
| Xd9 -> Npos (XI (XO (XO (XI (XI (XO (XI XH)))))))
| Xda -> Npos (XO (XI (XO (XI (XI (XO (XI XH)))))))
| Xdb -> Npos (XI (XI (XO (XI (XI (XO (XI XH)))))))
| Xdc -> Npos (XO (XO (XI (XI (XI (XO (XI XH)))))))
| Xdd -> Npos (XI (XO (XI (XI (XI (XO (XI XH)))))))
| Xde -> Npos (XO (XI (XI (XI (XI (XO (XI XH)))))))
| Xdf -> Npos (XI (XI (XI (XI (XI (XO (XI XH)))))))
| Xe0 -> Npos (XO (XO (XO (XO (XO (XI (XI XH)))))))
| Xe1 -> Npos (XI (XO (XO (XO (XO (XI (XI XH)))))))
| Xe2 -> Npos (XO (XI (XO (XO (XO (XI (XI XH)))))))
| Xe3 -> Npos (XI (XI (XO (XO (XO (XI (XI XH)))))))
| Xe4 -> Npos (XO (XO (XI (XO (XO (XI (XI XH)))))))
| Xe5 -> Npos (XI (XO (XI (XO (XO (XI (XI XH)))))))
| Xe6 -> Npos (XO (XI (XI (XO (XO (XI (XI XH)))))))
| Xe7 -> Npos (XI (XI (XI (XO (XO (XI (XI XH)))))))
| Xe8 -> Npos (XO (XO (XO (XI (XO (XI (XI XH)))))))
| Xe9 -> Npos (XI (XO (XO (XI (XO (XI (XI XH)))))))
| Xea -> Npos (XO (XI (XO (XI (XO (XI (XI XH)))))))
| Xeb -> Npos (XI (XI (XO (XI (XO (XI (XI XH)))))))
| Xec -> Npos (XO (XO (XI (XI (XO (XI (XI XH)))))))
| Xed -> Npos (XI (XO (XI (XI (XO (XI (XI XH)))))))
| Xee -> Npos (XO (XI (XI (XI (XO (XI (XI XH)))))))
| Xef -> Npos (XI (XI (XI (XI (XO (XI (XI XH)))))))
| Xf0 -> Npos (XO (XO (XO (XO (XI (XI (XI XH)))))))
| Xf1 -> Npos (XI (XO (XO (XO (XI (XI (XI XH)))))))
| Xf2 -> Npos (XO (XI (XO (XO (XI (XI (XI XH)))))))
| Xf3 -> Npos (XI (XI (XO (XO (XI (XI (XI XH)))))))
| Xf4 -> Npos (XO (XO (XI (XO (XI (XI (XI XH)))))))
| Xf5 -> Npos (XI (XO (XI (XO (XI (XI (XI XH)))))))
| Xf6 -> Npos (XO (XI (XI (XO (XI (XI (XI XH)))))))
| Xf7 -> Npos (XI (XI (XI (XO (XI (XI (XI XH)))))))
| Xf8 -> Npos (XO (XO (XO (XI (XI (XI (XI XH)))))))
| Xf9 -> Npos (XI (XO (XO (XI (XI (XI (XI XH)))))))
| Xfa -> Npos (XO (XI (XO (XI (XI (XI (XI XH)))))))
| Xfb -> Npos (XI (XI (XO (XI (XI (XI (XI XH)))))))
| Xfc -> Npos (XO (XO (XI (XI (XI (XI (XI XH)))))))
| Xfd -> Npos (XI (XO (XI (XI (XI (XI (XI XH)))))))
| Xfe -> Npos (XO (XI (XI (XI (XI (XI (XI XH)))))))
| Xff -> Npos (XI (XI (XI (XI (XI (XI (XI XH)))))))

type fault =
| OOB_read
| OOB_write
| Uninit_read
| Null_deref
| Use_after_free
| Bad_free
| Out_of_fuel
| Int_overflow
| Abort

type 'a res =
| Ok of 'a
| Fault of fault

(** val bind : 'a1 res -> ('a1 -> 'a2 res) -> 'a2 res **)

let bind r k =
  match r with
  | Ok a -> k a
  | Fault f -> Fault f

(** val num_anchor : ((nat * positive) * n) * z **)

let num_anchor =
  (((O, XH), N0), Z0)

type fname = byte list
  (* singleton inductive, whose constructor was FN *)

(** val bytes_of_fname : fname -> byte list **)

let bytes_of_fname n0 =
  n0

(** val fname_codes : fname -> n list **)

let fname_codes n0 =
  map to_N (bytes_of_fname n0)

(** val bytes_eqb : byte list -> byte list -> bool **)

let rec bytes_eqb a b =
  match a with
  | [] -> (match b with
           | [] -> true
           | _ :: _ -> false)
  | x :: a' ->
    (match b with
     | [] -> false
     | y :: b' -> (&&) (eqb0 x y) (bytes_eqb a' b'))

(** val fname_eqb : fname -> fname -> bool **)

let fname_eqb a b =
  bytes_eqb (bytes_of_fname a) (bytes_of_fname b)

type rty =
| TVoid
| TBool
| TCmp
| TFloat
| TPtr
| TInt

type rval =
| RvVoid
| RvFalse
| RvTrue
| RvNull
| RvNullStr
| RvNeg1
| RvZero
| RvNaN
| RvCmpLess
| RvCmpEqual
| RvCmpGreater
| RvCall of fname
| RvHandled
| RvOther

type gkind =
| GAssert
| GRequire
| GAssertV
| GRequireV
| GIf

type dpost =
| PId
| PNullToFalse

type item =
| Deref of nat
| Use of nat
| Call_alloc
| Guard of gkind * nat list * rval
| CompNull of nat * nat
| Delegate of fname * nat option list * dpost
| Body

type reach =
| Exported
| Slot
| Helper

type entry = { e_name : fname; e_reach : reach; e_ret : rty;
               e_params : bool list; e_self : nat option; e_slots : nat;
               e_parsed : bool; e_prelude : item list }

type gact =
| AFatal
| AWarn
| ADprint
| AReturn

type guard_sem = { gs_thr : nat; gs_hi : gact list; gs_lo : gact list;
                   gs_after : gact list }

type sems = { s_assert_rval : guard_sem; s_require_rval : guard_sem;
              s_assert : guard_sem; s_require : guard_sem;
              s_comp_both : rval; s_comp_first : rval; s_comp_second : 
              rval }

(** val if_sem : guard_sem **)

let if_sem =
  { gs_thr = O; gs_hi = []; gs_lo = []; gs_after = (AReturn :: []) }

(** val sem_of : sems -> gkind -> guard_sem **)

let sem_of m = function
| GAssert -> m.s_assert_rval
| GRequire -> m.s_require_rval
| GAssertV -> m.s_assert
| GRequireV -> m.s_require
| GIf -> if_sem

type outcome =
| Returned of rval
| Fatal
| Crashed
| Carried_on

type result = outcome * bool

(** val run_acts : gact list -> rval -> outcome option **)

let rec run_acts acts rv =
  match acts with
  | [] -> None
  | g :: r ->
    (match g with
     | AFatal -> Some Fatal
     | AReturn -> Some (Returned rv)
     | _ -> run_acts r rv)

(** val fire : guard_sem -> nat -> rval -> outcome option **)

let fire g l rv =
  run_acts (app (if Nat.leb g.gs_thr l then g.gs_hi else g.gs_lo) g.gs_after)
    rv

(** val find_entry : fname -> entry list -> entry option **)

let rec find_entry n0 = function
| [] -> None
| e :: r -> if fname_eqb n0 e.e_name then Some e else find_entry n0 r

(** val arg_index : nat -> nat option list -> nat -> nat option **)

let rec arg_index p args k =
  match args with
  | [] -> None
  | o :: r ->
    (match o with
     | Some q -> if Nat.eqb q p then Some k else arg_index p r (S k)
     | None -> arg_index p r (S k))

(** val mem : nat -> nat list -> bool **)

let mem p ps =
  existsb (Nat.eqb p) ps

(** val post_out : dpost -> outcome -> outcome **)

let post_out d o =
  match d with
  | PId -> o
  | PNullToFalse ->
    (match o with
     | Returned v ->
       (match v with
        | RvNull -> Returned RvFalse
        | _ -> Returned RvTrue)
     | _ -> o)

(** val eval_items :
    sems -> nat -> (fname -> nat -> result) -> item list -> nat -> bool ->
    result **)

let rec eval_items m l callee its p alloc =
  match its with
  | [] -> (Carried_on, alloc)
  | i :: r ->
    (match i with
     | Deref q ->
       if Nat.eqb q p
       then (Crashed, alloc)
       else eval_items m l callee r p alloc
     | Use q ->
       if Nat.eqb q p
       then (Crashed, alloc)
       else eval_items m l callee r p alloc
     | Call_alloc -> eval_items m l callee r p true
     | Guard (k, ps, rv) ->
       if mem p ps
       then (match fire (sem_of m k) l rv with
             | Some o -> (o, alloc)
             | None -> eval_items m l callee r p alloc)
       else eval_items m l callee r p alloc
     | CompNull (s, o) ->
       if Nat.eqb s p
       then ((Returned m.s_comp_first), alloc)
       else if Nat.eqb o p
            then ((Returned m.s_comp_second), alloc)
            else eval_items m l callee r p alloc
     | Delegate (f, args, d) ->
       (match arg_index p args O with
        | Some k ->
          let (o, a) = callee f k in ((post_out d o), ((||) alloc a))
        | None -> (Carried_on, alloc))
     | Body -> (Carried_on, alloc))

(** val eval_fn :
    sems -> entry list -> nat -> nat -> fname -> nat -> result **)

let rec eval_fn m tbl l fuel f p =
  match fuel with
  | O -> (Carried_on, false)
  | S fuel' ->
    (match find_entry f tbl with
     | Some e ->
       if e.e_parsed
       then eval_items m l (eval_fn m tbl l fuel') e.e_prelude p false
       else (Carried_on, false)
     | None -> (Carried_on, false))

(** val fuel0 : nat **)

let fuel0 =
  S (S (S (S (S (S (S (S O)))))))

(** val eval : sems -> entry list -> nat -> entry -> nat -> result **)

let eval m tbl l e p =
  if e.e_parsed
  then eval_items m l (eval_fn m tbl l fuel0) e.e_prelude p false
  else (Carried_on, false)

(** val failure_value : rty -> bool -> rval -> bool **)

let failure_value t first v =
  match t with
  | TVoid -> (match v with
              | RvVoid -> true
              | _ -> false)
  | TBool -> (match v with
              | RvFalse -> true
              | _ -> false)
  | TCmp ->
    (match v with
     | RvCmpLess -> first
     | RvCmpGreater -> negb first
     | _ -> false)
  | TFloat -> (match v with
               | RvNaN -> true
               | _ -> false)
  | TPtr -> (match v with
             | RvNull -> true
             | RvNullStr -> true
             | _ -> false)
  | TInt -> (match v with
             | RvNeg1 -> true
             | RvZero -> true
             | _ -> false)

type cell_class =
| FailSoft
| Fallback
| Handled
| Unguarded

(** val guard_class_items :
    (fname -> nat -> cell_class) -> item list -> nat -> cell_class **)

let rec guard_class_items callee its p =
  match its with
  | [] -> Unguarded
  | i :: r ->
    (match i with
     | Guard (_, ps, rv) ->
       if mem p ps
       then (match rv with
             | RvCall _ -> Fallback
             | RvHandled -> Handled
             | _ -> FailSoft)
       else guard_class_items callee r p
     | CompNull (s, o) ->
       if (||) (Nat.eqb s p) (Nat.eqb o p)
       then FailSoft
       else guard_class_items callee r p
     | Delegate (f, args, _) ->
       (match arg_index p args O with
        | Some k -> callee f k
        | None -> Unguarded)
     | Body -> Unguarded
     | _ -> guard_class_items callee r p)

(** val guard_class_fn : entry list -> nat -> fname -> nat -> cell_class **)

let rec guard_class_fn tbl fuel f p =
  match fuel with
  | O -> Unguarded
  | S fuel' ->
    (match find_entry f tbl with
     | Some e -> guard_class_items (guard_class_fn tbl fuel') e.e_prelude p
     | None -> Unguarded)

(** val guard_class : entry list -> entry -> nat -> cell_class **)

let guard_class tbl e p =
  guard_class_items (guard_class_fn tbl fuel0) e.e_prelude p

type cell = fname * nat

(** val c_fn : cell -> fname **)

let c_fn =
  fst

(** val c_param : cell -> nat **)

let c_param =
  snd

(** val class_of : entry list -> entry -> nat -> cell_class **)

let class_of tbl e p =
  match guard_class tbl e p with
  | Unguarded -> FailSoft
  | x -> x

(** val ptr_positions : bool list -> nat -> nat list **)

let rec ptr_positions ps k =
  match ps with
  | [] -> []
  | b :: r ->
    if b then k :: (ptr_positions r (S k)) else ptr_positions r (S k)

(** val is_unguarded : cell_class -> bool **)

let is_unguarded = function
| Unguarded -> true
| _ -> false

(** val derived_cells : entry list -> cell list **)

let derived_cells tbl =
  flat_map (fun e ->
    match e.e_reach with
    | Helper -> []
    | _ ->
      map (fun p -> (e.e_name, p))
        (filter (fun p -> negb (is_unguarded (guard_class tbl e p)))
          (ptr_positions e.e_params O))) tbl

(** val first_operand : entry -> nat -> bool **)

let first_operand e p =
  match e.e_self with
  | Some s -> Nat.eqb s p
  | None -> Nat.eqb p O

(** val strict_ok : entry -> nat -> result -> bool **)

let strict_ok e p = function
| (o, b) ->
  (match o with
   | Returned v ->
     if b then false else failure_value e.e_ret (first_operand e p) v
   | _ -> false)

(** val relaxed_ok : entry -> nat -> result -> bool **)

let relaxed_ok e p = function
| (o, b) ->
  (match o with
   | Returned v ->
     if b then false else failure_value e.e_ret (first_operand e p) v
   | Fatal -> if b then false else true
   | _ -> false)

(** val safe_ok : result -> bool **)

let safe_ok = function
| (o, _) -> (match o with
             | Returned _ -> true
             | Fatal -> true
             | _ -> false)

(** val thresholds : sems -> nat list **)

let thresholds m =
  m.s_assert_rval.gs_thr :: (m.s_require_rval.gs_thr :: (m.s_assert.gs_thr :: (m.s_require.gs_thr :: (if_sem.gs_thr :: []))))

(** val check_cell : sems -> entry list -> cell -> bool **)

let check_cell m tbl c =
  match find_entry (c_fn c) tbl with
  | Some e ->
    (&&) e.e_parsed
      (match class_of tbl e (c_param c) with
       | FailSoft ->
         (&&) (strict_ok e (c_param c) (eval m tbl O e (c_param c)))
           (forallb (fun t ->
             relaxed_ok e (c_param c) (eval m tbl t e (c_param c)))
             (thresholds m))
       | _ ->
         forallb (fun t -> safe_ok (eval m tbl t e (c_param c)))
           (O :: (thresholds m)))
  | None -> false

(** val cell_eqb : cell -> cell -> bool **)

let cell_eqb a b =
  (&&) (fname_eqb (fst a) (fst b)) (Nat.eqb (snd a) (snd b))

(** val guards_items : (fname -> nat -> bool) -> item list -> nat -> bool **)

let rec guards_items callee its p =
  match its with
  | [] -> false
  | i :: r ->
    (match i with
     | Deref q -> if Nat.eqb q p then false else guards_items callee r p
     | Use q -> if Nat.eqb q p then false else guards_items callee r p
     | Call_alloc -> guards_items callee r p
     | Guard (_, ps, _) -> if mem p ps then true else guards_items callee r p
     | CompNull (s, o) ->
       if (||) (Nat.eqb s p) (Nat.eqb o p)
       then true
       else guards_items callee r p
     | Delegate (f, args, _) ->
       (match arg_index p args O with
        | Some k -> callee f k
        | None -> false)
     | Body -> false)

(** val guards_fn : entry list -> nat -> fname -> nat -> bool **)

let rec guards_fn tbl fuel f p =
  match fuel with
  | O -> false
  | S fuel' ->
    (match find_entry f tbl with
     | Some e ->
       (&&) e.e_parsed (guards_items (guards_fn tbl fuel') e.e_prelude p)
     | None -> false)

(** val guards : entry list -> entry -> nat -> bool **)

let guards tbl e p =
  (&&) e.e_parsed (guards_items (guards_fn tbl fuel0) e.e_prelude p)

(** val is_method : entry -> bool **)

let is_method e =
  match e.e_reach with
  | Helper -> false
  | _ -> (match e.e_self with
          | Some _ -> Nat.ltb O e.e_slots
          | None -> false)

(** val failing_slots : entry list -> cell list **)

let failing_slots tbl =
  flat_map (fun e ->
    match e.e_self with
    | Some s ->
      if (&&) (is_method e) (negb (guards tbl e s))
      then (e.e_name, s) :: []
      else []
    | None -> []) tbl

(** val all_cells : cell list -> entry list -> cell list **)

let all_cells named tbl =
  app named
    (filter (fun c -> negb (existsb (cell_eqb c) named)) (derived_cells tbl))

(** val unparsed : entry list -> fname list **)

let unparsed tbl =
  map (fun e -> e.e_name) (filter (fun e -> negb e.e_parsed) tbl)

(** val predict :
    sems -> entry list -> nat -> nat -> nat -> (fname * result) option **)

let predict m tbl idx p l =
  match nth_error tbl idx with
  | Some e -> Some (e.e_name, (eval m tbl l e p))
  | None -> None

(** val cell_report :
    sems -> entry list -> cell list -> ((cell * cell_class) * bool) list **)

let cell_report m tbl named =
  map (fun c -> ((c,
    (match find_entry (c_fn c) tbl with
     | Some e -> class_of tbl e (c_param c)
     | None -> Unguarded)), (check_cell m tbl c))) (all_cells named tbl)

(** val table_errors : fname list **)

let table_errors =
  []

(** val guard_sems : sems **)

let guard_sems =
  { s_assert_rval = { gs_thr = (S O); gs_hi = (AFatal :: []); gs_lo =
    (AWarn :: (AReturn :: [])); gs_after = [] }; s_require_rval = { gs_thr =
    (S O); gs_hi = (ADprint :: (ADprint :: [])); gs_lo = []; gs_after =
    (AReturn :: []) }; s_assert = { gs_thr = (S O); gs_hi = (AFatal :: []);
    gs_lo = (AWarn :: (AReturn :: [])); gs_after = [] }; s_require =
    { gs_thr = (S O); gs_hi = (ADprint :: (ADprint :: [])); gs_lo = [];
    gs_after = (AReturn :: []) }; s_comp_both = RvCmpEqual; s_comp_first =
    RvCmpLess; s_comp_second = RvCmpGreater }

(** val table : entry list **)

let table =
  { e_name =
    (X73 :: (X70 :: (X69 :: (X66 :: (X5f :: (X6f :: (X62 :: (X6a :: (X5f :: (X6e :: (X65 :: (X77 :: []))))))))))));
    e_reach = Exported; e_ret = TPtr; e_params = []; e_self = None; e_slots =
    (S O); e_parsed = true; e_prelude = (Body :: []) } :: ({ e_name =
    (X73 :: (X70 :: (X69 :: (X66 :: (X5f :: (X6f :: (X62 :: (X6a :: (X5f :: (X64 :: (X65 :: (X6c :: []))))))))))));
    e_reach = Exported; e_ret = TBool; e_params = (true :: []); e_self =
    (Some O); e_slots = (S O); e_parsed = true; e_prelude = ((Guard (GAssert,
    (O :: []), RvFalse)) :: (Body :: [])) } :: ({ e_name =
    (X73 :: (X70 :: (X69 :: (X66 :: (X5f :: (X6f :: (X62 :: (X6a :: (X5f :: (X69 :: (X6e :: (X69 :: (X74 :: [])))))))))))));
    e_reach = Exported; e_ret = TBool; e_params = (true :: []); e_self =
    (Some O); e_slots = (S O); e_parsed = true; e_prelude = ((Guard (GAssert,
    (O :: []), RvFalse)) :: (Body :: [])) } :: ({ e_name =
    (X73 :: (X70 :: (X69 :: (X66 :: (X5f :: (X6f :: (X62 :: (X6a :: (X5f :: (X64 :: (X6f :: (X6e :: (X65 :: [])))))))))))));
    e_reach = Exported; e_ret = TBool; e_params = (true :: []); e_self =
    (Some O); e_slots = (S O); e_parsed = true; e_prelude = ((Guard (GAssert,
    (O :: []), RvFalse)) :: (Body :: [])) } :: ({ e_name =
    (X73 :: (X70 :: (X69 :: (X66 :: (X5f :: (X6f :: (X62 :: (X6a :: (X5f :: (X73 :: (X68 :: (X6f :: (X77 :: [])))))))))))));
    e_reach = Exported; e_ret = TPtr; e_params =
    (true :: (true :: (true :: (false :: [])))); e_self = (Some O); e_slots =
    (S O); e_parsed = true; e_prelude = ((Guard (GIf, (O :: []),
    RvHandled)) :: (Body :: [])) } :: ({ e_name =
    (X73 :: (X70 :: (X69 :: (X66 :: (X5f :: (X6f :: (X62 :: (X6a :: (X5f :: (X63 :: (X6f :: (X6d :: (X70 :: [])))))))))))));
    e_reach = Exported; e_ret = TCmp; e_params = (true :: (true :: []));
    e_self = (Some O); e_slots = (S O); e_parsed = true; e_prelude =
    ((CompNull (O, (S O))) :: (Body :: [])) } :: ({ e_name =
    (X73 :: (X70 :: (X69 :: (X66 :: (X5f :: (X6f :: (X62 :: (X6a :: (X5f :: (X64 :: (X75 :: (X70 :: []))))))))))));
    e_reach = Exported; e_ret = TPtr; e_params = (true :: []); e_self = (Some
    O); e_slots = (S O); e_parsed = true; e_prelude = ((Guard (GAssert,
    (O :: []), RvNull)) :: (Body :: [])) } :: ({ e_name =
    (X73 :: (X70 :: (X69 :: (X66 :: (X5f :: (X6f :: (X62 :: (X6a :: (X5f :: (X74 :: (X79 :: (X70 :: (X65 :: [])))))))))))));
    e_reach = Exported; e_ret = TPtr; e_params = (true :: []); e_self = (Some
    O); e_slots = (S O); e_parsed = true; e_prelude = ((Guard (GAssert,
    (O :: []), RvNull)) :: (Body :: [])) } :: ({ e_name =
    (X73 :: (X70 :: (X69 :: (X66 :: (X5f :: (X6f :: (X62 :: (X6a :: (X5f :: (X67 :: (X65 :: (X74 :: (X5f :: (X63 :: (X6c :: (X61 :: (X73 :: (X73 :: []))))))))))))))))));
    e_reach = Exported; e_ret = TPtr; e_params = (true :: []); e_self = (Some
    O); e_slots = O; e_parsed = true; e_prelude = ((Guard (GAssert,
    (O :: []), RvNull)) :: (Body :: [])) } :: ({ e_name =
    (X73 :: (X70 :: (X69 :: (X66 :: (X5f :: (X6f :: (X62 :: (X6a :: (X5f :: (X73 :: (X65 :: (X74 :: (X5f :: (X63 :: (X6c :: (X61 :: (X73 :: (X73 :: []))))))))))))))))));
    e_reach = Exported; e_ret = TBool; e_params = (true :: (true :: []));
    e_self = (Some O); e_slots = O; e_parsed = true; e_prelude = ((Guard
    (GAssert, (O :: []), RvFalse)) :: (Body :: [])) } :: ({ e_name =
    (X73 :: (X70 :: (X69 :: (X66 :: (X5f :: (X73 :: (X74 :: (X72 :: (X5f :: (X6e :: (X65 :: (X77 :: []))))))))))));
    e_reach = Exported; e_ret = TPtr; e_params = []; e_self = None; e_slots =
    (S O); e_parsed = true; e_prelude = (Body :: []) } :: ({ e_name =
    (X73 :: (X70 :: (X69 :: (X66 :: (X5f :: (X73 :: (X74 :: (X72 :: (X5f :: (X6e :: (X65 :: (X77 :: (X5f :: (X66 :: (X72 :: (X6f :: (X6d :: (X5f :: (X70 :: (X74 :: (X72 :: [])))))))))))))))))))));
    e_reach = Exported; e_ret = TPtr; e_params = (true :: []); e_self = None;
    e_slots = (S O); e_parsed = true; e_prelude =
    (Body :: []) } :: ({ e_name =
    (X73 :: (X70 :: (X69 :: (X66 :: (X5f :: (X73 :: (X74 :: (X72 :: (X5f :: (X6e :: (X65 :: (X77 :: (X5f :: (X66 :: (X72 :: (X6f :: (X6d :: (X5f :: (X62 :: (X75 :: (X66 :: (X66 :: []))))))))))))))))))))));
    e_reach = Exported; e_ret = TPtr; e_params = (true :: (false :: []));
    e_self = None; e_slots = (S O); e_parsed = true; e_prelude =
    (Body :: []) } :: ({ e_name =
    (X73 :: (X70 :: (X69 :: (X66 :: (X5f :: (X73 :: (X74 :: (X72 :: (X5f :: (X6e :: (X65 :: (X77 :: (X5f :: (X66 :: (X72 :: (X6f :: (X6d :: (X5f :: (X66 :: (X70 :: []))))))))))))))))))));
    e_reach = Exported; e_ret = TPtr; e_params = (true :: []); e_self = None;
    e_slots = (S O); e_parsed = true; e_prelude =
    (Body :: []) } :: ({ e_name =
    (X73 :: (X70 :: (X69 :: (X66 :: (X5f :: (X73 :: (X74 :: (X72 :: (X5f :: (X6e :: (X65 :: (X77 :: (X5f :: (X66 :: (X72 :: (X6f :: (X6d :: (X5f :: (X66 :: (X64 :: []))))))))))))))))))));
    e_reach = Exported; e_ret = TPtr; e_params = (false :: []); e_self =
    None; e_slots = (S O); e_parsed = true; e_prelude =
    (Body :: []) } :: ({ e_name =
    (X73 :: (X70 :: (X69 :: (X66 :: (X5f :: (X73 :: (X74 :: (X72 :: (X5f :: (X6e :: (X65 :: (X77 :: (X5f :: (X66 :: (X72 :: (X6f :: (X6d :: (X5f :: (X6e :: (X75 :: (X6d :: [])))))))))))))))))))));
    e_reach = Exported; e_ret = TPtr; e_params = (false :: []); e_self =
    None; e_slots = (S O); e_parsed = true; e_prelude =
    (Body :: []) } :: ({ e_name =
    (X73 :: (X70 :: (X69 :: (X66 :: (X5f :: (X73 :: (X74 :: (X72 :: (X5f :: (X69 :: (X6e :: (X69 :: (X74 :: [])))))))))))));
    e_reach = Exported; e_ret = TBool; e_params = (true :: []); e_self =
    (Some O); e_slots = (S O); e_parsed = true; e_prelude = ((Guard (GAssert,
    (O :: []), RvFalse)) :: (Body :: [])) } :: ({ e_name =
    (X73 :: (X70 :: (X69 :: (X66 :: (X5f :: (X73 :: (X74 :: (X72 :: (X5f :: (X69 :: (X6e :: (X69 :: (X74 :: (X5f :: (X66 :: (X72 :: (X6f :: (X6d :: (X5f :: (X70 :: (X74 :: (X72 :: []))))))))))))))))))))));
    e_reach = Exported; e_ret = TBool; e_params = (true :: (true :: []));
    e_self = (Some O); e_slots = (S O); e_parsed = true; e_prelude = ((Guard
    (GAssert, (O :: []), RvFalse)) :: ((Guard (GRequire, ((S O) :: []),
    (RvCall
    (X73 :: (X70 :: (X69 :: (X66 :: (X5f :: (X73 :: (X74 :: (X72 :: (X5f :: (X69 :: (X6e :: (X69 :: (X74 :: [])))))))))))))))) :: (Body :: []))) } :: ({ e_name =
    (X73 :: (X70 :: (X69 :: (X66 :: (X5f :: (X73 :: (X74 :: (X72 :: (X5f :: (X69 :: (X6e :: (X69 :: (X74 :: (X5f :: (X66 :: (X72 :: (X6f :: (X6d :: (X5f :: (X62 :: (X75 :: (X66 :: (X66 :: [])))))))))))))))))))))));
    e_reach = Exported; e_ret = TBool; e_params =
    (true :: (true :: (false :: []))); e_self = (Some O); e_slots = (S O);
    e_parsed = true; e_prelude = ((Guard (GAssert, (O :: []),
    RvFalse)) :: (Body :: [])) } :: ({ e_name =
    (X73 :: (X70 :: (X69 :: (X66 :: (X5f :: (X73 :: (X74 :: (X72 :: (X5f :: (X69 :: (X6e :: (X69 :: (X74 :: (X5f :: (X66 :: (X72 :: (X6f :: (X6d :: (X5f :: (X66 :: (X70 :: [])))))))))))))))))))));
    e_reach = Exported; e_ret = TBool; e_params = (true :: (true :: []));
    e_self = (Some O); e_slots = (S O); e_parsed = true; e_prelude = ((Guard
    (GAssert, (O :: []), RvFalse)) :: ((Guard (GAssert, ((S O) :: []),
    RvFalse)) :: (Body :: []))) } :: ({ e_name =
    (X73 :: (X70 :: (X69 :: (X66 :: (X5f :: (X73 :: (X74 :: (X72 :: (X5f :: (X69 :: (X6e :: (X69 :: (X74 :: (X5f :: (X66 :: (X72 :: (X6f :: (X6d :: (X5f :: (X66 :: (X64 :: [])))))))))))))))))))));
    e_reach = Exported; e_ret = TBool; e_params = (true :: (false :: []));
    e_self = (Some O); e_slots = (S O); e_parsed = true; e_prelude = ((Guard
    (GAssert, (O :: []), RvFalse)) :: ((Guard (GAssert, [],
    RvFalse)) :: (Body :: []))) } :: ({ e_name =
    (X73 :: (X70 :: (X69 :: (X66 :: (X5f :: (X73 :: (X74 :: (X72 :: (X5f :: (X69 :: (X6e :: (X69 :: (X74 :: (X5f :: (X66 :: (X72 :: (X6f :: (X6d :: (X5f :: (X6e :: (X75 :: (X6d :: []))))))))))))))))))))));
    e_reach = Exported; e_ret = TBool; e_params = (true :: (false :: []));
    e_self = (Some O); e_slots = (S O); e_parsed = true; e_prelude = ((Guard
    (GAssert, (O :: []), RvFalse)) :: (Body :: [])) } :: ({ e_name =
    (X73 :: (X70 :: (X69 :: (X66 :: (X5f :: (X73 :: (X74 :: (X72 :: (X5f :: (X64 :: (X6f :: (X6e :: (X65 :: [])))))))))))));
    e_reach = Exported; e_ret = TBool; e_params = (true :: []); e_self =
    (Some O); e_slots = (S O); e_parsed = true; e_prelude = ((Guard (GAssert,
    (O :: []), RvFalse)) :: (Body :: [])) } :: ({ e_name =
    (X73 :: (X70 :: (X69 :: (X66 :: (X5f :: (X73 :: (X74 :: (X72 :: (X5f :: (X64 :: (X65 :: (X6c :: []))))))))))));
    e_reach = Exported; e_ret = TBool; e_params = (true :: []); e_self =
    (Some O); e_slots = (S O); e_parsed = true; e_prelude = ((Guard (GAssert,
    (O :: []), RvFalse)) :: (Body :: [])) } :: ({ e_name =
    (X73 :: (X70 :: (X69 :: (X66 :: (X5f :: (X73 :: (X74 :: (X72 :: (X5f :: (X73 :: (X68 :: (X6f :: (X77 :: [])))))))))))));
    e_reach = Exported; e_ret = TPtr; e_params =
    (true :: (true :: (true :: (false :: [])))); e_self = (Some O); e_slots =
    (S O); e_parsed = true; e_prelude = ((Guard (GIf, (O :: []),
    RvHandled)) :: (Body :: [])) } :: ({ e_name =
    (X73 :: (X70 :: (X69 :: (X66 :: (X5f :: (X73 :: (X74 :: (X72 :: (X5f :: (X63 :: (X6f :: (X6d :: (X70 :: [])))))))))))));
    e_reach = Exported; e_ret = TCmp; e_params = (true :: (true :: []));
    e_self = (Some O); e_slots = (S O); e_parsed = true; e_prelude =
    ((Delegate
    ((X73 :: (X70 :: (X69 :: (X66 :: (X5f :: (X73 :: (X74 :: (X72 :: (X5f :: (X63 :: (X6d :: (X70 :: [])))))))))))),
    ((Some O) :: ((Some (S O)) :: [])), PId)) :: []) } :: ({ e_name =
    (X73 :: (X70 :: (X69 :: (X66 :: (X5f :: (X73 :: (X74 :: (X72 :: (X5f :: (X64 :: (X75 :: (X70 :: []))))))))))));
    e_reach = Exported; e_ret = TPtr; e_params = (true :: []); e_self = (Some
    O); e_slots = (S O); e_parsed = true; e_prelude = ((Guard (GAssert,
    (O :: []), RvNull)) :: (Body :: [])) } :: ({ e_name =
    (X73 :: (X70 :: (X69 :: (X66 :: (X5f :: (X73 :: (X74 :: (X72 :: (X5f :: (X74 :: (X79 :: (X70 :: (X65 :: [])))))))))))));
    e_reach = Exported; e_ret = TPtr; e_params = (true :: []); e_self = (Some
    O); e_slots = (S O); e_parsed = true; e_prelude = ((Guard (GAssert,
    (O :: []), RvNullStr)) :: (Body :: [])) } :: ({ e_name =
    (X73 :: (X70 :: (X69 :: (X66 :: (X5f :: (X73 :: (X74 :: (X72 :: (X5f :: (X61 :: (X70 :: (X70 :: (X65 :: (X6e :: (X64 :: [])))))))))))))));
    e_reach = Exported; e_ret = TBool; e_params = (true :: (true :: []));
    e_self = (Some O); e_slots = (S O); e_parsed = true; e_prelude = ((Guard
    (GAssert, (O :: []), RvFalse)) :: ((Guard (GRequire, ((S O) :: []),
    RvFalse)) :: (Body :: []))) } :: ({ e_name =
    (X73 :: (X70 :: (X69 :: (X66 :: (X5f :: (X73 :: (X74 :: (X72 :: (X5f :: (X61 :: (X70 :: (X70 :: (X65 :: (X6e :: (X64 :: (X5f :: (X63 :: (X68 :: (X61 :: (X72 :: []))))))))))))))))))));
    e_reach = Exported; e_ret = TBool; e_params = (true :: (false :: []));
    e_self = (Some O); e_slots = (S O); e_parsed = true; e_prelude = ((Guard
    (GAssert, (O :: []), RvFalse)) :: (Body :: [])) } :: ({ e_name =
    (X73 :: (X70 :: (X69 :: (X66 :: (X5f :: (X73 :: (X74 :: (X72 :: (X5f :: (X61 :: (X70 :: (X70 :: (X65 :: (X6e :: (X64 :: (X5f :: (X66 :: (X72 :: (X6f :: (X6d :: (X5f :: (X70 :: (X74 :: (X72 :: []))))))))))))))))))))))));
    e_reach = Exported; e_ret = TBool; e_params = (true :: (true :: []));
    e_self = (Some O); e_slots = (S O); e_parsed = true; e_prelude = ((Guard
    (GAssert, (O :: []), RvFalse)) :: ((Guard (GRequire, ((S O) :: []),
    RvFalse)) :: (Body :: []))) } :: ({ e_name =
    (X73 :: (X70 :: (X69 :: (X66 :: (X5f :: (X73 :: (X74 :: (X72 :: (X5f :: (X63 :: (X61 :: (X73 :: (X65 :: (X63 :: (X6d :: (X70 :: []))))))))))))))));
    e_reach = Exported; e_ret = TCmp; e_params = (true :: (true :: []));
    e_self = (Some O); e_slots = (S O); e_parsed = true; e_prelude =
    ((CompNull (O, (S O))) :: (Body :: [])) } :: ({ e_name =
    (X73 :: (X70 :: (X69 :: (X66 :: (X5f :: (X73 :: (X74 :: (X72 :: (X5f :: (X63 :: (X61 :: (X73 :: (X65 :: (X63 :: (X6d :: (X70 :: (X5f :: (X77 :: (X69 :: (X74 :: (X68 :: (X5f :: (X70 :: (X74 :: (X72 :: [])))))))))))))))))))))))));
    e_reach = Exported; e_ret = TCmp; e_params = (true :: (true :: []));
    e_self = (Some O); e_slots = (S O); e_parsed = true; e_prelude =
    ((CompNull (O, (S O))) :: (Body :: [])) } :: ({ e_name =
    (X73 :: (X70 :: (X69 :: (X66 :: (X5f :: (X73 :: (X74 :: (X72 :: (X5f :: (X63 :: (X6c :: (X65 :: (X61 :: (X72 :: []))))))))))))));
    e_reach = Exported; e_ret = TBool; e_params = (true :: (false :: []));
    e_self = (Some O); e_slots = (S O); e_parsed = true; e_prelude = ((Guard
    (GAssert, (O :: []), RvFalse)) :: (Body :: [])) } :: ({ e_name =
    (X73 :: (X70 :: (X69 :: (X66 :: (X5f :: (X73 :: (X74 :: (X72 :: (X5f :: (X63 :: (X6d :: (X70 :: []))))))))))));
    e_reach = Exported; e_ret = TCmp; e_params = (true :: (true :: []));
    e_self = (Some O); e_slots = (S O); e_parsed = true; e_prelude =
    ((CompNull (O, (S O))) :: (Body :: [])) } :: ({ e_name =
    (X73 :: (X70 :: (X69 :: (X66 :: (X5f :: (X73 :: (X74 :: (X72 :: (X5f :: (X63 :: (X6d :: (X70 :: (X5f :: (X77 :: (X69 :: (X74 :: (X68 :: (X5f :: (X70 :: (X74 :: (X72 :: [])))))))))))))))))))));
    e_reach = Exported; e_ret = TCmp; e_params = (true :: (true :: []));
    e_self = (Some O); e_slots = (S O); e_parsed = true; e_prelude =
    ((CompNull (O, (S O))) :: (Body :: [])) } :: ({ e_name =
    (X73 :: (X70 :: (X69 :: (X66 :: (X5f :: (X73 :: (X74 :: (X72 :: (X5f :: (X64 :: (X6f :: (X77 :: (X6e :: (X63 :: (X61 :: (X73 :: (X65 :: [])))))))))))))))));
    e_reach = Exported; e_ret = TBool; e_params = (true :: []); e_self =
    (Some O); e_slots = (S O); e_parsed = true; e_prelude = ((Guard (GAssert,
    (O :: []), RvFalse)) :: (Body :: [])) } :: ({ e_name =
    (X73 :: (X70 :: (X69 :: (X66 :: (X5f :: (X73 :: (X74 :: (X72 :: (X5f :: (X66 :: (X69 :: (X6e :: (X64 :: [])))))))))))));
    e_reach = Exported; e_ret = TInt; e_params = (true :: (true :: []));
    e_self = (Some O); e_slots = (S O); e_parsed = true; e_prelude = ((Guard
    (GAssert, (O :: []), RvNeg1)) :: ((Guard (GRequire, ((S O) :: []),
    RvNeg1)) :: (Body :: []))) } :: ({ e_name =
    (X73 :: (X70 :: (X69 :: (X66 :: (X5f :: (X73 :: (X74 :: (X72 :: (X5f :: (X66 :: (X69 :: (X6e :: (X64 :: (X5f :: (X66 :: (X72 :: (X6f :: (X6d :: (X5f :: (X70 :: (X74 :: (X72 :: []))))))))))))))))))))));
    e_reach = Exported; e_ret = TInt; e_params = (true :: (true :: []));
    e_self = (Some O); e_slots = (S O); e_parsed = true; e_prelude = ((Guard
    (GAssert, (O :: []), RvNeg1)) :: ((Guard (GRequire, ((S O) :: []),
    RvNeg1)) :: (Body :: []))) } :: ({ e_name =
    (X73 :: (X70 :: (X69 :: (X66 :: (X5f :: (X73 :: (X74 :: (X72 :: (X5f :: (X69 :: (X6e :: (X64 :: (X65 :: (X78 :: []))))))))))))));
    e_reach = Exported; e_ret = TInt; e_params = (true :: (false :: []));
    e_self = (Some O); e_slots = (S O); e_parsed = true; e_prelude = ((Guard
    (GAssert, (O :: []), RvNeg1)) :: (Body :: [])) } :: ({ e_name =
    (X73 :: (X70 :: (X69 :: (X66 :: (X5f :: (X73 :: (X74 :: (X72 :: (X5f :: (X6e :: (X63 :: (X61 :: (X73 :: (X65 :: (X63 :: (X6d :: (X70 :: [])))))))))))))))));
    e_reach = Exported; e_ret = TCmp; e_params =
    (true :: (true :: (false :: []))); e_self = (Some O); e_slots = (S O);
    e_parsed = true; e_prelude = ((CompNull (O, (S
    O))) :: (Body :: [])) } :: ({ e_name =
    (X73 :: (X70 :: (X69 :: (X66 :: (X5f :: (X73 :: (X74 :: (X72 :: (X5f :: (X6e :: (X63 :: (X61 :: (X73 :: (X65 :: (X63 :: (X6d :: (X70 :: (X5f :: (X77 :: (X69 :: (X74 :: (X68 :: (X5f :: (X70 :: (X74 :: (X72 :: []))))))))))))))))))))))))));
    e_reach = Exported; e_ret = TCmp; e_params =
    (true :: (true :: (false :: []))); e_self = (Some O); e_slots = (S O);
    e_parsed = true; e_prelude = ((CompNull (O, (S
    O))) :: (Body :: [])) } :: ({ e_name =
    (X73 :: (X70 :: (X69 :: (X66 :: (X5f :: (X73 :: (X74 :: (X72 :: (X5f :: (X6e :: (X63 :: (X6d :: (X70 :: [])))))))))))));
    e_reach = Exported; e_ret = TCmp; e_params =
    (true :: (true :: (false :: []))); e_self = (Some O); e_slots = (S O);
    e_parsed = true; e_prelude = ((CompNull (O, (S
    O))) :: (Body :: [])) } :: ({ e_name =
    (X73 :: (X70 :: (X69 :: (X66 :: (X5f :: (X73 :: (X74 :: (X72 :: (X5f :: (X6e :: (X63 :: (X6d :: (X70 :: (X5f :: (X77 :: (X69 :: (X74 :: (X68 :: (X5f :: (X70 :: (X74 :: (X72 :: []))))))))))))))))))))));
    e_reach = Exported; e_ret = TCmp; e_params =
    (true :: (true :: (false :: []))); e_self = (Some O); e_slots = (S O);
    e_parsed = true; e_prelude = ((CompNull (O, (S
    O))) :: (Body :: [])) } :: ({ e_name =
    (X73 :: (X70 :: (X69 :: (X66 :: (X5f :: (X73 :: (X74 :: (X72 :: (X5f :: (X70 :: (X72 :: (X65 :: (X70 :: (X65 :: (X6e :: (X64 :: []))))))))))))))));
    e_reach = Exported; e_ret = TBool; e_params = (true :: (true :: []));
    e_self = (Some O); e_slots = (S O); e_parsed = true; e_prelude = ((Guard
    (GAssert, (O :: []), RvFalse)) :: ((Guard (GRequire, ((S O) :: []),
    RvFalse)) :: (Body :: []))) } :: ({ e_name =
    (X73 :: (X70 :: (X69 :: (X66 :: (X5f :: (X73 :: (X74 :: (X72 :: (X5f :: (X70 :: (X72 :: (X65 :: (X70 :: (X65 :: (X6e :: (X64 :: (X5f :: (X63 :: (X68 :: (X61 :: (X72 :: [])))))))))))))))))))));
    e_reach = Exported; e_ret = TBool; e_params = (true :: (false :: []));
    e_self = (Some O); e_slots = (S O); e_parsed = true; e_prelude = ((Guard
    (GAssert, (O :: []), RvFalse)) :: (Body :: [])) } :: ({ e_name =
    (X73 :: (X70 :: (X69 :: (X66 :: (X5f :: (X73 :: (X74 :: (X72 :: (X5f :: (X70 :: (X72 :: (X65 :: (X70 :: (X65 :: (X6e :: (X64 :: (X5f :: (X66 :: (X72 :: (X6f :: (X6d :: (X5f :: (X70 :: (X74 :: (X72 :: [])))))))))))))))))))))))));
    e_reach = Exported; e_ret = TBool; e_params = (true :: (true :: []));
    e_self = (Some O); e_slots = (S O); e_parsed = true; e_prelude = ((Guard
    (GAssert, (O :: []), RvFalse)) :: ((Guard (GRequire, ((S O) :: []),
    RvFalse)) :: (Body :: []))) } :: ({ e_name =
    (X73 :: (X70 :: (X69 :: (X66 :: (X5f :: (X73 :: (X74 :: (X72 :: (X5f :: (X72 :: (X65 :: (X76 :: (X65 :: (X72 :: (X73 :: (X65 :: []))))))))))))))));
    e_reach = Exported; e_ret = TBool; e_params = (true :: []); e_self =
    (Some O); e_slots = (S O); e_parsed = true; e_prelude = ((Guard (GAssert,
    (O :: []), RvFalse)) :: (Body :: [])) } :: ({ e_name =
    (X73 :: (X70 :: (X69 :: (X66 :: (X5f :: (X73 :: (X74 :: (X72 :: (X5f :: (X72 :: (X69 :: (X6e :: (X64 :: (X65 :: (X78 :: [])))))))))))))));
    e_reach = Exported; e_ret = TInt; e_params = (true :: (false :: []));
    e_self = (Some O); e_slots = (S O); e_parsed = true; e_prelude = ((Guard
    (GAssert, (O :: []), RvNeg1)) :: (Body :: [])) } :: ({ e_name =
    (X73 :: (X70 :: (X69 :: (X66 :: (X5f :: (X73 :: (X74 :: (X72 :: (X5f :: (X73 :: (X70 :: (X6c :: (X69 :: (X63 :: (X65 :: [])))))))))))))));
    e_reach = Exported; e_ret = TBool; e_params =
    (true :: (false :: (false :: (true :: [])))); e_self = (Some O);
    e_slots = (S O); e_parsed = true; e_prelude = ((Guard (GAssert,
    (O :: []), RvFalse)) :: (Body :: [])) } :: ({ e_name =
    (X73 :: (X70 :: (X69 :: (X66 :: (X5f :: (X73 :: (X74 :: (X72 :: (X5f :: (X73 :: (X70 :: (X6c :: (X69 :: (X63 :: (X65 :: (X5f :: (X66 :: (X72 :: (X6f :: (X6d :: (X5f :: (X70 :: (X74 :: (X72 :: []))))))))))))))))))))))));
    e_reach = Exported; e_ret = TBool; e_params =
    (true :: (false :: (false :: (true :: [])))); e_self = (Some O);
    e_slots = (S O); e_parsed = true; e_prelude = ((Guard (GAssert,
    (O :: []), RvFalse)) :: (Body :: [])) } :: ({ e_name =
    (X73 :: (X70 :: (X69 :: (X66 :: (X5f :: (X73 :: (X74 :: (X72 :: (X5f :: (X73 :: (X70 :: (X72 :: (X69 :: (X6e :: (X74 :: (X66 :: []))))))))))))))));
    e_reach = Exported; e_ret = TBool; e_params =
    (true :: (true :: (false :: []))); e_self = (Some O); e_slots = (S O);
    e_parsed = true; e_prelude = ((Guard (GAssert, (O :: []),
    RvFalse)) :: (Body :: [])) } :: ({ e_name =
    (X73 :: (X70 :: (X69 :: (X66 :: (X5f :: (X73 :: (X74 :: (X72 :: (X5f :: (X73 :: (X75 :: (X62 :: (X73 :: (X74 :: (X72 :: [])))))))))))))));
    e_reach = Exported; e_ret = TPtr; e_params =
    (true :: (false :: (false :: []))); e_self = (Some O); e_slots = (S O);
    e_parsed = true; e_prelude = ((Guard (GAssert, (O :: []),
    RvNull)) :: (Body :: [])) } :: ({ e_name =
    (X73 :: (X70 :: (X69 :: (X66 :: (X5f :: (X73 :: (X74 :: (X72 :: (X5f :: (X73 :: (X75 :: (X62 :: (X73 :: (X74 :: (X72 :: (X5f :: (X74 :: (X6f :: (X5f :: (X70 :: (X74 :: (X72 :: []))))))))))))))))))))));
    e_reach = Exported; e_ret = TPtr; e_params =
    (true :: (false :: (false :: []))); e_self = (Some O); e_slots = (S O);
    e_parsed = true; e_prelude = ((Guard (GAssert, (O :: []),
    RvNull)) :: (Body :: [])) } :: ({ e_name =
    (X73 :: (X70 :: (X69 :: (X66 :: (X5f :: (X73 :: (X74 :: (X72 :: (X5f :: (X74 :: (X6f :: (X5f :: (X66 :: (X6c :: (X6f :: (X61 :: (X74 :: [])))))))))))))))));
    e_reach = Exported; e_ret = TFloat; e_params = (true :: []); e_self =
    (Some O); e_slots = (S O); e_parsed = true; e_prelude = ((Guard (GAssert,
    (O :: []), RvNaN)) :: (Body :: [])) } :: ({ e_name =
    (X73 :: (X70 :: (X69 :: (X66 :: (X5f :: (X73 :: (X74 :: (X72 :: (X5f :: (X74 :: (X6f :: (X5f :: (X6e :: (X75 :: (X6d :: [])))))))))))))));
    e_reach = Exported; e_ret = TInt; e_params = (true :: (false :: []));
    e_self = (Some O); e_slots = (S O); e_parsed = true; e_prelude = ((Guard
    (GAssert, (O :: []), RvNeg1)) :: (Body :: [])) } :: ({ e_name =
    (X73 :: (X70 :: (X69 :: (X66 :: (X5f :: (X73 :: (X74 :: (X72 :: (X5f :: (X74 :: (X72 :: (X69 :: (X6d :: [])))))))))))));
    e_reach = Exported; e_ret = TBool; e_params = (true :: []); e_self =
    (Some O); e_slots = (S O); e_parsed = true; e_prelude = ((Guard (GAssert,
    (O :: []), RvFalse)) :: (Body :: [])) } :: ({ e_name =
    (X73 :: (X70 :: (X69 :: (X66 :: (X5f :: (X73 :: (X74 :: (X72 :: (X5f :: (X75 :: (X70 :: (X63 :: (X61 :: (X73 :: (X65 :: [])))))))))))))));
    e_reach = Exported; e_ret = TBool; e_params = (true :: []); e_self =
    (Some O); e_slots = (S O); e_parsed = true; e_prelude = ((Guard (GAssert,
    (O :: []), RvFalse)) :: (Body :: [])) } :: ({ e_name =
    (X73 :: (X70 :: (X69 :: (X66 :: (X5f :: (X73 :: (X74 :: (X72 :: (X5f :: (X67 :: (X65 :: (X74 :: (X5f :: (X73 :: (X69 :: (X7a :: (X65 :: [])))))))))))))))));
    e_reach = Exported; e_ret = TInt; e_params = (true :: []); e_self = (Some
    O); e_slots = O; e_parsed = true; e_prelude =
    (Body :: []) } :: ({ e_name =
    (X73 :: (X70 :: (X69 :: (X66 :: (X5f :: (X73 :: (X74 :: (X72 :: (X5f :: (X73 :: (X65 :: (X74 :: (X5f :: (X73 :: (X69 :: (X7a :: (X65 :: [])))))))))))))))));
    e_reach = Exported; e_ret = TInt; e_params = (true :: (false :: []));
    e_self = (Some O); e_slots = O; e_parsed = true; e_prelude =
    (Body :: []) } :: ({ e_name =
    (X73 :: (X70 :: (X69 :: (X66 :: (X5f :: (X73 :: (X74 :: (X72 :: (X5f :: (X67 :: (X65 :: (X74 :: (X5f :: (X6c :: (X65 :: (X6e :: []))))))))))))))));
    e_reach = Exported; e_ret = TInt; e_params = (true :: []); e_self = (Some
    O); e_slots = O; e_parsed = true; e_prelude =
    (Body :: []) } :: ({ e_name =
    (X73 :: (X70 :: (X69 :: (X66 :: (X5f :: (X73 :: (X74 :: (X72 :: (X5f :: (X73 :: (X65 :: (X74 :: (X5f :: (X6c :: (X65 :: (X6e :: []))))))))))))))));
    e_reach = Exported; e_ret = TInt; e_params = (true :: (false :: []));
    e_self = (Some O); e_slots = O; e_parsed = true; e_prelude =
    (Body :: []) } :: ({ e_name =
    (X73 :: (X70 :: (X69 :: (X66 :: (X5f :: (X75 :: (X73 :: (X74 :: (X72 :: (X5f :: (X6e :: (X65 :: (X77 :: [])))))))))))));
    e_reach = Exported; e_ret = TPtr; e_params = []; e_self = None; e_slots =
    (S O); e_parsed = true; e_prelude = (Body :: []) } :: ({ e_name =
    (X73 :: (X70 :: (X69 :: (X66 :: (X5f :: (X75 :: (X73 :: (X74 :: (X72 :: (X5f :: (X6e :: (X65 :: (X77 :: (X5f :: (X66 :: (X72 :: (X6f :: (X6d :: (X5f :: (X70 :: (X74 :: (X72 :: []))))))))))))))))))))));
    e_reach = Exported; e_ret = TPtr; e_params = (true :: []); e_self = None;
    e_slots = (S O); e_parsed = true; e_prelude =
    (Body :: []) } :: ({ e_name =
    (X73 :: (X70 :: (X69 :: (X66 :: (X5f :: (X75 :: (X73 :: (X74 :: (X72 :: (X5f :: (X6e :: (X65 :: (X77 :: (X5f :: (X66 :: (X72 :: (X6f :: (X6d :: (X5f :: (X62 :: (X75 :: (X66 :: (X66 :: [])))))))))))))))))))))));
    e_reach = Exported; e_ret = TPtr; e_params = (true :: (false :: []));
    e_self = None; e_slots = (S O); e_parsed = true; e_prelude =
    (Body :: []) } :: ({ e_name =
    (X73 :: (X70 :: (X69 :: (X66 :: (X5f :: (X75 :: (X73 :: (X74 :: (X72 :: (X5f :: (X6e :: (X65 :: (X77 :: (X5f :: (X66 :: (X72 :: (X6f :: (X6d :: (X5f :: (X66 :: (X70 :: [])))))))))))))))))))));
    e_reach = Exported; e_ret = TPtr; e_params = (true :: []); e_self = None;
    e_slots = (S O); e_parsed = true; e_prelude =
    (Body :: []) } :: ({ e_name =
    (X73 :: (X70 :: (X69 :: (X66 :: (X5f :: (X75 :: (X73 :: (X74 :: (X72 :: (X5f :: (X6e :: (X65 :: (X77 :: (X5f :: (X66 :: (X72 :: (X6f :: (X6d :: (X5f :: (X66 :: (X64 :: [])))))))))))))))))))));
    e_reach = Exported; e_ret = TPtr; e_params = (false :: []); e_self =
    None; e_slots = (S O); e_parsed = true; e_prelude =
    (Body :: []) } :: ({ e_name =
    (X73 :: (X70 :: (X69 :: (X66 :: (X5f :: (X75 :: (X73 :: (X74 :: (X72 :: (X5f :: (X6e :: (X65 :: (X77 :: (X5f :: (X66 :: (X72 :: (X6f :: (X6d :: (X5f :: (X6e :: (X75 :: (X6d :: []))))))))))))))))))))));
    e_reach = Exported; e_ret = TPtr; e_params = (false :: []); e_self =
    None; e_slots = (S O); e_parsed = true; e_prelude =
    (Body :: []) } :: ({ e_name =
    (X73 :: (X70 :: (X69 :: (X66 :: (X5f :: (X75 :: (X73 :: (X74 :: (X72 :: (X5f :: (X69 :: (X6e :: (X69 :: (X74 :: []))))))))))))));
    e_reach = Exported; e_ret = TBool; e_params = (true :: []); e_self =
    (Some O); e_slots = (S O); e_parsed = true; e_prelude = ((Guard (GAssert,
    (O :: []), RvFalse)) :: (Body :: [])) } :: ({ e_name =
    (X73 :: (X70 :: (X69 :: (X66 :: (X5f :: (X75 :: (X73 :: (X74 :: (X72 :: (X5f :: (X69 :: (X6e :: (X69 :: (X74 :: (X5f :: (X66 :: (X72 :: (X6f :: (X6d :: (X5f :: (X70 :: (X74 :: (X72 :: [])))))))))))))))))))))));
    e_reach = Exported; e_ret = TBool; e_params = (true :: (true :: []));
    e_self = (Some O); e_slots = (S O); e_parsed = true; e_prelude = ((Guard
    (GAssert, (O :: []), RvFalse)) :: ((Guard (GRequire, ((S O) :: []),
    (RvCall
    (X73 :: (X70 :: (X69 :: (X66 :: (X5f :: (X75 :: (X73 :: (X74 :: (X72 :: (X5f :: (X69 :: (X6e :: (X69 :: (X74 :: []))))))))))))))))) :: (Body :: []))) } :: ({ e_name =
    (X73 :: (X70 :: (X69 :: (X66 :: (X5f :: (X75 :: (X73 :: (X74 :: (X72 :: (X5f :: (X69 :: (X6e :: (X69 :: (X74 :: (X5f :: (X66 :: (X72 :: (X6f :: (X6d :: (X5f :: (X62 :: (X75 :: (X66 :: (X66 :: []))))))))))))))))))))))));
    e_reach = Exported; e_ret = TBool; e_params =
    (true :: (true :: (false :: []))); e_self = (Some O); e_slots = (S O);
    e_parsed = true; e_prelude = ((Guard (GAssert, (O :: []),
    RvFalse)) :: (Body :: [])) } :: ({ e_name =
    (X73 :: (X70 :: (X69 :: (X66 :: (X5f :: (X75 :: (X73 :: (X74 :: (X72 :: (X5f :: (X69 :: (X6e :: (X69 :: (X74 :: (X5f :: (X66 :: (X72 :: (X6f :: (X6d :: (X5f :: (X66 :: (X70 :: []))))))))))))))))))))));
    e_reach = Exported; e_ret = TBool; e_params = (true :: (true :: []));
    e_self = (Some O); e_slots = (S O); e_parsed = true; e_prelude = ((Guard
    (GAssert, (O :: []), RvFalse)) :: ((Guard (GAssert, ((S O) :: []),
    RvFalse)) :: (Body :: []))) } :: ({ e_name =
    (X73 :: (X70 :: (X69 :: (X66 :: (X5f :: (X75 :: (X73 :: (X74 :: (X72 :: (X5f :: (X69 :: (X6e :: (X69 :: (X74 :: (X5f :: (X66 :: (X72 :: (X6f :: (X6d :: (X5f :: (X66 :: (X64 :: []))))))))))))))))))))));
    e_reach = Exported; e_ret = TBool; e_params = (true :: (false :: []));
    e_self = (Some O); e_slots = (S O); e_parsed = true; e_prelude = ((Guard
    (GAssert, (O :: []), RvFalse)) :: ((Guard (GAssert, [],
    RvFalse)) :: (Body :: []))) } :: ({ e_name =
    (X73 :: (X70 :: (X69 :: (X66 :: (X5f :: (X75 :: (X73 :: (X74 :: (X72 :: (X5f :: (X69 :: (X6e :: (X69 :: (X74 :: (X5f :: (X66 :: (X72 :: (X6f :: (X6d :: (X5f :: (X6e :: (X75 :: (X6d :: [])))))))))))))))))))))));
    e_reach = Exported; e_ret = TBool; e_params = (true :: (false :: []));
    e_self = (Some O); e_slots = (S O); e_parsed = true; e_prelude = ((Guard
    (GAssert, (O :: []), RvFalse)) :: (Body :: [])) } :: ({ e_name =
    (X73 :: (X70 :: (X69 :: (X66 :: (X5f :: (X75 :: (X73 :: (X74 :: (X72 :: (X5f :: (X64 :: (X6f :: (X6e :: (X65 :: []))))))))))))));
    e_reach = Exported; e_ret = TBool; e_params = (true :: []); e_self =
    (Some O); e_slots = (S O); e_parsed = true; e_prelude = ((Guard (GAssert,
    (O :: []), RvFalse)) :: (Body :: [])) } :: ({ e_name =
    (X73 :: (X70 :: (X69 :: (X66 :: (X5f :: (X75 :: (X73 :: (X74 :: (X72 :: (X5f :: (X64 :: (X65 :: (X6c :: [])))))))))))));
    e_reach = Exported; e_ret = TBool; e_params = (true :: []); e_self =
    (Some O); e_slots = (S O); e_parsed = true; e_prelude = ((Guard (GAssert,
    (O :: []), RvFalse)) :: (Body :: [])) } :: ({ e_name =
    (X73 :: (X70 :: (X69 :: (X66 :: (X5f :: (X75 :: (X73 :: (X74 :: (X72 :: (X5f :: (X73 :: (X68 :: (X6f :: (X77 :: []))))))))))))));
    e_reach = Exported; e_ret = TPtr; e_params =
    (true :: (true :: (true :: (false :: [])))); e_self = (Some O); e_slots =
    (S O); e_parsed = true; e_prelude = ((Guard (GIf, (O :: []),
    RvHandled)) :: (Body :: [])) } :: ({ e_name =
    (X73 :: (X70 :: (X69 :: (X66 :: (X5f :: (X75 :: (X73 :: (X74 :: (X72 :: (X5f :: (X63 :: (X6f :: (X6d :: (X70 :: []))))))))))))));
    e_reach = Exported; e_ret = TCmp; e_params = (true :: (true :: []));
    e_self = (Some O); e_slots = (S O); e_parsed = true; e_prelude =
    ((Delegate
    ((X73 :: (X70 :: (X69 :: (X66 :: (X5f :: (X75 :: (X73 :: (X74 :: (X72 :: (X5f :: (X63 :: (X6d :: (X70 :: []))))))))))))),
    ((Some O) :: ((Some (S O)) :: [])), PId)) :: []) } :: ({ e_name =
    (X73 :: (X70 :: (X69 :: (X66 :: (X5f :: (X75 :: (X73 :: (X74 :: (X72 :: (X5f :: (X64 :: (X75 :: (X70 :: [])))))))))))));
    e_reach = Exported; e_ret = TPtr; e_params = (true :: []); e_self = (Some
    O); e_slots = (S O); e_parsed = true; e_prelude = ((Guard (GAssert,
    (O :: []), RvNull)) :: (Body :: [])) } :: ({ e_name =
    (X73 :: (X70 :: (X69 :: (X66 :: (X5f :: (X75 :: (X73 :: (X74 :: (X72 :: (X5f :: (X74 :: (X79 :: (X70 :: (X65 :: []))))))))))))));
    e_reach = Exported; e_ret = TPtr; e_params = (true :: []); e_self = (Some
    O); e_slots = (S O); e_parsed = true; e_prelude = ((Guard (GAssert,
    (O :: []), RvNullStr)) :: (Body :: [])) } :: ({ e_name =
    (X73 :: (X70 :: (X69 :: (X66 :: (X5f :: (X75 :: (X73 :: (X74 :: (X72 :: (X5f :: (X61 :: (X70 :: (X70 :: (X65 :: (X6e :: (X64 :: []))))))))))))))));
    e_reach = Exported; e_ret = TBool; e_params = (true :: (true :: []));
    e_self = (Some O); e_slots = (S O); e_parsed = true; e_prelude = ((Guard
    (GAssert, (O :: []), RvFalse)) :: ((Guard (GRequire, ((S O) :: []),
    RvFalse)) :: (Body :: []))) } :: ({ e_name =
    (X73 :: (X70 :: (X69 :: (X66 :: (X5f :: (X75 :: (X73 :: (X74 :: (X72 :: (X5f :: (X61 :: (X70 :: (X70 :: (X65 :: (X6e :: (X64 :: (X5f :: (X63 :: (X68 :: (X61 :: (X72 :: [])))))))))))))))))))));
    e_reach = Exported; e_ret = TBool; e_params = (true :: (false :: []));
    e_self = (Some O); e_slots = (S O); e_parsed = true; e_prelude = ((Guard
    (GAssert, (O :: []), RvFalse)) :: (Body :: [])) } :: ({ e_name =
    (X73 :: (X70 :: (X69 :: (X66 :: (X5f :: (X75 :: (X73 :: (X74 :: (X72 :: (X5f :: (X61 :: (X70 :: (X70 :: (X65 :: (X6e :: (X64 :: (X5f :: (X66 :: (X72 :: (X6f :: (X6d :: (X5f :: (X70 :: (X74 :: (X72 :: [])))))))))))))))))))))))));
    e_reach = Exported; e_ret = TBool; e_params = (true :: (true :: []));
    e_self = (Some O); e_slots = (S O); e_parsed = true; e_prelude = ((Guard
    (GAssert, (O :: []), RvFalse)) :: ((Guard (GRequire, ((S O) :: []),
    RvFalse)) :: (Body :: []))) } :: ({ e_name =
    (X73 :: (X70 :: (X69 :: (X66 :: (X5f :: (X75 :: (X73 :: (X74 :: (X72 :: (X5f :: (X63 :: (X61 :: (X73 :: (X65 :: (X63 :: (X6d :: (X70 :: [])))))))))))))))));
    e_reach = Exported; e_ret = TCmp; e_params = (true :: (true :: []));
    e_self = (Some O); e_slots = (S O); e_parsed = true; e_prelude =
    ((CompNull (O, (S O))) :: (Body :: [])) } :: ({ e_name =
    (X73 :: (X70 :: (X69 :: (X66 :: (X5f :: (X75 :: (X73 :: (X74 :: (X72 :: (X5f :: (X63 :: (X61 :: (X73 :: (X65 :: (X63 :: (X6d :: (X70 :: (X5f :: (X77 :: (X69 :: (X74 :: (X68 :: (X5f :: (X70 :: (X74 :: (X72 :: []))))))))))))))))))))))))));
    e_reach = Exported; e_ret = TCmp; e_params = (true :: (true :: []));
    e_self = (Some O); e_slots = (S O); e_parsed = true; e_prelude =
    ((CompNull (O, (S O))) :: (Body :: [])) } :: ({ e_name =
    (X73 :: (X70 :: (X69 :: (X66 :: (X5f :: (X75 :: (X73 :: (X74 :: (X72 :: (X5f :: (X63 :: (X6c :: (X65 :: (X61 :: (X72 :: [])))))))))))))));
    e_reach = Exported; e_ret = TBool; e_params = (true :: (false :: []));
    e_self = (Some O); e_slots = (S O); e_parsed = true; e_prelude = ((Guard
    (GAssert, (O :: []), RvFalse)) :: (Body :: [])) } :: ({ e_name =
    (X73 :: (X70 :: (X69 :: (X66 :: (X5f :: (X75 :: (X73 :: (X74 :: (X72 :: (X5f :: (X63 :: (X6d :: (X70 :: [])))))))))))));
    e_reach = Exported; e_ret = TCmp; e_params = (true :: (true :: []));
    e_self = (Some O); e_slots = (S O); e_parsed = true; e_prelude =
    ((CompNull (O, (S O))) :: (Body :: [])) } :: ({ e_name =
    (X73 :: (X70 :: (X69 :: (X66 :: (X5f :: (X75 :: (X73 :: (X74 :: (X72 :: (X5f :: (X63 :: (X6d :: (X70 :: (X5f :: (X77 :: (X69 :: (X74 :: (X68 :: (X5f :: (X70 :: (X74 :: (X72 :: []))))))))))))))))))))));
    e_reach = Exported; e_ret = TCmp; e_params = (true :: (true :: []));
    e_self = (Some O); e_slots = (S O); e_parsed = true; e_prelude =
    ((CompNull (O, (S O))) :: (Body :: [])) } :: ({ e_name =
    (X73 :: (X70 :: (X69 :: (X66 :: (X5f :: (X75 :: (X73 :: (X74 :: (X72 :: (X5f :: (X64 :: (X6f :: (X77 :: (X6e :: (X63 :: (X61 :: (X73 :: (X65 :: []))))))))))))))))));
    e_reach = Exported; e_ret = TBool; e_params = (true :: []); e_self =
    (Some O); e_slots = (S O); e_parsed = true; e_prelude = ((Guard (GAssert,
    (O :: []), RvFalse)) :: (Body :: [])) } :: ({ e_name =
    (X73 :: (X70 :: (X69 :: (X66 :: (X5f :: (X75 :: (X73 :: (X74 :: (X72 :: (X5f :: (X66 :: (X69 :: (X6e :: (X64 :: []))))))))))))));
    e_reach = Exported; e_ret = TInt; e_params = (true :: (true :: []));
    e_self = (Some O); e_slots = (S O); e_parsed = true; e_prelude = ((Guard
    (GAssert, (O :: []), RvNeg1)) :: ((Guard (GRequire, ((S O) :: []),
    RvNeg1)) :: (Body :: []))) } :: ({ e_name =
    (X73 :: (X70 :: (X69 :: (X66 :: (X5f :: (X75 :: (X73 :: (X74 :: (X72 :: (X5f :: (X66 :: (X69 :: (X6e :: (X64 :: (X5f :: (X66 :: (X72 :: (X6f :: (X6d :: (X5f :: (X70 :: (X74 :: (X72 :: [])))))))))))))))))))))));
    e_reach = Exported; e_ret = TInt; e_params = (true :: (true :: []));
    e_self = (Some O); e_slots = (S O); e_parsed = true; e_prelude = ((Guard
    (GAssert, (O :: []), RvNeg1)) :: ((Guard (GRequire, ((S O) :: []),
    RvNeg1)) :: (Body :: []))) } :: ({ e_name =
    (X73 :: (X70 :: (X69 :: (X66 :: (X5f :: (X75 :: (X73 :: (X74 :: (X72 :: (X5f :: (X69 :: (X6e :: (X64 :: (X65 :: (X78 :: [])))))))))))))));
    e_reach = Exported; e_ret = TInt; e_params = (true :: (false :: []));
    e_self = (Some O); e_slots = (S O); e_parsed = true; e_prelude = ((Guard
    (GAssert, (O :: []), RvNeg1)) :: (Body :: [])) } :: ({ e_name =
    (X73 :: (X70 :: (X69 :: (X66 :: (X5f :: (X75 :: (X73 :: (X74 :: (X72 :: (X5f :: (X6e :: (X63 :: (X61 :: (X73 :: (X65 :: (X63 :: (X6d :: (X70 :: []))))))))))))))))));
    e_reach = Exported; e_ret = TCmp; e_params =
    (true :: (true :: (false :: []))); e_self = (Some O); e_slots = (S O);
    e_parsed = true; e_prelude = ((CompNull (O, (S
    O))) :: (Body :: [])) } :: ({ e_name =
    (X73 :: (X70 :: (X69 :: (X66 :: (X5f :: (X75 :: (X73 :: (X74 :: (X72 :: (X5f :: (X6e :: (X63 :: (X61 :: (X73 :: (X65 :: (X63 :: (X6d :: (X70 :: (X5f :: (X77 :: (X69 :: (X74 :: (X68 :: (X5f :: (X70 :: (X74 :: (X72 :: [])))))))))))))))))))))))))));
    e_reach = Exported; e_ret = TCmp; e_params =
    (true :: (true :: (false :: []))); e_self = (Some O); e_slots = (S O);
    e_parsed = true; e_prelude = ((CompNull (O, (S
    O))) :: (Body :: [])) } :: ({ e_name =
    (X73 :: (X70 :: (X69 :: (X66 :: (X5f :: (X75 :: (X73 :: (X74 :: (X72 :: (X5f :: (X6e :: (X63 :: (X6d :: (X70 :: []))))))))))))));
    e_reach = Exported; e_ret = TCmp; e_params =
    (true :: (true :: (false :: []))); e_self = (Some O); e_slots = (S O);
    e_parsed = true; e_prelude = ((CompNull (O, (S
    O))) :: (Body :: [])) } :: ({ e_name =
    (X73 :: (X70 :: (X69 :: (X66 :: (X5f :: (X75 :: (X73 :: (X74 :: (X72 :: (X5f :: (X6e :: (X63 :: (X6d :: (X70 :: (X5f :: (X77 :: (X69 :: (X74 :: (X68 :: (X5f :: (X70 :: (X74 :: (X72 :: [])))))))))))))))))))))));
    e_reach = Exported; e_ret = TCmp; e_params =
    (true :: (true :: (false :: []))); e_self = (Some O); e_slots = (S O);
    e_parsed = true; e_prelude = ((CompNull (O, (S
    O))) :: (Body :: [])) } :: ({ e_name =
    (X73 :: (X70 :: (X69 :: (X66 :: (X5f :: (X75 :: (X73 :: (X74 :: (X72 :: (X5f :: (X70 :: (X72 :: (X65 :: (X70 :: (X65 :: (X6e :: (X64 :: [])))))))))))))))));
    e_reach = Exported; e_ret = TBool; e_params = (true :: (true :: []));
    e_self = (Some O); e_slots = (S O); e_parsed = true; e_prelude = ((Guard
    (GAssert, (O :: []), RvFalse)) :: ((Guard (GRequire, ((S O) :: []),
    RvFalse)) :: (Body :: []))) } :: ({ e_name =
    (X73 :: (X70 :: (X69 :: (X66 :: (X5f :: (X75 :: (X73 :: (X74 :: (X72 :: (X5f :: (X70 :: (X72 :: (X65 :: (X70 :: (X65 :: (X6e :: (X64 :: (X5f :: (X63 :: (X68 :: (X61 :: (X72 :: []))))))))))))))))))))));
    e_reach = Exported; e_ret = TBool; e_params = (true :: (false :: []));
    e_self = (Some O); e_slots = (S O); e_parsed = true; e_prelude = ((Guard
    (GAssert, (O :: []), RvFalse)) :: (Body :: [])) } :: ({ e_name =
    (X73 :: (X70 :: (X69 :: (X66 :: (X5f :: (X75 :: (X73 :: (X74 :: (X72 :: (X5f :: (X70 :: (X72 :: (X65 :: (X70 :: (X65 :: (X6e :: (X64 :: (X5f :: (X66 :: (X72 :: (X6f :: (X6d :: (X5f :: (X70 :: (X74 :: (X72 :: []))))))))))))))))))))))))));
    e_reach = Exported; e_ret = TBool; e_params = (true :: (true :: []));
    e_self = (Some O); e_slots = (S O); e_parsed = true; e_prelude = ((Guard
    (GAssert, (O :: []), RvFalse)) :: ((Guard (GRequire, ((S O) :: []),
    RvFalse)) :: (Body :: []))) } :: ({ e_name =
    (X73 :: (X70 :: (X69 :: (X66 :: (X5f :: (X75 :: (X73 :: (X74 :: (X72 :: (X5f :: (X72 :: (X65 :: (X76 :: (X65 :: (X72 :: (X73 :: (X65 :: [])))))))))))))))));
    e_reach = Exported; e_ret = TBool; e_params = (true :: []); e_self =
    (Some O); e_slots = (S O); e_parsed = true; e_prelude = ((Guard (GAssert,
    (O :: []), RvFalse)) :: (Body :: [])) } :: ({ e_name =
    (X73 :: (X70 :: (X69 :: (X66 :: (X5f :: (X75 :: (X73 :: (X74 :: (X72 :: (X5f :: (X72 :: (X69 :: (X6e :: (X64 :: (X65 :: (X78 :: []))))))))))))))));
    e_reach = Exported; e_ret = TInt; e_params = (true :: (false :: []));
    e_self = (Some O); e_slots = (S O); e_parsed = true; e_prelude = ((Guard
    (GAssert, (O :: []), RvNeg1)) :: (Body :: [])) } :: ({ e_name =
    (X73 :: (X70 :: (X69 :: (X66 :: (X5f :: (X75 :: (X73 :: (X74 :: (X72 :: (X5f :: (X73 :: (X70 :: (X6c :: (X69 :: (X63 :: (X65 :: []))))))))))))))));
    e_reach = Exported; e_ret = TBool; e_params =
    (true :: (false :: (false :: (true :: [])))); e_self = (Some O);
    e_slots = (S O); e_parsed = true; e_prelude = ((Guard (GAssert,
    (O :: []), RvFalse)) :: (Body :: [])) } :: ({ e_name =
    (X73 :: (X70 :: (X69 :: (X66 :: (X5f :: (X75 :: (X73 :: (X74 :: (X72 :: (X5f :: (X73 :: (X70 :: (X6c :: (X69 :: (X63 :: (X65 :: (X5f :: (X66 :: (X72 :: (X6f :: (X6d :: (X5f :: (X70 :: (X74 :: (X72 :: [])))))))))))))))))))))))));
    e_reach = Exported; e_ret = TBool; e_params =
    (true :: (false :: (false :: (true :: [])))); e_self = (Some O);
    e_slots = (S O); e_parsed = true; e_prelude = ((Guard (GAssert,
    (O :: []), RvFalse)) :: (Body :: [])) } :: ({ e_name =
    (X73 :: (X70 :: (X69 :: (X66 :: (X5f :: (X75 :: (X73 :: (X74 :: (X72 :: (X5f :: (X73 :: (X70 :: (X72 :: (X69 :: (X6e :: (X74 :: (X66 :: [])))))))))))))))));
    e_reach = Exported; e_ret = TBool; e_params =
    (true :: (true :: (false :: []))); e_self = (Some O); e_slots = (S O);
    e_parsed = true; e_prelude = ((Guard (GAssert, (O :: []),
    RvFalse)) :: (Body :: [])) } :: ({ e_name =
    (X73 :: (X70 :: (X69 :: (X66 :: (X5f :: (X75 :: (X73 :: (X74 :: (X72 :: (X5f :: (X73 :: (X75 :: (X62 :: (X73 :: (X74 :: (X72 :: []))))))))))))))));
    e_reach = Exported; e_ret = TPtr; e_params =
    (true :: (false :: (false :: []))); e_self = (Some O); e_slots = (S O);
    e_parsed = true; e_prelude = ((Guard (GAssert, (O :: []),
    RvNull)) :: (Body :: [])) } :: ({ e_name =
    (X73 :: (X70 :: (X69 :: (X66 :: (X5f :: (X75 :: (X73 :: (X74 :: (X72 :: (X5f :: (X73 :: (X75 :: (X62 :: (X73 :: (X74 :: (X72 :: (X5f :: (X74 :: (X6f :: (X5f :: (X70 :: (X74 :: (X72 :: [])))))))))))))))))))))));
    e_reach = Exported; e_ret = TPtr; e_params =
    (true :: (false :: (false :: []))); e_self = (Some O); e_slots = (S O);
    e_parsed = true; e_prelude = ((Guard (GAssert, (O :: []),
    RvNull)) :: (Body :: [])) } :: ({ e_name =
    (X73 :: (X70 :: (X69 :: (X66 :: (X5f :: (X75 :: (X73 :: (X74 :: (X72 :: (X5f :: (X74 :: (X6f :: (X5f :: (X66 :: (X6c :: (X6f :: (X61 :: (X74 :: []))))))))))))))))));
    e_reach = Exported; e_ret = TFloat; e_params = (true :: []); e_self =
    (Some O); e_slots = (S O); e_parsed = true; e_prelude = ((Guard (GAssert,
    (O :: []), RvNaN)) :: (Body :: [])) } :: ({ e_name =
    (X73 :: (X70 :: (X69 :: (X66 :: (X5f :: (X75 :: (X73 :: (X74 :: (X72 :: (X5f :: (X74 :: (X6f :: (X5f :: (X6e :: (X75 :: (X6d :: []))))))))))))))));
    e_reach = Exported; e_ret = TInt; e_params = (true :: (false :: []));
    e_self = (Some O); e_slots = (S O); e_parsed = true; e_prelude = ((Guard
    (GAssert, (O :: []), RvNeg1)) :: (Body :: [])) } :: ({ e_name =
    (X73 :: (X70 :: (X69 :: (X66 :: (X5f :: (X75 :: (X73 :: (X74 :: (X72 :: (X5f :: (X74 :: (X72 :: (X69 :: (X6d :: []))))))))))))));
    e_reach = Exported; e_ret = TBool; e_params = (true :: []); e_self =
    (Some O); e_slots = (S O); e_parsed = true; e_prelude = ((Guard (GAssert,
    (O :: []), RvFalse)) :: (Body :: [])) } :: ({ e_name =
    (X73 :: (X70 :: (X69 :: (X66 :: (X5f :: (X75 :: (X73 :: (X74 :: (X72 :: (X5f :: (X75 :: (X70 :: (X63 :: (X61 :: (X73 :: (X65 :: []))))))))))))))));
    e_reach = Exported; e_ret = TBool; e_params = (true :: []); e_self =
    (Some O); e_slots = (S O); e_parsed = true; e_prelude = ((Guard (GAssert,
    (O :: []), RvFalse)) :: (Body :: [])) } :: ({ e_name =
    (X73 :: (X70 :: (X69 :: (X66 :: (X5f :: (X75 :: (X73 :: (X74 :: (X72 :: (X5f :: (X67 :: (X65 :: (X74 :: (X5f :: (X73 :: (X69 :: (X7a :: (X65 :: []))))))))))))))))));
    e_reach = Exported; e_ret = TInt; e_params = (true :: []); e_self = (Some
    O); e_slots = O; e_parsed = true; e_prelude =
    (Body :: []) } :: ({ e_name =
    (X73 :: (X70 :: (X69 :: (X66 :: (X5f :: (X75 :: (X73 :: (X74 :: (X72 :: (X5f :: (X73 :: (X65 :: (X74 :: (X5f :: (X73 :: (X69 :: (X7a :: (X65 :: []))))))))))))))))));
    e_reach = Exported; e_ret = TInt; e_params = (true :: (false :: []));
    e_self = (Some O); e_slots = O; e_parsed = true; e_prelude =
    (Body :: []) } :: ({ e_name =
    (X73 :: (X70 :: (X69 :: (X66 :: (X5f :: (X75 :: (X73 :: (X74 :: (X72 :: (X5f :: (X67 :: (X65 :: (X74 :: (X5f :: (X6c :: (X65 :: (X6e :: [])))))))))))))))));
    e_reach = Exported; e_ret = TInt; e_params = (true :: []); e_self = (Some
    O); e_slots = O; e_parsed = true; e_prelude =
    (Body :: []) } :: ({ e_name =
    (X73 :: (X70 :: (X69 :: (X66 :: (X5f :: (X75 :: (X73 :: (X74 :: (X72 :: (X5f :: (X73 :: (X65 :: (X74 :: (X5f :: (X6c :: (X65 :: (X6e :: [])))))))))))))))));
    e_reach = Exported; e_ret = TInt; e_params = (true :: (false :: []));
    e_self = (Some O); e_slots = O; e_parsed = true; e_prelude =
    (Body :: []) } :: ({ e_name =
    (X73 :: (X70 :: (X69 :: (X66 :: (X5f :: (X6d :: (X62 :: (X75 :: (X66 :: (X66 :: (X5f :: (X6e :: (X65 :: (X77 :: []))))))))))))));
    e_reach = Exported; e_ret = TPtr; e_params = []; e_self = None; e_slots =
    (S O); e_parsed = true; e_prelude = (Body :: []) } :: ({ e_name =
    (X73 :: (X70 :: (X69 :: (X66 :: (X5f :: (X6d :: (X62 :: (X75 :: (X66 :: (X66 :: (X5f :: (X6e :: (X65 :: (X77 :: (X5f :: (X66 :: (X72 :: (X6f :: (X6d :: (X5f :: (X70 :: (X74 :: (X72 :: [])))))))))))))))))))))));
    e_reach = Exported; e_ret = TPtr; e_params = (true :: (false :: []));
    e_self = None; e_slots = (S O); e_parsed = true; e_prelude =
    (Body :: []) } :: ({ e_name =
    (X73 :: (X70 :: (X69 :: (X66 :: (X5f :: (X6d :: (X62 :: (X75 :: (X66 :: (X66 :: (X5f :: (X6e :: (X65 :: (X77 :: (X5f :: (X66 :: (X72 :: (X6f :: (X6d :: (X5f :: (X62 :: (X75 :: (X66 :: (X66 :: []))))))))))))))))))))))));
    e_reach = Exported; e_ret = TPtr; e_params =
    (true :: (false :: (false :: []))); e_self = None; e_slots = (S O);
    e_parsed = true; e_prelude = (Body :: []) } :: ({ e_name =
    (X73 :: (X70 :: (X69 :: (X66 :: (X5f :: (X6d :: (X62 :: (X75 :: (X66 :: (X66 :: (X5f :: (X6e :: (X65 :: (X77 :: (X5f :: (X66 :: (X72 :: (X6f :: (X6d :: (X5f :: (X66 :: (X70 :: []))))))))))))))))))))));
    e_reach = Exported; e_ret = TPtr; e_params = (true :: []); e_self = None;
    e_slots = (S O); e_parsed = true; e_prelude =
    (Body :: []) } :: ({ e_name =
    (X73 :: (X70 :: (X69 :: (X66 :: (X5f :: (X6d :: (X62 :: (X75 :: (X66 :: (X66 :: (X5f :: (X6e :: (X65 :: (X77 :: (X5f :: (X66 :: (X72 :: (X6f :: (X6d :: (X5f :: (X66 :: (X64 :: []))))))))))))))))))))));
    e_reach = Exported; e_ret = TPtr; e_params = (false :: []); e_self =
    None; e_slots = (S O); e_parsed = true; e_prelude =
    (Body :: []) } :: ({ e_name =
    (X73 :: (X70 :: (X69 :: (X66 :: (X5f :: (X6d :: (X62 :: (X75 :: (X66 :: (X66 :: (X5f :: (X69 :: (X6e :: (X69 :: (X74 :: [])))))))))))))));
    e_reach = Exported; e_ret = TBool; e_params = (true :: []); e_self =
    (Some O); e_slots = (S O); e_parsed = true; e_prelude = ((Guard (GAssert,
    (O :: []), RvFalse)) :: (Body :: [])) } :: ({ e_name =
    (X73 :: (X70 :: (X69 :: (X66 :: (X5f :: (X6d :: (X62 :: (X75 :: (X66 :: (X66 :: (X5f :: (X69 :: (X6e :: (X69 :: (X74 :: (X5f :: (X66 :: (X72 :: (X6f :: (X6d :: (X5f :: (X70 :: (X74 :: (X72 :: []))))))))))))))))))))))));
    e_reach = Exported; e_ret = TBool; e_params =
    (true :: (true :: (false :: []))); e_self = (Some O); e_slots = (S O);
    e_parsed = true; e_prelude = ((Guard (GAssert, (O :: []),
    RvFalse)) :: ((Guard (GRequire, ((S O) :: []), (RvCall
    (X73 :: (X70 :: (X69 :: (X66 :: (X5f :: (X6d :: (X62 :: (X75 :: (X66 :: (X66 :: (X5f :: (X69 :: (X6e :: (X69 :: (X74 :: [])))))))))))))))))) :: (Body :: []))) } :: ({ e_name =
    (X73 :: (X70 :: (X69 :: (X66 :: (X5f :: (X6d :: (X62 :: (X75 :: (X66 :: (X66 :: (X5f :: (X69 :: (X6e :: (X69 :: (X74 :: (X5f :: (X66 :: (X72 :: (X6f :: (X6d :: (X5f :: (X62 :: (X75 :: (X66 :: (X66 :: [])))))))))))))))))))))))));
    e_reach = Exported; e_ret = TBool; e_params =
    (true :: (true :: (false :: (false :: [])))); e_self = (Some O);
    e_slots = (S O); e_parsed = true; e_prelude = ((Guard (GAssert,
    (O :: []), RvFalse)) :: (Body :: [])) } :: ({ e_name =
    (X73 :: (X70 :: (X69 :: (X66 :: (X5f :: (X6d :: (X62 :: (X75 :: (X66 :: (X66 :: (X5f :: (X69 :: (X6e :: (X69 :: (X74 :: (X5f :: (X66 :: (X72 :: (X6f :: (X6d :: (X5f :: (X66 :: (X70 :: [])))))))))))))))))))))));
    e_reach = Exported; e_ret = TBool; e_params = (true :: (true :: []));
    e_self = (Some O); e_slots = (S O); e_parsed = true; e_prelude = ((Guard
    (GAssert, (O :: []), RvFalse)) :: ((Guard (GAssert, ((S O) :: []),
    RvFalse)) :: (Body :: []))) } :: ({ e_name =
    (X73 :: (X70 :: (X69 :: (X66 :: (X5f :: (X6d :: (X62 :: (X75 :: (X66 :: (X66 :: (X5f :: (X69 :: (X6e :: (X69 :: (X74 :: (X5f :: (X66 :: (X72 :: (X6f :: (X6d :: (X5f :: (X66 :: (X64 :: [])))))))))))))))))))))));
    e_reach = Exported; e_ret = TBool; e_params = (true :: (false :: []));
    e_self = (Some O); e_slots = (S O); e_parsed = true; e_prelude = ((Guard
    (GAssert, (O :: []), RvFalse)) :: ((Guard (GAssert, [],
    RvFalse)) :: (Body :: []))) } :: ({ e_name =
    (X73 :: (X70 :: (X69 :: (X66 :: (X5f :: (X6d :: (X62 :: (X75 :: (X66 :: (X66 :: (X5f :: (X64 :: (X6f :: (X6e :: (X65 :: [])))))))))))))));
    e_reach = Exported; e_ret = TBool; e_params = (true :: []); e_self =
    (Some O); e_slots = (S O); e_parsed = true; e_prelude = ((Guard (GAssert,
    (O :: []), RvFalse)) :: (Body :: [])) } :: ({ e_name =
    (X73 :: (X70 :: (X69 :: (X66 :: (X5f :: (X6d :: (X62 :: (X75 :: (X66 :: (X66 :: (X5f :: (X64 :: (X65 :: (X6c :: []))))))))))))));
    e_reach = Exported; e_ret = TBool; e_params = (true :: []); e_self =
    (Some O); e_slots = (S O); e_parsed = true; e_prelude = ((Guard (GAssert,
    (O :: []), RvFalse)) :: (Body :: [])) } :: ({ e_name =
    (X73 :: (X70 :: (X69 :: (X66 :: (X5f :: (X6d :: (X62 :: (X75 :: (X66 :: (X66 :: (X5f :: (X73 :: (X68 :: (X6f :: (X77 :: [])))))))))))))));
    e_reach = Exported; e_ret = TPtr; e_params =
    (true :: (true :: (true :: (false :: [])))); e_self = (Some O); e_slots =
    (S O); e_parsed = true; e_prelude = ((Guard (GIf, (O :: []),
    RvHandled)) :: (Body :: [])) } :: ({ e_name =
    (X73 :: (X70 :: (X69 :: (X66 :: (X5f :: (X6d :: (X62 :: (X75 :: (X66 :: (X66 :: (X5f :: (X63 :: (X6f :: (X6d :: (X70 :: [])))))))))))))));
    e_reach = Exported; e_ret = TCmp; e_params = (true :: (true :: []));
    e_self = (Some O); e_slots = (S O); e_parsed = true; e_prelude =
    ((Delegate
    ((X73 :: (X70 :: (X69 :: (X66 :: (X5f :: (X6d :: (X62 :: (X75 :: (X66 :: (X66 :: (X5f :: (X63 :: (X6d :: (X70 :: [])))))))))))))),
    ((Some O) :: ((Some (S O)) :: [])), PId)) :: []) } :: ({ e_name =
    (X73 :: (X70 :: (X69 :: (X66 :: (X5f :: (X6d :: (X62 :: (X75 :: (X66 :: (X66 :: (X5f :: (X64 :: (X75 :: (X70 :: []))))))))))))));
    e_reach = Exported; e_ret = TPtr; e_params = (true :: []); e_self = (Some
    O); e_slots = (S O); e_parsed = true; e_prelude = ((Guard (GAssert,
    (O :: []), RvNull)) :: (Body :: [])) } :: ({ e_name =
    (X73 :: (X70 :: (X69 :: (X66 :: (X5f :: (X6d :: (X62 :: (X75 :: (X66 :: (X66 :: (X5f :: (X74 :: (X79 :: (X70 :: (X65 :: [])))))))))))))));
    e_reach = Exported; e_ret = TPtr; e_params = (true :: []); e_self = (Some
    O); e_slots = (S O); e_parsed = true; e_prelude = ((Guard (GAssert,
    (O :: []), RvNullStr)) :: (Body :: [])) } :: ({ e_name =
    (X73 :: (X70 :: (X69 :: (X66 :: (X5f :: (X6d :: (X62 :: (X75 :: (X66 :: (X66 :: (X5f :: (X61 :: (X70 :: (X70 :: (X65 :: (X6e :: (X64 :: [])))))))))))))))));
    e_reach = Exported; e_ret = TBool; e_params = (true :: (true :: []));
    e_self = (Some O); e_slots = (S O); e_parsed = true; e_prelude = ((Guard
    (GAssert, (O :: []), RvFalse)) :: ((Guard (GRequire, ((S O) :: []),
    RvFalse)) :: (Body :: []))) } :: ({ e_name =
    (X73 :: (X70 :: (X69 :: (X66 :: (X5f :: (X6d :: (X62 :: (X75 :: (X66 :: (X66 :: (X5f :: (X61 :: (X70 :: (X70 :: (X65 :: (X6e :: (X64 :: (X5f :: (X66 :: (X72 :: (X6f :: (X6d :: (X5f :: (X70 :: (X74 :: (X72 :: []))))))))))))))))))))))))));
    e_reach = Exported; e_ret = TBool; e_params =
    (true :: (true :: (false :: []))); e_self = (Some O); e_slots = (S O);
    e_parsed = true; e_prelude = ((Guard (GAssert, (O :: []),
    RvFalse)) :: ((Guard (GRequire, ((S O) :: []),
    RvFalse)) :: (Body :: []))) } :: ({ e_name =
    (X73 :: (X70 :: (X69 :: (X66 :: (X5f :: (X6d :: (X62 :: (X75 :: (X66 :: (X66 :: (X5f :: (X63 :: (X6c :: (X65 :: (X61 :: (X72 :: []))))))))))))))));
    e_reach = Exported; e_ret = TBool; e_params = (true :: (false :: []));
    e_self = (Some O); e_slots = (S O); e_parsed = true; e_prelude = ((Guard
    (GAssert, (O :: []), RvFalse)) :: (Body :: [])) } :: ({ e_name =
    (X73 :: (X70 :: (X69 :: (X66 :: (X5f :: (X6d :: (X62 :: (X75 :: (X66 :: (X66 :: (X5f :: (X63 :: (X6d :: (X70 :: []))))))))))))));
    e_reach = Exported; e_ret = TCmp; e_params = (true :: (true :: []));
    e_self = (Some O); e_slots = (S O); e_parsed = true; e_prelude =
    ((CompNull (O, (S O))) :: (Body :: [])) } :: ({ e_name =
    (X73 :: (X70 :: (X69 :: (X66 :: (X5f :: (X6d :: (X62 :: (X75 :: (X66 :: (X66 :: (X5f :: (X63 :: (X6d :: (X70 :: (X5f :: (X77 :: (X69 :: (X74 :: (X68 :: (X5f :: (X70 :: (X74 :: (X72 :: [])))))))))))))))))))))));
    e_reach = Exported; e_ret = TCmp; e_params =
    (true :: (true :: (false :: []))); e_self = (Some O); e_slots = (S O);
    e_parsed = true; e_prelude = ((CompNull (O, (S
    O))) :: (Body :: [])) } :: ({ e_name =
    (X73 :: (X70 :: (X69 :: (X66 :: (X5f :: (X6d :: (X62 :: (X75 :: (X66 :: (X66 :: (X5f :: (X66 :: (X69 :: (X6e :: (X64 :: [])))))))))))))));
    e_reach = Exported; e_ret = TInt; e_params = (true :: (true :: []));
    e_self = (Some O); e_slots = (S O); e_parsed = true; e_prelude = ((Guard
    (GAssert, (O :: []), RvNeg1)) :: ((Guard (GRequire, ((S O) :: []),
    RvNeg1)) :: (Body :: []))) } :: ({ e_name =
    (X73 :: (X70 :: (X69 :: (X66 :: (X5f :: (X6d :: (X62 :: (X75 :: (X66 :: (X66 :: (X5f :: (X66 :: (X69 :: (X6e :: (X64 :: (X5f :: (X66 :: (X72 :: (X6f :: (X6d :: (X5f :: (X70 :: (X74 :: (X72 :: []))))))))))))))))))))))));
    e_reach = Exported; e_ret = TInt; e_params =
    (true :: (true :: (false :: []))); e_self = (Some O); e_slots = (S O);
    e_parsed = true; e_prelude = ((Guard (GAssert, (O :: []),
    RvNeg1)) :: ((Guard (GRequire, ((S O) :: []),
    RvNeg1)) :: (Body :: []))) } :: ({ e_name =
    (X73 :: (X70 :: (X69 :: (X66 :: (X5f :: (X6d :: (X62 :: (X75 :: (X66 :: (X66 :: (X5f :: (X69 :: (X6e :: (X64 :: (X65 :: (X78 :: []))))))))))))))));
    e_reach = Exported; e_ret = TInt; e_params = (true :: (false :: []));
    e_self = (Some O); e_slots = (S O); e_parsed = true; e_prelude = ((Guard
    (GAssert, (O :: []), RvNeg1)) :: (Body :: [])) } :: ({ e_name =
    (X73 :: (X70 :: (X69 :: (X66 :: (X5f :: (X6d :: (X62 :: (X75 :: (X66 :: (X66 :: (X5f :: (X6e :: (X63 :: (X6d :: (X70 :: [])))))))))))))));
    e_reach = Exported; e_ret = TCmp; e_params =
    (true :: (true :: (false :: []))); e_self = (Some O); e_slots = (S O);
    e_parsed = true; e_prelude = ((CompNull (O, (S
    O))) :: (Body :: [])) } :: ({ e_name =
    (X73 :: (X70 :: (X69 :: (X66 :: (X5f :: (X6d :: (X62 :: (X75 :: (X66 :: (X66 :: (X5f :: (X6e :: (X63 :: (X6d :: (X70 :: (X5f :: (X77 :: (X69 :: (X74 :: (X68 :: (X5f :: (X70 :: (X74 :: (X72 :: []))))))))))))))))))))))));
    e_reach = Exported; e_ret = TCmp; e_params =
    (true :: (true :: (false :: []))); e_self = (Some O); e_slots = (S O);
    e_parsed = true; e_prelude = ((Delegate
    ((X73 :: (X70 :: (X69 :: (X66 :: (X5f :: (X6d :: (X62 :: (X75 :: (X66 :: (X66 :: (X5f :: (X63 :: (X6d :: (X70 :: (X5f :: (X77 :: (X69 :: (X74 :: (X68 :: (X5f :: (X70 :: (X74 :: (X72 :: []))))))))))))))))))))))),
    ((Some O) :: ((Some (S O)) :: (None :: []))),
    PId)) :: []) } :: ({ e_name =
    (X73 :: (X70 :: (X69 :: (X66 :: (X5f :: (X6d :: (X62 :: (X75 :: (X66 :: (X66 :: (X5f :: (X70 :: (X72 :: (X65 :: (X70 :: (X65 :: (X6e :: (X64 :: []))))))))))))))))));
    e_reach = Exported; e_ret = TBool; e_params = (true :: (true :: []));
    e_self = (Some O); e_slots = (S O); e_parsed = true; e_prelude = ((Guard
    (GAssert, (O :: []), RvFalse)) :: ((Guard (GRequire, ((S O) :: []),
    RvFalse)) :: (Body :: []))) } :: ({ e_name =
    (X73 :: (X70 :: (X69 :: (X66 :: (X5f :: (X6d :: (X62 :: (X75 :: (X66 :: (X66 :: (X5f :: (X70 :: (X72 :: (X65 :: (X70 :: (X65 :: (X6e :: (X64 :: (X5f :: (X66 :: (X72 :: (X6f :: (X6d :: (X5f :: (X70 :: (X74 :: (X72 :: [])))))))))))))))))))))))))));
    e_reach = Exported; e_ret = TBool; e_params =
    (true :: (true :: (false :: []))); e_self = (Some O); e_slots = (S O);
    e_parsed = true; e_prelude = ((Guard (GAssert, (O :: []),
    RvFalse)) :: ((Guard (GRequire, ((S O) :: []),
    RvFalse)) :: (Body :: []))) } :: ({ e_name =
    (X73 :: (X70 :: (X69 :: (X66 :: (X5f :: (X6d :: (X62 :: (X75 :: (X66 :: (X66 :: (X5f :: (X72 :: (X65 :: (X76 :: (X65 :: (X72 :: (X73 :: (X65 :: []))))))))))))))))));
    e_reach = Exported; e_ret = TBool; e_params = (true :: []); e_self =
    (Some O); e_slots = (S O); e_parsed = true; e_prelude = ((Guard (GAssert,
    (O :: []), RvFalse)) :: ((Deref O) :: ((Guard (GRequire, [],
    RvFalse)) :: (Body :: [])))) } :: ({ e_name =
    (X73 :: (X70 :: (X69 :: (X66 :: (X5f :: (X6d :: (X62 :: (X75 :: (X66 :: (X66 :: (X5f :: (X72 :: (X69 :: (X6e :: (X64 :: (X65 :: (X78 :: [])))))))))))))))));
    e_reach = Exported; e_ret = TInt; e_params = (true :: (false :: []));
    e_self = (Some O); e_slots = (S O); e_parsed = true; e_prelude = ((Guard
    (GAssert, (O :: []), RvNeg1)) :: (Body :: [])) } :: ({ e_name =
    (X73 :: (X70 :: (X69 :: (X66 :: (X5f :: (X6d :: (X62 :: (X75 :: (X66 :: (X66 :: (X5f :: (X73 :: (X70 :: (X6c :: (X69 :: (X63 :: (X65 :: [])))))))))))))))));
    e_reach = Exported; e_ret = TBool; e_params =
    (true :: (false :: (false :: (true :: [])))); e_self = (Some O);
    e_slots = (S O); e_parsed = true; e_prelude = ((Guard (GAssert,
    (O :: []), RvFalse)) :: (Body :: [])) } :: ({ e_name =
    (X73 :: (X70 :: (X69 :: (X66 :: (X5f :: (X6d :: (X62 :: (X75 :: (X66 :: (X66 :: (X5f :: (X73 :: (X70 :: (X6c :: (X69 :: (X63 :: (X65 :: (X5f :: (X66 :: (X72 :: (X6f :: (X6d :: (X5f :: (X70 :: (X74 :: (X72 :: []))))))))))))))))))))))))));
    e_reach = Exported; e_ret = TBool; e_params =
    (true :: (false :: (false :: (true :: (false :: []))))); e_self = (Some
    O); e_slots = (S O); e_parsed = true; e_prelude = ((Guard (GAssert,
    (O :: []), RvFalse)) :: (Body :: [])) } :: ({ e_name =
    (X73 :: (X70 :: (X69 :: (X66 :: (X5f :: (X6d :: (X62 :: (X75 :: (X66 :: (X66 :: (X5f :: (X73 :: (X70 :: (X72 :: (X69 :: (X6e :: (X74 :: (X66 :: []))))))))))))))))));
    e_reach = Exported; e_ret = TBool; e_params =
    (true :: (true :: (false :: []))); e_self = (Some O); e_slots = (S O);
    e_parsed = true; e_prelude = ((Guard (GAssert, (O :: []),
    RvFalse)) :: (Body :: [])) } :: ({ e_name =
    (X73 :: (X70 :: (X69 :: (X66 :: (X5f :: (X6d :: (X62 :: (X75 :: (X66 :: (X66 :: (X5f :: (X73 :: (X75 :: (X62 :: (X62 :: (X75 :: (X66 :: (X66 :: []))))))))))))))))));
    e_reach = Exported; e_ret = TPtr; e_params =
    (true :: (false :: (false :: []))); e_self = (Some O); e_slots = (S O);
    e_parsed = true; e_prelude = ((Guard (GAssert, (O :: []),
    RvNull)) :: (Body :: [])) } :: ({ e_name =
    (X73 :: (X70 :: (X69 :: (X66 :: (X5f :: (X6d :: (X62 :: (X75 :: (X66 :: (X66 :: (X5f :: (X73 :: (X75 :: (X62 :: (X62 :: (X75 :: (X66 :: (X66 :: (X5f :: (X74 :: (X6f :: (X5f :: (X70 :: (X74 :: (X72 :: [])))))))))))))))))))))))));
    e_reach = Exported; e_ret = TPtr; e_params =
    (true :: (false :: (false :: []))); e_self = (Some O); e_slots = (S O);
    e_parsed = true; e_prelude = ((Guard (GAssert, (O :: []),
    RvNull)) :: (Body :: [])) } :: ({ e_name =
    (X73 :: (X70 :: (X69 :: (X66 :: (X5f :: (X6d :: (X62 :: (X75 :: (X66 :: (X66 :: (X5f :: (X74 :: (X72 :: (X69 :: (X6d :: [])))))))))))))));
    e_reach = Exported; e_ret = TBool; e_params = (true :: []); e_self =
    (Some O); e_slots = (S O); e_parsed = true; e_prelude = ((Guard (GAssert,
    (O :: []), RvFalse)) :: (Body :: [])) } :: ({ e_name =
    (X73 :: (X70 :: (X69 :: (X66 :: (X5f :: (X6d :: (X62 :: (X75 :: (X66 :: (X66 :: (X5f :: (X67 :: (X65 :: (X74 :: (X5f :: (X73 :: (X69 :: (X7a :: (X65 :: [])))))))))))))))))));
    e_reach = Exported; e_ret = TInt; e_params = (true :: []); e_self = (Some
    O); e_slots = O; e_parsed = true; e_prelude =
    (Body :: []) } :: ({ e_name =
    (X73 :: (X70 :: (X69 :: (X66 :: (X5f :: (X6d :: (X62 :: (X75 :: (X66 :: (X66 :: (X5f :: (X73 :: (X65 :: (X74 :: (X5f :: (X73 :: (X69 :: (X7a :: (X65 :: [])))))))))))))))))));
    e_reach = Exported; e_ret = TInt; e_params = (true :: (false :: []));
    e_self = (Some O); e_slots = O; e_parsed = true; e_prelude =
    (Body :: []) } :: ({ e_name =
    (X73 :: (X70 :: (X69 :: (X66 :: (X5f :: (X6d :: (X62 :: (X75 :: (X66 :: (X66 :: (X5f :: (X67 :: (X65 :: (X74 :: (X5f :: (X6c :: (X65 :: (X6e :: []))))))))))))))))));
    e_reach = Exported; e_ret = TInt; e_params = (true :: []); e_self = (Some
    O); e_slots = O; e_parsed = true; e_prelude =
    (Body :: []) } :: ({ e_name =
    (X73 :: (X70 :: (X69 :: (X66 :: (X5f :: (X6d :: (X62 :: (X75 :: (X66 :: (X66 :: (X5f :: (X73 :: (X65 :: (X74 :: (X5f :: (X6c :: (X65 :: (X6e :: []))))))))))))))))));
    e_reach = Exported; e_ret = TInt; e_params = (true :: (false :: []));
    e_self = (Some O); e_slots = O; e_parsed = true; e_prelude =
    (Body :: []) } :: ({ e_name =
    (X73 :: (X70 :: (X69 :: (X66 :: (X5f :: (X6f :: (X62 :: (X6a :: (X70 :: (X61 :: (X69 :: (X72 :: (X5f :: (X6e :: (X65 :: (X77 :: []))))))))))))))));
    e_reach = Exported; e_ret = TPtr; e_params = []; e_self = None; e_slots =
    (S O); e_parsed = true; e_prelude = (Body :: []) } :: ({ e_name =
    (X73 :: (X70 :: (X69 :: (X66 :: (X5f :: (X6f :: (X62 :: (X6a :: (X70 :: (X61 :: (X69 :: (X72 :: (X5f :: (X6e :: (X65 :: (X77 :: (X5f :: (X66 :: (X72 :: (X6f :: (X6d :: (X5f :: (X6b :: (X65 :: (X79 :: [])))))))))))))))))))))))));
    e_reach = Exported; e_ret = TPtr; e_params = (true :: []); e_self = None;
    e_slots = O; e_parsed = true; e_prelude = (Body :: []) } :: ({ e_name =
    (X73 :: (X70 :: (X69 :: (X66 :: (X5f :: (X6f :: (X62 :: (X6a :: (X70 :: (X61 :: (X69 :: (X72 :: (X5f :: (X6e :: (X65 :: (X77 :: (X5f :: (X66 :: (X72 :: (X6f :: (X6d :: (X5f :: (X76 :: (X61 :: (X6c :: (X75 :: (X65 :: [])))))))))))))))))))))))))));
    e_reach = Exported; e_ret = TPtr; e_params = (true :: []); e_self = None;
    e_slots = O; e_parsed = true; e_prelude = (Body :: []) } :: ({ e_name =
    (X73 :: (X70 :: (X69 :: (X66 :: (X5f :: (X6f :: (X62 :: (X6a :: (X70 :: (X61 :: (X69 :: (X72 :: (X5f :: (X6e :: (X65 :: (X77 :: (X5f :: (X66 :: (X72 :: (X6f :: (X6d :: (X5f :: (X62 :: (X6f :: (X74 :: (X68 :: []))))))))))))))))))))))))));
    e_reach = Exported; e_ret = TPtr; e_params = (true :: (true :: []));
    e_self = None; e_slots = O; e_parsed = true; e_prelude =
    (Body :: []) } :: ({ e_name =
    (X73 :: (X70 :: (X69 :: (X66 :: (X5f :: (X6f :: (X62 :: (X6a :: (X70 :: (X61 :: (X69 :: (X72 :: (X5f :: (X69 :: (X6e :: (X69 :: (X74 :: [])))))))))))))))));
    e_reach = Exported; e_ret = TBool; e_params = (true :: []); e_self =
    (Some O); e_slots = (S O); e_parsed = true; e_prelude = ((Guard (GAssert,
    (O :: []), RvFalse)) :: (Body :: [])) } :: ({ e_name =
    (X73 :: (X70 :: (X69 :: (X66 :: (X5f :: (X6f :: (X62 :: (X6a :: (X70 :: (X61 :: (X69 :: (X72 :: (X5f :: (X69 :: (X6e :: (X69 :: (X74 :: (X5f :: (X66 :: (X72 :: (X6f :: (X6d :: (X5f :: (X6b :: (X65 :: (X79 :: []))))))))))))))))))))))))));
    e_reach = Exported; e_ret = TBool; e_params = (true :: (true :: []));
    e_self = (Some O); e_slots = O; e_parsed = true; e_prelude = ((Guard
    (GAssert, (O :: []), RvFalse)) :: ((Guard (GAssert, ((S O) :: []),
    RvFalse)) :: (Body :: []))) } :: ({ e_name =
    (X73 :: (X70 :: (X69 :: (X66 :: (X5f :: (X6f :: (X62 :: (X6a :: (X70 :: (X61 :: (X69 :: (X72 :: (X5f :: (X69 :: (X6e :: (X69 :: (X74 :: (X5f :: (X66 :: (X72 :: (X6f :: (X6d :: (X5f :: (X76 :: (X61 :: (X6c :: (X75 :: (X65 :: []))))))))))))))))))))))))))));
    e_reach = Exported; e_ret = TBool; e_params = (true :: (true :: []));
    e_self = (Some O); e_slots = O; e_parsed = true; e_prelude = ((Guard
    (GAssert, (O :: []), RvFalse)) :: ((Guard (GAssert, ((S O) :: []),
    RvFalse)) :: (Body :: []))) } :: ({ e_name =
    (X73 :: (X70 :: (X69 :: (X66 :: (X5f :: (X6f :: (X62 :: (X6a :: (X70 :: (X61 :: (X69 :: (X72 :: (X5f :: (X69 :: (X6e :: (X69 :: (X74 :: (X5f :: (X66 :: (X72 :: (X6f :: (X6d :: (X5f :: (X62 :: (X6f :: (X74 :: (X68 :: [])))))))))))))))))))))))))));
    e_reach = Exported; e_ret = TBool; e_params =
    (true :: (true :: (true :: []))); e_self = (Some O); e_slots = O;
    e_parsed = true; e_prelude = ((Guard (GAssert, (O :: []),
    RvFalse)) :: ((Guard (GAssert, ((S O) :: []), RvFalse)) :: ((Guard
    (GAssert, ((S (S O)) :: []),
    RvFalse)) :: (Body :: [])))) } :: ({ e_name =
    (X73 :: (X70 :: (X69 :: (X66 :: (X5f :: (X6f :: (X62 :: (X6a :: (X70 :: (X61 :: (X69 :: (X72 :: (X5f :: (X64 :: (X6f :: (X6e :: (X65 :: [])))))))))))))))));
    e_reach = Exported; e_ret = TBool; e_params = (true :: []); e_self =
    (Some O); e_slots = (S O); e_parsed = true; e_prelude = ((Guard (GAssert,
    (O :: []), RvFalse)) :: (Body :: [])) } :: ({ e_name =
    (X73 :: (X70 :: (X69 :: (X66 :: (X5f :: (X6f :: (X62 :: (X6a :: (X70 :: (X61 :: (X69 :: (X72 :: (X5f :: (X64 :: (X65 :: (X6c :: []))))))))))))))));
    e_reach = Exported; e_ret = TBool; e_params = (true :: []); e_self =
    (Some O); e_slots = (S O); e_parsed = true; e_prelude = ((Guard (GAssert,
    (O :: []), RvFalse)) :: (Body :: [])) } :: ({ e_name =
    (X73 :: (X70 :: (X69 :: (X66 :: (X5f :: (X6f :: (X62 :: (X6a :: (X70 :: (X61 :: (X69 :: (X72 :: (X5f :: (X73 :: (X68 :: (X6f :: (X77 :: [])))))))))))))))));
    e_reach = Exported; e_ret = TPtr; e_params =
    (true :: (true :: (true :: (false :: [])))); e_self = (Some O); e_slots =
    (S O); e_parsed = true; e_prelude = ((Guard (GIf, (O :: []),
    RvHandled)) :: (Body :: [])) } :: ({ e_name =
    (X73 :: (X70 :: (X69 :: (X66 :: (X5f :: (X6f :: (X62 :: (X6a :: (X70 :: (X61 :: (X69 :: (X72 :: (X5f :: (X63 :: (X6f :: (X6d :: (X70 :: [])))))))))))))))));
    e_reach = Exported; e_ret = TCmp; e_params = (true :: (true :: []));
    e_self = (Some O); e_slots = (S O); e_parsed = true; e_prelude =
    ((CompNull (O, (S O))) :: (Body :: [])) } :: ({ e_name =
    (X73 :: (X70 :: (X69 :: (X66 :: (X5f :: (X6f :: (X62 :: (X6a :: (X70 :: (X61 :: (X69 :: (X72 :: (X5f :: (X64 :: (X75 :: (X70 :: []))))))))))))))));
    e_reach = Exported; e_ret = TPtr; e_params = (true :: []); e_self = (Some
    O); e_slots = (S O); e_parsed = true; e_prelude = ((Guard (GAssert,
    (O :: []), RvNull)) :: (Body :: [])) } :: ({ e_name =
    (X73 :: (X70 :: (X69 :: (X66 :: (X5f :: (X6f :: (X62 :: (X6a :: (X70 :: (X61 :: (X69 :: (X72 :: (X5f :: (X74 :: (X79 :: (X70 :: (X65 :: [])))))))))))))))));
    e_reach = Exported; e_ret = TPtr; e_params = (true :: []); e_self = (Some
    O); e_slots = (S O); e_parsed = true; e_prelude = ((Guard (GAssert,
    (O :: []), RvNull)) :: (Body :: [])) } :: ({ e_name =
    (X73 :: (X70 :: (X69 :: (X66 :: (X5f :: (X6f :: (X62 :: (X6a :: (X70 :: (X61 :: (X69 :: (X72 :: (X5f :: (X67 :: (X65 :: (X74 :: (X5f :: (X6b :: (X65 :: (X79 :: []))))))))))))))))))));
    e_reach = Exported; e_ret = TPtr; e_params = (true :: []); e_self = (Some
    O); e_slots = O; e_parsed = true; e_prelude =
    (Body :: []) } :: ({ e_name =
    (X73 :: (X70 :: (X69 :: (X66 :: (X5f :: (X6f :: (X62 :: (X6a :: (X70 :: (X61 :: (X69 :: (X72 :: (X5f :: (X73 :: (X65 :: (X74 :: (X5f :: (X6b :: (X65 :: (X79 :: []))))))))))))))))))));
    e_reach = Exported; e_ret = TInt; e_params = (true :: (true :: []));
    e_self = (Some O); e_slots = O; e_parsed = true; e_prelude =
    (Body :: []) } :: ({ e_name =
    (X73 :: (X70 :: (X69 :: (X66 :: (X5f :: (X6f :: (X62 :: (X6a :: (X70 :: (X61 :: (X69 :: (X72 :: (X5f :: (X67 :: (X65 :: (X74 :: (X5f :: (X76 :: (X61 :: (X6c :: (X75 :: (X65 :: []))))))))))))))))))))));
    e_reach = Exported; e_ret = TPtr; e_params = (true :: []); e_self = (Some
    O); e_slots = O; e_parsed = true; e_prelude =
    (Body :: []) } :: ({ e_name =
    (X73 :: (X70 :: (X69 :: (X66 :: (X5f :: (X6f :: (X62 :: (X6a :: (X70 :: (X61 :: (X69 :: (X72 :: (X5f :: (X73 :: (X65 :: (X74 :: (X5f :: (X76 :: (X61 :: (X6c :: (X75 :: (X65 :: []))))))))))))))))))))));
    e_reach = Exported; e_ret = TInt; e_params = (true :: (true :: []));
    e_self = (Some O); e_slots = O; e_parsed = true; e_prelude =
    (Body :: []) } :: ({ e_name =
    (X73 :: (X70 :: (X69 :: (X66 :: (X5f :: (X74 :: (X6f :: (X6b :: (X5f :: (X6e :: (X65 :: (X77 :: []))))))))))));
    e_reach = Exported; e_ret = TPtr; e_params = []; e_self = None; e_slots =
    (S O); e_parsed = true; e_prelude = (Body :: []) } :: ({ e_name =
    (X73 :: (X70 :: (X69 :: (X66 :: (X5f :: (X74 :: (X6f :: (X6b :: (X5f :: (X6e :: (X65 :: (X77 :: (X5f :: (X66 :: (X72 :: (X6f :: (X6d :: (X5f :: (X70 :: (X74 :: (X72 :: [])))))))))))))))))))));
    e_reach = Exported; e_ret = TPtr; e_params = (true :: []); e_self = None;
    e_slots = O; e_parsed = true; e_prelude = (Body :: []) } :: ({ e_name =
    (X73 :: (X70 :: (X69 :: (X66 :: (X5f :: (X74 :: (X6f :: (X6b :: (X5f :: (X6e :: (X65 :: (X77 :: (X5f :: (X66 :: (X72 :: (X6f :: (X6d :: (X5f :: (X66 :: (X70 :: []))))))))))))))))))));
    e_reach = Exported; e_ret = TPtr; e_params = (true :: []); e_self = None;
    e_slots = O; e_parsed = true; e_prelude = (Body :: []) } :: ({ e_name =
    (X73 :: (X70 :: (X69 :: (X66 :: (X5f :: (X74 :: (X6f :: (X6b :: (X5f :: (X6e :: (X65 :: (X77 :: (X5f :: (X66 :: (X72 :: (X6f :: (X6d :: (X5f :: (X66 :: (X64 :: []))))))))))))))))))));
    e_reach = Exported; e_ret = TPtr; e_params = (false :: []); e_self =
    None; e_slots = O; e_parsed = true; e_prelude =
    (Body :: []) } :: ({ e_name =
    (X73 :: (X70 :: (X69 :: (X66 :: (X5f :: (X74 :: (X6f :: (X6b :: (X5f :: (X64 :: (X65 :: (X6c :: []))))))))))));
    e_reach = Exported; e_ret = TBool; e_params = (true :: []); e_self =
    (Some O); e_slots = (S O); e_parsed = true; e_prelude = ((Guard (GAssert,
    (O :: []), RvFalse)) :: (Body :: [])) } :: ({ e_name =
    (X73 :: (X70 :: (X69 :: (X66 :: (X5f :: (X74 :: (X6f :: (X6b :: (X5f :: (X69 :: (X6e :: (X69 :: (X74 :: [])))))))))))));
    e_reach = Exported; e_ret = TBool; e_params = (true :: []); e_self =
    (Some O); e_slots = (S O); e_parsed = true; e_prelude = ((Guard (GAssert,
    (O :: []), RvFalse)) :: (Body :: [])) } :: ({ e_name =
    (X73 :: (X70 :: (X69 :: (X66 :: (X5f :: (X74 :: (X6f :: (X6b :: (X5f :: (X69 :: (X6e :: (X69 :: (X74 :: (X5f :: (X66 :: (X72 :: (X6f :: (X6d :: (X5f :: (X70 :: (X74 :: (X72 :: []))))))))))))))))))))));
    e_reach = Exported; e_ret = TBool; e_params = (true :: (true :: []));
    e_self = (Some O); e_slots = O; e_parsed = true; e_prelude = ((Guard
    (GAssert, (O :: []), RvFalse)) :: (Body :: [])) } :: ({ e_name =
    (X73 :: (X70 :: (X69 :: (X66 :: (X5f :: (X74 :: (X6f :: (X6b :: (X5f :: (X69 :: (X6e :: (X69 :: (X74 :: (X5f :: (X66 :: (X72 :: (X6f :: (X6d :: (X5f :: (X66 :: (X70 :: [])))))))))))))))))))));
    e_reach = Exported; e_ret = TBool; e_params = (true :: (true :: []));
    e_self = (Some O); e_slots = O; e_parsed = true; e_prelude = ((Guard
    (GAssert, (O :: []), RvFalse)) :: (Body :: [])) } :: ({ e_name =
    (X73 :: (X70 :: (X69 :: (X66 :: (X5f :: (X74 :: (X6f :: (X6b :: (X5f :: (X69 :: (X6e :: (X69 :: (X74 :: (X5f :: (X66 :: (X72 :: (X6f :: (X6d :: (X5f :: (X66 :: (X64 :: [])))))))))))))))))))));
    e_reach = Exported; e_ret = TBool; e_params = (true :: (false :: []));
    e_self = (Some O); e_slots = O; e_parsed = true; e_prelude = ((Guard
    (GAssert, (O :: []), RvFalse)) :: (Body :: [])) } :: ({ e_name =
    (X73 :: (X70 :: (X69 :: (X66 :: (X5f :: (X74 :: (X6f :: (X6b :: (X5f :: (X64 :: (X6f :: (X6e :: (X65 :: [])))))))))))));
    e_reach = Exported; e_ret = TBool; e_params = (true :: []); e_self =
    (Some O); e_slots = (S O); e_parsed = true; e_prelude = ((Guard (GAssert,
    (O :: []), RvFalse)) :: (Body :: [])) } :: ({ e_name =
    (X73 :: (X70 :: (X69 :: (X66 :: (X5f :: (X74 :: (X6f :: (X6b :: (X5f :: (X73 :: (X68 :: (X6f :: (X77 :: [])))))))))))));
    e_reach = Exported; e_ret = TPtr; e_params =
    (true :: (true :: (true :: (false :: [])))); e_self = (Some O); e_slots =
    (S O); e_parsed = true; e_prelude = ((Guard (GIf, (O :: []),
    RvHandled)) :: (Body :: [])) } :: ({ e_name =
    (X73 :: (X70 :: (X69 :: (X66 :: (X5f :: (X74 :: (X6f :: (X6b :: (X5f :: (X63 :: (X6f :: (X6d :: (X70 :: [])))))))))))));
    e_reach = Exported; e_ret = TCmp; e_params = (true :: (true :: []));
    e_self = (Some O); e_slots = (S O); e_parsed = true; e_prelude =
    ((CompNull (O, (S O))) :: ((Deref O) :: ((Deref (S O)) :: ((Guard
    (GRequire, [], RvOther)) :: ((Deref O) :: ((Deref (S O)) :: ((Delegate
    ((X73 :: (X70 :: (X69 :: (X66 :: (X5f :: (X73 :: (X74 :: (X72 :: (X5f :: (X63 :: (X6d :: (X70 :: [])))))))))))),
    (None :: (None :: [])), PId)) :: []))))))) } :: ({ e_name =
    (X73 :: (X70 :: (X69 :: (X66 :: (X5f :: (X74 :: (X6f :: (X6b :: (X5f :: (X64 :: (X75 :: (X70 :: []))))))))))));
    e_reach = Exported; e_ret = TPtr; e_params = (true :: []); e_self = (Some
    O); e_slots = (S O); e_parsed = true; e_prelude = ((Guard (GAssert,
    (O :: []), RvNull)) :: (Body :: [])) } :: ({ e_name =
    (X73 :: (X70 :: (X69 :: (X66 :: (X5f :: (X74 :: (X6f :: (X6b :: (X5f :: (X74 :: (X79 :: (X70 :: (X65 :: [])))))))))))));
    e_reach = Exported; e_ret = TPtr; e_params = (true :: []); e_self = (Some
    O); e_slots = (S O); e_parsed = true; e_prelude = ((Guard (GAssert,
    (O :: []), RvNull)) :: (Body :: [])) } :: ({ e_name =
    (X73 :: (X70 :: (X69 :: (X66 :: (X5f :: (X74 :: (X6f :: (X6b :: (X5f :: (X65 :: (X76 :: (X61 :: (X6c :: [])))))))))))));
    e_reach = Exported; e_ret = TBool; e_params = (true :: []); e_self =
    (Some O); e_slots = O; e_parsed = true; e_prelude = ((Guard (GAssert,
    (O :: []), RvFalse)) :: ((Deref O) :: ((Guard (GRequire, [],
    RvFalse)) :: (Body :: [])))) } :: ({ e_name =
    (X73 :: (X70 :: (X69 :: (X66 :: (X5f :: (X74 :: (X6f :: (X6b :: (X5f :: (X67 :: (X65 :: (X74 :: (X5f :: (X73 :: (X72 :: (X63 :: []))))))))))))))));
    e_reach = Exported; e_ret = TPtr; e_params = (true :: []); e_self = (Some
    O); e_slots = O; e_parsed = true; e_prelude =
    (Body :: []) } :: ({ e_name =
    (X73 :: (X70 :: (X69 :: (X66 :: (X5f :: (X74 :: (X6f :: (X6b :: (X5f :: (X73 :: (X65 :: (X74 :: (X5f :: (X73 :: (X72 :: (X63 :: []))))))))))))))));
    e_reach = Exported; e_ret = TInt; e_params = (true :: (true :: []));
    e_self = (Some O); e_slots = O; e_parsed = true; e_prelude =
    (Body :: []) } :: ({ e_name =
    (X73 :: (X70 :: (X69 :: (X66 :: (X5f :: (X74 :: (X6f :: (X6b :: (X5f :: (X67 :: (X65 :: (X74 :: (X5f :: (X71 :: (X75 :: (X6f :: (X74 :: (X65 :: []))))))))))))))))));
    e_reach = Exported; e_ret = TInt; e_params = (true :: []); e_self = (Some
    O); e_slots = O; e_parsed = true; e_prelude =
    (Body :: []) } :: ({ e_name =
    (X73 :: (X70 :: (X69 :: (X66 :: (X5f :: (X74 :: (X6f :: (X6b :: (X5f :: (X73 :: (X65 :: (X74 :: (X5f :: (X71 :: (X75 :: (X6f :: (X74 :: (X65 :: []))))))))))))))))));
    e_reach = Exported; e_ret = TInt; e_params = (true :: (false :: []));
    e_self = (Some O); e_slots = O; e_parsed = true; e_prelude =
    (Body :: []) } :: ({ e_name =
    (X73 :: (X70 :: (X69 :: (X66 :: (X5f :: (X74 :: (X6f :: (X6b :: (X5f :: (X67 :: (X65 :: (X74 :: (X5f :: (X64 :: (X71 :: (X75 :: (X6f :: (X74 :: (X65 :: [])))))))))))))))))));
    e_reach = Exported; e_ret = TInt; e_params = (true :: []); e_self = (Some
    O); e_slots = O; e_parsed = true; e_prelude =
    (Body :: []) } :: ({ e_name =
    (X73 :: (X70 :: (X69 :: (X66 :: (X5f :: (X74 :: (X6f :: (X6b :: (X5f :: (X73 :: (X65 :: (X74 :: (X5f :: (X64 :: (X71 :: (X75 :: (X6f :: (X74 :: (X65 :: [])))))))))))))))))));
    e_reach = Exported; e_ret = TInt; e_params = (true :: (false :: []));
    e_self = (Some O); e_slots = O; e_parsed = true; e_prelude =
    (Body :: []) } :: ({ e_name =
    (X73 :: (X70 :: (X69 :: (X66 :: (X5f :: (X74 :: (X6f :: (X6b :: (X5f :: (X67 :: (X65 :: (X74 :: (X5f :: (X65 :: (X73 :: (X63 :: (X61 :: (X70 :: (X65 :: [])))))))))))))))))));
    e_reach = Exported; e_ret = TInt; e_params = (true :: []); e_self = (Some
    O); e_slots = O; e_parsed = true; e_prelude =
    (Body :: []) } :: ({ e_name =
    (X73 :: (X70 :: (X69 :: (X66 :: (X5f :: (X74 :: (X6f :: (X6b :: (X5f :: (X73 :: (X65 :: (X74 :: (X5f :: (X65 :: (X73 :: (X63 :: (X61 :: (X70 :: (X65 :: [])))))))))))))))))));
    e_reach = Exported; e_ret = TInt; e_params = (true :: (false :: []));
    e_self = (Some O); e_slots = O; e_parsed = true; e_prelude =
    (Body :: []) } :: ({ e_name =
    (X73 :: (X70 :: (X69 :: (X66 :: (X5f :: (X74 :: (X6f :: (X6b :: (X5f :: (X67 :: (X65 :: (X74 :: (X5f :: (X73 :: (X65 :: (X70 :: []))))))))))))))));
    e_reach = Exported; e_ret = TPtr; e_params = (true :: []); e_self = (Some
    O); e_slots = O; e_parsed = true; e_prelude =
    (Body :: []) } :: ({ e_name =
    (X73 :: (X70 :: (X69 :: (X66 :: (X5f :: (X74 :: (X6f :: (X6b :: (X5f :: (X73 :: (X65 :: (X74 :: (X5f :: (X73 :: (X65 :: (X70 :: []))))))))))))))));
    e_reach = Exported; e_ret = TInt; e_params = (true :: (true :: []));
    e_self = (Some O); e_slots = O; e_parsed = true; e_prelude =
    (Body :: []) } :: ({ e_name =
    (X73 :: (X70 :: (X69 :: (X66 :: (X5f :: (X74 :: (X6f :: (X6b :: (X5f :: (X67 :: (X65 :: (X74 :: (X5f :: (X74 :: (X6f :: (X6b :: (X65 :: (X6e :: (X73 :: [])))))))))))))))))));
    e_reach = Exported; e_ret = TPtr; e_params = (true :: []); e_self = (Some
    O); e_slots = O; e_parsed = true; e_prelude =
    (Body :: []) } :: ({ e_name =
    (X73 :: (X70 :: (X69 :: (X66 :: (X5f :: (X74 :: (X6f :: (X6b :: (X5f :: (X73 :: (X65 :: (X74 :: (X5f :: (X74 :: (X6f :: (X6b :: (X65 :: (X6e :: (X73 :: [])))))))))))))))))));
    e_reach = Exported; e_ret = TInt; e_params = (true :: (true :: []));
    e_self = (Some O); e_slots = O; e_parsed = true; e_prelude =
    (Body :: []) } :: ({ e_name =
    (X73 :: (X70 :: (X69 :: (X66 :: (X5f :: (X75 :: (X72 :: (X6c :: (X5f :: (X6e :: (X65 :: (X77 :: []))))))))))));
    e_reach = Exported; e_ret = TPtr; e_params = []; e_self = None; e_slots =
    (S O); e_parsed = true; e_prelude = (Body :: []) } :: ({ e_name =
    (X73 :: (X70 :: (X69 :: (X66 :: (X5f :: (X75 :: (X72 :: (X6c :: (X5f :: (X6e :: (X65 :: (X77 :: (X5f :: (X66 :: (X72 :: (X6f :: (X6d :: (X5f :: (X73 :: (X74 :: (X72 :: [])))))))))))))))))))));
    e_reach = Exported; e_ret = TPtr; e_params = (true :: []); e_self = None;
    e_slots = O; e_parsed = true; e_prelude = (Body :: []) } :: ({ e_name =
    (X73 :: (X70 :: (X69 :: (X66 :: (X5f :: (X75 :: (X72 :: (X6c :: (X5f :: (X6e :: (X65 :: (X77 :: (X5f :: (X66 :: (X72 :: (X6f :: (X6d :: (X5f :: (X70 :: (X74 :: (X72 :: [])))))))))))))))))))));
    e_reach = Exported; e_ret = TPtr; e_params = (true :: []); e_self = None;
    e_slots = O; e_parsed = true; e_prelude = (Body :: []) } :: ({ e_name =
    (X73 :: (X70 :: (X69 :: (X66 :: (X5f :: (X75 :: (X72 :: (X6c :: (X5f :: (X69 :: (X6e :: (X69 :: (X74 :: [])))))))))))));
    e_reach = Exported; e_ret = TBool; e_params = (true :: []); e_self =
    (Some O); e_slots = (S O); e_parsed = true; e_prelude = ((Guard (GAssert,
    (O :: []), RvFalse)) :: (Body :: [])) } :: ({ e_name =
    (X73 :: (X70 :: (X69 :: (X66 :: (X5f :: (X75 :: (X72 :: (X6c :: (X5f :: (X69 :: (X6e :: (X69 :: (X74 :: (X5f :: (X66 :: (X72 :: (X6f :: (X6d :: (X5f :: (X73 :: (X74 :: (X72 :: []))))))))))))))))))))));
    e_reach = Exported; e_ret = TBool; e_params = (true :: (true :: []));
    e_self = (Some O); e_slots = O; e_parsed = true; e_prelude = ((Guard
    (GAssert, (O :: []), RvFalse)) :: (Body :: [])) } :: ({ e_name =
    (X73 :: (X70 :: (X69 :: (X66 :: (X5f :: (X75 :: (X72 :: (X6c :: (X5f :: (X69 :: (X6e :: (X69 :: (X74 :: (X5f :: (X66 :: (X72 :: (X6f :: (X6d :: (X5f :: (X70 :: (X74 :: (X72 :: []))))))))))))))))))))));
    e_reach = Exported; e_ret = TBool; e_params = (true :: (true :: []));
    e_self = (Some O); e_slots = O; e_parsed = true; e_prelude = ((Guard
    (GAssert, (O :: []), RvFalse)) :: (Body :: [])) } :: ({ e_name =
    (X73 :: (X70 :: (X69 :: (X66 :: (X5f :: (X75 :: (X72 :: (X6c :: (X5f :: (X64 :: (X6f :: (X6e :: (X65 :: [])))))))))))));
    e_reach = Exported; e_ret = TBool; e_params = (true :: []); e_self =
    (Some O); e_slots = (S O); e_parsed = true; e_prelude = ((Guard (GAssert,
    (O :: []), RvFalse)) :: (Body :: [])) } :: ({ e_name =
    (X73 :: (X70 :: (X69 :: (X66 :: (X5f :: (X75 :: (X72 :: (X6c :: (X5f :: (X64 :: (X65 :: (X6c :: []))))))))))));
    e_reach = Exported; e_ret = TBool; e_params = (true :: []); e_self =
    (Some O); e_slots = (S O); e_parsed = true; e_prelude = ((Guard (GAssert,
    (O :: []), RvFalse)) :: (Body :: [])) } :: ({ e_name =
    (X73 :: (X70 :: (X69 :: (X66 :: (X5f :: (X75 :: (X72 :: (X6c :: (X5f :: (X73 :: (X68 :: (X6f :: (X77 :: [])))))))))))));
    e_reach = Exported; e_ret = TPtr; e_params =
    (true :: (true :: (true :: (false :: [])))); e_self = (Some O); e_slots =
    (S O); e_parsed = true; e_prelude = ((Guard (GIf, (O :: []),
    RvHandled)) :: (Body :: [])) } :: ({ e_name =
    (X73 :: (X70 :: (X69 :: (X66 :: (X5f :: (X75 :: (X72 :: (X6c :: (X5f :: (X63 :: (X6f :: (X6d :: (X70 :: [])))))))))))));
    e_reach = Exported; e_ret = TCmp; e_params = (true :: (true :: []));
    e_self = (Some O); e_slots = (S O); e_parsed = true; e_prelude =
    ((CompNull (O, (S O))) :: ((Delegate
    ((X73 :: (X70 :: (X69 :: (X66 :: (X5f :: (X73 :: (X74 :: (X72 :: (X5f :: (X63 :: (X6f :: (X6d :: (X70 :: []))))))))))))),
    ((Some O) :: ((Some (S O)) :: [])), PId)) :: [])) } :: ({ e_name =
    (X73 :: (X70 :: (X69 :: (X66 :: (X5f :: (X75 :: (X72 :: (X6c :: (X5f :: (X64 :: (X75 :: (X70 :: []))))))))))));
    e_reach = Exported; e_ret = TPtr; e_params = (true :: []); e_self = (Some
    O); e_slots = (S O); e_parsed = true; e_prelude = ((Guard (GAssert,
    (O :: []), RvNull)) :: (Body :: [])) } :: ({ e_name =
    (X73 :: (X70 :: (X69 :: (X66 :: (X5f :: (X75 :: (X72 :: (X6c :: (X5f :: (X74 :: (X79 :: (X70 :: (X65 :: [])))))))))))));
    e_reach = Exported; e_ret = TPtr; e_params = (true :: []); e_self = (Some
    O); e_slots = (S O); e_parsed = true; e_prelude = ((Guard (GAssert,
    (O :: []), RvNull)) :: (Body :: [])) } :: ({ e_name =
    (X73 :: (X70 :: (X69 :: (X66 :: (X5f :: (X75 :: (X72 :: (X6c :: (X5f :: (X67 :: (X65 :: (X74 :: (X5f :: (X70 :: (X72 :: (X6f :: (X74 :: (X6f :: []))))))))))))))))));
    e_reach = Exported; e_ret = TPtr; e_params = (true :: []); e_self = (Some
    O); e_slots = O; e_parsed = true; e_prelude =
    (Body :: []) } :: ({ e_name =
    (X73 :: (X70 :: (X69 :: (X66 :: (X5f :: (X75 :: (X72 :: (X6c :: (X5f :: (X73 :: (X65 :: (X74 :: (X5f :: (X70 :: (X72 :: (X6f :: (X74 :: (X6f :: []))))))))))))))))));
    e_reach = Exported; e_ret = TInt; e_params = (true :: (true :: []));
    e_self = (Some O); e_slots = O; e_parsed = true; e_prelude =
    (Body :: []) } :: ({ e_name =
    (X73 :: (X70 :: (X69 :: (X66 :: (X5f :: (X75 :: (X72 :: (X6c :: (X5f :: (X67 :: (X65 :: (X74 :: (X5f :: (X75 :: (X73 :: (X65 :: (X72 :: [])))))))))))))))));
    e_reach = Exported; e_ret = TPtr; e_params = (true :: []); e_self = (Some
    O); e_slots = O; e_parsed = true; e_prelude =
    (Body :: []) } :: ({ e_name =
    (X73 :: (X70 :: (X69 :: (X66 :: (X5f :: (X75 :: (X72 :: (X6c :: (X5f :: (X73 :: (X65 :: (X74 :: (X5f :: (X75 :: (X73 :: (X65 :: (X72 :: [])))))))))))))))));
    e_reach = Exported; e_ret = TInt; e_params = (true :: (true :: []));
    e_self = (Some O); e_slots = O; e_parsed = true; e_prelude =
    (Body :: []) } :: ({ e_name =
    (X73 :: (X70 :: (X69 :: (X66 :: (X5f :: (X75 :: (X72 :: (X6c :: (X5f :: (X67 :: (X65 :: (X74 :: (X5f :: (X70 :: (X61 :: (X73 :: (X73 :: (X77 :: (X64 :: [])))))))))))))))))));
    e_reach = Exported; e_ret = TPtr; e_params = (true :: []); e_self = (Some
    O); e_slots = O; e_parsed = true; e_prelude =
    (Body :: []) } :: ({ e_name =
    (X73 :: (X70 :: (X69 :: (X66 :: (X5f :: (X75 :: (X72 :: (X6c :: (X5f :: (X73 :: (X65 :: (X74 :: (X5f :: (X70 :: (X61 :: (X73 :: (X73 :: (X77 :: (X64 :: [])))))))))))))))))));
    e_reach = Exported; e_ret = TInt; e_params = (true :: (true :: []));
    e_self = (Some O); e_slots = O; e_parsed = true; e_prelude =
    (Body :: []) } :: ({ e_name =
    (X73 :: (X70 :: (X69 :: (X66 :: (X5f :: (X75 :: (X72 :: (X6c :: (X5f :: (X67 :: (X65 :: (X74 :: (X5f :: (X68 :: (X6f :: (X73 :: (X74 :: [])))))))))))))))));
    e_reach = Exported; e_ret = TPtr; e_params = (true :: []); e_self = (Some
    O); e_slots = O; e_parsed = true; e_prelude =
    (Body :: []) } :: ({ e_name =
    (X73 :: (X70 :: (X69 :: (X66 :: (X5f :: (X75 :: (X72 :: (X6c :: (X5f :: (X73 :: (X65 :: (X74 :: (X5f :: (X68 :: (X6f :: (X73 :: (X74 :: [])))))))))))))))));
    e_reach = Exported; e_ret = TInt; e_params = (true :: (true :: []));
    e_self = (Some O); e_slots = O; e_parsed = true; e_prelude =
    (Body :: []) } :: ({ e_name =
    (X73 :: (X70 :: (X69 :: (X66 :: (X5f :: (X75 :: (X72 :: (X6c :: (X5f :: (X67 :: (X65 :: (X74 :: (X5f :: (X70 :: (X6f :: (X72 :: (X74 :: [])))))))))))))))));
    e_reach = Exported; e_ret = TPtr; e_params = (true :: []); e_self = (Some
    O); e_slots = O; e_parsed = true; e_prelude =
    (Body :: []) } :: ({ e_name =
    (X73 :: (X70 :: (X69 :: (X66 :: (X5f :: (X75 :: (X72 :: (X6c :: (X5f :: (X73 :: (X65 :: (X74 :: (X5f :: (X70 :: (X6f :: (X72 :: (X74 :: [])))))))))))))))));
    e_reach = Exported; e_ret = TInt; e_params = (true :: (true :: []));
    e_self = (Some O); e_slots = O; e_parsed = true; e_prelude =
    (Body :: []) } :: ({ e_name =
    (X73 :: (X70 :: (X69 :: (X66 :: (X5f :: (X75 :: (X72 :: (X6c :: (X5f :: (X67 :: (X65 :: (X74 :: (X5f :: (X70 :: (X61 :: (X74 :: (X68 :: [])))))))))))))))));
    e_reach = Exported; e_ret = TPtr; e_params = (true :: []); e_self = (Some
    O); e_slots = O; e_parsed = true; e_prelude =
    (Body :: []) } :: ({ e_name =
    (X73 :: (X70 :: (X69 :: (X66 :: (X5f :: (X75 :: (X72 :: (X6c :: (X5f :: (X73 :: (X65 :: (X74 :: (X5f :: (X70 :: (X61 :: (X74 :: (X68 :: [])))))))))))))))));
    e_reach = Exported; e_ret = TInt; e_params = (true :: (true :: []));
    e_self = (Some O); e_slots = O; e_parsed = true; e_prelude =
    (Body :: []) } :: ({ e_name =
    (X73 :: (X70 :: (X69 :: (X66 :: (X5f :: (X75 :: (X72 :: (X6c :: (X5f :: (X67 :: (X65 :: (X74 :: (X5f :: (X71 :: (X75 :: (X65 :: (X72 :: (X79 :: []))))))))))))))))));
    e_reach = Exported; e_ret = TPtr; e_params = (true :: []); e_self = (Some
    O); e_slots = O; e_parsed = true; e_prelude =
    (Body :: []) } :: ({ e_name =
    (X73 :: (X70 :: (X69 :: (X66 :: (X5f :: (X75 :: (X72 :: (X6c :: (X5f :: (X73 :: (X65 :: (X74 :: (X5f :: (X71 :: (X75 :: (X65 :: (X72 :: (X79 :: []))))))))))))))))));
    e_reach = Exported; e_ret = TInt; e_params = (true :: (true :: []));
    e_self = (Some O); e_slots = O; e_parsed = true; e_prelude =
    (Body :: []) } :: ({ e_name =
    (X73 :: (X70 :: (X69 :: (X66 :: (X5f :: (X75 :: (X72 :: (X6c :: (X5f :: (X70 :: (X61 :: (X72 :: (X73 :: (X65 :: []))))))))))))));
    e_reach = Helper; e_ret = TBool; e_params = (true :: []); e_self = (Some
    O); e_slots = O; e_parsed = true; e_prelude = ((Guard (GAssert,
    (O :: []), RvFalse)) :: (Body :: [])) } :: ({ e_name =
    (X73 :: (X70 :: (X69 :: (X66 :: (X5f :: (X75 :: (X72 :: (X6c :: (X5f :: (X75 :: (X6e :: (X70 :: (X61 :: (X72 :: (X73 :: (X65 :: []))))))))))))))));
    e_reach = Exported; e_ret = TBool; e_params = (true :: []); e_self =
    (Some O); e_slots = O; e_parsed = true; e_prelude = ((Guard (GAssert,
    (O :: []), RvFalse)) :: (Body :: [])) } :: ({ e_name =
    (X73 :: (X70 :: (X69 :: (X66 :: (X5f :: (X72 :: (X65 :: (X67 :: (X65 :: (X78 :: (X70 :: (X5f :: (X6e :: (X65 :: (X77 :: [])))))))))))))));
    e_reach = Exported; e_ret = TPtr; e_params = []; e_self = None; e_slots =
    (S O); e_parsed = true; e_prelude = (Body :: []) } :: ({ e_name =
    (X73 :: (X70 :: (X69 :: (X66 :: (X5f :: (X72 :: (X65 :: (X67 :: (X65 :: (X78 :: (X70 :: (X5f :: (X6e :: (X65 :: (X77 :: (X5f :: (X66 :: (X72 :: (X6f :: (X6d :: (X5f :: (X73 :: (X74 :: (X72 :: []))))))))))))))))))))))));
    e_reach = Exported; e_ret = TPtr; e_params = (true :: []); e_self = None;
    e_slots = O; e_parsed = true; e_prelude = (Body :: []) } :: ({ e_name =
    (X73 :: (X70 :: (X69 :: (X66 :: (X5f :: (X72 :: (X65 :: (X67 :: (X65 :: (X78 :: (X70 :: (X5f :: (X6e :: (X65 :: (X77 :: (X5f :: (X66 :: (X72 :: (X6f :: (X6d :: (X5f :: (X70 :: (X74 :: (X72 :: []))))))))))))))))))))))));
    e_reach = Exported; e_ret = TPtr; e_params = (true :: []); e_self = None;
    e_slots = O; e_parsed = true; e_prelude = (Body :: []) } :: ({ e_name =
    (X73 :: (X70 :: (X69 :: (X66 :: (X5f :: (X72 :: (X65 :: (X67 :: (X65 :: (X78 :: (X70 :: (X5f :: (X69 :: (X6e :: (X69 :: (X74 :: []))))))))))))))));
    e_reach = Exported; e_ret = TBool; e_params = (true :: []); e_self =
    (Some O); e_slots = (S O); e_parsed = true; e_prelude = ((Guard (GAssert,
    (O :: []), RvFalse)) :: (Body :: [])) } :: ({ e_name =
    (X73 :: (X70 :: (X69 :: (X66 :: (X5f :: (X72 :: (X65 :: (X67 :: (X65 :: (X78 :: (X70 :: (X5f :: (X69 :: (X6e :: (X69 :: (X74 :: (X5f :: (X66 :: (X72 :: (X6f :: (X6d :: (X5f :: (X73 :: (X74 :: (X72 :: [])))))))))))))))))))))))));
    e_reach = Exported; e_ret = TBool; e_params = (true :: (true :: []));
    e_self = (Some O); e_slots = O; e_parsed = true; e_prelude = ((Guard
    (GAssert, (O :: []), RvFalse)) :: (Body :: [])) } :: ({ e_name =
    (X73 :: (X70 :: (X69 :: (X66 :: (X5f :: (X72 :: (X65 :: (X67 :: (X65 :: (X78 :: (X70 :: (X5f :: (X69 :: (X6e :: (X69 :: (X74 :: (X5f :: (X66 :: (X72 :: (X6f :: (X6d :: (X5f :: (X70 :: (X74 :: (X72 :: [])))))))))))))))))))))))));
    e_reach = Exported; e_ret = TBool; e_params = (true :: (true :: []));
    e_self = (Some O); e_slots = O; e_parsed = true; e_prelude = ((Guard
    (GAssert, (O :: []), RvFalse)) :: (Body :: [])) } :: ({ e_name =
    (X73 :: (X70 :: (X69 :: (X66 :: (X5f :: (X72 :: (X65 :: (X67 :: (X65 :: (X78 :: (X70 :: (X5f :: (X64 :: (X6f :: (X6e :: (X65 :: []))))))))))))))));
    e_reach = Exported; e_ret = TBool; e_params = (true :: []); e_self =
    (Some O); e_slots = (S O); e_parsed = true; e_prelude = ((Guard (GAssert,
    (O :: []), RvFalse)) :: (Body :: [])) } :: ({ e_name =
    (X73 :: (X70 :: (X69 :: (X66 :: (X5f :: (X72 :: (X65 :: (X67 :: (X65 :: (X78 :: (X70 :: (X5f :: (X64 :: (X65 :: (X6c :: [])))))))))))))));
    e_reach = Exported; e_ret = TBool; e_params = (true :: []); e_self =
    (Some O); e_slots = (S O); e_parsed = true; e_prelude = ((Guard (GAssert,
    (O :: []), RvFalse)) :: (Body :: [])) } :: ({ e_name =
    (X73 :: (X70 :: (X69 :: (X66 :: (X5f :: (X72 :: (X65 :: (X67 :: (X65 :: (X78 :: (X70 :: (X5f :: (X73 :: (X68 :: (X6f :: (X77 :: []))))))))))))))));
    e_reach = Exported; e_ret = TPtr; e_params =
    (true :: (true :: (true :: (false :: [])))); e_self = (Some O); e_slots =
    (S O); e_parsed = true; e_prelude = ((Guard (GIf, (O :: []),
    RvHandled)) :: (Body :: [])) } :: ({ e_name =
    (X73 :: (X70 :: (X69 :: (X66 :: (X5f :: (X72 :: (X65 :: (X67 :: (X65 :: (X78 :: (X70 :: (X5f :: (X63 :: (X6f :: (X6d :: (X70 :: []))))))))))))))));
    e_reach = Exported; e_ret = TCmp; e_params = (true :: (true :: []));
    e_self = (Some O); e_slots = (S O); e_parsed = true; e_prelude =
    ((CompNull (O, (S O))) :: ((Delegate
    ((X73 :: (X70 :: (X69 :: (X66 :: (X5f :: (X73 :: (X74 :: (X72 :: (X5f :: (X63 :: (X6f :: (X6d :: (X70 :: []))))))))))))),
    ((Some O) :: ((Some (S O)) :: [])), PId)) :: [])) } :: ({ e_name =
    (X73 :: (X70 :: (X69 :: (X66 :: (X5f :: (X72 :: (X65 :: (X67 :: (X65 :: (X78 :: (X70 :: (X5f :: (X64 :: (X75 :: (X70 :: [])))))))))))))));
    e_reach = Exported; e_ret = TPtr; e_params = (true :: []); e_self = (Some
    O); e_slots = (S O); e_parsed = true; e_prelude = ((Guard (GAssert,
    (O :: []), RvNull)) :: (Body :: [])) } :: ({ e_name =
    (X73 :: (X70 :: (X69 :: (X66 :: (X5f :: (X72 :: (X65 :: (X67 :: (X65 :: (X78 :: (X70 :: (X5f :: (X74 :: (X79 :: (X70 :: (X65 :: []))))))))))))))));
    e_reach = Exported; e_ret = TPtr; e_params = (true :: []); e_self = (Some
    O); e_slots = (S O); e_parsed = true; e_prelude = ((Guard (GAssert,
    (O :: []), RvNull)) :: (Body :: [])) } :: ({ e_name =
    (X73 :: (X70 :: (X69 :: (X66 :: (X5f :: (X72 :: (X65 :: (X67 :: (X65 :: (X78 :: (X70 :: (X5f :: (X63 :: (X6f :: (X6d :: (X70 :: (X69 :: (X6c :: (X65 :: [])))))))))))))))))));
    e_reach = Exported; e_ret = TBool; e_params = (true :: []); e_self =
    (Some O); e_slots = O; e_parsed = true; e_prelude = ((Guard (GAssert,
    (O :: []), RvFalse)) :: (Body :: [])) } :: ({ e_name =
    (X73 :: (X70 :: (X69 :: (X66 :: (X5f :: (X72 :: (X65 :: (X67 :: (X65 :: (X78 :: (X70 :: (X5f :: (X6d :: (X61 :: (X74 :: (X63 :: (X68 :: (X65 :: (X73 :: (X5f :: (X73 :: (X74 :: (X72 :: [])))))))))))))))))))))));
    e_reach = Exported; e_ret = TBool; e_params = (true :: (true :: []));
    e_self = (Some O); e_slots = O; e_parsed = true; e_prelude = ((Guard
    (GAssert, (O :: []), RvFalse)) :: ((Guard (GRequire, ((S O) :: []),
    RvFalse)) :: (Body :: []))) } :: ({ e_name =
    (X73 :: (X70 :: (X69 :: (X66 :: (X5f :: (X72 :: (X65 :: (X67 :: (X65 :: (X78 :: (X70 :: (X5f :: (X6d :: (X61 :: (X74 :: (X63 :: (X68 :: (X65 :: (X73 :: (X5f :: (X70 :: (X74 :: (X72 :: [])))))))))))))))))))))));
    e_reach = Exported; e_ret = TBool; e_params = (true :: (true :: []));
    e_self = (Some O); e_slots = O; e_parsed = true; e_prelude = ((Guard
    (GAssert, (O :: []), RvFalse)) :: ((Guard (GRequire, ((S O) :: []),
    RvFalse)) :: (Body :: []))) } :: ({ e_name =
    (X73 :: (X70 :: (X69 :: (X66 :: (X5f :: (X72 :: (X65 :: (X67 :: (X65 :: (X78 :: (X70 :: (X5f :: (X67 :: (X65 :: (X74 :: (X5f :: (X66 :: (X6c :: (X61 :: (X67 :: (X73 :: [])))))))))))))))))))));
    e_reach = Exported; e_ret = TInt; e_params = (true :: []); e_self = (Some
    O); e_slots = O; e_parsed = true; e_prelude = ((Guard (GAssert,
    (O :: []), RvZero)) :: (Body :: [])) } :: ({ e_name =
    (X73 :: (X70 :: (X69 :: (X66 :: (X5f :: (X72 :: (X65 :: (X67 :: (X65 :: (X78 :: (X70 :: (X5f :: (X73 :: (X65 :: (X74 :: (X5f :: (X66 :: (X6c :: (X61 :: (X67 :: (X73 :: [])))))))))))))))))))));
    e_reach = Exported; e_ret = TBool; e_params = (true :: (true :: []));
    e_self = (Some O); e_slots = O; e_parsed = true; e_prelude = ((Guard
    (GAssert, (O :: []), RvFalse)) :: (Body :: [])) } :: ({ e_name =
    (X73 :: (X70 :: (X69 :: (X66 :: (X5f :: (X73 :: (X6f :: (X63 :: (X6b :: (X65 :: (X74 :: (X5f :: (X6e :: (X65 :: (X77 :: [])))))))))))))));
    e_reach = Exported; e_ret = TPtr; e_params = []; e_self = None; e_slots =
    (S O); e_parsed = true; e_prelude = (Body :: []) } :: ({ e_name =
    (X73 :: (X70 :: (X69 :: (X66 :: (X5f :: (X73 :: (X6f :: (X63 :: (X6b :: (X65 :: (X74 :: (X5f :: (X6e :: (X65 :: (X77 :: (X5f :: (X66 :: (X72 :: (X6f :: (X6d :: (X5f :: (X75 :: (X72 :: (X6c :: (X73 :: [])))))))))))))))))))))))));
    e_reach = Exported; e_ret = TPtr; e_params = (true :: (true :: []));
    e_self = None; e_slots = O; e_parsed = true; e_prelude =
    (Body :: []) } :: ({ e_name =
    (X73 :: (X70 :: (X69 :: (X66 :: (X5f :: (X73 :: (X6f :: (X63 :: (X6b :: (X65 :: (X74 :: (X5f :: (X69 :: (X6e :: (X69 :: (X74 :: []))))))))))))))));
    e_reach = Exported; e_ret = TBool; e_params = (true :: []); e_self =
    (Some O); e_slots = (S O); e_parsed = true; e_prelude = ((Guard (GAssert,
    (O :: []), RvFalse)) :: (Body :: [])) } :: ({ e_name =
    (X73 :: (X70 :: (X69 :: (X66 :: (X5f :: (X73 :: (X6f :: (X63 :: (X6b :: (X65 :: (X74 :: (X5f :: (X69 :: (X6e :: (X69 :: (X74 :: (X5f :: (X66 :: (X72 :: (X6f :: (X6d :: (X5f :: (X75 :: (X72 :: (X6c :: (X73 :: []))))))))))))))))))))))))));
    e_reach = Exported; e_ret = TBool; e_params =
    (true :: (true :: (true :: []))); e_self = (Some O); e_slots = O;
    e_parsed = true; e_prelude = ((Guard (GAssert, (O :: []),
    RvFalse)) :: (Body :: [])) } :: ({ e_name =
    (X73 :: (X70 :: (X69 :: (X66 :: (X5f :: (X73 :: (X6f :: (X63 :: (X6b :: (X65 :: (X74 :: (X5f :: (X64 :: (X6f :: (X6e :: (X65 :: []))))))))))))))));
    e_reach = Exported; e_ret = TBool; e_params = (true :: []); e_self =
    (Some O); e_slots = (S O); e_parsed = true; e_prelude = ((Guard (GAssert,
    (O :: []), RvFalse)) :: (Body :: [])) } :: ({ e_name =
    (X73 :: (X70 :: (X69 :: (X66 :: (X5f :: (X73 :: (X6f :: (X63 :: (X6b :: (X65 :: (X74 :: (X5f :: (X64 :: (X65 :: (X6c :: [])))))))))))))));
    e_reach = Exported; e_ret = TBool; e_params = (true :: []); e_self =
    (Some O); e_slots = (S O); e_parsed = true; e_prelude = ((Guard (GAssert,
    (O :: []), RvFalse)) :: (Body :: [])) } :: ({ e_name =
    (X73 :: (X70 :: (X69 :: (X66 :: (X5f :: (X73 :: (X6f :: (X63 :: (X6b :: (X65 :: (X74 :: (X5f :: (X73 :: (X68 :: (X6f :: (X77 :: []))))))))))))))));
    e_reach = Exported; e_ret = TPtr; e_params =
    (true :: (true :: (true :: (false :: [])))); e_self = (Some O); e_slots =
    (S O); e_parsed = true; e_prelude = ((Guard (GIf, (O :: []),
    RvHandled)) :: (Body :: [])) } :: ({ e_name =
    (X73 :: (X70 :: (X69 :: (X66 :: (X5f :: (X73 :: (X6f :: (X63 :: (X6b :: (X65 :: (X74 :: (X5f :: (X63 :: (X6f :: (X6d :: (X70 :: []))))))))))))))));
    e_reach = Exported; e_ret = TCmp; e_params = (true :: (true :: []));
    e_self = (Some O); e_slots = (S O); e_parsed = true; e_prelude =
    ((CompNull (O, (S O))) :: (Body :: [])) } :: ({ e_name =
    (X73 :: (X70 :: (X69 :: (X66 :: (X5f :: (X73 :: (X6f :: (X63 :: (X6b :: (X65 :: (X74 :: (X5f :: (X64 :: (X75 :: (X70 :: [])))))))))))))));
    e_reach = Exported; e_ret = TPtr; e_params = (true :: []); e_self = (Some
    O); e_slots = (S O); e_parsed = true; e_prelude = ((Guard (GAssert,
    (O :: []), RvNull)) :: (Body :: [])) } :: ({ e_name =
    (X73 :: (X70 :: (X69 :: (X66 :: (X5f :: (X73 :: (X6f :: (X63 :: (X6b :: (X65 :: (X74 :: (X5f :: (X74 :: (X79 :: (X70 :: (X65 :: []))))))))))))))));
    e_reach = Exported; e_ret = TPtr; e_params = (true :: []); e_self = (Some
    O); e_slots = (S O); e_parsed = true; e_prelude = ((Guard (GAssert,
    (O :: []), RvNull)) :: (Body :: [])) } :: ({ e_name =
    (X73 :: (X70 :: (X69 :: (X66 :: (X5f :: (X73 :: (X6f :: (X63 :: (X6b :: (X65 :: (X74 :: (X5f :: (X6f :: (X70 :: (X65 :: (X6e :: []))))))))))))))));
    e_reach = Exported; e_ret = TBool; e_params = (true :: []); e_self =
    (Some O); e_slots = O; e_parsed = true; e_prelude = ((Guard (GAssert,
    (O :: []), RvFalse)) :: (Body :: [])) } :: ({ e_name =
    (X73 :: (X70 :: (X69 :: (X66 :: (X5f :: (X73 :: (X6f :: (X63 :: (X6b :: (X65 :: (X74 :: (X5f :: (X63 :: (X6c :: (X6f :: (X73 :: (X65 :: [])))))))))))))))));
    e_reach = Exported; e_ret = TBool; e_params = (true :: []); e_self =
    (Some O); e_slots = O; e_parsed = true; e_prelude = ((Guard (GAssert,
    (O :: []), RvFalse)) :: ((Deref O) :: ((Guard (GRequire, [],
    RvFalse)) :: (Body :: [])))) } :: ({ e_name =
    (X73 :: (X70 :: (X69 :: (X66 :: (X5f :: (X73 :: (X6f :: (X63 :: (X6b :: (X65 :: (X74 :: (X5f :: (X63 :: (X68 :: (X65 :: (X63 :: (X6b :: (X5f :: (X69 :: (X6f :: []))))))))))))))))))));
    e_reach = Exported; e_ret = TBool; e_params = (true :: []); e_self =
    (Some O); e_slots = O; e_parsed = true; e_prelude = ((Guard (GAssert,
    (O :: []), RvFalse)) :: ((Deref O) :: ((Guard (GRequire, [],
    RvFalse)) :: (Body :: [])))) } :: ({ e_name =
    (X73 :: (X70 :: (X69 :: (X66 :: (X5f :: (X73 :: (X6f :: (X63 :: (X6b :: (X65 :: (X74 :: (X5f :: (X61 :: (X63 :: (X63 :: (X65 :: (X70 :: (X74 :: []))))))))))))))))));
    e_reach = Exported; e_ret = TPtr; e_params = (true :: []); e_self = (Some
    O); e_slots = O; e_parsed = true; e_prelude = ((Guard (GAssert,
    (O :: []), RvNull)) :: (Body :: [])) } :: ({ e_name =
    (X73 :: (X70 :: (X69 :: (X66 :: (X5f :: (X73 :: (X6f :: (X63 :: (X6b :: (X65 :: (X74 :: (X5f :: (X73 :: (X65 :: (X6e :: (X64 :: []))))))))))))))));
    e_reach = Exported; e_ret = TBool; e_params = (true :: (true :: []));
    e_self = (Some O); e_slots = O; e_parsed = true; e_prelude = ((Guard
    (GAssert, (O :: []), RvFalse)) :: ((Guard (GRequire, ((S O) :: []),
    RvFalse)) :: (Body :: []))) } :: ({ e_name =
    (X73 :: (X70 :: (X69 :: (X66 :: (X5f :: (X73 :: (X6f :: (X63 :: (X6b :: (X65 :: (X74 :: (X5f :: (X72 :: (X65 :: (X63 :: (X76 :: []))))))))))))))));
    e_reach = Exported; e_ret = TPtr; e_params = (true :: []); e_self = (Some
    O); e_slots = O; e_parsed = true; e_prelude = ((Guard (GAssert,
    (O :: []), RvNull)) :: (Body :: [])) } :: ({ e_name =
    (X73 :: (X70 :: (X69 :: (X66 :: (X5f :: (X73 :: (X6f :: (X63 :: (X6b :: (X65 :: (X74 :: (X5f :: (X73 :: (X65 :: (X74 :: (X5f :: (X6e :: (X62 :: (X69 :: (X6f :: []))))))))))))))))))));
    e_reach = Exported; e_ret = TBool; e_params = (true :: []); e_self =
    (Some O); e_slots = O; e_parsed = true; e_prelude = ((Guard (GAssert,
    (O :: []), RvFalse)) :: ((Deref O) :: ((Guard (GRequire, [],
    RvFalse)) :: (Body :: [])))) } :: ({ e_name =
    (X73 :: (X70 :: (X69 :: (X66 :: (X5f :: (X73 :: (X6f :: (X63 :: (X6b :: (X65 :: (X74 :: (X5f :: (X63 :: (X6c :: (X65 :: (X61 :: (X72 :: (X5f :: (X6e :: (X62 :: (X69 :: (X6f :: []))))))))))))))))))))));
    e_reach = Exported; e_ret = TBool; e_params = (true :: []); e_self =
    (Some O); e_slots = O; e_parsed = true; e_prelude = ((Guard (GAssert,
    (O :: []), RvFalse)) :: ((Deref O) :: ((Guard (GRequire, [],
    RvFalse)) :: (Body :: [])))) } :: ({ e_name =
    (X73 :: (X70 :: (X69 :: (X66 :: (X5f :: (X75 :: (X72 :: (X6c :: (X5f :: (X6e :: (X65 :: (X77 :: (X5f :: (X66 :: (X72 :: (X6f :: (X6d :: (X5f :: (X69 :: (X70 :: (X61 :: (X64 :: (X64 :: (X72 :: []))))))))))))))))))))))));
    e_reach = Helper; e_ret = TPtr; e_params = (true :: []); e_self = None;
    e_slots = O; e_parsed = true; e_prelude = (Body :: []) } :: ({ e_name =
    (X73 :: (X70 :: (X69 :: (X66 :: (X5f :: (X75 :: (X72 :: (X6c :: (X5f :: (X69 :: (X6e :: (X69 :: (X74 :: (X5f :: (X66 :: (X72 :: (X6f :: (X6d :: (X5f :: (X69 :: (X70 :: (X61 :: (X64 :: (X64 :: (X72 :: [])))))))))))))))))))))))));
    e_reach = Helper; e_ret = TBool; e_params = (true :: (true :: []));
    e_self = (Some O); e_slots = O; e_parsed = true; e_prelude = ((Guard
    (GAssert, (O :: []), RvFalse)) :: (Body :: [])) } :: ({ e_name =
    (X73 :: (X70 :: (X69 :: (X66 :: (X5f :: (X75 :: (X72 :: (X6c :: (X5f :: (X6e :: (X65 :: (X77 :: (X5f :: (X66 :: (X72 :: (X6f :: (X6d :: (X5f :: (X75 :: (X6e :: (X69 :: (X78 :: (X61 :: (X64 :: (X64 :: (X72 :: []))))))))))))))))))))))))));
    e_reach = Helper; e_ret = TPtr; e_params = (true :: []); e_self = None;
    e_slots = O; e_parsed = true; e_prelude = (Body :: []) } :: ({ e_name =
    (X73 :: (X70 :: (X69 :: (X66 :: (X5f :: (X75 :: (X72 :: (X6c :: (X5f :: (X69 :: (X6e :: (X69 :: (X74 :: (X5f :: (X66 :: (X72 :: (X6f :: (X6d :: (X5f :: (X75 :: (X6e :: (X69 :: (X78 :: (X61 :: (X64 :: (X64 :: (X72 :: [])))))))))))))))))))))))))));
    e_reach = Helper; e_ret = TBool; e_params = (true :: (true :: []));
    e_self = (Some O); e_slots = O; e_parsed = true; e_prelude = ((Guard
    (GAssert, (O :: []), RvFalse)) :: (Body :: [])) } :: ({ e_name =
    (X73 :: (X70 :: (X69 :: (X66 :: (X5f :: (X75 :: (X72 :: (X6c :: (X5f :: (X67 :: (X65 :: (X74 :: (X5f :: (X69 :: (X70 :: (X61 :: (X64 :: (X64 :: (X72 :: [])))))))))))))))))));
    e_reach = Helper; e_ret = TPtr; e_params = (true :: []); e_self = (Some
    O); e_slots = O; e_parsed = true; e_prelude = ((Guard (GAssert,
    (O :: []), RvNull)) :: (Body :: [])) } :: ({ e_name =
    (X73 :: (X70 :: (X69 :: (X66 :: (X5f :: (X75 :: (X72 :: (X6c :: (X5f :: (X67 :: (X65 :: (X74 :: (X5f :: (X75 :: (X6e :: (X69 :: (X78 :: (X61 :: (X64 :: (X64 :: (X72 :: [])))))))))))))))))))));
    e_reach = Helper; e_ret = TPtr; e_params = (true :: []); e_self = (Some
    O); e_slots = O; e_parsed = true; e_prelude = ((Guard (GAssert,
    (O :: []), RvNull)) :: (Body :: [])) } :: ({ e_name =
    (X73 :: (X70 :: (X69 :: (X66 :: (X5f :: (X75 :: (X72 :: (X6c :: (X5f :: (X67 :: (X65 :: (X74 :: (X5f :: (X70 :: (X6f :: (X72 :: (X74 :: (X6e :: (X75 :: (X6d :: []))))))))))))))))))));
    e_reach = Helper; e_ret = TInt; e_params = (true :: []); e_self = (Some
    O); e_slots = O; e_parsed = true; e_prelude = ((Guard (GAssert,
    (O :: []), RvZero)) :: (Body :: [])) } :: ({ e_name =
    (X73 :: (X70 :: (X69 :: (X66 :: (X5f :: (X73 :: (X6f :: (X63 :: (X6b :: (X65 :: (X74 :: (X5f :: (X67 :: (X65 :: (X74 :: (X5f :: (X70 :: (X72 :: (X6f :: (X74 :: (X6f :: [])))))))))))))))))))));
    e_reach = Helper; e_ret = TBool; e_params = (true :: []); e_self = (Some
    O); e_slots = O; e_parsed = true; e_prelude = ((Guard (GAssert,
    (O :: []), RvFalse)) :: (Body :: [])) } :: ({ e_name =
    (X73 :: (X70 :: (X69 :: (X66 :: (X5f :: (X61 :: (X72 :: (X72 :: (X61 :: (X79 :: (X5f :: (X6c :: (X69 :: (X73 :: (X74 :: (X5f :: (X6e :: (X65 :: (X77 :: [])))))))))))))))))));
    e_reach = Slot; e_ret = TPtr; e_params = []; e_self = None; e_slots = (S
    O); e_parsed = true; e_prelude = (Body :: []) } :: ({ e_name =
    (X73 :: (X70 :: (X69 :: (X66 :: (X5f :: (X61 :: (X72 :: (X72 :: (X61 :: (X79 :: (X5f :: (X6c :: (X69 :: (X73 :: (X74 :: (X5f :: (X69 :: (X6e :: (X69 :: (X74 :: []))))))))))))))))))));
    e_reach = Slot; e_ret = TBool; e_params = (true :: []); e_self = (Some
    O); e_slots = (S O); e_parsed = true; e_prelude = ((Guard (GAssert,
    (O :: []), RvFalse)) :: (Body :: [])) } :: ({ e_name =
    (X73 :: (X70 :: (X69 :: (X66 :: (X5f :: (X61 :: (X72 :: (X72 :: (X61 :: (X79 :: (X5f :: (X76 :: (X65 :: (X63 :: (X74 :: (X6f :: (X72 :: (X5f :: (X6e :: (X65 :: (X77 :: [])))))))))))))))))))));
    e_reach = Slot; e_ret = TPtr; e_params = []; e_self = None; e_slots = (S
    O); e_parsed = true; e_prelude = (Body :: []) } :: ({ e_name =
    (X73 :: (X70 :: (X69 :: (X66 :: (X5f :: (X61 :: (X72 :: (X72 :: (X61 :: (X79 :: (X5f :: (X6d :: (X61 :: (X70 :: (X5f :: (X6e :: (X65 :: (X77 :: []))))))))))))))))));
    e_reach = Slot; e_ret = TPtr; e_params = []; e_self = None; e_slots = (S
    O); e_parsed = true; e_prelude = (Body :: []) } :: ({ e_name =
    (X73 :: (X70 :: (X69 :: (X66 :: (X5f :: (X61 :: (X72 :: (X72 :: (X61 :: (X79 :: (X5f :: (X76 :: (X65 :: (X63 :: (X74 :: (X6f :: (X72 :: (X5f :: (X69 :: (X6e :: (X69 :: (X74 :: []))))))))))))))))))))));
    e_reach = Slot; e_ret = TBool; e_params = (true :: []); e_self = (Some
    O); e_slots = (S O); e_parsed = true; e_prelude = ((Guard (GAssert,
    (O :: []), RvFalse)) :: (Body :: [])) } :: ({ e_name =
    (X73 :: (X70 :: (X69 :: (X66 :: (X5f :: (X61 :: (X72 :: (X72 :: (X61 :: (X79 :: (X5f :: (X6d :: (X61 :: (X70 :: (X5f :: (X69 :: (X6e :: (X69 :: (X74 :: [])))))))))))))))))));
    e_reach = Slot; e_ret = TBool; e_params = (true :: []); e_self = (Some
    O); e_slots = (S O); e_parsed = true; e_prelude = ((Guard (GAssert,
    (O :: []), RvFalse)) :: (Body :: [])) } :: ({ e_name =
    (X73 :: (X70 :: (X69 :: (X66 :: (X5f :: (X61 :: (X72 :: (X72 :: (X61 :: (X79 :: (X5f :: (X64 :: (X6f :: (X6e :: (X65 :: [])))))))))))))));
    e_reach = Slot; e_ret = TBool; e_params = (true :: []); e_self = (Some
    O); e_slots = (S (S (S O))); e_parsed = true; e_prelude = ((Guard
    (GAssert, (O :: []), RvFalse)) :: (Body :: [])) } :: ({ e_name =
    (X73 :: (X70 :: (X69 :: (X66 :: (X5f :: (X61 :: (X72 :: (X72 :: (X61 :: (X79 :: (X5f :: (X64 :: (X65 :: (X6c :: []))))))))))))));
    e_reach = Slot; e_ret = TBool; e_params = (true :: []); e_self = (Some
    O); e_slots = (S (S (S O))); e_parsed = true; e_prelude = ((Guard
    (GAssert, (O :: []), RvFalse)) :: (Body :: [])) } :: ({ e_name =
    (X73 :: (X70 :: (X69 :: (X66 :: (X5f :: (X61 :: (X72 :: (X72 :: (X61 :: (X79 :: (X5f :: (X73 :: (X68 :: (X6f :: (X77 :: [])))))))))))))));
    e_reach = Slot; e_ret = TPtr; e_params =
    (true :: (true :: (true :: (false :: [])))); e_self = (Some O); e_slots =
    (S (S (S O))); e_parsed = true; e_prelude = ((Guard (GIf, (O :: []),
    RvHandled)) :: (Body :: [])) } :: ({ e_name =
    (X73 :: (X70 :: (X69 :: (X66 :: (X5f :: (X61 :: (X72 :: (X72 :: (X61 :: (X79 :: (X5f :: (X63 :: (X6f :: (X6d :: (X70 :: [])))))))))))))));
    e_reach = Slot; e_ret = TCmp; e_params = (true :: (true :: [])); e_self =
    (Some O); e_slots = (S (S (S O))); e_parsed = true; e_prelude =
    ((CompNull (O, (S O))) :: (Body :: [])) } :: ({ e_name =
    (X73 :: (X70 :: (X69 :: (X66 :: (X5f :: (X61 :: (X72 :: (X72 :: (X61 :: (X79 :: (X5f :: (X6c :: (X69 :: (X73 :: (X74 :: (X5f :: (X64 :: (X75 :: (X70 :: [])))))))))))))))))));
    e_reach = Slot; e_ret = TPtr; e_params = (true :: []); e_self = (Some O);
    e_slots = (S O); e_parsed = true; e_prelude = ((Guard (GAssert,
    (O :: []), RvNull)) :: (Body :: [])) } :: ({ e_name =
    (X73 :: (X70 :: (X69 :: (X66 :: (X5f :: (X61 :: (X72 :: (X72 :: (X61 :: (X79 :: (X5f :: (X76 :: (X65 :: (X63 :: (X74 :: (X6f :: (X72 :: (X5f :: (X64 :: (X75 :: (X70 :: [])))))))))))))))))))));
    e_reach = Slot; e_ret = TPtr; e_params = (true :: []); e_self = (Some O);
    e_slots = (S O); e_parsed = true; e_prelude = ((Guard (GAssert,
    (O :: []), RvNull)) :: (Body :: [])) } :: ({ e_name =
    (X73 :: (X70 :: (X69 :: (X66 :: (X5f :: (X61 :: (X72 :: (X72 :: (X61 :: (X79 :: (X5f :: (X6d :: (X61 :: (X70 :: (X5f :: (X64 :: (X75 :: (X70 :: []))))))))))))))))));
    e_reach = Slot; e_ret = TPtr; e_params = (true :: []); e_self = (Some O);
    e_slots = (S O); e_parsed = true; e_prelude = ((Guard (GAssert,
    (O :: []), RvNull)) :: (Body :: [])) } :: ({ e_name =
    (X73 :: (X70 :: (X69 :: (X66 :: (X5f :: (X61 :: (X72 :: (X72 :: (X61 :: (X79 :: (X5f :: (X74 :: (X79 :: (X70 :: (X65 :: [])))))))))))))));
    e_reach = Slot; e_ret = TPtr; e_params = (true :: []); e_self = (Some O);
    e_slots = (S (S (S O))); e_parsed = true; e_prelude = ((Guard (GAssert,
    (O :: []), RvNull)) :: (Body :: [])) } :: ({ e_name =
    (X73 :: (X70 :: (X69 :: (X66 :: (X5f :: (X61 :: (X72 :: (X72 :: (X61 :: (X79 :: (X5f :: (X61 :: (X70 :: (X70 :: (X65 :: (X6e :: (X64 :: [])))))))))))))))));
    e_reach = Slot; e_ret = TBool; e_params = (true :: (true :: []));
    e_self = (Some O); e_slots = (S O); e_parsed = true; e_prelude = ((Guard
    (GAssert, (O :: []), RvFalse)) :: (Body :: [])) } :: ({ e_name =
    (X73 :: (X70 :: (X69 :: (X66 :: (X5f :: (X61 :: (X72 :: (X72 :: (X61 :: (X79 :: (X5f :: (X6c :: (X69 :: (X73 :: (X74 :: (X5f :: (X63 :: (X6f :: (X6e :: (X74 :: (X61 :: (X69 :: (X6e :: (X73 :: []))))))))))))))))))))))));
    e_reach = Slot; e_ret = TBool; e_params = (true :: (true :: []));
    e_self = (Some O); e_slots = (S O); e_parsed = true; e_prelude = ((Guard
    (GAssert, (O :: []), RvFalse)) :: ((Delegate
    ((X73 :: (X70 :: (X69 :: (X66 :: (X5f :: (X61 :: (X72 :: (X72 :: (X61 :: (X79 :: (X5f :: (X6c :: (X69 :: (X73 :: (X74 :: (X5f :: (X66 :: (X69 :: (X6e :: (X64 :: [])))))))))))))))))))),
    ((Some O) :: ((Some (S O)) :: [])),
    PNullToFalse)) :: [])) } :: ({ e_name =
    (X73 :: (X70 :: (X69 :: (X66 :: (X5f :: (X61 :: (X72 :: (X72 :: (X61 :: (X79 :: (X5f :: (X76 :: (X65 :: (X63 :: (X74 :: (X6f :: (X72 :: (X5f :: (X63 :: (X6f :: (X6e :: (X74 :: (X61 :: (X69 :: (X6e :: (X73 :: []))))))))))))))))))))))))));
    e_reach = Slot; e_ret = TBool; e_params = (true :: (true :: []));
    e_self = (Some O); e_slots = (S O); e_parsed = true; e_prelude = ((Guard
    (GAssert, (O :: []), RvFalse)) :: ((Delegate
    ((X73 :: (X70 :: (X69 :: (X66 :: (X5f :: (X61 :: (X72 :: (X72 :: (X61 :: (X79 :: (X5f :: (X76 :: (X65 :: (X63 :: (X74 :: (X6f :: (X72 :: (X5f :: (X66 :: (X69 :: (X6e :: (X64 :: [])))))))))))))))))))))),
    ((Some O) :: ((Some (S O)) :: [])),
    PNullToFalse)) :: [])) } :: ({ e_name =
    (X73 :: (X70 :: (X69 :: (X66 :: (X5f :: (X61 :: (X72 :: (X72 :: (X61 :: (X79 :: (X5f :: (X63 :: (X6f :: (X75 :: (X6e :: (X74 :: []))))))))))))))));
    e_reach = Slot; e_ret = TInt; e_params = (true :: []); e_self = (Some O);
    e_slots = (S (S (S O))); e_parsed = true; e_prelude = ((Guard (GAssert,
    (O :: []), RvZero)) :: (Body :: [])) } :: ({ e_name =
    (X73 :: (X70 :: (X69 :: (X66 :: (X5f :: (X61 :: (X72 :: (X72 :: (X61 :: (X79 :: (X5f :: (X6c :: (X69 :: (X73 :: (X74 :: (X5f :: (X66 :: (X69 :: (X6e :: (X64 :: []))))))))))))))))))));
    e_reach = Slot; e_ret = TPtr; e_params = (true :: (true :: [])); e_self =
    (Some O); e_slots = (S O); e_parsed = true; e_prelude = ((Guard (GAssert,
    (O :: []), RvNull)) :: ((Guard (GRequire, ((S O) :: []),
    RvNull)) :: (Body :: []))) } :: ({ e_name =
    (X73 :: (X70 :: (X69 :: (X66 :: (X5f :: (X61 :: (X72 :: (X72 :: (X61 :: (X79 :: (X5f :: (X76 :: (X65 :: (X63 :: (X74 :: (X6f :: (X72 :: (X5f :: (X66 :: (X69 :: (X6e :: (X64 :: []))))))))))))))))))))));
    e_reach = Slot; e_ret = TPtr; e_params = (true :: (true :: [])); e_self =
    (Some O); e_slots = (S O); e_parsed = true; e_prelude = ((Guard (GAssert,
    (O :: []), RvNull)) :: ((Guard (GRequire, ((S O) :: []),
    RvNull)) :: ((Deref O) :: ((Guard (GRequire, [],
    RvNull)) :: (Body :: []))))) } :: ({ e_name =
    (X73 :: (X70 :: (X69 :: (X66 :: (X5f :: (X61 :: (X72 :: (X72 :: (X61 :: (X79 :: (X5f :: (X67 :: (X65 :: (X74 :: []))))))))))))));
    e_reach = Slot; e_ret = TPtr; e_params = (true :: (false :: []));
    e_self = (Some O); e_slots = (S O); e_parsed = true; e_prelude = ((Guard
    (GAssert, (O :: []), RvNull)) :: (Body :: [])) } :: ({ e_name =
    (X73 :: (X70 :: (X69 :: (X66 :: (X5f :: (X61 :: (X72 :: (X72 :: (X61 :: (X79 :: (X5f :: (X6d :: (X61 :: (X70 :: (X5f :: (X67 :: (X65 :: (X74 :: []))))))))))))))))));
    e_reach = Slot; e_ret = TPtr; e_params = (true :: (true :: [])); e_self =
    (Some O); e_slots = (S O); e_parsed = true; e_prelude = ((Guard (GAssert,
    (O :: []), RvNull)) :: ((Guard (GRequire, ((S O) :: []),
    RvNull)) :: ((Deref O) :: ((Guard (GRequire, [],
    RvNull)) :: (Body :: []))))) } :: ({ e_name =
    (X73 :: (X70 :: (X69 :: (X66 :: (X5f :: (X61 :: (X72 :: (X72 :: (X61 :: (X79 :: (X5f :: (X67 :: (X65 :: (X74 :: (X5f :: (X6b :: (X65 :: (X79 :: (X73 :: [])))))))))))))))))));
    e_reach = Slot; e_ret = TPtr; e_params = (true :: (true :: [])); e_self =
    (Some O); e_slots = (S O); e_parsed = true; e_prelude = ((Guard (GAssert,
    (O :: []), RvNull)) :: (Body :: [])) } :: ({ e_name =
    (X73 :: (X70 :: (X69 :: (X66 :: (X5f :: (X61 :: (X72 :: (X72 :: (X61 :: (X79 :: (X5f :: (X67 :: (X65 :: (X74 :: (X5f :: (X70 :: (X61 :: (X69 :: (X72 :: (X73 :: []))))))))))))))))))));
    e_reach = Slot; e_ret = TPtr; e_params = (true :: (true :: [])); e_self =
    (Some O); e_slots = (S O); e_parsed = true; e_prelude = ((Guard (GAssert,
    (O :: []), RvNull)) :: (Body :: [])) } :: ({ e_name =
    (X73 :: (X70 :: (X69 :: (X66 :: (X5f :: (X61 :: (X72 :: (X72 :: (X61 :: (X79 :: (X5f :: (X67 :: (X65 :: (X74 :: (X5f :: (X76 :: (X61 :: (X6c :: (X75 :: (X65 :: (X73 :: [])))))))))))))))))))));
    e_reach = Slot; e_ret = TPtr; e_params = (true :: (true :: [])); e_self =
    (Some O); e_slots = (S O); e_parsed = true; e_prelude = ((Guard (GAssert,
    (O :: []), RvNull)) :: (Body :: [])) } :: ({ e_name =
    (X73 :: (X70 :: (X69 :: (X66 :: (X5f :: (X61 :: (X72 :: (X72 :: (X61 :: (X79 :: (X5f :: (X68 :: (X61 :: (X73 :: (X5f :: (X6b :: (X65 :: (X79 :: []))))))))))))))))));
    e_reach = Slot; e_ret = TBool; e_params = (true :: (true :: []));
    e_self = (Some O); e_slots = (S O); e_parsed = true; e_prelude =
    ((Delegate
    ((X73 :: (X70 :: (X69 :: (X66 :: (X5f :: (X61 :: (X72 :: (X72 :: (X61 :: (X79 :: (X5f :: (X6d :: (X61 :: (X70 :: (X5f :: (X67 :: (X65 :: (X74 :: [])))))))))))))))))),
    ((Some O) :: ((Some (S O)) :: [])),
    PNullToFalse)) :: []) } :: ({ e_name =
    (X73 :: (X70 :: (X69 :: (X66 :: (X5f :: (X61 :: (X72 :: (X72 :: (X61 :: (X79 :: (X5f :: (X68 :: (X61 :: (X73 :: (X5f :: (X76 :: (X61 :: (X6c :: (X75 :: (X65 :: []))))))))))))))))))));
    e_reach = Slot; e_ret = TBool; e_params = (true :: (true :: []));
    e_self = (Some O); e_slots = (S O); e_parsed = true; e_prelude = ((Guard
    (GAssert, (O :: []), RvFalse)) :: (Body :: [])) } :: ({ e_name =
    (X73 :: (X70 :: (X69 :: (X66 :: (X5f :: (X61 :: (X72 :: (X72 :: (X61 :: (X79 :: (X5f :: (X69 :: (X6e :: (X64 :: (X65 :: (X78 :: []))))))))))))))));
    e_reach = Slot; e_ret = TInt; e_params = (true :: (true :: [])); e_self =
    (Some O); e_slots = (S O); e_parsed = true; e_prelude = ((Guard (GAssert,
    (O :: []), RvNeg1)) :: (Body :: [])) } :: ({ e_name =
    (X73 :: (X70 :: (X69 :: (X66 :: (X5f :: (X61 :: (X72 :: (X72 :: (X61 :: (X79 :: (X5f :: (X69 :: (X6e :: (X73 :: (X65 :: (X72 :: (X74 :: [])))))))))))))))));
    e_reach = Slot; e_ret = TBool; e_params = (true :: (true :: []));
    e_self = (Some O); e_slots = (S (S O)); e_parsed = true; e_prelude =
    ((Guard (GAssert, (O :: []), RvFalse)) :: ((Guard (GRequire, ((S
    O) :: []), RvFalse)) :: (Body :: []))) } :: ({ e_name =
    (X73 :: (X70 :: (X69 :: (X66 :: (X5f :: (X61 :: (X72 :: (X72 :: (X61 :: (X79 :: (X5f :: (X69 :: (X6e :: (X73 :: (X65 :: (X72 :: (X74 :: (X5f :: (X61 :: (X74 :: []))))))))))))))))))));
    e_reach = Slot; e_ret = TBool; e_params =
    (true :: (true :: (false :: []))); e_self = (Some O); e_slots = (S O);
    e_parsed = true; e_prelude = ((Guard (GAssert, (O :: []),
    RvFalse)) :: ((Guard (GRequire, ((S O) :: []),
    RvFalse)) :: (Body :: []))) } :: ({ e_name =
    (X73 :: (X70 :: (X69 :: (X66 :: (X5f :: (X61 :: (X72 :: (X72 :: (X61 :: (X79 :: (X5f :: (X69 :: (X74 :: (X65 :: (X72 :: (X61 :: (X74 :: (X6f :: (X72 :: [])))))))))))))))))));
    e_reach = Slot; e_ret = TPtr; e_params = (true :: []); e_self = (Some O);
    e_slots = (S (S (S O))); e_parsed = true; e_prelude = ((Guard (GAssert,
    (O :: []), RvNull)) :: ((Delegate
    ((X73 :: (X70 :: (X69 :: (X66 :: (X5f :: (X61 :: (X72 :: (X72 :: (X61 :: (X79 :: (X5f :: (X69 :: (X74 :: (X65 :: (X72 :: (X61 :: (X74 :: (X6f :: (X72 :: (X5f :: (X6e :: (X65 :: (X77 :: []))))))))))))))))))))))),
    ((Some O) :: []), PId)) :: [])) } :: ({ e_name =
    (X73 :: (X70 :: (X69 :: (X66 :: (X5f :: (X61 :: (X72 :: (X72 :: (X61 :: (X79 :: (X5f :: (X70 :: (X72 :: (X65 :: (X70 :: (X65 :: (X6e :: (X64 :: []))))))))))))))))));
    e_reach = Slot; e_ret = TBool; e_params = (true :: (true :: []));
    e_self = (Some O); e_slots = (S O); e_parsed = true; e_prelude = ((Guard
    (GAssert, (O :: []), RvFalse)) :: ((Guard (GRequire, ((S O) :: []),
    RvFalse)) :: (Body :: []))) } :: ({ e_name =
    (X73 :: (X70 :: (X69 :: (X66 :: (X5f :: (X61 :: (X72 :: (X72 :: (X61 :: (X79 :: (X5f :: (X72 :: (X65 :: (X6d :: (X6f :: (X76 :: (X65 :: [])))))))))))))))));
    e_reach = Slot; e_ret = TPtr; e_params = (true :: (true :: [])); e_self =
    (Some O); e_slots = (S (S O)); e_parsed = true; e_prelude = ((Guard
    (GAssert, (O :: []), RvNull)) :: ((Guard (GRequire, ((S O) :: []),
    RvNull)) :: (Body :: []))) } :: ({ e_name =
    (X73 :: (X70 :: (X69 :: (X66 :: (X5f :: (X61 :: (X72 :: (X72 :: (X61 :: (X79 :: (X5f :: (X6d :: (X61 :: (X70 :: (X5f :: (X72 :: (X65 :: (X6d :: (X6f :: (X76 :: (X65 :: [])))))))))))))))))))));
    e_reach = Slot; e_ret = TPtr; e_params = (true :: (true :: [])); e_self =
    (Some O); e_slots = (S O); e_parsed = true; e_prelude = ((Guard (GAssert,
    (O :: []), RvNull)) :: ((Guard (GRequire, ((S O) :: []),
    RvNull)) :: (Body :: []))) } :: ({ e_name =
    (X73 :: (X70 :: (X69 :: (X66 :: (X5f :: (X61 :: (X72 :: (X72 :: (X61 :: (X79 :: (X5f :: (X72 :: (X65 :: (X6d :: (X6f :: (X76 :: (X65 :: (X5f :: (X61 :: (X74 :: []))))))))))))))))))));
    e_reach = Slot; e_ret = TPtr; e_params = (true :: (false :: []));
    e_self = (Some O); e_slots = (S O); e_parsed = true; e_prelude = ((Guard
    (GAssert, (O :: []), RvNull)) :: (Body :: [])) } :: ({ e_name =
    (X73 :: (X70 :: (X69 :: (X66 :: (X5f :: (X61 :: (X72 :: (X72 :: (X61 :: (X79 :: (X5f :: (X72 :: (X65 :: (X76 :: (X65 :: (X72 :: (X73 :: (X65 :: []))))))))))))))))));
    e_reach = Slot; e_ret = TBool; e_params = (true :: []); e_self = (Some
    O); e_slots = (S O); e_parsed = true; e_prelude = ((Guard (GAssert,
    (O :: []), RvFalse)) :: (Body :: [])) } :: ({ e_name =
    (X73 :: (X70 :: (X69 :: (X66 :: (X5f :: (X61 :: (X72 :: (X72 :: (X61 :: (X79 :: (X5f :: (X73 :: (X65 :: (X74 :: []))))))))))))));
    e_reach = Slot; e_ret = TBool; e_params =
    (true :: (true :: (true :: []))); e_self = (Some O); e_slots = (S O);
    e_parsed = true; e_prelude = ((Guard (GAssert, (O :: []),
    RvFalse)) :: ((Guard (GRequire, ((S O) :: []),
    RvFalse)) :: (Body :: []))) } :: ({ e_name =
    (X73 :: (X70 :: (X69 :: (X66 :: (X5f :: (X61 :: (X72 :: (X72 :: (X61 :: (X79 :: (X5f :: (X74 :: (X6f :: (X5f :: (X61 :: (X72 :: (X72 :: (X61 :: (X79 :: [])))))))))))))))))));
    e_reach = Slot; e_ret = TPtr; e_params = (true :: []); e_self = (Some O);
    e_slots = (S (S O)); e_parsed = true; e_prelude = ((Guard (GAssert,
    (O :: []), RvNull)) :: (Body :: [])) } :: ({ e_name =
    (X73 :: (X70 :: (X69 :: (X66 :: (X5f :: (X61 :: (X72 :: (X72 :: (X61 :: (X79 :: (X5f :: (X69 :: (X74 :: (X65 :: (X72 :: (X61 :: (X74 :: (X6f :: (X72 :: (X5f :: (X6e :: (X65 :: (X77 :: [])))))))))))))))))))))));
    e_reach = Slot; e_ret = TPtr; e_params = (true :: []); e_self = None;
    e_slots = (S O); e_parsed = true; e_prelude =
    (Body :: []) } :: ({ e_name =
    (X73 :: (X70 :: (X69 :: (X66 :: (X5f :: (X61 :: (X72 :: (X72 :: (X61 :: (X79 :: (X5f :: (X69 :: (X74 :: (X65 :: (X72 :: (X61 :: (X74 :: (X6f :: (X72 :: (X5f :: (X69 :: (X6e :: (X69 :: (X74 :: []))))))))))))))))))))))));
    e_reach = Slot; e_ret = TBool; e_params = (true :: (true :: []));
    e_self = (Some O); e_slots = (S O); e_parsed = true; e_prelude = ((Guard
    (GAssert, (O :: []), RvFalse)) :: (Body :: [])) } :: ({ e_name =
    (X73 :: (X70 :: (X69 :: (X66 :: (X5f :: (X61 :: (X72 :: (X72 :: (X61 :: (X79 :: (X5f :: (X69 :: (X74 :: (X65 :: (X72 :: (X61 :: (X74 :: (X6f :: (X72 :: (X5f :: (X64 :: (X6f :: (X6e :: (X65 :: []))))))))))))))))))))))));
    e_reach = Slot; e_ret = TBool; e_params = (true :: []); e_self = (Some
    O); e_slots = (S O); e_parsed = true; e_prelude = ((Guard (GAssert,
    (O :: []), RvFalse)) :: (Body :: [])) } :: ({ e_name =
    (X73 :: (X70 :: (X69 :: (X66 :: (X5f :: (X61 :: (X72 :: (X72 :: (X61 :: (X79 :: (X5f :: (X69 :: (X74 :: (X65 :: (X72 :: (X61 :: (X74 :: (X6f :: (X72 :: (X5f :: (X64 :: (X65 :: (X6c :: [])))))))))))))))))))))));
    e_reach = Slot; e_ret = TBool; e_params = (true :: []); e_self = (Some
    O); e_slots = (S O); e_parsed = true; e_prelude = ((Guard (GAssert,
    (O :: []), RvFalse)) :: (Body :: [])) } :: ({ e_name =
    (X73 :: (X70 :: (X69 :: (X66 :: (X5f :: (X61 :: (X72 :: (X72 :: (X61 :: (X79 :: (X5f :: (X69 :: (X74 :: (X65 :: (X72 :: (X61 :: (X74 :: (X6f :: (X72 :: (X5f :: (X73 :: (X68 :: (X6f :: (X77 :: []))))))))))))))))))))))));
    e_reach = Slot; e_ret = TPtr; e_params =
    (true :: (true :: (true :: (false :: [])))); e_self = (Some O); e_slots =
    (S O); e_parsed = true; e_prelude = ((Guard (GIf, (O :: []),
    RvHandled)) :: (Body :: [])) } :: ({ e_name =
    (X73 :: (X70 :: (X69 :: (X66 :: (X5f :: (X61 :: (X72 :: (X72 :: (X61 :: (X79 :: (X5f :: (X69 :: (X74 :: (X65 :: (X72 :: (X61 :: (X74 :: (X6f :: (X72 :: (X5f :: (X63 :: (X6f :: (X6d :: (X70 :: []))))))))))))))))))))))));
    e_reach = Slot; e_ret = TCmp; e_params = (true :: (true :: [])); e_self =
    (Some O); e_slots = (S O); e_parsed = true; e_prelude = ((CompNull (O, (S
    O))) :: (Body :: [])) } :: ({ e_name =
    (X73 :: (X70 :: (X69 :: (X66 :: (X5f :: (X61 :: (X72 :: (X72 :: (X61 :: (X79 :: (X5f :: (X69 :: (X74 :: (X65 :: (X72 :: (X61 :: (X74 :: (X6f :: (X72 :: (X5f :: (X64 :: (X75 :: (X70 :: [])))))))))))))))))))))));
    e_reach = Slot; e_ret = TPtr; e_params = (true :: []); e_self = (Some O);
    e_slots = (S O); e_parsed = true; e_prelude = ((Guard (GAssert,
    (O :: []), RvNull)) :: (Body :: [])) } :: ({ e_name =
    (X73 :: (X70 :: (X69 :: (X66 :: (X5f :: (X61 :: (X72 :: (X72 :: (X61 :: (X79 :: (X5f :: (X69 :: (X74 :: (X65 :: (X72 :: (X61 :: (X74 :: (X6f :: (X72 :: (X5f :: (X74 :: (X79 :: (X70 :: (X65 :: []))))))))))))))))))))))));
    e_reach = Slot; e_ret = TPtr; e_params = (true :: []); e_self = (Some O);
    e_slots = (S O); e_parsed = true; e_prelude = ((Guard (GAssert,
    (O :: []), RvNull)) :: (Body :: [])) } :: ({ e_name =
    (X73 :: (X70 :: (X69 :: (X66 :: (X5f :: (X61 :: (X72 :: (X72 :: (X61 :: (X79 :: (X5f :: (X69 :: (X74 :: (X65 :: (X72 :: (X61 :: (X74 :: (X6f :: (X72 :: (X5f :: (X68 :: (X61 :: (X73 :: (X5f :: (X6e :: (X65 :: (X78 :: (X74 :: []))))))))))))))))))))))))))));
    e_reach = Slot; e_ret = TBool; e_params = (true :: []); e_self = (Some
    O); e_slots = (S O); e_parsed = true; e_prelude = ((Guard (GAssert,
    (O :: []), RvFalse)) :: (Body :: [])) } :: ({ e_name =
    (X73 :: (X70 :: (X69 :: (X66 :: (X5f :: (X61 :: (X72 :: (X72 :: (X61 :: (X79 :: (X5f :: (X69 :: (X74 :: (X65 :: (X72 :: (X61 :: (X74 :: (X6f :: (X72 :: (X5f :: (X6e :: (X65 :: (X78 :: (X74 :: []))))))))))))))))))))))));
    e_reach = Slot; e_ret = TPtr; e_params = (true :: []); e_self = (Some O);
    e_slots = (S O); e_parsed = true; e_prelude = ((Guard (GAssert,
    (O :: []), RvNull)) :: ((Deref O) :: ((Guard (GRequire, [],
    RvNull)) :: (Body :: [])))) } :: ({ e_name =
    (X73 :: (X70 :: (X69 :: (X66 :: (X5f :: (X6c :: (X69 :: (X6e :: (X6b :: (X65 :: (X64 :: (X5f :: (X6c :: (X69 :: (X73 :: (X74 :: (X5f :: (X69 :: (X74 :: (X65 :: (X6d :: (X5f :: (X6e :: (X65 :: (X77 :: [])))))))))))))))))))))))));
    e_reach = Slot; e_ret = TPtr; e_params = []; e_self = None; e_slots = (S
    O); e_parsed = true; e_prelude = (Body :: []) } :: ({ e_name =
    (X73 :: (X70 :: (X69 :: (X66 :: (X5f :: (X6c :: (X69 :: (X6e :: (X6b :: (X65 :: (X64 :: (X5f :: (X6c :: (X69 :: (X73 :: (X74 :: (X5f :: (X69 :: (X74 :: (X65 :: (X6d :: (X5f :: (X69 :: (X6e :: (X69 :: (X74 :: []))))))))))))))))))))))))));
    e_reach = Slot; e_ret = TBool; e_params = (true :: []); e_self = (Some
    O); e_slots = (S O); e_parsed = true; e_prelude = ((Guard (GAssert,
    (O :: []), RvFalse)) :: (Body :: [])) } :: ({ e_name =
    (X73 :: (X70 :: (X69 :: (X66 :: (X5f :: (X6c :: (X69 :: (X6e :: (X6b :: (X65 :: (X64 :: (X5f :: (X6c :: (X69 :: (X73 :: (X74 :: (X5f :: (X69 :: (X74 :: (X65 :: (X6d :: (X5f :: (X64 :: (X6f :: (X6e :: (X65 :: []))))))))))))))))))))))))));
    e_reach = Slot; e_ret = TBool; e_params = (true :: []); e_self = (Some
    O); e_slots = (S O); e_parsed = true; e_prelude = ((Guard (GAssert,
    (O :: []), RvFalse)) :: (Body :: [])) } :: ({ e_name =
    (X73 :: (X70 :: (X69 :: (X66 :: (X5f :: (X6c :: (X69 :: (X6e :: (X6b :: (X65 :: (X64 :: (X5f :: (X6c :: (X69 :: (X73 :: (X74 :: (X5f :: (X69 :: (X74 :: (X65 :: (X6d :: (X5f :: (X64 :: (X65 :: (X6c :: [])))))))))))))))))))))))));
    e_reach = Slot; e_ret = TBool; e_params = (true :: []); e_self = (Some
    O); e_slots = (S O); e_parsed = true; e_prelude = ((Guard (GAssert,
    (O :: []), RvFalse)) :: (Body :: [])) } :: ({ e_name =
    (X73 :: (X70 :: (X69 :: (X66 :: (X5f :: (X6c :: (X69 :: (X6e :: (X6b :: (X65 :: (X64 :: (X5f :: (X6c :: (X69 :: (X73 :: (X74 :: (X5f :: (X69 :: (X74 :: (X65 :: (X6d :: (X5f :: (X73 :: (X68 :: (X6f :: (X77 :: []))))))))))))))))))))))))));
    e_reach = Slot; e_ret = TPtr; e_params =
    (true :: (true :: (true :: (false :: [])))); e_self = (Some O); e_slots =
    (S O); e_parsed = true; e_prelude = ((Guard (GIf, (O :: []),
    RvHandled)) :: (Body :: [])) } :: ({ e_name =
    (X73 :: (X70 :: (X69 :: (X66 :: (X5f :: (X6c :: (X69 :: (X6e :: (X6b :: (X65 :: (X64 :: (X5f :: (X6c :: (X69 :: (X73 :: (X74 :: (X5f :: (X69 :: (X74 :: (X65 :: (X6d :: (X5f :: (X63 :: (X6f :: (X6d :: (X70 :: []))))))))))))))))))))))))));
    e_reach = Slot; e_ret = TCmp; e_params = (true :: (true :: [])); e_self =
    (Some O); e_slots = (S O); e_parsed = true; e_prelude = ((CompNull (O, (S
    O))) :: ((Deref O) :: ((Deref (S O)) :: ((Guard (GRequire, [],
    RvOther)) :: (Body :: []))))) } :: ({ e_name =
    (X73 :: (X70 :: (X69 :: (X66 :: (X5f :: (X6c :: (X69 :: (X6e :: (X6b :: (X65 :: (X64 :: (X5f :: (X6c :: (X69 :: (X73 :: (X74 :: (X5f :: (X69 :: (X74 :: (X65 :: (X6d :: (X5f :: (X64 :: (X75 :: (X70 :: [])))))))))))))))))))))))));
    e_reach = Slot; e_ret = TPtr; e_params = (true :: []); e_self = (Some O);
    e_slots = (S O); e_parsed = true; e_prelude = ((Guard (GAssert,
    (O :: []), RvNull)) :: (Body :: [])) } :: ({ e_name =
    (X73 :: (X70 :: (X69 :: (X66 :: (X5f :: (X6c :: (X69 :: (X6e :: (X6b :: (X65 :: (X64 :: (X5f :: (X6c :: (X69 :: (X73 :: (X74 :: (X5f :: (X69 :: (X74 :: (X65 :: (X6d :: (X5f :: (X74 :: (X79 :: (X70 :: (X65 :: []))))))))))))))))))))))))));
    e_reach = Slot; e_ret = TPtr; e_params = (true :: []); e_self = (Some O);
    e_slots = (S O); e_parsed = true; e_prelude = ((Guard (GAssert,
    (O :: []), RvNull)) :: (Body :: [])) } :: ({ e_name =
    (X73 :: (X70 :: (X69 :: (X66 :: (X5f :: (X6c :: (X69 :: (X6e :: (X6b :: (X65 :: (X64 :: (X5f :: (X6c :: (X69 :: (X73 :: (X74 :: (X5f :: (X69 :: (X74 :: (X65 :: (X6d :: (X5f :: (X67 :: (X65 :: (X74 :: (X5f :: (X64 :: (X61 :: (X74 :: (X61 :: []))))))))))))))))))))))))))))));
    e_reach = Exported; e_ret = TPtr; e_params = (true :: []); e_self = (Some
    O); e_slots = O; e_parsed = true; e_prelude =
    (Body :: []) } :: ({ e_name =
    (X73 :: (X70 :: (X69 :: (X66 :: (X5f :: (X6c :: (X69 :: (X6e :: (X6b :: (X65 :: (X64 :: (X5f :: (X6c :: (X69 :: (X73 :: (X74 :: (X5f :: (X69 :: (X74 :: (X65 :: (X6d :: (X5f :: (X73 :: (X65 :: (X74 :: (X5f :: (X64 :: (X61 :: (X74 :: (X61 :: []))))))))))))))))))))))))))))));
    e_reach = Exported; e_ret = TInt; e_params = (true :: (true :: []));
    e_self = (Some O); e_slots = O; e_parsed = true; e_prelude =
    (Body :: []) } :: ({ e_name =
    (X73 :: (X70 :: (X69 :: (X66 :: (X5f :: (X6c :: (X69 :: (X6e :: (X6b :: (X65 :: (X64 :: (X5f :: (X6c :: (X69 :: (X73 :: (X74 :: (X5f :: (X69 :: (X74 :: (X65 :: (X6d :: (X5f :: (X67 :: (X65 :: (X74 :: (X5f :: (X6e :: (X65 :: (X78 :: (X74 :: []))))))))))))))))))))))))))))));
    e_reach = Exported; e_ret = TPtr; e_params = (true :: []); e_self = (Some
    O); e_slots = O; e_parsed = true; e_prelude =
    (Body :: []) } :: ({ e_name =
    (X73 :: (X70 :: (X69 :: (X66 :: (X5f :: (X6c :: (X69 :: (X6e :: (X6b :: (X65 :: (X64 :: (X5f :: (X6c :: (X69 :: (X73 :: (X74 :: (X5f :: (X69 :: (X74 :: (X65 :: (X6d :: (X5f :: (X73 :: (X65 :: (X74 :: (X5f :: (X6e :: (X65 :: (X78 :: (X74 :: []))))))))))))))))))))))))))))));
    e_reach = Exported; e_ret = TInt; e_params = (true :: (true :: []));
    e_self = (Some O); e_slots = O; e_parsed = true; e_prelude =
    (Body :: []) } :: ({ e_name =
    (X73 :: (X70 :: (X69 :: (X66 :: (X5f :: (X6c :: (X69 :: (X6e :: (X6b :: (X65 :: (X64 :: (X5f :: (X6c :: (X69 :: (X73 :: (X74 :: (X5f :: (X6e :: (X65 :: (X77 :: []))))))))))))))))))));
    e_reach = Slot; e_ret = TPtr; e_params = []; e_self = None; e_slots = (S
    O); e_parsed = true; e_prelude = (Body :: []) } :: ({ e_name =
    (X73 :: (X70 :: (X69 :: (X66 :: (X5f :: (X6c :: (X69 :: (X6e :: (X6b :: (X65 :: (X64 :: (X5f :: (X6c :: (X69 :: (X73 :: (X74 :: (X5f :: (X76 :: (X65 :: (X63 :: (X74 :: (X6f :: (X72 :: (X5f :: (X6e :: (X65 :: (X77 :: [])))))))))))))))))))))))))));
    e_reach = Slot; e_ret = TPtr; e_params = []; e_self = None; e_slots = (S
    O); e_parsed = true; e_prelude = (Body :: []) } :: ({ e_name =
    (X73 :: (X70 :: (X69 :: (X66 :: (X5f :: (X6c :: (X69 :: (X6e :: (X6b :: (X65 :: (X64 :: (X5f :: (X6c :: (X69 :: (X73 :: (X74 :: (X5f :: (X6d :: (X61 :: (X70 :: (X5f :: (X6e :: (X65 :: (X77 :: []))))))))))))))))))))))));
    e_reach = Slot; e_ret = TPtr; e_params = []; e_self = None; e_slots = (S
    O); e_parsed = true; e_prelude = (Body :: []) } :: ({ e_name =
    (X73 :: (X70 :: (X69 :: (X66 :: (X5f :: (X6c :: (X69 :: (X6e :: (X6b :: (X65 :: (X64 :: (X5f :: (X6c :: (X69 :: (X73 :: (X74 :: (X5f :: (X69 :: (X6e :: (X69 :: (X74 :: [])))))))))))))))))))));
    e_reach = Slot; e_ret = TBool; e_params = (true :: []); e_self = (Some
    O); e_slots = (S O); e_parsed = true; e_prelude = ((Guard (GAssert,
    (O :: []), RvFalse)) :: (Body :: [])) } :: ({ e_name =
    (X73 :: (X70 :: (X69 :: (X66 :: (X5f :: (X6c :: (X69 :: (X6e :: (X6b :: (X65 :: (X64 :: (X5f :: (X6c :: (X69 :: (X73 :: (X74 :: (X5f :: (X76 :: (X65 :: (X63 :: (X74 :: (X6f :: (X72 :: (X5f :: (X69 :: (X6e :: (X69 :: (X74 :: []))))))))))))))))))))))))))));
    e_reach = Slot; e_ret = TBool; e_params = (true :: []); e_self = (Some
    O); e_slots = (S O); e_parsed = true; e_prelude = ((Guard (GAssert,
    (O :: []), RvFalse)) :: (Body :: [])) } :: ({ e_name =
    (X73 :: (X70 :: (X69 :: (X66 :: (X5f :: (X6c :: (X69 :: (X6e :: (X6b :: (X65 :: (X64 :: (X5f :: (X6c :: (X69 :: (X73 :: (X74 :: (X5f :: (X6d :: (X61 :: (X70 :: (X5f :: (X69 :: (X6e :: (X69 :: (X74 :: [])))))))))))))))))))))))));
    e_reach = Slot; e_ret = TBool; e_params = (true :: []); e_self = (Some
    O); e_slots = (S O); e_parsed = true; e_prelude = ((Guard (GAssert,
    (O :: []), RvFalse)) :: (Body :: [])) } :: ({ e_name =
    (X73 :: (X70 :: (X69 :: (X66 :: (X5f :: (X6c :: (X69 :: (X6e :: (X6b :: (X65 :: (X64 :: (X5f :: (X6c :: (X69 :: (X73 :: (X74 :: (X5f :: (X64 :: (X6f :: (X6e :: (X65 :: [])))))))))))))))))))));
    e_reach = Slot; e_ret = TBool; e_params = (true :: []); e_self = (Some
    O); e_slots = (S (S (S O))); e_parsed = true; e_prelude = ((Guard
    (GAssert, (O :: []), RvFalse)) :: (Body :: [])) } :: ({ e_name =
    (X73 :: (X70 :: (X69 :: (X66 :: (X5f :: (X6c :: (X69 :: (X6e :: (X6b :: (X65 :: (X64 :: (X5f :: (X6c :: (X69 :: (X73 :: (X74 :: (X5f :: (X64 :: (X65 :: (X6c :: []))))))))))))))))))));
    e_reach = Slot; e_ret = TBool; e_params = (true :: []); e_self = (Some
    O); e_slots = (S (S (S O))); e_parsed = true; e_prelude = ((Guard
    (GAssert, (O :: []), RvFalse)) :: (Body :: [])) } :: ({ e_name =
    (X73 :: (X70 :: (X69 :: (X66 :: (X5f :: (X6c :: (X69 :: (X6e :: (X6b :: (X65 :: (X64 :: (X5f :: (X6c :: (X69 :: (X73 :: (X74 :: (X5f :: (X73 :: (X68 :: (X6f :: (X77 :: [])))))))))))))))))))));
    e_reach = Slot; e_ret = TPtr; e_params =
    (true :: (true :: (true :: (false :: [])))); e_self = (Some O); e_slots =
    (S (S (S O))); e_parsed = true; e_prelude = ((Guard (GIf, (O :: []),
    RvHandled)) :: (Body :: [])) } :: ({ e_name =
    (X73 :: (X70 :: (X69 :: (X66 :: (X5f :: (X6c :: (X69 :: (X6e :: (X6b :: (X65 :: (X64 :: (X5f :: (X6c :: (X69 :: (X73 :: (X74 :: (X5f :: (X63 :: (X6f :: (X6d :: (X70 :: [])))))))))))))))))))));
    e_reach = Slot; e_ret = TCmp; e_params = (true :: (true :: [])); e_self =
    (Some O); e_slots = (S (S (S O))); e_parsed = true; e_prelude =
    ((CompNull (O, (S O))) :: ((Delegate
    ((X73 :: (X70 :: (X69 :: (X66 :: (X5f :: (X6f :: (X62 :: (X6a :: (X5f :: (X63 :: (X6f :: (X6d :: (X70 :: []))))))))))))),
    ((Some O) :: ((Some (S O)) :: [])), PId)) :: [])) } :: ({ e_name =
    (X73 :: (X70 :: (X69 :: (X66 :: (X5f :: (X6c :: (X69 :: (X6e :: (X6b :: (X65 :: (X64 :: (X5f :: (X6c :: (X69 :: (X73 :: (X74 :: (X5f :: (X64 :: (X75 :: (X70 :: []))))))))))))))))))));
    e_reach = Slot; e_ret = TPtr; e_params = (true :: []); e_self = (Some O);
    e_slots = (S O); e_parsed = true; e_prelude = ((Guard (GAssert,
    (O :: []), RvNull)) :: (Body :: [])) } :: ({ e_name =
    (X73 :: (X70 :: (X69 :: (X66 :: (X5f :: (X6c :: (X69 :: (X6e :: (X6b :: (X65 :: (X64 :: (X5f :: (X6c :: (X69 :: (X73 :: (X74 :: (X5f :: (X76 :: (X65 :: (X63 :: (X74 :: (X6f :: (X72 :: (X5f :: (X64 :: (X75 :: (X70 :: [])))))))))))))))))))))))))));
    e_reach = Slot; e_ret = TPtr; e_params = (true :: []); e_self = (Some O);
    e_slots = (S O); e_parsed = true; e_prelude = ((Guard (GAssert,
    (O :: []), RvNull)) :: (Body :: [])) } :: ({ e_name =
    (X73 :: (X70 :: (X69 :: (X66 :: (X5f :: (X6c :: (X69 :: (X6e :: (X6b :: (X65 :: (X64 :: (X5f :: (X6c :: (X69 :: (X73 :: (X74 :: (X5f :: (X6d :: (X61 :: (X70 :: (X5f :: (X64 :: (X75 :: (X70 :: []))))))))))))))))))))))));
    e_reach = Slot; e_ret = TPtr; e_params = (true :: []); e_self = (Some O);
    e_slots = (S O); e_parsed = true; e_prelude = ((Guard (GAssert,
    (O :: []), RvNull)) :: (Body :: [])) } :: ({ e_name =
    (X73 :: (X70 :: (X69 :: (X66 :: (X5f :: (X6c :: (X69 :: (X6e :: (X6b :: (X65 :: (X64 :: (X5f :: (X6c :: (X69 :: (X73 :: (X74 :: (X5f :: (X74 :: (X79 :: (X70 :: (X65 :: [])))))))))))))))))))));
    e_reach = Slot; e_ret = TPtr; e_params = (true :: []); e_self = (Some O);
    e_slots = (S (S (S O))); e_parsed = true; e_prelude = ((Guard (GAssert,
    (O :: []), RvNull)) :: (Body :: [])) } :: ({ e_name =
    (X73 :: (X70 :: (X69 :: (X66 :: (X5f :: (X6c :: (X69 :: (X6e :: (X6b :: (X65 :: (X64 :: (X5f :: (X6c :: (X69 :: (X73 :: (X74 :: (X5f :: (X61 :: (X70 :: (X70 :: (X65 :: (X6e :: (X64 :: [])))))))))))))))))))))));
    e_reach = Slot; e_ret = TBool; e_params = (true :: (true :: []));
    e_self = (Some O); e_slots = (S O); e_parsed = true; e_prelude = ((Guard
    (GAssert, (O :: []), RvFalse)) :: (Body :: [])) } :: ({ e_name =
    (X73 :: (X70 :: (X69 :: (X66 :: (X5f :: (X6c :: (X69 :: (X6e :: (X6b :: (X65 :: (X64 :: (X5f :: (X6c :: (X69 :: (X73 :: (X74 :: (X5f :: (X63 :: (X6f :: (X6e :: (X74 :: (X61 :: (X69 :: (X6e :: (X73 :: [])))))))))))))))))))))))));
    e_reach = Slot; e_ret = TBool; e_params = (true :: (true :: []));
    e_self = (Some O); e_slots = (S O); e_parsed = true; e_prelude = ((Guard
    (GAssert, (O :: []), RvFalse)) :: ((Delegate
    ((X73 :: (X70 :: (X69 :: (X66 :: (X5f :: (X6c :: (X69 :: (X6e :: (X6b :: (X65 :: (X64 :: (X5f :: (X6c :: (X69 :: (X73 :: (X74 :: (X5f :: (X66 :: (X69 :: (X6e :: (X64 :: []))))))))))))))))))))),
    ((Some O) :: ((Some (S O)) :: [])),
    PNullToFalse)) :: [])) } :: ({ e_name =
    (X73 :: (X70 :: (X69 :: (X66 :: (X5f :: (X6c :: (X69 :: (X6e :: (X6b :: (X65 :: (X64 :: (X5f :: (X6c :: (X69 :: (X73 :: (X74 :: (X5f :: (X76 :: (X65 :: (X63 :: (X74 :: (X6f :: (X72 :: (X5f :: (X63 :: (X6f :: (X6e :: (X74 :: (X61 :: (X69 :: (X6e :: (X73 :: []))))))))))))))))))))))))))))))));
    e_reach = Slot; e_ret = TBool; e_params = (true :: (true :: []));
    e_self = (Some O); e_slots = (S O); e_parsed = true; e_prelude = ((Guard
    (GAssert, (O :: []), RvFalse)) :: ((Delegate
    ((X73 :: (X70 :: (X69 :: (X66 :: (X5f :: (X6c :: (X69 :: (X6e :: (X6b :: (X65 :: (X64 :: (X5f :: (X6c :: (X69 :: (X73 :: (X74 :: (X5f :: (X76 :: (X65 :: (X63 :: (X74 :: (X6f :: (X72 :: (X5f :: (X66 :: (X69 :: (X6e :: (X64 :: [])))))))))))))))))))))))))))),
    ((Some O) :: ((Some (S O)) :: [])),
    PNullToFalse)) :: [])) } :: ({ e_name =
    (X73 :: (X70 :: (X69 :: (X66 :: (X5f :: (X6c :: (X69 :: (X6e :: (X6b :: (X65 :: (X64 :: (X5f :: (X6c :: (X69 :: (X73 :: (X74 :: (X5f :: (X63 :: (X6f :: (X75 :: (X6e :: (X74 :: []))))))))))))))))))))));
    e_reach = Slot; e_ret = TInt; e_params = (true :: []); e_self = (Some O);
    e_slots = (S (S (S O))); e_parsed = true; e_prelude = ((Guard (GAssert,
    (O :: []), RvZero)) :: (Body :: [])) } :: ({ e_name =
    (X73 :: (X70 :: (X69 :: (X66 :: (X5f :: (X6c :: (X69 :: (X6e :: (X6b :: (X65 :: (X64 :: (X5f :: (X6c :: (X69 :: (X73 :: (X74 :: (X5f :: (X66 :: (X69 :: (X6e :: (X64 :: [])))))))))))))))))))));
    e_reach = Slot; e_ret = TPtr; e_params = (true :: (true :: [])); e_self =
    (Some O); e_slots = (S O); e_parsed = true; e_prelude = ((Guard (GAssert,
    (O :: []), RvNull)) :: ((Guard (GRequire, ((S O) :: []),
    RvNull)) :: (Body :: []))) } :: ({ e_name =
    (X73 :: (X70 :: (X69 :: (X66 :: (X5f :: (X6c :: (X69 :: (X6e :: (X6b :: (X65 :: (X64 :: (X5f :: (X6c :: (X69 :: (X73 :: (X74 :: (X5f :: (X76 :: (X65 :: (X63 :: (X74 :: (X6f :: (X72 :: (X5f :: (X66 :: (X69 :: (X6e :: (X64 :: []))))))))))))))))))))))))))));
    e_reach = Slot; e_ret = TPtr; e_params = (true :: (true :: [])); e_self =
    (Some O); e_slots = (S O); e_parsed = true; e_prelude = ((Guard (GAssert,
    (O :: []), RvNull)) :: ((Guard (GRequire, ((S O) :: []),
    RvNull)) :: (Body :: []))) } :: ({ e_name =
    (X73 :: (X70 :: (X69 :: (X66 :: (X5f :: (X6c :: (X69 :: (X6e :: (X6b :: (X65 :: (X64 :: (X5f :: (X6c :: (X69 :: (X73 :: (X74 :: (X5f :: (X67 :: (X65 :: (X74 :: []))))))))))))))))))));
    e_reach = Slot; e_ret = TPtr; e_params = (true :: (false :: []));
    e_self = (Some O); e_slots = (S O); e_parsed = true; e_prelude = ((Guard
    (GAssert, (O :: []), RvNull)) :: (Body :: [])) } :: ({ e_name =
    (X73 :: (X70 :: (X69 :: (X66 :: (X5f :: (X6c :: (X69 :: (X6e :: (X6b :: (X65 :: (X64 :: (X5f :: (X6c :: (X69 :: (X73 :: (X74 :: (X5f :: (X6d :: (X61 :: (X70 :: (X5f :: (X67 :: (X65 :: (X74 :: []))))))))))))))))))))))));
    e_reach = Slot; e_ret = TPtr; e_params = (true :: (true :: [])); e_self =
    (Some O); e_slots = (S O); e_parsed = true; e_prelude = ((Guard (GAssert,
    (O :: []), RvNull)) :: ((Guard (GRequire, ((S O) :: []),
    RvNull)) :: (Body :: []))) } :: ({ e_name =
    (X73 :: (X70 :: (X69 :: (X66 :: (X5f :: (X6c :: (X69 :: (X6e :: (X6b :: (X65 :: (X64 :: (X5f :: (X6c :: (X69 :: (X73 :: (X74 :: (X5f :: (X67 :: (X65 :: (X74 :: (X5f :: (X6b :: (X65 :: (X79 :: (X73 :: [])))))))))))))))))))))))));
    e_reach = Slot; e_ret = TPtr; e_params = (true :: (true :: [])); e_self =
    (Some O); e_slots = (S O); e_parsed = true; e_prelude = ((Guard (GAssert,
    (O :: []), RvNull)) :: (Body :: [])) } :: ({ e_name =
    (X73 :: (X70 :: (X69 :: (X66 :: (X5f :: (X6c :: (X69 :: (X6e :: (X6b :: (X65 :: (X64 :: (X5f :: (X6c :: (X69 :: (X73 :: (X74 :: (X5f :: (X67 :: (X65 :: (X74 :: (X5f :: (X70 :: (X61 :: (X69 :: (X72 :: (X73 :: []))))))))))))))))))))))))));
    e_reach = Slot; e_ret = TPtr; e_params = (true :: (true :: [])); e_self =
    (Some O); e_slots = (S O); e_parsed = true; e_prelude = ((Guard (GAssert,
    (O :: []), RvNull)) :: (Body :: [])) } :: ({ e_name =
    (X73 :: (X70 :: (X69 :: (X66 :: (X5f :: (X6c :: (X69 :: (X6e :: (X6b :: (X65 :: (X64 :: (X5f :: (X6c :: (X69 :: (X73 :: (X74 :: (X5f :: (X67 :: (X65 :: (X74 :: (X5f :: (X76 :: (X61 :: (X6c :: (X75 :: (X65 :: (X73 :: [])))))))))))))))))))))))))));
    e_reach = Slot; e_ret = TPtr; e_params = (true :: (true :: [])); e_self =
    (Some O); e_slots = (S O); e_parsed = true; e_prelude = ((Guard (GAssert,
    (O :: []), RvNull)) :: (Body :: [])) } :: ({ e_name =
    (X73 :: (X70 :: (X69 :: (X66 :: (X5f :: (X6c :: (X69 :: (X6e :: (X6b :: (X65 :: (X64 :: (X5f :: (X6c :: (X69 :: (X73 :: (X74 :: (X5f :: (X68 :: (X61 :: (X73 :: (X5f :: (X6b :: (X65 :: (X79 :: []))))))))))))))))))))))));
    e_reach = Slot; e_ret = TBool; e_params = (true :: (true :: []));
    e_self = (Some O); e_slots = (S O); e_parsed = true; e_prelude =
    ((Delegate
    ((X73 :: (X70 :: (X69 :: (X66 :: (X5f :: (X6c :: (X69 :: (X6e :: (X6b :: (X65 :: (X64 :: (X5f :: (X6c :: (X69 :: (X73 :: (X74 :: (X5f :: (X6d :: (X61 :: (X70 :: (X5f :: (X67 :: (X65 :: (X74 :: [])))))))))))))))))))))))),
    ((Some O) :: ((Some (S O)) :: [])),
    PNullToFalse)) :: []) } :: ({ e_name =
    (X73 :: (X70 :: (X69 :: (X66 :: (X5f :: (X6c :: (X69 :: (X6e :: (X6b :: (X65 :: (X64 :: (X5f :: (X6c :: (X69 :: (X73 :: (X74 :: (X5f :: (X68 :: (X61 :: (X73 :: (X5f :: (X76 :: (X61 :: (X6c :: (X75 :: (X65 :: []))))))))))))))))))))))))));
    e_reach = Slot; e_ret = TBool; e_params = (true :: (true :: []));
    e_self = (Some O); e_slots = (S O); e_parsed = true; e_prelude = ((Guard
    (GAssert, (O :: []), RvFalse)) :: (Body :: [])) } :: ({ e_name =
    (X73 :: (X70 :: (X69 :: (X66 :: (X5f :: (X6c :: (X69 :: (X6e :: (X6b :: (X65 :: (X64 :: (X5f :: (X6c :: (X69 :: (X73 :: (X74 :: (X5f :: (X69 :: (X6e :: (X64 :: (X65 :: (X78 :: []))))))))))))))))))))));
    e_reach = Slot; e_ret = TInt; e_params = (true :: (true :: [])); e_self =
    (Some O); e_slots = (S O); e_parsed = true; e_prelude = ((Guard (GAssert,
    (O :: []), RvNeg1)) :: (Body :: [])) } :: ({ e_name =
    (X73 :: (X70 :: (X69 :: (X66 :: (X5f :: (X6c :: (X69 :: (X6e :: (X6b :: (X65 :: (X64 :: (X5f :: (X6c :: (X69 :: (X73 :: (X74 :: (X5f :: (X69 :: (X6e :: (X73 :: (X65 :: (X72 :: (X74 :: [])))))))))))))))))))))));
    e_reach = Slot; e_ret = TBool; e_params = (true :: (true :: []));
    e_self = (Some O); e_slots = (S (S O)); e_parsed = true; e_prelude =
    ((Guard (GAssert, (O :: []), RvFalse)) :: (Body :: [])) } :: ({ e_name =
    (X73 :: (X70 :: (X69 :: (X66 :: (X5f :: (X6c :: (X69 :: (X6e :: (X6b :: (X65 :: (X64 :: (X5f :: (X6c :: (X69 :: (X73 :: (X74 :: (X5f :: (X69 :: (X6e :: (X73 :: (X65 :: (X72 :: (X74 :: (X5f :: (X61 :: (X74 :: []))))))))))))))))))))))))));
    e_reach = Slot; e_ret = TBool; e_params =
    (true :: (true :: (false :: []))); e_self = (Some O); e_slots = (S O);
    e_parsed = true; e_prelude = ((Guard (GAssert, (O :: []),
    RvFalse)) :: (Body :: [])) } :: ({ e_name =
    (X73 :: (X70 :: (X69 :: (X66 :: (X5f :: (X6c :: (X69 :: (X6e :: (X6b :: (X65 :: (X64 :: (X5f :: (X6c :: (X69 :: (X73 :: (X74 :: (X5f :: (X69 :: (X74 :: (X65 :: (X72 :: (X61 :: (X74 :: (X6f :: (X72 :: [])))))))))))))))))))))))));
    e_reach = Slot; e_ret = TPtr; e_params = (true :: []); e_self = (Some O);
    e_slots = (S (S (S O))); e_parsed = true; e_prelude = ((Guard (GAssert,
    (O :: []), RvNull)) :: ((Delegate
    ((X73 :: (X70 :: (X69 :: (X66 :: (X5f :: (X6c :: (X69 :: (X6e :: (X6b :: (X65 :: (X64 :: (X5f :: (X6c :: (X69 :: (X73 :: (X74 :: (X5f :: (X69 :: (X74 :: (X65 :: (X72 :: (X61 :: (X74 :: (X6f :: (X72 :: (X5f :: (X6e :: (X65 :: (X77 :: []))))))))))))))))))))))))))))),
    ((Some O) :: []), PId)) :: [])) } :: ({ e_name =
    (X73 :: (X70 :: (X69 :: (X66 :: (X5f :: (X6c :: (X69 :: (X6e :: (X6b :: (X65 :: (X64 :: (X5f :: (X6c :: (X69 :: (X73 :: (X74 :: (X5f :: (X70 :: (X72 :: (X65 :: (X70 :: (X65 :: (X6e :: (X64 :: []))))))))))))))))))))))));
    e_reach = Slot; e_ret = TBool; e_params = (true :: (true :: []));
    e_self = (Some O); e_slots = (S O); e_parsed = true; e_prelude = ((Guard
    (GAssert, (O :: []), RvFalse)) :: (Body :: [])) } :: ({ e_name =
    (X73 :: (X70 :: (X69 :: (X66 :: (X5f :: (X6c :: (X69 :: (X6e :: (X6b :: (X65 :: (X64 :: (X5f :: (X6c :: (X69 :: (X73 :: (X74 :: (X5f :: (X72 :: (X65 :: (X6d :: (X6f :: (X76 :: (X65 :: [])))))))))))))))))))))));
    e_reach = Slot; e_ret = TPtr; e_params = (true :: (true :: [])); e_self =
    (Some O); e_slots = (S (S O)); e_parsed = true; e_prelude = ((Guard
    (GAssert, (O :: []), RvNull)) :: ((Guard (GRequire, ((S O) :: []),
    RvNull)) :: (Body :: []))) } :: ({ e_name =
    (X73 :: (X70 :: (X69 :: (X66 :: (X5f :: (X6c :: (X69 :: (X6e :: (X6b :: (X65 :: (X64 :: (X5f :: (X6c :: (X69 :: (X73 :: (X74 :: (X5f :: (X6d :: (X61 :: (X70 :: (X5f :: (X72 :: (X65 :: (X6d :: (X6f :: (X76 :: (X65 :: [])))))))))))))))))))))))))));
    e_reach = Slot; e_ret = TPtr; e_params = (true :: (true :: [])); e_self =
    (Some O); e_slots = (S O); e_parsed = true; e_prelude = ((Guard (GAssert,
    (O :: []), RvNull)) :: ((Guard (GRequire, ((S O) :: []),
    RvNull)) :: (Body :: []))) } :: ({ e_name =
    (X73 :: (X70 :: (X69 :: (X66 :: (X5f :: (X6c :: (X69 :: (X6e :: (X6b :: (X65 :: (X64 :: (X5f :: (X6c :: (X69 :: (X73 :: (X74 :: (X5f :: (X72 :: (X65 :: (X6d :: (X6f :: (X76 :: (X65 :: (X5f :: (X61 :: (X74 :: []))))))))))))))))))))))))));
    e_reach = Slot; e_ret = TPtr; e_params = (true :: (false :: []));
    e_self = (Some O); e_slots = (S O); e_parsed = true; e_prelude = ((Guard
    (GAssert, (O :: []), RvNull)) :: (Body :: [])) } :: ({ e_name =
    (X73 :: (X70 :: (X69 :: (X66 :: (X5f :: (X6c :: (X69 :: (X6e :: (X6b :: (X65 :: (X64 :: (X5f :: (X6c :: (X69 :: (X73 :: (X74 :: (X5f :: (X72 :: (X65 :: (X76 :: (X65 :: (X72 :: (X73 :: (X65 :: []))))))))))))))))))))))));
    e_reach = Slot; e_ret = TBool; e_params = (true :: []); e_self = (Some
    O); e_slots = (S O); e_parsed = true; e_prelude = ((Guard (GAssert,
    (O :: []), RvFalse)) :: (Body :: [])) } :: ({ e_name =
    (X73 :: (X70 :: (X69 :: (X66 :: (X5f :: (X6c :: (X69 :: (X6e :: (X6b :: (X65 :: (X64 :: (X5f :: (X6c :: (X69 :: (X73 :: (X74 :: (X5f :: (X73 :: (X65 :: (X74 :: []))))))))))))))))))));
    e_reach = Slot; e_ret = TBool; e_params =
    (true :: (true :: (true :: []))); e_self = (Some O); e_slots = (S O);
    e_parsed = true; e_prelude = ((Guard (GAssert, (O :: []),
    RvFalse)) :: ((Guard (GRequire, ((S O) :: []),
    RvFalse)) :: (Body :: []))) } :: ({ e_name =
    (X73 :: (X70 :: (X69 :: (X66 :: (X5f :: (X6c :: (X69 :: (X6e :: (X6b :: (X65 :: (X64 :: (X5f :: (X6c :: (X69 :: (X73 :: (X74 :: (X5f :: (X74 :: (X6f :: (X5f :: (X61 :: (X72 :: (X72 :: (X61 :: (X79 :: [])))))))))))))))))))))))));
    e_reach = Slot; e_ret = TPtr; e_params = (true :: []); e_self = (Some O);
    e_slots = (S (S O)); e_parsed = true; e_prelude = ((Guard (GAssert,
    (O :: []), RvNull)) :: (Body :: [])) } :: ({ e_name =
    (X73 :: (X70 :: (X69 :: (X66 :: (X5f :: (X6c :: (X69 :: (X6e :: (X6b :: (X65 :: (X64 :: (X5f :: (X6c :: (X69 :: (X73 :: (X74 :: (X5f :: (X67 :: (X65 :: (X74 :: (X5f :: (X6c :: (X65 :: (X6e :: []))))))))))))))))))))))));
    e_reach = Exported; e_ret = TInt; e_params = (true :: []); e_self = (Some
    O); e_slots = O; e_parsed = true; e_prelude =
    (Body :: []) } :: ({ e_name =
    (X73 :: (X70 :: (X69 :: (X66 :: (X5f :: (X6c :: (X69 :: (X6e :: (X6b :: (X65 :: (X64 :: (X5f :: (X6c :: (X69 :: (X73 :: (X74 :: (X5f :: (X73 :: (X65 :: (X74 :: (X5f :: (X6c :: (X65 :: (X6e :: []))))))))))))))))))))))));
    e_reach = Exported; e_ret = TInt; e_params = (true :: (false :: []));
    e_self = (Some O); e_slots = O; e_parsed = true; e_prelude =
    (Body :: []) } :: ({ e_name =
    (X73 :: (X70 :: (X69 :: (X66 :: (X5f :: (X6c :: (X69 :: (X6e :: (X6b :: (X65 :: (X64 :: (X5f :: (X6c :: (X69 :: (X73 :: (X74 :: (X5f :: (X67 :: (X65 :: (X74 :: (X5f :: (X68 :: (X65 :: (X61 :: (X64 :: [])))))))))))))))))))))))));
    e_reach = Exported; e_ret = TPtr; e_params = (true :: []); e_self = (Some
    O); e_slots = O; e_parsed = true; e_prelude =
    (Body :: []) } :: ({ e_name =
    (X73 :: (X70 :: (X69 :: (X66 :: (X5f :: (X6c :: (X69 :: (X6e :: (X6b :: (X65 :: (X64 :: (X5f :: (X6c :: (X69 :: (X73 :: (X74 :: (X5f :: (X73 :: (X65 :: (X74 :: (X5f :: (X68 :: (X65 :: (X61 :: (X64 :: [])))))))))))))))))))))))));
    e_reach = Exported; e_ret = TInt; e_params = (true :: (true :: []));
    e_self = (Some O); e_slots = O; e_parsed = true; e_prelude =
    (Body :: []) } :: ({ e_name =
    (X73 :: (X70 :: (X69 :: (X66 :: (X5f :: (X6c :: (X69 :: (X6e :: (X6b :: (X65 :: (X64 :: (X5f :: (X6c :: (X69 :: (X73 :: (X74 :: (X5f :: (X69 :: (X74 :: (X65 :: (X72 :: (X61 :: (X74 :: (X6f :: (X72 :: (X5f :: (X6e :: (X65 :: (X77 :: [])))))))))))))))))))))))))))));
    e_reach = Slot; e_ret = TPtr; e_params = (true :: []); e_self = None;
    e_slots = (S O); e_parsed = true; e_prelude =
    (Body :: []) } :: ({ e_name =
    (X73 :: (X70 :: (X69 :: (X66 :: (X5f :: (X6c :: (X69 :: (X6e :: (X6b :: (X65 :: (X64 :: (X5f :: (X6c :: (X69 :: (X73 :: (X74 :: (X5f :: (X69 :: (X74 :: (X65 :: (X72 :: (X61 :: (X74 :: (X6f :: (X72 :: (X5f :: (X69 :: (X6e :: (X69 :: (X74 :: []))))))))))))))))))))))))))))));
    e_reach = Slot; e_ret = TBool; e_params = (true :: (true :: []));
    e_self = (Some O); e_slots = (S O); e_parsed = true; e_prelude = ((Guard
    (GAssert, (O :: []), RvFalse)) :: (Body :: [])) } :: ({ e_name =
    (X73 :: (X70 :: (X69 :: (X66 :: (X5f :: (X6c :: (X69 :: (X6e :: (X6b :: (X65 :: (X64 :: (X5f :: (X6c :: (X69 :: (X73 :: (X74 :: (X5f :: (X69 :: (X74 :: (X65 :: (X72 :: (X61 :: (X74 :: (X6f :: (X72 :: (X5f :: (X64 :: (X6f :: (X6e :: (X65 :: []))))))))))))))))))))))))))))));
    e_reach = Slot; e_ret = TBool; e_params = (true :: []); e_self = (Some
    O); e_slots = (S O); e_parsed = true; e_prelude = ((Guard (GAssert,
    (O :: []), RvFalse)) :: (Body :: [])) } :: ({ e_name =
    (X73 :: (X70 :: (X69 :: (X66 :: (X5f :: (X6c :: (X69 :: (X6e :: (X6b :: (X65 :: (X64 :: (X5f :: (X6c :: (X69 :: (X73 :: (X74 :: (X5f :: (X69 :: (X74 :: (X65 :: (X72 :: (X61 :: (X74 :: (X6f :: (X72 :: (X5f :: (X64 :: (X65 :: (X6c :: [])))))))))))))))))))))))))))));
    e_reach = Slot; e_ret = TBool; e_params = (true :: []); e_self = (Some
    O); e_slots = (S O); e_parsed = true; e_prelude = ((Guard (GAssert,
    (O :: []), RvFalse)) :: (Body :: [])) } :: ({ e_name =
    (X73 :: (X70 :: (X69 :: (X66 :: (X5f :: (X6c :: (X69 :: (X6e :: (X6b :: (X65 :: (X64 :: (X5f :: (X6c :: (X69 :: (X73 :: (X74 :: (X5f :: (X69 :: (X74 :: (X65 :: (X72 :: (X61 :: (X74 :: (X6f :: (X72 :: (X5f :: (X73 :: (X68 :: (X6f :: (X77 :: []))))))))))))))))))))))))))))));
    e_reach = Slot; e_ret = TPtr; e_params =
    (true :: (true :: (true :: (false :: [])))); e_self = (Some O); e_slots =
    (S O); e_parsed = true; e_prelude = ((Guard (GIf, (O :: []),
    RvHandled)) :: (Body :: [])) } :: ({ e_name =
    (X73 :: (X70 :: (X69 :: (X66 :: (X5f :: (X6c :: (X69 :: (X6e :: (X6b :: (X65 :: (X64 :: (X5f :: (X6c :: (X69 :: (X73 :: (X74 :: (X5f :: (X69 :: (X74 :: (X65 :: (X72 :: (X61 :: (X74 :: (X6f :: (X72 :: (X5f :: (X63 :: (X6f :: (X6d :: (X70 :: []))))))))))))))))))))))))))))));
    e_reach = Slot; e_ret = TCmp; e_params = (true :: (true :: [])); e_self =
    (Some O); e_slots = (S O); e_parsed = true; e_prelude = ((CompNull (O, (S
    O))) :: ((Deref O) :: ((Deref (S O)) :: ((Guard (GRequire, [],
    RvOther)) :: ((Deref O) :: ((Deref (S O)) :: ((Delegate
    ((X73 :: (X70 :: (X69 :: (X66 :: (X5f :: (X6c :: (X69 :: (X6e :: (X6b :: (X65 :: (X64 :: (X5f :: (X6c :: (X69 :: (X73 :: (X74 :: (X5f :: (X63 :: (X6f :: (X6d :: (X70 :: []))))))))))))))))))))),
    (None :: (None :: [])), PId)) :: []))))))) } :: ({ e_name =
    (X73 :: (X70 :: (X69 :: (X66 :: (X5f :: (X6c :: (X69 :: (X6e :: (X6b :: (X65 :: (X64 :: (X5f :: (X6c :: (X69 :: (X73 :: (X74 :: (X5f :: (X69 :: (X74 :: (X65 :: (X72 :: (X61 :: (X74 :: (X6f :: (X72 :: (X5f :: (X64 :: (X75 :: (X70 :: [])))))))))))))))))))))))))))));
    e_reach = Slot; e_ret = TPtr; e_params = (true :: []); e_self = (Some O);
    e_slots = (S O); e_parsed = true; e_prelude = ((Guard (GAssert,
    (O :: []), RvNull)) :: (Body :: [])) } :: ({ e_name =
    (X73 :: (X70 :: (X69 :: (X66 :: (X5f :: (X6c :: (X69 :: (X6e :: (X6b :: (X65 :: (X64 :: (X5f :: (X6c :: (X69 :: (X73 :: (X74 :: (X5f :: (X69 :: (X74 :: (X65 :: (X72 :: (X61 :: (X74 :: (X6f :: (X72 :: (X5f :: (X74 :: (X79 :: (X70 :: (X65 :: []))))))))))))))))))))))))))))));
    e_reach = Slot; e_ret = TPtr; e_params = (true :: []); e_self = (Some O);
    e_slots = (S O); e_parsed = true; e_prelude = ((Guard (GAssert,
    (O :: []), RvNull)) :: (Body :: [])) } :: ({ e_name =
    (X73 :: (X70 :: (X69 :: (X66 :: (X5f :: (X6c :: (X69 :: (X6e :: (X6b :: (X65 :: (X64 :: (X5f :: (X6c :: (X69 :: (X73 :: (X74 :: (X5f :: (X69 :: (X74 :: (X65 :: (X72 :: (X61 :: (X74 :: (X6f :: (X72 :: (X5f :: (X68 :: (X61 :: (X73 :: (X5f :: (X6e :: (X65 :: (X78 :: (X74 :: []))))))))))))))))))))))))))))))))));
    e_reach = Slot; e_ret = TBool; e_params = (true :: []); e_self = (Some
    O); e_slots = (S O); e_parsed = true; e_prelude = ((Guard (GAssert,
    (O :: []), RvFalse)) :: (Body :: [])) } :: ({ e_name =
    (X73 :: (X70 :: (X69 :: (X66 :: (X5f :: (X6c :: (X69 :: (X6e :: (X6b :: (X65 :: (X64 :: (X5f :: (X6c :: (X69 :: (X73 :: (X74 :: (X5f :: (X69 :: (X74 :: (X65 :: (X72 :: (X61 :: (X74 :: (X6f :: (X72 :: (X5f :: (X6e :: (X65 :: (X78 :: (X74 :: []))))))))))))))))))))))))))))));
    e_reach = Slot; e_ret = TPtr; e_params = (true :: []); e_self = (Some O);
    e_slots = (S O); e_parsed = true; e_prelude = ((Guard (GAssert,
    (O :: []), RvNull)) :: ((Deref O) :: ((Guard (GRequire, [],
    RvNull)) :: ((Deref O) :: ((Guard (GRequire, [],
    RvNull)) :: (Body :: [])))))) } :: ({ e_name =
    (X73 :: (X70 :: (X69 :: (X66 :: (X5f :: (X6c :: (X69 :: (X6e :: (X6b :: (X65 :: (X64 :: (X5f :: (X6c :: (X69 :: (X73 :: (X74 :: (X5f :: (X69 :: (X74 :: (X65 :: (X72 :: (X61 :: (X74 :: (X6f :: (X72 :: (X5f :: (X67 :: (X65 :: (X74 :: (X5f :: (X73 :: (X75 :: (X62 :: (X6a :: (X65 :: (X63 :: (X74 :: [])))))))))))))))))))))))))))))))))))));
    e_reach = Exported; e_ret = TPtr; e_params = (true :: []); e_self = (Some
    O); e_slots = O; e_parsed = true; e_prelude =
    (Body :: []) } :: ({ e_name =
    (X73 :: (X70 :: (X69 :: (X66 :: (X5f :: (X6c :: (X69 :: (X6e :: (X6b :: (X65 :: (X64 :: (X5f :: (X6c :: (X69 :: (X73 :: (X74 :: (X5f :: (X69 :: (X74 :: (X65 :: (X72 :: (X61 :: (X74 :: (X6f :: (X72 :: (X5f :: (X73 :: (X65 :: (X74 :: (X5f :: (X73 :: (X75 :: (X62 :: (X6a :: (X65 :: (X63 :: (X74 :: [])))))))))))))))))))))))))))))))))))));
    e_reach = Exported; e_ret = TInt; e_params = (true :: (true :: []));
    e_self = (Some O); e_slots = O; e_parsed = true; e_prelude =
    (Body :: []) } :: ({ e_name =
    (X73 :: (X70 :: (X69 :: (X66 :: (X5f :: (X6c :: (X69 :: (X6e :: (X6b :: (X65 :: (X64 :: (X5f :: (X6c :: (X69 :: (X73 :: (X74 :: (X5f :: (X69 :: (X74 :: (X65 :: (X72 :: (X61 :: (X74 :: (X6f :: (X72 :: (X5f :: (X67 :: (X65 :: (X74 :: (X5f :: (X63 :: (X75 :: (X72 :: (X72 :: (X65 :: (X6e :: (X74 :: [])))))))))))))))))))))))))))))))))))));
    e_reach = Exported; e_ret = TPtr; e_params = (true :: []); e_self = (Some
    O); e_slots = O; e_parsed = true; e_prelude =
    (Body :: []) } :: ({ e_name =
    (X73 :: (X70 :: (X69 :: (X66 :: (X5f :: (X6c :: (X69 :: (X6e :: (X6b :: (X65 :: (X64 :: (X5f :: (X6c :: (X69 :: (X73 :: (X74 :: (X5f :: (X69 :: (X74 :: (X65 :: (X72 :: (X61 :: (X74 :: (X6f :: (X72 :: (X5f :: (X73 :: (X65 :: (X74 :: (X5f :: (X63 :: (X75 :: (X72 :: (X72 :: (X65 :: (X6e :: (X74 :: [])))))))))))))))))))))))))))))))))))));
    e_reach = Exported; e_ret = TInt; e_params = (true :: (true :: []));
    e_self = (Some O); e_slots = O; e_parsed = true; e_prelude =
    (Body :: []) } :: ({ e_name =
    (X73 :: (X70 :: (X69 :: (X66 :: (X5f :: (X64 :: (X6c :: (X69 :: (X6e :: (X6b :: (X65 :: (X64 :: (X5f :: (X6c :: (X69 :: (X73 :: (X74 :: (X5f :: (X69 :: (X74 :: (X65 :: (X6d :: (X5f :: (X6e :: (X65 :: (X77 :: []))))))))))))))))))))))))));
    e_reach = Slot; e_ret = TPtr; e_params = []; e_self = None; e_slots = (S
    O); e_parsed = true; e_prelude = (Body :: []) } :: ({ e_name =
    (X73 :: (X70 :: (X69 :: (X66 :: (X5f :: (X64 :: (X6c :: (X69 :: (X6e :: (X6b :: (X65 :: (X64 :: (X5f :: (X6c :: (X69 :: (X73 :: (X74 :: (X5f :: (X69 :: (X74 :: (X65 :: (X6d :: (X5f :: (X69 :: (X6e :: (X69 :: (X74 :: [])))))))))))))))))))))))))));
    e_reach = Slot; e_ret = TBool; e_params = (true :: []); e_self = (Some
    O); e_slots = (S O); e_parsed = true; e_prelude = ((Guard (GAssert,
    (O :: []), RvFalse)) :: (Body :: [])) } :: ({ e_name =
    (X73 :: (X70 :: (X69 :: (X66 :: (X5f :: (X64 :: (X6c :: (X69 :: (X6e :: (X6b :: (X65 :: (X64 :: (X5f :: (X6c :: (X69 :: (X73 :: (X74 :: (X5f :: (X69 :: (X74 :: (X65 :: (X6d :: (X5f :: (X64 :: (X6f :: (X6e :: (X65 :: [])))))))))))))))))))))))))));
    e_reach = Slot; e_ret = TBool; e_params = (true :: []); e_self = (Some
    O); e_slots = (S O); e_parsed = true; e_prelude = ((Guard (GAssert,
    (O :: []), RvFalse)) :: (Body :: [])) } :: ({ e_name =
    (X73 :: (X70 :: (X69 :: (X66 :: (X5f :: (X64 :: (X6c :: (X69 :: (X6e :: (X6b :: (X65 :: (X64 :: (X5f :: (X6c :: (X69 :: (X73 :: (X74 :: (X5f :: (X69 :: (X74 :: (X65 :: (X6d :: (X5f :: (X64 :: (X65 :: (X6c :: []))))))))))))))))))))))))));
    e_reach = Slot; e_ret = TBool; e_params = (true :: []); e_self = (Some
    O); e_slots = (S O); e_parsed = true; e_prelude = ((Guard (GAssert,
    (O :: []), RvFalse)) :: (Body :: [])) } :: ({ e_name =
    (X73 :: (X70 :: (X69 :: (X66 :: (X5f :: (X64 :: (X6c :: (X69 :: (X6e :: (X6b :: (X65 :: (X64 :: (X5f :: (X6c :: (X69 :: (X73 :: (X74 :: (X5f :: (X69 :: (X74 :: (X65 :: (X6d :: (X5f :: (X73 :: (X68 :: (X6f :: (X77 :: [])))))))))))))))))))))))))));
    e_reach = Slot; e_ret = TPtr; e_params =
    (true :: (true :: (true :: (false :: [])))); e_self = (Some O); e_slots =
    (S O); e_parsed = true; e_prelude = ((Guard (GIf, (O :: []),
    RvHandled)) :: (Body :: [])) } :: ({ e_name =
    (X73 :: (X70 :: (X69 :: (X66 :: (X5f :: (X64 :: (X6c :: (X69 :: (X6e :: (X6b :: (X65 :: (X64 :: (X5f :: (X6c :: (X69 :: (X73 :: (X74 :: (X5f :: (X69 :: (X74 :: (X65 :: (X6d :: (X5f :: (X63 :: (X6f :: (X6d :: (X70 :: [])))))))))))))))))))))))))));
    e_reach = Slot; e_ret = TCmp; e_params = (true :: (true :: [])); e_self =
    (Some O); e_slots = (S O); e_parsed = true; e_prelude = ((CompNull (O, (S
    O))) :: ((Deref O) :: ((Deref (S O)) :: ((Guard (GRequire, [],
    RvOther)) :: (Body :: []))))) } :: ({ e_name =
    (X73 :: (X70 :: (X69 :: (X66 :: (X5f :: (X64 :: (X6c :: (X69 :: (X6e :: (X6b :: (X65 :: (X64 :: (X5f :: (X6c :: (X69 :: (X73 :: (X74 :: (X5f :: (X69 :: (X74 :: (X65 :: (X6d :: (X5f :: (X64 :: (X75 :: (X70 :: []))))))))))))))))))))))))));
    e_reach = Slot; e_ret = TPtr; e_params = (true :: []); e_self = (Some O);
    e_slots = (S O); e_parsed = true; e_prelude = ((Guard (GAssert,
    (O :: []), RvNull)) :: (Body :: [])) } :: ({ e_name =
    (X73 :: (X70 :: (X69 :: (X66 :: (X5f :: (X64 :: (X6c :: (X69 :: (X6e :: (X6b :: (X65 :: (X64 :: (X5f :: (X6c :: (X69 :: (X73 :: (X74 :: (X5f :: (X69 :: (X74 :: (X65 :: (X6d :: (X5f :: (X74 :: (X79 :: (X70 :: (X65 :: [])))))))))))))))))))))))))));
    e_reach = Slot; e_ret = TPtr; e_params = (true :: []); e_self = (Some O);
    e_slots = (S O); e_parsed = true; e_prelude = ((Guard (GAssert,
    (O :: []), RvNull)) :: (Body :: [])) } :: ({ e_name =
    (X73 :: (X70 :: (X69 :: (X66 :: (X5f :: (X64 :: (X6c :: (X69 :: (X6e :: (X6b :: (X65 :: (X64 :: (X5f :: (X6c :: (X69 :: (X73 :: (X74 :: (X5f :: (X69 :: (X74 :: (X65 :: (X6d :: (X5f :: (X67 :: (X65 :: (X74 :: (X5f :: (X64 :: (X61 :: (X74 :: (X61 :: [])))))))))))))))))))))))))))))));
    e_reach = Exported; e_ret = TPtr; e_params = (true :: []); e_self = (Some
    O); e_slots = O; e_parsed = true; e_prelude =
    (Body :: []) } :: ({ e_name =
    (X73 :: (X70 :: (X69 :: (X66 :: (X5f :: (X64 :: (X6c :: (X69 :: (X6e :: (X6b :: (X65 :: (X64 :: (X5f :: (X6c :: (X69 :: (X73 :: (X74 :: (X5f :: (X69 :: (X74 :: (X65 :: (X6d :: (X5f :: (X73 :: (X65 :: (X74 :: (X5f :: (X64 :: (X61 :: (X74 :: (X61 :: [])))))))))))))))))))))))))))))));
    e_reach = Exported; e_ret = TInt; e_params = (true :: (true :: []));
    e_self = (Some O); e_slots = O; e_parsed = true; e_prelude =
    (Body :: []) } :: ({ e_name =
    (X73 :: (X70 :: (X69 :: (X66 :: (X5f :: (X64 :: (X6c :: (X69 :: (X6e :: (X6b :: (X65 :: (X64 :: (X5f :: (X6c :: (X69 :: (X73 :: (X74 :: (X5f :: (X69 :: (X74 :: (X65 :: (X6d :: (X5f :: (X67 :: (X65 :: (X74 :: (X5f :: (X70 :: (X72 :: (X65 :: (X76 :: [])))))))))))))))))))))))))))))));
    e_reach = Exported; e_ret = TPtr; e_params = (true :: []); e_self = (Some
    O); e_slots = O; e_parsed = true; e_prelude =
    (Body :: []) } :: ({ e_name =
    (X73 :: (X70 :: (X69 :: (X66 :: (X5f :: (X64 :: (X6c :: (X69 :: (X6e :: (X6b :: (X65 :: (X64 :: (X5f :: (X6c :: (X69 :: (X73 :: (X74 :: (X5f :: (X69 :: (X74 :: (X65 :: (X6d :: (X5f :: (X73 :: (X65 :: (X74 :: (X5f :: (X70 :: (X72 :: (X65 :: (X76 :: [])))))))))))))))))))))))))))))));
    e_reach = Exported; e_ret = TInt; e_params = (true :: (true :: []));
    e_self = (Some O); e_slots = O; e_parsed = true; e_prelude =
    (Body :: []) } :: ({ e_name =
    (X73 :: (X70 :: (X69 :: (X66 :: (X5f :: (X64 :: (X6c :: (X69 :: (X6e :: (X6b :: (X65 :: (X64 :: (X5f :: (X6c :: (X69 :: (X73 :: (X74 :: (X5f :: (X69 :: (X74 :: (X65 :: (X6d :: (X5f :: (X67 :: (X65 :: (X74 :: (X5f :: (X6e :: (X65 :: (X78 :: (X74 :: [])))))))))))))))))))))))))))))));
    e_reach = Exported; e_ret = TPtr; e_params = (true :: []); e_self = (Some
    O); e_slots = O; e_parsed = true; e_prelude =
    (Body :: []) } :: ({ e_name =
    (X73 :: (X70 :: (X69 :: (X66 :: (X5f :: (X64 :: (X6c :: (X69 :: (X6e :: (X6b :: (X65 :: (X64 :: (X5f :: (X6c :: (X69 :: (X73 :: (X74 :: (X5f :: (X69 :: (X74 :: (X65 :: (X6d :: (X5f :: (X73 :: (X65 :: (X74 :: (X5f :: (X6e :: (X65 :: (X78 :: (X74 :: [])))))))))))))))))))))))))))))));
    e_reach = Exported; e_ret = TInt; e_params = (true :: (true :: []));
    e_self = (Some O); e_slots = O; e_parsed = true; e_prelude =
    (Body :: []) } :: ({ e_name =
    (X73 :: (X70 :: (X69 :: (X66 :: (X5f :: (X64 :: (X6c :: (X69 :: (X6e :: (X6b :: (X65 :: (X64 :: (X5f :: (X6c :: (X69 :: (X73 :: (X74 :: (X5f :: (X6e :: (X65 :: (X77 :: [])))))))))))))))))))));
    e_reach = Slot; e_ret = TPtr; e_params = []; e_self = None; e_slots = (S
    O); e_parsed = true; e_prelude = (Body :: []) } :: ({ e_name =
    (X73 :: (X70 :: (X69 :: (X66 :: (X5f :: (X64 :: (X6c :: (X69 :: (X6e :: (X6b :: (X65 :: (X64 :: (X5f :: (X6c :: (X69 :: (X73 :: (X74 :: (X5f :: (X76 :: (X65 :: (X63 :: (X74 :: (X6f :: (X72 :: (X5f :: (X6e :: (X65 :: (X77 :: []))))))))))))))))))))))))))));
    e_reach = Slot; e_ret = TPtr; e_params = []; e_self = None; e_slots = (S
    O); e_parsed = true; e_prelude = (Body :: []) } :: ({ e_name =
    (X73 :: (X70 :: (X69 :: (X66 :: (X5f :: (X64 :: (X6c :: (X69 :: (X6e :: (X6b :: (X65 :: (X64 :: (X5f :: (X6c :: (X69 :: (X73 :: (X74 :: (X5f :: (X6d :: (X61 :: (X70 :: (X5f :: (X6e :: (X65 :: (X77 :: [])))))))))))))))))))))))));
    e_reach = Slot; e_ret = TPtr; e_params = []; e_self = None; e_slots = (S
    O); e_parsed = true; e_prelude = (Body :: []) } :: ({ e_name =
    (X73 :: (X70 :: (X69 :: (X66 :: (X5f :: (X64 :: (X6c :: (X69 :: (X6e :: (X6b :: (X65 :: (X64 :: (X5f :: (X6c :: (X69 :: (X73 :: (X74 :: (X5f :: (X69 :: (X6e :: (X69 :: (X74 :: []))))))))))))))))))))));
    e_reach = Slot; e_ret = TBool; e_params = (true :: []); e_self = (Some
    O); e_slots = (S O); e_parsed = true; e_prelude = ((Guard (GAssert,
    (O :: []), RvFalse)) :: (Body :: [])) } :: ({ e_name =
    (X73 :: (X70 :: (X69 :: (X66 :: (X5f :: (X64 :: (X6c :: (X69 :: (X6e :: (X6b :: (X65 :: (X64 :: (X5f :: (X6c :: (X69 :: (X73 :: (X74 :: (X5f :: (X76 :: (X65 :: (X63 :: (X74 :: (X6f :: (X72 :: (X5f :: (X69 :: (X6e :: (X69 :: (X74 :: [])))))))))))))))))))))))))))));
    e_reach = Slot; e_ret = TBool; e_params = (true :: []); e_self = (Some
    O); e_slots = (S O); e_parsed = true; e_prelude = ((Guard (GAssert,
    (O :: []), RvFalse)) :: (Body :: [])) } :: ({ e_name =
    (X73 :: (X70 :: (X69 :: (X66 :: (X5f :: (X64 :: (X6c :: (X69 :: (X6e :: (X6b :: (X65 :: (X64 :: (X5f :: (X6c :: (X69 :: (X73 :: (X74 :: (X5f :: (X6d :: (X61 :: (X70 :: (X5f :: (X69 :: (X6e :: (X69 :: (X74 :: []))))))))))))))))))))))))));
    e_reach = Slot; e_ret = TBool; e_params = (true :: []); e_self = (Some
    O); e_slots = (S O); e_parsed = true; e_prelude = ((Guard (GAssert,
    (O :: []), RvFalse)) :: (Body :: [])) } :: ({ e_name =
    (X73 :: (X70 :: (X69 :: (X66 :: (X5f :: (X64 :: (X6c :: (X69 :: (X6e :: (X6b :: (X65 :: (X64 :: (X5f :: (X6c :: (X69 :: (X73 :: (X74 :: (X5f :: (X64 :: (X6f :: (X6e :: (X65 :: []))))))))))))))))))))));
    e_reach = Slot; e_ret = TBool; e_params = (true :: []); e_self = (Some
    O); e_slots = (S (S (S O))); e_parsed = true; e_prelude = ((Guard
    (GAssert, (O :: []), RvFalse)) :: (Body :: [])) } :: ({ e_name =
    (X73 :: (X70 :: (X69 :: (X66 :: (X5f :: (X64 :: (X6c :: (X69 :: (X6e :: (X6b :: (X65 :: (X64 :: (X5f :: (X6c :: (X69 :: (X73 :: (X74 :: (X5f :: (X64 :: (X65 :: (X6c :: [])))))))))))))))))))));
    e_reach = Slot; e_ret = TBool; e_params = (true :: []); e_self = (Some
    O); e_slots = (S (S (S O))); e_parsed = true; e_prelude = ((Guard
    (GAssert, (O :: []), RvFalse)) :: (Body :: [])) } :: ({ e_name =
    (X73 :: (X70 :: (X69 :: (X66 :: (X5f :: (X64 :: (X6c :: (X69 :: (X6e :: (X6b :: (X65 :: (X64 :: (X5f :: (X6c :: (X69 :: (X73 :: (X74 :: (X5f :: (X73 :: (X68 :: (X6f :: (X77 :: []))))))))))))))))))))));
    e_reach = Slot; e_ret = TPtr; e_params =
    (true :: (true :: (true :: (false :: [])))); e_self = (Some O); e_slots =
    (S (S (S O))); e_parsed = true; e_prelude = ((Guard (GIf, (O :: []),
    RvHandled)) :: (Body :: [])) } :: ({ e_name =
    (X73 :: (X70 :: (X69 :: (X66 :: (X5f :: (X64 :: (X6c :: (X69 :: (X6e :: (X6b :: (X65 :: (X64 :: (X5f :: (X6c :: (X69 :: (X73 :: (X74 :: (X5f :: (X63 :: (X6f :: (X6d :: (X70 :: []))))))))))))))))))))));
    e_reach = Slot; e_ret = TCmp; e_params = (true :: (true :: [])); e_self =
    (Some O); e_slots = (S (S (S O))); e_parsed = true; e_prelude =
    ((CompNull (O, (S O))) :: ((Delegate
    ((X73 :: (X70 :: (X69 :: (X66 :: (X5f :: (X6f :: (X62 :: (X6a :: (X5f :: (X63 :: (X6f :: (X6d :: (X70 :: []))))))))))))),
    ((Some O) :: ((Some (S O)) :: [])), PId)) :: [])) } :: ({ e_name =
    (X73 :: (X70 :: (X69 :: (X66 :: (X5f :: (X64 :: (X6c :: (X69 :: (X6e :: (X6b :: (X65 :: (X64 :: (X5f :: (X6c :: (X69 :: (X73 :: (X74 :: (X5f :: (X64 :: (X75 :: (X70 :: [])))))))))))))))))))));
    e_reach = Slot; e_ret = TPtr; e_params = (true :: []); e_self = (Some O);
    e_slots = (S O); e_parsed = true; e_prelude = ((Guard (GAssert,
    (O :: []), RvNull)) :: (Body :: [])) } :: ({ e_name =
    (X73 :: (X70 :: (X69 :: (X66 :: (X5f :: (X64 :: (X6c :: (X69 :: (X6e :: (X6b :: (X65 :: (X64 :: (X5f :: (X6c :: (X69 :: (X73 :: (X74 :: (X5f :: (X76 :: (X65 :: (X63 :: (X74 :: (X6f :: (X72 :: (X5f :: (X64 :: (X75 :: (X70 :: []))))))))))))))))))))))))))));
    e_reach = Slot; e_ret = TPtr; e_params = (true :: []); e_self = (Some O);
    e_slots = (S O); e_parsed = true; e_prelude = ((Guard (GAssert,
    (O :: []), RvNull)) :: (Body :: [])) } :: ({ e_name =
    (X73 :: (X70 :: (X69 :: (X66 :: (X5f :: (X64 :: (X6c :: (X69 :: (X6e :: (X6b :: (X65 :: (X64 :: (X5f :: (X6c :: (X69 :: (X73 :: (X74 :: (X5f :: (X6d :: (X61 :: (X70 :: (X5f :: (X64 :: (X75 :: (X70 :: [])))))))))))))))))))))))));
    e_reach = Slot; e_ret = TPtr; e_params = (true :: []); e_self = (Some O);
    e_slots = (S O); e_parsed = true; e_prelude = ((Guard (GAssert,
    (O :: []), RvNull)) :: (Body :: [])) } :: ({ e_name =
    (X73 :: (X70 :: (X69 :: (X66 :: (X5f :: (X64 :: (X6c :: (X69 :: (X6e :: (X6b :: (X65 :: (X64 :: (X5f :: (X6c :: (X69 :: (X73 :: (X74 :: (X5f :: (X74 :: (X79 :: (X70 :: (X65 :: []))))))))))))))))))))));
    e_reach = Slot; e_ret = TPtr; e_params = (true :: []); e_self = (Some O);
    e_slots = (S (S (S O))); e_parsed = true; e_prelude = ((Guard (GAssert,
    (O :: []), RvNull)) :: (Body :: [])) } :: ({ e_name =
    (X73 :: (X70 :: (X69 :: (X66 :: (X5f :: (X64 :: (X6c :: (X69 :: (X6e :: (X6b :: (X65 :: (X64 :: (X5f :: (X6c :: (X69 :: (X73 :: (X74 :: (X5f :: (X61 :: (X70 :: (X70 :: (X65 :: (X6e :: (X64 :: []))))))))))))))))))))))));
    e_reach = Slot; e_ret = TBool; e_params = (true :: (true :: []));
    e_self = (Some O); e_slots = (S O); e_parsed = true; e_prelude = ((Guard
    (GAssert, (O :: []), RvFalse)) :: (Body :: [])) } :: ({ e_name =
    (X73 :: (X70 :: (X69 :: (X66 :: (X5f :: (X64 :: (X6c :: (X69 :: (X6e :: (X6b :: (X65 :: (X64 :: (X5f :: (X6c :: (X69 :: (X73 :: (X74 :: (X5f :: (X63 :: (X6f :: (X6e :: (X74 :: (X61 :: (X69 :: (X6e :: (X73 :: []))))))))))))))))))))))))));
    e_reach = Slot; e_ret = TBool; e_params = (true :: (true :: []));
    e_self = (Some O); e_slots = (S O); e_parsed = true; e_prelude = ((Guard
    (GAssert, (O :: []), RvFalse)) :: ((Delegate
    ((X73 :: (X70 :: (X69 :: (X66 :: (X5f :: (X64 :: (X6c :: (X69 :: (X6e :: (X6b :: (X65 :: (X64 :: (X5f :: (X6c :: (X69 :: (X73 :: (X74 :: (X5f :: (X66 :: (X69 :: (X6e :: (X64 :: [])))))))))))))))))))))),
    ((Some O) :: ((Some (S O)) :: [])),
    PNullToFalse)) :: [])) } :: ({ e_name =
    (X73 :: (X70 :: (X69 :: (X66 :: (X5f :: (X64 :: (X6c :: (X69 :: (X6e :: (X6b :: (X65 :: (X64 :: (X5f :: (X6c :: (X69 :: (X73 :: (X74 :: (X5f :: (X76 :: (X65 :: (X63 :: (X74 :: (X6f :: (X72 :: (X5f :: (X63 :: (X6f :: (X6e :: (X74 :: (X61 :: (X69 :: (X6e :: (X73 :: [])))))))))))))))))))))))))))))))));
    e_reach = Slot; e_ret = TBool; e_params = (true :: (true :: []));
    e_self = (Some O); e_slots = (S O); e_parsed = true; e_prelude = ((Guard
    (GAssert, (O :: []), RvFalse)) :: ((Delegate
    ((X73 :: (X70 :: (X69 :: (X66 :: (X5f :: (X64 :: (X6c :: (X69 :: (X6e :: (X6b :: (X65 :: (X64 :: (X5f :: (X6c :: (X69 :: (X73 :: (X74 :: (X5f :: (X76 :: (X65 :: (X63 :: (X74 :: (X6f :: (X72 :: (X5f :: (X66 :: (X69 :: (X6e :: (X64 :: []))))))))))))))))))))))))))))),
    ((Some O) :: ((Some (S O)) :: [])),
    PNullToFalse)) :: [])) } :: ({ e_name =
    (X73 :: (X70 :: (X69 :: (X66 :: (X5f :: (X64 :: (X6c :: (X69 :: (X6e :: (X6b :: (X65 :: (X64 :: (X5f :: (X6c :: (X69 :: (X73 :: (X74 :: (X5f :: (X63 :: (X6f :: (X75 :: (X6e :: (X74 :: [])))))))))))))))))))))));
    e_reach = Slot; e_ret = TInt; e_params = (true :: []); e_self = (Some O);
    e_slots = (S (S (S O))); e_parsed = true; e_prelude = ((Guard (GAssert,
    (O :: []), RvZero)) :: (Body :: [])) } :: ({ e_name =
    (X73 :: (X70 :: (X69 :: (X66 :: (X5f :: (X64 :: (X6c :: (X69 :: (X6e :: (X6b :: (X65 :: (X64 :: (X5f :: (X6c :: (X69 :: (X73 :: (X74 :: (X5f :: (X66 :: (X69 :: (X6e :: (X64 :: []))))))))))))))))))))));
    e_reach = Slot; e_ret = TPtr; e_params = (true :: (true :: [])); e_self =
    (Some O); e_slots = (S O); e_parsed = true; e_prelude = ((Guard (GAssert,
    (O :: []), RvNull)) :: ((Guard (GRequire, ((S O) :: []),
    RvNull)) :: (Body :: []))) } :: ({ e_name =
    (X73 :: (X70 :: (X69 :: (X66 :: (X5f :: (X64 :: (X6c :: (X69 :: (X6e :: (X6b :: (X65 :: (X64 :: (X5f :: (X6c :: (X69 :: (X73 :: (X74 :: (X5f :: (X76 :: (X65 :: (X63 :: (X74 :: (X6f :: (X72 :: (X5f :: (X66 :: (X69 :: (X6e :: (X64 :: [])))))))))))))))))))))))))))));
    e_reach = Slot; e_ret = TPtr; e_params = (true :: (true :: [])); e_self =
    (Some O); e_slots = (S O); e_parsed = true; e_prelude = ((Guard (GAssert,
    (O :: []), RvNull)) :: ((Guard (GRequire, ((S O) :: []),
    RvNull)) :: (Body :: []))) } :: ({ e_name =
    (X73 :: (X70 :: (X69 :: (X66 :: (X5f :: (X64 :: (X6c :: (X69 :: (X6e :: (X6b :: (X65 :: (X64 :: (X5f :: (X6c :: (X69 :: (X73 :: (X74 :: (X5f :: (X67 :: (X65 :: (X74 :: [])))))))))))))))))))));
    e_reach = Slot; e_ret = TPtr; e_params = (true :: (false :: []));
    e_self = (Some O); e_slots = (S O); e_parsed = true; e_prelude = ((Guard
    (GAssert, (O :: []), RvNull)) :: (Body :: [])) } :: ({ e_name =
    (X73 :: (X70 :: (X69 :: (X66 :: (X5f :: (X64 :: (X6c :: (X69 :: (X6e :: (X6b :: (X65 :: (X64 :: (X5f :: (X6c :: (X69 :: (X73 :: (X74 :: (X5f :: (X6d :: (X61 :: (X70 :: (X5f :: (X67 :: (X65 :: (X74 :: [])))))))))))))))))))))))));
    e_reach = Slot; e_ret = TPtr; e_params = (true :: (true :: [])); e_self =
    (Some O); e_slots = (S O); e_parsed = true; e_prelude = ((Guard (GAssert,
    (O :: []), RvNull)) :: ((Guard (GRequire, ((S O) :: []),
    RvNull)) :: (Body :: []))) } :: ({ e_name =
    (X73 :: (X70 :: (X69 :: (X66 :: (X5f :: (X64 :: (X6c :: (X69 :: (X6e :: (X6b :: (X65 :: (X64 :: (X5f :: (X6c :: (X69 :: (X73 :: (X74 :: (X5f :: (X67 :: (X65 :: (X74 :: (X5f :: (X6b :: (X65 :: (X79 :: (X73 :: []))))))))))))))))))))))))));
    e_reach = Slot; e_ret = TPtr; e_params = (true :: (true :: [])); e_self =
    (Some O); e_slots = (S O); e_parsed = true; e_prelude = ((Guard (GAssert,
    (O :: []), RvNull)) :: (Body :: [])) } :: ({ e_name =
    (X73 :: (X70 :: (X69 :: (X66 :: (X5f :: (X64 :: (X6c :: (X69 :: (X6e :: (X6b :: (X65 :: (X64 :: (X5f :: (X6c :: (X69 :: (X73 :: (X74 :: (X5f :: (X67 :: (X65 :: (X74 :: (X5f :: (X70 :: (X61 :: (X69 :: (X72 :: (X73 :: [])))))))))))))))))))))))))));
    e_reach = Slot; e_ret = TPtr; e_params = (true :: (true :: [])); e_self =
    (Some O); e_slots = (S O); e_parsed = true; e_prelude = ((Guard (GAssert,
    (O :: []), RvNull)) :: (Body :: [])) } :: ({ e_name =
    (X73 :: (X70 :: (X69 :: (X66 :: (X5f :: (X64 :: (X6c :: (X69 :: (X6e :: (X6b :: (X65 :: (X64 :: (X5f :: (X6c :: (X69 :: (X73 :: (X74 :: (X5f :: (X67 :: (X65 :: (X74 :: (X5f :: (X76 :: (X61 :: (X6c :: (X75 :: (X65 :: (X73 :: []))))))))))))))))))))))))))));
    e_reach = Slot; e_ret = TPtr; e_params = (true :: (true :: [])); e_self =
    (Some O); e_slots = (S O); e_parsed = true; e_prelude = ((Guard (GAssert,
    (O :: []), RvNull)) :: (Body :: [])) } :: ({ e_name =
    (X73 :: (X70 :: (X69 :: (X66 :: (X5f :: (X64 :: (X6c :: (X69 :: (X6e :: (X6b :: (X65 :: (X64 :: (X5f :: (X6c :: (X69 :: (X73 :: (X74 :: (X5f :: (X68 :: (X61 :: (X73 :: (X5f :: (X6b :: (X65 :: (X79 :: [])))))))))))))))))))))))));
    e_reach = Slot; e_ret = TBool; e_params = (true :: (true :: []));
    e_self = (Some O); e_slots = (S O); e_parsed = true; e_prelude =
    ((Delegate
    ((X73 :: (X70 :: (X69 :: (X66 :: (X5f :: (X64 :: (X6c :: (X69 :: (X6e :: (X6b :: (X65 :: (X64 :: (X5f :: (X6c :: (X69 :: (X73 :: (X74 :: (X5f :: (X6d :: (X61 :: (X70 :: (X5f :: (X67 :: (X65 :: (X74 :: []))))))))))))))))))))))))),
    ((Some O) :: ((Some (S O)) :: [])),
    PNullToFalse)) :: []) } :: ({ e_name =
    (X73 :: (X70 :: (X69 :: (X66 :: (X5f :: (X64 :: (X6c :: (X69 :: (X6e :: (X6b :: (X65 :: (X64 :: (X5f :: (X6c :: (X69 :: (X73 :: (X74 :: (X5f :: (X68 :: (X61 :: (X73 :: (X5f :: (X76 :: (X61 :: (X6c :: (X75 :: (X65 :: [])))))))))))))))))))))))))));
    e_reach = Slot; e_ret = TBool; e_params = (true :: (true :: []));
    e_self = (Some O); e_slots = (S O); e_parsed = true; e_prelude = ((Guard
    (GAssert, (O :: []), RvFalse)) :: (Body :: [])) } :: ({ e_name =
    (X73 :: (X70 :: (X69 :: (X66 :: (X5f :: (X64 :: (X6c :: (X69 :: (X6e :: (X6b :: (X65 :: (X64 :: (X5f :: (X6c :: (X69 :: (X73 :: (X74 :: (X5f :: (X69 :: (X6e :: (X64 :: (X65 :: (X78 :: [])))))))))))))))))))))));
    e_reach = Slot; e_ret = TInt; e_params = (true :: (true :: [])); e_self =
    (Some O); e_slots = (S O); e_parsed = true; e_prelude = ((Guard (GAssert,
    (O :: []), RvNeg1)) :: (Body :: [])) } :: ({ e_name =
    (X73 :: (X70 :: (X69 :: (X66 :: (X5f :: (X64 :: (X6c :: (X69 :: (X6e :: (X6b :: (X65 :: (X64 :: (X5f :: (X6c :: (X69 :: (X73 :: (X74 :: (X5f :: (X69 :: (X6e :: (X73 :: (X65 :: (X72 :: (X74 :: []))))))))))))))))))))))));
    e_reach = Slot; e_ret = TBool; e_params = (true :: (true :: []));
    e_self = (Some O); e_slots = (S (S O)); e_parsed = true; e_prelude =
    ((Guard (GAssert, (O :: []), RvFalse)) :: (Body :: [])) } :: ({ e_name =
    (X73 :: (X70 :: (X69 :: (X66 :: (X5f :: (X64 :: (X6c :: (X69 :: (X6e :: (X6b :: (X65 :: (X64 :: (X5f :: (X6c :: (X69 :: (X73 :: (X74 :: (X5f :: (X69 :: (X6e :: (X73 :: (X65 :: (X72 :: (X74 :: (X5f :: (X61 :: (X74 :: [])))))))))))))))))))))))))));
    e_reach = Slot; e_ret = TBool; e_params =
    (true :: (true :: (false :: []))); e_self = (Some O); e_slots = (S O);
    e_parsed = true; e_prelude = ((Guard (GAssert, (O :: []),
    RvFalse)) :: (Body :: [])) } :: ({ e_name =
    (X73 :: (X70 :: (X69 :: (X66 :: (X5f :: (X64 :: (X6c :: (X69 :: (X6e :: (X6b :: (X65 :: (X64 :: (X5f :: (X6c :: (X69 :: (X73 :: (X74 :: (X5f :: (X69 :: (X74 :: (X65 :: (X72 :: (X61 :: (X74 :: (X6f :: (X72 :: []))))))))))))))))))))))))));
    e_reach = Slot; e_ret = TPtr; e_params = (true :: []); e_self = (Some O);
    e_slots = (S (S (S O))); e_parsed = true; e_prelude = ((Guard (GAssert,
    (O :: []), RvNull)) :: ((Delegate
    ((X73 :: (X70 :: (X69 :: (X66 :: (X5f :: (X64 :: (X6c :: (X69 :: (X6e :: (X6b :: (X65 :: (X64 :: (X5f :: (X6c :: (X69 :: (X73 :: (X74 :: (X5f :: (X69 :: (X74 :: (X65 :: (X72 :: (X61 :: (X74 :: (X6f :: (X72 :: (X5f :: (X6e :: (X65 :: (X77 :: [])))))))))))))))))))))))))))))),
    ((Some O) :: []), PId)) :: [])) } :: ({ e_name =
    (X73 :: (X70 :: (X69 :: (X66 :: (X5f :: (X64 :: (X6c :: (X69 :: (X6e :: (X6b :: (X65 :: (X64 :: (X5f :: (X6c :: (X69 :: (X73 :: (X74 :: (X5f :: (X70 :: (X72 :: (X65 :: (X70 :: (X65 :: (X6e :: (X64 :: [])))))))))))))))))))))))));
    e_reach = Slot; e_ret = TBool; e_params = (true :: (true :: []));
    e_self = (Some O); e_slots = (S O); e_parsed = true; e_prelude = ((Guard
    (GAssert, (O :: []), RvFalse)) :: (Body :: [])) } :: ({ e_name =
    (X73 :: (X70 :: (X69 :: (X66 :: (X5f :: (X64 :: (X6c :: (X69 :: (X6e :: (X6b :: (X65 :: (X64 :: (X5f :: (X6c :: (X69 :: (X73 :: (X74 :: (X5f :: (X72 :: (X65 :: (X6d :: (X6f :: (X76 :: (X65 :: []))))))))))))))))))))))));
    e_reach = Slot; e_ret = TPtr; e_params = (true :: (true :: [])); e_self =
    (Some O); e_slots = (S (S O)); e_parsed = true; e_prelude = ((Guard
    (GAssert, (O :: []), RvNull)) :: ((Guard (GRequire, ((S O) :: []),
    RvNull)) :: (Body :: []))) } :: ({ e_name =
    (X73 :: (X70 :: (X69 :: (X66 :: (X5f :: (X64 :: (X6c :: (X69 :: (X6e :: (X6b :: (X65 :: (X64 :: (X5f :: (X6c :: (X69 :: (X73 :: (X74 :: (X5f :: (X6d :: (X61 :: (X70 :: (X5f :: (X72 :: (X65 :: (X6d :: (X6f :: (X76 :: (X65 :: []))))))))))))))))))))))))))));
    e_reach = Slot; e_ret = TPtr; e_params = (true :: (true :: [])); e_self =
    (Some O); e_slots = (S O); e_parsed = true; e_prelude = ((Guard (GAssert,
    (O :: []), RvNull)) :: ((Guard (GRequire, ((S O) :: []),
    RvNull)) :: (Body :: []))) } :: ({ e_name =
    (X73 :: (X70 :: (X69 :: (X66 :: (X5f :: (X64 :: (X6c :: (X69 :: (X6e :: (X6b :: (X65 :: (X64 :: (X5f :: (X6c :: (X69 :: (X73 :: (X74 :: (X5f :: (X72 :: (X65 :: (X6d :: (X6f :: (X76 :: (X65 :: (X5f :: (X61 :: (X74 :: [])))))))))))))))))))))))))));
    e_reach = Slot; e_ret = TPtr; e_params = (true :: (false :: []));
    e_self = (Some O); e_slots = (S O); e_parsed = true; e_prelude = ((Guard
    (GAssert, (O :: []), RvNull)) :: (Body :: [])) } :: ({ e_name =
    (X73 :: (X70 :: (X69 :: (X66 :: (X5f :: (X64 :: (X6c :: (X69 :: (X6e :: (X6b :: (X65 :: (X64 :: (X5f :: (X6c :: (X69 :: (X73 :: (X74 :: (X5f :: (X72 :: (X65 :: (X76 :: (X65 :: (X72 :: (X73 :: (X65 :: [])))))))))))))))))))))))));
    e_reach = Slot; e_ret = TBool; e_params = (true :: []); e_self = (Some
    O); e_slots = (S O); e_parsed = true; e_prelude = ((Guard (GAssert,
    (O :: []), RvFalse)) :: (Body :: [])) } :: ({ e_name =
    (X73 :: (X70 :: (X69 :: (X66 :: (X5f :: (X64 :: (X6c :: (X69 :: (X6e :: (X6b :: (X65 :: (X64 :: (X5f :: (X6c :: (X69 :: (X73 :: (X74 :: (X5f :: (X73 :: (X65 :: (X74 :: [])))))))))))))))))))));
    e_reach = Slot; e_ret = TBool; e_params =
    (true :: (true :: (true :: []))); e_self = (Some O); e_slots = (S O);
    e_parsed = true; e_prelude = ((Guard (GAssert, (O :: []),
    RvFalse)) :: ((Guard (GRequire, ((S O) :: []),
    RvFalse)) :: (Body :: []))) } :: ({ e_name =
    (X73 :: (X70 :: (X69 :: (X66 :: (X5f :: (X64 :: (X6c :: (X69 :: (X6e :: (X6b :: (X65 :: (X64 :: (X5f :: (X6c :: (X69 :: (X73 :: (X74 :: (X5f :: (X74 :: (X6f :: (X5f :: (X61 :: (X72 :: (X72 :: (X61 :: (X79 :: []))))))))))))))))))))))))));
    e_reach = Slot; e_ret = TPtr; e_params = (true :: []); e_self = (Some O);
    e_slots = (S (S O)); e_parsed = true; e_prelude = ((Guard (GAssert,
    (O :: []), RvNull)) :: (Body :: [])) } :: ({ e_name =
    (X73 :: (X70 :: (X69 :: (X66 :: (X5f :: (X64 :: (X6c :: (X69 :: (X6e :: (X6b :: (X65 :: (X64 :: (X5f :: (X6c :: (X69 :: (X73 :: (X74 :: (X5f :: (X67 :: (X65 :: (X74 :: (X5f :: (X6c :: (X65 :: (X6e :: [])))))))))))))))))))))))));
    e_reach = Exported; e_ret = TInt; e_params = (true :: []); e_self = (Some
    O); e_slots = O; e_parsed = true; e_prelude =
    (Body :: []) } :: ({ e_name =
    (X73 :: (X70 :: (X69 :: (X66 :: (X5f :: (X64 :: (X6c :: (X69 :: (X6e :: (X6b :: (X65 :: (X64 :: (X5f :: (X6c :: (X69 :: (X73 :: (X74 :: (X5f :: (X73 :: (X65 :: (X74 :: (X5f :: (X6c :: (X65 :: (X6e :: [])))))))))))))))))))))))));
    e_reach = Exported; e_ret = TInt; e_params = (true :: (false :: []));
    e_self = (Some O); e_slots = O; e_parsed = true; e_prelude =
    (Body :: []) } :: ({ e_name =
    (X73 :: (X70 :: (X69 :: (X66 :: (X5f :: (X64 :: (X6c :: (X69 :: (X6e :: (X6b :: (X65 :: (X64 :: (X5f :: (X6c :: (X69 :: (X73 :: (X74 :: (X5f :: (X67 :: (X65 :: (X74 :: (X5f :: (X68 :: (X65 :: (X61 :: (X64 :: []))))))))))))))))))))))))));
    e_reach = Exported; e_ret = TPtr; e_params = (true :: []); e_self = (Some
    O); e_slots = O; e_parsed = true; e_prelude =
    (Body :: []) } :: ({ e_name =
    (X73 :: (X70 :: (X69 :: (X66 :: (X5f :: (X64 :: (X6c :: (X69 :: (X6e :: (X6b :: (X65 :: (X64 :: (X5f :: (X6c :: (X69 :: (X73 :: (X74 :: (X5f :: (X73 :: (X65 :: (X74 :: (X5f :: (X68 :: (X65 :: (X61 :: (X64 :: []))))))))))))))))))))))))));
    e_reach = Exported; e_ret = TInt; e_params = (true :: (true :: []));
    e_self = (Some O); e_slots = O; e_parsed = true; e_prelude =
    (Body :: []) } :: ({ e_name =
    (X73 :: (X70 :: (X69 :: (X66 :: (X5f :: (X64 :: (X6c :: (X69 :: (X6e :: (X6b :: (X65 :: (X64 :: (X5f :: (X6c :: (X69 :: (X73 :: (X74 :: (X5f :: (X67 :: (X65 :: (X74 :: (X5f :: (X74 :: (X61 :: (X69 :: (X6c :: []))))))))))))))))))))))))));
    e_reach = Exported; e_ret = TPtr; e_params = (true :: []); e_self = (Some
    O); e_slots = O; e_parsed = true; e_prelude =
    (Body :: []) } :: ({ e_name =
    (X73 :: (X70 :: (X69 :: (X66 :: (X5f :: (X64 :: (X6c :: (X69 :: (X6e :: (X6b :: (X65 :: (X64 :: (X5f :: (X6c :: (X69 :: (X73 :: (X74 :: (X5f :: (X73 :: (X65 :: (X74 :: (X5f :: (X74 :: (X61 :: (X69 :: (X6c :: []))))))))))))))))))))))))));
    e_reach = Exported; e_ret = TInt; e_params = (true :: (true :: []));
    e_self = (Some O); e_slots = O; e_parsed = true; e_prelude =
    (Body :: []) } :: ({ e_name =
    (X73 :: (X70 :: (X69 :: (X66 :: (X5f :: (X64 :: (X6c :: (X69 :: (X6e :: (X6b :: (X65 :: (X64 :: (X5f :: (X6c :: (X69 :: (X73 :: (X74 :: (X5f :: (X69 :: (X74 :: (X65 :: (X72 :: (X61 :: (X74 :: (X6f :: (X72 :: (X5f :: (X6e :: (X65 :: (X77 :: []))))))))))))))))))))))))))))));
    e_reach = Slot; e_ret = TPtr; e_params = (true :: []); e_self = None;
    e_slots = (S O); e_parsed = true; e_prelude =
    (Body :: []) } :: ({ e_name =
    (X73 :: (X70 :: (X69 :: (X66 :: (X5f :: (X64 :: (X6c :: (X69 :: (X6e :: (X6b :: (X65 :: (X64 :: (X5f :: (X6c :: (X69 :: (X73 :: (X74 :: (X5f :: (X69 :: (X74 :: (X65 :: (X72 :: (X61 :: (X74 :: (X6f :: (X72 :: (X5f :: (X69 :: (X6e :: (X69 :: (X74 :: [])))))))))))))))))))))))))))))));
    e_reach = Slot; e_ret = TBool; e_params = (true :: (true :: []));
    e_self = (Some O); e_slots = (S O); e_parsed = true; e_prelude = ((Guard
    (GAssert, (O :: []), RvFalse)) :: (Body :: [])) } :: ({ e_name =
    (X73 :: (X70 :: (X69 :: (X66 :: (X5f :: (X64 :: (X6c :: (X69 :: (X6e :: (X6b :: (X65 :: (X64 :: (X5f :: (X6c :: (X69 :: (X73 :: (X74 :: (X5f :: (X69 :: (X74 :: (X65 :: (X72 :: (X61 :: (X74 :: (X6f :: (X72 :: (X5f :: (X64 :: (X6f :: (X6e :: (X65 :: [])))))))))))))))))))))))))))))));
    e_reach = Slot; e_ret = TBool; e_params = (true :: []); e_self = (Some
    O); e_slots = (S O); e_parsed = true; e_prelude = ((Guard (GAssert,
    (O :: []), RvFalse)) :: (Body :: [])) } :: ({ e_name =
    (X73 :: (X70 :: (X69 :: (X66 :: (X5f :: (X64 :: (X6c :: (X69 :: (X6e :: (X6b :: (X65 :: (X64 :: (X5f :: (X6c :: (X69 :: (X73 :: (X74 :: (X5f :: (X69 :: (X74 :: (X65 :: (X72 :: (X61 :: (X74 :: (X6f :: (X72 :: (X5f :: (X64 :: (X65 :: (X6c :: []))))))))))))))))))))))))))))));
    e_reach = Slot; e_ret = TBool; e_params = (true :: []); e_self = (Some
    O); e_slots = (S O); e_parsed = true; e_prelude = ((Guard (GAssert,
    (O :: []), RvFalse)) :: (Body :: [])) } :: ({ e_name =
    (X73 :: (X70 :: (X69 :: (X66 :: (X5f :: (X64 :: (X6c :: (X69 :: (X6e :: (X6b :: (X65 :: (X64 :: (X5f :: (X6c :: (X69 :: (X73 :: (X74 :: (X5f :: (X69 :: (X74 :: (X65 :: (X72 :: (X61 :: (X74 :: (X6f :: (X72 :: (X5f :: (X73 :: (X68 :: (X6f :: (X77 :: [])))))))))))))))))))))))))))))));
    e_reach = Slot; e_ret = TPtr; e_params =
    (true :: (true :: (true :: (false :: [])))); e_self = (Some O); e_slots =
    (S O); e_parsed = true; e_prelude = ((Guard (GIf, (O :: []),
    RvHandled)) :: (Body :: [])) } :: ({ e_name =
    (X73 :: (X70 :: (X69 :: (X66 :: (X5f :: (X64 :: (X6c :: (X69 :: (X6e :: (X6b :: (X65 :: (X64 :: (X5f :: (X6c :: (X69 :: (X73 :: (X74 :: (X5f :: (X69 :: (X74 :: (X65 :: (X72 :: (X61 :: (X74 :: (X6f :: (X72 :: (X5f :: (X63 :: (X6f :: (X6d :: (X70 :: [])))))))))))))))))))))))))))))));
    e_reach = Slot; e_ret = TCmp; e_params = (true :: (true :: [])); e_self =
    (Some O); e_slots = (S O); e_parsed = true; e_prelude = ((CompNull (O, (S
    O))) :: ((Deref O) :: ((Deref (S O)) :: ((Guard (GRequire, [],
    RvOther)) :: ((Deref O) :: ((Deref (S O)) :: ((Delegate
    ((X73 :: (X70 :: (X69 :: (X66 :: (X5f :: (X64 :: (X6c :: (X69 :: (X6e :: (X6b :: (X65 :: (X64 :: (X5f :: (X6c :: (X69 :: (X73 :: (X74 :: (X5f :: (X63 :: (X6f :: (X6d :: (X70 :: [])))))))))))))))))))))),
    (None :: (None :: [])), PId)) :: []))))))) } :: ({ e_name =
    (X73 :: (X70 :: (X69 :: (X66 :: (X5f :: (X64 :: (X6c :: (X69 :: (X6e :: (X6b :: (X65 :: (X64 :: (X5f :: (X6c :: (X69 :: (X73 :: (X74 :: (X5f :: (X69 :: (X74 :: (X65 :: (X72 :: (X61 :: (X74 :: (X6f :: (X72 :: (X5f :: (X64 :: (X75 :: (X70 :: []))))))))))))))))))))))))))))));
    e_reach = Slot; e_ret = TPtr; e_params = (true :: []); e_self = (Some O);
    e_slots = (S O); e_parsed = true; e_prelude = ((Guard (GAssert,
    (O :: []), RvNull)) :: (Body :: [])) } :: ({ e_name =
    (X73 :: (X70 :: (X69 :: (X66 :: (X5f :: (X64 :: (X6c :: (X69 :: (X6e :: (X6b :: (X65 :: (X64 :: (X5f :: (X6c :: (X69 :: (X73 :: (X74 :: (X5f :: (X69 :: (X74 :: (X65 :: (X72 :: (X61 :: (X74 :: (X6f :: (X72 :: (X5f :: (X74 :: (X79 :: (X70 :: (X65 :: [])))))))))))))))))))))))))))))));
    e_reach = Slot; e_ret = TPtr; e_params = (true :: []); e_self = (Some O);
    e_slots = (S O); e_parsed = true; e_prelude = ((Guard (GAssert,
    (O :: []), RvNull)) :: (Body :: [])) } :: ({ e_name =
    (X73 :: (X70 :: (X69 :: (X66 :: (X5f :: (X64 :: (X6c :: (X69 :: (X6e :: (X6b :: (X65 :: (X64 :: (X5f :: (X6c :: (X69 :: (X73 :: (X74 :: (X5f :: (X69 :: (X74 :: (X65 :: (X72 :: (X61 :: (X74 :: (X6f :: (X72 :: (X5f :: (X68 :: (X61 :: (X73 :: (X5f :: (X6e :: (X65 :: (X78 :: (X74 :: [])))))))))))))))))))))))))))))))))));
    e_reach = Slot; e_ret = TBool; e_params = (true :: []); e_self = (Some
    O); e_slots = (S O); e_parsed = true; e_prelude = ((Guard (GAssert,
    (O :: []), RvFalse)) :: (Body :: [])) } :: ({ e_name =
    (X73 :: (X70 :: (X69 :: (X66 :: (X5f :: (X64 :: (X6c :: (X69 :: (X6e :: (X6b :: (X65 :: (X64 :: (X5f :: (X6c :: (X69 :: (X73 :: (X74 :: (X5f :: (X69 :: (X74 :: (X65 :: (X72 :: (X61 :: (X74 :: (X6f :: (X72 :: (X5f :: (X6e :: (X65 :: (X78 :: (X74 :: [])))))))))))))))))))))))))))))));
    e_reach = Slot; e_ret = TPtr; e_params = (true :: []); e_self = (Some O);
    e_slots = (S O); e_parsed = true; e_prelude = ((Guard (GAssert,
    (O :: []), RvNull)) :: ((Deref O) :: ((Guard (GRequire, [],
    RvNull)) :: ((Deref O) :: ((Guard (GRequire, [],
    RvNull)) :: (Body :: [])))))) } :: ({ e_name =
    (X73 :: (X70 :: (X69 :: (X66 :: (X5f :: (X64 :: (X6c :: (X69 :: (X6e :: (X6b :: (X65 :: (X64 :: (X5f :: (X6c :: (X69 :: (X73 :: (X74 :: (X5f :: (X69 :: (X74 :: (X65 :: (X72 :: (X61 :: (X74 :: (X6f :: (X72 :: (X5f :: (X67 :: (X65 :: (X74 :: (X5f :: (X73 :: (X75 :: (X62 :: (X6a :: (X65 :: (X63 :: (X74 :: []))))))))))))))))))))))))))))))))))))));
    e_reach = Exported; e_ret = TPtr; e_params = (true :: []); e_self = (Some
    O); e_slots = O; e_parsed = true; e_prelude =
    (Body :: []) } :: ({ e_name =
    (X73 :: (X70 :: (X69 :: (X66 :: (X5f :: (X64 :: (X6c :: (X69 :: (X6e :: (X6b :: (X65 :: (X64 :: (X5f :: (X6c :: (X69 :: (X73 :: (X74 :: (X5f :: (X69 :: (X74 :: (X65 :: (X72 :: (X61 :: (X74 :: (X6f :: (X72 :: (X5f :: (X73 :: (X65 :: (X74 :: (X5f :: (X73 :: (X75 :: (X62 :: (X6a :: (X65 :: (X63 :: (X74 :: []))))))))))))))))))))))))))))))))))))));
    e_reach = Exported; e_ret = TInt; e_params = (true :: (true :: []));
    e_self = (Some O); e_slots = O; e_parsed = true; e_prelude =
    (Body :: []) } :: ({ e_name =
    (X73 :: (X70 :: (X69 :: (X66 :: (X5f :: (X64 :: (X6c :: (X69 :: (X6e :: (X6b :: (X65 :: (X64 :: (X5f :: (X6c :: (X69 :: (X73 :: (X74 :: (X5f :: (X69 :: (X74 :: (X65 :: (X72 :: (X61 :: (X74 :: (X6f :: (X72 :: (X5f :: (X67 :: (X65 :: (X74 :: (X5f :: (X63 :: (X75 :: (X72 :: (X72 :: (X65 :: (X6e :: (X74 :: []))))))))))))))))))))))))))))))))))))));
    e_reach = Exported; e_ret = TPtr; e_params = (true :: []); e_self = (Some
    O); e_slots = O; e_parsed = true; e_prelude =
    (Body :: []) } :: ({ e_name =
    (X73 :: (X70 :: (X69 :: (X66 :: (X5f :: (X64 :: (X6c :: (X69 :: (X6e :: (X6b :: (X65 :: (X64 :: (X5f :: (X6c :: (X69 :: (X73 :: (X74 :: (X5f :: (X69 :: (X74 :: (X65 :: (X72 :: (X61 :: (X74 :: (X6f :: (X72 :: (X5f :: (X73 :: (X65 :: (X74 :: (X5f :: (X63 :: (X75 :: (X72 :: (X72 :: (X65 :: (X6e :: (X74 :: []))))))))))))))))))))))))))))))))))))));
    e_reach = Exported; e_ret = TInt; e_params = (true :: (true :: []));
    e_self = (Some O); e_slots = O; e_parsed = true; e_prelude =
    (Body :: []) } :: ({ e_name =
    (X73 :: (X74 :: (X72 :: (X63 :: (X61 :: (X73 :: (X65 :: (X63 :: (X68 :: (X72 :: []))))))))));
    e_reach = Exported; e_ret = TPtr; e_params = (true :: (false :: []));
    e_self = None; e_slots = O; e_parsed = true; e_prelude = ((Guard
    (GRequire, (O :: []), RvNull)) :: (Body :: [])) } :: ({ e_name =
    (X73 :: (X74 :: (X72 :: (X63 :: (X61 :: (X73 :: (X65 :: (X70 :: (X62 :: (X72 :: (X6b :: [])))))))))));
    e_reach = Exported; e_ret = TPtr; e_params = (true :: (true :: []));
    e_self = None; e_slots = O; e_parsed = true; e_prelude = ((Guard
    (GRequire, ((S O) :: []), RvNull)) :: ((Guard (GRequire, (O :: []),
    RvNull)) :: (Body :: []))) } :: ({ e_name =
    (X73 :: (X74 :: (X72 :: (X72 :: (X65 :: (X76 :: [])))))); e_reach =
    Exported; e_ret = TPtr; e_params = (true :: []); e_self = None; e_slots =
    O; e_parsed = true; e_prelude = ((Guard (GRequire, (O :: []),
    RvNull)) :: (Body :: [])) } :: ({ e_name =
    (X73 :: (X70 :: (X69 :: (X66 :: (X74 :: (X6f :: (X6f :: (X6c :: (X5f :: (X73 :: (X61 :: (X66 :: (X65 :: (X5f :: (X73 :: (X74 :: (X72 :: (X6e :: (X63 :: (X70 :: (X79 :: [])))))))))))))))))))));
    e_reach = Exported; e_ret = TBool; e_params =
    (true :: (true :: (false :: []))); e_self = None; e_slots = O; e_parsed =
    true; e_prelude = ((Guard (GAssert, (O :: []), RvFalse)) :: ((Guard
    (GRequire, ((S O) :: []), RvFalse)) :: ((Guard (GRequire, [],
    RvFalse)) :: (Body :: [])))) } :: ({ e_name =
    (X73 :: (X70 :: (X69 :: (X66 :: (X74 :: (X6f :: (X6f :: (X6c :: (X5f :: (X73 :: (X61 :: (X66 :: (X65 :: (X5f :: (X73 :: (X74 :: (X72 :: (X6e :: (X63 :: (X61 :: (X74 :: [])))))))))))))))))))));
    e_reach = Exported; e_ret = TBool; e_params =
    (true :: (true :: (false :: []))); e_self = None; e_slots = O; e_parsed =
    true; e_prelude = ((Guard (GAssert, (O :: []), RvFalse)) :: ((Guard
    (GRequire, ((S O) :: []), RvFalse)) :: ((Guard (GRequire, [],
    RvFalse)) :: (Body :: [])))) } :: ({ e_name =
    (X73 :: (X70 :: (X69 :: (X66 :: (X74 :: (X6f :: (X6f :: (X6c :: (X5f :: (X73 :: (X75 :: (X62 :: (X73 :: (X74 :: (X72 :: [])))))))))))))));
    e_reach = Exported; e_ret = TPtr; e_params =
    (true :: (false :: (false :: []))); e_self = None; e_slots = O;
    e_parsed = true; e_prelude = ((Guard (GRequire, (O :: []),
    RvNull)) :: (Body :: [])) } :: ({ e_name =
    (X73 :: (X70 :: (X69 :: (X66 :: (X74 :: (X6f :: (X6f :: (X6c :: (X5f :: (X73 :: (X70 :: (X6c :: (X69 :: (X74 :: []))))))))))))));
    e_reach = Exported; e_ret = TPtr; e_params = (true :: (true :: []));
    e_self = None; e_slots = O; e_parsed = true; e_prelude = ((Guard
    (GRequire, ((S O) :: []), RvNull)) :: (Body :: [])) } :: ({ e_name =
    (X73 :: (X70 :: (X69 :: (X66 :: (X74 :: (X6f :: (X6f :: (X6c :: (X5f :: (X73 :: (X70 :: (X6c :: (X69 :: (X74 :: (X5f :: (X72 :: (X65 :: (X67 :: (X65 :: (X78 :: (X70 :: [])))))))))))))))))))));
    e_reach = Exported; e_ret = TPtr; e_params = (true :: (true :: []));
    e_self = None; e_slots = O; e_parsed = true; e_prelude =
    (Body :: []) } :: ({ e_name =
    (X73 :: (X70 :: (X69 :: (X66 :: (X74 :: (X6f :: (X6f :: (X6c :: (X5f :: (X6a :: (X6f :: (X69 :: (X6e :: [])))))))))))));
    e_reach = Exported; e_ret = TPtr; e_params = (true :: (true :: []));
    e_self = None; e_slots = O; e_parsed = true; e_prelude = ((Guard
    (GAssert, ((S O) :: []), RvNull)) :: ((Deref (S O)) :: ((Guard (GRequire,
    [], RvNull)) :: (Body :: [])))) } :: ({ e_name =
    (X73 :: (X70 :: (X69 :: (X66 :: (X74 :: (X6f :: (X6f :: (X6c :: (X5f :: (X67 :: (X65 :: (X74 :: (X5f :: (X77 :: (X6f :: (X72 :: (X64 :: [])))))))))))))))));
    e_reach = Exported; e_ret = TPtr; e_params = (false :: (true :: []));
    e_self = None; e_slots = O; e_parsed = true; e_prelude = ((Guard
    (GAssert, ((S O) :: []), RvNull)) :: (Body :: [])) } :: ({ e_name =
    (X73 :: (X70 :: (X69 :: (X66 :: (X74 :: (X6f :: (X6f :: (X6c :: (X5f :: (X67 :: (X65 :: (X74 :: (X5f :: (X70 :: (X77 :: (X6f :: (X72 :: (X64 :: []))))))))))))))))));
    e_reach = Exported; e_ret = TPtr; e_params = (false :: (true :: []));
    e_self = None; e_slots = O; e_parsed = true; e_prelude = ((Guard
    (GAssert, ((S O) :: []), RvNull)) :: (Body :: [])) } :: ({ e_name =
    (X73 :: (X70 :: (X69 :: (X66 :: (X74 :: (X6f :: (X6f :: (X6c :: (X5f :: (X6e :: (X75 :: (X6d :: (X5f :: (X77 :: (X6f :: (X72 :: (X64 :: (X73 :: []))))))))))))))))));
    e_reach = Exported; e_ret = TInt; e_params = (true :: []); e_self = None;
    e_slots = O; e_parsed = true; e_prelude = ((Guard (GAssert, (O :: []),
    RvNeg1)) :: (Body :: [])) } :: ({ e_name =
    (X73 :: (X70 :: (X69 :: (X66 :: (X74 :: (X6f :: (X6f :: (X6c :: (X5f :: (X63 :: (X68 :: (X6f :: (X6d :: (X70 :: []))))))))))))));
    e_reach = Exported; e_ret = TPtr; e_params = (true :: []); e_self = None;
    e_slots = O; e_parsed = true; e_prelude = ((Guard (GAssert, (O :: []),
    RvNull)) :: ((Deref O) :: ((Guard (GRequire, [],
    RvOther)) :: (Body :: [])))) } :: ({ e_name =
    (X73 :: (X70 :: (X69 :: (X66 :: (X74 :: (X6f :: (X6f :: (X6c :: (X5f :: (X64 :: (X6f :: (X77 :: (X6e :: (X63 :: (X61 :: (X73 :: (X65 :: (X5f :: (X73 :: (X74 :: (X72 :: [])))))))))))))))))))));
    e_reach = Exported; e_ret = TPtr; e_params = (true :: []); e_self = None;
    e_slots = O; e_parsed = true; e_prelude = ((Guard (GAssert, (O :: []),
    RvNull)) :: (Body :: [])) } :: ({ e_name =
    (X73 :: (X70 :: (X69 :: (X66 :: (X74 :: (X6f :: (X6f :: (X6c :: (X5f :: (X75 :: (X70 :: (X63 :: (X61 :: (X73 :: (X65 :: (X5f :: (X73 :: (X74 :: (X72 :: [])))))))))))))))))));
    e_reach = Exported; e_ret = TPtr; e_params = (true :: []); e_self = None;
    e_slots = O; e_parsed = true; e_prelude = ((Guard (GAssert, (O :: []),
    RvNull)) :: (Body :: [])) } :: ({ e_name =
    (X73 :: (X70 :: (X69 :: (X66 :: (X74 :: (X6f :: (X6f :: (X6c :: (X5f :: (X63 :: (X6f :: (X6e :: (X64 :: (X65 :: (X6e :: (X73 :: (X65 :: (X5f :: (X77 :: (X68 :: (X69 :: (X74 :: (X65 :: (X73 :: (X70 :: (X61 :: (X63 :: (X65 :: []))))))))))))))))))))))))))));
    e_reach = Exported; e_ret = TPtr; e_params = (true :: []); e_self = None;
    e_slots = O; e_parsed = true; e_prelude = ((Guard (GAssert, (O :: []),
    RvNull)) :: (Body :: [])) } :: ({ e_name =
    (X73 :: (X70 :: (X69 :: (X66 :: (X74 :: (X6f :: (X6f :: (X6c :: (X5f :: (X73 :: (X61 :: (X66 :: (X65 :: (X5f :: (X73 :: (X74 :: (X72 :: [])))))))))))))))));
    e_reach = Exported; e_ret = TPtr; e_params = (true :: (false :: []));
    e_self = None; e_slots = O; e_parsed = true; e_prelude = ((Guard
    (GAssert, (O :: []), RvNull)) :: (Body :: [])) } :: ({ e_name =
    (X73 :: (X70 :: (X69 :: (X66 :: (X74 :: (X6f :: (X6f :: (X6c :: (X5f :: (X68 :: (X65 :: (X78 :: (X5f :: (X64 :: (X75 :: (X6d :: (X70 :: [])))))))))))))))));
    e_reach = Exported; e_ret = TVoid; e_params = (true :: (false :: []));
    e_self = None; e_slots = O; e_parsed = true; e_prelude = ((Guard
    (GAssertV, (O :: []), RvVoid)) :: (Body :: [])) } :: ({ e_name =
    (X73 :: (X70 :: (X69 :: (X66 :: (X74 :: (X6f :: (X6f :: (X6c :: (X5f :: (X76 :: (X65 :: (X72 :: (X73 :: (X69 :: (X6f :: (X6e :: (X5f :: (X63 :: (X6f :: (X6d :: (X70 :: (X61 :: (X72 :: (X65 :: []))))))))))))))))))))))));
    e_reach = Exported; e_ret = TCmp; e_params = (true :: (true :: []));
    e_self = None; e_slots = O; e_parsed = true; e_prelude =
    (Body :: []) } :: ({ e_name =
    (X73 :: (X70 :: (X69 :: (X66 :: (X63 :: (X6f :: (X6e :: (X66 :: (X5f :: (X69 :: (X6e :: (X69 :: (X74 :: (X5f :: (X73 :: (X75 :: (X62 :: (X73 :: (X79 :: (X73 :: (X74 :: (X65 :: (X6d :: [])))))))))))))))))))))));
    e_reach = Exported; e_ret = TVoid; e_params = []; e_self = None;
    e_slots = O; e_parsed = true; e_prelude = (Body :: []) } :: ({ e_name =
    (X73 :: (X70 :: (X69 :: (X66 :: (X63 :: (X6f :: (X6e :: (X66 :: (X5f :: (X72 :: (X65 :: (X67 :: (X69 :: (X73 :: (X74 :: (X65 :: (X72 :: (X5f :: (X63 :: (X6f :: (X6e :: (X74 :: (X65 :: (X78 :: (X74 :: [])))))))))))))))))))))))));
    e_reach = Exported; e_ret = TInt; e_params = (true :: (true :: []));
    e_self = None; e_slots = O; e_parsed = true; e_prelude = ((Guard
    (GAssert, (O :: []), RvNeg1)) :: ((Guard (GAssert, ((S O) :: []),
    RvNeg1)) :: (Body :: []))) } :: ({ e_name =
    (X73 :: (X70 :: (X69 :: (X66 :: (X63 :: (X6f :: (X6e :: (X66 :: (X5f :: (X72 :: (X65 :: (X67 :: (X69 :: (X73 :: (X74 :: (X65 :: (X72 :: (X5f :: (X66 :: (X73 :: (X74 :: (X61 :: (X74 :: (X65 :: []))))))))))))))))))))))));
    e_reach = Exported; e_ret = TInt; e_params =
    (true :: (true :: (true :: (false :: (false :: []))))); e_self = None;
    e_slots = O; e_parsed = true; e_prelude = ((Guard (GAssert, (O :: []),
    RvNeg1)) :: ((Guard (GAssert, ((S O) :: []),
    RvNeg1)) :: (Body :: []))) } :: ({ e_name =
    (X73 :: (X70 :: (X69 :: (X66 :: (X63 :: (X6f :: (X6e :: (X66 :: (X5f :: (X72 :: (X65 :: (X67 :: (X69 :: (X73 :: (X74 :: (X65 :: (X72 :: (X5f :: (X62 :: (X75 :: (X69 :: (X6c :: (X74 :: (X69 :: (X6e :: [])))))))))))))))))))))))));
    e_reach = Exported; e_ret = TInt; e_params = (true :: (true :: []));
    e_self = None; e_slots = O; e_parsed = true; e_prelude = ((Guard
    (GAssert, (O :: []), RvNeg1)) :: (Body :: [])) } :: ({ e_name =
    (X73 :: (X70 :: (X69 :: (X66 :: (X63 :: (X6f :: (X6e :: (X66 :: (X5f :: (X72 :: (X65 :: (X67 :: (X69 :: (X73 :: (X74 :: (X65 :: (X72 :: (X5f :: (X63 :: (X6f :: (X6e :: (X74 :: (X65 :: (X78 :: (X74 :: (X5f :: (X73 :: (X74 :: (X61 :: (X74 :: (X65 :: [])))))))))))))))))))))))))))))));
    e_reach = Exported; e_ret = TInt; e_params = (false :: []); e_self =
    None; e_slots = O; e_parsed = true; e_prelude =
    (Body :: []) } :: ({ e_name =
    (X73 :: (X70 :: (X69 :: (X66 :: (X63 :: (X6f :: (X6e :: (X66 :: (X5f :: (X66 :: (X72 :: (X65 :: (X65 :: (X5f :: (X73 :: (X75 :: (X62 :: (X73 :: (X79 :: (X73 :: (X74 :: (X65 :: (X6d :: [])))))))))))))))))))))));
    e_reach = Exported; e_ret = TVoid; e_params = []; e_self = None;
    e_slots = O; e_parsed = true; e_prelude = (Body :: []) } :: ({ e_name =
    (X73 :: (X70 :: (X69 :: (X66 :: (X63 :: (X6f :: (X6e :: (X66 :: (X5f :: (X6e :: (X65 :: (X77 :: (X5f :: (X76 :: (X61 :: (X72 :: []))))))))))))))));
    e_reach = Helper; e_ret = TPtr; e_params = []; e_self = None; e_slots =
    O; e_parsed = true; e_prelude = (Body :: []) } :: ({ e_name =
    (X73 :: (X70 :: (X69 :: (X66 :: (X63 :: (X6f :: (X6e :: (X66 :: (X5f :: (X66 :: (X72 :: (X65 :: (X65 :: (X5f :: (X76 :: (X61 :: (X72 :: [])))))))))))))))));
    e_reach = Helper; e_ret = TVoid; e_params = (true :: []); e_self = None;
    e_slots = O; e_parsed = true; e_prelude = ((Guard (GAssertV, (O :: []),
    RvVoid)) :: (Body :: [])) } :: ({ e_name =
    (X73 :: (X70 :: (X69 :: (X66 :: (X63 :: (X6f :: (X6e :: (X66 :: (X5f :: (X67 :: (X65 :: (X74 :: (X5f :: (X76 :: (X61 :: (X72 :: []))))))))))))))));
    e_reach = Helper; e_ret = TPtr; e_params = (true :: []); e_self = None;
    e_slots = O; e_parsed = true; e_prelude = ((Guard (GAssert, (O :: []),
    RvNull)) :: (Body :: [])) } :: ({ e_name =
    (X73 :: (X70 :: (X69 :: (X66 :: (X63 :: (X6f :: (X6e :: (X66 :: (X5f :: (X70 :: (X75 :: (X74 :: (X5f :: (X76 :: (X61 :: (X72 :: []))))))))))))))));
    e_reach = Helper; e_ret = TVoid; e_params = (true :: (true :: []));
    e_self = None; e_slots = O; e_parsed = true; e_prelude = ((Guard
    (GAssertV, (O :: []), RvVoid)) :: (Body :: [])) } :: ({ e_name =
    (X62 :: (X75 :: (X69 :: (X6c :: (X74 :: (X69 :: (X6e :: (X5f :: (X72 :: (X61 :: (X6e :: (X64 :: (X6f :: (X6d :: []))))))))))))));
    e_reach = Helper; e_ret = TPtr; e_params = (true :: []); e_self = None;
    e_slots = O; e_parsed = true; e_prelude = ((Guard (GRequire, (O :: []),
    RvNull)) :: (Body :: [])) } :: ({ e_name =
    (X62 :: (X75 :: (X69 :: (X6c :: (X74 :: (X69 :: (X6e :: (X5f :: (X65 :: (X78 :: (X65 :: (X63 :: []))))))))))));
    e_reach = Helper; e_ret = TPtr; e_params = (true :: []); e_self = None;
    e_slots = O; e_parsed = true; e_prelude = ((Guard (GRequire, (O :: []),
    RvNull)) :: (Body :: [])) } :: ({ e_name =
    (X62 :: (X75 :: (X69 :: (X6c :: (X74 :: (X69 :: (X6e :: (X5f :: (X67 :: (X65 :: (X74 :: [])))))))))));
    e_reach = Helper; e_ret = TPtr; e_params = (true :: []); e_self = None;
    e_slots = O; e_parsed = true; e_prelude = (Body :: []) } :: ({ e_name =
    (X62 :: (X75 :: (X69 :: (X6c :: (X74 :: (X69 :: (X6e :: (X5f :: (X70 :: (X75 :: (X74 :: [])))))))))));
    e_reach = Helper; e_ret = TPtr; e_params = (true :: []); e_self = None;
    e_slots = O; e_parsed = true; e_prelude = (Body :: []) } :: ({ e_name =
    (X62 :: (X75 :: (X69 :: (X6c :: (X74 :: (X69 :: (X6e :: (X5f :: (X64 :: (X69 :: (X72 :: (X73 :: (X63 :: (X61 :: (X6e :: [])))))))))))))));
    e_reach = Helper; e_ret = TPtr; e_params = (true :: []); e_self = None;
    e_slots = O; e_parsed = true; e_prelude = (Body :: []) } :: ({ e_name =
    (X62 :: (X75 :: (X69 :: (X6c :: (X74 :: (X69 :: (X6e :: (X5f :: (X76 :: (X65 :: (X72 :: (X73 :: (X69 :: (X6f :: (X6e :: [])))))))))))))));
    e_reach = Helper; e_ret = TPtr; e_params = (true :: []); e_self = None;
    e_slots = O; e_parsed = true; e_prelude = (Body :: []) } :: ({ e_name =
    (X62 :: (X75 :: (X69 :: (X6c :: (X74 :: (X69 :: (X6e :: (X5f :: (X61 :: (X70 :: (X70 :: (X6e :: (X61 :: (X6d :: (X65 :: [])))))))))))))));
    e_reach = Helper; e_ret = TPtr; e_params = (true :: []); e_self = None;
    e_slots = O; e_parsed = true; e_prelude = (Body :: []) } :: ({ e_name =
    (X73 :: (X70 :: (X69 :: (X66 :: (X63 :: (X6f :: (X6e :: (X66 :: (X5f :: (X73 :: (X68 :: (X65 :: (X6c :: (X6c :: (X5f :: (X65 :: (X78 :: (X70 :: (X61 :: (X6e :: (X64 :: [])))))))))))))))))))));
    e_reach = Exported; e_ret = TPtr; e_params = (true :: []); e_self = None;
    e_slots = O; e_parsed = true; e_prelude = ((Guard (GAssert, (O :: []),
    RvNull)) :: (Body :: [])) } :: ({ e_name =
    (X73 :: (X70 :: (X69 :: (X66 :: (X63 :: (X6f :: (X6e :: (X66 :: (X5f :: (X73 :: (X68 :: (X65 :: (X6c :: (X6c :: (X5f :: (X65 :: (X78 :: (X70 :: (X61 :: (X6e :: (X64 :: (X5f :: (X69 :: (X6e :: (X74 :: (X6f :: []))))))))))))))))))))))))));
    e_reach = Helper; e_ret = TPtr; e_params = (true :: (true :: []));
    e_self = None; e_slots = O; e_parsed = true; e_prelude = ((Guard
    (GAssert, (O :: []), RvNull)) :: (Body :: [])) } :: ({ e_name =
    (X73 :: (X70 :: (X69 :: (X66 :: (X63 :: (X6f :: (X6e :: (X66 :: (X5f :: (X66 :: (X69 :: (X6e :: (X64 :: (X5f :: (X66 :: (X69 :: (X6c :: (X65 :: []))))))))))))))))));
    e_reach = Exported; e_ret = TPtr; e_params =
    (true :: (true :: (true :: []))); e_self = None; e_slots = O; e_parsed =
    true; e_prelude = ((Guard (GRequire, (O :: []),
    RvNull)) :: (Body :: [])) } :: ({ e_name =
    (X73 :: (X70 :: (X69 :: (X66 :: (X63 :: (X6f :: (X6e :: (X66 :: (X5f :: (X6f :: (X70 :: (X65 :: (X6e :: (X5f :: (X66 :: (X69 :: (X6c :: (X65 :: []))))))))))))))))));
    e_reach = Exported; e_ret = TPtr; e_params = (true :: []); e_self = None;
    e_slots = O; e_parsed = true; e_prelude = ((Guard (GAssert, (O :: []),
    RvNull)) :: (Body :: [])) } :: ({ e_name =
    (X73 :: (X70 :: (X69 :: (X66 :: (X63 :: (X6f :: (X6e :: (X66 :: (X5f :: (X70 :: (X61 :: (X72 :: (X73 :: (X65 :: (X5f :: (X6c :: (X69 :: (X6e :: (X65 :: [])))))))))))))))))));
    e_reach = Exported; e_ret = TVoid; e_params = (true :: (true :: []));
    e_self = None; e_slots = O; e_parsed = true; e_prelude = ((Guard
    (GAssertV, ((S O) :: []), RvVoid)) :: (Body :: [])) } :: ({ e_name =
    (X73 :: (X70 :: (X69 :: (X66 :: (X63 :: (X6f :: (X6e :: (X66 :: (X5f :: (X70 :: (X61 :: (X72 :: (X73 :: (X65 :: []))))))))))))));
    e_reach = Exported; e_ret = TPtr; e_params =
    (true :: (true :: (true :: []))); e_self = None; e_slots = O; e_parsed =
    true; e_prelude = ((Guard (GRequire, (O :: []),
    RvNull)) :: (Body :: [])) } :: ({ e_name =
    (X70 :: (X61 :: (X72 :: (X73 :: (X65 :: (X5f :: (X6e :: (X75 :: (X6c :: (X6c :: []))))))))));
    e_reach = Helper; e_ret = TPtr; e_params = (true :: (true :: []));
    e_self = None; e_slots = O; e_parsed = true; e_prelude = ((Guard
    (GAssert, (O :: []), RvNull)) :: (Body :: [])) } :: ({ e_name =
    (X6c :: (X69 :: (X62 :: (X61 :: (X73 :: (X74 :: (X5f :: (X73 :: (X65 :: (X74 :: (X5f :: (X70 :: (X72 :: (X6f :: (X67 :: (X72 :: (X61 :: (X6d :: (X5f :: (X6e :: (X61 :: (X6d :: (X65 :: [])))))))))))))))))))))));
    e_reach = Exported; e_ret = TVoid; e_params = (true :: []); e_self =
    None; e_slots = O; e_parsed = true; e_prelude =
    (Body :: []) } :: ({ e_name =
    (X6c :: (X69 :: (X62 :: (X61 :: (X73 :: (X74 :: (X5f :: (X73 :: (X65 :: (X74 :: (X5f :: (X70 :: (X72 :: (X6f :: (X67 :: (X72 :: (X61 :: (X6d :: (X5f :: (X76 :: (X65 :: (X72 :: (X73 :: (X69 :: (X6f :: (X6e :: []))))))))))))))))))))))))));
    e_reach = Exported; e_ret = TVoid; e_params = (true :: []); e_self =
    None; e_slots = O; e_parsed = true; e_prelude =
    (Body :: []) } :: ({ e_name =
    (X6c :: (X69 :: (X62 :: (X61 :: (X73 :: (X74 :: (X5f :: (X73 :: (X65 :: (X74 :: (X5f :: (X73 :: (X69 :: (X6c :: (X65 :: (X6e :: (X74 :: [])))))))))))))))));
    e_reach = Exported; e_ret = TBool; e_params = (false :: []); e_self =
    None; e_slots = O; e_parsed = true; e_prelude =
    (Body :: []) } :: ({ e_name =
    (X6c :: (X69 :: (X62 :: (X61 :: (X73 :: (X74 :: (X5f :: (X64 :: (X70 :: (X72 :: (X69 :: (X6e :: (X74 :: (X66 :: []))))))))))))));
    e_reach = Exported; e_ret = TInt; e_params = (true :: (false :: []));
    e_self = None; e_slots = O; e_parsed = true; e_prelude = ((Guard
    (GAssert, (O :: []), RvNeg1)) :: (Body :: [])) } :: ({ e_name =
    (X6c :: (X69 :: (X62 :: (X61 :: (X73 :: (X74 :: (X5f :: (X70 :: (X72 :: (X69 :: (X6e :: (X74 :: (X5f :: (X65 :: (X72 :: (X72 :: (X6f :: (X72 :: []))))))))))))))))));
    e_reach = Exported; e_ret = TVoid; e_params = (true :: (false :: []));
    e_self = None; e_slots = O; e_parsed = true; e_prelude = ((Guard
    (GAssertV, (O :: []), RvVoid)) :: (Body :: [])) } :: ({ e_name =
    (X6c :: (X69 :: (X62 :: (X61 :: (X73 :: (X74 :: (X5f :: (X70 :: (X72 :: (X69 :: (X6e :: (X74 :: (X5f :: (X77 :: (X61 :: (X72 :: (X6e :: (X69 :: (X6e :: (X67 :: []))))))))))))))))))));
    e_reach = Exported; e_ret = TVoid; e_params = (true :: (false :: []));
    e_self = None; e_slots = O; e_parsed = true; e_prelude = ((Guard
    (GAssertV, (O :: []), RvVoid)) :: (Body :: [])) } :: ({ e_name =
    (X6c :: (X69 :: (X62 :: (X61 :: (X73 :: (X74 :: (X5f :: (X66 :: (X61 :: (X74 :: (X61 :: (X6c :: (X5f :: (X65 :: (X72 :: (X72 :: (X6f :: (X72 :: []))))))))))))))))));
    e_reach = Exported; e_ret = TVoid; e_params = (true :: (false :: []));
    e_self = None; e_slots = O; e_parsed = true; e_prelude = ((Guard
    (GAssertV, (O :: []),
    RvVoid)) :: (Body :: [])) } :: [])))))))))))))))))))))))))))))))))))))))))))))))))))))))))))))))))))))))))))))))))))))))))))))))))))))))))))))))))))))))))))))))))))))))))))))))))))))))))))))))))))))))))))))))))))))))))))))))))))))))))))))))))))))))))))))))))))))))))))))))))))))))))))))))))))))))))))))))))))))))))))))))))))))))))))))))))))))))))))))))))))))))))))))))))))))))))))))))))))))))))))))))))))))))))))))))))))))))))))))))))))))))))))))))))))))))))))))))))))))))))))))))))))))))))))))))))))))))))))))))))))))))))))))))))))))))))))

(** val named_cells : cell list **)

let named_cells =
  ((X73 :: (X70 :: (X69 :: (X66 :: (X5f :: (X6f :: (X62 :: (X6a :: (X5f :: (X64 :: (X65 :: (X6c :: [])))))))))))),
    O) :: (((X73 :: (X70 :: (X69 :: (X66 :: (X5f :: (X6f :: (X62 :: (X6a :: (X5f :: (X69 :: (X6e :: (X69 :: (X74 :: []))))))))))))),
    O) :: (((X73 :: (X70 :: (X69 :: (X66 :: (X5f :: (X6f :: (X62 :: (X6a :: (X5f :: (X64 :: (X6f :: (X6e :: (X65 :: []))))))))))))),
    O) :: (((X73 :: (X70 :: (X69 :: (X66 :: (X5f :: (X6f :: (X62 :: (X6a :: (X5f :: (X63 :: (X6f :: (X6d :: (X70 :: []))))))))))))),
    O) :: (((X73 :: (X70 :: (X69 :: (X66 :: (X5f :: (X6f :: (X62 :: (X6a :: (X5f :: (X63 :: (X6f :: (X6d :: (X70 :: []))))))))))))),
    (S
    O)) :: (((X73 :: (X70 :: (X69 :: (X66 :: (X5f :: (X6f :: (X62 :: (X6a :: (X5f :: (X64 :: (X75 :: (X70 :: [])))))))))))),
    O) :: (((X73 :: (X70 :: (X69 :: (X66 :: (X5f :: (X6f :: (X62 :: (X6a :: (X5f :: (X74 :: (X79 :: (X70 :: (X65 :: []))))))))))))),
    O) :: (((X73 :: (X70 :: (X69 :: (X66 :: (X5f :: (X6f :: (X62 :: (X6a :: (X5f :: (X67 :: (X65 :: (X74 :: (X5f :: (X63 :: (X6c :: (X61 :: (X73 :: (X73 :: [])))))))))))))))))),
    O) :: (((X73 :: (X70 :: (X69 :: (X66 :: (X5f :: (X6f :: (X62 :: (X6a :: (X5f :: (X73 :: (X65 :: (X74 :: (X5f :: (X63 :: (X6c :: (X61 :: (X73 :: (X73 :: [])))))))))))))))))),
    O) :: (((X73 :: (X70 :: (X69 :: (X66 :: (X5f :: (X73 :: (X74 :: (X72 :: (X5f :: (X69 :: (X6e :: (X69 :: (X74 :: []))))))))))))),
    O) :: (((X73 :: (X70 :: (X69 :: (X66 :: (X5f :: (X73 :: (X74 :: (X72 :: (X5f :: (X69 :: (X6e :: (X69 :: (X74 :: (X5f :: (X66 :: (X72 :: (X6f :: (X6d :: (X5f :: (X70 :: (X74 :: (X72 :: [])))))))))))))))))))))),
    O) :: (((X73 :: (X70 :: (X69 :: (X66 :: (X5f :: (X73 :: (X74 :: (X72 :: (X5f :: (X69 :: (X6e :: (X69 :: (X74 :: (X5f :: (X66 :: (X72 :: (X6f :: (X6d :: (X5f :: (X70 :: (X74 :: (X72 :: [])))))))))))))))))))))),
    (S
    O)) :: (((X73 :: (X70 :: (X69 :: (X66 :: (X5f :: (X73 :: (X74 :: (X72 :: (X5f :: (X69 :: (X6e :: (X69 :: (X74 :: (X5f :: (X66 :: (X72 :: (X6f :: (X6d :: (X5f :: (X62 :: (X75 :: (X66 :: (X66 :: []))))))))))))))))))))))),
    O) :: (((X73 :: (X70 :: (X69 :: (X66 :: (X5f :: (X73 :: (X74 :: (X72 :: (X5f :: (X69 :: (X6e :: (X69 :: (X74 :: (X5f :: (X66 :: (X72 :: (X6f :: (X6d :: (X5f :: (X66 :: (X70 :: []))))))))))))))))))))),
    O) :: (((X73 :: (X70 :: (X69 :: (X66 :: (X5f :: (X73 :: (X74 :: (X72 :: (X5f :: (X69 :: (X6e :: (X69 :: (X74 :: (X5f :: (X66 :: (X72 :: (X6f :: (X6d :: (X5f :: (X66 :: (X70 :: []))))))))))))))))))))),
    (S
    O)) :: (((X73 :: (X70 :: (X69 :: (X66 :: (X5f :: (X73 :: (X74 :: (X72 :: (X5f :: (X69 :: (X6e :: (X69 :: (X74 :: (X5f :: (X66 :: (X72 :: (X6f :: (X6d :: (X5f :: (X66 :: (X64 :: []))))))))))))))))))))),
    O) :: (((X73 :: (X70 :: (X69 :: (X66 :: (X5f :: (X73 :: (X74 :: (X72 :: (X5f :: (X69 :: (X6e :: (X69 :: (X74 :: (X5f :: (X66 :: (X72 :: (X6f :: (X6d :: (X5f :: (X6e :: (X75 :: (X6d :: [])))))))))))))))))))))),
    O) :: (((X73 :: (X70 :: (X69 :: (X66 :: (X5f :: (X73 :: (X74 :: (X72 :: (X5f :: (X64 :: (X6f :: (X6e :: (X65 :: []))))))))))))),
    O) :: (((X73 :: (X70 :: (X69 :: (X66 :: (X5f :: (X73 :: (X74 :: (X72 :: (X5f :: (X64 :: (X65 :: (X6c :: [])))))))))))),
    O) :: (((X73 :: (X70 :: (X69 :: (X66 :: (X5f :: (X73 :: (X74 :: (X72 :: (X5f :: (X64 :: (X75 :: (X70 :: [])))))))))))),
    O) :: (((X73 :: (X70 :: (X69 :: (X66 :: (X5f :: (X73 :: (X74 :: (X72 :: (X5f :: (X74 :: (X79 :: (X70 :: (X65 :: []))))))))))))),
    O) :: (((X73 :: (X70 :: (X69 :: (X66 :: (X5f :: (X73 :: (X74 :: (X72 :: (X5f :: (X61 :: (X70 :: (X70 :: (X65 :: (X6e :: (X64 :: []))))))))))))))),
    O) :: (((X73 :: (X70 :: (X69 :: (X66 :: (X5f :: (X73 :: (X74 :: (X72 :: (X5f :: (X61 :: (X70 :: (X70 :: (X65 :: (X6e :: (X64 :: []))))))))))))))),
    (S
    O)) :: (((X73 :: (X70 :: (X69 :: (X66 :: (X5f :: (X73 :: (X74 :: (X72 :: (X5f :: (X61 :: (X70 :: (X70 :: (X65 :: (X6e :: (X64 :: (X5f :: (X63 :: (X68 :: (X61 :: (X72 :: [])))))))))))))))))))),
    O) :: (((X73 :: (X70 :: (X69 :: (X66 :: (X5f :: (X73 :: (X74 :: (X72 :: (X5f :: (X61 :: (X70 :: (X70 :: (X65 :: (X6e :: (X64 :: (X5f :: (X66 :: (X72 :: (X6f :: (X6d :: (X5f :: (X70 :: (X74 :: (X72 :: [])))))))))))))))))))))))),
    O) :: (((X73 :: (X70 :: (X69 :: (X66 :: (X5f :: (X73 :: (X74 :: (X72 :: (X5f :: (X61 :: (X70 :: (X70 :: (X65 :: (X6e :: (X64 :: (X5f :: (X66 :: (X72 :: (X6f :: (X6d :: (X5f :: (X70 :: (X74 :: (X72 :: [])))))))))))))))))))))))),
    (S
    O)) :: (((X73 :: (X70 :: (X69 :: (X66 :: (X5f :: (X73 :: (X74 :: (X72 :: (X5f :: (X63 :: (X61 :: (X73 :: (X65 :: (X63 :: (X6d :: (X70 :: [])))))))))))))))),
    O) :: (((X73 :: (X70 :: (X69 :: (X66 :: (X5f :: (X73 :: (X74 :: (X72 :: (X5f :: (X63 :: (X61 :: (X73 :: (X65 :: (X63 :: (X6d :: (X70 :: [])))))))))))))))),
    (S
    O)) :: (((X73 :: (X70 :: (X69 :: (X66 :: (X5f :: (X73 :: (X74 :: (X72 :: (X5f :: (X63 :: (X61 :: (X73 :: (X65 :: (X63 :: (X6d :: (X70 :: (X5f :: (X77 :: (X69 :: (X74 :: (X68 :: (X5f :: (X70 :: (X74 :: (X72 :: []))))))))))))))))))))))))),
    O) :: (((X73 :: (X70 :: (X69 :: (X66 :: (X5f :: (X73 :: (X74 :: (X72 :: (X5f :: (X63 :: (X61 :: (X73 :: (X65 :: (X63 :: (X6d :: (X70 :: (X5f :: (X77 :: (X69 :: (X74 :: (X68 :: (X5f :: (X70 :: (X74 :: (X72 :: []))))))))))))))))))))))))),
    (S
    O)) :: (((X73 :: (X70 :: (X69 :: (X66 :: (X5f :: (X73 :: (X74 :: (X72 :: (X5f :: (X63 :: (X6c :: (X65 :: (X61 :: (X72 :: [])))))))))))))),
    O) :: (((X73 :: (X70 :: (X69 :: (X66 :: (X5f :: (X73 :: (X74 :: (X72 :: (X5f :: (X63 :: (X6d :: (X70 :: [])))))))))))),
    O) :: (((X73 :: (X70 :: (X69 :: (X66 :: (X5f :: (X73 :: (X74 :: (X72 :: (X5f :: (X63 :: (X6d :: (X70 :: [])))))))))))),
    (S
    O)) :: (((X73 :: (X70 :: (X69 :: (X66 :: (X5f :: (X73 :: (X74 :: (X72 :: (X5f :: (X63 :: (X6d :: (X70 :: (X5f :: (X77 :: (X69 :: (X74 :: (X68 :: (X5f :: (X70 :: (X74 :: (X72 :: []))))))))))))))))))))),
    O) :: (((X73 :: (X70 :: (X69 :: (X66 :: (X5f :: (X73 :: (X74 :: (X72 :: (X5f :: (X63 :: (X6d :: (X70 :: (X5f :: (X77 :: (X69 :: (X74 :: (X68 :: (X5f :: (X70 :: (X74 :: (X72 :: []))))))))))))))))))))),
    (S
    O)) :: (((X73 :: (X70 :: (X69 :: (X66 :: (X5f :: (X73 :: (X74 :: (X72 :: (X5f :: (X64 :: (X6f :: (X77 :: (X6e :: (X63 :: (X61 :: (X73 :: (X65 :: []))))))))))))))))),
    O) :: (((X73 :: (X70 :: (X69 :: (X66 :: (X5f :: (X73 :: (X74 :: (X72 :: (X5f :: (X66 :: (X69 :: (X6e :: (X64 :: []))))))))))))),
    O) :: (((X73 :: (X70 :: (X69 :: (X66 :: (X5f :: (X73 :: (X74 :: (X72 :: (X5f :: (X66 :: (X69 :: (X6e :: (X64 :: []))))))))))))),
    (S
    O)) :: (((X73 :: (X70 :: (X69 :: (X66 :: (X5f :: (X73 :: (X74 :: (X72 :: (X5f :: (X66 :: (X69 :: (X6e :: (X64 :: (X5f :: (X66 :: (X72 :: (X6f :: (X6d :: (X5f :: (X70 :: (X74 :: (X72 :: [])))))))))))))))))))))),
    O) :: (((X73 :: (X70 :: (X69 :: (X66 :: (X5f :: (X73 :: (X74 :: (X72 :: (X5f :: (X66 :: (X69 :: (X6e :: (X64 :: (X5f :: (X66 :: (X72 :: (X6f :: (X6d :: (X5f :: (X70 :: (X74 :: (X72 :: [])))))))))))))))))))))),
    (S
    O)) :: (((X73 :: (X70 :: (X69 :: (X66 :: (X5f :: (X73 :: (X74 :: (X72 :: (X5f :: (X69 :: (X6e :: (X64 :: (X65 :: (X78 :: [])))))))))))))),
    O) :: (((X73 :: (X70 :: (X69 :: (X66 :: (X5f :: (X73 :: (X74 :: (X72 :: (X5f :: (X6e :: (X63 :: (X61 :: (X73 :: (X65 :: (X63 :: (X6d :: (X70 :: []))))))))))))))))),
    O) :: (((X73 :: (X70 :: (X69 :: (X66 :: (X5f :: (X73 :: (X74 :: (X72 :: (X5f :: (X6e :: (X63 :: (X61 :: (X73 :: (X65 :: (X63 :: (X6d :: (X70 :: []))))))))))))))))),
    (S
    O)) :: (((X73 :: (X70 :: (X69 :: (X66 :: (X5f :: (X73 :: (X74 :: (X72 :: (X5f :: (X6e :: (X63 :: (X61 :: (X73 :: (X65 :: (X63 :: (X6d :: (X70 :: (X5f :: (X77 :: (X69 :: (X74 :: (X68 :: (X5f :: (X70 :: (X74 :: (X72 :: [])))))))))))))))))))))))))),
    O) :: (((X73 :: (X70 :: (X69 :: (X66 :: (X5f :: (X73 :: (X74 :: (X72 :: (X5f :: (X6e :: (X63 :: (X61 :: (X73 :: (X65 :: (X63 :: (X6d :: (X70 :: (X5f :: (X77 :: (X69 :: (X74 :: (X68 :: (X5f :: (X70 :: (X74 :: (X72 :: [])))))))))))))))))))))))))),
    (S
    O)) :: (((X73 :: (X70 :: (X69 :: (X66 :: (X5f :: (X73 :: (X74 :: (X72 :: (X5f :: (X6e :: (X63 :: (X6d :: (X70 :: []))))))))))))),
    O) :: (((X73 :: (X70 :: (X69 :: (X66 :: (X5f :: (X73 :: (X74 :: (X72 :: (X5f :: (X6e :: (X63 :: (X6d :: (X70 :: []))))))))))))),
    (S
    O)) :: (((X73 :: (X70 :: (X69 :: (X66 :: (X5f :: (X73 :: (X74 :: (X72 :: (X5f :: (X6e :: (X63 :: (X6d :: (X70 :: (X5f :: (X77 :: (X69 :: (X74 :: (X68 :: (X5f :: (X70 :: (X74 :: (X72 :: [])))))))))))))))))))))),
    O) :: (((X73 :: (X70 :: (X69 :: (X66 :: (X5f :: (X73 :: (X74 :: (X72 :: (X5f :: (X6e :: (X63 :: (X6d :: (X70 :: (X5f :: (X77 :: (X69 :: (X74 :: (X68 :: (X5f :: (X70 :: (X74 :: (X72 :: [])))))))))))))))))))))),
    (S
    O)) :: (((X73 :: (X70 :: (X69 :: (X66 :: (X5f :: (X73 :: (X74 :: (X72 :: (X5f :: (X70 :: (X72 :: (X65 :: (X70 :: (X65 :: (X6e :: (X64 :: [])))))))))))))))),
    O) :: (((X73 :: (X70 :: (X69 :: (X66 :: (X5f :: (X73 :: (X74 :: (X72 :: (X5f :: (X70 :: (X72 :: (X65 :: (X70 :: (X65 :: (X6e :: (X64 :: [])))))))))))))))),
    (S
    O)) :: (((X73 :: (X70 :: (X69 :: (X66 :: (X5f :: (X73 :: (X74 :: (X72 :: (X5f :: (X70 :: (X72 :: (X65 :: (X70 :: (X65 :: (X6e :: (X64 :: (X5f :: (X63 :: (X68 :: (X61 :: (X72 :: []))))))))))))))))))))),
    O) :: (((X73 :: (X70 :: (X69 :: (X66 :: (X5f :: (X73 :: (X74 :: (X72 :: (X5f :: (X70 :: (X72 :: (X65 :: (X70 :: (X65 :: (X6e :: (X64 :: (X5f :: (X66 :: (X72 :: (X6f :: (X6d :: (X5f :: (X70 :: (X74 :: (X72 :: []))))))))))))))))))))))))),
    O) :: (((X73 :: (X70 :: (X69 :: (X66 :: (X5f :: (X73 :: (X74 :: (X72 :: (X5f :: (X70 :: (X72 :: (X65 :: (X70 :: (X65 :: (X6e :: (X64 :: (X5f :: (X66 :: (X72 :: (X6f :: (X6d :: (X5f :: (X70 :: (X74 :: (X72 :: []))))))))))))))))))))))))),
    (S
    O)) :: (((X73 :: (X70 :: (X69 :: (X66 :: (X5f :: (X73 :: (X74 :: (X72 :: (X5f :: (X72 :: (X65 :: (X76 :: (X65 :: (X72 :: (X73 :: (X65 :: [])))))))))))))))),
    O) :: (((X73 :: (X70 :: (X69 :: (X66 :: (X5f :: (X73 :: (X74 :: (X72 :: (X5f :: (X72 :: (X69 :: (X6e :: (X64 :: (X65 :: (X78 :: []))))))))))))))),
    O) :: (((X73 :: (X70 :: (X69 :: (X66 :: (X5f :: (X73 :: (X74 :: (X72 :: (X5f :: (X73 :: (X70 :: (X6c :: (X69 :: (X63 :: (X65 :: []))))))))))))))),
    O) :: (((X73 :: (X70 :: (X69 :: (X66 :: (X5f :: (X73 :: (X74 :: (X72 :: (X5f :: (X73 :: (X70 :: (X6c :: (X69 :: (X63 :: (X65 :: (X5f :: (X66 :: (X72 :: (X6f :: (X6d :: (X5f :: (X70 :: (X74 :: (X72 :: [])))))))))))))))))))))))),
    O) :: (((X73 :: (X70 :: (X69 :: (X66 :: (X5f :: (X73 :: (X74 :: (X72 :: (X5f :: (X73 :: (X70 :: (X72 :: (X69 :: (X6e :: (X74 :: (X66 :: [])))))))))))))))),
    O) :: (((X73 :: (X70 :: (X69 :: (X66 :: (X5f :: (X73 :: (X74 :: (X72 :: (X5f :: (X73 :: (X75 :: (X62 :: (X73 :: (X74 :: (X72 :: []))))))))))))))),
    O) :: (((X73 :: (X70 :: (X69 :: (X66 :: (X5f :: (X73 :: (X74 :: (X72 :: (X5f :: (X73 :: (X75 :: (X62 :: (X73 :: (X74 :: (X72 :: (X5f :: (X74 :: (X6f :: (X5f :: (X70 :: (X74 :: (X72 :: [])))))))))))))))))))))),
    O) :: (((X73 :: (X70 :: (X69 :: (X66 :: (X5f :: (X73 :: (X74 :: (X72 :: (X5f :: (X74 :: (X6f :: (X5f :: (X66 :: (X6c :: (X6f :: (X61 :: (X74 :: []))))))))))))))))),
    O) :: (((X73 :: (X70 :: (X69 :: (X66 :: (X5f :: (X73 :: (X74 :: (X72 :: (X5f :: (X74 :: (X6f :: (X5f :: (X6e :: (X75 :: (X6d :: []))))))))))))))),
    O) :: (((X73 :: (X70 :: (X69 :: (X66 :: (X5f :: (X73 :: (X74 :: (X72 :: (X5f :: (X74 :: (X72 :: (X69 :: (X6d :: []))))))))))))),
    O) :: (((X73 :: (X70 :: (X69 :: (X66 :: (X5f :: (X73 :: (X74 :: (X72 :: (X5f :: (X75 :: (X70 :: (X63 :: (X61 :: (X73 :: (X65 :: []))))))))))))))),
    O) :: (((X73 :: (X70 :: (X69 :: (X66 :: (X5f :: (X75 :: (X73 :: (X74 :: (X72 :: (X5f :: (X69 :: (X6e :: (X69 :: (X74 :: [])))))))))))))),
    O) :: (((X73 :: (X70 :: (X69 :: (X66 :: (X5f :: (X75 :: (X73 :: (X74 :: (X72 :: (X5f :: (X69 :: (X6e :: (X69 :: (X74 :: (X5f :: (X66 :: (X72 :: (X6f :: (X6d :: (X5f :: (X70 :: (X74 :: (X72 :: []))))))))))))))))))))))),
    O) :: (((X73 :: (X70 :: (X69 :: (X66 :: (X5f :: (X75 :: (X73 :: (X74 :: (X72 :: (X5f :: (X69 :: (X6e :: (X69 :: (X74 :: (X5f :: (X66 :: (X72 :: (X6f :: (X6d :: (X5f :: (X70 :: (X74 :: (X72 :: []))))))))))))))))))))))),
    (S
    O)) :: (((X73 :: (X70 :: (X69 :: (X66 :: (X5f :: (X75 :: (X73 :: (X74 :: (X72 :: (X5f :: (X69 :: (X6e :: (X69 :: (X74 :: (X5f :: (X66 :: (X72 :: (X6f :: (X6d :: (X5f :: (X62 :: (X75 :: (X66 :: (X66 :: [])))))))))))))))))))))))),
    O) :: (((X73 :: (X70 :: (X69 :: (X66 :: (X5f :: (X75 :: (X73 :: (X74 :: (X72 :: (X5f :: (X69 :: (X6e :: (X69 :: (X74 :: (X5f :: (X66 :: (X72 :: (X6f :: (X6d :: (X5f :: (X66 :: (X70 :: [])))))))))))))))))))))),
    O) :: (((X73 :: (X70 :: (X69 :: (X66 :: (X5f :: (X75 :: (X73 :: (X74 :: (X72 :: (X5f :: (X69 :: (X6e :: (X69 :: (X74 :: (X5f :: (X66 :: (X72 :: (X6f :: (X6d :: (X5f :: (X66 :: (X70 :: [])))))))))))))))))))))),
    (S
    O)) :: (((X73 :: (X70 :: (X69 :: (X66 :: (X5f :: (X75 :: (X73 :: (X74 :: (X72 :: (X5f :: (X69 :: (X6e :: (X69 :: (X74 :: (X5f :: (X66 :: (X72 :: (X6f :: (X6d :: (X5f :: (X66 :: (X64 :: [])))))))))))))))))))))),
    O) :: (((X73 :: (X70 :: (X69 :: (X66 :: (X5f :: (X75 :: (X73 :: (X74 :: (X72 :: (X5f :: (X69 :: (X6e :: (X69 :: (X74 :: (X5f :: (X66 :: (X72 :: (X6f :: (X6d :: (X5f :: (X6e :: (X75 :: (X6d :: []))))))))))))))))))))))),
    O) :: (((X73 :: (X70 :: (X69 :: (X66 :: (X5f :: (X75 :: (X73 :: (X74 :: (X72 :: (X5f :: (X64 :: (X6f :: (X6e :: (X65 :: [])))))))))))))),
    O) :: (((X73 :: (X70 :: (X69 :: (X66 :: (X5f :: (X75 :: (X73 :: (X74 :: (X72 :: (X5f :: (X64 :: (X65 :: (X6c :: []))))))))))))),
    O) :: (((X73 :: (X70 :: (X69 :: (X66 :: (X5f :: (X75 :: (X73 :: (X74 :: (X72 :: (X5f :: (X64 :: (X75 :: (X70 :: []))))))))))))),
    O) :: (((X73 :: (X70 :: (X69 :: (X66 :: (X5f :: (X75 :: (X73 :: (X74 :: (X72 :: (X5f :: (X74 :: (X79 :: (X70 :: (X65 :: [])))))))))))))),
    O) :: (((X73 :: (X70 :: (X69 :: (X66 :: (X5f :: (X75 :: (X73 :: (X74 :: (X72 :: (X5f :: (X61 :: (X70 :: (X70 :: (X65 :: (X6e :: (X64 :: [])))))))))))))))),
    O) :: (((X73 :: (X70 :: (X69 :: (X66 :: (X5f :: (X75 :: (X73 :: (X74 :: (X72 :: (X5f :: (X61 :: (X70 :: (X70 :: (X65 :: (X6e :: (X64 :: [])))))))))))))))),
    (S
    O)) :: (((X73 :: (X70 :: (X69 :: (X66 :: (X5f :: (X75 :: (X73 :: (X74 :: (X72 :: (X5f :: (X61 :: (X70 :: (X70 :: (X65 :: (X6e :: (X64 :: (X5f :: (X63 :: (X68 :: (X61 :: (X72 :: []))))))))))))))))))))),
    O) :: (((X73 :: (X70 :: (X69 :: (X66 :: (X5f :: (X75 :: (X73 :: (X74 :: (X72 :: (X5f :: (X61 :: (X70 :: (X70 :: (X65 :: (X6e :: (X64 :: (X5f :: (X66 :: (X72 :: (X6f :: (X6d :: (X5f :: (X70 :: (X74 :: (X72 :: []))))))))))))))))))))))))),
    O) :: (((X73 :: (X70 :: (X69 :: (X66 :: (X5f :: (X75 :: (X73 :: (X74 :: (X72 :: (X5f :: (X61 :: (X70 :: (X70 :: (X65 :: (X6e :: (X64 :: (X5f :: (X66 :: (X72 :: (X6f :: (X6d :: (X5f :: (X70 :: (X74 :: (X72 :: []))))))))))))))))))))))))),
    (S
    O)) :: (((X73 :: (X70 :: (X69 :: (X66 :: (X5f :: (X75 :: (X73 :: (X74 :: (X72 :: (X5f :: (X63 :: (X61 :: (X73 :: (X65 :: (X63 :: (X6d :: (X70 :: []))))))))))))))))),
    O) :: (((X73 :: (X70 :: (X69 :: (X66 :: (X5f :: (X75 :: (X73 :: (X74 :: (X72 :: (X5f :: (X63 :: (X61 :: (X73 :: (X65 :: (X63 :: (X6d :: (X70 :: []))))))))))))))))),
    (S
    O)) :: (((X73 :: (X70 :: (X69 :: (X66 :: (X5f :: (X75 :: (X73 :: (X74 :: (X72 :: (X5f :: (X63 :: (X61 :: (X73 :: (X65 :: (X63 :: (X6d :: (X70 :: (X5f :: (X77 :: (X69 :: (X74 :: (X68 :: (X5f :: (X70 :: (X74 :: (X72 :: [])))))))))))))))))))))))))),
    O) :: (((X73 :: (X70 :: (X69 :: (X66 :: (X5f :: (X75 :: (X73 :: (X74 :: (X72 :: (X5f :: (X63 :: (X61 :: (X73 :: (X65 :: (X63 :: (X6d :: (X70 :: (X5f :: (X77 :: (X69 :: (X74 :: (X68 :: (X5f :: (X70 :: (X74 :: (X72 :: [])))))))))))))))))))))))))),
    (S
    O)) :: (((X73 :: (X70 :: (X69 :: (X66 :: (X5f :: (X75 :: (X73 :: (X74 :: (X72 :: (X5f :: (X63 :: (X6c :: (X65 :: (X61 :: (X72 :: []))))))))))))))),
    O) :: (((X73 :: (X70 :: (X69 :: (X66 :: (X5f :: (X75 :: (X73 :: (X74 :: (X72 :: (X5f :: (X63 :: (X6d :: (X70 :: []))))))))))))),
    O) :: (((X73 :: (X70 :: (X69 :: (X66 :: (X5f :: (X75 :: (X73 :: (X74 :: (X72 :: (X5f :: (X63 :: (X6d :: (X70 :: []))))))))))))),
    (S
    O)) :: (((X73 :: (X70 :: (X69 :: (X66 :: (X5f :: (X75 :: (X73 :: (X74 :: (X72 :: (X5f :: (X63 :: (X6d :: (X70 :: (X5f :: (X77 :: (X69 :: (X74 :: (X68 :: (X5f :: (X70 :: (X74 :: (X72 :: [])))))))))))))))))))))),
    O) :: (((X73 :: (X70 :: (X69 :: (X66 :: (X5f :: (X75 :: (X73 :: (X74 :: (X72 :: (X5f :: (X63 :: (X6d :: (X70 :: (X5f :: (X77 :: (X69 :: (X74 :: (X68 :: (X5f :: (X70 :: (X74 :: (X72 :: [])))))))))))))))))))))),
    (S
    O)) :: (((X73 :: (X70 :: (X69 :: (X66 :: (X5f :: (X75 :: (X73 :: (X74 :: (X72 :: (X5f :: (X64 :: (X6f :: (X77 :: (X6e :: (X63 :: (X61 :: (X73 :: (X65 :: [])))))))))))))))))),
    O) :: (((X73 :: (X70 :: (X69 :: (X66 :: (X5f :: (X75 :: (X73 :: (X74 :: (X72 :: (X5f :: (X66 :: (X69 :: (X6e :: (X64 :: [])))))))))))))),
    O) :: (((X73 :: (X70 :: (X69 :: (X66 :: (X5f :: (X75 :: (X73 :: (X74 :: (X72 :: (X5f :: (X66 :: (X69 :: (X6e :: (X64 :: [])))))))))))))),
    (S
    O)) :: (((X73 :: (X70 :: (X69 :: (X66 :: (X5f :: (X75 :: (X73 :: (X74 :: (X72 :: (X5f :: (X66 :: (X69 :: (X6e :: (X64 :: (X5f :: (X66 :: (X72 :: (X6f :: (X6d :: (X5f :: (X70 :: (X74 :: (X72 :: []))))))))))))))))))))))),
    O) :: (((X73 :: (X70 :: (X69 :: (X66 :: (X5f :: (X75 :: (X73 :: (X74 :: (X72 :: (X5f :: (X66 :: (X69 :: (X6e :: (X64 :: (X5f :: (X66 :: (X72 :: (X6f :: (X6d :: (X5f :: (X70 :: (X74 :: (X72 :: []))))))))))))))))))))))),
    (S
    O)) :: (((X73 :: (X70 :: (X69 :: (X66 :: (X5f :: (X75 :: (X73 :: (X74 :: (X72 :: (X5f :: (X69 :: (X6e :: (X64 :: (X65 :: (X78 :: []))))))))))))))),
    O) :: (((X73 :: (X70 :: (X69 :: (X66 :: (X5f :: (X75 :: (X73 :: (X74 :: (X72 :: (X5f :: (X6e :: (X63 :: (X61 :: (X73 :: (X65 :: (X63 :: (X6d :: (X70 :: [])))))))))))))))))),
    O) :: (((X73 :: (X70 :: (X69 :: (X66 :: (X5f :: (X75 :: (X73 :: (X74 :: (X72 :: (X5f :: (X6e :: (X63 :: (X61 :: (X73 :: (X65 :: (X63 :: (X6d :: (X70 :: [])))))))))))))))))),
    (S
    O)) :: (((X73 :: (X70 :: (X69 :: (X66 :: (X5f :: (X75 :: (X73 :: (X74 :: (X72 :: (X5f :: (X6e :: (X63 :: (X61 :: (X73 :: (X65 :: (X63 :: (X6d :: (X70 :: (X5f :: (X77 :: (X69 :: (X74 :: (X68 :: (X5f :: (X70 :: (X74 :: (X72 :: []))))))))))))))))))))))))))),
    O) :: (((X73 :: (X70 :: (X69 :: (X66 :: (X5f :: (X75 :: (X73 :: (X74 :: (X72 :: (X5f :: (X6e :: (X63 :: (X61 :: (X73 :: (X65 :: (X63 :: (X6d :: (X70 :: (X5f :: (X77 :: (X69 :: (X74 :: (X68 :: (X5f :: (X70 :: (X74 :: (X72 :: []))))))))))))))))))))))))))),
    (S
    O)) :: (((X73 :: (X70 :: (X69 :: (X66 :: (X5f :: (X75 :: (X73 :: (X74 :: (X72 :: (X5f :: (X6e :: (X63 :: (X6d :: (X70 :: [])))))))))))))),
    O) :: (((X73 :: (X70 :: (X69 :: (X66 :: (X5f :: (X75 :: (X73 :: (X74 :: (X72 :: (X5f :: (X6e :: (X63 :: (X6d :: (X70 :: [])))))))))))))),
    (S
    O)) :: (((X73 :: (X70 :: (X69 :: (X66 :: (X5f :: (X75 :: (X73 :: (X74 :: (X72 :: (X5f :: (X6e :: (X63 :: (X6d :: (X70 :: (X5f :: (X77 :: (X69 :: (X74 :: (X68 :: (X5f :: (X70 :: (X74 :: (X72 :: []))))))))))))))))))))))),
    O) :: (((X73 :: (X70 :: (X69 :: (X66 :: (X5f :: (X75 :: (X73 :: (X74 :: (X72 :: (X5f :: (X6e :: (X63 :: (X6d :: (X70 :: (X5f :: (X77 :: (X69 :: (X74 :: (X68 :: (X5f :: (X70 :: (X74 :: (X72 :: []))))))))))))))))))))))),
    (S
    O)) :: (((X73 :: (X70 :: (X69 :: (X66 :: (X5f :: (X75 :: (X73 :: (X74 :: (X72 :: (X5f :: (X70 :: (X72 :: (X65 :: (X70 :: (X65 :: (X6e :: (X64 :: []))))))))))))))))),
    O) :: (((X73 :: (X70 :: (X69 :: (X66 :: (X5f :: (X75 :: (X73 :: (X74 :: (X72 :: (X5f :: (X70 :: (X72 :: (X65 :: (X70 :: (X65 :: (X6e :: (X64 :: []))))))))))))))))),
    (S
    O)) :: (((X73 :: (X70 :: (X69 :: (X66 :: (X5f :: (X75 :: (X73 :: (X74 :: (X72 :: (X5f :: (X70 :: (X72 :: (X65 :: (X70 :: (X65 :: (X6e :: (X64 :: (X5f :: (X63 :: (X68 :: (X61 :: (X72 :: [])))))))))))))))))))))),
    O) :: (((X73 :: (X70 :: (X69 :: (X66 :: (X5f :: (X75 :: (X73 :: (X74 :: (X72 :: (X5f :: (X70 :: (X72 :: (X65 :: (X70 :: (X65 :: (X6e :: (X64 :: (X5f :: (X66 :: (X72 :: (X6f :: (X6d :: (X5f :: (X70 :: (X74 :: (X72 :: [])))))))))))))))))))))))))),
    O) :: (((X73 :: (X70 :: (X69 :: (X66 :: (X5f :: (X75 :: (X73 :: (X74 :: (X72 :: (X5f :: (X70 :: (X72 :: (X65 :: (X70 :: (X65 :: (X6e :: (X64 :: (X5f :: (X66 :: (X72 :: (X6f :: (X6d :: (X5f :: (X70 :: (X74 :: (X72 :: [])))))))))))))))))))))))))),
    (S
    O)) :: (((X73 :: (X70 :: (X69 :: (X66 :: (X5f :: (X75 :: (X73 :: (X74 :: (X72 :: (X5f :: (X72 :: (X65 :: (X76 :: (X65 :: (X72 :: (X73 :: (X65 :: []))))))))))))))))),
    O) :: (((X73 :: (X70 :: (X69 :: (X66 :: (X5f :: (X75 :: (X73 :: (X74 :: (X72 :: (X5f :: (X72 :: (X69 :: (X6e :: (X64 :: (X65 :: (X78 :: [])))))))))))))))),
    O) :: (((X73 :: (X70 :: (X69 :: (X66 :: (X5f :: (X75 :: (X73 :: (X74 :: (X72 :: (X5f :: (X73 :: (X70 :: (X6c :: (X69 :: (X63 :: (X65 :: [])))))))))))))))),
    O) :: (((X73 :: (X70 :: (X69 :: (X66 :: (X5f :: (X75 :: (X73 :: (X74 :: (X72 :: (X5f :: (X73 :: (X70 :: (X6c :: (X69 :: (X63 :: (X65 :: (X5f :: (X66 :: (X72 :: (X6f :: (X6d :: (X5f :: (X70 :: (X74 :: (X72 :: []))))))))))))))))))))))))),
    O) :: (((X73 :: (X70 :: (X69 :: (X66 :: (X5f :: (X75 :: (X73 :: (X74 :: (X72 :: (X5f :: (X73 :: (X70 :: (X72 :: (X69 :: (X6e :: (X74 :: (X66 :: []))))))))))))))))),
    O) :: (((X73 :: (X70 :: (X69 :: (X66 :: (X5f :: (X75 :: (X73 :: (X74 :: (X72 :: (X5f :: (X73 :: (X75 :: (X62 :: (X73 :: (X74 :: (X72 :: [])))))))))))))))),
    O) :: (((X73 :: (X70 :: (X69 :: (X66 :: (X5f :: (X75 :: (X73 :: (X74 :: (X72 :: (X5f :: (X73 :: (X75 :: (X62 :: (X73 :: (X74 :: (X72 :: (X5f :: (X74 :: (X6f :: (X5f :: (X70 :: (X74 :: (X72 :: []))))))))))))))))))))))),
    O) :: (((X73 :: (X70 :: (X69 :: (X66 :: (X5f :: (X75 :: (X73 :: (X74 :: (X72 :: (X5f :: (X74 :: (X6f :: (X5f :: (X66 :: (X6c :: (X6f :: (X61 :: (X74 :: [])))))))))))))))))),
    O) :: (((X73 :: (X70 :: (X69 :: (X66 :: (X5f :: (X75 :: (X73 :: (X74 :: (X72 :: (X5f :: (X74 :: (X6f :: (X5f :: (X6e :: (X75 :: (X6d :: [])))))))))))))))),
    O) :: (((X73 :: (X70 :: (X69 :: (X66 :: (X5f :: (X75 :: (X73 :: (X74 :: (X72 :: (X5f :: (X74 :: (X72 :: (X69 :: (X6d :: [])))))))))))))),
    O) :: (((X73 :: (X70 :: (X69 :: (X66 :: (X5f :: (X75 :: (X73 :: (X74 :: (X72 :: (X5f :: (X75 :: (X70 :: (X63 :: (X61 :: (X73 :: (X65 :: [])))))))))))))))),
    O) :: (((X73 :: (X70 :: (X69 :: (X66 :: (X5f :: (X6d :: (X62 :: (X75 :: (X66 :: (X66 :: (X5f :: (X69 :: (X6e :: (X69 :: (X74 :: []))))))))))))))),
    O) :: (((X73 :: (X70 :: (X69 :: (X66 :: (X5f :: (X6d :: (X62 :: (X75 :: (X66 :: (X66 :: (X5f :: (X69 :: (X6e :: (X69 :: (X74 :: (X5f :: (X66 :: (X72 :: (X6f :: (X6d :: (X5f :: (X70 :: (X74 :: (X72 :: [])))))))))))))))))))))))),
    O) :: (((X73 :: (X70 :: (X69 :: (X66 :: (X5f :: (X6d :: (X62 :: (X75 :: (X66 :: (X66 :: (X5f :: (X69 :: (X6e :: (X69 :: (X74 :: (X5f :: (X66 :: (X72 :: (X6f :: (X6d :: (X5f :: (X70 :: (X74 :: (X72 :: [])))))))))))))))))))))))),
    (S
    O)) :: (((X73 :: (X70 :: (X69 :: (X66 :: (X5f :: (X6d :: (X62 :: (X75 :: (X66 :: (X66 :: (X5f :: (X69 :: (X6e :: (X69 :: (X74 :: (X5f :: (X66 :: (X72 :: (X6f :: (X6d :: (X5f :: (X62 :: (X75 :: (X66 :: (X66 :: []))))))))))))))))))))))))),
    O) :: (((X73 :: (X70 :: (X69 :: (X66 :: (X5f :: (X6d :: (X62 :: (X75 :: (X66 :: (X66 :: (X5f :: (X69 :: (X6e :: (X69 :: (X74 :: (X5f :: (X66 :: (X72 :: (X6f :: (X6d :: (X5f :: (X66 :: (X70 :: []))))))))))))))))))))))),
    O) :: (((X73 :: (X70 :: (X69 :: (X66 :: (X5f :: (X6d :: (X62 :: (X75 :: (X66 :: (X66 :: (X5f :: (X69 :: (X6e :: (X69 :: (X74 :: (X5f :: (X66 :: (X72 :: (X6f :: (X6d :: (X5f :: (X66 :: (X70 :: []))))))))))))))))))))))),
    (S
    O)) :: (((X73 :: (X70 :: (X69 :: (X66 :: (X5f :: (X6d :: (X62 :: (X75 :: (X66 :: (X66 :: (X5f :: (X69 :: (X6e :: (X69 :: (X74 :: (X5f :: (X66 :: (X72 :: (X6f :: (X6d :: (X5f :: (X66 :: (X64 :: []))))))))))))))))))))))),
    O) :: (((X73 :: (X70 :: (X69 :: (X66 :: (X5f :: (X6d :: (X62 :: (X75 :: (X66 :: (X66 :: (X5f :: (X64 :: (X6f :: (X6e :: (X65 :: []))))))))))))))),
    O) :: (((X73 :: (X70 :: (X69 :: (X66 :: (X5f :: (X6d :: (X62 :: (X75 :: (X66 :: (X66 :: (X5f :: (X64 :: (X65 :: (X6c :: [])))))))))))))),
    O) :: (((X73 :: (X70 :: (X69 :: (X66 :: (X5f :: (X6d :: (X62 :: (X75 :: (X66 :: (X66 :: (X5f :: (X64 :: (X75 :: (X70 :: [])))))))))))))),
    O) :: (((X73 :: (X70 :: (X69 :: (X66 :: (X5f :: (X6d :: (X62 :: (X75 :: (X66 :: (X66 :: (X5f :: (X74 :: (X79 :: (X70 :: (X65 :: []))))))))))))))),
    O) :: (((X73 :: (X70 :: (X69 :: (X66 :: (X5f :: (X6d :: (X62 :: (X75 :: (X66 :: (X66 :: (X5f :: (X61 :: (X70 :: (X70 :: (X65 :: (X6e :: (X64 :: []))))))))))))))))),
    O) :: (((X73 :: (X70 :: (X69 :: (X66 :: (X5f :: (X6d :: (X62 :: (X75 :: (X66 :: (X66 :: (X5f :: (X61 :: (X70 :: (X70 :: (X65 :: (X6e :: (X64 :: []))))))))))))))))),
    (S
    O)) :: (((X73 :: (X70 :: (X69 :: (X66 :: (X5f :: (X6d :: (X62 :: (X75 :: (X66 :: (X66 :: (X5f :: (X61 :: (X70 :: (X70 :: (X65 :: (X6e :: (X64 :: (X5f :: (X66 :: (X72 :: (X6f :: (X6d :: (X5f :: (X70 :: (X74 :: (X72 :: [])))))))))))))))))))))))))),
    O) :: (((X73 :: (X70 :: (X69 :: (X66 :: (X5f :: (X6d :: (X62 :: (X75 :: (X66 :: (X66 :: (X5f :: (X61 :: (X70 :: (X70 :: (X65 :: (X6e :: (X64 :: (X5f :: (X66 :: (X72 :: (X6f :: (X6d :: (X5f :: (X70 :: (X74 :: (X72 :: [])))))))))))))))))))))))))),
    (S
    O)) :: (((X73 :: (X70 :: (X69 :: (X66 :: (X5f :: (X6d :: (X62 :: (X75 :: (X66 :: (X66 :: (X5f :: (X63 :: (X6c :: (X65 :: (X61 :: (X72 :: [])))))))))))))))),
    O) :: (((X73 :: (X70 :: (X69 :: (X66 :: (X5f :: (X6d :: (X62 :: (X75 :: (X66 :: (X66 :: (X5f :: (X63 :: (X6d :: (X70 :: [])))))))))))))),
    O) :: (((X73 :: (X70 :: (X69 :: (X66 :: (X5f :: (X6d :: (X62 :: (X75 :: (X66 :: (X66 :: (X5f :: (X63 :: (X6d :: (X70 :: [])))))))))))))),
    (S
    O)) :: (((X73 :: (X70 :: (X69 :: (X66 :: (X5f :: (X6d :: (X62 :: (X75 :: (X66 :: (X66 :: (X5f :: (X63 :: (X6d :: (X70 :: (X5f :: (X77 :: (X69 :: (X74 :: (X68 :: (X5f :: (X70 :: (X74 :: (X72 :: []))))))))))))))))))))))),
    O) :: (((X73 :: (X70 :: (X69 :: (X66 :: (X5f :: (X6d :: (X62 :: (X75 :: (X66 :: (X66 :: (X5f :: (X63 :: (X6d :: (X70 :: (X5f :: (X77 :: (X69 :: (X74 :: (X68 :: (X5f :: (X70 :: (X74 :: (X72 :: []))))))))))))))))))))))),
    (S
    O)) :: (((X73 :: (X70 :: (X69 :: (X66 :: (X5f :: (X6d :: (X62 :: (X75 :: (X66 :: (X66 :: (X5f :: (X66 :: (X69 :: (X6e :: (X64 :: []))))))))))))))),
    O) :: (((X73 :: (X70 :: (X69 :: (X66 :: (X5f :: (X6d :: (X62 :: (X75 :: (X66 :: (X66 :: (X5f :: (X66 :: (X69 :: (X6e :: (X64 :: []))))))))))))))),
    (S
    O)) :: (((X73 :: (X70 :: (X69 :: (X66 :: (X5f :: (X6d :: (X62 :: (X75 :: (X66 :: (X66 :: (X5f :: (X66 :: (X69 :: (X6e :: (X64 :: (X5f :: (X66 :: (X72 :: (X6f :: (X6d :: (X5f :: (X70 :: (X74 :: (X72 :: [])))))))))))))))))))))))),
    O) :: (((X73 :: (X70 :: (X69 :: (X66 :: (X5f :: (X6d :: (X62 :: (X75 :: (X66 :: (X66 :: (X5f :: (X66 :: (X69 :: (X6e :: (X64 :: (X5f :: (X66 :: (X72 :: (X6f :: (X6d :: (X5f :: (X70 :: (X74 :: (X72 :: [])))))))))))))))))))))))),
    (S
    O)) :: (((X73 :: (X70 :: (X69 :: (X66 :: (X5f :: (X6d :: (X62 :: (X75 :: (X66 :: (X66 :: (X5f :: (X69 :: (X6e :: (X64 :: (X65 :: (X78 :: [])))))))))))))))),
    O) :: (((X73 :: (X70 :: (X69 :: (X66 :: (X5f :: (X6d :: (X62 :: (X75 :: (X66 :: (X66 :: (X5f :: (X6e :: (X63 :: (X6d :: (X70 :: []))))))))))))))),
    O) :: (((X73 :: (X70 :: (X69 :: (X66 :: (X5f :: (X6d :: (X62 :: (X75 :: (X66 :: (X66 :: (X5f :: (X6e :: (X63 :: (X6d :: (X70 :: []))))))))))))))),
    (S
    O)) :: (((X73 :: (X70 :: (X69 :: (X66 :: (X5f :: (X6d :: (X62 :: (X75 :: (X66 :: (X66 :: (X5f :: (X70 :: (X72 :: (X65 :: (X70 :: (X65 :: (X6e :: (X64 :: [])))))))))))))))))),
    O) :: (((X73 :: (X70 :: (X69 :: (X66 :: (X5f :: (X6d :: (X62 :: (X75 :: (X66 :: (X66 :: (X5f :: (X70 :: (X72 :: (X65 :: (X70 :: (X65 :: (X6e :: (X64 :: [])))))))))))))))))),
    (S
    O)) :: (((X73 :: (X70 :: (X69 :: (X66 :: (X5f :: (X6d :: (X62 :: (X75 :: (X66 :: (X66 :: (X5f :: (X70 :: (X72 :: (X65 :: (X70 :: (X65 :: (X6e :: (X64 :: (X5f :: (X66 :: (X72 :: (X6f :: (X6d :: (X5f :: (X70 :: (X74 :: (X72 :: []))))))))))))))))))))))))))),
    O) :: (((X73 :: (X70 :: (X69 :: (X66 :: (X5f :: (X6d :: (X62 :: (X75 :: (X66 :: (X66 :: (X5f :: (X70 :: (X72 :: (X65 :: (X70 :: (X65 :: (X6e :: (X64 :: (X5f :: (X66 :: (X72 :: (X6f :: (X6d :: (X5f :: (X70 :: (X74 :: (X72 :: []))))))))))))))))))))))))))),
    (S
    O)) :: (((X73 :: (X70 :: (X69 :: (X66 :: (X5f :: (X6d :: (X62 :: (X75 :: (X66 :: (X66 :: (X5f :: (X72 :: (X65 :: (X76 :: (X65 :: (X72 :: (X73 :: (X65 :: [])))))))))))))))))),
    O) :: (((X73 :: (X70 :: (X69 :: (X66 :: (X5f :: (X6d :: (X62 :: (X75 :: (X66 :: (X66 :: (X5f :: (X72 :: (X69 :: (X6e :: (X64 :: (X65 :: (X78 :: []))))))))))))))))),
    O) :: (((X73 :: (X70 :: (X69 :: (X66 :: (X5f :: (X6d :: (X62 :: (X75 :: (X66 :: (X66 :: (X5f :: (X73 :: (X70 :: (X6c :: (X69 :: (X63 :: (X65 :: []))))))))))))))))),
    O) :: (((X73 :: (X70 :: (X69 :: (X66 :: (X5f :: (X6d :: (X62 :: (X75 :: (X66 :: (X66 :: (X5f :: (X73 :: (X70 :: (X6c :: (X69 :: (X63 :: (X65 :: (X5f :: (X66 :: (X72 :: (X6f :: (X6d :: (X5f :: (X70 :: (X74 :: (X72 :: [])))))))))))))))))))))))))),
    O) :: (((X73 :: (X70 :: (X69 :: (X66 :: (X5f :: (X6d :: (X62 :: (X75 :: (X66 :: (X66 :: (X5f :: (X73 :: (X70 :: (X72 :: (X69 :: (X6e :: (X74 :: (X66 :: [])))))))))))))))))),
    O) :: (((X73 :: (X70 :: (X69 :: (X66 :: (X5f :: (X6d :: (X62 :: (X75 :: (X66 :: (X66 :: (X5f :: (X73 :: (X75 :: (X62 :: (X62 :: (X75 :: (X66 :: (X66 :: [])))))))))))))))))),
    O) :: (((X73 :: (X70 :: (X69 :: (X66 :: (X5f :: (X6d :: (X62 :: (X75 :: (X66 :: (X66 :: (X5f :: (X73 :: (X75 :: (X62 :: (X62 :: (X75 :: (X66 :: (X66 :: (X5f :: (X74 :: (X6f :: (X5f :: (X70 :: (X74 :: (X72 :: []))))))))))))))))))))))))),
    O) :: (((X73 :: (X70 :: (X69 :: (X66 :: (X5f :: (X6d :: (X62 :: (X75 :: (X66 :: (X66 :: (X5f :: (X74 :: (X72 :: (X69 :: (X6d :: []))))))))))))))),
    O) :: (((X73 :: (X70 :: (X69 :: (X66 :: (X5f :: (X6f :: (X62 :: (X6a :: (X70 :: (X61 :: (X69 :: (X72 :: (X5f :: (X69 :: (X6e :: (X69 :: (X74 :: []))))))))))))))))),
    O) :: (((X73 :: (X70 :: (X69 :: (X66 :: (X5f :: (X6f :: (X62 :: (X6a :: (X70 :: (X61 :: (X69 :: (X72 :: (X5f :: (X69 :: (X6e :: (X69 :: (X74 :: (X5f :: (X66 :: (X72 :: (X6f :: (X6d :: (X5f :: (X6b :: (X65 :: (X79 :: [])))))))))))))))))))))))))),
    O) :: (((X73 :: (X70 :: (X69 :: (X66 :: (X5f :: (X6f :: (X62 :: (X6a :: (X70 :: (X61 :: (X69 :: (X72 :: (X5f :: (X69 :: (X6e :: (X69 :: (X74 :: (X5f :: (X66 :: (X72 :: (X6f :: (X6d :: (X5f :: (X6b :: (X65 :: (X79 :: [])))))))))))))))))))))))))),
    (S
    O)) :: (((X73 :: (X70 :: (X69 :: (X66 :: (X5f :: (X6f :: (X62 :: (X6a :: (X70 :: (X61 :: (X69 :: (X72 :: (X5f :: (X69 :: (X6e :: (X69 :: (X74 :: (X5f :: (X66 :: (X72 :: (X6f :: (X6d :: (X5f :: (X76 :: (X61 :: (X6c :: (X75 :: (X65 :: [])))))))))))))))))))))))))))),
    O) :: (((X73 :: (X70 :: (X69 :: (X66 :: (X5f :: (X6f :: (X62 :: (X6a :: (X70 :: (X61 :: (X69 :: (X72 :: (X5f :: (X69 :: (X6e :: (X69 :: (X74 :: (X5f :: (X66 :: (X72 :: (X6f :: (X6d :: (X5f :: (X76 :: (X61 :: (X6c :: (X75 :: (X65 :: [])))))))))))))))))))))))))))),
    (S
    O)) :: (((X73 :: (X70 :: (X69 :: (X66 :: (X5f :: (X6f :: (X62 :: (X6a :: (X70 :: (X61 :: (X69 :: (X72 :: (X5f :: (X69 :: (X6e :: (X69 :: (X74 :: (X5f :: (X66 :: (X72 :: (X6f :: (X6d :: (X5f :: (X62 :: (X6f :: (X74 :: (X68 :: []))))))))))))))))))))))))))),
    O) :: (((X73 :: (X70 :: (X69 :: (X66 :: (X5f :: (X6f :: (X62 :: (X6a :: (X70 :: (X61 :: (X69 :: (X72 :: (X5f :: (X69 :: (X6e :: (X69 :: (X74 :: (X5f :: (X66 :: (X72 :: (X6f :: (X6d :: (X5f :: (X62 :: (X6f :: (X74 :: (X68 :: []))))))))))))))))))))))))))),
    (S
    O)) :: (((X73 :: (X70 :: (X69 :: (X66 :: (X5f :: (X6f :: (X62 :: (X6a :: (X70 :: (X61 :: (X69 :: (X72 :: (X5f :: (X69 :: (X6e :: (X69 :: (X74 :: (X5f :: (X66 :: (X72 :: (X6f :: (X6d :: (X5f :: (X62 :: (X6f :: (X74 :: (X68 :: []))))))))))))))))))))))))))),
    (S (S
    O))) :: (((X73 :: (X70 :: (X69 :: (X66 :: (X5f :: (X6f :: (X62 :: (X6a :: (X70 :: (X61 :: (X69 :: (X72 :: (X5f :: (X64 :: (X6f :: (X6e :: (X65 :: []))))))))))))))))),
    O) :: (((X73 :: (X70 :: (X69 :: (X66 :: (X5f :: (X6f :: (X62 :: (X6a :: (X70 :: (X61 :: (X69 :: (X72 :: (X5f :: (X64 :: (X65 :: (X6c :: [])))))))))))))))),
    O) :: (((X73 :: (X70 :: (X69 :: (X66 :: (X5f :: (X6f :: (X62 :: (X6a :: (X70 :: (X61 :: (X69 :: (X72 :: (X5f :: (X63 :: (X6f :: (X6d :: (X70 :: []))))))))))))))))),
    O) :: (((X73 :: (X70 :: (X69 :: (X66 :: (X5f :: (X6f :: (X62 :: (X6a :: (X70 :: (X61 :: (X69 :: (X72 :: (X5f :: (X63 :: (X6f :: (X6d :: (X70 :: []))))))))))))))))),
    (S
    O)) :: (((X73 :: (X70 :: (X69 :: (X66 :: (X5f :: (X6f :: (X62 :: (X6a :: (X70 :: (X61 :: (X69 :: (X72 :: (X5f :: (X64 :: (X75 :: (X70 :: [])))))))))))))))),
    O) :: (((X73 :: (X70 :: (X69 :: (X66 :: (X5f :: (X6f :: (X62 :: (X6a :: (X70 :: (X61 :: (X69 :: (X72 :: (X5f :: (X74 :: (X79 :: (X70 :: (X65 :: []))))))))))))))))),
    O) :: (((X73 :: (X70 :: (X69 :: (X66 :: (X5f :: (X74 :: (X6f :: (X6b :: (X5f :: (X64 :: (X65 :: (X6c :: [])))))))))))),
    O) :: (((X73 :: (X70 :: (X69 :: (X66 :: (X5f :: (X74 :: (X6f :: (X6b :: (X5f :: (X69 :: (X6e :: (X69 :: (X74 :: []))))))))))))),
    O) :: (((X73 :: (X70 :: (X69 :: (X66 :: (X5f :: (X74 :: (X6f :: (X6b :: (X5f :: (X69 :: (X6e :: (X69 :: (X74 :: (X5f :: (X66 :: (X72 :: (X6f :: (X6d :: (X5f :: (X70 :: (X74 :: (X72 :: [])))))))))))))))))))))),
    O) :: (((X73 :: (X70 :: (X69 :: (X66 :: (X5f :: (X74 :: (X6f :: (X6b :: (X5f :: (X69 :: (X6e :: (X69 :: (X74 :: (X5f :: (X66 :: (X72 :: (X6f :: (X6d :: (X5f :: (X66 :: (X70 :: []))))))))))))))))))))),
    O) :: (((X73 :: (X70 :: (X69 :: (X66 :: (X5f :: (X74 :: (X6f :: (X6b :: (X5f :: (X69 :: (X6e :: (X69 :: (X74 :: (X5f :: (X66 :: (X72 :: (X6f :: (X6d :: (X5f :: (X66 :: (X64 :: []))))))))))))))))))))),
    O) :: (((X73 :: (X70 :: (X69 :: (X66 :: (X5f :: (X74 :: (X6f :: (X6b :: (X5f :: (X64 :: (X6f :: (X6e :: (X65 :: []))))))))))))),
    O) :: (((X73 :: (X70 :: (X69 :: (X66 :: (X5f :: (X74 :: (X6f :: (X6b :: (X5f :: (X63 :: (X6f :: (X6d :: (X70 :: []))))))))))))),
    O) :: (((X73 :: (X70 :: (X69 :: (X66 :: (X5f :: (X74 :: (X6f :: (X6b :: (X5f :: (X63 :: (X6f :: (X6d :: (X70 :: []))))))))))))),
    (S
    O)) :: (((X73 :: (X70 :: (X69 :: (X66 :: (X5f :: (X74 :: (X6f :: (X6b :: (X5f :: (X64 :: (X75 :: (X70 :: [])))))))))))),
    O) :: (((X73 :: (X70 :: (X69 :: (X66 :: (X5f :: (X74 :: (X6f :: (X6b :: (X5f :: (X74 :: (X79 :: (X70 :: (X65 :: []))))))))))))),
    O) :: (((X73 :: (X70 :: (X69 :: (X66 :: (X5f :: (X74 :: (X6f :: (X6b :: (X5f :: (X65 :: (X76 :: (X61 :: (X6c :: []))))))))))))),
    O) :: (((X73 :: (X70 :: (X69 :: (X66 :: (X5f :: (X75 :: (X72 :: (X6c :: (X5f :: (X69 :: (X6e :: (X69 :: (X74 :: []))))))))))))),
    O) :: (((X73 :: (X70 :: (X69 :: (X66 :: (X5f :: (X75 :: (X72 :: (X6c :: (X5f :: (X69 :: (X6e :: (X69 :: (X74 :: (X5f :: (X66 :: (X72 :: (X6f :: (X6d :: (X5f :: (X73 :: (X74 :: (X72 :: [])))))))))))))))))))))),
    O) :: (((X73 :: (X70 :: (X69 :: (X66 :: (X5f :: (X75 :: (X72 :: (X6c :: (X5f :: (X69 :: (X6e :: (X69 :: (X74 :: (X5f :: (X66 :: (X72 :: (X6f :: (X6d :: (X5f :: (X70 :: (X74 :: (X72 :: [])))))))))))))))))))))),
    O) :: (((X73 :: (X70 :: (X69 :: (X66 :: (X5f :: (X75 :: (X72 :: (X6c :: (X5f :: (X64 :: (X6f :: (X6e :: (X65 :: []))))))))))))),
    O) :: (((X73 :: (X70 :: (X69 :: (X66 :: (X5f :: (X75 :: (X72 :: (X6c :: (X5f :: (X64 :: (X65 :: (X6c :: [])))))))))))),
    O) :: (((X73 :: (X70 :: (X69 :: (X66 :: (X5f :: (X75 :: (X72 :: (X6c :: (X5f :: (X63 :: (X6f :: (X6d :: (X70 :: []))))))))))))),
    O) :: (((X73 :: (X70 :: (X69 :: (X66 :: (X5f :: (X75 :: (X72 :: (X6c :: (X5f :: (X63 :: (X6f :: (X6d :: (X70 :: []))))))))))))),
    (S
    O)) :: (((X73 :: (X70 :: (X69 :: (X66 :: (X5f :: (X75 :: (X72 :: (X6c :: (X5f :: (X64 :: (X75 :: (X70 :: [])))))))))))),
    O) :: (((X73 :: (X70 :: (X69 :: (X66 :: (X5f :: (X75 :: (X72 :: (X6c :: (X5f :: (X74 :: (X79 :: (X70 :: (X65 :: []))))))))))))),
    O) :: (((X73 :: (X70 :: (X69 :: (X66 :: (X5f :: (X75 :: (X72 :: (X6c :: (X5f :: (X75 :: (X6e :: (X70 :: (X61 :: (X72 :: (X73 :: (X65 :: [])))))))))))))))),
    O) :: (((X73 :: (X70 :: (X69 :: (X66 :: (X5f :: (X72 :: (X65 :: (X67 :: (X65 :: (X78 :: (X70 :: (X5f :: (X69 :: (X6e :: (X69 :: (X74 :: [])))))))))))))))),
    O) :: (((X73 :: (X70 :: (X69 :: (X66 :: (X5f :: (X72 :: (X65 :: (X67 :: (X65 :: (X78 :: (X70 :: (X5f :: (X69 :: (X6e :: (X69 :: (X74 :: (X5f :: (X66 :: (X72 :: (X6f :: (X6d :: (X5f :: (X73 :: (X74 :: (X72 :: []))))))))))))))))))))))))),
    O) :: (((X73 :: (X70 :: (X69 :: (X66 :: (X5f :: (X72 :: (X65 :: (X67 :: (X65 :: (X78 :: (X70 :: (X5f :: (X69 :: (X6e :: (X69 :: (X74 :: (X5f :: (X66 :: (X72 :: (X6f :: (X6d :: (X5f :: (X70 :: (X74 :: (X72 :: []))))))))))))))))))))))))),
    O) :: (((X73 :: (X70 :: (X69 :: (X66 :: (X5f :: (X72 :: (X65 :: (X67 :: (X65 :: (X78 :: (X70 :: (X5f :: (X64 :: (X6f :: (X6e :: (X65 :: [])))))))))))))))),
    O) :: (((X73 :: (X70 :: (X69 :: (X66 :: (X5f :: (X72 :: (X65 :: (X67 :: (X65 :: (X78 :: (X70 :: (X5f :: (X64 :: (X65 :: (X6c :: []))))))))))))))),
    O) :: (((X73 :: (X70 :: (X69 :: (X66 :: (X5f :: (X72 :: (X65 :: (X67 :: (X65 :: (X78 :: (X70 :: (X5f :: (X63 :: (X6f :: (X6d :: (X70 :: [])))))))))))))))),
    O) :: (((X73 :: (X70 :: (X69 :: (X66 :: (X5f :: (X72 :: (X65 :: (X67 :: (X65 :: (X78 :: (X70 :: (X5f :: (X63 :: (X6f :: (X6d :: (X70 :: [])))))))))))))))),
    (S
    O)) :: (((X73 :: (X70 :: (X69 :: (X66 :: (X5f :: (X72 :: (X65 :: (X67 :: (X65 :: (X78 :: (X70 :: (X5f :: (X64 :: (X75 :: (X70 :: []))))))))))))))),
    O) :: (((X73 :: (X70 :: (X69 :: (X66 :: (X5f :: (X72 :: (X65 :: (X67 :: (X65 :: (X78 :: (X70 :: (X5f :: (X74 :: (X79 :: (X70 :: (X65 :: [])))))))))))))))),
    O) :: (((X73 :: (X70 :: (X69 :: (X66 :: (X5f :: (X72 :: (X65 :: (X67 :: (X65 :: (X78 :: (X70 :: (X5f :: (X63 :: (X6f :: (X6d :: (X70 :: (X69 :: (X6c :: (X65 :: []))))))))))))))))))),
    O) :: (((X73 :: (X70 :: (X69 :: (X66 :: (X5f :: (X72 :: (X65 :: (X67 :: (X65 :: (X78 :: (X70 :: (X5f :: (X6d :: (X61 :: (X74 :: (X63 :: (X68 :: (X65 :: (X73 :: (X5f :: (X73 :: (X74 :: (X72 :: []))))))))))))))))))))))),
    O) :: (((X73 :: (X70 :: (X69 :: (X66 :: (X5f :: (X72 :: (X65 :: (X67 :: (X65 :: (X78 :: (X70 :: (X5f :: (X6d :: (X61 :: (X74 :: (X63 :: (X68 :: (X65 :: (X73 :: (X5f :: (X73 :: (X74 :: (X72 :: []))))))))))))))))))))))),
    (S
    O)) :: (((X73 :: (X70 :: (X69 :: (X66 :: (X5f :: (X72 :: (X65 :: (X67 :: (X65 :: (X78 :: (X70 :: (X5f :: (X6d :: (X61 :: (X74 :: (X63 :: (X68 :: (X65 :: (X73 :: (X5f :: (X70 :: (X74 :: (X72 :: []))))))))))))))))))))))),
    O) :: (((X73 :: (X70 :: (X69 :: (X66 :: (X5f :: (X72 :: (X65 :: (X67 :: (X65 :: (X78 :: (X70 :: (X5f :: (X6d :: (X61 :: (X74 :: (X63 :: (X68 :: (X65 :: (X73 :: (X5f :: (X70 :: (X74 :: (X72 :: []))))))))))))))))))))))),
    (S
    O)) :: (((X73 :: (X70 :: (X69 :: (X66 :: (X5f :: (X72 :: (X65 :: (X67 :: (X65 :: (X78 :: (X70 :: (X5f :: (X67 :: (X65 :: (X74 :: (X5f :: (X66 :: (X6c :: (X61 :: (X67 :: (X73 :: []))))))))))))))))))))),
    O) :: (((X73 :: (X70 :: (X69 :: (X66 :: (X5f :: (X72 :: (X65 :: (X67 :: (X65 :: (X78 :: (X70 :: (X5f :: (X73 :: (X65 :: (X74 :: (X5f :: (X66 :: (X6c :: (X61 :: (X67 :: (X73 :: []))))))))))))))))))))),
    O) :: (((X73 :: (X70 :: (X69 :: (X66 :: (X5f :: (X72 :: (X65 :: (X67 :: (X65 :: (X78 :: (X70 :: (X5f :: (X73 :: (X65 :: (X74 :: (X5f :: (X66 :: (X6c :: (X61 :: (X67 :: (X73 :: []))))))))))))))))))))),
    (S
    O)) :: (((X73 :: (X70 :: (X69 :: (X66 :: (X5f :: (X73 :: (X6f :: (X63 :: (X6b :: (X65 :: (X74 :: (X5f :: (X69 :: (X6e :: (X69 :: (X74 :: [])))))))))))))))),
    O) :: (((X73 :: (X70 :: (X69 :: (X66 :: (X5f :: (X73 :: (X6f :: (X63 :: (X6b :: (X65 :: (X74 :: (X5f :: (X69 :: (X6e :: (X69 :: (X74 :: (X5f :: (X66 :: (X72 :: (X6f :: (X6d :: (X5f :: (X75 :: (X72 :: (X6c :: (X73 :: [])))))))))))))))))))))))))),
    O) :: (((X73 :: (X70 :: (X69 :: (X66 :: (X5f :: (X73 :: (X6f :: (X63 :: (X6b :: (X65 :: (X74 :: (X5f :: (X64 :: (X6f :: (X6e :: (X65 :: [])))))))))))))))),
    O) :: (((X73 :: (X70 :: (X69 :: (X66 :: (X5f :: (X73 :: (X6f :: (X63 :: (X6b :: (X65 :: (X74 :: (X5f :: (X64 :: (X65 :: (X6c :: []))))))))))))))),
    O) :: (((X73 :: (X70 :: (X69 :: (X66 :: (X5f :: (X73 :: (X6f :: (X63 :: (X6b :: (X65 :: (X74 :: (X5f :: (X63 :: (X6f :: (X6d :: (X70 :: [])))))))))))))))),
    O) :: (((X73 :: (X70 :: (X69 :: (X66 :: (X5f :: (X73 :: (X6f :: (X63 :: (X6b :: (X65 :: (X74 :: (X5f :: (X63 :: (X6f :: (X6d :: (X70 :: [])))))))))))))))),
    (S
    O)) :: (((X73 :: (X70 :: (X69 :: (X66 :: (X5f :: (X73 :: (X6f :: (X63 :: (X6b :: (X65 :: (X74 :: (X5f :: (X64 :: (X75 :: (X70 :: []))))))))))))))),
    O) :: (((X73 :: (X70 :: (X69 :: (X66 :: (X5f :: (X73 :: (X6f :: (X63 :: (X6b :: (X65 :: (X74 :: (X5f :: (X74 :: (X79 :: (X70 :: (X65 :: [])))))))))))))))),
    O) :: (((X73 :: (X70 :: (X69 :: (X66 :: (X5f :: (X73 :: (X6f :: (X63 :: (X6b :: (X65 :: (X74 :: (X5f :: (X6f :: (X70 :: (X65 :: (X6e :: [])))))))))))))))),
    O) :: (((X73 :: (X70 :: (X69 :: (X66 :: (X5f :: (X73 :: (X6f :: (X63 :: (X6b :: (X65 :: (X74 :: (X5f :: (X63 :: (X6c :: (X6f :: (X73 :: (X65 :: []))))))))))))))))),
    O) :: (((X73 :: (X70 :: (X69 :: (X66 :: (X5f :: (X73 :: (X6f :: (X63 :: (X6b :: (X65 :: (X74 :: (X5f :: (X63 :: (X68 :: (X65 :: (X63 :: (X6b :: (X5f :: (X69 :: (X6f :: [])))))))))))))))))))),
    O) :: (((X73 :: (X70 :: (X69 :: (X66 :: (X5f :: (X73 :: (X6f :: (X63 :: (X6b :: (X65 :: (X74 :: (X5f :: (X61 :: (X63 :: (X63 :: (X65 :: (X70 :: (X74 :: [])))))))))))))))))),
    O) :: (((X73 :: (X70 :: (X69 :: (X66 :: (X5f :: (X73 :: (X6f :: (X63 :: (X6b :: (X65 :: (X74 :: (X5f :: (X73 :: (X65 :: (X6e :: (X64 :: [])))))))))))))))),
    O) :: (((X73 :: (X70 :: (X69 :: (X66 :: (X5f :: (X73 :: (X6f :: (X63 :: (X6b :: (X65 :: (X74 :: (X5f :: (X73 :: (X65 :: (X6e :: (X64 :: [])))))))))))))))),
    (S
    O)) :: (((X73 :: (X70 :: (X69 :: (X66 :: (X5f :: (X73 :: (X6f :: (X63 :: (X6b :: (X65 :: (X74 :: (X5f :: (X72 :: (X65 :: (X63 :: (X76 :: [])))))))))))))))),
    O) :: (((X73 :: (X70 :: (X69 :: (X66 :: (X5f :: (X73 :: (X6f :: (X63 :: (X6b :: (X65 :: (X74 :: (X5f :: (X73 :: (X65 :: (X74 :: (X5f :: (X6e :: (X62 :: (X69 :: (X6f :: [])))))))))))))))))))),
    O) :: (((X73 :: (X70 :: (X69 :: (X66 :: (X5f :: (X73 :: (X6f :: (X63 :: (X6b :: (X65 :: (X74 :: (X5f :: (X63 :: (X6c :: (X65 :: (X61 :: (X72 :: (X5f :: (X6e :: (X62 :: (X69 :: (X6f :: [])))))))))))))))))))))),
    O) :: (((X73 :: (X70 :: (X69 :: (X66 :: (X5f :: (X61 :: (X72 :: (X72 :: (X61 :: (X79 :: (X5f :: (X6c :: (X69 :: (X73 :: (X74 :: (X5f :: (X69 :: (X6e :: (X69 :: (X74 :: [])))))))))))))))))))),
    O) :: (((X73 :: (X70 :: (X69 :: (X66 :: (X5f :: (X61 :: (X72 :: (X72 :: (X61 :: (X79 :: (X5f :: (X76 :: (X65 :: (X63 :: (X74 :: (X6f :: (X72 :: (X5f :: (X69 :: (X6e :: (X69 :: (X74 :: [])))))))))))))))))))))),
    O) :: (((X73 :: (X70 :: (X69 :: (X66 :: (X5f :: (X61 :: (X72 :: (X72 :: (X61 :: (X79 :: (X5f :: (X6d :: (X61 :: (X70 :: (X5f :: (X69 :: (X6e :: (X69 :: (X74 :: []))))))))))))))))))),
    O) :: (((X73 :: (X70 :: (X69 :: (X66 :: (X5f :: (X61 :: (X72 :: (X72 :: (X61 :: (X79 :: (X5f :: (X64 :: (X6f :: (X6e :: (X65 :: []))))))))))))))),
    O) :: (((X73 :: (X70 :: (X69 :: (X66 :: (X5f :: (X61 :: (X72 :: (X72 :: (X61 :: (X79 :: (X5f :: (X64 :: (X65 :: (X6c :: [])))))))))))))),
    O) :: (((X73 :: (X70 :: (X69 :: (X66 :: (X5f :: (X61 :: (X72 :: (X72 :: (X61 :: (X79 :: (X5f :: (X63 :: (X6f :: (X6d :: (X70 :: []))))))))))))))),
    O) :: (((X73 :: (X70 :: (X69 :: (X66 :: (X5f :: (X61 :: (X72 :: (X72 :: (X61 :: (X79 :: (X5f :: (X63 :: (X6f :: (X6d :: (X70 :: []))))))))))))))),
    (S
    O)) :: (((X73 :: (X70 :: (X69 :: (X66 :: (X5f :: (X61 :: (X72 :: (X72 :: (X61 :: (X79 :: (X5f :: (X6c :: (X69 :: (X73 :: (X74 :: (X5f :: (X64 :: (X75 :: (X70 :: []))))))))))))))))))),
    O) :: (((X73 :: (X70 :: (X69 :: (X66 :: (X5f :: (X61 :: (X72 :: (X72 :: (X61 :: (X79 :: (X5f :: (X76 :: (X65 :: (X63 :: (X74 :: (X6f :: (X72 :: (X5f :: (X64 :: (X75 :: (X70 :: []))))))))))))))))))))),
    O) :: (((X73 :: (X70 :: (X69 :: (X66 :: (X5f :: (X61 :: (X72 :: (X72 :: (X61 :: (X79 :: (X5f :: (X6d :: (X61 :: (X70 :: (X5f :: (X64 :: (X75 :: (X70 :: [])))))))))))))))))),
    O) :: (((X73 :: (X70 :: (X69 :: (X66 :: (X5f :: (X61 :: (X72 :: (X72 :: (X61 :: (X79 :: (X5f :: (X74 :: (X79 :: (X70 :: (X65 :: []))))))))))))))),
    O) :: (((X73 :: (X70 :: (X69 :: (X66 :: (X5f :: (X61 :: (X72 :: (X72 :: (X61 :: (X79 :: (X5f :: (X61 :: (X70 :: (X70 :: (X65 :: (X6e :: (X64 :: []))))))))))))))))),
    O) :: (((X73 :: (X70 :: (X69 :: (X66 :: (X5f :: (X61 :: (X72 :: (X72 :: (X61 :: (X79 :: (X5f :: (X6c :: (X69 :: (X73 :: (X74 :: (X5f :: (X63 :: (X6f :: (X6e :: (X74 :: (X61 :: (X69 :: (X6e :: (X73 :: [])))))))))))))))))))))))),
    O) :: (((X73 :: (X70 :: (X69 :: (X66 :: (X5f :: (X61 :: (X72 :: (X72 :: (X61 :: (X79 :: (X5f :: (X76 :: (X65 :: (X63 :: (X74 :: (X6f :: (X72 :: (X5f :: (X63 :: (X6f :: (X6e :: (X74 :: (X61 :: (X69 :: (X6e :: (X73 :: [])))))))))))))))))))))))))),
    O) :: (((X73 :: (X70 :: (X69 :: (X66 :: (X5f :: (X61 :: (X72 :: (X72 :: (X61 :: (X79 :: (X5f :: (X63 :: (X6f :: (X75 :: (X6e :: (X74 :: [])))))))))))))))),
    O) :: (((X73 :: (X70 :: (X69 :: (X66 :: (X5f :: (X61 :: (X72 :: (X72 :: (X61 :: (X79 :: (X5f :: (X6c :: (X69 :: (X73 :: (X74 :: (X5f :: (X66 :: (X69 :: (X6e :: (X64 :: [])))))))))))))))))))),
    O) :: (((X73 :: (X70 :: (X69 :: (X66 :: (X5f :: (X61 :: (X72 :: (X72 :: (X61 :: (X79 :: (X5f :: (X6c :: (X69 :: (X73 :: (X74 :: (X5f :: (X66 :: (X69 :: (X6e :: (X64 :: [])))))))))))))))))))),
    (S
    O)) :: (((X73 :: (X70 :: (X69 :: (X66 :: (X5f :: (X61 :: (X72 :: (X72 :: (X61 :: (X79 :: (X5f :: (X76 :: (X65 :: (X63 :: (X74 :: (X6f :: (X72 :: (X5f :: (X66 :: (X69 :: (X6e :: (X64 :: [])))))))))))))))))))))),
    O) :: (((X73 :: (X70 :: (X69 :: (X66 :: (X5f :: (X61 :: (X72 :: (X72 :: (X61 :: (X79 :: (X5f :: (X76 :: (X65 :: (X63 :: (X74 :: (X6f :: (X72 :: (X5f :: (X66 :: (X69 :: (X6e :: (X64 :: [])))))))))))))))))))))),
    (S
    O)) :: (((X73 :: (X70 :: (X69 :: (X66 :: (X5f :: (X61 :: (X72 :: (X72 :: (X61 :: (X79 :: (X5f :: (X67 :: (X65 :: (X74 :: [])))))))))))))),
    O) :: (((X73 :: (X70 :: (X69 :: (X66 :: (X5f :: (X61 :: (X72 :: (X72 :: (X61 :: (X79 :: (X5f :: (X6d :: (X61 :: (X70 :: (X5f :: (X67 :: (X65 :: (X74 :: [])))))))))))))))))),
    O) :: (((X73 :: (X70 :: (X69 :: (X66 :: (X5f :: (X61 :: (X72 :: (X72 :: (X61 :: (X79 :: (X5f :: (X6d :: (X61 :: (X70 :: (X5f :: (X67 :: (X65 :: (X74 :: [])))))))))))))))))),
    (S
    O)) :: (((X73 :: (X70 :: (X69 :: (X66 :: (X5f :: (X61 :: (X72 :: (X72 :: (X61 :: (X79 :: (X5f :: (X67 :: (X65 :: (X74 :: (X5f :: (X6b :: (X65 :: (X79 :: (X73 :: []))))))))))))))))))),
    O) :: (((X73 :: (X70 :: (X69 :: (X66 :: (X5f :: (X61 :: (X72 :: (X72 :: (X61 :: (X79 :: (X5f :: (X67 :: (X65 :: (X74 :: (X5f :: (X70 :: (X61 :: (X69 :: (X72 :: (X73 :: [])))))))))))))))))))),
    O) :: (((X73 :: (X70 :: (X69 :: (X66 :: (X5f :: (X61 :: (X72 :: (X72 :: (X61 :: (X79 :: (X5f :: (X67 :: (X65 :: (X74 :: (X5f :: (X76 :: (X61 :: (X6c :: (X75 :: (X65 :: (X73 :: []))))))))))))))))))))),
    O) :: (((X73 :: (X70 :: (X69 :: (X66 :: (X5f :: (X61 :: (X72 :: (X72 :: (X61 :: (X79 :: (X5f :: (X68 :: (X61 :: (X73 :: (X5f :: (X76 :: (X61 :: (X6c :: (X75 :: (X65 :: [])))))))))))))))))))),
    O) :: (((X73 :: (X70 :: (X69 :: (X66 :: (X5f :: (X61 :: (X72 :: (X72 :: (X61 :: (X79 :: (X5f :: (X69 :: (X6e :: (X64 :: (X65 :: (X78 :: [])))))))))))))))),
    O) :: (((X73 :: (X70 :: (X69 :: (X66 :: (X5f :: (X61 :: (X72 :: (X72 :: (X61 :: (X79 :: (X5f :: (X69 :: (X6e :: (X73 :: (X65 :: (X72 :: (X74 :: []))))))))))))))))),
    O) :: (((X73 :: (X70 :: (X69 :: (X66 :: (X5f :: (X61 :: (X72 :: (X72 :: (X61 :: (X79 :: (X5f :: (X69 :: (X6e :: (X73 :: (X65 :: (X72 :: (X74 :: []))))))))))))))))),
    (S
    O)) :: (((X73 :: (X70 :: (X69 :: (X66 :: (X5f :: (X61 :: (X72 :: (X72 :: (X61 :: (X79 :: (X5f :: (X69 :: (X6e :: (X73 :: (X65 :: (X72 :: (X74 :: (X5f :: (X61 :: (X74 :: [])))))))))))))))))))),
    O) :: (((X73 :: (X70 :: (X69 :: (X66 :: (X5f :: (X61 :: (X72 :: (X72 :: (X61 :: (X79 :: (X5f :: (X69 :: (X6e :: (X73 :: (X65 :: (X72 :: (X74 :: (X5f :: (X61 :: (X74 :: [])))))))))))))))))))),
    (S
    O)) :: (((X73 :: (X70 :: (X69 :: (X66 :: (X5f :: (X61 :: (X72 :: (X72 :: (X61 :: (X79 :: (X5f :: (X69 :: (X74 :: (X65 :: (X72 :: (X61 :: (X74 :: (X6f :: (X72 :: []))))))))))))))))))),
    O) :: (((X73 :: (X70 :: (X69 :: (X66 :: (X5f :: (X61 :: (X72 :: (X72 :: (X61 :: (X79 :: (X5f :: (X70 :: (X72 :: (X65 :: (X70 :: (X65 :: (X6e :: (X64 :: [])))))))))))))))))),
    O) :: (((X73 :: (X70 :: (X69 :: (X66 :: (X5f :: (X61 :: (X72 :: (X72 :: (X61 :: (X79 :: (X5f :: (X70 :: (X72 :: (X65 :: (X70 :: (X65 :: (X6e :: (X64 :: [])))))))))))))))))),
    (S
    O)) :: (((X73 :: (X70 :: (X69 :: (X66 :: (X5f :: (X61 :: (X72 :: (X72 :: (X61 :: (X79 :: (X5f :: (X72 :: (X65 :: (X6d :: (X6f :: (X76 :: (X65 :: []))))))))))))))))),
    O) :: (((X73 :: (X70 :: (X69 :: (X66 :: (X5f :: (X61 :: (X72 :: (X72 :: (X61 :: (X79 :: (X5f :: (X72 :: (X65 :: (X6d :: (X6f :: (X76 :: (X65 :: []))))))))))))))))),
    (S
    O)) :: (((X73 :: (X70 :: (X69 :: (X66 :: (X5f :: (X61 :: (X72 :: (X72 :: (X61 :: (X79 :: (X5f :: (X6d :: (X61 :: (X70 :: (X5f :: (X72 :: (X65 :: (X6d :: (X6f :: (X76 :: (X65 :: []))))))))))))))))))))),
    O) :: (((X73 :: (X70 :: (X69 :: (X66 :: (X5f :: (X61 :: (X72 :: (X72 :: (X61 :: (X79 :: (X5f :: (X6d :: (X61 :: (X70 :: (X5f :: (X72 :: (X65 :: (X6d :: (X6f :: (X76 :: (X65 :: []))))))))))))))))))))),
    (S
    O)) :: (((X73 :: (X70 :: (X69 :: (X66 :: (X5f :: (X61 :: (X72 :: (X72 :: (X61 :: (X79 :: (X5f :: (X72 :: (X65 :: (X6d :: (X6f :: (X76 :: (X65 :: (X5f :: (X61 :: (X74 :: [])))))))))))))))))))),
    O) :: (((X73 :: (X70 :: (X69 :: (X66 :: (X5f :: (X61 :: (X72 :: (X72 :: (X61 :: (X79 :: (X5f :: (X72 :: (X65 :: (X76 :: (X65 :: (X72 :: (X73 :: (X65 :: [])))))))))))))))))),
    O) :: (((X73 :: (X70 :: (X69 :: (X66 :: (X5f :: (X61 :: (X72 :: (X72 :: (X61 :: (X79 :: (X5f :: (X73 :: (X65 :: (X74 :: [])))))))))))))),
    O) :: (((X73 :: (X70 :: (X69 :: (X66 :: (X5f :: (X61 :: (X72 :: (X72 :: (X61 :: (X79 :: (X5f :: (X73 :: (X65 :: (X74 :: [])))))))))))))),
    (S
    O)) :: (((X73 :: (X70 :: (X69 :: (X66 :: (X5f :: (X61 :: (X72 :: (X72 :: (X61 :: (X79 :: (X5f :: (X74 :: (X6f :: (X5f :: (X61 :: (X72 :: (X72 :: (X61 :: (X79 :: []))))))))))))))))))),
    O) :: (((X73 :: (X70 :: (X69 :: (X66 :: (X5f :: (X61 :: (X72 :: (X72 :: (X61 :: (X79 :: (X5f :: (X69 :: (X74 :: (X65 :: (X72 :: (X61 :: (X74 :: (X6f :: (X72 :: (X5f :: (X69 :: (X6e :: (X69 :: (X74 :: [])))))))))))))))))))))))),
    O) :: (((X73 :: (X70 :: (X69 :: (X66 :: (X5f :: (X61 :: (X72 :: (X72 :: (X61 :: (X79 :: (X5f :: (X69 :: (X74 :: (X65 :: (X72 :: (X61 :: (X74 :: (X6f :: (X72 :: (X5f :: (X64 :: (X6f :: (X6e :: (X65 :: [])))))))))))))))))))))))),
    O) :: (((X73 :: (X70 :: (X69 :: (X66 :: (X5f :: (X61 :: (X72 :: (X72 :: (X61 :: (X79 :: (X5f :: (X69 :: (X74 :: (X65 :: (X72 :: (X61 :: (X74 :: (X6f :: (X72 :: (X5f :: (X64 :: (X65 :: (X6c :: []))))))))))))))))))))))),
    O) :: (((X73 :: (X70 :: (X69 :: (X66 :: (X5f :: (X61 :: (X72 :: (X72 :: (X61 :: (X79 :: (X5f :: (X69 :: (X74 :: (X65 :: (X72 :: (X61 :: (X74 :: (X6f :: (X72 :: (X5f :: (X63 :: (X6f :: (X6d :: (X70 :: [])))))))))))))))))))))))),
    O) :: (((X73 :: (X70 :: (X69 :: (X66 :: (X5f :: (X61 :: (X72 :: (X72 :: (X61 :: (X79 :: (X5f :: (X69 :: (X74 :: (X65 :: (X72 :: (X61 :: (X74 :: (X6f :: (X72 :: (X5f :: (X63 :: (X6f :: (X6d :: (X70 :: [])))))))))))))))))))))))),
    (S
    O)) :: (((X73 :: (X70 :: (X69 :: (X66 :: (X5f :: (X61 :: (X72 :: (X72 :: (X61 :: (X79 :: (X5f :: (X69 :: (X74 :: (X65 :: (X72 :: (X61 :: (X74 :: (X6f :: (X72 :: (X5f :: (X64 :: (X75 :: (X70 :: []))))))))))))))))))))))),
    O) :: (((X73 :: (X70 :: (X69 :: (X66 :: (X5f :: (X61 :: (X72 :: (X72 :: (X61 :: (X79 :: (X5f :: (X69 :: (X74 :: (X65 :: (X72 :: (X61 :: (X74 :: (X6f :: (X72 :: (X5f :: (X74 :: (X79 :: (X70 :: (X65 :: [])))))))))))))))))))))))),
    O) :: (((X73 :: (X70 :: (X69 :: (X66 :: (X5f :: (X61 :: (X72 :: (X72 :: (X61 :: (X79 :: (X5f :: (X69 :: (X74 :: (X65 :: (X72 :: (X61 :: (X74 :: (X6f :: (X72 :: (X5f :: (X68 :: (X61 :: (X73 :: (X5f :: (X6e :: (X65 :: (X78 :: (X74 :: [])))))))))))))))))))))))))))),
    O) :: (((X73 :: (X70 :: (X69 :: (X66 :: (X5f :: (X61 :: (X72 :: (X72 :: (X61 :: (X79 :: (X5f :: (X69 :: (X74 :: (X65 :: (X72 :: (X61 :: (X74 :: (X6f :: (X72 :: (X5f :: (X6e :: (X65 :: (X78 :: (X74 :: [])))))))))))))))))))))))),
    O) :: (((X73 :: (X70 :: (X69 :: (X66 :: (X5f :: (X6c :: (X69 :: (X6e :: (X6b :: (X65 :: (X64 :: (X5f :: (X6c :: (X69 :: (X73 :: (X74 :: (X5f :: (X69 :: (X74 :: (X65 :: (X6d :: (X5f :: (X69 :: (X6e :: (X69 :: (X74 :: [])))))))))))))))))))))))))),
    O) :: (((X73 :: (X70 :: (X69 :: (X66 :: (X5f :: (X6c :: (X69 :: (X6e :: (X6b :: (X65 :: (X64 :: (X5f :: (X6c :: (X69 :: (X73 :: (X74 :: (X5f :: (X69 :: (X74 :: (X65 :: (X6d :: (X5f :: (X64 :: (X6f :: (X6e :: (X65 :: [])))))))))))))))))))))))))),
    O) :: (((X73 :: (X70 :: (X69 :: (X66 :: (X5f :: (X6c :: (X69 :: (X6e :: (X6b :: (X65 :: (X64 :: (X5f :: (X6c :: (X69 :: (X73 :: (X74 :: (X5f :: (X69 :: (X74 :: (X65 :: (X6d :: (X5f :: (X64 :: (X65 :: (X6c :: []))))))))))))))))))))))))),
    O) :: (((X73 :: (X70 :: (X69 :: (X66 :: (X5f :: (X6c :: (X69 :: (X6e :: (X6b :: (X65 :: (X64 :: (X5f :: (X6c :: (X69 :: (X73 :: (X74 :: (X5f :: (X69 :: (X74 :: (X65 :: (X6d :: (X5f :: (X63 :: (X6f :: (X6d :: (X70 :: [])))))))))))))))))))))))))),
    O) :: (((X73 :: (X70 :: (X69 :: (X66 :: (X5f :: (X6c :: (X69 :: (X6e :: (X6b :: (X65 :: (X64 :: (X5f :: (X6c :: (X69 :: (X73 :: (X74 :: (X5f :: (X69 :: (X74 :: (X65 :: (X6d :: (X5f :: (X63 :: (X6f :: (X6d :: (X70 :: [])))))))))))))))))))))))))),
    (S
    O)) :: (((X73 :: (X70 :: (X69 :: (X66 :: (X5f :: (X6c :: (X69 :: (X6e :: (X6b :: (X65 :: (X64 :: (X5f :: (X6c :: (X69 :: (X73 :: (X74 :: (X5f :: (X69 :: (X74 :: (X65 :: (X6d :: (X5f :: (X64 :: (X75 :: (X70 :: []))))))))))))))))))))))))),
    O) :: (((X73 :: (X70 :: (X69 :: (X66 :: (X5f :: (X6c :: (X69 :: (X6e :: (X6b :: (X65 :: (X64 :: (X5f :: (X6c :: (X69 :: (X73 :: (X74 :: (X5f :: (X69 :: (X74 :: (X65 :: (X6d :: (X5f :: (X74 :: (X79 :: (X70 :: (X65 :: [])))))))))))))))))))))))))),
    O) :: (((X73 :: (X70 :: (X69 :: (X66 :: (X5f :: (X6c :: (X69 :: (X6e :: (X6b :: (X65 :: (X64 :: (X5f :: (X6c :: (X69 :: (X73 :: (X74 :: (X5f :: (X69 :: (X6e :: (X69 :: (X74 :: []))))))))))))))))))))),
    O) :: (((X73 :: (X70 :: (X69 :: (X66 :: (X5f :: (X6c :: (X69 :: (X6e :: (X6b :: (X65 :: (X64 :: (X5f :: (X6c :: (X69 :: (X73 :: (X74 :: (X5f :: (X76 :: (X65 :: (X63 :: (X74 :: (X6f :: (X72 :: (X5f :: (X69 :: (X6e :: (X69 :: (X74 :: [])))))))))))))))))))))))))))),
    O) :: (((X73 :: (X70 :: (X69 :: (X66 :: (X5f :: (X6c :: (X69 :: (X6e :: (X6b :: (X65 :: (X64 :: (X5f :: (X6c :: (X69 :: (X73 :: (X74 :: (X5f :: (X6d :: (X61 :: (X70 :: (X5f :: (X69 :: (X6e :: (X69 :: (X74 :: []))))))))))))))))))))))))),
    O) :: (((X73 :: (X70 :: (X69 :: (X66 :: (X5f :: (X6c :: (X69 :: (X6e :: (X6b :: (X65 :: (X64 :: (X5f :: (X6c :: (X69 :: (X73 :: (X74 :: (X5f :: (X64 :: (X6f :: (X6e :: (X65 :: []))))))))))))))))))))),
    O) :: (((X73 :: (X70 :: (X69 :: (X66 :: (X5f :: (X6c :: (X69 :: (X6e :: (X6b :: (X65 :: (X64 :: (X5f :: (X6c :: (X69 :: (X73 :: (X74 :: (X5f :: (X64 :: (X65 :: (X6c :: [])))))))))))))))))))),
    O) :: (((X73 :: (X70 :: (X69 :: (X66 :: (X5f :: (X6c :: (X69 :: (X6e :: (X6b :: (X65 :: (X64 :: (X5f :: (X6c :: (X69 :: (X73 :: (X74 :: (X5f :: (X63 :: (X6f :: (X6d :: (X70 :: []))))))))))))))))))))),
    O) :: (((X73 :: (X70 :: (X69 :: (X66 :: (X5f :: (X6c :: (X69 :: (X6e :: (X6b :: (X65 :: (X64 :: (X5f :: (X6c :: (X69 :: (X73 :: (X74 :: (X5f :: (X63 :: (X6f :: (X6d :: (X70 :: []))))))))))))))))))))),
    (S
    O)) :: (((X73 :: (X70 :: (X69 :: (X66 :: (X5f :: (X6c :: (X69 :: (X6e :: (X6b :: (X65 :: (X64 :: (X5f :: (X6c :: (X69 :: (X73 :: (X74 :: (X5f :: (X64 :: (X75 :: (X70 :: [])))))))))))))))))))),
    O) :: (((X73 :: (X70 :: (X69 :: (X66 :: (X5f :: (X6c :: (X69 :: (X6e :: (X6b :: (X65 :: (X64 :: (X5f :: (X6c :: (X69 :: (X73 :: (X74 :: (X5f :: (X76 :: (X65 :: (X63 :: (X74 :: (X6f :: (X72 :: (X5f :: (X64 :: (X75 :: (X70 :: []))))))))))))))))))))))))))),
    O) :: (((X73 :: (X70 :: (X69 :: (X66 :: (X5f :: (X6c :: (X69 :: (X6e :: (X6b :: (X65 :: (X64 :: (X5f :: (X6c :: (X69 :: (X73 :: (X74 :: (X5f :: (X6d :: (X61 :: (X70 :: (X5f :: (X64 :: (X75 :: (X70 :: [])))))))))))))))))))))))),
    O) :: (((X73 :: (X70 :: (X69 :: (X66 :: (X5f :: (X6c :: (X69 :: (X6e :: (X6b :: (X65 :: (X64 :: (X5f :: (X6c :: (X69 :: (X73 :: (X74 :: (X5f :: (X74 :: (X79 :: (X70 :: (X65 :: []))))))))))))))))))))),
    O) :: (((X73 :: (X70 :: (X69 :: (X66 :: (X5f :: (X6c :: (X69 :: (X6e :: (X6b :: (X65 :: (X64 :: (X5f :: (X6c :: (X69 :: (X73 :: (X74 :: (X5f :: (X61 :: (X70 :: (X70 :: (X65 :: (X6e :: (X64 :: []))))))))))))))))))))))),
    O) :: (((X73 :: (X70 :: (X69 :: (X66 :: (X5f :: (X6c :: (X69 :: (X6e :: (X6b :: (X65 :: (X64 :: (X5f :: (X6c :: (X69 :: (X73 :: (X74 :: (X5f :: (X63 :: (X6f :: (X6e :: (X74 :: (X61 :: (X69 :: (X6e :: (X73 :: []))))))))))))))))))))))))),
    O) :: (((X73 :: (X70 :: (X69 :: (X66 :: (X5f :: (X6c :: (X69 :: (X6e :: (X6b :: (X65 :: (X64 :: (X5f :: (X6c :: (X69 :: (X73 :: (X74 :: (X5f :: (X76 :: (X65 :: (X63 :: (X74 :: (X6f :: (X72 :: (X5f :: (X63 :: (X6f :: (X6e :: (X74 :: (X61 :: (X69 :: (X6e :: (X73 :: [])))))))))))))))))))))))))))))))),
    O) :: (((X73 :: (X70 :: (X69 :: (X66 :: (X5f :: (X6c :: (X69 :: (X6e :: (X6b :: (X65 :: (X64 :: (X5f :: (X6c :: (X69 :: (X73 :: (X74 :: (X5f :: (X63 :: (X6f :: (X75 :: (X6e :: (X74 :: [])))))))))))))))))))))),
    O) :: (((X73 :: (X70 :: (X69 :: (X66 :: (X5f :: (X6c :: (X69 :: (X6e :: (X6b :: (X65 :: (X64 :: (X5f :: (X6c :: (X69 :: (X73 :: (X74 :: (X5f :: (X66 :: (X69 :: (X6e :: (X64 :: []))))))))))))))))))))),
    O) :: (((X73 :: (X70 :: (X69 :: (X66 :: (X5f :: (X6c :: (X69 :: (X6e :: (X6b :: (X65 :: (X64 :: (X5f :: (X6c :: (X69 :: (X73 :: (X74 :: (X5f :: (X66 :: (X69 :: (X6e :: (X64 :: []))))))))))))))))))))),
    (S
    O)) :: (((X73 :: (X70 :: (X69 :: (X66 :: (X5f :: (X6c :: (X69 :: (X6e :: (X6b :: (X65 :: (X64 :: (X5f :: (X6c :: (X69 :: (X73 :: (X74 :: (X5f :: (X76 :: (X65 :: (X63 :: (X74 :: (X6f :: (X72 :: (X5f :: (X66 :: (X69 :: (X6e :: (X64 :: [])))))))))))))))))))))))))))),
    O) :: (((X73 :: (X70 :: (X69 :: (X66 :: (X5f :: (X6c :: (X69 :: (X6e :: (X6b :: (X65 :: (X64 :: (X5f :: (X6c :: (X69 :: (X73 :: (X74 :: (X5f :: (X76 :: (X65 :: (X63 :: (X74 :: (X6f :: (X72 :: (X5f :: (X66 :: (X69 :: (X6e :: (X64 :: [])))))))))))))))))))))))))))),
    (S
    O)) :: (((X73 :: (X70 :: (X69 :: (X66 :: (X5f :: (X6c :: (X69 :: (X6e :: (X6b :: (X65 :: (X64 :: (X5f :: (X6c :: (X69 :: (X73 :: (X74 :: (X5f :: (X67 :: (X65 :: (X74 :: [])))))))))))))))))))),
    O) :: (((X73 :: (X70 :: (X69 :: (X66 :: (X5f :: (X6c :: (X69 :: (X6e :: (X6b :: (X65 :: (X64 :: (X5f :: (X6c :: (X69 :: (X73 :: (X74 :: (X5f :: (X6d :: (X61 :: (X70 :: (X5f :: (X67 :: (X65 :: (X74 :: [])))))))))))))))))))))))),
    O) :: (((X73 :: (X70 :: (X69 :: (X66 :: (X5f :: (X6c :: (X69 :: (X6e :: (X6b :: (X65 :: (X64 :: (X5f :: (X6c :: (X69 :: (X73 :: (X74 :: (X5f :: (X6d :: (X61 :: (X70 :: (X5f :: (X67 :: (X65 :: (X74 :: [])))))))))))))))))))))))),
    (S
    O)) :: (((X73 :: (X70 :: (X69 :: (X66 :: (X5f :: (X6c :: (X69 :: (X6e :: (X6b :: (X65 :: (X64 :: (X5f :: (X6c :: (X69 :: (X73 :: (X74 :: (X5f :: (X67 :: (X65 :: (X74 :: (X5f :: (X6b :: (X65 :: (X79 :: (X73 :: []))))))))))))))))))))))))),
    O) :: (((X73 :: (X70 :: (X69 :: (X66 :: (X5f :: (X6c :: (X69 :: (X6e :: (X6b :: (X65 :: (X64 :: (X5f :: (X6c :: (X69 :: (X73 :: (X74 :: (X5f :: (X67 :: (X65 :: (X74 :: (X5f :: (X70 :: (X61 :: (X69 :: (X72 :: (X73 :: [])))))))))))))))))))))))))),
    O) :: (((X73 :: (X70 :: (X69 :: (X66 :: (X5f :: (X6c :: (X69 :: (X6e :: (X6b :: (X65 :: (X64 :: (X5f :: (X6c :: (X69 :: (X73 :: (X74 :: (X5f :: (X67 :: (X65 :: (X74 :: (X5f :: (X76 :: (X61 :: (X6c :: (X75 :: (X65 :: (X73 :: []))))))))))))))))))))))))))),
    O) :: (((X73 :: (X70 :: (X69 :: (X66 :: (X5f :: (X6c :: (X69 :: (X6e :: (X6b :: (X65 :: (X64 :: (X5f :: (X6c :: (X69 :: (X73 :: (X74 :: (X5f :: (X68 :: (X61 :: (X73 :: (X5f :: (X76 :: (X61 :: (X6c :: (X75 :: (X65 :: [])))))))))))))))))))))))))),
    O) :: (((X73 :: (X70 :: (X69 :: (X66 :: (X5f :: (X6c :: (X69 :: (X6e :: (X6b :: (X65 :: (X64 :: (X5f :: (X6c :: (X69 :: (X73 :: (X74 :: (X5f :: (X69 :: (X6e :: (X64 :: (X65 :: (X78 :: [])))))))))))))))))))))),
    O) :: (((X73 :: (X70 :: (X69 :: (X66 :: (X5f :: (X6c :: (X69 :: (X6e :: (X6b :: (X65 :: (X64 :: (X5f :: (X6c :: (X69 :: (X73 :: (X74 :: (X5f :: (X69 :: (X6e :: (X73 :: (X65 :: (X72 :: (X74 :: []))))))))))))))))))))))),
    O) :: (((X73 :: (X70 :: (X69 :: (X66 :: (X5f :: (X6c :: (X69 :: (X6e :: (X6b :: (X65 :: (X64 :: (X5f :: (X6c :: (X69 :: (X73 :: (X74 :: (X5f :: (X69 :: (X6e :: (X73 :: (X65 :: (X72 :: (X74 :: (X5f :: (X61 :: (X74 :: [])))))))))))))))))))))))))),
    O) :: (((X73 :: (X70 :: (X69 :: (X66 :: (X5f :: (X6c :: (X69 :: (X6e :: (X6b :: (X65 :: (X64 :: (X5f :: (X6c :: (X69 :: (X73 :: (X74 :: (X5f :: (X69 :: (X74 :: (X65 :: (X72 :: (X61 :: (X74 :: (X6f :: (X72 :: []))))))))))))))))))))))))),
    O) :: (((X73 :: (X70 :: (X69 :: (X66 :: (X5f :: (X6c :: (X69 :: (X6e :: (X6b :: (X65 :: (X64 :: (X5f :: (X6c :: (X69 :: (X73 :: (X74 :: (X5f :: (X70 :: (X72 :: (X65 :: (X70 :: (X65 :: (X6e :: (X64 :: [])))))))))))))))))))))))),
    O) :: (((X73 :: (X70 :: (X69 :: (X66 :: (X5f :: (X6c :: (X69 :: (X6e :: (X6b :: (X65 :: (X64 :: (X5f :: (X6c :: (X69 :: (X73 :: (X74 :: (X5f :: (X72 :: (X65 :: (X6d :: (X6f :: (X76 :: (X65 :: []))))))))))))))))))))))),
    O) :: (((X73 :: (X70 :: (X69 :: (X66 :: (X5f :: (X6c :: (X69 :: (X6e :: (X6b :: (X65 :: (X64 :: (X5f :: (X6c :: (X69 :: (X73 :: (X74 :: (X5f :: (X72 :: (X65 :: (X6d :: (X6f :: (X76 :: (X65 :: []))))))))))))))))))))))),
    (S
    O)) :: (((X73 :: (X70 :: (X69 :: (X66 :: (X5f :: (X6c :: (X69 :: (X6e :: (X6b :: (X65 :: (X64 :: (X5f :: (X6c :: (X69 :: (X73 :: (X74 :: (X5f :: (X6d :: (X61 :: (X70 :: (X5f :: (X72 :: (X65 :: (X6d :: (X6f :: (X76 :: (X65 :: []))))))))))))))))))))))))))),
    O) :: (((X73 :: (X70 :: (X69 :: (X66 :: (X5f :: (X6c :: (X69 :: (X6e :: (X6b :: (X65 :: (X64 :: (X5f :: (X6c :: (X69 :: (X73 :: (X74 :: (X5f :: (X6d :: (X61 :: (X70 :: (X5f :: (X72 :: (X65 :: (X6d :: (X6f :: (X76 :: (X65 :: []))))))))))))))))))))))))))),
    (S
    O)) :: (((X73 :: (X70 :: (X69 :: (X66 :: (X5f :: (X6c :: (X69 :: (X6e :: (X6b :: (X65 :: (X64 :: (X5f :: (X6c :: (X69 :: (X73 :: (X74 :: (X5f :: (X72 :: (X65 :: (X6d :: (X6f :: (X76 :: (X65 :: (X5f :: (X61 :: (X74 :: [])))))))))))))))))))))))))),
    O) :: (((X73 :: (X70 :: (X69 :: (X66 :: (X5f :: (X6c :: (X69 :: (X6e :: (X6b :: (X65 :: (X64 :: (X5f :: (X6c :: (X69 :: (X73 :: (X74 :: (X5f :: (X72 :: (X65 :: (X76 :: (X65 :: (X72 :: (X73 :: (X65 :: [])))))))))))))))))))))))),
    O) :: (((X73 :: (X70 :: (X69 :: (X66 :: (X5f :: (X6c :: (X69 :: (X6e :: (X6b :: (X65 :: (X64 :: (X5f :: (X6c :: (X69 :: (X73 :: (X74 :: (X5f :: (X73 :: (X65 :: (X74 :: [])))))))))))))))))))),
    O) :: (((X73 :: (X70 :: (X69 :: (X66 :: (X5f :: (X6c :: (X69 :: (X6e :: (X6b :: (X65 :: (X64 :: (X5f :: (X6c :: (X69 :: (X73 :: (X74 :: (X5f :: (X73 :: (X65 :: (X74 :: [])))))))))))))))))))),
    (S
    O)) :: (((X73 :: (X70 :: (X69 :: (X66 :: (X5f :: (X6c :: (X69 :: (X6e :: (X6b :: (X65 :: (X64 :: (X5f :: (X6c :: (X69 :: (X73 :: (X74 :: (X5f :: (X74 :: (X6f :: (X5f :: (X61 :: (X72 :: (X72 :: (X61 :: (X79 :: []))))))))))))))))))))))))),
    O) :: (((X73 :: (X70 :: (X69 :: (X66 :: (X5f :: (X6c :: (X69 :: (X6e :: (X6b :: (X65 :: (X64 :: (X5f :: (X6c :: (X69 :: (X73 :: (X74 :: (X5f :: (X69 :: (X74 :: (X65 :: (X72 :: (X61 :: (X74 :: (X6f :: (X72 :: (X5f :: (X69 :: (X6e :: (X69 :: (X74 :: [])))))))))))))))))))))))))))))),
    O) :: (((X73 :: (X70 :: (X69 :: (X66 :: (X5f :: (X6c :: (X69 :: (X6e :: (X6b :: (X65 :: (X64 :: (X5f :: (X6c :: (X69 :: (X73 :: (X74 :: (X5f :: (X69 :: (X74 :: (X65 :: (X72 :: (X61 :: (X74 :: (X6f :: (X72 :: (X5f :: (X64 :: (X6f :: (X6e :: (X65 :: [])))))))))))))))))))))))))))))),
    O) :: (((X73 :: (X70 :: (X69 :: (X66 :: (X5f :: (X6c :: (X69 :: (X6e :: (X6b :: (X65 :: (X64 :: (X5f :: (X6c :: (X69 :: (X73 :: (X74 :: (X5f :: (X69 :: (X74 :: (X65 :: (X72 :: (X61 :: (X74 :: (X6f :: (X72 :: (X5f :: (X64 :: (X65 :: (X6c :: []))))))))))))))))))))))))))))),
    O) :: (((X73 :: (X70 :: (X69 :: (X66 :: (X5f :: (X6c :: (X69 :: (X6e :: (X6b :: (X65 :: (X64 :: (X5f :: (X6c :: (X69 :: (X73 :: (X74 :: (X5f :: (X69 :: (X74 :: (X65 :: (X72 :: (X61 :: (X74 :: (X6f :: (X72 :: (X5f :: (X63 :: (X6f :: (X6d :: (X70 :: [])))))))))))))))))))))))))))))),
    O) :: (((X73 :: (X70 :: (X69 :: (X66 :: (X5f :: (X6c :: (X69 :: (X6e :: (X6b :: (X65 :: (X64 :: (X5f :: (X6c :: (X69 :: (X73 :: (X74 :: (X5f :: (X69 :: (X74 :: (X65 :: (X72 :: (X61 :: (X74 :: (X6f :: (X72 :: (X5f :: (X63 :: (X6f :: (X6d :: (X70 :: [])))))))))))))))))))))))))))))),
    (S
    O)) :: (((X73 :: (X70 :: (X69 :: (X66 :: (X5f :: (X6c :: (X69 :: (X6e :: (X6b :: (X65 :: (X64 :: (X5f :: (X6c :: (X69 :: (X73 :: (X74 :: (X5f :: (X69 :: (X74 :: (X65 :: (X72 :: (X61 :: (X74 :: (X6f :: (X72 :: (X5f :: (X64 :: (X75 :: (X70 :: []))))))))))))))))))))))))))))),
    O) :: (((X73 :: (X70 :: (X69 :: (X66 :: (X5f :: (X6c :: (X69 :: (X6e :: (X6b :: (X65 :: (X64 :: (X5f :: (X6c :: (X69 :: (X73 :: (X74 :: (X5f :: (X69 :: (X74 :: (X65 :: (X72 :: (X61 :: (X74 :: (X6f :: (X72 :: (X5f :: (X74 :: (X79 :: (X70 :: (X65 :: [])))))))))))))))))))))))))))))),
    O) :: (((X73 :: (X70 :: (X69 :: (X66 :: (X5f :: (X6c :: (X69 :: (X6e :: (X6b :: (X65 :: (X64 :: (X5f :: (X6c :: (X69 :: (X73 :: (X74 :: (X5f :: (X69 :: (X74 :: (X65 :: (X72 :: (X61 :: (X74 :: (X6f :: (X72 :: (X5f :: (X68 :: (X61 :: (X73 :: (X5f :: (X6e :: (X65 :: (X78 :: (X74 :: [])))))))))))))))))))))))))))))))))),
    O) :: (((X73 :: (X70 :: (X69 :: (X66 :: (X5f :: (X6c :: (X69 :: (X6e :: (X6b :: (X65 :: (X64 :: (X5f :: (X6c :: (X69 :: (X73 :: (X74 :: (X5f :: (X69 :: (X74 :: (X65 :: (X72 :: (X61 :: (X74 :: (X6f :: (X72 :: (X5f :: (X6e :: (X65 :: (X78 :: (X74 :: [])))))))))))))))))))))))))))))),
    O) :: (((X73 :: (X70 :: (X69 :: (X66 :: (X5f :: (X64 :: (X6c :: (X69 :: (X6e :: (X6b :: (X65 :: (X64 :: (X5f :: (X6c :: (X69 :: (X73 :: (X74 :: (X5f :: (X69 :: (X74 :: (X65 :: (X6d :: (X5f :: (X69 :: (X6e :: (X69 :: (X74 :: []))))))))))))))))))))))))))),
    O) :: (((X73 :: (X70 :: (X69 :: (X66 :: (X5f :: (X64 :: (X6c :: (X69 :: (X6e :: (X6b :: (X65 :: (X64 :: (X5f :: (X6c :: (X69 :: (X73 :: (X74 :: (X5f :: (X69 :: (X74 :: (X65 :: (X6d :: (X5f :: (X64 :: (X6f :: (X6e :: (X65 :: []))))))))))))))))))))))))))),
    O) :: (((X73 :: (X70 :: (X69 :: (X66 :: (X5f :: (X64 :: (X6c :: (X69 :: (X6e :: (X6b :: (X65 :: (X64 :: (X5f :: (X6c :: (X69 :: (X73 :: (X74 :: (X5f :: (X69 :: (X74 :: (X65 :: (X6d :: (X5f :: (X64 :: (X65 :: (X6c :: [])))))))))))))))))))))))))),
    O) :: (((X73 :: (X70 :: (X69 :: (X66 :: (X5f :: (X64 :: (X6c :: (X69 :: (X6e :: (X6b :: (X65 :: (X64 :: (X5f :: (X6c :: (X69 :: (X73 :: (X74 :: (X5f :: (X69 :: (X74 :: (X65 :: (X6d :: (X5f :: (X63 :: (X6f :: (X6d :: (X70 :: []))))))))))))))))))))))))))),
    O) :: (((X73 :: (X70 :: (X69 :: (X66 :: (X5f :: (X64 :: (X6c :: (X69 :: (X6e :: (X6b :: (X65 :: (X64 :: (X5f :: (X6c :: (X69 :: (X73 :: (X74 :: (X5f :: (X69 :: (X74 :: (X65 :: (X6d :: (X5f :: (X63 :: (X6f :: (X6d :: (X70 :: []))))))))))))))))))))))))))),
    (S
    O)) :: (((X73 :: (X70 :: (X69 :: (X66 :: (X5f :: (X64 :: (X6c :: (X69 :: (X6e :: (X6b :: (X65 :: (X64 :: (X5f :: (X6c :: (X69 :: (X73 :: (X74 :: (X5f :: (X69 :: (X74 :: (X65 :: (X6d :: (X5f :: (X64 :: (X75 :: (X70 :: [])))))))))))))))))))))))))),
    O) :: (((X73 :: (X70 :: (X69 :: (X66 :: (X5f :: (X64 :: (X6c :: (X69 :: (X6e :: (X6b :: (X65 :: (X64 :: (X5f :: (X6c :: (X69 :: (X73 :: (X74 :: (X5f :: (X69 :: (X74 :: (X65 :: (X6d :: (X5f :: (X74 :: (X79 :: (X70 :: (X65 :: []))))))))))))))))))))))))))),
    O) :: (((X73 :: (X70 :: (X69 :: (X66 :: (X5f :: (X64 :: (X6c :: (X69 :: (X6e :: (X6b :: (X65 :: (X64 :: (X5f :: (X6c :: (X69 :: (X73 :: (X74 :: (X5f :: (X69 :: (X6e :: (X69 :: (X74 :: [])))))))))))))))))))))),
    O) :: (((X73 :: (X70 :: (X69 :: (X66 :: (X5f :: (X64 :: (X6c :: (X69 :: (X6e :: (X6b :: (X65 :: (X64 :: (X5f :: (X6c :: (X69 :: (X73 :: (X74 :: (X5f :: (X76 :: (X65 :: (X63 :: (X74 :: (X6f :: (X72 :: (X5f :: (X69 :: (X6e :: (X69 :: (X74 :: []))))))))))))))))))))))))))))),
    O) :: (((X73 :: (X70 :: (X69 :: (X66 :: (X5f :: (X64 :: (X6c :: (X69 :: (X6e :: (X6b :: (X65 :: (X64 :: (X5f :: (X6c :: (X69 :: (X73 :: (X74 :: (X5f :: (X6d :: (X61 :: (X70 :: (X5f :: (X69 :: (X6e :: (X69 :: (X74 :: [])))))))))))))))))))))))))),
    O) :: (((X73 :: (X70 :: (X69 :: (X66 :: (X5f :: (X64 :: (X6c :: (X69 :: (X6e :: (X6b :: (X65 :: (X64 :: (X5f :: (X6c :: (X69 :: (X73 :: (X74 :: (X5f :: (X64 :: (X6f :: (X6e :: (X65 :: [])))))))))))))))))))))),
    O) :: (((X73 :: (X70 :: (X69 :: (X66 :: (X5f :: (X64 :: (X6c :: (X69 :: (X6e :: (X6b :: (X65 :: (X64 :: (X5f :: (X6c :: (X69 :: (X73 :: (X74 :: (X5f :: (X64 :: (X65 :: (X6c :: []))))))))))))))))))))),
    O) :: (((X73 :: (X70 :: (X69 :: (X66 :: (X5f :: (X64 :: (X6c :: (X69 :: (X6e :: (X6b :: (X65 :: (X64 :: (X5f :: (X6c :: (X69 :: (X73 :: (X74 :: (X5f :: (X63 :: (X6f :: (X6d :: (X70 :: [])))))))))))))))))))))),
    O) :: (((X73 :: (X70 :: (X69 :: (X66 :: (X5f :: (X64 :: (X6c :: (X69 :: (X6e :: (X6b :: (X65 :: (X64 :: (X5f :: (X6c :: (X69 :: (X73 :: (X74 :: (X5f :: (X63 :: (X6f :: (X6d :: (X70 :: [])))))))))))))))))))))),
    (S
    O)) :: (((X73 :: (X70 :: (X69 :: (X66 :: (X5f :: (X64 :: (X6c :: (X69 :: (X6e :: (X6b :: (X65 :: (X64 :: (X5f :: (X6c :: (X69 :: (X73 :: (X74 :: (X5f :: (X64 :: (X75 :: (X70 :: []))))))))))))))))))))),
    O) :: (((X73 :: (X70 :: (X69 :: (X66 :: (X5f :: (X64 :: (X6c :: (X69 :: (X6e :: (X6b :: (X65 :: (X64 :: (X5f :: (X6c :: (X69 :: (X73 :: (X74 :: (X5f :: (X76 :: (X65 :: (X63 :: (X74 :: (X6f :: (X72 :: (X5f :: (X64 :: (X75 :: (X70 :: [])))))))))))))))))))))))))))),
    O) :: (((X73 :: (X70 :: (X69 :: (X66 :: (X5f :: (X64 :: (X6c :: (X69 :: (X6e :: (X6b :: (X65 :: (X64 :: (X5f :: (X6c :: (X69 :: (X73 :: (X74 :: (X5f :: (X6d :: (X61 :: (X70 :: (X5f :: (X64 :: (X75 :: (X70 :: []))))))))))))))))))))))))),
    O) :: (((X73 :: (X70 :: (X69 :: (X66 :: (X5f :: (X64 :: (X6c :: (X69 :: (X6e :: (X6b :: (X65 :: (X64 :: (X5f :: (X6c :: (X69 :: (X73 :: (X74 :: (X5f :: (X74 :: (X79 :: (X70 :: (X65 :: [])))))))))))))))))))))),
    O) :: (((X73 :: (X70 :: (X69 :: (X66 :: (X5f :: (X64 :: (X6c :: (X69 :: (X6e :: (X6b :: (X65 :: (X64 :: (X5f :: (X6c :: (X69 :: (X73 :: (X74 :: (X5f :: (X61 :: (X70 :: (X70 :: (X65 :: (X6e :: (X64 :: [])))))))))))))))))))))))),
    O) :: (((X73 :: (X70 :: (X69 :: (X66 :: (X5f :: (X64 :: (X6c :: (X69 :: (X6e :: (X6b :: (X65 :: (X64 :: (X5f :: (X6c :: (X69 :: (X73 :: (X74 :: (X5f :: (X63 :: (X6f :: (X6e :: (X74 :: (X61 :: (X69 :: (X6e :: (X73 :: [])))))))))))))))))))))))))),
    O) :: (((X73 :: (X70 :: (X69 :: (X66 :: (X5f :: (X64 :: (X6c :: (X69 :: (X6e :: (X6b :: (X65 :: (X64 :: (X5f :: (X6c :: (X69 :: (X73 :: (X74 :: (X5f :: (X76 :: (X65 :: (X63 :: (X74 :: (X6f :: (X72 :: (X5f :: (X63 :: (X6f :: (X6e :: (X74 :: (X61 :: (X69 :: (X6e :: (X73 :: []))))))))))))))))))))))))))))))))),
    O) :: (((X73 :: (X70 :: (X69 :: (X66 :: (X5f :: (X64 :: (X6c :: (X69 :: (X6e :: (X6b :: (X65 :: (X64 :: (X5f :: (X6c :: (X69 :: (X73 :: (X74 :: (X5f :: (X63 :: (X6f :: (X75 :: (X6e :: (X74 :: []))))))))))))))))))))))),
    O) :: (((X73 :: (X70 :: (X69 :: (X66 :: (X5f :: (X64 :: (X6c :: (X69 :: (X6e :: (X6b :: (X65 :: (X64 :: (X5f :: (X6c :: (X69 :: (X73 :: (X74 :: (X5f :: (X66 :: (X69 :: (X6e :: (X64 :: [])))))))))))))))))))))),
    O) :: (((X73 :: (X70 :: (X69 :: (X66 :: (X5f :: (X64 :: (X6c :: (X69 :: (X6e :: (X6b :: (X65 :: (X64 :: (X5f :: (X6c :: (X69 :: (X73 :: (X74 :: (X5f :: (X66 :: (X69 :: (X6e :: (X64 :: [])))))))))))))))))))))),
    (S
    O)) :: (((X73 :: (X70 :: (X69 :: (X66 :: (X5f :: (X64 :: (X6c :: (X69 :: (X6e :: (X6b :: (X65 :: (X64 :: (X5f :: (X6c :: (X69 :: (X73 :: (X74 :: (X5f :: (X76 :: (X65 :: (X63 :: (X74 :: (X6f :: (X72 :: (X5f :: (X66 :: (X69 :: (X6e :: (X64 :: []))))))))))))))))))))))))))))),
    O) :: (((X73 :: (X70 :: (X69 :: (X66 :: (X5f :: (X64 :: (X6c :: (X69 :: (X6e :: (X6b :: (X65 :: (X64 :: (X5f :: (X6c :: (X69 :: (X73 :: (X74 :: (X5f :: (X76 :: (X65 :: (X63 :: (X74 :: (X6f :: (X72 :: (X5f :: (X66 :: (X69 :: (X6e :: (X64 :: []))))))))))))))))))))))))))))),
    (S
    O)) :: (((X73 :: (X70 :: (X69 :: (X66 :: (X5f :: (X64 :: (X6c :: (X69 :: (X6e :: (X6b :: (X65 :: (X64 :: (X5f :: (X6c :: (X69 :: (X73 :: (X74 :: (X5f :: (X67 :: (X65 :: (X74 :: []))))))))))))))))))))),
    O) :: (((X73 :: (X70 :: (X69 :: (X66 :: (X5f :: (X64 :: (X6c :: (X69 :: (X6e :: (X6b :: (X65 :: (X64 :: (X5f :: (X6c :: (X69 :: (X73 :: (X74 :: (X5f :: (X6d :: (X61 :: (X70 :: (X5f :: (X67 :: (X65 :: (X74 :: []))))))))))))))))))))))))),
    O) :: (((X73 :: (X70 :: (X69 :: (X66 :: (X5f :: (X64 :: (X6c :: (X69 :: (X6e :: (X6b :: (X65 :: (X64 :: (X5f :: (X6c :: (X69 :: (X73 :: (X74 :: (X5f :: (X6d :: (X61 :: (X70 :: (X5f :: (X67 :: (X65 :: (X74 :: []))))))))))))))))))))))))),
    (S
    O)) :: (((X73 :: (X70 :: (X69 :: (X66 :: (X5f :: (X64 :: (X6c :: (X69 :: (X6e :: (X6b :: (X65 :: (X64 :: (X5f :: (X6c :: (X69 :: (X73 :: (X74 :: (X5f :: (X67 :: (X65 :: (X74 :: (X5f :: (X6b :: (X65 :: (X79 :: (X73 :: [])))))))))))))))))))))))))),
    O) :: (((X73 :: (X70 :: (X69 :: (X66 :: (X5f :: (X64 :: (X6c :: (X69 :: (X6e :: (X6b :: (X65 :: (X64 :: (X5f :: (X6c :: (X69 :: (X73 :: (X74 :: (X5f :: (X67 :: (X65 :: (X74 :: (X5f :: (X70 :: (X61 :: (X69 :: (X72 :: (X73 :: []))))))))))))))))))))))))))),
    O) :: (((X73 :: (X70 :: (X69 :: (X66 :: (X5f :: (X64 :: (X6c :: (X69 :: (X6e :: (X6b :: (X65 :: (X64 :: (X5f :: (X6c :: (X69 :: (X73 :: (X74 :: (X5f :: (X67 :: (X65 :: (X74 :: (X5f :: (X76 :: (X61 :: (X6c :: (X75 :: (X65 :: (X73 :: [])))))))))))))))))))))))))))),
    O) :: (((X73 :: (X70 :: (X69 :: (X66 :: (X5f :: (X64 :: (X6c :: (X69 :: (X6e :: (X6b :: (X65 :: (X64 :: (X5f :: (X6c :: (X69 :: (X73 :: (X74 :: (X5f :: (X68 :: (X61 :: (X73 :: (X5f :: (X76 :: (X61 :: (X6c :: (X75 :: (X65 :: []))))))))))))))))))))))))))),
    O) :: (((X73 :: (X70 :: (X69 :: (X66 :: (X5f :: (X64 :: (X6c :: (X69 :: (X6e :: (X6b :: (X65 :: (X64 :: (X5f :: (X6c :: (X69 :: (X73 :: (X74 :: (X5f :: (X69 :: (X6e :: (X64 :: (X65 :: (X78 :: []))))))))))))))))))))))),
    O) :: (((X73 :: (X70 :: (X69 :: (X66 :: (X5f :: (X64 :: (X6c :: (X69 :: (X6e :: (X6b :: (X65 :: (X64 :: (X5f :: (X6c :: (X69 :: (X73 :: (X74 :: (X5f :: (X69 :: (X6e :: (X73 :: (X65 :: (X72 :: (X74 :: [])))))))))))))))))))))))),
    O) :: (((X73 :: (X70 :: (X69 :: (X66 :: (X5f :: (X64 :: (X6c :: (X69 :: (X6e :: (X6b :: (X65 :: (X64 :: (X5f :: (X6c :: (X69 :: (X73 :: (X74 :: (X5f :: (X69 :: (X6e :: (X73 :: (X65 :: (X72 :: (X74 :: (X5f :: (X61 :: (X74 :: []))))))))))))))))))))))))))),
    O) :: (((X73 :: (X70 :: (X69 :: (X66 :: (X5f :: (X64 :: (X6c :: (X69 :: (X6e :: (X6b :: (X65 :: (X64 :: (X5f :: (X6c :: (X69 :: (X73 :: (X74 :: (X5f :: (X69 :: (X74 :: (X65 :: (X72 :: (X61 :: (X74 :: (X6f :: (X72 :: [])))))))))))))))))))))))))),
    O) :: (((X73 :: (X70 :: (X69 :: (X66 :: (X5f :: (X64 :: (X6c :: (X69 :: (X6e :: (X6b :: (X65 :: (X64 :: (X5f :: (X6c :: (X69 :: (X73 :: (X74 :: (X5f :: (X70 :: (X72 :: (X65 :: (X70 :: (X65 :: (X6e :: (X64 :: []))))))))))))))))))))))))),
    O) :: (((X73 :: (X70 :: (X69 :: (X66 :: (X5f :: (X64 :: (X6c :: (X69 :: (X6e :: (X6b :: (X65 :: (X64 :: (X5f :: (X6c :: (X69 :: (X73 :: (X74 :: (X5f :: (X72 :: (X65 :: (X6d :: (X6f :: (X76 :: (X65 :: [])))))))))))))))))))))))),
    O) :: (((X73 :: (X70 :: (X69 :: (X66 :: (X5f :: (X64 :: (X6c :: (X69 :: (X6e :: (X6b :: (X65 :: (X64 :: (X5f :: (X6c :: (X69 :: (X73 :: (X74 :: (X5f :: (X72 :: (X65 :: (X6d :: (X6f :: (X76 :: (X65 :: [])))))))))))))))))))))))),
    (S
    O)) :: (((X73 :: (X70 :: (X69 :: (X66 :: (X5f :: (X64 :: (X6c :: (X69 :: (X6e :: (X6b :: (X65 :: (X64 :: (X5f :: (X6c :: (X69 :: (X73 :: (X74 :: (X5f :: (X6d :: (X61 :: (X70 :: (X5f :: (X72 :: (X65 :: (X6d :: (X6f :: (X76 :: (X65 :: [])))))))))))))))))))))))))))),
    O) :: (((X73 :: (X70 :: (X69 :: (X66 :: (X5f :: (X64 :: (X6c :: (X69 :: (X6e :: (X6b :: (X65 :: (X64 :: (X5f :: (X6c :: (X69 :: (X73 :: (X74 :: (X5f :: (X6d :: (X61 :: (X70 :: (X5f :: (X72 :: (X65 :: (X6d :: (X6f :: (X76 :: (X65 :: [])))))))))))))))))))))))))))),
    (S
    O)) :: (((X73 :: (X70 :: (X69 :: (X66 :: (X5f :: (X64 :: (X6c :: (X69 :: (X6e :: (X6b :: (X65 :: (X64 :: (X5f :: (X6c :: (X69 :: (X73 :: (X74 :: (X5f :: (X72 :: (X65 :: (X6d :: (X6f :: (X76 :: (X65 :: (X5f :: (X61 :: (X74 :: []))))))))))))))))))))))))))),
    O) :: (((X73 :: (X70 :: (X69 :: (X66 :: (X5f :: (X64 :: (X6c :: (X69 :: (X6e :: (X6b :: (X65 :: (X64 :: (X5f :: (X6c :: (X69 :: (X73 :: (X74 :: (X5f :: (X72 :: (X65 :: (X76 :: (X65 :: (X72 :: (X73 :: (X65 :: []))))))))))))))))))))))))),
    O) :: (((X73 :: (X70 :: (X69 :: (X66 :: (X5f :: (X64 :: (X6c :: (X69 :: (X6e :: (X6b :: (X65 :: (X64 :: (X5f :: (X6c :: (X69 :: (X73 :: (X74 :: (X5f :: (X73 :: (X65 :: (X74 :: []))))))))))))))))))))),
    O) :: (((X73 :: (X70 :: (X69 :: (X66 :: (X5f :: (X64 :: (X6c :: (X69 :: (X6e :: (X6b :: (X65 :: (X64 :: (X5f :: (X6c :: (X69 :: (X73 :: (X74 :: (X5f :: (X73 :: (X65 :: (X74 :: []))))))))))))))))))))),
    (S
    O)) :: (((X73 :: (X70 :: (X69 :: (X66 :: (X5f :: (X64 :: (X6c :: (X69 :: (X6e :: (X6b :: (X65 :: (X64 :: (X5f :: (X6c :: (X69 :: (X73 :: (X74 :: (X5f :: (X74 :: (X6f :: (X5f :: (X61 :: (X72 :: (X72 :: (X61 :: (X79 :: [])))))))))))))))))))))))))),
    O) :: (((X73 :: (X70 :: (X69 :: (X66 :: (X5f :: (X64 :: (X6c :: (X69 :: (X6e :: (X6b :: (X65 :: (X64 :: (X5f :: (X6c :: (X69 :: (X73 :: (X74 :: (X5f :: (X69 :: (X74 :: (X65 :: (X72 :: (X61 :: (X74 :: (X6f :: (X72 :: (X5f :: (X69 :: (X6e :: (X69 :: (X74 :: []))))))))))))))))))))))))))))))),
    O) :: (((X73 :: (X70 :: (X69 :: (X66 :: (X5f :: (X64 :: (X6c :: (X69 :: (X6e :: (X6b :: (X65 :: (X64 :: (X5f :: (X6c :: (X69 :: (X73 :: (X74 :: (X5f :: (X69 :: (X74 :: (X65 :: (X72 :: (X61 :: (X74 :: (X6f :: (X72 :: (X5f :: (X64 :: (X6f :: (X6e :: (X65 :: []))))))))))))))))))))))))))))))),
    O) :: (((X73 :: (X70 :: (X69 :: (X66 :: (X5f :: (X64 :: (X6c :: (X69 :: (X6e :: (X6b :: (X65 :: (X64 :: (X5f :: (X6c :: (X69 :: (X73 :: (X74 :: (X5f :: (X69 :: (X74 :: (X65 :: (X72 :: (X61 :: (X74 :: (X6f :: (X72 :: (X5f :: (X64 :: (X65 :: (X6c :: [])))))))))))))))))))))))))))))),
    O) :: (((X73 :: (X70 :: (X69 :: (X66 :: (X5f :: (X64 :: (X6c :: (X69 :: (X6e :: (X6b :: (X65 :: (X64 :: (X5f :: (X6c :: (X69 :: (X73 :: (X74 :: (X5f :: (X69 :: (X74 :: (X65 :: (X72 :: (X61 :: (X74 :: (X6f :: (X72 :: (X5f :: (X63 :: (X6f :: (X6d :: (X70 :: []))))))))))))))))))))))))))))))),
    O) :: (((X73 :: (X70 :: (X69 :: (X66 :: (X5f :: (X64 :: (X6c :: (X69 :: (X6e :: (X6b :: (X65 :: (X64 :: (X5f :: (X6c :: (X69 :: (X73 :: (X74 :: (X5f :: (X69 :: (X74 :: (X65 :: (X72 :: (X61 :: (X74 :: (X6f :: (X72 :: (X5f :: (X63 :: (X6f :: (X6d :: (X70 :: []))))))))))))))))))))))))))))))),
    (S
    O)) :: (((X73 :: (X70 :: (X69 :: (X66 :: (X5f :: (X64 :: (X6c :: (X69 :: (X6e :: (X6b :: (X65 :: (X64 :: (X5f :: (X6c :: (X69 :: (X73 :: (X74 :: (X5f :: (X69 :: (X74 :: (X65 :: (X72 :: (X61 :: (X74 :: (X6f :: (X72 :: (X5f :: (X64 :: (X75 :: (X70 :: [])))))))))))))))))))))))))))))),
    O) :: (((X73 :: (X70 :: (X69 :: (X66 :: (X5f :: (X64 :: (X6c :: (X69 :: (X6e :: (X6b :: (X65 :: (X64 :: (X5f :: (X6c :: (X69 :: (X73 :: (X74 :: (X5f :: (X69 :: (X74 :: (X65 :: (X72 :: (X61 :: (X74 :: (X6f :: (X72 :: (X5f :: (X74 :: (X79 :: (X70 :: (X65 :: []))))))))))))))))))))))))))))))),
    O) :: (((X73 :: (X70 :: (X69 :: (X66 :: (X5f :: (X64 :: (X6c :: (X69 :: (X6e :: (X6b :: (X65 :: (X64 :: (X5f :: (X6c :: (X69 :: (X73 :: (X74 :: (X5f :: (X69 :: (X74 :: (X65 :: (X72 :: (X61 :: (X74 :: (X6f :: (X72 :: (X5f :: (X68 :: (X61 :: (X73 :: (X5f :: (X6e :: (X65 :: (X78 :: (X74 :: []))))))))))))))))))))))))))))))))))),
    O) :: (((X73 :: (X70 :: (X69 :: (X66 :: (X5f :: (X64 :: (X6c :: (X69 :: (X6e :: (X6b :: (X65 :: (X64 :: (X5f :: (X6c :: (X69 :: (X73 :: (X74 :: (X5f :: (X69 :: (X74 :: (X65 :: (X72 :: (X61 :: (X74 :: (X6f :: (X72 :: (X5f :: (X6e :: (X65 :: (X78 :: (X74 :: []))))))))))))))))))))))))))))))),
    O) :: (((X73 :: (X74 :: (X72 :: (X63 :: (X61 :: (X73 :: (X65 :: (X63 :: (X68 :: (X72 :: [])))))))))),
    O) :: (((X73 :: (X74 :: (X72 :: (X63 :: (X61 :: (X73 :: (X65 :: (X70 :: (X62 :: (X72 :: (X6b :: []))))))))))),
    (S
    O)) :: (((X73 :: (X74 :: (X72 :: (X63 :: (X61 :: (X73 :: (X65 :: (X70 :: (X62 :: (X72 :: (X6b :: []))))))))))),
    O) :: (((X73 :: (X74 :: (X72 :: (X72 :: (X65 :: (X76 :: [])))))),
    O) :: (((X73 :: (X70 :: (X69 :: (X66 :: (X74 :: (X6f :: (X6f :: (X6c :: (X5f :: (X73 :: (X61 :: (X66 :: (X65 :: (X5f :: (X73 :: (X74 :: (X72 :: (X6e :: (X63 :: (X70 :: (X79 :: []))))))))))))))))))))),
    O) :: (((X73 :: (X70 :: (X69 :: (X66 :: (X74 :: (X6f :: (X6f :: (X6c :: (X5f :: (X73 :: (X61 :: (X66 :: (X65 :: (X5f :: (X73 :: (X74 :: (X72 :: (X6e :: (X63 :: (X70 :: (X79 :: []))))))))))))))))))))),
    (S
    O)) :: (((X73 :: (X70 :: (X69 :: (X66 :: (X74 :: (X6f :: (X6f :: (X6c :: (X5f :: (X73 :: (X61 :: (X66 :: (X65 :: (X5f :: (X73 :: (X74 :: (X72 :: (X6e :: (X63 :: (X61 :: (X74 :: []))))))))))))))))))))),
    O) :: (((X73 :: (X70 :: (X69 :: (X66 :: (X74 :: (X6f :: (X6f :: (X6c :: (X5f :: (X73 :: (X61 :: (X66 :: (X65 :: (X5f :: (X73 :: (X74 :: (X72 :: (X6e :: (X63 :: (X61 :: (X74 :: []))))))))))))))))))))),
    (S
    O)) :: (((X73 :: (X70 :: (X69 :: (X66 :: (X74 :: (X6f :: (X6f :: (X6c :: (X5f :: (X73 :: (X75 :: (X62 :: (X73 :: (X74 :: (X72 :: []))))))))))))))),
    O) :: (((X73 :: (X70 :: (X69 :: (X66 :: (X74 :: (X6f :: (X6f :: (X6c :: (X5f :: (X73 :: (X70 :: (X6c :: (X69 :: (X74 :: [])))))))))))))),
    (S
    O)) :: (((X73 :: (X70 :: (X69 :: (X66 :: (X74 :: (X6f :: (X6f :: (X6c :: (X5f :: (X6a :: (X6f :: (X69 :: (X6e :: []))))))))))))),
    (S
    O)) :: (((X73 :: (X70 :: (X69 :: (X66 :: (X74 :: (X6f :: (X6f :: (X6c :: (X5f :: (X67 :: (X65 :: (X74 :: (X5f :: (X77 :: (X6f :: (X72 :: (X64 :: []))))))))))))))))),
    (S
    O)) :: (((X73 :: (X70 :: (X69 :: (X66 :: (X74 :: (X6f :: (X6f :: (X6c :: (X5f :: (X67 :: (X65 :: (X74 :: (X5f :: (X70 :: (X77 :: (X6f :: (X72 :: (X64 :: [])))))))))))))))))),
    (S
    O)) :: (((X73 :: (X70 :: (X69 :: (X66 :: (X74 :: (X6f :: (X6f :: (X6c :: (X5f :: (X6e :: (X75 :: (X6d :: (X5f :: (X77 :: (X6f :: (X72 :: (X64 :: (X73 :: [])))))))))))))))))),
    O) :: (((X73 :: (X70 :: (X69 :: (X66 :: (X74 :: (X6f :: (X6f :: (X6c :: (X5f :: (X63 :: (X68 :: (X6f :: (X6d :: (X70 :: [])))))))))))))),
    O) :: (((X73 :: (X70 :: (X69 :: (X66 :: (X74 :: (X6f :: (X6f :: (X6c :: (X5f :: (X64 :: (X6f :: (X77 :: (X6e :: (X63 :: (X61 :: (X73 :: (X65 :: (X5f :: (X73 :: (X74 :: (X72 :: []))))))))))))))))))))),
    O) :: (((X73 :: (X70 :: (X69 :: (X66 :: (X74 :: (X6f :: (X6f :: (X6c :: (X5f :: (X75 :: (X70 :: (X63 :: (X61 :: (X73 :: (X65 :: (X5f :: (X73 :: (X74 :: (X72 :: []))))))))))))))))))),
    O) :: (((X73 :: (X70 :: (X69 :: (X66 :: (X74 :: (X6f :: (X6f :: (X6c :: (X5f :: (X63 :: (X6f :: (X6e :: (X64 :: (X65 :: (X6e :: (X73 :: (X65 :: (X5f :: (X77 :: (X68 :: (X69 :: (X74 :: (X65 :: (X73 :: (X70 :: (X61 :: (X63 :: (X65 :: [])))))))))))))))))))))))))))),
    O) :: (((X73 :: (X70 :: (X69 :: (X66 :: (X74 :: (X6f :: (X6f :: (X6c :: (X5f :: (X73 :: (X61 :: (X66 :: (X65 :: (X5f :: (X73 :: (X74 :: (X72 :: []))))))))))))))))),
    O) :: (((X73 :: (X70 :: (X69 :: (X66 :: (X74 :: (X6f :: (X6f :: (X6c :: (X5f :: (X68 :: (X65 :: (X78 :: (X5f :: (X64 :: (X75 :: (X6d :: (X70 :: []))))))))))))))))),
    O) :: (((X73 :: (X70 :: (X69 :: (X66 :: (X63 :: (X6f :: (X6e :: (X66 :: (X5f :: (X72 :: (X65 :: (X67 :: (X69 :: (X73 :: (X74 :: (X65 :: (X72 :: (X5f :: (X63 :: (X6f :: (X6e :: (X74 :: (X65 :: (X78 :: (X74 :: []))))))))))))))))))))))))),
    O) :: (((X73 :: (X70 :: (X69 :: (X66 :: (X63 :: (X6f :: (X6e :: (X66 :: (X5f :: (X72 :: (X65 :: (X67 :: (X69 :: (X73 :: (X74 :: (X65 :: (X72 :: (X5f :: (X63 :: (X6f :: (X6e :: (X74 :: (X65 :: (X78 :: (X74 :: []))))))))))))))))))))))))),
    (S
    O)) :: (((X73 :: (X70 :: (X69 :: (X66 :: (X63 :: (X6f :: (X6e :: (X66 :: (X5f :: (X72 :: (X65 :: (X67 :: (X69 :: (X73 :: (X74 :: (X65 :: (X72 :: (X5f :: (X66 :: (X73 :: (X74 :: (X61 :: (X74 :: (X65 :: [])))))))))))))))))))))))),
    O) :: (((X73 :: (X70 :: (X69 :: (X66 :: (X63 :: (X6f :: (X6e :: (X66 :: (X5f :: (X72 :: (X65 :: (X67 :: (X69 :: (X73 :: (X74 :: (X65 :: (X72 :: (X5f :: (X66 :: (X73 :: (X74 :: (X61 :: (X74 :: (X65 :: [])))))))))))))))))))))))),
    (S
    O)) :: (((X73 :: (X70 :: (X69 :: (X66 :: (X63 :: (X6f :: (X6e :: (X66 :: (X5f :: (X72 :: (X65 :: (X67 :: (X69 :: (X73 :: (X74 :: (X65 :: (X72 :: (X5f :: (X62 :: (X75 :: (X69 :: (X6c :: (X74 :: (X69 :: (X6e :: []))))))))))))))))))))))))),
    O) :: (((X73 :: (X70 :: (X69 :: (X66 :: (X63 :: (X6f :: (X6e :: (X66 :: (X5f :: (X73 :: (X68 :: (X65 :: (X6c :: (X6c :: (X5f :: (X65 :: (X78 :: (X70 :: (X61 :: (X6e :: (X64 :: []))))))))))))))))))))),
    O) :: (((X73 :: (X70 :: (X69 :: (X66 :: (X63 :: (X6f :: (X6e :: (X66 :: (X5f :: (X66 :: (X69 :: (X6e :: (X64 :: (X5f :: (X66 :: (X69 :: (X6c :: (X65 :: [])))))))))))))))))),
    O) :: (((X73 :: (X70 :: (X69 :: (X66 :: (X63 :: (X6f :: (X6e :: (X66 :: (X5f :: (X6f :: (X70 :: (X65 :: (X6e :: (X5f :: (X66 :: (X69 :: (X6c :: (X65 :: [])))))))))))))))))),
    O) :: (((X73 :: (X70 :: (X69 :: (X66 :: (X63 :: (X6f :: (X6e :: (X66 :: (X5f :: (X70 :: (X61 :: (X72 :: (X73 :: (X65 :: (X5f :: (X6c :: (X69 :: (X6e :: (X65 :: []))))))))))))))))))),
    (S
    O)) :: (((X73 :: (X70 :: (X69 :: (X66 :: (X63 :: (X6f :: (X6e :: (X66 :: (X5f :: (X70 :: (X61 :: (X72 :: (X73 :: (X65 :: [])))))))))))))),
    O) :: (((X6c :: (X69 :: (X62 :: (X61 :: (X73 :: (X74 :: (X5f :: (X64 :: (X70 :: (X72 :: (X69 :: (X6e :: (X74 :: (X66 :: [])))))))))))))),
    O) :: (((X6c :: (X69 :: (X62 :: (X61 :: (X73 :: (X74 :: (X5f :: (X70 :: (X72 :: (X69 :: (X6e :: (X74 :: (X5f :: (X65 :: (X72 :: (X72 :: (X6f :: (X72 :: [])))))))))))))))))),
    O) :: (((X6c :: (X69 :: (X62 :: (X61 :: (X73 :: (X74 :: (X5f :: (X70 :: (X72 :: (X69 :: (X6e :: (X74 :: (X5f :: (X77 :: (X61 :: (X72 :: (X6e :: (X69 :: (X6e :: (X67 :: [])))))))))))))))))))),
    O) :: (((X6c :: (X69 :: (X62 :: (X61 :: (X73 :: (X74 :: (X5f :: (X66 :: (X61 :: (X74 :: (X61 :: (X6c :: (X5f :: (X65 :: (X72 :: (X72 :: (X6f :: (X72 :: [])))))))))))))))))),
    O) :: []))))))))))))))))))))))))))))))))))))))))))))))))))))))))))))))))))))))))))))))))))))))))))))))))))))))))))))))))))))))))))))))))))))))))))))))))))))))))))))))))))))))))))))))))))))))))))))))))))))))))))))))))))))))))))))))))))))))))))))))))))))))))))))))))))))))))))))))))))))))))))))))))))))))))))))))))))))))))))))))))))))))))))))))))))))))))))))))))))))))))))))))))))))))))))))))))))))))))))))))))))))))))))))))))))))))))))

(** val exempt : cell list **)

let exempt =
  ((X73 :: (X70 :: (X69 :: (X66 :: (X5f :: (X72 :: (X65 :: (X67 :: (X65 :: (X78 :: (X70 :: (X5f :: (X73 :: (X65 :: (X74 :: (X5f :: (X66 :: (X6c :: (X61 :: (X67 :: (X73 :: []))))))))))))))))))))),
    (S O)) :: []

(** val table_digest : fname **)

let table_digest =
  X33 :: (X33 :: (X62 :: (X62 :: (X61 :: (X66 :: (X66 :: (X38 :: (X61 :: (X32 :: (X63 :: (X64 :: (X37 :: (X63 :: (X33 :: (X61 :: [])))))))))))))))
