
val negb : bool -> bool

type nat =
| O
| S of nat

val length : 'a1 list -> nat

val app : 'a1 list -> 'a1 list -> 'a1 list

type comparison =
| Eq
| Lt
| Gt

val compOpp : comparison -> comparison

val add : nat -> nat -> nat

val mul : nat -> nat -> nat

val sub : nat -> nat -> nat

module Nat :
 sig
  val eqb : nat -> nat -> bool

  val leb : nat -> nat -> bool

  val ltb : nat -> nat -> bool
 end

val tl : 'a1 list -> 'a1 list

val nth : nat -> 'a1 list -> 'a1 -> 'a1

val nth_error : 'a1 list -> nat -> 'a1 option

val rev : 'a1 list -> 'a1 list

val fold_right : ('a2 -> 'a1 -> 'a1) -> 'a1 -> 'a2 list -> 'a1

val existsb : ('a1 -> bool) -> 'a1 list -> bool

val firstn : nat -> 'a1 list -> 'a1 list

val repeat : 'a1 -> nat -> 'a1 list

type positive =
| XI of positive
| XO of positive
| XH

type n =
| N0
| Npos of positive

type z =
| Z0
| Zpos of positive
| Zneg of positive

module Pos :
 sig
  val succ : positive -> positive

  val add : positive -> positive -> positive

  val add_carry : positive -> positive -> positive

  val pred_double : positive -> positive

  val compare_cont : comparison -> positive -> positive -> comparison

  val compare : positive -> positive -> comparison

  val eqb : positive -> positive -> bool

  val iter_op : ('a1 -> 'a1 -> 'a1) -> positive -> 'a1 -> 'a1

  val to_nat : positive -> nat

  val of_succ_nat : nat -> positive
 end

module Z :
 sig
  val double : z -> z

  val succ_double : z -> z

  val pred_double : z -> z

  val pos_sub : positive -> positive -> z

  val add : z -> z -> z

  val opp : z -> z

  val sub : z -> z -> z

  val compare : z -> z -> comparison

  val leb : z -> z -> bool

  val ltb : z -> z -> bool

  val eqb : z -> z -> bool

  val max : z -> z -> z

  val to_nat : z -> nat

  val of_nat : nat -> z
 end

type fault =
| OOB_read
| OOB_write
| Uninit_read
| Null_deref
| Use_after_free
| Bad_free
| Out_of_fuel
| Int_overflow
| Abort

type 'a res =
| Ok of 'a
| Fault of fault

val bind : 'a1 res -> ('a1 -> 'a2 res) -> 'a2 res

val num_anchor : ((nat * positive) * n) * z

type cell = z option

type buf = cell list

val rdn : buf -> nat -> z res

val upd : 'a1 list -> nat -> 'a1 -> 'a1 list

val wrn : buf -> nat -> z -> buf res

val strlen : buf -> nat res

val take_str : buf -> z list

val isspace : z -> bool

val is_q : z -> bool

type dset = z list option

val iS_DELIM : dset -> z -> bool

val iS_QUOTE : z -> z -> bool

val skip_delims : dset -> buf -> buf res

val esc_test : dset -> z -> buf -> z -> bool res

val split_chars :
  nat -> dset -> buf -> z -> buf -> nat -> (((buf * z) * buf) * nat) res

val split_tokens : nat -> dset -> buf -> z -> z list list res

val split : dset -> buf -> z list list option res

val tok_chars : nat -> dset -> buf -> z -> ((buf * z) * z list) res

val drop_ws : z list -> z list

val trim : z list -> z list

val tok_tokens : nat -> dset -> buf -> z -> z list list res

val tok_eval : dset -> buf -> z list list res

val copy_at : buf -> nat -> z list -> buf res

val strcat_m : buf -> z list -> buf res

val join_rest : z list -> z list list -> buf -> buf res

val join : z list option -> z list list -> buf option res

val wDELIM : z -> z -> bool

val skip_space : buf -> buf res

val wesc_test : buf -> z -> bool res

val gw_chars : nat -> buf -> z -> buf -> nat -> ((buf * buf) * nat) res

val open_quote : buf -> (z * buf) res

val close_quote : buf -> buf res

val gw_words : nat -> z -> z -> buf -> buf -> (z * buf) res

val get_word : z -> buf -> z list option res

val pw_space : buf -> z -> (buf * z) res

val pw_nonspace : buf -> z -> (buf * z) res

val pw_words : nat -> z -> z -> buf -> z -> (buf * z) res

val get_pword : z -> buf -> z option res

val nw_chars : nat -> buf -> z -> buf res

val nw_space : buf -> buf res

val nw_words : nat -> buf -> z -> z res

val num_words : buf -> z res

val delim : dset -> z -> bool

val push : z -> z list list -> z list list

val sm : dset -> bool -> z -> z list -> z list list

val tokens : dset -> z list -> z list list

val wsm : bool -> z -> z list -> z list list

val words : z list -> z list list

val ws_starts : bool -> z -> z list -> z list

val pword_spec : z -> z list -> z option

val join_spec : z list -> z list list -> z list
