
(** val negb : bool -> bool **)

let negb = function
| true -> false
| false -> true

type nat =
| O
| S of nat

type ('a, 'b) sum =
| Inl of 'a
| Inr of 'b

(** val fst : ('a1 * 'a2) -> 'a1 **)

let fst = function
| (x, _) -> x

(** val snd : ('a1 * 'a2) -> 'a2 **)

let snd = function
| (_, y) -> y

(** val length : 'a1 list -> nat **)

let rec length = function
| [] -> O
| _ :: l' -> S (length l')

(** val app : 'a1 list -> 'a1 list -> 'a1 list **)

let rec app l m =
  match l with
  | [] -> m
  | a :: l1 -> a :: (app l1 m)

type comparison =
| Eq
| Lt
| Gt

(** val compOpp : comparison -> comparison **)

let compOpp = function
| Eq -> Eq
| Lt -> Gt
| Gt -> Lt

module Coq__1 = struct
 (** val add : nat -> nat -> nat **)
 let rec add n0 m =
   match n0 with
   | O -> m
   | S p -> S (add p m)
end
include Coq__1

(** val sub : nat -> nat -> nat **)

let rec sub n0 m =
  match n0 with
  | O -> n0
  | S k -> (match m with
            | O -> n0
            | S l -> sub k l)

module Nat =
 struct
  (** val leb : nat -> nat -> bool **)

  let rec leb n0 m =
    match n0 with
    | O -> true
    | S n' -> (match m with
               | O -> false
               | S m' -> leb n' m')

  (** val ltb : nat -> nat -> bool **)

  let ltb n0 m =
    leb (S n0) m
 end

(** val nth_error : 'a1 list -> nat -> 'a1 option **)

let rec nth_error l = function
| O -> (match l with
        | [] -> None
        | x :: _ -> Some x)
| S n1 -> (match l with
           | [] -> None
           | _ :: l0 -> nth_error l0 n1)

(** val map : ('a1 -> 'a2) -> 'a1 list -> 'a2 list **)

let rec map f = function
| [] -> []
| a :: t -> (f a) :: (map f t)

(** val fold_right : ('a2 -> 'a1 -> 'a1) -> 'a1 -> 'a2 list -> 'a1 **)

let rec fold_right f a0 = function
| [] -> a0
| b :: t -> f b (fold_right f a0 t)

(** val existsb : ('a1 -> bool) -> 'a1 list -> bool **)

let rec existsb f = function
| [] -> false
| a :: l0 -> (||) (f a) (existsb f l0)

(** val filter : ('a1 -> bool) -> 'a1 list -> 'a1 list **)

let rec filter f = function
| [] -> []
| x :: l0 -> if f x then x :: (filter f l0) else filter f l0

(** val firstn : nat -> 'a1 list -> 'a1 list **)

let rec firstn n0 l =
  match n0 with
  | O -> []
  | S n1 -> (match l with
             | [] -> []
             | a :: l0 -> a :: (firstn n1 l0))

(** val skipn : nat -> 'a1 list -> 'a1 list **)

let rec skipn n0 l =
  match n0 with
  | O -> l
  | S n1 -> (match l with
             | [] -> []
             | _ :: l0 -> skipn n1 l0)

(** val repeat : 'a1 -> nat -> 'a1 list **)

let rec repeat x = function
| O -> []
| S k -> x :: (repeat x k)

type positive =
| XI of positive
| XO of positive
| XH

type n =
| N0
| Npos of positive

type z =
| Z0
| Zpos of positive
| Zneg of positive

module Pos =
 struct
  (** val succ : positive -> positive **)

  let rec succ = function
  | XI p -> XO (succ p)
  | XO p -> XI p
  | XH -> XO XH

  (** val add : positive -> positive -> positive **)

  let rec add x y =
    match x with
    | XI p ->
      (match y with
       | XI q -> XO (add_carry p q)
       | XO q -> XI (add p q)
       | XH -> XO (succ p))
    | XO p ->
      (match y with
       | XI q -> XI (add p q)
       | XO q -> XO (add p q)
       | XH -> XI p)
    | XH -> (match y with
             | XI q -> XO (succ q)
             | XO q -> XI q
             | XH -> XO XH)

  (** val add_carry : positive -> positive -> positive **)

  and add_carry x y =
    match x with
    | XI p ->
      (match y with
       | XI q -> XI (add_carry p q)
       | XO q -> XO (add_carry p q)
       | XH -> XI (succ p))
    | XO p ->
      (match y with
       | XI q -> XO (add_carry p q)
       | XO q -> XI (add p q)
       | XH -> XO (succ p))
    | XH ->
      (match y with
       | XI q -> XI (succ q)
       | XO q -> XO (succ q)
       | XH -> XI XH)

  (** val pred_double : positive -> positive **)

  let rec pred_double = function
  | XI p -> XI (XO p)
  | XO p -> XI (pred_double p)
  | XH -> XH

  (** val pred_N : positive -> n **)

  let pred_N = function
  | XI p -> Npos (XO p)
  | XO p -> Npos (pred_double p)
  | XH -> N0

  (** val mul : positive -> positive -> positive **)

  let rec mul x y =
    match x with
    | XI p -> add y (XO (mul p y))
    | XO p -> XO (mul p y)
    | XH -> y

  (** val compare_cont : comparison -> positive -> positive -> comparison **)

  let rec compare_cont r x y =
    match x with
    | XI p ->
      (match y with
       | XI q -> compare_cont r p q
       | XO q -> compare_cont Gt p q
       | XH -> Gt)
    | XO p ->
      (match y with
       | XI q -> compare_cont Lt p q
       | XO q -> compare_cont r p q
       | XH -> Gt)
    | XH -> (match y with
             | XH -> r
             | _ -> Lt)

  (** val compare : positive -> positive -> comparison **)

  let compare =
    compare_cont Eq

  (** val eqb : positive -> positive -> bool **)

  let rec eqb p q =
    match p with
    | XI p0 -> (match q with
                | XI q0 -> eqb p0 q0
                | _ -> false)
    | XO p0 -> (match q with
                | XO q0 -> eqb p0 q0
                | _ -> false)
    | XH -> (match q with
             | XH -> true
             | _ -> false)

  (** val coq_Nsucc_double : n -> n **)

  let coq_Nsucc_double = function
  | N0 -> Npos XH
  | Npos p -> Npos (XI p)

  (** val coq_Ndouble : n -> n **)

  let coq_Ndouble = function
  | N0 -> N0
  | Npos p -> Npos (XO p)

  (** val coq_lor : positive -> positive -> positive **)

  let rec coq_lor p q =
    match p with
    | XI p0 ->
      (match q with
       | XI q0 -> XI (coq_lor p0 q0)
       | XO q0 -> XI (coq_lor p0 q0)
       | XH -> p)
    | XO p0 ->
      (match q with
       | XI q0 -> XI (coq_lor p0 q0)
       | XO q0 -> XO (coq_lor p0 q0)
       | XH -> XI p0)
    | XH -> (match q with
             | XO q0 -> XI q0
             | _ -> q)

  (** val coq_land : positive -> positive -> n **)

  let rec coq_land p q =
    match p with
    | XI p0 ->
      (match q with
       | XI q0 -> coq_Nsucc_double (coq_land p0 q0)
       | XO q0 -> coq_Ndouble (coq_land p0 q0)
       | XH -> Npos XH)
    | XO p0 ->
      (match q with
       | XI q0 -> coq_Ndouble (coq_land p0 q0)
       | XO q0 -> coq_Ndouble (coq_land p0 q0)
       | XH -> N0)
    | XH -> (match q with
             | XO _ -> N0
             | _ -> Npos XH)

  (** val ldiff : positive -> positive -> n **)

  let rec ldiff p q =
    match p with
    | XI p0 ->
      (match q with
       | XI q0 -> coq_Ndouble (ldiff p0 q0)
       | XO q0 -> coq_Nsucc_double (ldiff p0 q0)
       | XH -> Npos (XO p0))
    | XO p0 ->
      (match q with
       | XI q0 -> coq_Ndouble (ldiff p0 q0)
       | XO q0 -> coq_Ndouble (ldiff p0 q0)
       | XH -> Npos p)
    | XH -> (match q with
             | XO _ -> Npos XH
             | _ -> N0)

  (** val iter_op : ('a1 -> 'a1 -> 'a1) -> positive -> 'a1 -> 'a1 **)

  let rec iter_op op0 p a =
    match p with
    | XI p0 -> op0 a (iter_op op0 p0 (op0 a a))
    | XO p0 -> iter_op op0 p0 (op0 a a)
    | XH -> a

  (** val to_nat : positive -> nat **)

  let to_nat x =
    iter_op Coq__1.add x (S O)

  (** val of_succ_nat : nat -> positive **)

  let rec of_succ_nat = function
  | O -> XH
  | S x -> succ (of_succ_nat x)
 end

module N =
 struct
  (** val succ_pos : n -> positive **)

  let succ_pos = function
  | N0 -> XH
  | Npos p -> Pos.succ p

  (** val coq_lor : n -> n -> n **)

  let coq_lor n0 m =
    match n0 with
    | N0 -> m
    | Npos p -> (match m with
                 | N0 -> n0
                 | Npos q -> Npos (Pos.coq_lor p q))

  (** val coq_land : n -> n -> n **)

  let coq_land n0 m =
    match n0 with
    | N0 -> N0
    | Npos p -> (match m with
                 | N0 -> N0
                 | Npos q -> Pos.coq_land p q)

  (** val ldiff : n -> n -> n **)

  let ldiff n0 m =
    match n0 with
    | N0 -> N0
    | Npos p -> (match m with
                 | N0 -> n0
                 | Npos q -> Pos.ldiff p q)
 end

module Z =
 struct
  (** val double : z -> z **)

  let double = function
  | Z0 -> Z0
  | Zpos p -> Zpos (XO p)
  | Zneg p -> Zneg (XO p)

  (** val succ_double : z -> z **)

  let succ_double = function
  | Z0 -> Zpos XH
  | Zpos p -> Zpos (XI p)
  | Zneg p -> Zneg (Pos.pred_double p)

  (** val pred_double : z -> z **)

  let pred_double = function
  | Z0 -> Zneg XH
  | Zpos p -> Zpos (Pos.pred_double p)
  | Zneg p -> Zneg (XI p)

  (** val pos_sub : positive -> positive -> z **)

  let rec pos_sub x y =
    match x with
    | XI p ->
      (match y with
       | XI q -> double (pos_sub p q)
       | XO q -> succ_double (pos_sub p q)
       | XH -> Zpos (XO p))
    | XO p ->
      (match y with
       | XI q -> pred_double (pos_sub p q)
       | XO q -> double (pos_sub p q)
       | XH -> Zpos (Pos.pred_double p))
    | XH ->
      (match y with
       | XI q -> Zneg (XO q)
       | XO q -> Zneg (Pos.pred_double q)
       | XH -> Z0)

  (** val add : z -> z -> z **)

  let add x y =
    match x with
    | Z0 -> y
    | Zpos x' ->
      (match y with
       | Z0 -> x
       | Zpos y' -> Zpos (Pos.add x' y')
       | Zneg y' -> pos_sub x' y')
    | Zneg x' ->
      (match y with
       | Z0 -> x
       | Zpos y' -> pos_sub y' x'
       | Zneg y' -> Zneg (Pos.add x' y'))

  (** val opp : z -> z **)

  let opp = function
  | Z0 -> Z0
  | Zpos x0 -> Zneg x0
  | Zneg x0 -> Zpos x0

  (** val sub : z -> z -> z **)

  let sub m n0 =
    add m (opp n0)

  (** val mul : z -> z -> z **)

  let mul x y =
    match x with
    | Z0 -> Z0
    | Zpos x' ->
      (match y with
       | Z0 -> Z0
       | Zpos y' -> Zpos (Pos.mul x' y')
       | Zneg y' -> Zneg (Pos.mul x' y'))
    | Zneg x' ->
      (match y with
       | Z0 -> Z0
       | Zpos y' -> Zneg (Pos.mul x' y')
       | Zneg y' -> Zpos (Pos.mul x' y'))

  (** val compare : z -> z -> comparison **)

  let compare x y =
    match x with
    | Z0 -> (match y with
             | Z0 -> Eq
             | Zpos _ -> Lt
             | Zneg _ -> Gt)
    | Zpos x' -> (match y with
                  | Zpos y' -> Pos.compare x' y'
                  | _ -> Gt)
    | Zneg x' ->
      (match y with
       | Zneg y' -> compOpp (Pos.compare x' y')
       | _ -> Lt)

  (** val leb : z -> z -> bool **)

  let leb x y =
    match compare x y with
    | Gt -> false
    | _ -> true

  (** val ltb : z -> z -> bool **)

  let ltb x y =
    match compare x y with
    | Lt -> true
    | _ -> false

  (** val eqb : z -> z -> bool **)

  let eqb x y =
    match x with
    | Z0 -> (match y with
             | Z0 -> true
             | _ -> false)
    | Zpos p -> (match y with
                 | Zpos q -> Pos.eqb p q
                 | _ -> false)
    | Zneg p -> (match y with
                 | Zneg q -> Pos.eqb p q
                 | _ -> false)

  (** val max : z -> z -> z **)

  let max n0 m =
    match compare n0 m with
    | Lt -> m
    | _ -> n0

  (** val min : z -> z -> z **)

  let min n0 m =
    match compare n0 m with
    | Gt -> m
    | _ -> n0

  (** val to_nat : z -> nat **)

  let to_nat = function
  | Zpos p -> Pos.to_nat p
  | _ -> O

  (** val of_nat : nat -> z **)

  let of_nat = function
  | O -> Z0
  | S n1 -> Zpos (Pos.of_succ_nat n1)

  (** val of_N : n -> z **)

  let of_N = function
  | N0 -> Z0
  | Npos p -> Zpos p

  (** val pos_div_eucl : positive -> z -> z * z **)

  let rec pos_div_eucl a b =
    match a with
    | XI a' ->
      let (q, r) = pos_div_eucl a' b in
      let r' = add (mul (Zpos (XO XH)) r) (Zpos XH) in
      if ltb r' b
      then ((mul (Zpos (XO XH)) q), r')
      else ((add (mul (Zpos (XO XH)) q) (Zpos XH)), (sub r' b))
    | XO a' ->
      let (q, r) = pos_div_eucl a' b in
      let r' = mul (Zpos (XO XH)) r in
      if ltb r' b
      then ((mul (Zpos (XO XH)) q), r')
      else ((add (mul (Zpos (XO XH)) q) (Zpos XH)), (sub r' b))
    | XH -> if leb (Zpos (XO XH)) b then (Z0, (Zpos XH)) else ((Zpos XH), Z0)

  (** val div_eucl : z -> z -> z * z **)

  let div_eucl a b =
    match a with
    | Z0 -> (Z0, Z0)
    | Zpos a' ->
      (match b with
       | Z0 -> (Z0, a)
       | Zpos _ -> pos_div_eucl a' b
       | Zneg b' ->
         let (q, r) = pos_div_eucl a' (Zpos b') in
         (match r with
          | Z0 -> ((opp q), Z0)
          | _ -> ((opp (add q (Zpos XH))), (add b r))))
    | Zneg a' ->
      (match b with
       | Z0 -> (Z0, a)
       | Zpos _ ->
         let (q, r) = pos_div_eucl a' b in
         (match r with
          | Z0 -> ((opp q), Z0)
          | _ -> ((opp (add q (Zpos XH))), (sub b r)))
       | Zneg b' -> let (q, r) = pos_div_eucl a' (Zpos b') in (q, (opp r)))

  (** val div : z -> z -> z **)

  let div a b =
    let (q, _) = div_eucl a b in q

  (** val coq_lor : z -> z -> z **)

  let coq_lor a b =
    match a with
    | Z0 -> b
    | Zpos a0 ->
      (match b with
       | Z0 -> a
       | Zpos b0 -> Zpos (Pos.coq_lor a0 b0)
       | Zneg b0 -> Zneg (N.succ_pos (N.ldiff (Pos.pred_N b0) (Npos a0))))
    | Zneg a0 ->
      (match b with
       | Z0 -> a
       | Zpos b0 -> Zneg (N.succ_pos (N.ldiff (Pos.pred_N a0) (Npos b0)))
       | Zneg b0 ->
         Zneg (N.succ_pos (N.coq_land (Pos.pred_N a0) (Pos.pred_N b0))))

  (** val coq_land : z -> z -> z **)

  let coq_land a b =
    match a with
    | Z0 -> Z0
    | Zpos a0 ->
      (match b with
       | Z0 -> Z0
       | Zpos b0 -> of_N (Pos.coq_land a0 b0)
       | Zneg b0 -> of_N (N.ldiff (Npos a0) (Pos.pred_N b0)))
    | Zneg a0 ->
      (match b with
       | Z0 -> Z0
       | Zpos b0 -> of_N (N.ldiff (Npos b0) (Pos.pred_N a0))
       | Zneg b0 ->
         Zneg (N.succ_pos (N.coq_lor (Pos.pred_N a0) (Pos.pred_N b0))))

  (** val ldiff : z -> z -> z **)

  let ldiff a b =
    match a with
    | Z0 -> Z0
    | Zpos a0 ->
      (match b with
       | Z0 -> a
       | Zpos b0 -> of_N (Pos.ldiff a0 b0)
       | Zneg b0 -> of_N (N.coq_land (Npos a0) (Pos.pred_N b0)))
    | Zneg a0 ->
      (match b with
       | Z0 -> a
       | Zpos b0 -> Zneg (N.succ_pos (N.coq_lor (Pos.pred_N a0) (Npos b0)))
       | Zneg b0 -> of_N (N.ldiff (Pos.pred_N b0) (Pos.pred_N a0)))
 end

type fault =
| OOB_read
| OOB_write
| Uninit_read
| Null_deref
| Use_after_free
| Bad_free
| Out_of_fuel
| Int_overflow
| Abort

type 'a res =
| Ok of 'a
| Fault of fault

(** val bind : 'a1 res -> ('a1 -> 'a2 res) -> 'a2 res **)

let bind r k =
  match r with
  | Ok a -> k a
  | Fault f -> Fault f

(** val num_anchor : ((nat * positive) * n) * z **)

let num_anchor =
  (((O, XH), N0), Z0)

type cell = z option

type buf = cell list

(** val blen : buf -> z **)

let blen b =
  Z.of_nat (length b)

(** val upd : 'a1 list -> nat -> 'a1 -> 'a1 list **)

let rec upd l n0 v =
  match l with
  | [] -> []
  | x :: t -> (match n0 with
               | O -> v :: t
               | S n' -> x :: (upd t n' v))

(** val wrn : buf -> nat -> z -> buf res **)

let wrn b i v =
  if Nat.ltb i (length b) then Ok (upd b i (Some v)) else Fault OOB_write

(** val wr : buf -> z -> z -> buf res **)

let wr b i v =
  if Z.ltb i Z0 then Fault OOB_write else wrn b (Z.to_nat i) v

(** val bytes : z list -> buf **)

let bytes s =
  map (fun x -> Some x) s

(** val str_buff_inc : z **)

let str_buff_inc =
  Zpos (XO (XO (XO (XO (XO (XO (XO (XO (XO (XO (XO (XO XH))))))))))))

(** val f_FAMILY_INET : z **)

let f_FAMILY_INET =
  Zpos XH

(** val f_FAMILY_UNIX : z **)

let f_FAMILY_UNIX =
  Zpos (XO XH)

(** val f_TYPE_STREAM : z **)

let f_TYPE_STREAM =
  Zpos (XO (XO (XO (XO XH))))

(** val f_TYPE_DGRAM : z **)

let f_TYPE_DGRAM =
  Zpos (XO (XO (XO (XO (XO XH)))))

(** val f_TYPE_RAW : z **)

let f_TYPE_RAW =
  Zpos (XO (XO (XO (XO (XO (XO XH))))))

(** val f_LISTEN : z **)

let f_LISTEN =
  Zpos (XO (XO (XO (XO (XO (XO (XO (XO XH))))))))

(** val f_OPEN : z **)

let f_OPEN =
  Zpos (XO (XO (XO (XO (XO (XO (XO (XO (XO XH)))))))))

(** val f_CONNECTED : z **)

let f_CONNECTED =
  Zpos (XO (XO (XO (XO (XO (XO (XO (XO (XO (XO XH))))))))))

(** val f_HAVE_INPUT : z **)

let f_HAVE_INPUT =
  Zpos (XO (XO (XO (XO (XO (XO (XO (XO (XO (XO (XO XH)))))))))))

(** val f_CAN_OUTPUT : z **)

let f_CAN_OUTPUT =
  Zpos (XO (XO (XO (XO (XO (XO (XO (XO (XO (XO (XO (XO XH))))))))))))

(** val f_NBIO : z **)

let f_NBIO =
  Zpos (XO (XO (XO (XO (XO (XO (XO (XO (XO (XO (XO (XO (XO XH)))))))))))))

(** val f_IOSTATE : z **)

let f_IOSTATE =
  Zpos (XO (XO (XO (XO (XO (XO (XO (XO (XI (XI (XI (XI (XI (XI (XI
    XH)))))))))))))))

(** val send_chunk : z **)

let send_chunk =
  Zpos (XO (XO (XO (XO (XO (XO (XO (XO (XO (XO XH))))))))))

(** val send_backoff_usec : z **)

let send_backoff_usec =
  Zpos (XO (XO (XO (XO (XI (XO (XO (XO (XI (XI (XI (XO (XO XH)))))))))))))

(** val send_backoff_wrap : z **)

let send_backoff_wrap =
  Zpos (XO (XO (XO (XO (XO (XO (XI (XO (XO (XI (XO (XO (XO (XO (XI (XO (XI
    (XI (XI XH)))))))))))))))))))

(** val zlen : 'a1 list -> z **)

let zlen l =
  Z.of_nat (length l)

type rd_event =
| RData of z list
| REintr
| REagain
| REof
| RErr

type rd_result =
| GotData of z list
| GotIntr
| GotStop

(** val read_call : z -> rd_event list -> rd_result * rd_event list **)

let read_call n0 = function
| [] -> (GotStop, [])
| r0 :: r ->
  (match r0 with
   | RData l ->
     (match l with
      | [] -> (GotStop, r)
      | _ :: _ ->
        let a = firstn (Z.to_nat n0) l in
        let rest = skipn (Z.to_nat n0) l in
        ((GotData a), (match rest with
                       | [] -> r
                       | _ :: _ -> (RData rest) :: r)))
   | REintr -> (GotIntr, r)
   | _ -> (GotStop, r))

(** val sched_measure : rd_event list -> nat **)

let rec sched_measure = function
| [] -> O
| r0 :: r ->
  (match r0 with
   | RData l -> S (add (length l) (sched_measure r))
   | _ -> S (sched_measure r))

(** val realloc : buf -> z -> buf **)

let realloc b n0 =
  let k = Z.to_nat n0 in app (firstn k b) (repeat None (sub k (length b)))

(** val putz : buf -> z -> z list -> buf res **)

let putz b p l =
  if (||) (Z.ltb p Z0) (Z.ltb (blen b) (Z.add p (zlen l)))
  then Fault OOB_write
  else Ok
         (app (firstn (Z.to_nat p) b)
           (app (bytes l) (skipn (add (Z.to_nat p) (length l)) b)))

type strv = { sv_s : buf; sv_len : z; sv_size : z }

(** val fd_loop :
    z -> nat -> buf -> z -> z -> rd_event list -> (buf * z) res **)

let rec fd_loop inc fuel b size p sched =
  match fuel with
  | O -> Fault Out_of_fuel
  | S fuel' ->
    let (r0, r) = read_call inc sched in
    (match r0 with
     | GotData a ->
       bind (putz b p a) (fun b1 ->
         let size' = Z.add size (zlen a) in
         let b2 = realloc b1 size' in
         fd_loop inc fuel' b2 size' (Z.sub size' inc) r)
     | GotIntr -> fd_loop inc fuel' b size p r
     | GotStop -> Ok (b, size))

(** val init_from_fd : z -> rd_event list -> strv res **)

let init_from_fd inc sched =
  let b = realloc [] inc in
  bind (fd_loop inc (S (sched_measure sched)) b inc Z0 sched) (fun x ->
    let (b1, size) = x in
    let len = Z.sub size inc in
    let size2 = Z.add len (Zpos XH) in
    let b2 = realloc b1 size2 in
    bind (wr b2 len Z0) (fun b3 -> Ok { sv_s = b3; sv_len = len; sv_size =
      size2 }))

(** val socket_recv : z -> z -> rd_event list -> strv option res **)

let socket_recv inc fd sched =
  if Z.ltb fd Z0
  then Ok None
  else bind (init_from_fd inc sched) (fun r -> Ok (Some r))

(** val cells_bytes : buf -> z list res **)

let rec cells_bytes = function
| [] -> Ok []
| c0 :: t ->
  (match c0 with
   | Some c -> bind (cells_bytes t) (fun r -> Ok (c :: r))
   | None -> Fault Uninit_read)

(** val sv_text : strv -> z list res **)

let sv_text r =
  if Z.ltb (blen r.sv_s) r.sv_len
  then Fault OOB_read
  else cells_bytes (firstn (Z.to_nat r.sv_len) r.sv_s)

(** val delivered : rd_event list -> z list **)

let rec delivered = function
| [] -> []
| r0 :: r ->
  (match r0 with
   | RData l -> (match l with
                 | [] -> []
                 | _ :: _ -> app l (delivered r))
   | REintr -> delivered r
   | _ -> [])

type rd_shape =
| ShTake of z
| ShIntr

(** val fifo_sched : z list -> rd_shape list -> rd_event -> rd_event list **)

let rec fifo_sched q shape term =
  match shape with
  | [] ->
    (match q with
     | [] -> term :: []
     | _ :: _ -> (RData q) :: (term :: []))
  | r :: sh ->
    (match r with
     | ShTake k ->
       (match q with
        | [] -> term :: []
        | _ :: _ ->
          let n0 = Z.to_nat (Z.max (Zpos XH) k) in
          (RData (firstn n0 q)) :: (fifo_sched (skipn n0 q) sh term))
     | ShIntr -> REintr :: (fifo_sched q sh term))

type werr =
| EFBIG
| EIO
| EPIPE
| EINVAL
| EOTHER

type wr_event =
| Wrote of z
| WEintr
| WEagain
| WErr of werr

type wstat =
| WDone
| WFail of werr option

type fd_effect =
| FdKeep
| FdClosed
| FdForgotten

type timeval = z * z

(** val bump : timeval -> timeval **)

let bump tv =
  let us = Z.add (snd tv) send_backoff_usec in
  if Z.eqb us send_backoff_wrap
  then ((Z.add (fst tv) (Zpos XH)), Z0)
  else ((fst tv), us)

type wphase = { wp_stat : wstat; wp_acc : z list; wp_rest : z list;
                wp_tv : timeval; wp_sel : timeval list; wp_ws : wr_event list }

(** val write_phase :
    bool -> z list -> timeval -> timeval list -> z list -> wr_event list ->
    wphase **)

let rec write_phase fdopen s tv sel acc ws =
  if negb fdopen
  then { wp_stat = (WFail None); wp_acc = acc; wp_rest = s; wp_tv = tv;
         wp_sel = sel; wp_ws = ws }
  else (match ws with
        | [] ->
          { wp_stat = WDone; wp_acc = (app acc s); wp_rest = []; wp_tv = tv;
            wp_sel = sel; wp_ws = [] }
        | w :: r ->
          (match w with
           | Wrote k ->
             let n0 = Z.min (Z.max k Z0) (zlen s) in
             if Z.leb (zlen s) n0
             then { wp_stat = WDone; wp_acc = (app acc s); wp_rest = [];
                    wp_tv = tv; wp_sel = sel; wp_ws = r }
             else write_phase fdopen (skipn (Z.to_nat n0) s) tv sel
                    (app acc (firstn (Z.to_nat n0) s)) r
           | WErr e ->
             { wp_stat = (WFail (Some e)); wp_acc = acc; wp_rest = s; wp_tv =
               tv; wp_sel = sel; wp_ws = r }
           | _ ->
             let tv' = bump tv in
             write_phase fdopen s tv' (app sel (tv' :: [])) acc r))

(** val take_nonnul : nat -> z list -> z list **)

let rec take_nonnul n0 s =
  match n0 with
  | O -> []
  | S n' ->
    (match s with
     | [] -> []
     | c :: t -> if Z.eqb c Z0 then [] else c :: (take_nonnul n' t))

type send_out = { so_ok : bool; so_acc : z list; so_eff : fd_effect;
                  so_sel : timeval list; so_ws : wr_event list }

(** val chunks_loop :
    (z list -> wr_event list -> send_out res) -> z -> nat -> z list -> z list
    -> timeval list -> wr_event list -> send_out res **)

let rec chunks_loop sendf chunk n0 s acc sel ws =
  match n0 with
  | O ->
    Ok { so_ok = true; so_acc = acc; so_eff = FdKeep; so_sel = sel; so_ws =
      ws }
  | S n' ->
    bind (sendf (take_nonnul (Z.to_nat chunk) s) ws) (fun r ->
      if r.so_ok
      then chunks_loop sendf chunk n' (skipn (Z.to_nat chunk) s)
             (app acc r.so_acc) (app sel r.so_sel) r.so_ws
      else Ok { so_ok = false; so_acc = (app acc r.so_acc); so_eff =
             r.so_eff; so_sel = (app sel r.so_sel); so_ws = r.so_ws })

(** val send : z -> nat -> bool -> z list -> wr_event list -> send_out res **)

let rec send chunk fuel fdopen data ws =
  match fuel with
  | O -> Fault Out_of_fuel
  | S f ->
    (match data with
     | [] ->
       Ok { so_ok = false; so_acc = []; so_eff = FdKeep; so_sel = []; so_ws =
         ws }
     | _ :: _ ->
       let w = write_phase fdopen data (Z0, Z0) [] [] ws in
       (match w.wp_stat with
        | WDone ->
          Ok { so_ok = true; so_acc = w.wp_acc; so_eff = FdKeep; so_sel =
            w.wp_sel; so_ws = w.wp_ws }
        | WFail e ->
          (match e with
           | Some w0 ->
             (match w0 with
              | EFBIG ->
                chunks_loop (send chunk f fdopen) chunk
                  (Z.to_nat
                    (Z.div (Z.sub (Z.add (zlen w.wp_rest) chunk) (Zpos XH))
                      chunk)) w.wp_rest w.wp_acc w.wp_sel w.wp_ws
              | _ ->
                Ok { so_ok = false; so_acc = w.wp_acc; so_eff = FdClosed;
                  so_sel = w.wp_sel; so_ws = w.wp_ws })
           | None ->
             Ok { so_ok = false; so_acc = w.wp_acc; so_eff = FdForgotten;
               so_sel = w.wp_sel; so_ws = w.wp_ws })))

(** val socket_send : bool -> z list -> wr_event list -> send_out res **)

let socket_send fdopen data ws =
  send send_chunk (S (length ws)) fdopen data ws

(** val pair_xfer :
    z -> z list -> wr_event list -> rd_shape list -> rd_event ->
    (send_out * strv) res **)

let pair_xfer inc payload ws shape term =
  bind (socket_send true payload ws) (fun so ->
    bind (init_from_fd inc (fifo_sched so.so_acc shape term)) (fun r -> Ok
      (so, r)))

type sock = { s_fd : z; s_addr : bool; s_flags : z; s_lurl : bool;
              s_rurl : bool }

(** val fset : z -> z -> z **)

let fset =
  Z.coq_lor

(** val fclear : z -> z -> z **)

let fclear =
  Z.ldiff

(** val fisset : z -> z -> bool **)

let fisset f b =
  negb (Z.eqb (Z.coq_land f b) Z0)

type world = { w_open : z list; w_objs : sock option list }

(** val is_open : z list -> z -> bool **)

let is_open w fd =
  (&&) (Z.leb Z0 fd) (existsb (Z.eqb fd) w)

(** val release : z list -> z -> z list **)

let release w fd =
  filter (fun x -> negb (Z.eqb x fd)) w

(** val get : sock option list -> nat -> sock option **)

let get objs i =
  match nth_error objs i with
  | Some o -> o
  | None -> None

(** val sock_new : bool -> bool -> sock **)

let sock_new l r =
  { s_fd = (Zneg XH); s_addr = false; s_flags = Z0; s_lurl = l; s_rurl = r }

(** val get_proto : sock -> sock **)

let get_proto s =
  if (||) s.s_lurl s.s_rurl
  then { s_fd = s.s_fd; s_addr = s.s_addr; s_flags =
         (fset (fset s.s_flags f_FAMILY_UNIX) f_TYPE_STREAM); s_lurl =
         s.s_lurl; s_rurl = s.s_rurl }
  else s

(** val with_fd : sock -> z -> sock **)

let with_fd s fd =
  { s_fd = fd; s_addr = s.s_addr; s_flags = s.s_flags; s_lurl = s.s_lurl;
    s_rurl = s.s_rurl }

(** val with_flags : sock -> z -> sock **)

let with_flags s f =
  { s_fd = s.s_fd; s_addr = s.s_addr; s_flags = f; s_lurl = s.s_lurl;
    s_rurl = s.s_rurl }

(** val close_loop : nat -> bool -> bool **)

let rec close_loop n0 final_ok =
  match n0 with
  | O -> final_ok
  | S n' -> close_loop n' final_ok

(** val sock_close :
    sock -> z list -> nat -> bool -> (bool * sock) * z list **)

let sock_close s opn n_eintr ok =
  if Z.ltb s.s_fd Z0
  then ((false, s), opn)
  else let s1 = with_flags s (fclear s.s_flags f_IOSTATE) in
       let r = close_loop n_eintr ok in
       ((r, (with_fd s1 (Zneg XH))), (release opn s.s_fd))

(** val sock_done : sock -> z list -> nat -> bool -> sock * z list **)

let sock_done s opn n_eintr ok =
  let (p, opn1) =
    if Z.leb Z0 s.s_fd then sock_close s opn n_eintr ok else ((false, s), opn)
  in
  let (_, s1) = p in
  ({ s_fd = s1.s_fd; s_addr = false; s_flags = Z0; s_lurl = false; s_rurl =
  false }, opn1)

(** val sock_open :
    (z list -> z) -> sock -> z list -> bool -> bool -> bool -> bool ->
    (bool * sock) * z list **)

let sock_open pick s opn sock_ok bind_ok conn_ok listen_ok =
  let a =
    if s.s_addr
    then Some s
    else let s1 = get_proto s in
         if fisset s1.s_flags f_FAMILY_INET
         then None
         else if fisset s1.s_flags f_FAMILY_UNIX
              then Some { s_fd = s1.s_fd; s_addr = s1.s_rurl; s_flags =
                     s1.s_flags; s_lurl = s1.s_lurl; s_rurl = s1.s_rurl }
              else None
  in
  (match a with
   | Some s2 ->
     let d =
       if Z.ltb s2.s_fd Z0
       then if fisset s2.s_flags
                 (fset (fset f_TYPE_STREAM f_TYPE_DGRAM) f_TYPE_RAW)
            then if sock_ok
                 then let fd = pick opn in
                      let s3 = with_fd s2 fd in
                      if (&&)
                           ((&&) s3.s_lurl
                             ((||) (fisset s3.s_flags f_FAMILY_INET)
                               (fisset s3.s_flags f_FAMILY_UNIX)))
                           (negb bind_ok)
                      then Inr (s3, (fd :: opn))
                      else Inl ((with_flags s3 (fset s3.s_flags f_OPEN)),
                             (fd :: opn))
                 else Inr ((with_fd s2 (Zneg XH)), opn)
            else Inr (s2, opn)
       else Inl (s2, opn)
     in
     (match d with
      | Inl p ->
        let (s4, opn4) = p in
        if s4.s_rurl
        then let s5 = with_flags s4 (fclear s4.s_flags f_NBIO) in
             if conn_ok
             then ((true, (with_flags s5 (fset s5.s_flags f_CONNECTED))),
                    opn4)
             else ((false, s5), opn4)
        else if s4.s_lurl
             then if listen_ok
                  then ((true, (with_flags s4 (fset s4.s_flags f_LISTEN))),
                         opn4)
                  else ((false, s4), opn4)
             else ((true, s4), opn4)
      | Inr p -> let (s4, opn4) = p in ((false, s4), opn4))
   | None -> ((false, (get_proto s)), opn))

(** val sock_dup :
    (z list -> z) -> sock -> z list -> bool -> sock * z list **)

let sock_dup pick s opn dup_ok =
  if Z.leb Z0 s.s_fd
  then if (&&) dup_ok (is_open opn s.s_fd)
       then let fd = pick opn in ((with_fd s fd), (fd :: opn))
       else ((with_fd s (Zneg XH)), opn)
  else ((with_fd s (Zneg XH)), opn)

(** val sock_accept :
    (z list -> z) -> sock -> z list -> nat -> bool -> bool -> sock option * z
    list **)

let sock_accept pick s opn n_again acc_ok dup_ok =
  if (&&) (close_loop n_again acc_ok) (is_open opn s.s_fd)
  then let newfd = pick opn in
       let opn1 = newfd :: opn in
       let (t, opn2) = sock_dup pick s opn1 dup_ok in
       let opn3 = if Z.leb Z0 t.s_fd then release opn2 t.s_fd else opn2 in
       let t1 = with_fd t newfd in
       let t2 =
         with_flags t1
           (fclear t1.s_flags
             (fset (fset f_LISTEN f_HAVE_INPUT) f_CAN_OUTPUT))
       in
       let t3 =
         if (||) (fisset s.s_flags f_FAMILY_INET)
              (fisset s.s_flags f_FAMILY_UNIX)
         then { s_fd = t2.s_fd; s_addr = t2.s_addr; s_flags = t2.s_flags;
                s_lurl = t2.s_lurl; s_rurl = true }
         else t2
       in
       let t4 =
         if fisset s.s_flags f_NBIO
         then with_flags t3 (fset t3.s_flags f_NBIO)
         else t3
       in
       ((Some t4), opn3)
  else (None, opn)

(** val sock_nbio : sock -> bool * sock **)

let sock_nbio s =
  if Z.ltb s.s_fd Z0
  then (false, s)
  else (true, (with_flags s (fset s.s_flags f_NBIO)))

type op =
| ONew of bool * bool
| OOpen of nat * bool * bool * bool * bool
| OAccept of nat * nat * bool * bool
| OClose of nat * nat * bool
| ODup of nat * bool
| ODone of nat * nat * bool
| ODel of nat * nat * bool
| ONbio of nat
| OSend of nat * z list * wr_event list
| ORecv of nat * rd_event list

type oresult =
| RSkip
| RNew
| RBool of bool
| RObj of bool
| RSend of send_out res
| RRecv of strv option res

(** val set_obj : world -> nat -> sock option -> z list -> world **)

let set_obj w i o opn =
  { w_open = opn; w_objs = (upd w.w_objs i o) }

(** val step : (z list -> z) -> z -> world -> op -> world * oresult **)

let step pick inc w = function
| ONew (l, r) ->
  ({ w_open = w.w_open; w_objs =
    (app w.w_objs ((Some (sock_new l r)) :: [])) }, RNew)
| OOpen (i, a, b, c, d) ->
  (match get w.w_objs i with
   | Some s ->
     let (p, opn) = sock_open pick s w.w_open a b c d in
     let (r, s') = p in ((set_obj w i (Some s') opn), (RBool r))
   | None -> (w, RSkip))
| OAccept (i, n0, a, d) ->
  (match get w.w_objs i with
   | Some s ->
     let (o0, opn) = sock_accept pick s w.w_open n0 a d in
     (match o0 with
      | Some t ->
        ({ w_open = opn; w_objs = (app w.w_objs ((Some t) :: [])) }, (RObj
          true))
      | None -> ({ w_open = opn; w_objs = w.w_objs }, (RObj false)))
   | None -> (w, RSkip))
| OClose (i, n0, k) ->
  (match get w.w_objs i with
   | Some s ->
     let (p, opn) = sock_close s w.w_open n0 k in
     let (r, s') = p in ((set_obj w i (Some s') opn), (RBool r))
   | None -> (w, RSkip))
| ODup (i, d) ->
  (match get w.w_objs i with
   | Some s ->
     let (t, opn) = sock_dup pick s w.w_open d in
     ({ w_open = opn; w_objs = (app w.w_objs ((Some t) :: [])) }, (RObj true))
   | None -> (w, RSkip))
| ODone (i, n0, k) ->
  (match get w.w_objs i with
   | Some s ->
     let (s', opn) = sock_done s w.w_open n0 k in
     ((set_obj w i (Some s') opn), (RBool true))
   | None -> (w, RSkip))
| ODel (i, n0, k) ->
  (match get w.w_objs i with
   | Some s ->
     let (_, opn) = sock_done s w.w_open n0 k in
     ((set_obj w i None opn), (RBool true))
   | None -> (w, RSkip))
| ONbio i ->
  (match get w.w_objs i with
   | Some s ->
     let (r, s') = sock_nbio s in
     ((set_obj w i (Some s') w.w_open), (RBool r))
   | None -> (w, RSkip))
| OSend (i, data, ws) ->
  (match get w.w_objs i with
   | Some s ->
     let r = socket_send (is_open w.w_open s.s_fd) data ws in
     (match r with
      | Ok so ->
        (match so.so_eff with
         | FdKeep -> (w, (RSend r))
         | FdClosed ->
           ((set_obj w i (Some
              (with_flags (with_fd s (Zneg XH)) (fclear s.s_flags f_IOSTATE)))
              (release w.w_open s.s_fd)), (RSend r))
         | FdForgotten ->
           ((set_obj w i (Some
              (with_flags (with_fd s (Zneg XH)) (fclear s.s_flags f_IOSTATE)))
              w.w_open), (RSend r)))
      | Fault _ -> (w, (RSend r)))
   | None -> (w, RSkip))
| ORecv (i, rs) ->
  (match get w.w_objs i with
   | Some s -> (w, (RRecv (socket_recv inc s.s_fd rs)))
   | None -> (w, RSkip))

(** val run :
    (z list -> z) -> z -> world -> op list -> world * oresult list **)

let rec run pick inc w = function
| [] -> (w, [])
| o :: r ->
  let (w1, x) = step pick inc w o in
  let (w2, xs) = run pick inc w1 r in (w2, (x :: xs))

(** val del_all : nat -> (nat -> nat * bool) -> op list **)

let rec del_all n0 closes =
  match n0 with
  | O -> []
  | S n' ->
    app (del_all n' closes) ((ODel (n', (fst (closes n')),
      (snd (closes n')))) :: [])

(** val cleanup :
    (z list -> z) -> z -> world -> (nat -> nat * bool) -> world **)

let cleanup pick inc w closes =
  fst (run pick inc w (del_all (length w.w_objs) closes))

(** val pick_max : z list -> z **)

let pick_max l =
  Z.add (fold_right Z.max Z0 l) (Zpos XH)

(** val dangling : world -> nat list **)

let dangling w =
  let rec go k = function
  | [] -> []
  | o :: t ->
    (match o with
     | Some s ->
       if (&&) (Z.leb Z0 s.s_fd) (negb (is_open w.w_open s.s_fd))
       then k :: (go (S k) t)
       else go (S k) t
     | None -> go (S k) t)
  in go O w.w_objs
