(* Executable model of spiftool_temp_file (src/file.c:60, property C11, temporary-file clause).
   The function body is not written here: it is Gen/TempGen.v, translated from the source tree on every run
   (buffer size, the getenv chain with its formats, the statements that follow).  This file gives the
   translated body its meaning: snprintf into buff[temp_buff_size] truncates, the file system and libc are a
   small explicit world (umask, files with their mode bits, open descriptors) driven by an oracle (does the
   directory exist, which six characters does mkstemp try in which order, which descriptor number does the
   kernel hand out, does fchmod succeed).  mkstemp follows glibc's __gen_tempname: EINVAL unless the name ends
   in XXXXXX, every candidate opened with O_CREAT|O_EXCL and mode 0600 (subject to the umask), EEXIST moves on
   to the next candidate.  The copy back into the caller's buffer is property C13's spiftool_safe_strncpy.
   No proofs in this file. *)
From LV Require Export Base.Buf Strings.HelpersModel Temp.TempDefs.
From LV Require Import Gen.TempGen.
Local Open Scope Z_scope.

Fixpoint beq_bytes (a b : list Z) : bool :=
  match a, b with
  | [], [] => true
  | x :: a', y :: b' => (x =? y) && beq_bytes a' b'
  | _, _ => false
  end.

Record world := { w_umask : Z; w_files : list (list Z * Z); w_fds : list (Z * list Z) }.
Record oracle := { o_dir_ok : bool; o_picks : list (list Z); o_fd : Z; o_fchmod_ok : bool }.

Definition has_file (files : list (list Z * Z)) (nm : list Z) : bool :=
  existsb (fun f => beq_bytes (fst f) nm) files.

Definition xs6 : list Z := [88; 88; 88; 88; 88; 88].
Definition libc_create_mode : Z := 384.   (* glibc's mkstemp: open(.., O_RDWR|O_CREAT|O_EXCL, 0600) *)

Fixpoint try_picks (stem : list Z) (files : list (list Z * Z)) (picks : list (list Z)) : option (list Z) :=
  match picks with
  | [] => None
  | p :: ps => if has_file files (stem ++ p) then try_picks stem files ps else Some (stem ++ p)
  end.

Definition mkstemp (w : world) (o : oracle) (name : list Z) : world * Z * list Z :=
  let n := length name in
  if (n <? 6)%nat then (w, -1, name) else
  let stem := firstn (n - 6) name in
  if negb (beq_bytes (skipn (n - 6) name) xs6) then (w, -1, name) else
  if negb (o_dir_ok o) then (w, -1, name) else
  match try_picks stem (w_files w) (o_picks o) with
  | None => (w, -1, name)
  | Some nm => ({| w_umask := w_umask w;
                   w_files := w_files w ++ [(nm, Z.ldiff libc_create_mode (w_umask w))];
                   w_fds := (o_fd o, nm) :: w_fds w |}, o_fd o, nm)
  end.

Fixpoint fd_name (fds : list (Z * list Z)) (fd : Z) : option (list Z) :=
  match fds with
  | [] => None
  | (d, nm) :: t => if d =? fd then Some nm else fd_name t fd
  end.

Definition set_mode (files : list (list Z * Z)) (nm : list Z) (mode : Z) : list (list Z * Z) :=
  map (fun f => if beq_bytes (fst f) nm then (fst f, mode) else f) files.

(* returns true when the call FAILED (fchmod's non-zero result) *)
Definition fchmod (w : world) (o : oracle) (fd mode : Z) : world * bool :=
  if o_fchmod_ok o then
    match fd_name (w_fds w) fd with
    | Some nm => ({| w_umask := w_umask w; w_files := set_mode (w_files w) nm mode; w_fds := w_fds w |}, false)
    | None => (w, true)
    end
  else (w, true).

(* ---- the snprintf chain ---- *)
Definition piece_bytes (env : list Z -> option (list Z)) (tpl : list Z) (p : tpiece) : list Z :=
  match p with
  | PLit s => s
  | PEnv n => match env n with Some v => v | None => [] end
  | PTpl => tpl
  end.

Fixpoint pick_branch (env : list Z -> option (list Z)) (bs : list (option (list Z) * list tpiece)) : list tpiece :=
  match bs with
  | [] => []
  | (None, f) :: _ => f
  | (Some n, f) :: t => match env n with Some _ => f | None => pick_branch env t end
  end.

(* what buff holds after the snprintf: at most temp_buff_size - 1 bytes, then the NUL *)
Definition temp_name (env : list Z -> option (list Z)) (tpl : list Z) : list Z :=
  firstn (Z.to_nat (temp_buff_size - 1)) (concat (map (piece_bytes env tpl) (pick_branch env temp_branches))).

(* ---- the statements ---- *)
Record tstate := { t_w : world; t_saved : Z; t_fd : Z; t_buff : list Z; t_tpl : buf; t_ret : option Z }.

Definition with_w (s : tstate) (w : world) : tstate :=
  {| t_w := w; t_saved := t_saved s; t_fd := t_fd s; t_buff := t_buff s; t_tpl := t_tpl s; t_ret := t_ret s |}.
Definition with_ret (s : tstate) (r : Z) : tstate :=
  {| t_w := t_w s; t_saved := t_saved s; t_fd := t_fd s; t_buff := t_buff s; t_tpl := t_tpl s; t_ret := Some r |}.
Definition set_umask (w : world) (m : Z) : world :=
  {| w_umask := m; w_files := w_files w; w_fds := w_fds w |}.

Definition exec (o : oracle) (len : Z) (s : tstate) (st : tstmt) : res tstate :=
  match t_ret s with
  | Some _ => Ok s
  | None =>
    match st with
    | TRequireLen => if len <=? 0 then Ok (with_ret s (-1)) else Ok s
    | TUmaskSave m =>
      Ok {| t_w := set_umask (t_w s) (Z.land m 511); t_saved := w_umask (t_w s); t_fd := t_fd s;
            t_buff := t_buff s; t_tpl := t_tpl s; t_ret := None |}
    | TUmaskSet m => Ok (with_w s (set_umask (t_w s) (Z.land m 511)))
    | TUmaskRestore => Ok (with_w s (set_umask (t_w s) (t_saved s)))
    | TMkstemp =>
      let '(w', fd, nm) := mkstemp (t_w s) o (t_buff s) in
      Ok {| t_w := w'; t_saved := t_saved s; t_fd := fd; t_buff := nm; t_tpl := t_tpl s; t_ret := None |}
    | TFailIfBad mode =>
      if t_fd s <? 0 then Ok (with_ret s (-1))
      else let '(w', failed) := fchmod (t_w s) o (t_fd s) mode in
           if failed then Ok (with_ret (with_w s w') (-1)) else Ok (with_w s w')
    | TCopyBack =>
      if len =? 0 then Ok s
      else '(_, d) <- safe_strncpy (t_tpl s) (cstr (t_buff s) []) len ;;
           Ok {| t_w := t_w s; t_saved := t_saved s; t_fd := t_fd s; t_buff := t_buff s; t_tpl := d; t_ret := None |}
    | TReturnFd => Ok (with_ret s (t_fd s))
    end
  end.

Fixpoint exec_all (o : oracle) (len : Z) (s : tstate) (p : list tstmt) : res tstate :=
  match p with
  | [] => Ok s
  | st :: p' => s' <- exec o len s st ;; exec_all o len s' p'
  end.

(* spiftool_temp_file(ftemplate, len): ftemplate points at tpl (cells up to the end of the caller's object).
   Result: return value, the caller's buffer, the world.  Falling off the end of the statements without a
   return is not C that compiles; it is reported as Abort. *)
Definition temp_file (env : list Z -> option (list Z)) (tpl : buf) (len : Z) (w : world) (o : oracle)
  : res (Z * buf * world) :=
  n <- strlen tpl ;;
  let s0 := {| t_w := w; t_saved := 0; t_fd := -1; t_buff := temp_name env (take_str tpl); t_tpl := tpl; t_ret := None |} in
  s <- exec_all o len s0 temp_prog ;;
  match t_ret s with
  | Some r => Ok (r, t_tpl s, t_w s)
  | None => Fault Abort
  end.

(* the environment the harness can set up: TMPDIR and TMP *)
Definition env2 (tmpdir tmp : option (list Z)) (n : list Z) : option (list Z) :=
  if beq_bytes n [84; 77; 80; 68; 73; 82] then tmpdir
  else if beq_bytes n [84; 77; 80] then tmp else None.

Definition world0 (umask0 : Z) (files : list (list Z * Z)) : world :=
  {| w_umask := umask0; w_files := files; w_fds := [] |}.

(* mode of the file an open descriptor refers to (fstat) *)
Definition fd_mode (w : world) (fd : Z) : option Z :=
  match fd_name (w_fds w) fd with
  | Some nm => match find (fun f => beq_bytes (fst f) nm) (w_files w) with Some f => Some (snd f) | None => None end
  | None => None
  end.
