(* Proofs about Temp/TempModel.v (spiftool_temp_file).  The theorems are about the body translated from the
   source tree (Gen/TempGen.v): `prog_shape` pins the statement sequence and the buffer size they were proved
   for, by computation on the generated constants - a source change that alters them breaks that lemma, and the
   check then looks for a failing input. *)
From LV Require Import Base.Buf Strings.HelpersModel Strings.HelpersProofs Temp.TempDefs Temp.TempModel Gen.TempGen.
Local Open Scope Z_scope.

Definition ref_prog : list tstmt :=
  [TRequireLen; TUmaskSave 63; TMkstemp; TUmaskRestore; TFailIfBad 384; TCopyBack; TReturnFd].

Lemma prog_shape : temp_prog = ref_prog /\ temp_buff_size = 256.
Proof. split; reflexivity. Qed.

(* ---------- byte-string equality ---------- *)
Lemma beq_bytes_eq a b : beq_bytes a b = true <-> a = b.
Proof.
  revert b; induction a as [|x a IH]; intros [|y b]; simpl; split; intros H; try discriminate; try reflexivity.
  - apply andb_true_iff in H as [H1 H2]. apply Z.eqb_eq in H1. apply IH in H2. now subst.
  - inversion H; subst. apply andb_true_iff; split; [apply Z.eqb_refl | now apply IH].
Qed.

Lemma has_file_In files nm : has_file files nm = true <-> In nm (map fst files).
Proof.
  unfold has_file. rewrite existsb_exists. split.
  - intros [f [Hf He]]. apply beq_bytes_eq in He. subst. now apply in_map.
  - intros H. apply in_map_iff in H as [f [He Hf]]. exists f. split; [assumption|]. now apply beq_bytes_eq.
Qed.

(* ---------- the name fits the buffer ---------- *)
Lemma temp_name_fits env tpl : (length (temp_name env tpl) <= 255)%nat.
Proof.
  unfold temp_name. destruct prog_shape as [_ Hs]. rewrite Hs.
  rewrite firstn_length. change (Z.to_nat (256 - 1)) with 255%nat. lia.
Qed.

(* ---------- mkstemp ---------- *)
Lemma try_picks_fresh stem files picks nm :
  try_picks stem files picks = Some nm -> ~ In nm (map fst files).
Proof.
  induction picks as [|p ps IH]; simpl; [discriminate|].
  destruct (has_file files (stem ++ p)) eqn:E; [exact IH|].
  intros H; inversion H; subst. intros Hin. apply has_file_In in Hin. congruence.
Qed.

Lemma mkstemp_spec w o name w' fd nm :
  mkstemp w o name = (w', fd, nm) ->
  (fd = -1 /\ w' = w) \/
  (fd = o_fd o /\ ~ In nm (map fst (w_files w)) /\
   w' = {| w_umask := w_umask w; w_files := w_files w ++ [(nm, Z.ldiff libc_create_mode (w_umask w))];
           w_fds := (o_fd o, nm) :: w_fds w |}).
Proof.
  unfold mkstemp. intros H.
  destruct (length name <? 6)%nat; [inversion H; auto|].
  destruct (negb (beq_bytes _ xs6)); [inversion H; auto|].
  destruct (negb (o_dir_ok o)); [inversion H; auto|].
  destruct (try_picks _ _ _) as [n1|] eqn:E; [|inversion H; auto].
  inversion H; subst. right. split; [reflexivity|]. split; [|reflexivity].
  eapply try_picks_fresh; eassumption.
Qed.

(* ---------- set_mode ---------- *)
Lemma set_mode_other files nm mode : ~ In nm (map fst files) -> set_mode files nm mode = files.
Proof.
  unfold set_mode. induction files as [|f t IH]; simpl; intros H; [reflexivity|].
  destruct (beq_bytes (fst f) nm) eqn:E.
  - apply beq_bytes_eq in E. exfalso. apply H. now left.
  - f_equal. apply IH. intros Hin. apply H. now right.
Qed.

Lemma set_mode_app files nm m0 mode :
  ~ In nm (map fst files) -> set_mode (files ++ [(nm, m0)]) nm mode = files ++ [(nm, mode)].
Proof.
  intros H. unfold set_mode. rewrite map_app. fold (set_mode files nm mode). rewrite set_mode_other by assumption.
  simpl. assert (E : beq_bytes nm nm = true) by now apply beq_bytes_eq. now rewrite E.
Qed.

Lemma set_mode_names files nm mode : map fst (set_mode files nm mode) = map fst files.
Proof.
  unfold set_mode. induction files as [|f t IH]; simpl; [reflexivity|].
  destruct (beq_bytes (fst f) nm); simpl; now rewrite IH.
Qed.


Lemma find_app_fresh (files : list (list Z * Z)) nm m :
  ~ In nm (map fst files) ->
  find (fun f => beq_bytes (fst f) nm) (files ++ [(nm, m)]) = Some (nm, m).
Proof.
  induction files as [|f t IH]; simpl; intros H.
  - assert (E : beq_bytes nm nm = true) by now apply beq_bytes_eq. now rewrite E.
  - destruct (beq_bytes (fst f) nm) eqn:E.
    + apply beq_bytes_eq in E. exfalso. apply H. now left.
    + apply IH. intros Hin. apply H. now right.
Qed.

Lemma NoDup_app_single {A} (l : list A) x : ~ In x l -> NoDup l -> NoDup (l ++ [x]).
Proof.
  induction l as [|y t IH]; simpl; intros Hx Hn.
  - constructor; [intros []|constructor].
  - inversion Hn as [|? ? Hy Ht]; subst. constructor.
    + intros Hin. apply in_app_or in Hin as [Hin|[->|[]]]; [now apply Hy|]. apply Hx. now left.
    + apply IH; [intros Hin; apply Hx; now right|assumption].
Qed.

Lemma Forall_firstn_nz n (l : list Z) : Forall nz_byte l -> Forall nz_byte (firstn n l).
Proof.
  revert n; induction l as [|x t IH]; intros [|n] H; simpl; auto.
  inversion H; subst. constructor; auto.
Qed.

Lemma pick_branch_in env bs : pick_branch env bs = [] \/ exists v, In (v, pick_branch env bs) bs.
Proof.
  induction bs as [|[[n|] f] t IH]; simpl; [now left| |right; exists None; now left].
  destruct (env n); [right; exists (Some n); now left|].
  destruct IH as [IH|[v IH]]; [now left|right; exists v; now right].
Qed.

(* every literal piece of every branch is free of NUL bytes (computed on the translated formats) *)
Definition lit_nz (p : tpiece) : bool :=
  match p with PLit s => forallb (fun b => (0 <? b) && (b <? 256)) s | _ => true end.
Lemma branches_nz : forallb (fun b => forallb lit_nz (snd b)) temp_branches = true.
Proof. vm_compute. reflexivity. Qed.

Lemma temp_name_nz env s :
  Forall nz_byte s -> (forall v n, env n = Some v -> Forall nz_byte v) -> Forall nz_byte (temp_name env s).
Proof.
  intros Hs Henv. unfold temp_name. apply Forall_firstn_nz.
  assert (Hb : forallb lit_nz (pick_branch env temp_branches) = true).
  { destruct (pick_branch_in env temp_branches) as [->|[v Hin]]; [reflexivity|].
    pose proof branches_nz as H. rewrite forallb_forall in H. exact (H _ Hin). }
  induction (pick_branch env temp_branches) as [|p ps IH]; simpl; [constructor|].
  simpl in Hb. apply andb_true_iff in Hb as [Hp Hps].
  apply Forall_app. split; [|now apply IH].
  destruct p as [l|n|]; simpl in *.
  - rewrite forallb_forall in Hp. apply Forall_forall. intros b Hb.
    specialize (Hp b Hb). apply andb_true_iff in Hp as [H1 H2].
    apply Z.ltb_lt in H1. apply Z.ltb_lt in H2. unfold nz_byte. lia.
  - destruct (env n) eqn:E; [eapply Henv; eassumption|constructor].
  - assumption.
Qed.

(* ---------- the whole call, for the translated body ---------- *)
Definition run_ref (env : list Z -> option (list Z)) (tpl : buf) (len : Z) (w : world) (o : oracle) : res (Z * buf * world) :=
  n <- strlen tpl ;;
  let name := temp_name env (take_str tpl) in
  if len <=? 0 then Ok (-1, tpl, w) else
  let '(w1, fd, nm) := mkstemp (set_umask w 63) o name in
  let w2 := set_umask w1 (w_umask w) in
  if fd <? 0 then Ok (-1, tpl, w2) else
  let '(w3, failed) := fchmod w2 o fd 384 in
  if failed then Ok (-1, tpl, w3) else
  '(_, d) <- safe_strncpy tpl (cstr nm []) len ;; Ok (fd, d, w3).

Lemma temp_file_unfold env tpl len w o : temp_file env tpl len w o = run_ref env tpl len w o.
Proof.
  unfold temp_file, run_ref. destruct (strlen tpl) as [n|f]; [|reflexivity]. cbn [bind].
  destruct prog_shape as [Hp _]. rewrite Hp. unfold ref_prog.
  cbn [exec_all exec t_ret bind].
  destruct (len <=? 0) eqn:El.
  { cbn [with_ret t_ret exec_all exec bind t_tpl t_w]. reflexivity. }
  cbn [t_ret exec_all exec bind t_w t_saved t_fd t_buff t_tpl].
  change (Z.land 63 511) with 63.
  destruct (mkstemp (set_umask w 63) o (temp_name env (take_str tpl))) as [[w1 fd] nm] eqn:Em.
  cbn [t_ret exec_all exec bind t_w t_saved t_fd t_buff t_tpl with_w].
  destruct (fd <? 0) eqn:Ef.
  { cbn [with_ret t_ret exec_all exec bind t_tpl t_w]. reflexivity. }
  destruct (fchmod (set_umask w1 (w_umask w)) o fd 384) as [w3 failed] eqn:Ec.
  destruct failed.
  { cbn [with_ret with_w t_ret exec_all exec bind t_tpl t_w t_saved t_fd t_buff]. reflexivity. }
  cbn [with_ret with_w t_ret exec_all exec bind t_tpl t_w t_saved t_fd t_buff].
  assert (E0 : (len =? 0) = false) by (apply Z.eqb_neq; apply Z.leb_gt in El; lia). rewrite E0.
  destruct (safe_strncpy tpl (cstr nm []) len) as [[b d]|f]; cbn [bind with_ret t_ret t_tpl t_w t_fd]; reflexivity.
Qed.

Lemma fchmod_umask w o fd mode w' failed : fchmod w o fd mode = (w', failed) -> w_umask w' = w_umask w.
Proof.
  unfold fchmod. destruct (o_fchmod_ok o); [|intros H; inversion H; reflexivity].
  destruct (fd_name (w_fds w) fd); intros H; inversion H; reflexivity.
Qed.

Lemma mkstemp_umask w o name w' fd nm : mkstemp w o name = (w', fd, nm) -> w_umask w' = w_umask w.
Proof. intros H. apply mkstemp_spec in H as [[_ ->]|[_ [_ ->]]]; reflexivity. Qed.

(* the caller's umask is the same after the call as before it, whatever the outcome *)
Theorem temp_umask_restored env tpl len w o r t w' :
  temp_file env tpl len w o = Ok (r, t, w') -> w_umask w' = w_umask w.
Proof.
  rewrite temp_file_unfold. unfold run_ref.
  destruct (strlen tpl); cbn [bind]; [|discriminate].
  destruct (len <=? 0); [intros H; inversion H; reflexivity|].
  destruct (mkstemp (set_umask w 63) o _) as [[w1 fd] nm] eqn:Em.
  destruct (fd <? 0); [intros H; inversion H; reflexivity|].
  destruct (fchmod _ o fd 384) as [w3 failed] eqn:Ec.
  apply fchmod_umask in Ec. cbn [set_umask w_umask] in Ec.
  destruct failed; [intros H; inversion H; subst; exact Ec|].
  destruct (safe_strncpy _ _ _) as [[b d]|f]; cbn [bind]; intros H; inversion H; subst; exact Ec.
Qed.

(* a failed call leaves the caller's buffer alone *)
Theorem temp_failure_keeps_template env tpl len w o r t w' :
  temp_file env tpl len w o = Ok (r, t, w') -> r < 0 -> 0 <= o_fd o -> t = tpl.
Proof.
  rewrite temp_file_unfold. unfold run_ref.
  destruct (strlen tpl); cbn [bind]; [|discriminate].
  destruct (len <=? 0); [intros H; inversion H; reflexivity|].
  destruct (mkstemp (set_umask w 63) o _) as [[w1 fd] nm] eqn:Em.
  destruct (fd <? 0) eqn:Ef; [intros H; inversion H; reflexivity|].
  destruct (fchmod _ o fd 384) as [w3 failed] eqn:Ec.
  destruct failed; [intros H; inversion H; reflexivity|].
  destruct (safe_strncpy _ _ _) as [[b d]|f]; cbn [bind]; intros H Hr Ho; inversion H; subst.
  apply Z.ltb_ge in Ef. lia.
Qed.

(* success: the descriptor the kernel handed out, open on a file that did not exist before, whose mode is exactly
   0600 whatever the caller's umask; every other file is as it was *)
Theorem temp_success env tpl len w o r t w' :
  temp_file env tpl len w o = Ok (r, t, w') -> 0 <= r ->
  exists nm,
    r = o_fd o /\
    ~ In nm (map fst (w_files w)) /\
    w_files w' = w_files w ++ [(nm, 384)] /\
    w_fds w' = (r, nm) :: w_fds w /\
    fd_mode w' r = Some 384.
Proof.
  rewrite temp_file_unfold. unfold run_ref.
  destruct (strlen tpl); cbn [bind]; [|discriminate].
  destruct (len <=? 0); [intros H Hr; inversion H; subst; lia|].
  destruct (mkstemp (set_umask w 63) o _) as [[w1 fd] nm] eqn:Em.
  destruct (fd <? 0) eqn:Ef; [intros H Hr; inversion H; subst; lia|].
  apply mkstemp_spec in Em as [[-> _]|[-> [Hfresh ->]]]; [discriminate|].
  cbn [set_umask w_umask w_files w_fds] in *.
  unfold fchmod. cbn [w_fds w_files w_umask set_umask fd_name]. rewrite Z.eqb_refl.
  destruct (o_fchmod_ok o); [|intros H Hr; inversion H; subst; lia].
  destruct (safe_strncpy _ _ _) as [[b d]|f]; cbn [bind]; [|discriminate].
  intros H Hr. inversion H; subst. exists nm.
  rewrite set_mode_app by assumption.
  cbn [w_files w_fds]. repeat split; try assumption.
  unfold fd_mode. cbn [w_fds w_files fd_name]. rewrite Z.eqb_refl.
  rewrite find_app_fresh by assumption. reflexivity.
Qed.

(* the names of the files stay pairwise distinct: no call ever hands out a name that is in use *)
Theorem temp_names_nodup env tpl len w o r t w' :
  temp_file env tpl len w o = Ok (r, t, w') -> NoDup (map fst (w_files w)) -> NoDup (map fst (w_files w')).
Proof.
  rewrite temp_file_unfold. unfold run_ref.
  destruct (strlen tpl); cbn [bind]; [|discriminate].
  destruct (len <=? 0); [intros H; inversion H; subst; auto|].
  destruct (mkstemp (set_umask w 63) o _) as [[w1 fd] nm] eqn:Em.
  assert (Hw1 : NoDup (map fst (w_files w)) -> NoDup (map fst (w_files w1))).
  { apply mkstemp_spec in Em as [[_ ->]|[_ [Hfresh ->]]]; cbn [set_umask w_files]; [auto|].
    intros Hn. rewrite map_app. cbn [map fst]. apply NoDup_app_single; assumption. }
  destruct (fd <? 0); [intros H Hn; inversion H; subst; cbn [set_umask w_files]; auto|].
  destruct (fchmod _ o fd 384) as [w3 failed] eqn:Ec.
  assert (Hw3 : map fst (w_files w3) = map fst (w_files w1)).
  { unfold fchmod in Ec. destruct (o_fchmod_ok o); [|inversion Ec; reflexivity].
    destruct (fd_name _ fd); inversion Ec; cbn [w_files set_umask]; [apply set_mode_names|reflexivity]. }
  destruct failed; [intros H Hn; inversion H; subst; rewrite Hw3; auto|].
  destruct (safe_strncpy _ _ _) as [[b d]|f]; cbn [bind]; [|discriminate].
  intros H Hn; inversion H; subst; rewrite Hw3; auto.
Qed.

(* in bounds: for every environment, every template string, every prior content of the caller's buffer behind it and
   every len that does not exceed that buffer, the call does not fault - whatever the world and the oracle do *)
Theorem temp_no_fault env s rest len w o :
  Forall nz_byte s -> len <= blen (cstr s rest) ->
  (forall p, In p (o_picks o) -> Forall nz_byte p) ->
  (forall v n, env n = Some v -> Forall nz_byte v) ->
  exists r t w', temp_file env (cstr s rest) len w o = Ok (r, t, w').
Proof.
  intros Hs Hlen Hp Henv. rewrite temp_file_unfold. unfold run_ref.
  rewrite strlen_cstr by assumption. cbn [bind]. rewrite take_str_cstr by assumption.
  destruct (len <=? 0) eqn:El; [eauto|].
  destruct (mkstemp (set_umask w 63) o _) as [[w1 fd] nm] eqn:Em.
  destruct (fd <? 0) eqn:Ef; [eauto|].
  destruct (fchmod _ o fd 384) as [w3 failed] eqn:Ec.
  destruct failed; [eauto|].
  assert (Hnm : Forall nz_byte nm).
  { unfold mkstemp in Em.
    destruct (length (temp_name env s) <? 6)%nat; [inversion Em; subst; discriminate|].
    destruct (negb (beq_bytes _ xs6)); [inversion Em; subst; discriminate|].
    destruct (negb (o_dir_ok o)); [inversion Em; subst; discriminate|].
    destruct (try_picks _ _ _) as [n1|] eqn:Et; [|inversion Em; subst; discriminate].
    inversion Em; subst.
    assert (Hstem : Forall nz_byte (temp_name env s)) by (apply temp_name_nz; assumption).
    clear -Et Hp Hstem. revert Et. generalize (w_files (set_umask w 63)). intros files.
    induction (o_picks o) as [|p ps IH]; simpl; [discriminate|].
    destruct (has_file _ _); [apply IH; intros q Hq; apply Hp; now right|].
    intros H; inversion H; subst. apply Forall_app. split; [now apply Forall_firstn_nz|apply Hp; now left]. }
  apply Z.leb_gt in El.
  rewrite (safe_strncpy_exact nm [] (cstr s rest) len Hnm) by lia. cbn [bind]. eauto.
Qed.

(* ---------- any history of calls ---------- *)
Record tcall := { c_env : list Z -> option (list Z); c_tpl : buf; c_len : Z; c_o : oracle }.

Fixpoint run_calls (w : world) (cs : list tcall) : res (world * list Z) :=
  match cs with
  | [] => Ok (w, [])
  | c :: cs' =>
    '(r, _, w1) <- temp_file (c_env c) (c_tpl c) (c_len c) w (c_o c) ;;
    '(w2, rs) <- run_calls w1 cs' ;; Ok (w2, r :: rs)
  end.

Theorem temp_history cs : forall w w' rs,
  run_calls w cs = Ok (w', rs) -> NoDup (map fst (w_files w)) ->
  NoDup (map fst (w_files w')) /\ w_umask w' = w_umask w /\
  (forall f, In f (w_files w) -> In (fst f) (map fst (w_files w'))).
Proof.
  induction cs as [|c cs IH]; intros w w' rs H Hn; cbn [run_calls] in H.
  - inversion H; subst. repeat split; auto. intros f Hf. now apply in_map.
  - destruct (temp_file (c_env c) (c_tpl c) (c_len c) w (c_o c)) as [[[r t] w1]|f] eqn:E1; cbn [bind] in H; [|discriminate].
    destruct (run_calls w1 cs) as [[w2 rs']|f] eqn:E2; cbn [bind] in H; [|discriminate].
    inversion H; subst.
    pose proof (temp_names_nodup _ _ _ _ _ _ _ _ E1 Hn) as Hn1.
    pose proof (temp_umask_restored _ _ _ _ _ _ _ _ E1) as Hu1.
    destruct (IH _ _ _ E2 Hn1) as [Hn2 [Hu2 Hk2]].
    repeat split; [assumption|congruence|].
    intros f Hf.
    assert (Hin1 : In (fst f) (map fst (w_files w1))).
    { clear -E1 Hf. rewrite temp_file_unfold in E1. unfold run_ref in E1.
      destruct (strlen (c_tpl c)); cbn [bind] in E1; [|discriminate].
      destruct (c_len c <=? 0); [inversion E1; subst; now apply in_map|].
      destruct (mkstemp (set_umask w 63) (c_o c) _) as [[wa fd] nm] eqn:Em.
      assert (Ha : In (fst f) (map fst (w_files wa))).
      { apply mkstemp_spec in Em as [[_ ->]|[_ [_ ->]]]; cbn [set_umask w_files].
        - now apply in_map.
        - rewrite map_app. apply in_or_app. left. now apply in_map. }
      destruct (fd <? 0); [inversion E1; subst; exact Ha|].
      destruct (fchmod _ (c_o c) fd 384) as [w3 failed] eqn:Ec.
      assert (Hw3 : map fst (w_files w3) = map fst (w_files wa)).
      { unfold fchmod in Ec. destruct (o_fchmod_ok (c_o c)); [|inversion Ec; reflexivity].
        destruct (fd_name _ fd); inversion Ec; cbn [w_files set_umask]; [apply set_mode_names|reflexivity]. }
      destruct failed; [inversion E1; subst; rewrite Hw3; exact Ha|].
      destruct (safe_strncpy _ _ _) as [[b d]|f0]; cbn [bind] in E1; [|discriminate].
      inversion E1; subst. rewrite Hw3. exact Ha. }
    apply in_map_iff in Hin1 as [g [Hg1 Hg2]]. rewrite <- Hg1. apply Hk2. exact Hg2.
Qed.
