(* Exactness of spiftool_temp_file (Temp/TempModel.v): which file a successful call creates, what it leaves in the
   caller's buffer, and when the call is refused. *)
From LV Require Import Base.Buf Strings.HelpersModel Strings.HelpersProofs Temp.TempDefs Temp.TempModel Temp.TempProofs Gen.TempGen.
Local Open Scope Z_scope.

Definition slash : list Z := [47].

(* the name built from TMPDIR: "<dir>/<template>XXXXXX", cut to the buffer *)
Lemma temp_name_tmpdir dir tmp s :
  temp_name (env2 (Some dir) tmp) s = firstn 255 (dir ++ slash ++ s ++ xs6).
Proof. unfold temp_name. rewrite (proj2 prog_shape). reflexivity. Qed.

(* TMPDIR unset: TMP is used *)
Lemma temp_name_tmp dir s :
  temp_name (env2 None (Some dir)) s = firstn 255 (dir ++ slash ++ s ++ xs6).
Proof. unfold temp_name. rewrite (proj2 prog_shape). reflexivity. Qed.

(* neither: /tmp *)
Lemma temp_name_default s :
  temp_name (env2 None None) s = firstn 255 ([47; 116; 109; 112; 47] ++ s ++ xs6).
Proof. unfold temp_name. rewrite (proj2 prog_shape). reflexivity. Qed.

Lemma mkstemp_ok w o stem p ps :
  o_dir_ok o = true -> o_picks o = p :: ps -> has_file (w_files w) (stem ++ p) = false ->
  mkstemp w o (stem ++ xs6) =
  ({| w_umask := w_umask w; w_files := w_files w ++ [(stem ++ p, Z.ldiff libc_create_mode (w_umask w))];
      w_fds := (o_fd o, stem ++ p) :: w_fds w |}, o_fd o, stem ++ p).
Proof.
  intros Hd Hp Hf. unfold mkstemp. rewrite app_length. change (length xs6) with 6%nat.
  destruct (Nat.ltb_spec (length stem + 6) 6); [lia|].
  replace (length stem + 6 - 6)%nat with (length stem) by lia.
  rewrite firstn_app, firstn_all, Nat.sub_diag, skipn_app, skipn_all, Nat.sub_diag. cbn [firstn skipn app].
  rewrite app_nil_r. assert (E : beq_bytes xs6 xs6 = true) by reflexivity. rewrite E, Hd, Hp. cbn [negb try_picks].
  rewrite Hf. reflexivity.
Qed.

(* success, exactly: with TMPDIR = dir, a name that fits the buffer, the directory there, the first candidate free and
   fchmod working, the call returns the kernel's descriptor, has created <dir>/<template><candidate> with mode 0600 and
   nothing else, and the caller's buffer holds the longest prefix of that name that fits len, terminated, the cells
   behind it untouched *)
Theorem temp_exact_ok dir tmp s rest len w o p ps :
  Forall nz_byte s -> Forall nz_byte dir -> Forall nz_byte p ->
  (length dir + 1 + length s + 6 <= 255)%nat ->
  1 <= len -> len <= blen (cstr s rest) -> 0 <= o_fd o ->
  o_dir_ok o = true -> o_picks o = p :: ps -> o_fchmod_ok o = true ->
  has_file (w_files w) (dir ++ slash ++ s ++ p) = false ->
  temp_file (env2 (Some dir) tmp) (cstr s rest) len w o =
  Ok (o_fd o,
      bytes (firstn (Z.to_nat (len - 1)) (dir ++ slash ++ s ++ p)) ++ Some 0 ::
        skipn (Nat.min (length (dir ++ slash ++ s ++ p)) (Z.to_nat (len - 1)) + 1) (cstr s rest),
      {| w_umask := w_umask w; w_files := w_files w ++ [(dir ++ slash ++ s ++ p, 384)];
         w_fds := (o_fd o, dir ++ slash ++ s ++ p) :: w_fds w |}).
Proof.
  intros Hs Hdir Hp Hfit Hl1 Hl2 Hfd Hd Hpk Hch Hfree.
  rewrite temp_file_unfold. unfold run_ref.
  rewrite strlen_cstr by assumption. cbn [bind]. rewrite take_str_cstr by assumption.
  destruct (Z.leb_spec len 0); [lia|].
  rewrite temp_name_tmpdir.
  rewrite firstn_all2 by (rewrite !app_length; change (length slash) with 1%nat; change (length xs6) with 6%nat; lia).
  replace (dir ++ slash ++ s ++ xs6) with ((dir ++ slash ++ s) ++ xs6) by (now rewrite <- !app_assoc).
  rewrite (mkstemp_ok (set_umask w 63) o (dir ++ slash ++ s) p ps Hd Hpk)
    by (cbn [set_umask w_files]; now rewrite <- !app_assoc).
  rewrite <- !app_assoc.
  destruct (Z.ltb_spec (o_fd o) 0); [lia|].
  unfold fchmod. cbn [set_umask w_umask w_files w_fds fd_name]. rewrite Hch, Z.eqb_refl.
  assert (Hnin : ~ In (dir ++ slash ++ s ++ p) (map fst (w_files w))).
  { intros Hin. apply has_file_In in Hin. congruence. }
  rewrite set_mode_app by assumption.
  assert (Hnm : Forall nz_byte (dir ++ slash ++ s ++ p)).
  { repeat (apply Forall_app; split); try assumption. constructor; [unfold nz_byte; lia|constructor]. }
  rewrite (safe_strncpy_exact _ [] (cstr s rest) len Hnm) by lia. cbn [bind]. reflexivity.
Qed.

(* refusal, exactly: when the name in the buffer does not end in XXXXXX (the truncation cut into it) or the directory
   is not there, the call returns -1 and changes nothing - not the caller's buffer, not the files, not the umask *)
Theorem temp_refused env s rest len w o :
  Forall nz_byte s ->
  let nm := temp_name env s in
  ((length nm < 6)%nat \/ beq_bytes (skipn (length nm - 6) nm) xs6 = false \/ o_dir_ok o = false) ->
  temp_file env (cstr s rest) len w o = Ok (-1, cstr s rest, w).
Proof.
  intros Hs nm Hbad. rewrite temp_file_unfold. unfold run_ref.
  rewrite strlen_cstr by assumption. cbn [bind]. rewrite take_str_cstr by assumption.
  destruct (len <=? 0); [reflexivity|]. fold nm.
  assert (E : mkstemp (set_umask w 63) o nm = (set_umask w 63, -1, nm)).
  { unfold mkstemp. destruct (Nat.ltb_spec (length nm) 6); [reflexivity|].
    destruct Hbad as [Hb|[Hb|Hb]]; [lia| |].
    - rewrite Hb. reflexivity.
    - destruct (negb (beq_bytes _ xs6)); [reflexivity|]. rewrite Hb. reflexivity. }
  rewrite E. cbn [Z.ltb Z.compare]. destruct w; reflexivity.
Qed.
