(* Syntax of the translated body of spiftool_temp_file (src/file.c): tools/gen_temp.py reads the function and
   writes it down as values of these types in Gen/TempGen.v; Temp/TempModel.v interprets them. *)
From Coq Require Export List ZArith.
Export ListNotations.

(* one piece of a snprintf format whose only directives are %s *)
Inductive tpiece : Set :=
| PLit (s : list Z)          (* literal bytes *)
| PEnv (name : list Z)       (* %s bound to getenv("name") *)
| PTpl.                      (* %s bound to the ftemplate argument *)

(* the statements after the snprintf chain, in source order *)
Inductive tstmt : Set :=
| TRequireLen                (* ASSERT_RVAL(len > 0, -1) *)
| TUmaskSave (mask : Z)      (* m = umask(mask) *)
| TUmaskSet (mask : Z)       (* umask(mask) with a constant, result dropped *)
| TMkstemp                   (* fd = mkstemp(buff) *)
| TUmaskRestore              (* umask(m) *)
| TFailIfBad (mode : Z)      (* if ((fd < 0) || fchmod(fd, mode)) return -1 *)
| TCopyBack                  (* if (len) spiftool_safe_strncpy(ftemplate, buff, len) *)
| TReturnFd.                 (* return fd *)
