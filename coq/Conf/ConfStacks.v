(* spifconf_parse gives the stacks back (property C09): all files closed, the file stack at its entry
   value, and the context stack deeper by exactly (Begin calls - End calls) of the trace - so at its entry
   value for input whose blocks are balanced. *)
From LV Require Import Base.Buf Conf.ConfModel Conf.ConfSpec Conf.ConfLemmas Conf.ConfTables Conf.ConfLine Conf.ConfSafe.
From LV Require Import Conf.ConfLife Conf.ConfTrace Conf.ConfInstProofs.
Local Open Scope Z_scope.

Section Stacks.
  Variable W : Type.
  Variable V : Type.
  Variable handler : Z -> harg -> Z -> W -> Z * W.
  Variable expand : list byte -> V -> list byte * V * list (list byte).
  Variable preproc_out : list byte -> option (list byte).
  Variable fs : list byte -> option (list byte).
  Variable progname : list byte.
  Variable fsl : list byte -> option (list (list byte) * bool).

  Hypothesis Hfs : forall n content, fs n = Some content -> Forall is_byte content.
  Hypothesis Hexp : expand_fits V expand.
  Hypothesis Hinc : expand_keeps_include V expand.
  Hypothesis Hfiles : forall name,
    match fsl name with
    | Some (ls, nl) => exists hdr, wf_hdr progname hdr /\ fs name = Some (render hdr ls nl) /\ Forall wf_line ls
    | None => open_file fs progname (Some name) = Ok None
    end.

  Theorem conf_stacks_restored n0 hw fuel (s : sstate W V) (c : conf V) name s' evs ret :
    R W V n0 hw s c [] -> t_idx (ftb V c) = 0 ->
    sparse W V handler expand fsl fuel s name = Done (s', evs, ret) ->
    exists c', parse W V handler expand preproc_out fs progname fuel c (s_world W V s) name = Ok (c', s_world W V s', evs, ret) /\
               t_idx (ftb V c') = t_idx (ftb V c) /\ nopen V c' = nopen V c /\
               t_idx (cst V c') = t_idx (cst V c) + begins evs - ends evs.
  Proof.
    intros HR E0 Hsp.
    pose proof (conf_trace W V handler expand preproc_out fs progname fsl Hfs Hexp Hinc Hfiles n0 hw fuel s c name HR E0) as HT.
    rewrite Hsp in HT. destruct HT as (c' & Ep & HR' & E0').
    exists c'. split; [exact Ep|]. split; [lia|].
    destruct HR as (_ & _ & _ & (Hl & _) & _ & _ & Hno & _). destruct HR' as (_ & _ & _ & (Hl' & _) & _ & _ & Hno' & _).
    split; [lia|].
    unfold sparse in Hsp. destruct (fsl name) as [[ls nl]|].
    - destruct (srun W V handler expand fsl fuel s (items_of ls nl) []) as [[s1 ev1]| | |] eqn:Er; try discriminate.
      injection Hsp as <- <- _. destruct (srun_depth W V handler expand fsl _ _ _ _ _ _ Er) as (new & -> & Hd).
      unfold depth in Hd. cbn [app]. lia.
    - injection Hsp as <- <- _. unfold begins, ends. cbn [filter length]. lia.
  Qed.
End Stacks.
