(* Basic facts about the building blocks of the Conf model: C strings in cell buffers,
   fgets on byte streams, case-insensitive comparison, tables. *)
From LV Require Import Base.Buf Strings.HelpersModel Strings.HelpersProofs Strings.HelpersProofs2.
From LV Require Import Conf.ConfModel.
Local Open Scope Z_scope.

Ltac len := repeat (rewrite ?app_length, ?bytes_length, ?upd_length, ?rev_length, ?repeat_length, ?map_length,
                            ?firstn_length, ?skipn_length; cbn [length]); try lia.

(* ---------- bytes ---------- *)
Lemma nz_is_byte c : nz_byte c -> is_byte c.
Proof. unfold nz_byte, is_byte. lia. Qed.

Lemma Forall_nz_app (a b : str) : Forall nz_byte (a ++ b) <-> Forall nz_byte a /\ Forall nz_byte b.
Proof. apply Forall_app. Qed.

(* ---------- C strings ---------- *)
Lemma cstring_cstr (s : str) rest : Forall nz_byte s -> cstring (cstr s rest) = Ok s.
Proof.
  unfold cstr, bytes. induction s as [|c s IH]; intros H; cbn [map app cstring].
  - reflexivity.
  - inversion H as [|? ? Hc Hs]; subst. rewrite (nz_byte_neq0 c Hc), (IH Hs). reflexivity.
Qed.

Lemma cstr_length (s : str) rest : length (cstr s rest) = (length s + 1 + length rest)%nat.
Proof. unfold cstr. len. Qed.

Lemma rdn0_cstr (s : str) rest : rdn (cstr s rest) 0 = Ok (match s with [] => 0 | c :: _ => c end).
Proof. destruct s; reflexivity. Qed.

Lemma skipn_cstr (s : str) rest k : (k <= length s)%nat -> skipn k (cstr s rest) = cstr (skipn k s) rest.
Proof.
  revert k; induction s as [|c s IH]; intros [|k] H; cbn [length] in *; try lia; try reflexivity.
  unfold cstr, bytes in *. cbn [map app skipn]. apply IH. lia.
Qed.

(* the C string held by arbitrary data followed by a terminator *)
Fixpoint cstr_of (d : list byte) : str :=
  match d with [] => [] | c :: t => if c =? 0 then [] else c :: cstr_of t end.

Lemma cstr_of_nz d : Forall is_byte d -> Forall nz_byte (cstr_of d).
Proof.
  induction d as [|c d IH]; intros H; cbn [cstr_of]; [constructor|].
  inversion H as [|? ? Hc Hd]; subst. destruct (Z.eqb_spec c 0); [constructor|].
  constructor; [unfold is_byte, nz_byte in *; lia|auto].
Qed.

Lemma cstr_of_length d : (length (cstr_of d) <= length d)%nat.
Proof. induction d as [|c d IH]; cbn [cstr_of length]; [lia|]. destruct (c =? 0); cbn [length]; lia. Qed.

Lemma bytes_term_cstr d tail :
  exists rest, bytes d ++ Some 0 :: tail = cstr (cstr_of d) rest /\
               length (bytes d ++ Some 0 :: tail) = length (cstr (cstr_of d) rest).
Proof.
  induction d as [|c d IH]; cbn [bytes map app cstr_of].
  - exists tail. split; reflexivity.
  - destruct (Z.eqb_spec c 0) as [->|Hc].
    + exists (map Some d ++ Some 0 :: tail). split; reflexivity.
    + destruct IH as (rest & E & L). exists rest. unfold cstr, bytes in *. cbn [map app length].
      split; [now rewrite E|now rewrite L].
Qed.

Lemma cstr_of_nz_id (s : str) : Forall nz_byte s -> cstr_of s = s.
Proof.
  induction s as [|c s IH]; intros H; cbn [cstr_of]; [reflexivity|].
  inversion H as [|? ? Hc Hs]; subst. rewrite (nz_byte_neq0 c Hc), (IH Hs). reflexivity.
Qed.

(* ---------- put_str ---------- *)
Lemma put_at_ok (cs : list cell) : forall b : buf,
  (length cs <= length b)%nat -> put_at b cs = Ok (cs ++ skipn (length cs) b).
Proof.
  induction cs as [|c cs IH]; intros b H; [destruct b; reflexivity|].
  destruct b as [|x b]; cbn [length] in H; [lia|]. cbn [put_at length skipn app]. rewrite IH by lia. reflexivity.
Qed.

Lemma put_at_length (cs : list cell) : forall b b', put_at b cs = Ok b' -> length b' = length b.
Proof.
  induction cs as [|c cs IH]; intros b b'.
  - destruct b; cbn [put_at]; intros [= <-]; reflexivity.
  - destruct b as [|x b]; cbn [put_at]; [discriminate|]. destruct (put_at b cs) as [r|] eqn:E; cbn [bind]; [|discriminate].
    intros [= <-]. cbn [length]. f_equal. eapply IH. eassumption.
Qed.

Lemma put_str_ok (b : buf) (s : str) :
  (length s < length b)%nat ->
  put_str b s = Ok (bytes s ++ Some 0 :: skipn (S (length s)) b).
Proof.
  intros H. unfold put_str. rewrite put_at_ok by (rewrite app_length, bytes_length; cbn [length]; lia).
  rewrite app_length, bytes_length. cbn [length]. rewrite <- app_assoc. cbn [app].
  replace (length s + 1)%nat with (S (length s)) by lia. reflexivity.
Qed.

Lemma put_str_length (b : buf) (s : str) b' :
  put_str b s = Ok b' -> length b' = length b.
Proof. apply put_at_length. Qed.

Lemma put_str_cstr (b : buf) (s : str) :
  (length s < length b)%nat -> Forall nz_byte s ->
  put_str b s = Ok (cstr s (skipn (S (length s)) b)).
Proof. intros. now rewrite put_str_ok. Qed.

(* ---------- case-insensitive comparison ---------- *)
Lemma list_eqb_eq (a b : str) : list_eqb a b = true <-> a = b.
Proof.
  revert b; induction a as [|x a IH]; intros [|y b]; cbn [list_eqb]; split; intros H; try congruence; try discriminate.
  - apply andb_true_iff in H as [H1 H2]. apply Z.eqb_eq in H1. apply IH in H2. congruence.
  - injection H as -> ->. rewrite Z.eqb_refl. cbn [andb]. now apply IH.
Qed.

Lemma list_eqb_refl (a : str) : list_eqb a a = true.
Proof. now apply list_eqb_eq. Qed.

Lemma ci_eq_refl (a : str) : ci_eq a a = true.
Proof. apply list_eqb_refl. Qed.

(* ---------- take_line / fgets ---------- *)
Definition no_nl (l : str) : Prop := Forall (fun c => c <> 10) l.

Lemma take_line_nl (l : str) rest n :
  no_nl l -> Z.of_nat (length l) < n -> take_line n (l ++ 10 :: rest) = (l ++ [10], rest).
Proof.
  revert n; induction l as [|c l IH]; intros n Hl Hn; cbn [length app take_line] in *.
  - destruct (Z.leb_spec n 0); [lia|]. reflexivity.
  - destruct (Z.leb_spec n 0); [lia|]. inversion Hl as [|? ? Hc Hl']; subst.
    destruct (Z.eqb_spec c 10); [contradiction|].
    rewrite IH by (auto; lia). reflexivity.
Qed.

Lemma take_line_end (l : str) n :
  no_nl l -> Z.of_nat (length l) <= n -> take_line n l = (l, []).
Proof.
  revert n; induction l as [|c l IH]; intros n Hl Hn; cbn [length take_line] in *; [reflexivity|].
  destruct (Z.leb_spec n 0); [lia|]. inversion Hl as [|? ? Hc Hl']; subst.
  destruct (Z.eqb_spec c 10); [contradiction|].
  rewrite IH by (auto; lia). reflexivity.
Qed.

Lemma take_line_length d : forall n a r, take_line n d = (a, r) -> Z.of_nat (length a) <= Z.max 0 n /\ d = a ++ r.
Proof.
  induction d as [|c d IH]; intros n a r H; cbn [take_line] in H.
  - injection H as <- <-. split; [cbn; lia|reflexivity].
  - destruct (Z.leb_spec n 0).
    + injection H as <- <-. split; [cbn; lia|reflexivity].
    + destruct (c =? 10).
      * injection H as <- <-. split; [cbn; lia|reflexivity].
      * destruct (take_line (n - 1) d) as [a' r'] eqn:E. injection H as <- <-.
        destruct (IH _ _ _ E) as [L ->]. split; [cbn [length]; lia|reflexivity].
Qed.

Lemma take_line_nonempty n d a r : 0 < n -> take_line n d = (a, r) -> d <> [] -> a <> [].
Proof.
  intros Hn. destruct d as [|c d]; [congruence|]. cbn [take_line]. intros H _.
  destruct (Z.leb_spec n 0); [lia|].
  destruct (c =? 10); [injection H as <- <-; discriminate|].
  destruct (take_line (n - 1) d). injection H as <- <-. discriminate.
Qed.

Lemma take_line_bytes n d a r : take_line n d = (a, r) -> Forall is_byte d -> Forall is_byte a /\ Forall is_byte r.
Proof.
  intros H Hd. destruct (take_line_length _ _ _ _ H) as [_ ->]. now apply Forall_app in Hd.
Qed.

Lemma ends_nl_app l : ends_nl (l ++ [10]) = true.
Proof. unfold ends_nl. rewrite rev_app_distr. reflexivity. Qed.

(* ---------- tables ---------- *)
Lemma nth_error_upd_same {A} (l : list A) n v : (n < length l)%nat -> nth_error (upd l n v) n = Some v.
Proof. apply nth_error_upd_eq. Qed.

Lemma t_set_ok {A} (t : table A) l i (a : A) :
  t_mem t = Some l -> 0 <= i < Z.of_nat (length l) ->
  t_set t i a = Ok (Build_table (Some (upd l (Z.to_nat i) (Some a))) (t_cnt t) (t_idx t)).
Proof.
  intros Hm Hi. unfold t_set. rewrite Hm.
  destruct (Z.ltb_spec i 0); [lia|]. destruct (Z.ltb_spec i (Z.of_nat (length l))); [|lia]. reflexivity.
Qed.

Lemma t_get_ok {A} (t : table A) l i (a : A) :
  t_mem t = Some l -> 0 <= i -> nth_error l (Z.to_nat i) = Some (Some a) -> t_get t i = Ok a.
Proof.
  intros Hm Hi Hn. unfold t_get. rewrite Hm. destruct (Z.ltb_spec i 0); [lia|]. now rewrite Hn.
Qed.

Lemma nth_error_app_repeat {A} (l : list (option A)) k i :
  (i < length l)%nat -> nth_error (l ++ repeat None k) i = nth_error l i.
Proof. intros. now apply nth_error_app1. Qed.

Lemma firstn_all2' {A} (l : list A) n : (length l <= n)%nat -> firstn n l = l.
Proof. apply firstn_all2. Qed.

Lemma zero_from_length {A} (z : A) l k : length (zero_from z l k) = length l.
Proof. revert k; induction l as [|x l IH]; intros [|k]; cbn [zero_from length]; auto. Qed.

Lemma zero_from_lt {A} (z : A) l k i : (i < k)%nat -> nth_error (zero_from z l k) i = nth_error l i.
Proof.
  revert k i; induction l as [|x l IH]; intros [|k] [|i] H; cbn [zero_from nth_error]; auto; try lia.
  apply IH. lia.
Qed.

Lemma zero_from_ge {A} (z : A) l k i : (k <= i)%nat -> (i < length l)%nat -> nth_error (zero_from z l k) i = Some (Some z).
Proof.
  revert k i; induction l as [|x l IH]; intros k i H1 H2; cbn [length] in *; [lia|].
  destruct k as [|k].
  - cbn [zero_from]. destruct i as [|i]; [reflexivity|]. cbn [nth_error]. apply (IH O i); lia.
  - destruct i as [|i]; [lia|]. cbn [zero_from nth_error]. apply IH; lia.
Qed.

(* storing arbitrary data as a string and reading it back: the C string is the part before the first NUL *)
Lemma put_str_data (b : buf) (d : list byte) :
  (length d < length b)%nat -> Forall is_byte d ->
  exists rest, put_str b d = Ok (cstr (cstr_of d) rest) /\ length (cstr (cstr_of d) rest) = length b.
Proof.
  intros Hl Hd. rewrite put_str_ok by assumption.
  destruct (bytes_term_cstr d (skipn (S (length d)) b)) as (rest & E & L).
  exists rest. split; [f_equal; exact E|]. rewrite <- L. rewrite app_length, bytes_length. cbn [length].
  rewrite skipn_length. lia.
Qed.
