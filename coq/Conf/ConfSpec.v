(* Specification of the config-file parser (property C09): what a tree of config files means,
   written over lists - no tables, no indices, no buffers, no streams.

   A file is its header line and its lines.  Parsing is a walk over a work list of items - the
   lines still to come, with an end-of-file marker after the lines of every file - carrying a
   stack of (context, state) pairs, innermost first:

     comment / blank / '<' lines           nothing
     begin NAME                            push (id of NAME, or 0 = "null" if unknown); the handler of the new
                                           context is called with Begin and the state of the enclosing entry,
                                           its result is the new entry's state
     end                                   (ignored on the bottom entry) the handler of the innermost context is
                                           called with End and its state; the entry is popped and the result
                                           becomes the state of the entry below
     %include F                            the items of F (its lines, then its end-of-file marker) are put in
                                           front of the work list; nothing if F cannot be opened as a config file
     % other                               expanded for its side effects on the variable store
     anything else                         whitespace removed at both ends, expanded, handed to the handler of
                                           the innermost context with that entry's state; the result replaces it

   `%preproc` is outside this property's grammar (OutOfGrammar).  Nesting beyond what the parser's
   8-bit indices can count is outside its quantifier (TooDeep). *)
From LV Require Export Conf.ConfModel.
Local Open Scope Z_scope.

Inductive action :=
| ASkip
| AInclude (t : str)         (* the trimmed line, still to be expanded *)
| APreproc (t : str)
| AExpand (t : str)
| ABegin (t : str)
| AEnd
| AText (t : str).

(* the idx-th word of a string as spiftool_get_word yields it (property C12 says what that is in terms
   of the quoting grammar); None = NULL *)
Definition gw (idx : Z) (s : str) : option str :=
  match get_word idx (cstr s []) with Ok r => r | Fault _ => None end.

(* what kind of line a buffer content is; `raw` is the text as read, newline included *)
Definition classify (raw : str) : action :=
  match raw with
  | [] => ASkip
  | c0 :: _ =>
    if (c0 =? 10) || (c0 =? 35) || (c0 =? 60) then ASkip           (* empty line, '#', '<' in column 0 *)
    else
      let t := trim_ws raw in
      match t with
      | [] => ASkip
      | c1 :: rest =>
        if c1 =? 35 then ASkip
        else if c1 =? 37 then                                          (* '%' *)
          match pword_spec 1 rest with
          | None => ASkip
          | Some off =>
            let word := skipn (Z.to_nat off) rest in
            if beg_ci s_include word then AInclude t
            else if beg_ci s_preproc word then APreproc t
            else AExpand t
          end
        else if (c1 =? 98) && beg_ci s_begin t then ABegin t
        else if ((c1 =? 98) || (c1 =? 101)) && (beg_ci s_end_sp t || ci_eq t s_end) then AEnd
        else AText t
      end
  end.

(* the raw lines of a file: every line followed by a newline, the last one only if the file ends in one
   (an empty last line without newline is no line at all) *)
Fixpoint raws (ls : list str) (nl : bool) : list str :=
  match ls with
  | [] => []
  | [l] => if nl then [l ++ [10]] else match l with [] => [] | _ => [l] end
  | l :: r => (l ++ [10]) :: raws r nl
  end.
Definition render (hdr : str) (ls : list str) (nl : bool) : list byte := concat (raws (hdr :: ls) nl).

Inductive item := ILine (raw : str) | IEof.
Definition items_of (ls : list str) (nl : bool) : list item := map ILine (raws ls nl) ++ [IEof].

Inductive sres (A : Type) := Done (a : A) | NoFuel | TooDeep | OutOfGrammar.
Arguments Done {A} a.
Arguments NoFuel {A}.
Arguments TooDeep {A}.
Arguments OutOfGrammar {A}.

Section Spec.
  Variable W : Type.
  Variable V : Type.
  Variable handler : Z -> harg -> Z -> W -> Z * W.
  Variable expand : str -> V -> str * V * list str.
  (* the config files by name: lines after the header, and whether the file ends in a newline;
     None: no such file, or not a config file *)
  Variable fsl : str -> option (list str * bool).

  Record sstate := {
    s_ctxs : list (str * hfun);        (* the registered contexts; position = context id, 0 = "null" *)
    s_stack : list (Z * Z);            (* (context id, state), innermost first; the last entry is the bottom *)
    s_vars : V;
    s_world : W
  }.

  (* id of a context name: the first registered name equal to it up to case; unknown names give 0 *)
  Fixpoint lookup (ctxs : list (str * hfun)) (name : str) (i : Z) : Z :=
    match ctxs with
    | [] => 0
    | (nm, _) :: r => if ci_eq name nm then i else lookup r name (i + 1)
    end.

  (* calling the handler of context id *)
  Definition scall (ctxs : list (str * hfun)) (w : W) (id : Z) (a : harg) (s : Z) : option (Z * W * list event) :=
    match nth_error ctxs (Z.to_nat id) with
    | Some (_, HParseNull) =>
      let s' := match a with HText _ => s | _ => 0 end in Some (s', w, [EvCall HParseNull a s s'])
    | Some (_, HUser k) => let '(s', w') := handler k a s w in Some (s', w', [EvCall (HUser k) a s s'])
    | _ => None
    end.

  Definition max_depth : Z := 255.
  Definition file_depth (items : list item) : Z :=
    Z.of_nat (length (filter (fun i => match i with IEof => true | _ => false end) items)).

  (* one line; `rest` is the work list behind it *)
  Definition sstep (s : sstate) (raw : str) (rest : list item) : sres (sstate * list item * list event) :=
    match classify raw with
    | ASkip => Done (s, rest, [])
    | AExpand t =>
      let '(_, v', cmds) := expand t (s_vars s) in
      Done ({| s_ctxs := s_ctxs s; s_stack := s_stack s; s_vars := v'; s_world := s_world s |}, rest, map EvSpawn cmds)
    | AInclude t =>
      let '(t', v', cmds) := expand t (s_vars s) in
      let s1 := {| s_ctxs := s_ctxs s; s_stack := s_stack s; s_vars := v'; s_world := s_world s |} in
      match gw 2 (skipn 1 t') with
      | None => Done (s1, rest, map EvSpawn cmds)
      | Some name =>
        match fsl name with
        | None => Done (s1, rest, map EvSpawn cmds)
        | Some (ls, nl) =>
          if file_depth rest >=? max_depth then TooDeep
          else Done (s1, items_of ls nl ++ rest, map EvSpawn cmds)
        end
      end
    | APreproc _ => OutOfGrammar
    | ABegin t =>
      match gw 2 t, s_stack s with
      | Some name, (_, st) :: _ =>
        if Z.of_nat (length (s_stack s)) >? max_depth then TooDeep
        else
          let id := lookup (s_ctxs s) name 0 in
          match scall (s_ctxs s) (s_world s) id HBegin st with
          | Some (st', w', ev) =>
            Done ({| s_ctxs := s_ctxs s; s_stack := (id, st') :: s_stack s; s_vars := s_vars s; s_world := w' |}, rest, ev)
          | None => OutOfGrammar
          end
      | _, _ => OutOfGrammar
      end
    | AEnd =>
      match s_stack s with
      | (id, st) :: (id2, _) :: below =>
        match scall (s_ctxs s) (s_world s) id HEnd st with
        | Some (st', w', ev) =>
          Done ({| s_ctxs := s_ctxs s; s_stack := (id2, st') :: below; s_vars := s_vars s; s_world := w' |}, rest, ev)
        | None => OutOfGrammar
        end
      | _ => Done (s, rest, [])                                       (* surplus end: ignored *)
      end
    | AText t =>
      let '(t', v', cmds) := expand t (s_vars s) in
      match s_stack s with
      | (id, st) :: below =>
        match scall (s_ctxs s) (s_world s) id (HText t') st with
        | Some (st', w', ev) =>
          Done ({| s_ctxs := s_ctxs s; s_stack := (id, st') :: below; s_vars := v'; s_world := w' |}, rest,
                map EvSpawn cmds ++ ev)
        | None => OutOfGrammar
        end
      | [] => OutOfGrammar
      end
    end.

  (* the walk; one item per unit of fuel *)
  Fixpoint srun (fuel : nat) (s : sstate) (items : list item) (acc : list event) : sres (sstate * list event) :=
    match fuel with
    | O => NoFuel
    | S fuel' =>
      match items with
      | [] => Done (s, acc)
      | IEof :: rest => srun fuel' s rest acc
      | ILine raw :: rest =>
        match sstep s raw rest with
        | Done (s', items', ev) => srun fuel' s' items' (acc ++ ev)
        | NoFuel => NoFuel
        | TooDeep => TooDeep
        | OutOfGrammar => OutOfGrammar
        end
      end
    end.

  (* parsing the file `name`: None when it cannot be opened as a config file *)
  Definition sparse (fuel : nat) (s : sstate) (name : str) : sres (sstate * list event * bool) :=
    match fsl name with
    | None => Done (s, [], false)
    | Some (ls, nl) =>
      match srun fuel s (items_of ls nl) [] with
      | Done (s', ev) => Done (s', ev, true)
      | NoFuel => NoFuel
      | TooDeep => TooDeep
      | OutOfGrammar => OutOfGrammar
      end
    end.

  (* registering a context: "null" (any case) replaces entry 0, any other name is appended *)
  Definition sregister (ctxs : list (str * hfun)) (name : str) (h : Z) : list (str * hfun) * Z :=
    if ci_eq name s_null then
      match ctxs with
      | _ :: r => ((name, HUser h) :: r, 0)
      | [] => ([(name, HUser h)], 0)
      end
    else (ctxs ++ [(name, HUser h)], Z.of_nat (length ctxs)).
End Spec.
