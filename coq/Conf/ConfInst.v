(* The instance of the Conf model that the correspondence check runs: handlers that return a
   fresh token, the restricted expansion `expand_simple`, a file system given as an association
   list, a preprocessor whose output is empty (the harness intercepts system()). *)
From LV Require Import Conf.ConfModel.
Local Open Scope Z_scope.

Definition afs := list (str * list byte).
Fixpoint afs_lookup (l : afs) (n : str) : option (list byte) :=
  match l with
  | [] => None
  | (k, v) :: r => if list_eqb k n then Some v else afs_lookup r n
  end.

Definition iconf := conf vstore.
Definition iconf0 : iconf := conf0 vstore [].
Definition ipreproc (tmp_ok : bool) (cmd : str) : option (list byte) := if tmp_ok then Some [] else None.

Definition istep (files : afs) (tmp_ok : bool) (prog : str) (cw : iconf * Z) (o : op) : res (iconf * Z * opres) :=
  step Z vstore [] fresh_handler expand_simple (ipreproc tmp_ok) (afs_lookup files) prog cw o.

Definition ifind (flen : Z) (dlen : option Z) (comps : list (Z * bool)) : res (option ff_out) :=
  find_file flen dlen comps (fun _ => false).

Definition irun (files : afs) (tmp_ok : bool) (prog : list byte) (ops : list op) : res (iconf * Z * list opres) :=
  run Z vstore [] fresh_handler expand_simple (ipreproc tmp_ok) (afs_lookup files) prog (iconf0, 0) ops.
