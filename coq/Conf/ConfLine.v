(* spifconf_parse_line on a buffer holding the C string `raw` does what the classification of
   `raw` says: the cell-level model (first-character test, chomp in place, switch on the first
   character, strncasecmp on words found by get_pword, get_word, strcpy of the expansion back into
   the buffer) equals the string-level function pl_str. *)
From LV Require Import Base.Buf Strings.HelpersModel Strings.HelpersProofs Strings.HelpersProofs2.
From LV Require Import Split.SplitModel Split.SplitProofs Split.SplitFrame.
From LV Require Import Conf.ConfModel Conf.ConfSpec Conf.ConfLemmas Conf.ConfTables.
Local Open Scope Z_scope.

(* spiftool_get_word on a C string in any buffer is a function of the string *)
Lemma get_word_gw idx (s : str) rest : Forall nz_byte s -> get_word idx (cstr s rest) = Ok (gw idx s).
Proof.
  intros Hs. rewrite (get_word_frame s rest idx Hs). unfold gw.
  destruct (get_word_total s [] idx Hs) as (r & ->). reflexivity.
Qed.

Lemma firstn_cstr_exact (s : list Z) rest : firstn (S (length s)) (cstr s rest) = cstr s [].
Proof.
  unfold cstr. rewrite firstn_app, bytes_length. replace (S (length s) - length s)%nat with 1%nat by lia.
  rewrite firstn_all2 by (rewrite bytes_length; lia). reflexivity.
Qed.

Lemma get_word_line_gw idx (s : list Z) rest : Forall nz_byte s -> get_word_line idx (cstr s rest) = Ok (gw idx s).
Proof.
  intros Hs. unfold get_word_line. rewrite (strlen_cstr s rest Hs). cbn [bind].
  rewrite firstn_cstr_exact. now apply get_word_gw.
Qed.

Lemma get_pword_line_exact idx (s : list Z) rest : Forall nz_byte s -> get_pword_line idx (cstr s rest) = Ok (pword_spec idx s).
Proof.
  intros Hs. unfold get_pword_line. rewrite (strlen_cstr s rest Hs). cbn [bind].
  rewrite firstn_cstr_exact. now apply get_pword_exact.
Qed.

Lemma ws_starts_ge inw off (s : str) o : In o (ws_starts inw off s) -> off <= o.
Proof.
  revert inw off; induction s as [|c s IH]; intros inw off H; cbn [ws_starts] in H; [contradiction|].
  destruct (isspace c).
  - apply IH in H. lia.
  - destruct inw.
    + apply IH in H. lia.
    + destruct H as [<-|H]; [lia|]. apply IH in H. lia.
Qed.

Lemma pword_spec_bound idx (s : str) o : pword_spec idx s = Some o -> 0 <= o < Z.of_nat (length s).
Proof.
  unfold pword_spec.
  destruct (nth_error (ws_starts false 0 s) (Z.to_nat (Z.max idx 1 - 1))) as [o0|] eqn:E; [|discriminate].
  apply nth_error_In, ws_starts_ge in E.
  destruct (is_q (nth (Z.to_nat o0) s 0)).
  - destruct (Z.ltb_spec (o0 + 1) (Z.of_nat (length s))); [|discriminate]. intros [= <-]; lia.
  - destruct (Z.ltb_spec o0 (Z.of_nat (length s))); [|discriminate]. intros [= <-]; lia.
Qed.

Lemma trim_ws_nz (s : str) : Forall nz_byte s -> Forall nz_byte (trim_ws s).
Proof.
  intros H. unfold trim_ws.
  assert (D : forall l : str, Forall nz_byte l -> Forall nz_byte (dropwhile isspace l)).
  { induction l as [|c l IH]; intros Hl; cbn [dropwhile]; [constructor|].
    destruct (isspace c); [apply IH; now inversion Hl|assumption]. }
  apply Forall_rev, D, Forall_rev, D, H.
Qed.

Lemma dropwhile_length {A} (f : A -> bool) l : (length (dropwhile f l) <= length l)%nat.
Proof. induction l as [|x l IH]; cbn [dropwhile length]; [lia|]. destruct (f x); cbn [length]; lia. Qed.

Lemma trim_ws_length (s : str) : (length (trim_ws s) <= length s)%nat.
Proof.
  unfold trim_ws. rewrite rev_length.
  etransitivity; [apply dropwhile_length|]. rewrite rev_length. apply dropwhile_length.
Qed.

Lemma Forall_skipn {A} (P : A -> Prop) (l : list A) n : Forall P l -> Forall P (skipn n l).
Proof.
  revert l; induction n as [|n IH]; intros [|x l] H; cbn [skipn]; auto. apply IH. now inversion H.
Qed.

Section Line.
  Variable W : Type.
  Variable V : Type.
  Variable vnull : V.
  Variable handler : Z -> harg -> Z -> W -> Z * W.
  Variable expand : str -> V -> str * V * list str.
  Variable preproc_out : str -> option (list byte).
  Variable fs : str -> option (list byte).
  Variable progname : str.

  Notation conf := (conf V).
  Notation parse_line := (parse_line W V handler expand preproc_out fs progname).
  Notation open_file := (open_file fs progname).
  Notation call := (call W V handler).
  Notation ctx_begin := (ctx_begin W V handler).
  Notation ctx_end := (ctx_end W V handler).

  (* what the expansion may be assumed to do (property C10): the result is a C string that fits
     the line buffer, and the text of a %include line does not vanish *)
  Definition expand_fits : Prop :=
    forall t v, Forall nz_byte t -> Z.of_nat (length t) < config_buff ->
      Forall nz_byte (fst (fst (expand t v))) /\ Z.of_nat (length (fst (fst (expand t v)))) < config_buff.
  Definition expand_keeps_include : Prop :=
    forall raw t v, classify raw = AInclude t -> fst (fst (expand t v)) <> [].

  Definition preproc_cmd (t : str) (f : fst_t) : str :=
    (match pword_spec 2 t with Some o => skipn (Z.to_nat o) t | None => [40; 110; 117; 108; 108; 41] end)
      ++ [32; 60; 32] ++ match f_path f with Some p => p | None => [] end ++ [32; 62; 32].

  Definition pl_str (c : conf) (w : W) (raw : str) : res (conf * W * list event) :=
    match classify raw with
    | ASkip => Ok (c, w, [])
    | AExpand t => let '(_, v', cmds) := expand t (vars V c) in Ok (with_vars V c v', w, map EvSpawn cmds)
    | AInclude t =>
      let '(t', v', cmds) := expand t (vars V c) in
      let c2 := with_vars V c v' in
      let path := gw 2 (skipn 1 t') in
      fp <- open_file path ;;
      match fp with
      | None => Ok (c2, w, map EvSpawn cmds)
      | Some st =>
        c3 <- register_fstate V (add_open V (add_live V c2 1) 1)
                {| f_fp := Some st; f_path := path; f_outfile := None; f_line := 1;
                   f_skip := false; f_preproc := false; f_owned := true |} ;;
        Ok (c3, w, map EvSpawn cmds)
      end
    | APreproc t =>
      f <- fpeek V c ;;
      if f_preproc f then Ok (c, w, [])
      else
        let cmd := preproc_cmd t f in
        match preproc_out cmd with
        | Some out =>
          c2 <- fpoke V c {| f_fp := Some {| sdata := out; seof := false |}; f_path := f_path f;
                             f_outfile := Some s_preproc_tmpl; f_line := f_line f;
                             f_skip := f_skip f; f_preproc := true; f_owned := f_owned f |} ;;
          Ok (add_live V c2 1, w, [EvSpawn cmd])
        | None => Ok (c, w, [EvSpawn cmd])
        end
    | ABegin t =>
      match gw 2 t with
      | None => Fault Null_deref
      | Some nm => ctx_begin c w nm
      end
    | AEnd => top <- cpeek V c ;; ctx_end c w (cs_id top)
    | AText t =>
      top <- cpeek V c ;;
      let '(t', v', cmds) := expand t (vars V c) in
      let c2 := with_vars V c v' in
      top2 <- cpeek V c2 ;;
      '(s', w', ev2) <- call c2 w (cs_id top) (HText t') (cs_state top2) ;;
      c3 <- cpoke_state V c2 s' ;;
      Ok (c3, w', map EvSpawn cmds ++ ev2)
    end.

  Hypothesis Hexp : expand_fits.
  Hypothesis Hinc : expand_keeps_include.

  Lemma do_expand_cstr (c : conf) (t : str) rest :
    Forall nz_byte t -> Z.of_nat (length (cstr t rest)) = config_buff ->
    exists rest',
      do_expand V expand c (cstr t rest) =
        Ok (with_vars V c (snd (fst (expand t (vars V c)))), cstr (fst (fst (expand t (vars V c)))) rest',
            map EvSpawn (snd (expand t (vars V c)))) /\
      Z.of_nat (length (cstr (fst (fst (expand t (vars V c)))) rest')) = config_buff.
  Proof.
    intros Ht Hl. unfold do_expand. rewrite (cstring_cstr t rest Ht). cbn [bind].
    destruct (Hexp t (vars V c) Ht ltac:(rewrite cstr_length in Hl; lia)) as [Hn Hf].
    destruct (expand t (vars V c)) as [[t' v'] cmds]. cbn [fst snd] in *.
    rewrite put_str_cstr by (auto; lia). cbn [bind].
    eexists. split; [reflexivity|]. rewrite cstr_length, skipn_length. rewrite cstr_length in *. lia.
  Qed.

  Theorem parse_line_str (c : conf) (w : W) (raw : str) rest top f :
    Forall nz_byte raw -> Z.of_nat (length (cstr raw rest)) = config_buff ->
    cpeek V c = Ok top -> fpeek V c = Ok f -> f_skip f = false ->
    match pl_str c w raw with
    | Ok (c', w', ev) =>
      exists b', parse_line c w (cstr raw rest) = Ok (c', w', b', ev) /\ Z.of_nat (length b') = config_buff
    | Fault x => parse_line c w (cstr raw rest) = Fault x
    end.
  Proof.
    intros Hraw Hlen Htop Hf Hskip.
    unfold pl_str, classify, parse_line. rewrite rdn0_cstr.
    destruct raw as [|c0 raw0]; cbn [bind].
    { cbn [Z.eqb orb]. eexists; split; [reflexivity|assumption]. }
    destruct ((c0 =? 10) || (c0 =? 35) || (c0 =? 60)) eqn:E0.
    { assert (Hc0 : nz_byte c0) by now inversion Hraw.
      rewrite (nz_byte_neq0 c0 Hc0). cbn [orb]. rewrite E0.
      eexists; split; [reflexivity|assumption]. }
    assert (Hc0 : nz_byte c0) by now inversion Hraw.
    rewrite (nz_byte_neq0 c0 Hc0). cbn [orb]. rewrite E0.
    rewrite Htop. cbn [bind].
    assert (Hchomp : exists junk, length junk = (length (c0 :: raw0) - length (trim_ws (c0 :: raw0)))%nat /\
                      chomp_line (cstr (c0 :: raw0) rest) = Ok (cstr (trim_ws (c0 :: raw0)) (junk ++ rest))).
    { destruct (chomp_exact (c0 :: raw0) [] Hraw) as (junk & Hj & Hc). exists junk. split; [exact Hj|].
      unfold chomp_line. rewrite (strlen_cstr _ rest Hraw). cbn [bind].
      assert (Hfi : firstn (S (length (c0 :: raw0))) (cstr (c0 :: raw0) rest) = cstr (c0 :: raw0) []).
      { unfold cstr. rewrite firstn_app, bytes_length.
        replace (S (length (c0 :: raw0)) - length (c0 :: raw0))%nat with 1%nat by lia.
        rewrite firstn_all2 by (rewrite bytes_length; lia). reflexivity. }
      assert (Hsk : skipn (S (length (c0 :: raw0))) (cstr (c0 :: raw0) rest) = rest).
      { unfold cstr. rewrite skipn_app, bytes_length.
        replace (S (length (c0 :: raw0)) - length (c0 :: raw0))%nat with 1%nat by lia.
        rewrite skipn_all2 by (rewrite bytes_length; lia). reflexivity. }
      rewrite Hfi, Hsk, Hc. cbn [bind]. unfold cstr. rewrite <- !app_assoc. cbn [app]. rewrite app_nil_r. reflexivity. }
    destruct Hchomp as (junk & Hj & ->). cbn [bind].
    set (t := trim_ws (c0 :: raw0)) in *.
    assert (Ht : Forall nz_byte t) by (apply trim_ws_nz; assumption).
    assert (Hlt : (length t <= length (c0 :: raw0))%nat) by apply trim_ws_length.
    assert (Hl1 : Z.of_nat (length (cstr t (junk ++ rest))) = config_buff).
    { rewrite cstr_length, app_length. rewrite cstr_length in Hlen. lia. }
    set (rest1 := junk ++ rest) in *.
    rewrite rdn0_cstr. cbn [bind].
    destruct t as [|c1 t0] eqn:Et.
    { cbn [Z.eqb orb]. eexists; split; [reflexivity|assumption]. }
    assert (Hc1 : nz_byte c1) by now inversion Ht.
    assert (Ht0 : Forall nz_byte t0) by now inversion Ht.
    rewrite (nz_byte_neq0 c1 Hc1), orb_false_r.
    destruct (Z.eqb_spec c1 35) as [E35|E35].
    { eexists; split; [reflexivity|assumption]. }
    rewrite Hf. cbn [bind]. rewrite ?Hskip.
    destruct (Z.eqb_spec c1 37) as [E37|E37].
    { (* '%' *)
      assert (Hsk1 : skipn 1 (cstr (c1 :: t0) rest1) = cstr t0 rest1) by reflexivity.
      rewrite Hsk1, (get_pword_line_exact 1 t0 rest1 Ht0). cbn [bind].
      destruct (pword_spec 1 t0) as [off|] eqn:Epw.
      2:{ eexists; split; [reflexivity|assumption]. }
      pose proof (pword_spec_bound _ _ _ Epw) as Hoff.
      assert (Hsk2 : skipn (1 + Z.to_nat off) (cstr (c1 :: t0) rest1) = cstr (skipn (Z.to_nat off) t0) rest1).
      { change (1 + Z.to_nat off)%nat with (S (Z.to_nat off)). cbn [skipn cstr bytes map app].
        apply (skipn_cstr t0 rest1). lia. }
      rewrite Hsk2, cstring_cstr by (apply Forall_skipn; assumption). cbn [bind].
      destruct (beg_ci s_include (skipn (Z.to_nat off) t0)) eqn:Einc.
      { (* %include *)
        destruct (do_expand_cstr c (c1 :: t0) rest1 Ht Hl1) as (rest2 & -> & Hl2). cbn [bind].
        assert (Hne : fst (fst (expand (c1 :: t0) (vars V c))) <> []).
        { apply (Hinc (c0 :: raw0) (c1 :: t0)). unfold classify. rewrite E0. fold t. rewrite Et.
          destruct (Z.eqb_spec c1 35); [contradiction|]. destruct (Z.eqb_spec c1 37); [|contradiction].
          rewrite Epw, Einc. reflexivity. }
        destruct (Hexp (c1 :: t0) (vars V c) Ht ltac:(rewrite cstr_length in Hl1; lia)) as [Hn _].
        destruct (expand (c1 :: t0) (vars V c)) as [[t' v'] cmds]. cbn [fst snd] in *.
        destruct t' as [|x t'']; [contradiction|].
        assert (Hsk3 : skipn 1 (cstr (x :: t'') rest2) = cstr t'' rest2) by reflexivity.
        rewrite Hsk3, get_word_line_gw by now inversion Hn. cbn [bind skipn].
        destruct (open_file (gw 2 t'')) as [[st|]|x0]; cbn [bind].
        - destruct (register_fstate V _ _) as [c3|x0]; cbn [bind]; [|reflexivity].
          eexists; split; [reflexivity|assumption].
        - eexists; split; [reflexivity|assumption].
        - reflexivity. }
      destruct (beg_ci s_preproc (skipn (Z.to_nat off) t0)) eqn:Epre.
      { (* %preproc *)
        destruct (f_preproc f). { eexists; split; [reflexivity|assumption]. }
        rewrite (get_pword_line_exact 2 (c1 :: t0) rest1 Ht). cbn [bind].
        unfold preproc_cmd.
        destruct (pword_spec 2 (c1 :: t0)) as [o2|] eqn:Epw2.
        - pose proof (pword_spec_bound _ _ _ Epw2) as Ho2.
          rewrite skipn_cstr, cstring_cstr by (try apply Forall_skipn; auto; lia). cbn [bind].
          destruct (preproc_out _) as [out|].
          + destruct (fpoke V c _) as [c2|x0]; cbn [bind]; [|reflexivity].
            eexists; split; [reflexivity|assumption].
          + eexists; split; [reflexivity|assumption].
        - cbn [bind]. destruct (preproc_out _) as [out|].
          + destruct (fpoke V c _) as [c2|x0]; cbn [bind]; [|reflexivity].
            eexists; split; [reflexivity|assumption].
          + eexists; split; [reflexivity|assumption]. }
      (* % other *)
      destruct (do_expand_cstr c (c1 :: t0) rest1 Ht Hl1) as (rest2 & -> & Hl2). cbn [bind].
      destruct (expand (c1 :: t0) (vars V c)) as [[t' v'] cmds]. cbn [fst snd] in *.
      eexists; split; [reflexivity|assumption]. }
    (* the text / begin / end part; first the two local functions *)
    assert (Htext :
      match (let '(t', v', cmds) := expand (c1 :: t0) (vars V c) in
             let c2 := with_vars V c v' in
             top2 <- cpeek V c2 ;;
             '(s', w', ev2) <- call c2 w (cs_id top) (HText t') (cs_state top2) ;;
             c3 <- cpoke_state V c2 s' ;;
             Ok (c3, w', map EvSpawn cmds ++ ev2)) with
      | Ok (c', w', ev) =>
        exists b', ('(c2, b2, ev) <- do_expand V expand c (cstr (c1 :: t0) rest1) ;;
                         s <- cstring b2 ;;
                         top2 <- cpeek V c2 ;;
                         '(s', w', ev2) <- call c2 w (cs_id top) (HText s) (cs_state top2) ;;
                         c3 <- cpoke_state V c2 s' ;;
                         Ok (c3, w', b2, ev ++ ev2)) = Ok (c', w', b', ev) /\ Z.of_nat (length b') = config_buff
      | Fault x => ('(c2, b2, ev) <- do_expand V expand c (cstr (c1 :: t0) rest1) ;;
                         s <- cstring b2 ;;
                         top2 <- cpeek V c2 ;;
                         '(s', w', ev2) <- call c2 w (cs_id top) (HText s) (cs_state top2) ;;
                         c3 <- cpoke_state V c2 s' ;;
                         Ok (c3, w', b2, ev ++ ev2)) = Fault x
      end).
    { destruct (do_expand_cstr c (c1 :: t0) rest1 Ht Hl1) as (rest2 & -> & Hl2). cbn [bind].
      destruct (Hexp (c1 :: t0) (vars V c) Ht ltac:(rewrite cstr_length in Hl1; lia)) as [Hn _].
      destruct (expand (c1 :: t0) (vars V c)) as [[t' v'] cmds]. cbn [fst snd] in *.
      rewrite (cstring_cstr t' rest2 Hn). cbn [bind].
      destruct (cpeek V (with_vars V c v')) as [top2|x0]; cbn [bind]; [|reflexivity].
      destruct (call _ w (cs_id top) (HText t') (cs_state top2)) as [[[s' w'] ev2]|x0]; cbn [bind]; [|reflexivity].
      destruct (cpoke_state V _ s') as [c3|x0]; cbn [bind]; [|reflexivity].
      eexists; split; [reflexivity|assumption]. }
    assert (Hend : forall (isend : bool),
      isend = beg_ci s_end_sp (c1 :: t0) || ci_eq (c1 :: t0) s_end ->
      match (if isend then ctx_end c w (cs_id top)
             else (let '(t', v', cmds) := expand (c1 :: t0) (vars V c) in
                   let c2 := with_vars V c v' in
                   top2 <- cpeek V c2 ;;
                   '(s', w', ev2) <- call c2 w (cs_id top) (HText t') (cs_state top2) ;;
                   c3 <- cpoke_state V c2 s' ;;
                   Ok (c3, w', map EvSpawn cmds ++ ev2))) with
      | Ok (c', w', ev) =>
        exists b', (s <- cstring (cstr (c1 :: t0) rest1) ;;
                    if beg_ci s_end_sp s || ci_eq s s_end
                    then '(c2, w', ev) <- ctx_end c w (cs_id top) ;; Ok (c2, w', cstr (c1 :: t0) rest1, ev)
                    else ('(c2, b2, ev) <- do_expand V expand c (cstr (c1 :: t0) rest1) ;;
                               s <- cstring b2 ;;
                               top2 <- cpeek V c2 ;;
                               '(s', w', ev2) <- call c2 w (cs_id top) (HText s) (cs_state top2) ;;
                               c3 <- cpoke_state V c2 s' ;;
                               Ok (c3, w', b2, ev ++ ev2))) = Ok (c', w', b', ev) /\ Z.of_nat (length b') = config_buff
      | Fault x => (s <- cstring (cstr (c1 :: t0) rest1) ;;
                    if beg_ci s_end_sp s || ci_eq s s_end
                    then '(c2, w', ev) <- ctx_end c w (cs_id top) ;; Ok (c2, w', cstr (c1 :: t0) rest1, ev)
                    else ('(c2, b2, ev) <- do_expand V expand c (cstr (c1 :: t0) rest1) ;;
                               s <- cstring b2 ;;
                               top2 <- cpeek V c2 ;;
                               '(s', w', ev2) <- call c2 w (cs_id top) (HText s) (cs_state top2) ;;
                               c3 <- cpoke_state V c2 s' ;;
                               Ok (c3, w', b2, ev ++ ev2))) = Fault x
      end).
    { intros isend ->. rewrite (cstring_cstr (c1 :: t0) rest1 Ht). cbn [bind].
      destruct (beg_ci s_end_sp (c1 :: t0) || ci_eq (c1 :: t0) s_end).
      - destruct (ctx_end c w (cs_id top)) as [[[c2 w'] ev]|x0]; cbn [bind]; [|reflexivity].
        eexists; split; [reflexivity|assumption].
      - exact Htext. }
    destruct (Z.eqb_spec c1 98) as [E98|E98].
    { (* 'b' *)
      rewrite (cstring_cstr (c1 :: t0) rest1 Ht). cbn [bind andb].
      destruct (beg_ci s_begin (c1 :: t0)) eqn:Ebeg.
      - rewrite (get_word_line_gw 2 (c1 :: t0) rest1 Ht). cbn [bind].
        destruct (gw 2 (c1 :: t0)) as [nm|]; [|reflexivity].
        destruct (ctx_begin c w nm) as [[[c2 w'] ev]|x0]; cbn [bind]; [|reflexivity].
        eexists; split; [reflexivity|assumption].
      - cbn [orb andb].
        pose proof (Hend _ eq_refl) as HE. clear Hend.
        rewrite (cstring_cstr (c1 :: t0) rest1 Ht) in HE. cbn [bind] in HE. revert HE.
        destruct (beg_ci s_end_sp (c1 :: t0) || ci_eq (c1 :: t0) s_end); intros HE; exact HE. }
    cbn [andb orb].
    destruct (Z.eqb_spec c1 101) as [E101|E101].
    { cbn [andb].
      pose proof (Hend _ eq_refl) as HE. clear Hend. revert HE.
      destruct (beg_ci s_end_sp (c1 :: t0) || ci_eq (c1 :: t0) s_end); intros HE; exact HE. }
    cbn [andb]. exact Htext.
  Qed.
End Line.
