(* spifconf_find_file over lengths (property C11): every write into name[PATH_MAX] and
   full_path[PATH_MAX] is in bounds for all lengths of file, dir and path components - including
   lengths beyond PATH_MAX and component lengths that the `short n` truncates. *)
From LV Require Import Base.Buf Conf.ConfModel.
Local Open Scope Z_scope.

Lemma s32_small x : -2147483648 <= x < 2147483648 -> s32 x = x.
Proof. intros H. unfold s32. rewrite Z.mod_small by lia. lia. Qed.

Lemma s32_big x : 2147483648 <= x <= 4294967296 -> s32 x = x - 4294967296.
Proof.
  intros H. unfold s32. destruct (Z.eq_dec x 4294967296) as [->|Hne]; [reflexivity|].
  replace (x + 2147483648) with ((x - 2147483648) + 1 * 4294967296) by lia.
  rewrite Z.mod_add by lia. rewrite Z.mod_small by lia. lia.
Qed.

Lemma s16_small x : -32768 <= x < 32768 -> s16 x = x.
Proof. intros H. unfold s16. rewrite Z.mod_small by lia. lia. Qed.

Lemma s16_le x : 0 <= x -> s16 x <= x.
Proof. intros H. unfold s16. pose proof (Z.mod_le (x + 32768) 65536 ltac:(lia) ltac:(lia)). lia. Qed.

Lemma path_max_range : 255 <= conf_path_max < 32767.
Proof. unfold conf_path_max. lia. Qed.

Lemma ff_write_ok hi : hi < conf_path_max -> ff_write hi = Ok hi.
Proof. intros H. unfold ff_write. destruct (Z.ltb_spec hi conf_path_max); [reflexivity|lia]. Qed.

Lemma ff_walk_ok : forall comps probe k len maxpathlen full_hi,
  Forall (fun c => 0 <= fst c) comps ->
  0 <= len -> 0 < maxpathlen -> maxpathlen + len + 2 <= conf_path_max -> full_hi < conf_path_max ->
  exists fh r, ff_walk comps probe k len maxpathlen full_hi = Ok (fh, r) /\ fh < conf_path_max.
Proof.
  pose proof path_max_range as HP.
  induction comps as [|[cl slash] rest IH]; intros probe k len mpl fh Hc Hlen Hm Hsum Hfh; cbn [ff_walk].
  - eauto.
  - inversion Hc as [|? ? Hcl Hrest]; subst. cbn [fst] in Hcl.
    destruct ((0 <? s16 cl) && (s16 cl <=? mpl)) eqn:E; [|apply IH; auto].
    apply andb_true_iff in E as [E1 E2]. apply Z.ltb_lt in E1. apply Z.leb_le in E2.
    pose proof (s16_le cl Hcl) as Hle. destruct (Z.gtb_spec (s16 cl) cl); [lia|].
    rewrite ff_write_ok by lia. cbn [bind].
    assert (Hn1 : s16 (s16 cl + 1) = s16 cl + 1) by (apply s16_small; lia).
    destruct slash.
    + cbn [bind]. rewrite !ff_write_ok by lia. cbn [bind].
      destruct (probe k); [do 2 eexists; split; [reflexivity|lia]|]. apply IH; auto; lia.
    + rewrite Hn1. rewrite !ff_write_ok by lia. cbn [bind].
      destruct (probe k); [do 2 eexists; split; [reflexivity|lia]|]. apply IH; auto; lia.
Qed.

(* string lengths below 2^31 (they are objects in memory); component lengths are arbitrary *)
Theorem find_file_in_bounds : forall flen dlen comps probe,
  0 <= flen < 2147483648 ->
  (match dlen with Some d => 0 <= d < 2147483648 | None => True end) ->
  Forall (fun c => 0 <= fst c) comps ->
  exists r, find_file flen dlen comps probe = Ok r /\
            match r with
            | Some o => ff_name_hi o < conf_path_max /\ ff_full_hi o < conf_path_max
            | None => True
            end.
Proof.
  intros flen dlen comps probe Hf Hd Hc. pose proof path_max_range as HP. unfold find_file.
  set (x := flen + match dlen with Some d => d | None => 0 end + 2).
  assert (Hx : 2 <= x <= 4294967296) by (unfold x; destruct dlen; lia).
  destruct (Z_lt_le_dec x 2147483648) as [Hsmall|Hbig].
  - rewrite (s32_small x) by lia.
    destruct ((x >? conf_path_max) || (x <=? 0)) eqn:E; [exists None; split; [reflexivity|exact I]|].
    apply orb_false_iff in E as [E1 E2]. rewrite Z.gtb_ltb in E1. apply Z.ltb_ge in E1. apply Z.leb_gt in E2.
    set (nlen := match dlen with Some d => d + 1 + flen | None => flen end).
    assert (Hn : 0 <= nlen <= x - 1) by (unfold nlen, x; destruct dlen; lia).
    rewrite ff_write_ok by lia. cbn [bind].
    destruct (probe O); [eexists; split; [reflexivity|]; cbn; lia|].
    rewrite (s32_small (conf_path_max - nlen - 2)) by lia.
    destruct (Z.leb_spec (conf_path_max - nlen - 2) 0); [exists None; split; [reflexivity|exact I]|].
    destruct (ff_walk_ok comps probe 1 nlen (conf_path_max - nlen - 2) (-1) Hc ltac:(lia) ltac:(lia) ltac:(lia) ltac:(lia))
      as (fh & r & -> & Hfh).
    cbn [bind]. eexists. split; [reflexivity|]. cbn. lia.
  - rewrite (s32_big x) by lia.
    destruct (Z.gtb_spec (x - 4294967296) conf_path_max); [lia|].
    destruct (Z.leb_spec (x - 4294967296) 0); [|lia]. cbn [orb].
    exists None. split; [reflexivity|exact I].
Qed.
