(* The parser model refines the specification (property C09): on every tree of well-formed config
   files, with nesting within what the 8-bit indices can count, spifconf_parse produces exactly the
   trace of handler calls the specification defines, returns with every file it opened closed and
   the file stack empty, and leaves the context stack as the specification's stack. *)
From LV Require Import Base.Buf Strings.HelpersModel Strings.HelpersProofs Strings.HelpersProofs2.
From LV Require Import Conf.ConfModel Conf.ConfSpec Conf.ConfLemmas Conf.ConfTables Conf.ConfLine Conf.ConfWords Conf.ConfSafe Conf.ConfLife.
Local Open Scope Z_scope.

(* ---------- well-formed lines and files ---------- *)
Definition wf_line (l : str) : Prop := Forall nz_byte l /\ no_nl l /\ Z.of_nat (length l) + 1 < config_buff.

(* the raw lines still to be read from a file: each a well-formed line and its newline; the last one
   may lack the newline (and is then not empty) *)
Fixpoint wf_raws (rs : list str) : Prop :=
  match rs with
  | [] => True
  | r :: rest => (exists l, wf_line l /\ (r = l ++ [10] \/ (r = l /\ l <> [] /\ rest = []))) /\ wf_raws rest
  end.

Lemma raws_wf (ls : list str) nl : Forall wf_line ls -> wf_raws (raws ls nl).
Proof.
  induction ls as [|l ls IH]; intros H; [exact I|]. inversion H as [|? ? Hl Hls]; subst.
  cbn [raws]. destruct ls as [|l2 ls].
  - destruct nl; [split; [exists l; auto|exact I]|]. destruct l as [|c l]; [exact I|].
    split; [|exact I]. exists (c :: l). split; [assumption|right; repeat split; discriminate].
  - split; [exists l; auto|]. apply IH. assumption.
Qed.

Lemma wf_raw_nz r rest : wf_raws (r :: rest) -> Forall nz_byte r /\ r <> [] /\ Z.of_nat (length r) < config_buff.
Proof.
  intros ((l & (Hn & Hl & Hb) & [->|(-> & Hne & _)]) & _).
  - split; [apply Forall_app; split; [assumption|repeat constructor; unfold nz_byte; lia]|].
    split; [destruct l; discriminate|]. rewrite app_length. cbn [length]. lia.
  - split; [assumption|]. split; [assumption|lia].
Qed.

Lemma no_nl_ends (l : str) : no_nl l -> ends_nl l = false.
Proof.
  intros H. unfold ends_nl. destruct (rev l) as [|c r] eqn:E; [reflexivity|].
  assert (Hin : In c l) by (apply in_rev; rewrite E; left; reflexivity).
  unfold no_nl in H. rewrite Forall_forall in H. specialize (H c Hin). now apply Z.eqb_neq.
Qed.

Lemma no_nl_has (l : str) : no_nl l -> has_byte 10 l = false.
Proof.
  unfold has_byte. induction l as [|c l IH]; intros H; [reflexivity|]. inversion H; subst. cbn [existsb].
  rewrite IH by assumption. destruct (Z.eqb_spec 10 c); [congruence|reflexivity].
Qed.

Lemma has_byte_app c (a b : str) : has_byte c (a ++ b) = has_byte c a || has_byte c b.
Proof. apply existsb_app. Qed.

(* fgets on the remaining data of a well-formed file returns exactly the next raw line; the
   over-long test of the reading loop is false for it *)
Lemma fgets_raw r rest e :
  wf_raws (r :: rest) ->
  exists e', fgets config_buff {| sdata := concat (r :: rest); seof := e |} = (Some r, {| sdata := concat rest; seof := e' |}) /\
             (negb (has_byte 10 r) && negb e' = false).
Proof.
  intros ((l & (Hn & Hl & Hb) & Hr) & Hrest). unfold fgets. cbn [sdata concat].
  destruct Hr as [->|(-> & Hne & ->)].
  - rewrite <- app_assoc. cbn [app].
    destruct (l ++ 10 :: concat rest) as [|d0 d] eqn:Ed; [destruct l; discriminate|]. rewrite <- Ed.
    rewrite take_line_nl by (auto; lia).
    exists e. split.
    + f_equal. f_equal. destruct (concat rest); [rewrite ends_nl_app; cbn; now rewrite orb_false_r|now rewrite orb_false_r].
    + rewrite has_byte_app. cbn. rewrite orb_true_r. reflexivity.
  - cbn [concat]. rewrite app_nil_r. destruct l as [|d0 d] eqn:El; [congruence|]. rewrite <- El in *.
    rewrite take_line_end by (auto; lia).
    exists true. split.
    + f_equal. f_equal. rewrite no_nl_ends by assumption. cbn [negb andb].
      destruct (Z.ltb_spec (Z.of_nat (length l)) (config_buff - 1)); [now rewrite orb_true_r|lia].
    + now rewrite andb_false_r.
Qed.

Lemma fgets_empty size e : fgets size {| sdata := []; seof := e |} = (None, {| sdata := []; seof := true |}).
Proof. reflexivity. Qed.

Lemma fgets_line size (l : str) rest e :
  no_nl l -> Z.of_nat (length l) + 1 < size ->
  fgets size {| sdata := (l ++ [10]) ++ rest; seof := e |} = (Some (l ++ [10]), {| sdata := rest; seof := e |}).
Proof.
  intros Hl Hb. unfold fgets. cbn [sdata]. rewrite <- app_assoc. cbn [app].
  destruct (l ++ 10 :: rest) as [|d0 d] eqn:Ed; [destruct l; discriminate|]. rewrite <- Ed.
  rewrite take_line_nl by (auto; lia). f_equal. f_equal.
  destruct rest; [rewrite ends_nl_app; cbn; now rewrite orb_false_r|now rewrite orb_false_r].
Qed.

Lemma fgets_last size (l : str) e :
  no_nl l -> l <> [] -> Z.of_nat (length l) + 1 < size ->
  fgets size {| sdata := l; seof := e |} = (Some l, {| sdata := []; seof := true |}).
Proof.
  intros Hl Hne Hb. unfold fgets. cbn [sdata]. destruct l as [|d0 d] eqn:El; [congruence|]. rewrite <- El in *.
  rewrite take_line_end by (auto; lia). f_equal. f_equal. rewrite no_nl_ends by assumption. cbn [negb andb].
  destruct (Z.ltb_spec (Z.of_nat (length l)) (size - 1)); [now rewrite orb_true_r|lia].
Qed.

Lemma list_eqb_length (a b : str) : list_eqb a b = true -> length a = length b.
Proof. intros H. apply list_eqb_eq in H. now subst. Qed.

Lemma beg_ci_app (m a b : str) : beg_ci m a = true -> beg_ci m (a ++ b) = true.
Proof.
  unfold beg_ci, ci_eq. intros H. pose proof (list_eqb_length _ _ H) as L. rewrite !map_length, firstn_length in L.
  rewrite firstn_app. replace (length m - length a)%nat with O by lia. cbn [firstn]. now rewrite app_nil_r.
Qed.

Definition wf_hdr (progname hdr : str) : Prop :=
  Forall nz_byte hdr /\ no_nl hdr /\ Z.of_nat (length hdr) + 1 < open_fgets_size /\ beg_ci (magic progname) hdr = true.

Lemma magic_nonempty progname : magic progname <> [].
Proof. unfold magic. change (Z.to_nat (open_test_size - 1)) with 29%nat. cbn [firstn app]. discriminate. Qed.

Lemma wf_hdr_nonempty progname hdr : wf_hdr progname hdr -> hdr <> [].
Proof.
  intros (_ & _ & _ & H) ->. unfold beg_ci, ci_eq in H. apply list_eqb_length in H.
  rewrite !map_length, firstn_nil in H. cbn [length] in H. pose proof (magic_nonempty progname).
  destruct (magic progname); [congruence|discriminate].
Qed.

Lemma open_file_render fs progname name hdr ls nl :
  wf_hdr progname hdr -> fs name = Some (render hdr ls nl) ->
  exists e, open_file fs progname (Some name) = Ok (Some {| sdata := concat (raws ls nl); seof := e |}).
Proof.
  intros Hh Hf. pose proof (wf_hdr_nonempty _ _ Hh) as Hne. destruct Hh as (Hnz & Hnl & Hlen & Hm).
  unfold open_file. rewrite Hf. unfold render.
  assert (Hbs : Z.to_nat open_buff_size = 256%nat) by reflexivity.
  assert (G : forall chunk (st : stream), Forall nz_byte chunk -> (length chunk < 256)%nat -> beg_ci (magic progname) chunk = true ->
            (b1 <- put_str (repeat None (Z.to_nat open_buff_size)) chunk ;;
             ver <- cstring b1 ;; if beg_ci (magic progname) ver then Ok (Some st) else Ok (None : option stream)) = Ok (Some st)).
  { intros chunk st Hc Hl Hb.
    destruct (put_str_data (repeat None (Z.to_nat open_buff_size)) chunk) as (rest & -> & _).
    { rewrite repeat_length, Hbs. assumption. }
    { eapply Forall_impl; [|exact Hc]. apply nz_is_byte. }
    cbn [bind]. rewrite cstr_of_nz_id by assumption. rewrite cstring_cstr by assumption. cbn [bind]. now rewrite Hb. }
  assert (Hnz10 : Forall nz_byte (hdr ++ [10])).
  { apply Forall_app. split; [assumption|repeat constructor; unfold nz_byte; lia]. }
  assert (Hl10 : (length (hdr ++ [10%Z]) < 256)%nat).
  { rewrite app_length. cbn [length]. change open_fgets_size with 256 in Hlen. lia. }
  destruct ls as [|l ls].
  - cbn [raws]. destruct nl.
    + cbn [concat]. rewrite app_nil_r.
      pose proof (fgets_line open_fgets_size hdr [] false Hnl Hlen) as E. rewrite app_nil_r in E. rewrite E.
      exists false. apply G; auto. now apply beg_ci_app.
    + destruct hdr as [|h0 h] eqn:Eh; [congruence|]. rewrite <- Eh in *. cbn [concat]. rewrite app_nil_r.
      rewrite (fgets_last open_fgets_size hdr false Hnl Hne Hlen).
      exists true. apply G; auto. change open_fgets_size with 256 in Hlen. lia.
  - change (raws (hdr :: l :: ls) nl) with ((hdr ++ [10]) :: raws (l :: ls) nl). cbn [concat].
    rewrite (fgets_line open_fgets_size hdr _ false Hnl Hlen).
    exists false. apply G; auto. now apply beg_ci_app.
Qed.

(* ---------- a table prefix represents a list ---------- *)
Definition rep {A B} (f : B -> A) (t : table A) (l : list B) : Prop :=
  forall i b, nth_error l i = Some b -> slot t (Z.of_nat i) = Some (Some (f b)).

Lemma rep_snoc {A B} (f : B -> A) (t t' : table A) l b :
  rep f t l -> slot t' (Z.of_nat (length l)) = Some (Some (f b)) ->
  (forall j, 0 <= j < Z.of_nat (length l) -> slot t' j = slot t j) ->
  rep f t' (l ++ [b]).
Proof.
  intros Hr Hn Ho i x Hi. destruct (Nat.lt_ge_cases i (length l)) as [Hlt|Hge].
  - rewrite nth_error_app1 in Hi by assumption. rewrite Ho by lia. now apply Hr.
  - rewrite nth_error_app2 in Hi by assumption. destruct (i - length l)%nat as [|k] eqn:Ek.
    + cbn in Hi. injection Hi as <-. replace i with (length l) by lia. assumption.
    + cbn in Hi. destruct k; discriminate.
Qed.

Lemma rep_prefix {A B} (f : B -> A) (t : table A) l l2 : rep f t (l ++ l2) -> rep f t l.
Proof.
  intros H i b Hi. apply H. rewrite nth_error_app1; [assumption|]. apply nth_error_Some. congruence.
Qed.

Lemma rep_same {A B} (f : B -> A) (t t' : table A) l :
  rep f t l -> (forall j, 0 <= j < Z.of_nat (length l) -> slot t' j = slot t j) -> rep f t' l.
Proof.
  intros H Ho i b Hi. rewrite Ho; [now apply H|]. assert (i < length l)%nat by (apply nth_error_Some; congruence). lia.
Qed.

Lemma rep_last {A B} (f : B -> A) (t : table A) l b : rep f t (l ++ [b]) -> slot t (Z.of_nat (length l)) = Some (Some (f b)).
Proof. intros H. apply H. rewrite nth_error_app2, Nat.sub_diag by lia. reflexivity. Qed.

Definition ctx_of (p : str * hfun) : ctx_t := {| cx_name := Some (fst p); cx_fun := snd p |}.
Definition cst_of (p : Z * Z) : cst_t := {| cs_id := fst p; cs_state := snd p |}.

Section Trace.
  Variable W : Type.
  Variable V : Type.
  Variable vnull : V.
  Variable handler : Z -> harg -> Z -> W -> Z * W.
  Variable expand : str -> V -> str * V * list str.
  Variable preproc_out : str -> option (list byte).
  Variable fs : str -> option (list byte).
  Variable progname : str.
  Variable fsl : str -> option (list str * bool).

  Notation conf := (conf V).
  Notation cinvh := (cinvh V).
  Notation open_file := (open_file fs progname).
  Notation call := (call W V handler).
  Notation ctx_begin := (ctx_begin W V handler).
  Notation ctx_end := (ctx_end W V handler).
  Notation pl_str := (pl_str W V handler expand preproc_out fs progname).
  Notation parse_line := (parse_line W V handler expand preproc_out fs progname).
  Notation parse_loop := (parse_loop W V handler expand preproc_out fs progname).
  Notation parse := (parse W V handler expand preproc_out fs progname).
  Notation sstate := (sstate W V).
  Notation sstep := (sstep W V handler expand fsl).
  Notation srun := (srun W V handler expand fsl).
  Notation sparse := (sparse W V handler expand fsl).
  Notation scall := (scall W handler).

  Hypothesis Hfs : forall n content, fs n = Some content -> Forall is_byte content.
  Hypothesis Hpp : forall cmd out, preproc_out cmd = Some out -> Forall is_byte out.
  Hypothesis Hexp : expand_fits V expand.
  Hypothesis Hinc : expand_keeps_include V expand.
  (* the specification's files are the file system's config files *)
  Hypothesis Hfiles : forall name,
    match fsl name with
    | Some (ls, nl) => exists hdr, wf_hdr progname hdr /\ fs name = Some (render hdr ls nl) /\ Forall wf_line ls
    | None => open_file (Some name) = Ok None
    end.

  Definition ctx_rel (t : table ctx_t) (ctxs : list (str * hfun)) : Prop :=
    Z.of_nat (length ctxs) = t_idx t + 1 /\ rep ctx_of t ctxs /\ Forall (fun p => snd p <> HNullPtr) ctxs.
  Definition stack_rel (t : table cst_t) (stack : list (Z * Z)) : Prop :=
    Z.of_nat (length stack) = t_idx t + 1 /\ rep cst_of t (rev stack).

  (* the file stack, top first, against the work list: for every open file its remaining raw lines and
     its end-of-file marker *)
  Fixpoint files_rel (t : table fst_t) (k : nat) (items : list item) : Prop :=
    match k with
    | O => items = []
    | S k' => exists e rs eo rest,
        slot t (Z.of_nat k) = Some (Some e) /\ f_fp e = Some {| sdata := concat rs; seof := eo |} /\ wf_raws rs /\
        items = map ILine rs ++ IEof :: rest /\ files_rel t k' rest
    end.

  Definition R (n0 hw : Z) (s : sstate) (c : conf) (items : list item) : Prop :=
    cinvh hw c /\ hw = Z.of_nat (length (s_ctxs W V s)) /\ ctx_rel (cxt V c) (s_ctxs W V s) /\
    stack_rel (cst V c) (s_stack W V s) /\ Forall (fun p => 0 <= fst p < hw) (s_stack W V s) /\
    vars V c = s_vars W V s /\ nopen V c = n0 + t_idx (ftb V c) /\
    files_rel (ftb V c) (Z.to_nat (t_idx (ftb V c))) items.

  Lemma files_rel_same t t' k items :
    (forall j, 1 <= j <= Z.of_nat k -> slot t' j = slot t j) -> files_rel t k items -> files_rel t' k items.
  Proof.
    revert items; induction k as [|k IH]; intros items Hs H; [exact H|].
    destruct H as (e & rs & eo & rest & H1 & H2 & H3 & H4 & H5).
    exists e, rs, eo, rest. rewrite Hs by lia. repeat split; auto. apply IH; [|assumption]. intros j Hj. apply Hs. lia.
  Qed.

  Lemma files_rel_depth t k items : files_rel t k items -> file_depth items = Z.of_nat k.
  Proof.
    revert items; induction k as [|k IH]; intros items H.
    - cbn in H. subst. reflexivity.
    - destruct H as (e & rs & eo & rest & _ & _ & _ & -> & H5). specialize (IH _ H5). unfold file_depth in *.
      rewrite filter_app. cbn [filter]. rewrite app_length. cbn [length].
      assert (E : filter (fun i : item => match i with IEof => true | _ => false end) (map ILine rs) = []).
      { clear. induction rs; [reflexivity|assumption]. }
      rewrite E. cbn [length]. lia.
  Qed.

  (* ---- contexts ---- *)
  Lemma lookup_range ctxs name i : lookup ctxs name i = 0 \/ i <= lookup ctxs name i < i + Z.of_nat (length ctxs).
  Proof.
    revert i; induction ctxs as [|[nm f] r IH]; intros i; cbn [lookup length]; [left; reflexivity|].
    destruct (ci_eq name nm); [right; lia|]. destruct (IH (i + 1)); [left; assumption|right; lia].
  Qed.

  Lemma name_to_id_lookup (c : conf) ctxs name :
    ctx_rel (cxt V c) ctxs ->
    forall l pre, ctxs = pre ++ l ->
    name_to_id V c name (Z.of_nat (length pre)) (length l) = Ok (lookup l name (Z.of_nat (length pre))).
  Proof.
    intros (_ & Hrep & _). induction l as [|[nm f] l IH]; intros pre E; cbn [name_to_id lookup length]; [reflexivity|].
    assert (Hs : slot (cxt V c) (Z.of_nat (length pre)) = Some (Some (ctx_of (nm, f)))).
    { apply Hrep. rewrite E, nth_error_app2, Nat.sub_diag by lia. reflexivity. }
    rewrite (slot_get _ _ _ Hs). cbn [bind ctx_of cx_name fst].
    destruct (ci_eq name nm); [reflexivity|].
    specialize (IH (pre ++ [(nm, f)]) ltac:(rewrite <- app_assoc; exact E)).
    rewrite app_length in IH. cbn [length] in IH. rewrite Nat2Z.inj_add in IH. exact IH.
  Qed.

  Lemma scall_call (c : conf) ctxs w id a st :
    ctx_rel (cxt V c) ctxs -> 0 <= id < Z.of_nat (length ctxs) ->
    exists r, scall ctxs w id a st = Some r /\ call c w id a st = Ok r.
  Proof.
    intros (_ & Hrep & Hnn) Hid.
    destruct (nth_error ctxs (Z.to_nat id)) as [[nm f]|] eqn:En; [|apply nth_error_None in En; lia].
    pose proof (Hrep _ _ En) as Hs. rewrite Z2Nat.id in Hs by lia.
    rewrite Forall_forall in Hnn. specialize (Hnn _ (nth_error_In _ _ En)). cbn [snd] in Hnn.
    unfold ConfSpec.scall, ConfModel.call. rewrite En, (slot_get _ _ _ Hs). cbn [bind ctx_of cx_fun snd].
    destruct f as [| |k]; [contradiction| |].
    - eexists. split; reflexivity.
    - destruct (handler k a st w) as [s' w']. eexists. split; reflexivity.
  Qed.

  Lemma cpoke_slot hw (c : conf) s top :
    cs_inv hw (cst V c) -> cpeek V c = Ok top -> 0 <= cs_id top < hw ->
    exists t', cpoke_state V c s = Ok (with_cst V c t') /\ cs_inv hw t' /\ t_idx t' = t_idx (cst V c) /\
               slot t' (t_idx t') = Some (Some {| cs_id := cs_id top; cs_state := s |}) /\
               (forall j, j <> t_idx t' -> slot t' j = slot (cst V c) j).
  Proof.
    intros (Ht & Hs) Htop Hb. unfold cpoke_state. rewrite Htop. cbn [bind].
    pose proof Ht as (l & _ & _ & Hi & _).
    destruct (t_set_slot (cst V c) _ (t_idx (cst V c)) {| cs_id := cs_id top; cs_state := s |} Ht ltac:(lia))
      as (t' & -> & Ht' & Hidx & _ & Hnew & Hold).
    cbn [bind]. exists t'. rewrite Hidx. split; [reflexivity|]. split; [|repeat split; auto].
    split; [assumption|]. intros i Hi'. rewrite Hidx in Hi'.
    destruct (Z.eq_dec i (t_idx (cst V c))) as [->|Hne].
    - eexists. split; [exact Hnew|]. cbn. assumption.
    - rewrite (Hold i Hne). apply Hs. lia.
  Qed.

  Lemma stack_top (c : conf) id st below :
    stack_rel (cst V c) ((id, st) :: below) -> cpeek V c = Ok {| cs_id := id; cs_state := st |}.
  Proof.
    intros (Hl & Hrep). unfold cpeek. apply slot_get. cbn [rev] in Hrep. pose proof (rep_last _ _ _ _ Hrep) as H.
    rewrite rev_length in H. cbn [length] in Hl. replace (t_idx (cst V c)) with (Z.of_nat (length below)) by lia. exact H.
  Qed.

  (* the part of R that a line leaves alone when only the context states and the variables change *)
  Lemma R_update n0 hw (s s' : sstate) (c c' : conf) items :
    R n0 hw s c items -> cinvh hw c' ->
    s_ctxs W V s' = s_ctxs W V s -> cxt V c' = cxt V c -> ftb V c' = ftb V c -> nopen V c' = nopen V c ->
    stack_rel (cst V c') (s_stack W V s') -> Forall (fun p => 0 <= fst p < hw) (s_stack W V s') ->
    vars V c' = s_vars W V s' ->
    R n0 hw s' c' items.
  Proof.
    intros (_ & Hhw & Hcx & _ & _ & _ & Hno & Hfr) Hinv Ec Ex Ef En Hst Hids Hv.
    unfold R. rewrite Ec, Ex, Ef, En. split; [exact Hinv|]. split; [exact Hhw|]. split; [exact Hcx|].
    split; [exact Hst|]. split; [exact Hids|]. split; [exact Hv|]. split; [exact Hno|exact Hfr].
  Qed.

  Ltac use_pl_ok Hinv Hraw E Hinv' :=
    let c'' := fresh "c" in let w'' := fresh "w" in let ev'' := fresh "ev" in let Eq := fresh "Eq" in
    destruct (pl_str_ok W V handler expand preproc_out fs progname Hfs Hpp _ _ _ _ Hinv Hraw)
      as (c'' & w'' & ev'' & Eq & Hinv' & _); rewrite E in Eq; injection Eq as <- <- <-.

  (* one line: the string-level parser step is the specification's step *)
  Lemma sim_line n0 hw (s : sstate) (c : conf) rest raw s' items' ev :
    R n0 hw s c rest -> Forall nz_byte raw ->
    sstep s raw rest = Done (s', items', ev) ->
    exists c', pl_str c (s_world W V s) raw = Ok (c', s_world W V s', ev) /\ R n0 hw s' c' items'.
  Proof.
    intros HR Hraw. pose proof HR as (Hinv & Hhw & Hcx & Hst & Hids & Hv & Hno & Hfr).
    pose proof Hinv as (Hx & Hcs & Hf).
    unfold ConfSpec.sstep. unfold ConfLine.pl_str at 1. destruct (classify raw) as [|t|t|t|t| |t] eqn:Ecl.
    - (* skip *) intros [= <- <- <-]. exists c. split; [reflexivity|exact HR].
    - (* %include *)
      rewrite Hv. destruct (expand t (s_vars W V s)) as [[t' v'] cmds].
      set (s1 := {| s_ctxs := s_ctxs W V s; s_stack := s_stack W V s; s_vars := v'; s_world := s_world W V s |}).
      set (c2 := with_vars V c v').
      assert (HR2 : R n0 hw s1 c2 rest).
      { apply (R_update n0 hw s s1 c c2 rest HR); try reflexivity; auto. }
      destruct (gw 2 (skipn 1 t')) as [name|] eqn:Ep.
      2:{ intros [= <- <- <-]. cbn [ConfModel.open_file bind]. exists c2. split; [reflexivity|exact HR2]. }
      pose proof (Hfiles name) as Hfile. destruct (fsl name) as [[ls nl]|].
      2:{ intros [= <- <- <-]. rewrite Hfile. cbn [bind]. exists c2. split; [reflexivity|exact HR2]. }
      destruct Hfile as (hdr & Hh & Hfsn & Hls).
      destruct (Z.geb_spec (file_depth rest) max_depth) as [|Hd]; [discriminate|].
      intros [= <- <- <-].
      destruct (open_file_render fs progname name hdr ls nl Hh Hfsn) as (e0 & ->). cbn [bind].
      set (c3 := add_open V (add_live V c2 1) 1).
      set (ent := {| f_fp := Some {| sdata := concat (raws ls nl); seof := e0 |}; f_path := Some name; f_outfile := None;
                     f_line := 1; f_skip := false; f_preproc := false; f_owned := true |}).
      destruct (push_file_ok V c3 ent Hf eq_refl) as (t1 & Epush & Hf1 & Hidx1 & Hnew1 & Hold1).
      { split; [eexists; split; [reflexivity|]|discriminate]. cbn [sdata].
        rewrite <- (firstn_skipn 0 (concat (raws ls nl))). cbn [firstn app].
        assert (Hall : Forall is_byte (render hdr ls nl)) by (eapply Hfs; eassumption).
        unfold render in Hall. destruct ls as [|l ls'].
        - cbn [raws]. destruct nl; constructor.
        - change (raws (hdr :: l :: ls') nl) with ((hdr ++ [10]) :: raws (l :: ls') nl) in Hall. cbn [concat] in Hall.
          apply Forall_app in Hall. apply Hall. }
      rewrite Epush. cbn [bind].
      pose proof (files_rel_depth _ _ _ Hfr) as Hdepth. unfold max_depth in Hd.
      assert (Hk : t_idx (ftb V c) < 255).
      { destruct Hf as ((l0 & _ & _ & ? & _) & _). lia. }
      assert (Hidx1' : t_idx t1 = t_idx (ftb V c) + 1).
      { rewrite Hidx1. change (ftb V c3) with (ftb V c). apply Z.mod_small.
        destruct Hf as ((l0 & _ & _ & ? & _) & _). change fstate_idx_bits with 8. lia. }
      eexists. split; [reflexivity|].
      assert (Hinv3 : cinvh hw (add_live V (with_ftb V c3 t1) 0)) by (split; [exact Hx|split; [exact Hcs|exact Hf1]]).
      unfold R. cbn [cxt cst ftb vars nopen add_live with_ftb add_open with_vars c3 c2 s_ctxs s_stack s_vars s1].
      split; [exact Hinv3|]. split; [exact Hhw|]. split; [exact Hcx|]. split; [exact Hst|]. split; [exact Hids|].
      split; [reflexivity|]. split; [lia|].
      rewrite Hidx1'. replace (Z.to_nat (t_idx (ftb V c) + 1)) with (S (Z.to_nat (t_idx (ftb V c)))) by (destruct Hf as ((l0 & _ & _ & ? & _) & _); lia).
      cbn [files_rel]. exists ent, (raws ls nl), e0, rest.
      split. { replace (Z.of_nat (S (Z.to_nat (t_idx (ftb V c))))) with (t_idx t1) by (destruct Hf as ((l0 & _ & _ & ? & _) & _); lia). exact Hnew1. }
      split; [reflexivity|]. split; [apply raws_wf; assumption|]. split; [unfold items_of; rewrite <- app_assoc; reflexivity|].
      apply (files_rel_same (ftb V c)); [|exact Hfr].
      intros j Hj. apply Hold1; [lia|]. change (ftb V c3) with (ftb V c). destruct Hf as ((l0 & _ & _ & ? & _) & _). lia.
    - discriminate.
    - (* % other *)
      rewrite Hv. destruct (expand t (s_vars W V s)) as [[t' v'] cmds]. intros [= <- <- <-].
      eexists. split; [reflexivity|].
      apply (R_update n0 hw s _ c (with_vars V c v') rest HR); try reflexivity; auto.
    - (* begin *)
      destruct (gw 2 t) as [name|] eqn:Eg; [|discriminate].
      destruct (s_stack W V s) as [|[id0 st0] below] eqn:Estk; [discriminate|].
      destruct (Z.gtb_spec (Z.of_nat (length ((id0, st0) :: below))) max_depth) as [|Hd]; [discriminate|].
      set (id := lookup (s_ctxs W V s) name 0).
      assert (Hid : 0 <= id < hw).
      { unfold id. destruct Hcx as (Hl & _). destruct Hx as ((l0 & _ & _ & ? & _) & _).
        destruct (lookup_range (s_ctxs W V s) name 0); lia. }
      destruct (scall_call c (s_ctxs W V s) (s_world W V s) id HBegin st0 Hcx ltac:(lia)) as ([[st' w'] ev0] & Esc & Ecall).
      rewrite Esc. intros [= <- <- <-].
      (* the model *)
      unfold ConfModel.ctx_begin.
      pose proof (name_to_id_lookup c (s_ctxs W V s) name Hcx (s_ctxs W V s) [] eq_refl) as Hn. cbn [length] in Hn.
      replace (Z.to_nat (t_idx (cxt V c) + 1)) with (length (s_ctxs W V s)) by (destruct Hcx as (Hl & _); lia).
      change (Z.of_nat 0) with 0 in Hn. rewrite Hn. fold id. cbn [bind].
      destruct (push_state_ok V hw c id Hcs Hid) as (t1 & -> & Hcs1 & Hidx1 & Hnew1 & Hold1). cbn [bind].
      pose proof Hst as (Hsl & Hsrep). cbn [length] in Hsl, Hd. unfold max_depth in Hd.
      assert (Hidx1' : t_idx t1 = t_idx (cst V c) + 1).
      { rewrite Hidx1. apply Z.mod_small. change ctx_state_idx_bits with 8. lia. }
      set (c1 := with_cst V c t1). change (cst V c1) with t1.
      destruct (Z.eqb_spec (t_idx t1) 0) as [E0|_]; [lia|].
      assert (Hbelow : slot t1 (t_idx t1 - 1) = Some (Some (cst_of (id0, st0)))).
      { rewrite Hold1 by (destruct Hcs as ((l0 & _ & _ & ? & _) & _); lia).
        cbn [rev] in Hsrep. pose proof (rep_last _ _ _ _ Hsrep) as H. rewrite rev_length in H.
        replace (t_idx t1 - 1) with (Z.of_nat (length below)) by lia. exact H. }
      rewrite (slot_get _ _ _ Hbelow). cbn [bind cst_of cs_state snd].
      change (call c1 (s_world W V s) id HBegin st0) with (call c (s_world W V s) id HBegin st0). rewrite Ecall. cbn [bind].
      assert (Htop1 : cpeek V c1 = Ok {| cs_id := id; cs_state := 0 |}) by (unfold cpeek; apply slot_get; exact Hnew1).
      destruct (cpoke_slot hw c1 st' _ Hcs1 Htop1 Hid) as (t2 & Epoke & Hcs2 & Hidx2 & Hnew2 & Hold2). rewrite Epoke. cbn [bind].
      eexists. split; [reflexivity|].
      apply (R_update n0 hw s _ c (with_cst V c1 t2) rest HR); try reflexivity.
      + split; [exact Hx|split; [exact Hcs2|exact Hf]].
      + cbn [s_stack cst with_cst]. split; [cbn [length]; change (cst V c1) with t1 in Hidx2; lia|].
        cbn [rev]. apply (rep_snoc cst_of (cst V c) t2 (rev ((id0, st0) :: below)) (id, st')).
        * exact Hsrep.
        * rewrite rev_length. cbn [length]. change (cst V c1) with t1 in Hidx2.
          replace (Z.of_nat (S (length below))) with (t_idx t2) by lia. exact Hnew2.
        * intros j Hj. rewrite rev_length in Hj. cbn [length] in Hj. change (cst V c1) with t1 in *.
          rewrite Hold2 by lia. apply Hold1; [lia|]. destruct Hcs as ((l0 & _ & _ & ? & _) & _). lia.
      + cbn [s_stack]. constructor; [cbn [fst]; exact Hid|]. exact Hids.
      + exact Hv.
    - (* end *)
      destruct (s_stack W V s) as [|[id st] [|[id2 st2] below]] eqn:Estk.
      + exfalso. destruct Hst as (Hl & _). cbn [length] in Hl. destruct Hcs as ((l0 & _ & _ & ? & _) & _). lia.
      + (* surplus end *)
        intros [= <- <- <-]. rewrite (stack_top c id st [] Hst). cbn [bind cs_id].
        unfold ConfModel.ctx_end. destruct Hst as (Hl & _). cbn [length] in Hl.
        destruct (Z.eqb_spec (t_idx (cst V c)) 0) as [_|Hne]; [|lia].
        exists c. split; [reflexivity|exact HR].
      + assert (Hid : 0 <= id < hw) by (inversion Hids as [|? ? Hi0 _]; exact Hi0).
        assert (Hid2 : 0 <= id2 < hw) by (inversion Hids as [|? ? _ Hr]; inversion Hr as [|? ? Hi2 _]; exact Hi2).
        destruct (scall_call c (s_ctxs W V s) (s_world W V s) id HEnd st Hcx ltac:(lia)) as ([[st' w'] ev0] & Esc & Ecall).
        rewrite Esc. intros [= <- <- <-].
        pose proof (stack_top c id st _ Hst) as Htop. rewrite Htop. cbn [bind cs_id].
        unfold ConfModel.ctx_end. pose proof Hst as (Hsl & Hsrep). cbn [length] in Hsl.
        destruct (Z.eqb_spec (t_idx (cst V c)) 0) as [E0|_]; [lia|].
        rewrite Htop. cbn [bind cs_state]. rewrite Ecall. cbn [bind].
        destruct (cpoke_slot hw c 0 _ Hcs Htop Hid) as (t1 & -> & Hcs1 & Hidx1 & Hnew1 & Hold1). cbn [bind cs_id].
        set (c1 := with_cst V c t1).
        assert (Hpop : (t_idx t1 - 1) mod 2 ^ ctx_state_idx_bits = t_idx t1 - 1).
        { apply Z.mod_small. destruct Hcs1 as ((l1 & _ & _ & ? & ? & _) & _). lia. }
        set (c2 := ctx_pop V c1).
        assert (E2 : cst V c2 = Build_table (t_mem t1) (t_cnt t1) (t_idx t1 - 1)).
        { unfold c2, ctx_pop. cbn [cst with_cst]. change (cst V c1) with t1. now rewrite Hpop. }
        assert (Hslot2 : forall j, slot (cst V c2) j = slot t1 j).
        { intros j. rewrite E2. unfold slot. reflexivity. }
        assert (Hcs2 : cs_inv hw (cst V c2)).
        { rewrite E2. destruct Hcs1 as ((l1 & Hm1 & Hl1 & Hi1 & Hb1 & Hc1) & Hs1). split.
          - exists l1. cbn [t_mem t_cnt t_idx]. repeat split; auto; lia.
          - intros i Hi. cbn [t_idx] in Hi. destruct (Hs1 i ltac:(lia)) as (e & E & B). exists e. split; [|assumption].
            unfold slot in *. cbn [t_mem]. rewrite Hm1 in *. assumption. }
        assert (Htop2 : cpeek V c2 = Ok (cst_of (id2, st2))).
        { unfold cpeek. apply slot_get. rewrite Hslot2, E2. cbn [t_idx]. rewrite Hold1 by lia.
          cbn [rev] in Hsrep. apply rep_prefix in Hsrep. pose proof (rep_last _ _ _ _ Hsrep) as H. rewrite rev_length in H.
          replace (t_idx t1 - 1) with (Z.of_nat (length below)) by lia. exact H. }
        rewrite Htop2. cbn [bind].
        destruct (cpoke_slot hw c2 st' _ Hcs2 Htop2 Hid2) as (t3 & -> & Hcs3 & Hidx3 & Hnew3 & Hold3). cbn [bind].
        set (c3 := with_cst V c2 t3).
        destruct (fpeek_ok V c3 Hf) as (f & Hfpe & Hsk & Hg). rewrite Hfpe. cbn [bind].
        destruct (fpoke_ok V c3 {| f_fp := f_fp f; f_path := f_path f; f_outfile := f_outfile f; f_line := f_line f;
                                   f_skip := false; f_preproc := f_preproc f; f_owned := f_owned f |} Hf eq_refl)
          as (t4 & -> & Hf4 & Hidx4 & Hnew4 & Hold4).
        { intros H1. exact (Hg H1). }
        cbn [bind]. eexists. split; [reflexivity|].
        unfold R. cbn [cxt cst ftb vars nopen with_ftb with_cst c3 s_ctxs s_stack s_vars s_world].
        split; [split; [exact Hx|split; [exact Hcs3|exact Hf4]]|]. split; [exact Hhw|]. split; [exact Hcx|].
        split.
        { split; [cbn [length]; rewrite Hidx3, E2; cbn [t_idx]; lia|].
          cbn [rev]. cbn [rev] in Hsrep. apply rep_prefix in Hsrep. apply rep_prefix in Hsrep.
          apply (rep_snoc cst_of (cst V c) t3 (rev below) (id2, st')).
          - exact Hsrep.
          - rewrite rev_length. replace (Z.of_nat (length below)) with (t_idx t3) by (rewrite Hidx3, E2; cbn [t_idx]; lia). exact Hnew3.
          - intros j Hj. rewrite rev_length in Hj. rewrite Hold3 by (rewrite Hidx3, E2; cbn [t_idx]; lia).
            rewrite Hslot2. apply Hold1. lia. }
        split. { inversion Hids as [|? ? _ Hr]; inversion Hr as [|? ? _ Hr2]. constructor; [exact Hid2|exact Hr2]. }
        split; [exact Hv|]. split; [rewrite Hidx4; exact Hno|].
        rewrite Hidx4. change (ftb V c3) with (ftb V c) in *.
        (* the entry on top of the file stack is rewritten with the same stream *)
        destruct (Z.to_nat (t_idx (ftb V c))) as [|k] eqn:Ek; [exact Hfr|].
        cbn [files_rel] in Hfr |- *. destruct Hfr as (e & rs & eo & rest' & H1 & H2 & H3 & H4 & H5).
        assert (Ee : e = f).
        { unfold fpeek in Hfpe. apply get_slot in Hfpe. change (ftb V c3) with (ftb V c) in Hfpe.
          replace (Z.of_nat (S k)) with (t_idx (ftb V c)) in H1 by lia. congruence. }
        subst e. eexists _, rs, eo, rest'. split.
        { replace (Z.of_nat (S k)) with (t_idx t4) by lia. exact Hnew4. }
        split; [exact H2|]. split; [exact H3|]. split; [exact H4|].
        apply (files_rel_same (ftb V c)); [|exact H5]. intros j Hj. apply Hold4. lia.
    - (* text *)
      rewrite Hv. destruct (expand t (s_vars W V s)) as [[t' v'] cmds].
      destruct (s_stack W V s) as [|[id st] below] eqn:Estk; [discriminate|].
      assert (Hid : 0 <= id < hw) by (inversion Hids as [|? ? Hi0 _]; exact Hi0).
      destruct (scall_call c (s_ctxs W V s) (s_world W V s) id (HText t') st Hcx ltac:(lia)) as ([[st' w'] ev0] & Esc & Ecall).
      rewrite Esc. intros [= <- <- <-].
      pose proof (stack_top c id st _ Hst) as Htop. rewrite Htop. cbn [bind cs_id].
      set (c2 := with_vars V c v').
      change (cpeek V c2) with (cpeek V c). rewrite Htop. cbn [bind cs_state].
      change (call c2 (s_world W V s) id (HText t') st) with (call c (s_world W V s) id (HText t') st). rewrite Ecall. cbn [bind].
      destruct (cpoke_slot hw c2 st' _ Hcs Htop Hid) as (t1 & -> & Hcs1 & Hidx1 & Hnew1 & Hold1). cbn [bind].
      eexists. split; [reflexivity|].
      pose proof Hst as (Hsl & Hsrep). cbn [length] in Hsl.
      apply (R_update n0 hw s _ c (with_cst V c2 t1) rest HR); try reflexivity.
      + split; [exact Hx|split; [exact Hcs1|exact Hf]].
      + cbn [s_stack cst with_cst]. change (cst V c2) with (cst V c) in *. split; [cbn [length]; lia|].
        cbn [rev]. cbn [rev] in Hsrep. apply rep_prefix in Hsrep.
        apply (rep_snoc cst_of (cst V c) t1 (rev below) (id, st')).
        * exact Hsrep.
        * rewrite rev_length. replace (Z.of_nat (length below)) with (t_idx t1) by lia. exact Hnew1.
        * intros j Hj. rewrite rev_length in Hj. apply Hold1. lia.
      + cbn [s_stack]. inversion Hids as [|? ? _ Hr]. constructor; [exact Hid|exact Hr].
  Qed.

  Lemma sstep_fuel (s : sstate) raw rest : sstep s raw rest <> NoFuel.
  Proof.
    unfold ConfSpec.sstep. destruct (classify raw); try discriminate.
    - destruct (expand t (s_vars W V s)) as [[t' v'] cmds]. destruct (gw 2 (skipn 1 t')); [|discriminate].
      destruct (fsl l) as [[ls nl]|]; [|discriminate]. destruct (file_depth rest >=? max_depth); discriminate.
    - destruct (expand t (s_vars W V s)) as [[t' v'] cmds]. discriminate.
    - destruct (gw 2 t); [|discriminate]. destruct (s_stack W V s) as [|[? ?] ?]; [discriminate|].
      destruct (_ >? _); [discriminate|]. destruct (scall _ _ _ _ _) as [[[? ?] ?]|]; discriminate.
    - destruct (s_stack W V s) as [|[? ?] [|[? ?] ?]]; try discriminate.
      destruct (scall _ _ _ _ _) as [[[? ?] ?]|]; discriminate.
    - destruct (expand t (s_vars W V s)) as [[t' v'] cmds]. destruct (s_stack W V s) as [|[? ?] ?]; [discriminate|].
      destruct (scall _ _ _ _ _) as [[[? ?] ?]|]; discriminate.
  Qed.

  Lemma rev_rev_append {A} (ev macc : list A) : rev (rev_append ev macc) = rev macc ++ ev.
  Proof. rewrite rev_append_rev, rev_app_distr, rev_involutive. reflexivity. Qed.

  Lemma parse_loop_inner fuel (c : conf) w buff acc :
    t_idx (ftb V c) <> 0 -> parse_loop fuel true c w buff acc = parse_loop fuel false c w buff acc.
  Proof.
    intros H. destruct fuel as [|fuel]; [reflexivity|]. cbn [ConfModel.parse_loop negb andb].
    destruct (Z.eqb_spec (t_idx (ftb V c)) 0); [contradiction|reflexivity].
  Qed.

  Lemma file_depth_app a b : file_depth (a ++ b) = file_depth a + file_depth b.
  Proof. unfold file_depth. rewrite filter_app, app_length. lia. Qed.

  Lemma file_depth_nonneg a : 0 <= file_depth a.
  Proof. unfold file_depth. lia. Qed.

  Lemma sstep_items (s : sstate) raw rest s' items' ev :
    sstep s raw rest = Done (s', items', ev) -> file_depth rest <= file_depth items'.
  Proof.
    unfold ConfSpec.sstep. destruct (classify raw).
    - intros [= <- <- <-]. lia.
    - destruct (expand t (s_vars W V s)) as [[t' v'] cmds]. destruct (gw 2 (skipn 1 t')); [|intros [= <- <- <-]; lia].
      destruct (fsl l) as [[ls nl]|]; [|intros [= <- <- <-]; lia].
      destruct (_ >=? _); [discriminate|]. intros [= <- <- <-]. rewrite file_depth_app. pose proof (file_depth_nonneg (items_of ls nl)). lia.
    - discriminate.
    - destruct (expand t (s_vars W V s)) as [[t' v'] cmds]. intros [= <- <- <-]. lia.
    - destruct (gw 2 t); [|discriminate]. destruct (s_stack W V s) as [|[? ?] ?]; [discriminate|].
      destruct (_ >? _); [discriminate|]. destruct (scall _ _ _ _ _) as [[[? ?] ?]|]; [|discriminate]. intros [= <- <- <-]. lia.
    - destruct (s_stack W V s) as [|[? ?] [|[? ?] ?]]; try (intros [= <- <- <-]; lia).
      destruct (scall _ _ _ _ _) as [[[? ?] ?]|]; [|discriminate]. intros [= <- <- <-]. lia.
    - destruct (expand t (s_vars W V s)) as [[t' v'] cmds]. destruct (s_stack W V s) as [|[? ?] ?]; [discriminate|].
      destruct (scall _ _ _ _ _) as [[[? ?] ?]|]; [|discriminate]. intros [= <- <- <-]. lia.
  Qed.

  (* the reading loop against the walk over the work list *)
  Lemma sim_loop n0 hw : forall fuel (s : sstate) (c : conf) items buff macc,
    R n0 hw s c items -> Z.of_nat (length buff) = config_buff ->
    match srun fuel s items (rev macc) with
    | Done (s', evs) =>
      exists c' macc', parse_loop fuel false c (s_world W V s) buff macc = Ok (c', s_world W V s', macc') /\
                       rev macc' = evs /\ R n0 hw s' c' []
    | NoFuel => parse_loop fuel false c (s_world W V s) buff macc = Fault Out_of_fuel
    | _ => True
    end.
  Proof.
    induction fuel as [|fuel IH]; intros s c items buff macc HR Hl; [reflexivity|].
    pose proof HR as (Hinv & Hhw & Hcx & Hst & Hids & Hv & Hno & Hfr). pose proof Hinv as (Hx & Hcs & Hf).
    pose proof Hf as ((lf & Hmf & Hlf & Hif & Hbf & Hcf) & Hsf).
    cbn [ConfSpec.srun ConfModel.parse_loop negb andb].
    destruct (Z.eqb_spec (t_idx (ftb V c)) 0) as [E0|E0].
    { rewrite E0 in Hfr. cbn in Hfr. subst items. exists c, macc. split; [reflexivity|]. split; [reflexivity|].
      unfold R. rewrite E0. cbn [Z.to_nat files_rel]. rewrite E0 in Hno. repeat split; auto; apply HR. }
    destruct (Z.to_nat (t_idx (ftb V c))) as [|k] eqn:Ek; [lia|].
    cbn [files_rel] in Hfr. destruct Hfr as (e & rs & eo & rest & H1 & H2 & H3 & H4 & H5). subst items.
    assert (Hidxk : Z.of_nat (S k) = t_idx (ftb V c)) by lia. rewrite Hidxk in H1.
    unfold fpeek. rewrite (slot_get _ _ _ H1). cbn [bind]. rewrite H2.
    destruct (Hsf (t_idx (ftb V c)) ltac:(lia)) as (e' & E' & Hsk & Hg). assert (e' = e) by congruence. subst e'.
    destruct (Hg ltac:(lia)) as (_ & Hp).
    assert (Hgood : forall s2 ln, Forall is_byte (sdata s2) -> f_skip (set_fp e s2 ln) = false /\ file_good (set_fp e s2 ln)).
    { intros s2 ln Hs2. split; [exact Hsk|]. split; [exists s2; split; [reflexivity|assumption]|exact Hp]. }
    destruct rs as [|r rs'].
    - (* end of file *)
      cbn [concat map app]. rewrite fgets_empty.
      destruct (Hgood {| sdata := []; seof := true |} (f_line e) ltac:(constructor)) as [G1 G2].
      destruct (fpoke_ok V c _ Hf G1 (fun _ => G2)) as (t1 & -> & Hf1 & Hidx1 & Hnew1 & Hold1). cbn [bind].
      set (d := (if f_preproc e then blk (f_outfile e) else 0) + (if f_owned e then blk (f_path e) else 0)).
      set (c2 := file_pop V (add_open V (add_live V (with_ftb V c t1) (- d)) (-1))).
      assert (Hpop : (t_idx t1 - 1) mod 2 ^ fstate_idx_bits = t_idx t1 - 1).
      { apply Z.mod_small. destruct Hf1 as ((l1 & _ & _ & ? & ? & _) & _). lia. }
      assert (E2 : ftb V c2 = Build_table (t_mem t1) (t_cnt t1) (t_idx t1 - 1)).
      { unfold c2, file_pop. cbn [ftb with_ftb add_open add_live]. now rewrite Hpop. }
      assert (Hslot2 : forall j, slot (ftb V c2) j = slot t1 j) by (intros j; rewrite E2; reflexivity).
      assert (HR2 : R n0 hw s c2 rest).
      { unfold R. split.
        - split; [exact Hx|split; [exact Hcs|]]. rewrite E2.
          destruct Hf1 as ((l1 & Hm1 & Hl1 & Hi1 & Hb1 & Hc1) & Hs1). split.
          + exists l1. cbn [t_mem t_cnt t_idx]. repeat split; auto; lia.
          + intros i Hi. cbn [t_idx] in Hi. destruct (Hs1 i ltac:(lia)) as (e1 & Ee1 & B). exists e1. split; [|assumption].
            unfold slot in *. cbn [t_mem]. rewrite Hm1 in *. assumption.
        - split; [exact Hhw|]. split; [exact Hcx|]. split; [exact Hst|]. split; [exact Hids|]. split; [exact Hv|].
          split; [rewrite E2; cbn [nopen c2 file_pop add_open add_live with_ftb t_idx]; lia|].
          rewrite E2. cbn [t_idx]. replace (Z.to_nat (t_idx t1 - 1)) with k by lia.
          apply (files_rel_same (ftb V c)); [|exact H5]. intros j Hj. rewrite <- E2, Hslot2. apply Hold1. lia. }
      apply (IH s c2 rest buff macc HR2 Hl).
    - (* a line *)
      lazy beta iota.
      destruct (fgets_raw r rs' eo H3) as (e1 & -> & Hlong).
      destruct (wf_raw_nz r rs' H3) as (Hrnz & Hrne & Hrlen).
      assert (Hrb : Forall is_byte r) by (eapply Forall_impl; [|exact Hrnz]; apply nz_is_byte).
      destruct (put_str_data buff r ltac:(lia) Hrb) as (rest0 & -> & L). cbn [bind].
      rewrite cstr_of_nz_id in * by assumption.
      assert (Hrs'b : Forall is_byte (concat rs')).
      { destruct (Hg ltac:(lia)) as ((st0 & Hst0 & Hb0) & _). rewrite H2 in Hst0. injection Hst0 as <-. cbn [sdata concat] in Hb0.
        apply Forall_app in Hb0. apply Hb0. }
      destruct (Hgood {| sdata := concat rs'; seof := e1 |} ((f_line e + 1) mod 2 ^ 32) Hrs'b) as [G1 G2].
      destruct (fpoke_ok V c _ Hf G1 (fun _ => G2)) as (t1 & -> & Hf1 & Hidx1 & Hnew1 & Hold1). cbn [bind].
      rewrite cstring_cstr by assumption. cbn [bind sdata seof]. rewrite Hlong.
      set (c1 := with_ftb V c t1).
      set (items1 := map ILine rs' ++ IEof :: rest).
      assert (HR1 : R n0 hw s c1 items1).
      { unfold R. split; [split; [exact Hx|split; [exact Hcs|exact Hf1]]|].
        split; [exact Hhw|]. split; [exact Hcx|]. split; [exact Hst|]. split; [exact Hids|]. split; [exact Hv|].
        cbn [nopen ftb c1 with_ftb]. rewrite Hidx1. split; [exact Hno|]. rewrite Ek. cbn [files_rel].
        exists (set_fp e {| sdata := concat rs'; seof := e1 |} ((f_line e + 1) mod 2 ^ 32)), rs', e1, rest.
        split; [rewrite Hidxk, <- Hidx1; exact Hnew1|]. split; [reflexivity|]. split; [apply H3|]. split; [reflexivity|].
        apply (files_rel_same (ftb V c)); [|exact H5]. intros j Hj. apply Hold1. lia. }
      cbn [map app]. fold items1.
      destruct (sstep s r items1) as [[[s' items'] ev]| | |] eqn:Estep; try exact I; [|exfalso; exact (sstep_fuel _ _ _ Estep)].
      destruct (sim_line n0 hw s c1 items1 r s' items' ev HR1 Hrnz Estep) as (c' & Epl & HR').
      destruct (cpeek_ok V hw c1 Hcs) as (top & Htop & _).
      destruct (fpeek_ok V c1 Hf1) as (f1 & Hf1p & Hsk1 & _).
      assert (Lb : Z.of_nat (length (cstr r rest0)) = config_buff) by lia.
      pose proof (parse_line_str W V handler expand preproc_out fs progname Hexp Hinc c1 (s_world W V s) r rest0 top f1
                    Hrnz Lb Htop Hf1p Hsk1) as Hpl.
      rewrite Epl in Hpl. destruct Hpl as (b' & -> & Lb'). cbn [bind].
      assert (Hnz : t_idx (ftb V c') <> 0).
      { pose proof (sstep_items _ _ _ _ _ _ Estep) as Hd. destruct HR' as (_ & _ & _ & _ & _ & _ & _ & Hfr').
        pose proof (files_rel_depth _ _ _ Hfr') as Hd'. unfold items1 in Hd. rewrite file_depth_app in Hd.
        pose proof (file_depth_nonneg (map ILine rs')). unfold file_depth in Hd at 2. cbn [filter length] in Hd.
        pose proof (file_depth_nonneg rest). lia. }
      rewrite (parse_loop_inner fuel c' _ b' _ Hnz).
      specialize (IH s' c' items' b' (rev_append ev macc) HR' Lb'). rewrite rev_rev_append in IH. exact IH.
  Qed.

  Lemma R_nil_idx n0 hw (s : sstate) (c : conf) : R n0 hw s c [] -> t_idx (ftb V c) = 0.
  Proof.
    intros ((_ & _ & ((l & _ & _ & Hi & _) & _)) & _ & _ & _ & _ & _ & _ & Hfr).
    destruct (Z.to_nat (t_idx (ftb V c))) as [|k] eqn:Ek; [lia|].
    cbn [files_rel] in Hfr. destruct Hfr as (e & rs & eo & rest & _ & _ & _ & Habs & _).
    destruct rs; discriminate.
  Qed.

  (* ---- the theorem: spifconf_parse against the specification ---- *)
  Theorem conf_trace n0 hw fuel (s : sstate) (c : conf) name :
    R n0 hw s c [] -> t_idx (ftb V c) = 0 ->
    match sparse fuel s name with
    | Done (s', evs, ret) =>
      exists c', parse fuel c (s_world W V s) name = Ok (c', s_world W V s', evs, ret) /\
                 R n0 hw s' c' [] /\ t_idx (ftb V c') = 0
    | NoFuel => parse fuel c (s_world W V s) name = Fault Out_of_fuel
    | _ => True
    end.
  Proof.
    intros HR E0. pose proof HR as (Hinv & Hhw & Hcx & Hst & Hids & Hv & Hno & Hfr). pose proof Hinv as (Hx & Hcs & Hf).
    unfold ConfSpec.sparse, ConfModel.parse. pose proof (Hfiles name) as Hfile.
    destruct (fsl name) as [[ls nl]|].
    2:{ rewrite Hfile. cbn [bind]. exists c. split; [reflexivity|]. split; [exact HR|exact E0]. }
    destruct Hfile as (hdr & Hh & Hfsn & Hls).
    destruct (open_file_render fs progname name hdr ls nl Hh Hfsn) as (e0 & ->). cbn [bind].
    set (ent := {| f_fp := Some {| sdata := concat (raws ls nl); seof := e0 |}; f_path := Some name; f_outfile := None;
                   f_line := 1; f_skip := false; f_preproc := false; f_owned := false |}).
    destruct (push_file_ok V (add_open V c 1) ent Hf eq_refl) as (t1 & Epush & Hf1 & Hidx1 & Hnew1 & Hold1).
    { split; [eexists; split; [reflexivity|]|discriminate]. cbn [sdata].
      assert (Hall : Forall is_byte (render hdr ls nl)) by (eapply Hfs; eassumption).
      unfold render in Hall. destruct ls as [|l ls'].
      - cbn [raws]. destruct nl; constructor.
      - change (raws (hdr :: l :: ls') nl) with ((hdr ++ [10]) :: raws (l :: ls') nl) in Hall. cbn [concat] in Hall.
        apply Forall_app in Hall. apply Hall. }
    rewrite Epush. cbn [bind].
    assert (Hidx1' : t_idx t1 = 1).
    { rewrite Hidx1. change (ftb V (add_open V c 1)) with (ftb V c). rewrite E0. reflexivity. }
    set (c1 := add_live V (with_ftb V (add_open V c 1) t1) 0).
    assert (HR1 : R n0 hw s c1 (items_of ls nl)).
    { unfold R. split; [split; [exact Hx|split; [exact Hcs|exact Hf1]]|].
      split; [exact Hhw|]. split; [exact Hcx|]. split; [exact Hst|]. split; [exact Hids|]. split; [exact Hv|].
      cbn [nopen ftb c1 add_live with_ftb add_open]. rewrite Hidx1'. split; [lia|].
      change (Z.to_nat 1) with 1%nat. cbn [files_rel]. exists ent, (raws ls nl), e0, [].
      split; [change (Z.of_nat 1) with 1; rewrite <- Hidx1'; exact Hnew1|]. split; [reflexivity|].
      split; [apply raws_wf; assumption|]. split; reflexivity. }
    pose proof (sim_loop n0 hw fuel s c1 (items_of ls nl) (repeat None (Z.to_nat config_buff)) [] HR1
                  ltac:(rewrite repeat_length; reflexivity)) as HL.
    cbn [rev] in HL.
    destruct (srun fuel s (items_of ls nl) []) as [[s' evs]| | |]; try exact I.
    - destruct HL as (c' & macc' & -> & Hev & HR'). cbn [bind]. exists c'. rewrite Hev.
      split; [reflexivity|]. split; [exact HR'|]. exact (R_nil_idx _ _ _ _ HR').
    - rewrite HL. reflexivity.
  Qed.

  (* ---- reaching the relation: after init, and across registrations ---- *)
  Definition sinit (v : V) (w : W) : sstate :=
    {| s_ctxs := [(s_null, HParseNull)]; s_stack := [(0, 0)]; s_vars := v; s_world := w |}.

  Theorem init_R (c : conf) w :
    exists c', init_subsystem V c = Ok c' /\ R (nopen V c) 1 (sinit (vars V c) w) c' [] /\ binv (bit V c').
  Proof.
    destruct (init_ok V c) as (c' & E & Hinv & Hb & Hv & Hn & _ & Hfi & Hci & Hxi & Hsx & Hss).
    exists c'. split; [exact E|]. split; [|exact Hb].
    unfold R, sinit. cbn [s_ctxs s_stack s_vars s_world length].
    split; [exact Hinv|]. split; [reflexivity|].
    split. { split; [cbn [length]; lia|]. split; [|repeat constructor; discriminate].
             intros i b Hi. destruct i as [|i]; [|destruct i; discriminate]. injection Hi as <-. exact Hsx. }
    split. { split; [cbn [length]; lia|]. intros i b Hi. destruct i as [|i]; [|destruct i; discriminate].
             injection Hi as <-. exact Hss. }
    split; [repeat constructor; cbn; lia|]. split; [exact Hv|]. split; [lia|]. rewrite Hfi. reflexivity.
  Qed.

  Theorem register_R n0 hw (s : sstate) (c : conf) name h :
    R n0 hw s c [] -> Z.of_nat (length (s_ctxs W V s)) <= 255 ->
    let '(ctxs', id') := sregister (s_ctxs W V s) name h in
    exists c', register_context V c name h = Ok (c', id') /\
               R n0 (Z.of_nat (length ctxs'))
                 {| s_ctxs := ctxs'; s_stack := s_stack W V s; s_vars := s_vars W V s; s_world := s_world W V s |} c' [] /\
               bit V c' = bit V c.
  Proof.
    intros HR Hmax. pose proof HR as (Hinv & Hhw & Hcx & Hst & Hids & Hv & Hno & Hfr).
    pose proof Hinv as (Hx & Hcs & Hf). pose proof Hx as (Htx & Hhwx & Hsx). pose proof Hcx as (Hcl & Hcrep & Hcnn).
    destruct (register_context_ok V hw c name h Hinv) as (c' & id & hw' & E & Hinv' & Hle & Eb & Ev & En & Efi & Eci & Ehw' & Ecst & Eftb).
    unfold sregister. pose proof E as Ereg. unfold register_context in E.
    destruct widths_ok as ((Hib & Hcb) & _). pose proof Htx as (l0 & _ & _ & Hi0 & _).
    destruct (ci_eq name s_null) eqn:Enull; cbn [negb] in E.
    - (* "null": slot 0 is replaced *)
      destruct (Hsx 0 ltac:(lia)) as (e0 & E0 & _). rewrite (slot_get _ _ _ E0) in E. cbn [bind] in E.
      destruct (t_set_slot (cxt V c) _ 0 {| cx_name := Some name; cx_fun := HUser h |} Htx ltac:(destruct Htx as (l & _ & _ & ? & _); lia))
        as (t' & Et & Ht' & Hidx & Hcnt & Hnew & Hold).
      rewrite Et in E. cbn [bind] in E. injection E as <- <-.
      cbn [cxt add_live with_cxt] in Ehw'. rewrite Hidx in Ehw'.
      destruct (s_ctxs W V s) as [|p0 r] eqn:Ectx; [cbn [length] in Hcl; destruct Htx as (l & _ & _ & ? & _); lia|].
      eexists. split; [exact Ereg|]. split; [|reflexivity].
      unfold R. cbn [s_ctxs s_stack s_vars s_world cxt cst ftb vars nopen add_live with_cxt length].
      cbn [length] in Hhw, Hcl. replace hw' with hw in Hinv' by lia.
      split; [rewrite <- Hhw; exact Hinv'|]. split; [reflexivity|].
      split. { split; [rewrite Hidx; cbn [length]; lia|]. split.
               - intros i b Hi. destruct i as [|i].
                 + injection Hi as <-. exact Hnew.
                 + rewrite Hold by lia. apply Hcrep. exact Hi.
               - inversion Hcnn; subst. constructor; [discriminate|assumption]. }
      split; [exact Hst|]. split; [rewrite <- Hhw; exact Hids|]. split; [exact Hv|]. split; [exact Hno|exact Hfr].
    - (* a new context: appended *)
      destruct (t_bump_store ctx_idx_bits ctx_cnt_bits (cxt V c) {| cx_name := Some name; cx_fun := HUser h |} Hib Hcb Htx)
        as (t' & Et & Ht' & Hidx & Hcnt & Hnew & Hold & Hblk).
      cbv zeta in Et. rewrite Et in E. cbn [bind] in E. injection E as <- <-.
      assert (Hidx' : t_idx t' = t_idx (cxt V c) + 1).
      { rewrite Hidx. apply Z.mod_small. change ctx_idx_bits with 8. destruct Htx as (l & _ & _ & ? & _). lia. }
      cbn [cxt add_live with_cxt] in Ehw'.
      assert (Eid : t_idx (t_bump ctx_idx_bits ctx_cnt_bits (cxt V c)) = Z.of_nat (length (s_ctxs W V s))).
      { unfold t_bump. destruct (_ =? _); cbn [t_idx]; rewrite <- Hidx; lia. }
      rewrite Eid in Ereg. eexists. split; [exact Ereg|]. split; [|reflexivity].
      unfold R. cbn [s_ctxs s_stack s_vars s_world cxt cst ftb vars nopen add_live with_cxt].
      rewrite app_length. cbn [length].
      assert (Ehw2 : hw' = Z.of_nat (length (s_ctxs W V s) + 1)) by lia.
      split; [rewrite <- Ehw2; exact Hinv'|]. split; [reflexivity|].
      split. { split; [rewrite app_length; cbn [length]; lia|]. split.
               - apply (rep_snoc ctx_of (cxt V c) t' (s_ctxs W V s) (name, HUser h)); [exact Hcrep| |].
                 + replace (Z.of_nat (length (s_ctxs W V s))) with (t_idx t') by lia. exact Hnew.
                 + intros j Hj. apply Hold; [lia|]. destruct Htx as (l & _ & _ & ? & _). lia.
               - apply Forall_app. split; [exact Hcnn|repeat constructor; discriminate]. }
      split; [exact Hst|].
      split. { eapply Forall_impl; [|exact Hids]. cbn beta. intros p Hp. lia. }
      split; [exact Hv|]. split; [exact Hno|exact Hfr].
  Qed.

  (* ---- from spifconf_init_subsystem through the registrations to spifconf_parse ---- *)
  Fixpoint reg_all (c : conf) (regs : list (str * Z)) : res conf :=
    match regs with
    | [] => Ok c
    | (n, h) :: r => '(c', _) <- register_context V c n h ;; reg_all c' r
    end.
  Fixpoint sreg_all (ctxs : list (str * hfun)) (regs : list (str * Z)) : list (str * hfun) :=
    match regs with
    | [] => ctxs
    | (n, h) :: r => sreg_all (fst (sregister ctxs n h)) r
    end.

  Lemma sregister_length ctxs n h : (length (fst (sregister ctxs n h)) <= length ctxs + 1)%nat.
  Proof.
    unfold sregister. destruct (ci_eq n s_null).
    - destruct ctxs; cbn; lia.
    - cbn [fst]. rewrite app_length. cbn [length]. lia.
  Qed.

  Lemma reg_all_R n0 : forall regs hw (s : sstate) (c : conf),
    R n0 hw s c [] -> Z.of_nat (length (s_ctxs W V s)) + Z.of_nat (length regs) <= 256 ->
    exists c', reg_all c regs = Ok c' /\
               R n0 (Z.of_nat (length (sreg_all (s_ctxs W V s) regs)))
                 {| s_ctxs := sreg_all (s_ctxs W V s) regs; s_stack := s_stack W V s; s_vars := s_vars W V s;
                    s_world := s_world W V s |} c' [] /\ bit V c' = bit V c.
  Proof.
    induction regs as [|[n h] regs IH]; intros hw s c HR Hlen; cbn [reg_all sreg_all].
    - exists c. split; [reflexivity|]. split; [|reflexivity]. destruct s as [cx sk sv sw]. cbn [s_ctxs s_stack s_vars s_world].
      destruct HR as (H1 & H2 & H3). cbn [s_ctxs] in H2. rewrite <- H2. split; [exact H1|]. split; [exact H2|exact H3].
    - cbn [length] in Hlen. pose proof (register_R n0 hw s c n h HR ltac:(lia)) as HRg.
      destruct (sregister (s_ctxs W V s) n h) as [ctxs' id'] eqn:Es. destruct HRg as (c1 & -> & HR1 & Eb1). cbn [bind fst].
      pose proof (sregister_length (s_ctxs W V s) n h) as Hsl. rewrite Es in Hsl. cbn [fst] in Hsl.
      destruct (IH _ _ c1 HR1) as (c' & -> & HR' & Eb'); [cbn; lia|]. cbn [s_ctxs s_stack s_vars s_world] in HR'.
      exists c'. split; [reflexivity|]. split; [exact HR'|congruence].
  Qed.

  Theorem conf_trace_from_init (c0 : conf) w regs fuel name :
    Z.of_nat (length regs) <= 255 ->
    exists c1 c2, init_subsystem V c0 = Ok c1 /\ reg_all c1 regs = Ok c2 /\
      let s2 := {| s_ctxs := sreg_all [(s_null, HParseNull)] regs; s_stack := [(0, 0)]; s_vars := vars V c0; s_world := w |} in
      match sparse fuel s2 name with
      | Done (s', evs, ret) =>
        exists c', parse fuel c2 w name = Ok (c', s_world W V s', evs, ret) /\
                   t_idx (ftb V c') = 0 /\ nopen V c' = nopen V c0 /\
                   stack_rel (cst V c') (s_stack W V s') /\ vars V c' = s_vars W V s'
      | NoFuel => parse fuel c2 w name = Fault Out_of_fuel
      | _ => True
      end.
  Proof.
    intros Hlen. destruct (init_R c0 w) as (c1 & Ei & HR1 & _).
    assert (Hl2 : Z.of_nat (length (s_ctxs W V (sinit (vars V c0) w))) + Z.of_nat (length regs) <= 256).
    { unfold sinit. cbn [s_ctxs length]. lia. }
    destruct (reg_all_R (nopen V c0) regs 1 (sinit (vars V c0) w) c1 HR1 Hl2) as (c2 & Er & HR2 & _).
    exists c1, c2. split; [exact Ei|]. split; [exact Er|]. cbv zeta.
    cbn [sinit s_ctxs s_stack s_vars s_world] in HR2.
    pose proof (conf_trace (nopen V c0) _ fuel _ c2 name HR2 (R_nil_idx _ _ _ _ HR2)) as HT.
    cbn [s_world] in HT.
    destruct (sparse fuel _ name) as [[[s' evs] ret]| | |]; try exact I; [|exact HT].
    destruct HT as (c' & Ep & HR' & E0). exists c'. split; [exact Ep|]. split; [exact E0|].
    destruct HR' as (_ & _ & _ & Hst & _ & Hv & Hno & _). rewrite E0 in Hno. split; [lia|]. split; assumption.
  Qed.
End Trace.
