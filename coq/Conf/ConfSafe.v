(* Memory safety of the config subsystem model (property C11): an invariant on the tables that
   every operation preserves and under which no load, store or call faults - for arbitrary
   file contents, any nesting depth (the 8-bit indices may wrap), any number of registrations. *)
From LV Require Import Base.Buf Strings.HelpersModel Strings.HelpersProofs Strings.HelpersProofs2.
From LV Require Import Split.SplitModel Split.SplitProofs Split.SplitFrame.
From LV Require Import Conf.ConfModel Conf.ConfSpec Conf.ConfLemmas Conf.ConfTables Conf.ConfLine Conf.ConfWords.
Local Open Scope Z_scope.

(* the widths found in the source tree: every index has at least one bit less than its capacity *)
Lemma widths_ok :
  (0 <= ctx_idx_bits /\ ctx_idx_bits + 1 < ctx_cnt_bits) /\
  (0 <= ctx_state_idx_bits /\ ctx_state_idx_bits + 1 < ctx_state_cnt_bits) /\
  (0 <= fstate_idx_bits /\ fstate_idx_bits + 1 < fstate_cnt_bits) /\
  (0 <= builtin_idx_bits /\ builtin_idx_bits + 1 < builtin_cnt_bits).
Proof.
  unfold ctx_idx_bits, ctx_cnt_bits, ctx_state_idx_bits, ctx_state_cnt_bits, fstate_idx_bits, fstate_cnt_bits,
    builtin_idx_bits, builtin_cnt_bits. lia.
Qed.

Lemma inits_ok :
  0 < ctx_cnt_init <= 2 ^ ctx_idx_bits /\ 0 < ctx_state_cnt_init <= 2 ^ ctx_state_idx_bits /\
  0 < fstate_cnt_init <= 2 ^ fstate_idx_bits /\ builtin_predefined < builtin_cnt_init <= 2 ^ builtin_idx_bits /\
  0 <= builtin_predefined <= 7.
Proof.
  unfold ctx_cnt_init, ctx_idx_bits, ctx_state_cnt_init, ctx_state_idx_bits, fstate_cnt_init, fstate_idx_bits,
    builtin_predefined, builtin_cnt_init, builtin_idx_bits. cbn. lia.
Qed.

Definition ctx_good (e : ctx_t) : Prop := cx_name e <> None /\ cx_fun e <> HNullPtr.
Definition file_good (e : fst_t) : Prop :=
  (exists st, f_fp e = Some st /\ Forall is_byte (sdata st)) /\ f_path e <> None.

(* contexts: everything below the high-water mark hw is a registered context *)
Definition cx_inv (hw : Z) (t : table ctx_t) : Prop :=
  tab_ok ctx_idx_bits t /\ t_idx t < hw <= t_cnt t /\
  forall i, 0 <= i < hw -> exists e, slot t i = Some (Some e) /\ ctx_good e.
(* context states: every entry up to the index holds the id of a registered context *)
Definition cs_inv (hw : Z) (t : table cst_t) : Prop :=
  tab_ok ctx_state_idx_bits t /\
  forall i, 0 <= i <= t_idx t -> exists e, slot t i = Some (Some e) /\ 0 <= cs_id e < hw.
(* file states: every entry from 1 up to the index is an open file *)
Definition ft_inv (t : table fst_t) : Prop :=
  tab_ok fstate_idx_bits t /\
  forall i, 0 <= i <= t_idx t -> exists e, slot t i = Some (Some e) /\ f_skip e = false /\ (1 <= i -> file_good e).

Lemma cs_inv_mono hw hw' t : hw <= hw' -> cs_inv hw t -> cs_inv hw' t.
Proof.
  intros H (Ht & Hs). split; [assumption|]. intros i Hi. destruct (Hs i Hi) as (e & E & B). exists e. split; [assumption|lia].
Qed.

Section Safe.
  Variable W : Type.
  Variable V : Type.
  Variable vnull : V.
  Variable handler : Z -> harg -> Z -> W -> Z * W.
  Variable expand : str -> V -> str * V * list str.
  Variable preproc_out : str -> option (list byte).
  Variable fs : str -> option (list byte).
  Variable progname : str.

  Notation conf := (conf V).
  Notation open_file := (open_file fs progname).
  Notation call := (call W V handler).
  Notation ctx_begin := (ctx_begin W V handler).
  Notation ctx_end := (ctx_end W V handler).
  Notation pl_str := (pl_str W V handler expand preproc_out fs progname).
  Notation parse_line := (parse_line W V handler expand preproc_out fs progname).
  Notation parse_loop := (parse_loop W V handler expand preproc_out fs progname).
  Notation parse := (parse W V handler expand preproc_out fs progname).

  Definition cinvh (hw : Z) (c : conf) : Prop :=
    cx_inv hw (cxt V c) /\ cs_inv hw (cst V c) /\ ft_inv (ftb V c).

  Definition is_call (e : event) : Prop := match e with EvCall _ _ _ _ => True | EvSpawn _ => False end.

  (* ---- calls ---- *)
  Lemma call_ok hw (c : conf) w id a s :
    cx_inv hw (cxt V c) -> 0 <= id < hw ->
    exists s' w' ev, call c w id a s = Ok (s', w', ev) /\ Forall is_call ev.
  Proof.
    intros (_ & _ & Hs) Hid. destruct (Hs id Hid) as (e & E & (_ & Hf)).
    unfold ConfModel.call. rewrite (slot_get _ _ _ E). cbn [bind].
    destruct (cx_fun e) as [| |k]; [contradiction| |].
    - do 3 eexists. split; [reflexivity|]. repeat constructor.
    - destruct (handler k a s w) as [s' w']. do 3 eexists. split; [reflexivity|]. repeat constructor.
  Qed.

  (* ---- context-state stack ---- *)
  Lemma cpeek_ok hw (c : conf) :
    cs_inv hw (cst V c) -> exists top, cpeek V c = Ok top /\ 0 <= cs_id top < hw.
  Proof.
    intros ((l & Hm & Hl & Hi & _) & Hs). destruct (Hs (t_idx (cst V c)) ltac:(lia)) as (e & E & B).
    exists e. split; [apply slot_get; assumption|assumption].
  Qed.

  Lemma cpoke_ok hw (c : conf) s :
    cs_inv hw (cst V c) ->
    exists t', cpoke_state V c s = Ok (with_cst V c t') /\ cs_inv hw t' /\ t_idx t' = t_idx (cst V c).
  Proof.
    intros Hinv. destruct (cpeek_ok hw c Hinv) as (top & Htop & Hb). destruct Hinv as (Ht & Hs).
    unfold cpoke_state. rewrite Htop. cbn [bind].
    pose proof Ht as (l & Hm & Hl & Hi & _).
    destruct (t_set_slot (cst V c) _ (t_idx (cst V c)) {| cs_id := cs_id top; cs_state := s |} Ht ltac:(lia))
      as (t' & -> & Ht' & Hidx & Hcnt & Hnew & Hold).
    cbn [bind]. exists t'. split; [reflexivity|]. split; [|assumption].
    split; [assumption|]. intros i Hi'. rewrite Hidx in Hi'.
    destruct (Z.eq_dec i (t_idx (cst V c))) as [->|Hne].
    - eexists. split; [exact Hnew|]. cbn. assumption.
    - rewrite (Hold i Hne). apply Hs. lia.
  Qed.

  Lemma push_state_ok hw (c : conf) id :
    cs_inv hw (cst V c) -> 0 <= id < hw ->
    exists t', register_context_state V c id = Ok (with_cst V c t') /\ cs_inv hw t' /\
               t_idx t' = (t_idx (cst V c) + 1) mod 2 ^ ctx_state_idx_bits /\
               slot t' (t_idx t') = Some (Some {| cs_id := id; cs_state := 0 |}) /\
               (forall j, j <> t_idx t' -> 0 <= j < t_cnt (cst V c) -> slot t' j = slot (cst V c) j).
  Proof.
    intros (Ht & Hs) Hid. destruct widths_ok as (_ & (Hib & Hcb) & _).
    destruct (t_bump_store ctx_state_idx_bits ctx_state_cnt_bits (cst V c) {| cs_id := id; cs_state := 0 |} Hib Hcb Ht)
      as (t' & E & Ht' & Hidx & Hcnt & Hnew & Hold & Hblk).
    unfold register_context_state. cbv zeta in E. rewrite E. cbn [bind]. rewrite Hblk, Z.sub_diag.
    exists t'. split.
    { f_equal. unfold add_live, with_cst. cbn. f_equal. lia. }
    split; [|auto]. split; [assumption|].
    intros i Hi. destruct (Z.eq_dec i (t_idx t')) as [->|Hne].
    - eexists. split; [exact Hnew|]. cbn. assumption.
    - pose proof Ht as (l & Hm & Hl & Hi0 & Hb0 & _).
      assert (Hr : 0 <= i <= t_idx (cst V c)).
      { rewrite Hidx in *. destruct (Z.eq_dec (t_idx (cst V c) + 1) (2 ^ ctx_state_idx_bits)) as [E2|E2].
        - rewrite E2, Z.mod_same in * by lia. lia.
        - rewrite Z.mod_small in * by lia. lia. }
      rewrite (Hold i Hne) by lia. apply Hs. assumption.
  Qed.

  (* ---- ctx_name_to_id ---- *)
  Lemma name_to_id_ok hw (c : conf) name : cx_inv hw (cxt V c) ->
    forall n i, 0 <= i -> i + Z.of_nat n <= hw ->
    exists id, name_to_id V c name i n = Ok id /\ 0 <= id < hw.
  Proof.
    intros (Ht & Hhw & Hs). induction n as [|n IH]; intros i Hi Hn; cbn [name_to_id].
    - exists 0. split; [reflexivity|]. destruct Ht as (l & _ & _ & ? & _). lia.
    - destruct (Hs i ltac:(lia)) as (e & E & (Hnm & _)). rewrite (slot_get _ _ _ E). cbn [bind].
      destruct (cx_name e) as [nm|]; [|contradiction].
      destruct (ci_eq name nm); [exists i; split; [reflexivity|lia]|]. apply IH; lia.
  Qed.

  (* the parts of the subsystem a line never touches *)
  Definition same_misc (c c' : conf) : Prop :=
    cxt V c' = cxt V c /\ bit V c' = bit V c /\ nopen V c' = nopen V c /\ live V c' = live V c.

  Lemma ctx_begin_ok hw (c : conf) w nm :
    cinvh hw c ->
    exists t' w' ev, ctx_begin c w nm = Ok (with_cst V c t', w', ev) /\ cs_inv hw t' /\ Forall is_call ev.
  Proof.
    intros (Hx & Hcs & Hf). pose proof Hx as (Htx & Hhw & _).
    unfold ConfModel.ctx_begin.
    destruct (name_to_id_ok hw c nm Hx (Z.to_nat (t_idx (cxt V c) + 1)) 0 ltac:(lia)) as (id & -> & Hid).
    { destruct Htx as (l & _ & _ & ? & _). lia. }
    cbn [bind].
    destruct (push_state_ok hw c id Hcs Hid) as (t1 & -> & Hcs1 & Hidx1 & Hnew & _). cbn [bind].
    set (c1 := with_cst V c t1).
    change (cst V c1) with t1. set (i := t_idx t1).
    pose proof Hcs1 as (Ht1 & Hs1). pose proof Ht1 as (l1 & _ & _ & Hi1 & _).
    destruct (Hs1 (if i =? 0 then 0 else i - 1)) as (below & Eb & _).
    { fold i in Hi1. destruct (Z.eqb_spec i 0); lia. }
    rewrite (slot_get _ _ _ Eb). cbn [bind].
    destruct (call_ok hw c1 w id HBegin (cs_state below) Hx Hid) as (s' & w' & ev & -> & Hev). cbn [bind].
    destruct (cpoke_ok hw c1 s' Hcs1) as (t2 & -> & Hcs2 & _). cbn [bind].
    exists t2, w', ev. split; [reflexivity|]. split; assumption.
  Qed.

  (* ---- file-state stack ---- *)
  Lemma fpeek_ok (c : conf) :
    ft_inv (ftb V c) ->
    exists f, fpeek V c = Ok f /\ f_skip f = false /\ (1 <= t_idx (ftb V c) -> file_good f).
  Proof.
    intros ((l & Hm & Hl & Hi & _) & Hs). destruct (Hs (t_idx (ftb V c)) ltac:(lia)) as (e & E & B).
    exists e. split; [apply slot_get; assumption|assumption].
  Qed.

  Lemma fpoke_ok (c : conf) e :
    ft_inv (ftb V c) -> f_skip e = false -> (1 <= t_idx (ftb V c) -> file_good e) ->
    exists t', fpoke V c e = Ok (with_ftb V c t') /\ ft_inv t' /\ t_idx t' = t_idx (ftb V c) /\
               slot t' (t_idx t') = Some (Some e) /\
               (forall j, j <> t_idx t' -> slot t' j = slot (ftb V c) j).
  Proof.
    intros (Ht & Hs) Hsk Hg. pose proof Ht as (l & Hm & Hl & Hi & _).
    destruct (t_set_slot (ftb V c) _ (t_idx (ftb V c)) e Ht ltac:(lia)) as (t' & E & Ht' & Hidx & Hcnt & Hnew & Hold).
    unfold fpoke. rewrite E. cbn [bind]. exists t'. split; [reflexivity|]. rewrite Hidx.
    split; [|split; [reflexivity|split; [assumption|assumption]]].
    split; [assumption|]. intros i Hi'. rewrite Hidx in Hi'.
    destruct (Z.eq_dec i (t_idx (ftb V c))) as [->|Hne].
    - exists e. split; [assumption|]. split; [assumption|assumption].
    - rewrite (Hold i Hne). apply Hs. lia.
  Qed.

  Lemma push_file_ok (c : conf) e :
    ft_inv (ftb V c) -> f_skip e = false -> file_good e ->
    exists t', register_fstate V c e = Ok (add_live V (with_ftb V c t') 0) /\ ft_inv t' /\
               t_idx t' = (t_idx (ftb V c) + 1) mod 2 ^ fstate_idx_bits /\
               slot t' (t_idx t') = Some (Some e) /\
               (forall j, j <> t_idx t' -> 0 <= j < t_cnt (ftb V c) -> slot t' j = slot (ftb V c) j).
  Proof.
    intros (Ht & Hs) Hsk Hg. destruct widths_ok as (_ & _ & (Hib & Hcb) & _).
    destruct (t_bump_store fstate_idx_bits fstate_cnt_bits (ftb V c) e Hib Hcb Ht)
      as (t' & E & Ht' & Hidx & Hcnt & Hnew & Hold & Hblk).
    unfold register_fstate. destruct Hg as ((st & Hfp & Hb) & Hp). rewrite Hfp.
    destruct (f_path e) as [p|] eqn:Ep; [|contradiction].
    cbv zeta in E. rewrite E. cbn [bind]. rewrite Hblk, Z.sub_diag.
    exists t'. split; [reflexivity|]. split; [|auto].
    split; [assumption|]. intros i Hi. destruct (Z.eq_dec i (t_idx t')) as [->|Hne].
    - exists e. split; [assumption|]. split; [assumption|]. intros _. split; [eauto|congruence].
    - pose proof Ht as (l & Hm & Hl & Hi0 & Hb0 & _).
      assert (Hr : 0 <= i <= t_idx (ftb V c)).
      { rewrite Hidx in *. destruct (Z.eq_dec (t_idx (ftb V c) + 1) (2 ^ fstate_idx_bits)) as [E2|E2].
        - rewrite E2, Z.mod_same in * by lia. lia.
        - rewrite Z.mod_small in * by lia. lia. }
      rewrite (Hold i Hne) by lia. apply Hs. assumption.
  Qed.

  Lemma push_file_cnt (c : conf) e t' :
    ft_inv (ftb V c) -> file_good e ->
    register_fstate V c e = Ok (add_live V (with_ftb V c t') 0) -> t_cnt (ftb V c) <= t_cnt t'.
  Proof.
    intros (Ht & _) ((st & Hfp & _) & Hp) E. destruct widths_ok as (_ & _ & (Hib & Hcb) & _).
    destruct (t_bump_store fstate_idx_bits fstate_cnt_bits (ftb V c) e Hib Hcb Ht) as (t2 & E2 & _ & _ & Hcnt & _).
    unfold register_fstate in E. rewrite Hfp in E. destruct (f_path e); [|contradiction].
    cbv zeta in E2. rewrite E2 in E. cbn [bind] in E. injection E as E. subst t'. exact Hcnt.
  Qed.

  Lemma ctx_end_ok hw (c : conf) w id :
    cinvh hw c -> 0 <= id < hw ->
    exists c' w' ev, ctx_end c w id = Ok (c', w', ev) /\ cinvh hw c' /\ same_misc c c' /\ vars V c' = vars V c /\
                     t_idx (ftb V c') = t_idx (ftb V c) /\ Forall is_call ev /\
                     (forall i e', slot (ftb V c') i = Some (Some e') ->
                        exists e, slot (ftb V c) i = Some (Some e) /\ f_fp e' = f_fp e) /\
                     (ftb V c' = ftb V c \/
                      exists f, slot (ftb V c) (t_idx (ftb V c)) = Some (Some f) /\ t_cnt (ftb V c') = t_cnt (ftb V c) /\
                                slot (ftb V c') (t_idx (ftb V c)) = Some (Some (set_skip f false)) /\
                                forall j, j <> t_idx (ftb V c) -> slot (ftb V c') j = slot (ftb V c) j).
  Proof.
    intros (Hx & Hcs & Hf) Hid. unfold ConfModel.ctx_end.
    destruct (Z.eqb_spec (t_idx (cst V c)) 0) as [E0|E0].
    { exists c, w, []. split; [reflexivity|]. split; [split; [|split]; assumption|].
      split; [repeat split|]. split; [reflexivity|]. split; [reflexivity|]. split; [constructor|]. split; [eauto|left; reflexivity]. }
    destruct (cpeek_ok hw c Hcs) as (top & -> & _). cbn [bind].
    destruct (call_ok hw c w id HEnd (cs_state top) Hx Hid) as (s' & w' & ev & -> & Hev). cbn [bind].
    destruct (cpoke_ok hw c 0 Hcs) as (t1 & -> & Hcs1 & Hidx1). cbn [bind].
    set (c1 := with_cst V c t1).
    (* the pop: the index is at least 1, so it simply goes down *)
    pose proof Hcs1 as (Ht1 & Hs1). pose proof Ht1 as (l1 & Hm1 & Hl1 & Hi1 & Hb1 & Hc1).
    assert (Hpop : (t_idx t1 - 1) mod 2 ^ ctx_state_idx_bits = t_idx t1 - 1) by (apply Z.mod_small; lia).
    set (c2 := ctx_pop V c1).
    assert (Hcs2 : cs_inv hw (cst V c2)).
    { assert (E2 : cst V c2 = Build_table (t_mem t1) (t_cnt t1) (t_idx t1 - 1)).
      { unfold c2, ctx_pop. cbn [cst with_cst]. change (cst V c1) with t1. now rewrite Hpop. }
      rewrite E2. split.
      - exists l1. cbn [t_mem t_cnt t_idx]. repeat split; auto; lia.
      - intros i Hi. cbn [t_idx] in Hi. destruct (Hs1 i ltac:(lia)) as (e & E & B). exists e. split; [|assumption].
        unfold slot in *. cbn [t_mem]. rewrite Hm1 in *. assumption. }
    destruct (cpeek_ok hw c2 Hcs2) as (top2 & -> & _). cbn [bind].
    destruct (cpoke_ok hw c2 s' Hcs2) as (t3 & -> & Hcs3 & _). cbn [bind].
    set (c3 := with_cst V c2 t3).
    assert (Hf3 : ft_inv (ftb V c3)) by exact Hf.
    destruct (fpeek_ok c3 Hf3) as (f & Hfpk & Hsk & Hg). rewrite Hfpk. cbn [bind].
    destruct (fpoke_ok c3 {| f_fp := f_fp f; f_path := f_path f; f_outfile := f_outfile f; f_line := f_line f;
                             f_skip := false; f_preproc := f_preproc f; f_owned := f_owned f |} Hf3 eq_refl)
      as (t4 & Efk & Hf4 & Hidx4 & Hnew4 & Hold4).
    { intros H1. specialize (Hg H1). exact Hg. }
    assert (Hcnt4 : t_cnt t4 = t_cnt (ftb V c)).
    { unfold fpoke in Efk. destruct (t_set (ftb V c3) (t_idx (ftb V c3)) _) as [tt|] eqn:Ets; cbn [bind] in Efk; [|discriminate].
      injection Efk as Etq. apply t_set_cnt in Ets as [Ec _]. subst tt. exact Ec. }
    rewrite Efk. cbn [bind]. do 3 eexists. split; [reflexivity|].
    split; [split; [exact Hx|split; [exact Hcs3|exact Hf4]]|].
    split; [repeat split|]. split; [reflexivity|]. split; [exact Hidx4|]. split; [exact Hev|]. split.
    - intros i e' Hs. cbn [ftb with_ftb] in Hs. destruct (Z.eq_dec i (t_idx t4)) as [->|Hne].
      + rewrite Hnew4 in Hs. injection Hs as <-. exists f. split; [|reflexivity].
        rewrite Hidx4. apply get_slot. assumption.
      + rewrite (Hold4 i Hne) in Hs. eauto.
    - right. exists f. change (ftb V c3) with (ftb V c) in *. cbn [ftb with_ftb].
      split; [apply get_slot; exact Hfpk|]. split.
      { exact Hcnt4. }
      split; [rewrite <- Hidx4; exact Hnew4|]. intros j Hj. apply Hold4. rewrite Hidx4. exact Hj.
  Qed.

  (* ---- what is assumed about the parameters ---- *)
  Hypothesis Hfs : forall n content, fs n = Some content -> Forall is_byte content.
  Hypothesis Hpp : forall cmd out, preproc_out cmd = Some out -> Forall is_byte out.
  Hypothesis Hexp : expand_fits V expand.
  Hypothesis Hinc : expand_keeps_include V expand.

  Lemma fgets_bytes size st r st' :
    fgets size st = (r, st') -> Forall is_byte (sdata st) ->
    Forall is_byte (sdata st') /\ (forall chunk, r = Some chunk -> Forall is_byte chunk /\ Z.of_nat (length chunk) <= Z.max 0 (size - 1)).
  Proof.
    unfold fgets. destruct (sdata st) as [|d0 d] eqn:Ed.
    - intros [= <- <-] _. split; [constructor|discriminate].
    - destruct (take_line (size - 1) (d0 :: d)) as [chunk rest] eqn:Et.
      intros [= <- <-] Hb. destruct (take_line_bytes _ _ _ _ Et Hb) as [Hc Hr].
      destruct (take_line_length _ _ _ _ Et) as [Hl _].
      split; [exact Hr|]. intros ? [= <-]. split; [assumption|lia].
  Qed.

  Lemma fgets_progress size st chunk st' :
    2 <= size -> fgets size st = (Some chunk, st') -> (length (sdata st') < length (sdata st))%nat.
  Proof.
    intros Hs. unfold fgets. destruct (sdata st) as [|d0 d] eqn:Ed; [discriminate|].
    destruct (take_line (size - 1) (d0 :: d)) as [ch rest] eqn:Et.
    intros [= <- <-]. cbn [sdata].
    pose proof (take_line_nonempty (size - 1) _ _ _ ltac:(lia) Et ltac:(discriminate)) as Hne.
    destruct (take_line_length _ _ _ _ Et) as [_ E]. rewrite E, app_length.
    destruct ch; [congruence|cbn [length]; lia].
  Qed.

  Lemma open_file_ok name :
    exists r, open_file name = Ok r /\ (forall st, r = Some st -> Forall is_byte (sdata st)).
  Proof.
    unfold ConfModel.open_file. destruct name as [nm|]; [|exists None; split; [reflexivity|discriminate]].
    destruct (fs nm) as [content|] eqn:Ef; [|exists None; split; [reflexivity|discriminate]].
    pose proof (Hfs _ _ Ef) as Hb.
    destruct (fgets open_fgets_size {| sdata := content; seof := false |}) as [r st] eqn:Eg.
    destruct (fgets_bytes _ _ _ _ Eg Hb) as [Hst Hr].
    assert (Hbs : Z.to_nat open_buff_size = 256%nat) by reflexivity.
    destruct r as [chunk|].
    - destruct (Hr chunk eq_refl) as [Hc Hl]. change (Z.max 0 (open_fgets_size - 1)) with 255 in Hl.
      destruct (put_str_data (repeat None (Z.to_nat open_buff_size)) chunk) as (rest & -> & _).
      { rewrite repeat_length, Hbs. lia. }
      { assumption. }
      cbn [bind]. rewrite cstring_cstr by (apply cstr_of_nz; assumption). cbn [bind].
      destruct (beg_ci _ _); eexists; (split; [reflexivity|]); [intros ? [= <-]; assumption|discriminate].
    - rewrite wrn_ok by (rewrite repeat_length, Hbs; lia). cbn [bind].
      change (Z.to_nat open_buff_size) with 256%nat. cbn [repeat upd cstring Z.eqb bind].
      destruct (beg_ci _ _); eexists; (split; [reflexivity|]); [intros ? [= <-]; assumption|discriminate].
  Qed.

  (* ---- one line ---- *)
  Lemma pl_str_ok hw (c : conf) w raw :
    cinvh hw c -> Forall nz_byte raw ->
    exists c' w' ev, pl_str c w raw = Ok (c', w', ev) /\ cinvh hw c' /\ cxt V c' = cxt V c /\ bit V c' = bit V c.
  Proof.
    intros Hinv Hraw. pose proof Hinv as (Hx & Hcs & Hf).
    unfold ConfLine.pl_str. destruct (classify raw) as [|t|t|t|t| |t] eqn:Ecl.
    - do 3 eexists. split; [reflexivity|]. split; [exact Hinv|]. split; reflexivity.
    - (* %include *)
      destruct (expand t (vars V c)) as [[t' v'] cmds]. cbn [bind].
      destruct (gw 2 (skipn 1 t')) as [path|] eqn:Ep.
      2:{ cbn [ConfModel.open_file bind]. do 3 eexists. split; [reflexivity|]. split; [exact Hinv|]. split; reflexivity. }
      destruct (open_file_ok (Some path)) as (r & -> & Hr). cbn [bind].
      destruct r as [st|].
      + set (c2 := add_open V (add_live V (with_vars V c v') 1) 1).
        destruct (push_file_ok c2 {| f_fp := Some st; f_path := Some path; f_outfile := None; f_line := 1;
                                     f_skip := false; f_preproc := false; f_owned := true |} Hf eq_refl)
          as (t1 & -> & Hf1 & _).
        { split; [exists st; split; [reflexivity|apply Hr; reflexivity]|discriminate]. }
        cbn [bind]. do 3 eexists. split; [reflexivity|]. split; [split; [exact Hx|split; [exact Hcs|exact Hf1]]|].
        split; reflexivity.
      + do 3 eexists. split; [reflexivity|]. split; [exact Hinv|]. split; reflexivity.
    - (* %preproc *)
      destruct (fpeek_ok c Hf) as (f & -> & Hsk & Hg). cbn [bind].
      destruct (f_preproc f); [do 3 eexists; split; [reflexivity|]; split; [exact Hinv|]; split; reflexivity|].
      destruct (preproc_out _) as [out|] eqn:Eo.
      + destruct (fpoke_ok c {| f_fp := Some {| sdata := out; seof := false |}; f_path := f_path f;
                               f_outfile := Some s_preproc_tmpl; f_line := f_line f;
                               f_skip := f_skip f; f_preproc := true; f_owned := f_owned f |} Hf Hsk)
          as (t1 & -> & Hf1 & _).
        { intros H1. destruct (Hg H1) as (_ & Hp). split; [|exact Hp].
          eexists. split; [reflexivity|]. cbn. eapply Hpp; eassumption. }
        cbn [bind]. do 3 eexists. split; [reflexivity|]. split; [split; [exact Hx|split; [exact Hcs|exact Hf1]]|].
        split; reflexivity.
      + do 3 eexists. split; [reflexivity|]. split; [exact Hinv|]. split; reflexivity.
    - (* % other *)
      destruct (expand t (vars V c)) as [[t' v'] cmds]. do 3 eexists. split; [reflexivity|].
      split; [exact Hinv|]. split; reflexivity.
    - (* begin *)
      pose proof (gw_begin_some raw t Hraw Ecl) as Hne.
      destruct (gw 2 t) as [nm|]; [|contradiction].
      destruct (ctx_begin_ok hw c w nm Hinv) as (t1 & w' & ev & -> & Hcs1 & _).
      do 3 eexists. split; [reflexivity|]. split; [split; [exact Hx|split; [exact Hcs1|exact Hf]]|]. split; reflexivity.
    - (* end *)
      destruct (cpeek_ok hw c Hcs) as (top & -> & Hid). cbn [bind].
      destruct (ctx_end_ok hw c w (cs_id top) Hinv Hid) as (c' & w' & ev & -> & Hinv' & (E1 & E2 & _) & _).
      do 3 eexists. split; [reflexivity|]. split; [exact Hinv'|]. split; assumption.
    - (* text *)
      destruct (cpeek_ok hw c Hcs) as (top & -> & Hid). cbn [bind].
      destruct (expand t (vars V c)) as [[t' v'] cmds].
      set (c2 := with_vars V c v').
      destruct (cpeek_ok hw c2 Hcs) as (top2 & -> & _). cbn [bind].
      destruct (call_ok hw c2 w (cs_id top) (HText t') (cs_state top2) Hx Hid) as (s' & w' & ev & -> & _). cbn [bind].
      destruct (cpoke_ok hw c2 s' Hcs) as (t1 & -> & Hcs1 & _). cbn [bind].
      do 3 eexists. split; [reflexivity|]. split; [split; [exact Hx|split; [exact Hcs1|exact Hf]]|]. split; reflexivity.
  Qed.

  (* ---- the reading loop ---- *)
  Lemma config_buff_val : config_buff = 20480.
  Proof. reflexivity. Qed.

  Lemma skip_long_ok : forall n st buff,
    (length (sdata st) < n)%nat -> Forall is_byte (sdata st) -> Z.of_nat (length buff) = config_buff ->
    exists st' b', skip_long n st buff = Ok (st', b') /\ Forall is_byte (sdata st') /\ Z.of_nat (length b') = config_buff.
  Proof.
    induction n as [|n IH]; intros st buff Hn Hb Hl; [lia|]. cbn [skip_long].
    destruct (fgets config_buff st) as [r st'] eqn:Eg.
    destruct (fgets_bytes _ _ _ _ Eg Hb) as [Hst Hr].
    destruct r as [chunk|].
    - destruct (Hr chunk eq_refl) as [Hc Hlc]. rewrite config_buff_val in Hlc, Hl.
      destruct (put_str_data buff chunk ltac:(lia) Hc) as (rest & -> & L). cbn [bind].
      rewrite cstring_cstr by (apply cstr_of_nz; assumption). cbn [bind].
      destruct (has_byte 10 (cstr_of chunk)).
      + do 2 eexists. split; [reflexivity|]. split; [assumption|]. rewrite config_buff_val. lia.
      + apply IH; [|assumption|rewrite config_buff_val; lia].
        pose proof (fgets_progress config_buff st chunk st' ltac:(rewrite config_buff_val; lia) Eg). lia.
    - do 2 eexists. split; [reflexivity|]. split; assumption.
  Qed.

  (* ---- beyond 255 nested files: once the 8-bit file index has wrapped, every one of the 2^8 slots it can
     reach holds an open file, and that stays so ---- *)
  Definition fall (t : table fst_t) : Prop :=
    2 ^ fstate_idx_bits <= t_cnt t /\
    forall i, 0 <= i < 2 ^ fstate_idx_bits -> exists e, slot t i = Some (Some e) /\ f_skip e = false /\ file_good e.

  (* what a line can do to the file table: nothing, rewrite the top entry, or push an entry *)
  Definition ftb_step (t t' : table fst_t) : Prop :=
    t' = t \/
    exists k e, (k = t_idx t \/ k = (t_idx t + 1) mod 2 ^ fstate_idx_bits) /\ t_idx t' = k /\ t_cnt t <= t_cnt t' /\
                slot t' k = Some (Some e) /\ f_skip e = false /\ file_good e /\
                (forall j, j <> k -> 0 <= j < t_cnt t -> slot t' j = slot t j).

  Lemma step_fall t t' : ftb_step t t' -> tab_ok fstate_idx_bits t -> fall t -> fall t'.
  Proof.
    intros [->|(k & e & _ & _ & Hc & Hn & Hsk & Hg & Ho)] Ht (Hcnt & Ha); [split; assumption|].
    split; [lia|]. intros i Hi. destruct (Z.eq_dec i k) as [->|Hne]; [eauto|].
    rewrite Ho by lia. apply Ha. exact Hi.
  Qed.

  Lemma step_wrap t t' :
    ftb_step t t' -> ft_inv t -> (1 <= t_idx t \/ fall t) -> (1 <= t_idx t' \/ fall t').
  Proof.
    intros Hstep (Ht & Hs) Hm. pose proof Ht as (l & Hm0 & Hl & Hi & Hb & Hc).
    destruct widths_ok as (_ & _ & (Hib & _) & _). pose proof (pow2_pos fstate_idx_bits Hib) as Hp.
    destruct Hm as [H1|Hfall]; [|right; eapply step_fall; eauto].
    destruct Hstep as [->|(k & e & Hk & Hidx & Hcnt & Hn & Hsk & Hg & Ho)]; [left; assumption|].
    destruct Hk as [->| ->]; [left; lia|].
    destruct (Z.eq_dec (t_idx t + 1) (2 ^ fstate_idx_bits)) as [E|E].
    - (* the wrap: slots 1 .. 2^8 - 1 are open files, slot 0 is the new one *)
      right. rewrite E, Z.mod_same in * by lia. split; [lia|].
      intros i Hi'. destruct (Z.eq_dec i 0) as [->|Hne]; [eauto|].
      rewrite Ho by lia. destruct (Hs i ltac:(lia)) as (e1 & E1 & S1 & G1). exists e1. split; [assumption|]. split; [assumption|apply G1; lia].
    - left. rewrite Hidx, Z.mod_small by lia. lia.
  Qed.

  (* the file table across one line *)
  Lemma pl_str_files hw (c : conf) w raw c' w' ev :
    cinvh hw c -> (1 <= t_idx (ftb V c) \/ fall (ftb V c)) -> Forall nz_byte raw ->
    pl_str c w raw = Ok (c', w', ev) -> ftb_step (ftb V c) (ftb V c').
  Proof.
    intros Hinv Hm Hraw. pose proof Hinv as (Hx & Hcs & Hf).
    assert (Htop : forall f, fpeek V c = Ok f -> f_skip f = false /\ file_good f).
    { intros f Hfp. destruct (fpeek_ok c Hf) as (f' & E' & Hsk & Hg). rewrite Hfp in E'. injection E' as <-.
      split; [assumption|]. destruct Hm as [H1|(_ & Ha)]; [apply Hg; assumption|].
      destruct Hf as ((l & _ & _ & ? & ? & _) & _). destruct (Ha (t_idx (ftb V c)) ltac:(lia)) as (e & Es & _ & Ge).
      apply get_slot in Hfp. unfold fpeek in *. congruence. }
    unfold ConfLine.pl_str. destruct (classify raw) as [|t|t|t|t| |t] eqn:Ecl.
    - intros [= <- <- <-]. left. reflexivity.
    - destruct (expand t (vars V c)) as [[t' v'] cmds].
      destruct (gw 2 (skipn 1 t')) as [path|] eqn:Ep.
      2:{ cbn [ConfModel.open_file bind]. intros [= <- <- <-]. left. reflexivity. }
      destruct (open_file_ok (Some path)) as (r & -> & Hr). cbn [bind].
      destruct r as [st|]; [|intros [= <- <- <-]; left; reflexivity].
      set (c2 := add_open V (add_live V (with_vars V c v') 1) 1).
      set (ent := {| f_fp := Some st; f_path := Some path; f_outfile := None; f_line := 1;
                     f_skip := false; f_preproc := false; f_owned := true |}).
      assert (Hge : file_good ent) by (split; [exists st; split; [reflexivity|apply Hr; reflexivity]|discriminate]).
      destruct (push_file_ok c2 ent Hf eq_refl Hge) as (t1 & Epush & Hf1 & Hidx1 & Hnew1 & Hold1). rewrite Epush. cbn [bind].
      intros [= <- <- <-]. right. exists (t_idx t1), ent. cbn [ftb add_live with_ftb].
      split; [right; exact Hidx1|]. split; [reflexivity|]. split.
      { change (ftb V c) with (ftb V c2). apply (push_file_cnt c2 ent t1 Hf Hge Epush). }
      split; [exact Hnew1|]. split; [reflexivity|]. split; [exact Hge|]. intros j Hj Hr1. apply Hold1; assumption.
    - destruct (fpeek_ok c Hf) as (f & Hfp & Hsk & Hg). rewrite Hfp. cbn [bind]. destruct (Htop f Hfp) as (_ & Hgf).
      destruct (f_preproc f); [intros [= <- <- <-]; left; reflexivity|].
      destruct (preproc_out _) as [out|] eqn:Eo; [|intros [= <- <- <-]; left; reflexivity].
      set (ent := {| f_fp := Some {| sdata := out; seof := false |}; f_path := f_path f;
                     f_outfile := Some s_preproc_tmpl; f_line := f_line f;
                     f_skip := f_skip f; f_preproc := true; f_owned := f_owned f |}).
      assert (Hge : file_good ent).
      { destruct Hgf as (_ & Hp). split; [|exact Hp]. eexists. split; [reflexivity|]. cbn. eapply Hpp; eassumption. }
      destruct (fpoke_ok c ent Hf Hsk (fun _ => Hge)) as (t1 & Efk & Hf1 & Hidx1 & Hnew1 & Hold1). rewrite Efk. cbn [bind].
      intros [= <- <- <-]. right. exists (t_idx (ftb V c)), ent. cbn [ftb add_live with_ftb].
      split; [left; reflexivity|]. split; [exact Hidx1|]. split.
      { unfold fpoke in Efk. destruct (t_set (ftb V c) (t_idx (ftb V c)) ent) as [tt|] eqn:Ets; cbn [bind] in Efk; [|discriminate].
        injection Efk as Etq. apply t_set_cnt in Ets as [Ec _]. subst tt. lia. }
      split; [rewrite <- Hidx1; exact Hnew1|]. split; [exact Hsk|]. split; [exact Hge|].
      intros j Hj _. apply Hold1. rewrite Hidx1. exact Hj.
    - destruct (expand t (vars V c)) as [[t' v'] cmds]. intros [= <- <- <-]. left. reflexivity.
    - destruct (gw 2 t) as [nm|]; [|discriminate].
      destruct (ctx_begin_ok hw c w nm Hinv) as (t1 & w1 & ev1 & -> & _). intros [= <- <- <-]. left. reflexivity.
    - destruct (cpeek_ok hw c Hcs) as (top & -> & Hid). cbn [bind].
      destruct (ctx_end_ok hw c w (cs_id top) Hinv Hid) as (c1 & w1 & ev1 & -> & _ & _ & _ & Hidx & _ & _ & Hfr).
      intros [= <- <- <-]. destruct Hfr as [->|(f & Hsf & Hcnt & Hnew & Hold)]; [left; reflexivity|].
      destruct (Htop f (slot_get _ _ _ Hsf)) as (Hskf & Hgf).
      right. exists (t_idx (ftb V c)), (set_skip f false). split; [left; reflexivity|]. split; [exact Hidx|].
      split; [lia|]. split; [exact Hnew|]. split; [reflexivity|].
      split; [destruct Hgf as ((st & Hst & Hb) & Hp); split; [exists st; split; assumption|exact Hp]|].
      intros j Hj _. apply Hold. exact Hj.
    - destruct (cpeek_ok hw c Hcs) as (top & -> & Hid). cbn [bind].
      destruct (expand t (vars V c)) as [[t' v'] cmds]. set (c2 := with_vars V c v').
      destruct (cpeek_ok hw c2 Hcs) as (top2 & -> & _). cbn [bind].
      destruct (call_ok hw c2 w (cs_id top) (HText t') (cs_state top2) Hx Hid) as (s1 & w1 & ev1 & -> & _). cbn [bind].
      destruct (cpoke_ok hw c2 s1 Hcs) as (t1 & -> & _). cbn [bind]. intros [= <- <- <-]. left. reflexivity.
  Qed.

  Lemma parse_loop_ok hw : forall fuel inner (c : conf) w buff acc,
    cinvh hw c -> (inner = true -> 1 <= t_idx (ftb V c) \/ fall (ftb V c)) -> Z.of_nat (length buff) = config_buff ->
    match parse_loop fuel inner c w buff acc with
    | Ok (c', w', acc') => cinvh hw c' /\ t_idx (ftb V c') = 0 /\ cxt V c' = cxt V c /\ bit V c' = bit V c
    | Fault x => x = Out_of_fuel
    end.
  Proof.
    induction fuel as [|fuel IH]; intros inner c w buff acc Hinv Hmode Hl; [reflexivity|].
    cbn [ConfModel.parse_loop]. pose proof Hinv as (Hx & Hcs & Hf).
    destruct (negb inner && (t_idx (ftb V c) =? 0)) eqn:Eouter.
    { apply andb_true_iff in Eouter as [_ E0]. apply Z.eqb_eq in E0.
      split; [exact Hinv|]. split; [exact E0|]. split; reflexivity. }
    assert (Hm : 1 <= t_idx (ftb V c) \/ fall (ftb V c)).
    { destruct inner; [apply Hmode; reflexivity|]. cbn [negb andb] in Eouter. apply Z.eqb_neq in Eouter.
      left. destruct Hf as ((l & _ & _ & ? & _) & _). lia. }
    pose proof Hf as ((lf & Hmf & Hlf & Hif & Hbf & Hcf) & Hsf).
    destruct (fpeek_ok c Hf) as (f & Hfpk & Hsk & Hg). rewrite Hfpk. cbn [bind].
    assert (Hgf : file_good f).
    { destruct Hm as [H1|(_ & Ha)]; [apply Hg; assumption|].
      destruct (Ha (t_idx (ftb V c)) ltac:(lia)) as (e & Es & _ & Ge). apply get_slot in Hfpk. congruence. }
    destruct Hgf as ((st & Hfp & Hb) & Hp). rewrite Hfp.
    destruct (fgets config_buff st) as [r st'] eqn:Eg.
    destruct (fgets_bytes _ _ _ _ Eg Hb) as [Hst Hr].
    assert (Hgood : forall s2 ln, Forall is_byte (sdata s2) -> f_skip (set_fp f s2 ln) = false /\ file_good (set_fp f s2 ln)).
    { intros s2 ln Hs2. split; [exact Hsk|]. split; [exists s2; split; [reflexivity|assumption]|exact Hp]. }
    (* rewriting the top entry with an open file keeps both modes *)
    assert (Hpoke : forall s2 ln t1, Forall is_byte (sdata s2) -> fpoke V c (set_fp f s2 ln) = Ok (with_ftb V c t1) ->
              ft_inv t1 -> t_idx t1 = t_idx (ftb V c) -> slot t1 (t_idx t1) = Some (Some (set_fp f s2 ln)) ->
              (forall j, j <> t_idx t1 -> slot t1 j = slot (ftb V c) j) ->
              (1 <= t_idx t1 \/ fall t1) /\ t_cnt t1 = t_cnt (ftb V c)).
    { intros s2 ln t1 Hs2 Efk Hf1 Hi1 Hn1 Ho1.
      assert (Hc1 : t_cnt t1 = t_cnt (ftb V c)).
      { unfold fpoke in Efk. destruct (t_set (ftb V c) (t_idx (ftb V c)) _) as [tt|] eqn:Ets; cbn [bind] in Efk; [|discriminate].
        injection Efk as Etq. apply t_set_cnt in Ets as [Ec _]. subst tt. exact Ec. }
      split; [|exact Hc1]. destruct Hm as [H1|Hfall]; [left; lia|right].
      apply (step_fall (ftb V c)); [|exact (proj1 Hf)|exact Hfall].
      right. exists (t_idx (ftb V c)), (set_fp f s2 ln). destruct (Hgood s2 ln Hs2) as [G1 G2].
      split; [left; reflexivity|]. split; [exact Hi1|]. split; [lia|]. split; [rewrite <- Hi1; exact Hn1|].
      split; [exact G1|]. split; [exact G2|]. intros j Hj _. apply Ho1. rewrite Hi1. exact Hj. }
    destruct r as [chunk|].
    - destruct (Hr chunk eq_refl) as [Hc Hlc]. rewrite config_buff_val in Hlc. pose proof Hl as Hl'. rewrite config_buff_val in Hl'.
      destruct (put_str_data buff chunk ltac:(lia) Hc) as (rest & -> & L). cbn [bind].
      destruct (Hgood st' ((f_line f + 1) mod 2 ^ 32) Hst) as [G1 G2].
      destruct (fpoke_ok c _ Hf G1 (fun _ => G2)) as (t1 & Efk1 & Hf1 & Hidx1 & Hnew1 & Hold1). rewrite Efk1. cbn [bind].
      destruct (Hpoke _ _ _ Hst Efk1 Hf1 Hidx1 Hnew1 Hold1) as [Hm1 _].
      rewrite cstring_cstr by (apply cstr_of_nz; assumption). cbn [bind].
      set (c1 := with_ftb V c t1).
      assert (Hinv1 : cinvh hw c1) by (split; [exact Hx|split; [exact Hcs|exact Hf1]]).
      assert (Lb : Z.of_nat (length (cstr (cstr_of chunk) rest)) = config_buff) by (rewrite config_buff_val; lia).
      destruct (negb (has_byte 10 (cstr_of chunk)) && negb (seof st')).
      + (* line too long *)
        destruct (skip_long_ok (S (length (sdata st'))) st' _ ltac:(lia) Hst Lb) as (st2 & b2 & -> & Hst2 & Lb2).
        cbn [bind].
        destruct (Hgood st2 ((f_line f + 1) mod 2 ^ 32) Hst2) as [G3 G4].
        destruct (fpoke_ok c1 _ Hf1 G3 (fun _ => G4)) as (t2 & Efk2 & Hf2 & Hidx2 & Hnew2 & Hold2). rewrite Efk2. cbn [bind].
        assert (Hm2 : 1 <= t_idx t2 \/ fall t2).
        { destruct Hm1 as [H1|Hfall]; [left; change (ftb V c1) with t1 in Hidx2; lia|right].
          apply (step_fall t1); [|exact (proj1 Hf1)|exact Hfall].
          right. exists (t_idx t1), (set_fp f st2 ((f_line f + 1) mod 2 ^ 32)). change (ftb V c1) with t1 in *.
          split; [left; reflexivity|]. split; [exact Hidx2|]. split.
          { unfold fpoke in Efk2. destruct (t_set (ftb V c1) (t_idx (ftb V c1)) _) as [tt|] eqn:Ets; cbn [bind] in Efk2; [|discriminate].
            injection Efk2 as Etq. apply t_set_cnt in Ets as [Ec _]. subst tt. change (ftb V c1) with t1 in Ec. lia. }
          split; [rewrite <- Hidx2; exact Hnew2|]. split; [exact G3|]. split; [exact G4|].
          intros j Hj _. apply Hold2. rewrite Hidx2. exact Hj. }
        specialize (IH true (with_ftb V c1 t2) w b2 acc ltac:(split; [exact Hx|split; [exact Hcs|exact Hf2]]) (fun _ => Hm2) Lb2).
        destruct (parse_loop fuel true _ w b2 acc) as [[[c' w'] acc']|x]; [|exact IH].
        exact IH.
      + (* an ordinary line *)
        destruct (cpeek_ok hw c1 Hcs) as (top & Htop & _).
        destruct (fpeek_ok c1 Hf1) as (f1 & Hf1p & Hsk1 & _).
        pose proof (parse_line_str W V handler expand preproc_out fs progname Hexp Hinc c1 w (cstr_of chunk) rest top f1
                      (cstr_of_nz _ Hc) Lb Htop Hf1p Hsk1) as Hpl.
        destruct (pl_str_ok hw c1 w (cstr_of chunk) Hinv1 (cstr_of_nz _ Hc)) as (c2 & w2 & ev & Epl & Hinv2 & Ex2 & Eb2).
        pose proof (pl_str_files hw c1 w (cstr_of chunk) c2 w2 ev Hinv1 Hm1 (cstr_of_nz _ Hc) Epl) as Hstep.
        pose proof (step_wrap _ _ Hstep Hf1 Hm1) as Hm2.
        rewrite Epl in Hpl. destruct Hpl as (b' & -> & Lb'). cbn [bind].
        specialize (IH true c2 w2 b' (rev_append ev acc) Hinv2 (fun _ => Hm2) Lb').
        destruct (parse_loop fuel true c2 w2 b' _) as [[[c' w'] acc']|x]; [|exact IH].
        destruct IH as (I1 & I2 & I3 & I4). split; [exact I1|]. split; [exact I2|]. split; [rewrite I3, Ex2; reflexivity|rewrite I4, Eb2; reflexivity].
    - (* end of file: close and pop *)
      destruct (Hgood st' (f_line f) Hst) as [G1 G2].
      destruct (fpoke_ok c _ Hf G1 (fun _ => G2)) as (t1 & Efk1 & Hf1 & Hidx1 & Hnew1 & Hold1). rewrite Efk1. cbn [bind].
      destruct (Hpoke _ _ _ Hst Efk1 Hf1 Hidx1 Hnew1 Hold1) as [Hm1 Hcnt1].
      set (d := (if f_preproc f then blk (f_outfile f) else 0) + (if f_owned f then blk (f_path f) else 0)).
      set (c2 := file_pop V (add_open V (add_live V (with_ftb V c t1) (- d)) (-1))).
      destruct widths_ok as (_ & _ & (Hib & _) & _). pose proof (pow2_pos fstate_idx_bits Hib) as Hp2.
      assert (Hinv2 : cinvh hw c2).
      { split; [exact Hx|split; [exact Hcs|]].
        assert (E2 : ftb V c2 = Build_table (t_mem t1) (t_cnt t1) ((t_idx t1 - 1) mod 2 ^ fstate_idx_bits)) by reflexivity.
        rewrite E2. destruct Hf1 as ((l1 & Hm1' & Hl1 & Hi1 & Hb1 & Hc1) & Hs1).
        destruct (Z.eq_dec (t_idx t1) 0) as [Ez|Enz].
        - (* popping from index 0: only after a wrap, and then every slot up to 2^8 - 1 is an open file *)
          destruct Hm1 as [H1|(Hcntf & Ha)]; [lia|].
          assert (Em : (t_idx t1 - 1) mod 2 ^ fstate_idx_bits = 2 ^ fstate_idx_bits - 1).
          { rewrite Ez. replace (0 - 1) with (- 1 + 1 * 0) by lia. change (-1 + 1 * 0) with (-1).
            rewrite <- (Z.mod_add (-1) 1 (2 ^ fstate_idx_bits)) by lia. rewrite Z.mod_small by lia. lia. }
          rewrite Em. split.
          + exists l1. cbn [t_mem t_cnt t_idx]. repeat split; auto; lia.
          + intros i Hi. cbn [t_idx] in Hi. destruct (Ha i ltac:(lia)) as (e1 & Ee1 & S1 & G1'). exists e1.
            split; [unfold slot in *; cbn [t_mem]; rewrite Hm1' in *; assumption|]. split; [assumption|intros _; assumption].
        - rewrite Z.mod_small by lia. split.
          + exists l1. cbn [t_mem t_cnt t_idx]. repeat split; auto; lia.
          + intros i Hi. cbn [t_idx] in Hi. destruct (Hs1 i ltac:(lia)) as (e1 & Ee1 & B). exists e1. split; [|assumption].
            unfold slot in *. cbn [t_mem]. rewrite Hm1' in *. assumption. }
      specialize (IH false c2 w buff acc Hinv2 ltac:(discriminate) Hl).
      destruct (parse_loop fuel false c2 w buff acc) as [[[c' w'] acc']|x]; [|exact IH].
      exact IH.
  Qed.

  Theorem parse_ok hw fuel (c : conf) w name :
    cinvh hw c ->
    match parse fuel c w name with
    | Ok (c', w', ev, ret) => cinvh hw c' /\ cxt V c' = cxt V c /\ bit V c' = bit V c
    | Fault x => x = Out_of_fuel
    end.
  Proof.
    intros Hinv. pose proof Hinv as (Hx & Hcs & Hf). unfold ConfModel.parse.
    destruct (open_file_ok (Some name)) as (r & -> & Hr). cbn [bind].
    destruct r as [st|]; [|split; [exact Hinv|split; reflexivity]].
    destruct (push_file_ok (add_open V c 1) {| f_fp := Some st; f_path := Some name; f_outfile := None; f_line := 1;
                                               f_skip := false; f_preproc := false; f_owned := false |} Hf eq_refl)
      as (t1 & -> & Hf1 & _).
    { split; [exists st; split; [reflexivity|apply Hr; reflexivity]|discriminate]. }
    cbn [bind].
    set (c1 := add_live V (with_ftb V (add_open V c 1) t1) 0).
    pose proof (parse_loop_ok hw fuel false c1 w (repeat None (Z.to_nat config_buff)) []
                  ltac:(split; [exact Hx|split; [exact Hcs|exact Hf1]]) ltac:(discriminate)
                  ltac:(rewrite repeat_length; reflexivity)) as HL.
    destruct (parse_loop fuel false c1 w _ []) as [[[c' w'] acc']|x]; cbn [bind]; [|exact HL].
    destruct HL as (I1 & _ & I3 & I4). split; [exact I1|]. split; assumption.
  Qed.

  (* ---- built-ins: the table keeps a NULL-name slot behind the registered ones ---- *)
  Definition binv (t : table bi_t) : Prop :=
    tab_ok builtin_idx_bits t /\ t_cnt t mod 5 = 0 /\
    exists z, t_idx t <= z < t_cnt t /\
              (forall i, 0 <= i < z -> exists e, slot t i = Some (Some e)) /\
              (forall i, z <= i < t_cnt t -> slot t i = Some (Some None)).

  Lemma builtin_consts : builtin_cnt_init mod 5 = 0 /\ 2 ^ builtin_idx_bits mod 5 = 1.
  Proof. split; reflexivity. Qed.

  Lemma register_builtin_ok (c : conf) name :
    binv (bit V c) ->
    exists t' id, register_builtin V c name = Ok (add_live V (with_bit V c t') 1, id) /\ binv t'.
  Proof.
    intros (Ht & Hm5 & z & Hz & Hlo & Hhi). destruct widths_ok as (_ & _ & _ & (Hib & Hcb)).
    destruct builtin_consts as (_ & Hp5).
    pose proof Ht as (l & Hm & Hl & Hi & Hb & Hc).
    pose proof (pow2_pos builtin_idx_bits Hib) as Hp. pose proof (pow2_succ builtin_idx_bits Hib) as Hs.
    assert (Hcbp : 2 ^ (builtin_idx_bits + 1) < 2 ^ builtin_cnt_bits) by (apply Z.pow_lt_mono_r; lia).
    unfold register_builtin.
    destruct (t_set_slot (bit V c) _ (t_idx (bit V c)) (Some name) Ht ltac:(lia))
      as (t1 & -> & Ht1 & Hidx1 & Hcnt1 & Hnew1 & Hold1).
    cbn [bind]. pose proof Ht1 as (l1 & Hm1 & Hl1 & _).
    set (idx := t_idx (bit V c)) in *. set (cnt := t_cnt (bit V c)) in *.
    set (idx' := (idx + 1) mod 2 ^ builtin_idx_bits).
    assert (Hidx' : 0 <= idx' < 2 ^ builtin_idx_bits) by (apply Z.mod_pos_bound; lia).
    assert (Hcnt256 : cnt <> 2 ^ builtin_idx_bits) by (intros E; rewrite E in Hm5; lia).
    assert (Hcase : (idx' = cnt /\ idx + 1 = cnt) \/ (idx' <> cnt /\ (idx' = idx + 1 /\ idx + 1 < cnt \/ idx' = 0 /\ idx + 1 = 2 ^ builtin_idx_bits))).
    { unfold idx'. destruct (Z.eq_dec (idx + 1) (2 ^ builtin_idx_bits)) as [E|E].
      - rewrite E, Z.mod_same by lia. right. split; [lia|]. right. lia.
      - rewrite Z.mod_small by lia. destruct (Z.eq_dec (idx + 1) cnt); [left; lia|right; split; [lia|left; lia]]. }
    rewrite Hcnt1. fold cnt.
    destruct (Z.eqb_spec idx' cnt) as [E|E].
    - (* grow and zero the new half *)
      destruct Hcase as [[_ Hic]|[? _]]; [|contradiction].
      assert (Hc2 : (cnt * 2) mod 2 ^ builtin_cnt_bits = cnt * 2) by (apply Z.mod_small; lia).
      rewrite Hc2, Hm1. unfold realloc_slots. destruct (Z.leb_spec (cnt * 2) 0); [lia|].
      assert (Hf : firstn (Z.to_nat (cnt * 2)) l1 = l1) by (apply firstn_all2; lia).
      rewrite Hf. cbn [t_mem t_cnt blk].
      destruct (Z.ltb_spec (cnt * 2) idx'); [lia|].
      set (l2 := zero_from None (l1 ++ repeat None (Z.to_nat (cnt * 2) - length l1)) (Z.to_nat idx')).
      exists (Build_table (Some l2) (cnt * 2) idx'), ((idx' - 1) mod 256). split.
      { reflexivity. }
      assert (Hl2 : Z.of_nat (length l2) = cnt * 2).
      { unfold l2. rewrite zero_from_length, app_length, repeat_length. lia. }
      split; [exists l2; cbn [t_mem t_cnt t_idx]; repeat split; auto; lia|].
      split; [cbn [t_cnt]; rewrite Z.mul_comm, Z.mul_mod, Hm5 by lia; reflexivity|].
      exists cnt. cbn [t_idx t_cnt]. split; [lia|]. split.
      + intros i Hi'. unfold slot. cbn [t_mem]. destruct (Z.ltb_spec i 0); [lia|].
        unfold l2. rewrite zero_from_lt by lia. rewrite nth_error_app1 by lia.
        destruct (Z.eq_dec i idx) as [->|Hne].
        * exists (Some name). unfold slot in Hnew1. rewrite Hm1 in Hnew1. fold idx in Hnew1.
          destruct (Z.ltb_spec idx 0); [lia|]. exact Hnew1.
        * specialize (Hold1 i Hne). unfold slot in Hold1. rewrite Hm1, Hm in Hold1.
          destruct (Z.ltb_spec i 0); [lia|]. rewrite Hold1.
          destruct (Z_lt_le_dec i z) as [Hlt|Hge].
          -- destruct (Hlo i ltac:(lia)) as (e & Es). unfold slot in Es. rewrite Hm in Es.
             destruct (Z.ltb_spec i 0); [lia|]. eauto.
          -- specialize (Hhi i ltac:(lia)). unfold slot in Hhi. rewrite Hm in Hhi.
             destruct (Z.ltb_spec i 0); [lia|]. eauto.
      + intros i Hi'. unfold slot. cbn [t_mem]. destruct (Z.ltb_spec i 0); [lia|].
        unfold l2. apply zero_from_ge; [lia|]. rewrite app_length, repeat_length. lia.
    - destruct Hcase as [[? _]|[_ Hcase]]; [contradiction|].
      rewrite Hm1. cbn [t_mem t_cnt]. destruct (Z.ltb_spec cnt idx'); [lia|].
      exists (Build_table (Some l1) cnt idx'), ((idx' - 1) mod 256). split.
      { reflexivity. }
      split; [exists l1; cbn [t_mem t_cnt t_idx]; repeat split; auto; lia|].
      split; [exact Hm5|].
      assert (Hslot : forall i, slot (Build_table (Some l1) cnt idx') i = slot t1 i).
      { intros i. unfold slot. cbn [t_mem]. now rewrite Hm1. }
      exists (if Z.eq_dec idx z then z + 1 else z). cbn [t_idx t_cnt].
      destruct (Z.eq_dec idx z) as [Ez|Ez].
      + split; [lia|]. split.
        * intros i Hi'. rewrite Hslot. destruct (Z.eq_dec i idx) as [->|Hne]; [eauto|].
          rewrite (Hold1 i Hne). apply Hlo. lia.
        * intros i Hi'. rewrite Hslot, (Hold1 i ltac:(lia)). apply Hhi. lia.
      + split; [lia|]. split.
        * intros i Hi'. rewrite Hslot. destruct (Z.eq_dec i idx) as [->|Hne]; [eauto|].
          rewrite (Hold1 i Hne). apply Hlo. lia.
        * intros i Hi'. rewrite Hslot, (Hold1 i ltac:(lia)). apply Hhi. lia.
  Qed.

  Lemma builtin_scan_ok (c : conf) :
    binv (bit V c) -> exists k, builtin_scan V c 0 (Z.to_nat (t_cnt (bit V c))) = Ok k.
  Proof.
    intros (Ht & _ & z & Hz & Hlo & Hhi). pose proof Ht as (l & Hm & Hl & Hi & _).
    assert (G : forall n k, 0 <= k <= z -> z - k < Z.of_nat n -> exists r, builtin_scan V c k n = Ok r).
    { induction n as [|n IH]; intros k Hk Hn; [lia|]. cbn [builtin_scan].
      destruct (Z.eq_dec k z) as [->|Hne].
      - rewrite (slot_get _ _ _ (Hhi z ltac:(lia))). cbn [bind]. eauto.
      - destruct (Hlo k ltac:(lia)) as (e & Es). rewrite (slot_get _ _ _ Es). cbn [bind].
        destruct e; [apply IH; lia|eauto]. }
    apply G; lia.
  Qed.
End Safe.
