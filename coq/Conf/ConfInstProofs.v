(* Facts used as non-vacuity witnesses in Properties/C09.v and C11.v, the arithmetic theorem about the
   four tables with the widths found in the source tree, and the depth bookkeeping of the specification. *)
From LV Require Import Base.Buf Strings.HelpersModel Strings.HelpersProofs Strings.HelpersProofs2.
From LV Require Import Conf.ConfModel Conf.ConfSpec Conf.ConfLemmas Conf.ConfTables Conf.ConfLine Conf.ConfWords Conf.ConfSafe.
Local Open Scope Z_scope.

(* the identity expansion satisfies what the theorems assume of the expansion *)
Definition expand_id {V : Type} (t : list byte) (v : V) : list byte * V * list (list byte) := (t, v, []).

Lemma expand_id_fits V : expand_fits V (@expand_id V).
Proof. intros t v Ht Hl. cbn. split; assumption. Qed.

Lemma classify_include_nonempty raw t : classify raw = AInclude t -> t <> [].
Proof.
  unfold classify. destruct raw as [|c0 raw0]; [discriminate|].
  destruct ((c0 =? 10) || (c0 =? 35) || (c0 =? 60)); [discriminate|].
  destruct (trim_ws (c0 :: raw0)) as [|c1 t0]; [discriminate|].
  destruct (c1 =? 35); [discriminate|]. destruct (c1 =? 37).
  - destruct (pword_spec 1 t0); [|discriminate]. destruct (beg_ci s_include _); [intros [= <-]; discriminate|].
    destruct (beg_ci s_preproc _); discriminate.
  - destruct ((c1 =? 98) && _); [discriminate|]. destruct (_ && _); discriminate.
Qed.

Lemma expand_id_keeps V : expand_keeps_include V (@expand_id V).
Proof. intros raw t v H. cbn. exact (classify_include_nonempty raw t H). Qed.

(* ---- the arithmetic of the four tables with the widths and initial capacities of the source tree ---- *)
Lemma bump_from_init ib cb init n :
  0 <= ib -> ib + 1 < cb -> 0 < init <= 2 ^ ib ->
  let '(i, c) := bump_n ib cb n 0 init in 0 <= i < c /\ c <= 2 ^ (ib + 1).
Proof.
  intros Hib Hcb Hi. pose proof (pow2_succ ib Hib) as Hs. pose proof (pow2_pos ib Hib) as Hp.
  pose proof (bump_n_below ib cb Hib Hcb n 0 init ltac:(lia) ltac:(lia) ltac:(lia)) as B.
  destruct (bump_n ib cb n 0 init). lia.
Qed.

Theorem tables_never_wrap : forall n : nat,
  (let '(i, c) := bump_n ctx_idx_bits ctx_cnt_bits n 0 ctx_cnt_init in 0 <= i < c /\ c <= 2 ^ (ctx_idx_bits + 1)) /\
  (let '(i, c) := bump_n ctx_state_idx_bits ctx_state_cnt_bits n 0 ctx_state_cnt_init in 0 <= i < c /\ c <= 2 ^ (ctx_state_idx_bits + 1)) /\
  (let '(i, c) := bump_n fstate_idx_bits fstate_cnt_bits n 0 fstate_cnt_init in 0 <= i < c /\ c <= 2 ^ (fstate_idx_bits + 1)) /\
  (let '(i, c) := bump_n builtin_idx_bits builtin_cnt_bits n 0 builtin_cnt_init in 0 <= i < c /\ c <= 2 ^ (builtin_idx_bits + 1)).
Proof.
  intros n. destruct widths_ok as ((A1 & A2) & (B1 & B2) & (C1 & C2) & (D1 & D2)).
  destruct inits_ok as (I1 & I2 & I3 & I4 & _).
  split; [|split; [|split]]; apply bump_from_init; auto; lia.
Qed.

(* ---- the specification's stack depth can be read off the trace ---- *)
Definition begins (evs : list event) : Z :=
  Z.of_nat (length (filter (fun e => match e with EvCall _ HBegin _ _ => true | _ => false end) evs)).
Definition ends (evs : list event) : Z :=
  Z.of_nat (length (filter (fun e => match e with EvCall _ HEnd _ _ => true | _ => false end) evs)).

Lemma begins_app a b : begins (a ++ b) = begins a + begins b.
Proof. unfold begins. rewrite filter_app, app_length. lia. Qed.
Lemma ends_app a b : ends (a ++ b) = ends a + ends b.
Proof. unfold ends. rewrite filter_app, app_length. lia. Qed.
Lemma begins_spawn cmds : begins (map EvSpawn cmds) = 0.
Proof. unfold begins. induction cmds; [reflexivity|assumption]. Qed.
Lemma ends_spawn cmds : ends (map EvSpawn cmds) = 0.
Proof. unfold ends. induction cmds; [reflexivity|assumption]. Qed.

Section Depth.
  Variable W : Type.
  Variable V : Type.
  Variable handler : Z -> harg -> Z -> W -> Z * W.
  Variable expand : list byte -> V -> list byte * V * list (list byte).
  Variable fsl : list byte -> option (list (list byte) * bool).
  Notation sstate := (sstate W V).
  Notation sstep := (sstep W V handler expand fsl).
  Notation srun := (srun W V handler expand fsl).
  Notation scall := (scall W handler).

  Lemma scall_event ctxs w id a s st' w' ev :
    scall ctxs w id a s = Some (st', w', ev) -> exists f, ev = [EvCall f a s st'].
  Proof.
    unfold ConfSpec.scall. destruct (nth_error ctxs (Z.to_nat id)) as [[nm f]|]; [|discriminate].
    destruct f as [| |k]; [discriminate| |].
    - intros [= <- <- <-]. eauto.
    - destruct (handler k a s w) as [s1 w1]. intros [= <- <- <-]. eauto.
  Qed.

  Definition depth (s : sstate) : Z := Z.of_nat (length (s_stack W V s)).

  Lemma sstep_depth (s : sstate) raw rest s' items' ev :
    sstep s raw rest = Done (s', items', ev) -> depth s' = depth s + begins ev - ends ev.
  Proof.
    unfold ConfSpec.sstep, depth. destruct (classify raw).
    - intros [= <- <- <-]. unfold begins, ends. cbn [filter length]. lia.
    - destruct (expand t (s_vars W V s)) as [[t' v'] cmds]. destruct (gw 2 (skipn 1 t')).
      + destruct (fsl l) as [[ls nl]|].
        * destruct (_ >=? _); [discriminate|]. intros [= <- <- <-]. cbn [s_stack]. rewrite begins_spawn, ends_spawn. lia.
        * intros [= <- <- <-]. cbn [s_stack]. rewrite begins_spawn, ends_spawn. lia.
      + intros [= <- <- <-]. cbn [s_stack]. rewrite begins_spawn, ends_spawn. lia.
    - discriminate.
    - destruct (expand t (s_vars W V s)) as [[t' v'] cmds]. intros [= <- <- <-]. cbn [s_stack].
      rewrite begins_spawn, ends_spawn. lia.
    - destruct (gw 2 t); [|discriminate]. destruct (s_stack W V s) as [|[id0 st0] below] eqn:Es; [discriminate|].
      destruct (_ >? _); [discriminate|].
      destruct (scall _ _ _ HBegin st0) as [[[st' w'] ev0]|] eqn:Ec; [|discriminate].
      intros [= <- <- <-]. destruct (scall_event _ _ _ _ _ _ _ _ Ec) as (f & ->). cbn [s_stack length]. unfold begins, ends. cbn [filter length]. lia.
    - destruct (s_stack W V s) as [|[id st] [|[id2 st2] below]] eqn:Es.
      + intros [= <- <- <-]. rewrite Es. unfold begins, ends. cbn [filter length]. lia.
      + intros [= <- <- <-]. rewrite Es. unfold begins, ends. cbn [filter length]. lia.
      + destruct (scall _ _ _ HEnd st) as [[[st' w'] ev0]|] eqn:Ec; [|discriminate].
        intros [= <- <- <-]. destruct (scall_event _ _ _ _ _ _ _ _ Ec) as (f & ->). cbn [s_stack length]. unfold begins, ends. cbn [filter length]. lia.
    - destruct (expand t (s_vars W V s)) as [[t' v'] cmds]. destruct (s_stack W V s) as [|[id st] below] eqn:Es; [discriminate|].
      destruct (scall _ _ _ (HText t') st) as [[[st' w'] ev0]|] eqn:Ec; [|discriminate].
      intros [= <- <- <-]. destruct (scall_event _ _ _ _ _ _ _ _ Ec) as (f & ->). cbn [s_stack length].
      rewrite begins_app, ends_app, begins_spawn, ends_spawn. unfold begins, ends. cbn [filter length]. lia.
  Qed.

  (* depth after the walk = depth before + Begin calls - End calls among the events produced *)
  Lemma srun_depth : forall fuel (s : sstate) items acc s' evs,
    srun fuel s items acc = Done (s', evs) ->
    exists new, evs = acc ++ new /\ depth s' = depth s + begins new - ends new.
  Proof.
    induction fuel as [|fuel IH]; intros s items acc s' evs; cbn [ConfSpec.srun]; [discriminate|].
    destruct items as [|[raw|] rest].
    - intros [= <- <-]. exists []. rewrite app_nil_r. split; [reflexivity|]. unfold begins, ends. cbn [filter length]. lia.
    - destruct (sstep s raw rest) as [[[s1 items1] ev]| | |] eqn:Est; try discriminate.
      intros H. destruct (IH _ _ _ _ _ H) as (new & -> & Hd). exists (ev ++ new). rewrite app_assoc. split; [reflexivity|].
      rewrite begins_app, ends_app, Hd, (sstep_depth _ _ _ _ _ _ Est). lia.
    - apply IH.
  Qed.
End Depth.
