(* Termination of spifconf_parse on files without directives (property C11, the "terminates" clause for
   the part that does not depend on the file system's descriptor limit): a file that contains no '%' opens no
   further file, so every step of the reading loop consumes input or pops the file; fuel 2 + the length of the
   file suffices.  (For files with %include, termination is C09's theorem whenever the specification's walk ends;
   a file that includes itself ends only by descriptor exhaustion, which is not modelled.) *)
From LV Require Import Base.Buf Strings.HelpersModel Strings.HelpersProofs Strings.HelpersProofs2.
From LV Require Import Conf.ConfModel Conf.ConfSpec Conf.ConfLemmas Conf.ConfTables Conf.ConfLine Conf.ConfWords Conf.ConfSafe.
Local Open Scope Z_scope.

Definition nopct (d : list byte) : Prop := Forall (fun b => b <> 37) d.

Lemma nopct_app a b : nopct (a ++ b) <-> nopct a /\ nopct b.
Proof. apply Forall_app. Qed.

Lemma cstr_of_nopct d : nopct d -> nopct (cstr_of d).
Proof.
  induction d as [|c d IH]; intros H; cbn [cstr_of]; [constructor|]. inversion H as [|? ? Hc Hd]; subst.
  destruct (c =? 0); [constructor|]. constructor; [exact Hc|exact (IH Hd)].
Qed.

Lemma trim_nopct (s : list byte) : nopct s -> nopct (trim_ws s).
Proof.
  intros H. destruct (trim_decomp s) as (w1 & w2 & E & _). rewrite E in H.
  apply nopct_app in H as [_ H]. apply nopct_app in H as [H _]. exact H.
Qed.

(* a line without '%' is a comment, a begin, an end or text *)
Lemma classify_nopct raw : nopct raw ->
  classify raw = ASkip \/ (exists t, classify raw = ABegin t) \/ classify raw = AEnd \/ (exists t, classify raw = AText t).
Proof.
  intros H. unfold classify. destruct raw as [|c0 raw0]; [auto|].
  destruct ((c0 =? 10) || (c0 =? 35) || (c0 =? 60)); [auto|].
  pose proof (trim_nopct _ H) as Ht. destruct (trim_ws (c0 :: raw0)) as [|c1 t0]; [auto|].
  destruct (c1 =? 35); [auto|].
  destruct (Z.eqb_spec c1 37) as [E|_]; [inversion Ht; subst; congruence|].
  destruct ((c1 =? 98) && _); [right; left; eauto|].
  destruct (_ && _); [right; right; left; reflexivity|right; right; right; eauto].
Qed.

Section Term.
  Variable W : Type.
  Variable V : Type.
  Variable handler : Z -> harg -> Z -> W -> Z * W.
  Variable expand : list byte -> V -> list byte * V * list (list byte).
  Variable preproc_out : list byte -> option (list byte).
  Variable fs : list byte -> option (list byte).
  Variable progname : list byte.

  Notation conf := (conf V).
  Notation cinvh := (cinvh V).
  Notation pl_str := (pl_str W V handler expand preproc_out fs progname).
  Notation parse_loop := (parse_loop W V handler expand preproc_out fs progname).
  Notation parse := (parse W V handler expand preproc_out fs progname).

  Hypothesis Hfs : forall n content, fs n = Some content -> Forall is_byte content.
  Hypothesis Hpp : forall cmd out, preproc_out cmd = Some out -> Forall is_byte out.
  Hypothesis Hexp : expand_fits V expand.
  Hypothesis Hinc : expand_keeps_include V expand.

  (* such a line leaves the file stack alone: same index, same stream in the top entry *)
  Lemma pl_str_plain hw (c : conf) w raw c' w' ev :
    cinvh hw c -> Forall nz_byte raw -> nopct raw -> pl_str c w raw = Ok (c', w', ev) ->
    t_idx (ftb V c') = t_idx (ftb V c) /\
    forall e', slot (ftb V c') (t_idx (ftb V c)) = Some (Some e') ->
               exists e, slot (ftb V c) (t_idx (ftb V c)) = Some (Some e) /\ f_fp e' = f_fp e.
  Proof.
    intros Hinv Hraw Hn. pose proof Hinv as (Hx & Hcs & Hf). unfold ConfLine.pl_str.
    destruct (classify_nopct raw Hn) as [->|[(t & ->)|[->|(t & ->)]]].
    - intros [= <- <- <-]. split; [reflexivity|eauto].
    - destruct (gw 2 t) as [nm|]; [|discriminate].
      destruct (ctx_begin_ok W V handler hw c w nm Hinv) as (t1 & w1 & ev1 & -> & _). intros [= <- <- <-].
      split; [reflexivity|eauto].
    - destruct (cpeek_ok V hw c Hcs) as (top & -> & Hid). cbn [bind].
      destruct (ctx_end_ok W V handler hw c w (cs_id top) Hinv Hid) as (c1 & w1 & ev1 & -> & _ & _ & _ & Hidx & _ & Hfr & _).
      intros [= <- <- <-]. split; [exact Hidx|]. intros e' Hs. exact (Hfr _ _ Hs).
    - destruct (cpeek_ok V hw c Hcs) as (top & -> & Hid). cbn [bind].
      destruct (expand t (vars V c)) as [[t' v'] cmds]. set (c2 := with_vars V c v').
      destruct (cpeek_ok V hw c2 Hcs) as (top2 & -> & _). cbn [bind].
      destruct (call_ok W V handler hw c2 w (cs_id top) (HText t') (cs_state top2) Hx Hid) as (s1 & w1 & ev1 & -> & _). cbn [bind].
      destruct (cpoke_ok V hw c2 s1 Hcs) as (t1 & -> & _). cbn [bind]. intros [= <- <- <-].
      split; [reflexivity|eauto].
  Qed.

  Lemma fgets_nopct size st r st' :
    fgets size st = (r, st') -> nopct (sdata st) ->
    nopct (sdata st') /\ (forall chunk, r = Some chunk -> nopct chunk).
  Proof.
    unfold fgets. destruct (sdata st) as [|d0 d] eqn:Ed.
    - intros [= <- <-] _. split; [constructor|discriminate].
    - destruct (take_line (size - 1) (d0 :: d)) as [chunk rest] eqn:Et.
      intros [= <- <-] Hc. destruct (take_line_length _ _ _ _ Et) as [_ E]. rewrite E in Hc.
      apply nopct_app in Hc as [H1 H2]. split; [exact H2|]. intros ? [= <-]. exact H1.
  Qed.

  Lemma skip_long_shrinks : forall n st buff st' b',
    skip_long n st buff = Ok (st', b') -> nopct (sdata st) ->
    nopct (sdata st') /\ (length (sdata st') <= length (sdata st))%nat.
  Proof.
    induction n as [|n IH]; intros st buff st' b'; cbn [skip_long]; [discriminate|].
    destruct (fgets config_buff st) as [r st1] eqn:Eg. intros H Hc.
    destruct (fgets_nopct _ _ _ _ Eg Hc) as [Hc1 _].
    destruct r as [chunk|].
    - pose proof (fgets_progress config_buff st chunk st1 ltac:(change config_buff with 20480; lia) Eg) as Hp.
      destruct (put_str buff chunk) as [b1|]; cbn [bind] in H; [|discriminate].
      destruct (cstring b1) as [s0|]; cbn [bind] in H; [|discriminate].
      destruct (has_byte 10 s0); [injection H as <- _; split; [exact Hc1|lia]|].
      destruct (IH _ _ _ _ H Hc1) as [H1 H2]. split; [exact H1|lia].
    - injection H as <- _. split; [exact Hc1|].
      unfold fgets in Eg. destruct (sdata st); [injection Eg as <-; cbn; lia|].
      destruct (take_line _ _). discriminate.
  Qed.

  (* the loop over one open file without directives *)
  Lemma plain_loop hw : forall n fuel inner (c : conf) w buff acc e st,
    cinvh hw c -> t_idx (ftb V c) = 1 -> slot (ftb V c) 1 = Some (Some e) -> f_fp e = Some st ->
    nopct (sdata st) -> (length (sdata st) <= n)%nat -> (n + 2 <= fuel)%nat ->
    Z.of_nat (length buff) = config_buff ->
    exists r, parse_loop fuel inner c w buff acc = Ok r.
  Proof.
    induction n as [n IHn] using lt_wf_ind. intros fuel inner c w buff acc e st Hinv Hidx Hslot Hfp Hnp Hlen Hfuel Hl.
    destruct fuel as [|fuel]; [lia|]. cbn [ConfModel.parse_loop].
    rewrite Hidx. change (1 =? 0) with false. rewrite andb_false_r.
    pose proof Hinv as (Hx & Hcs & Hf).
    unfold fpeek. rewrite Hidx, (slot_get _ _ _ Hslot). cbn [bind]. rewrite Hfp.
    destruct (fpeek_ok V c Hf) as (f' & Hfpk & Hsk & Hg). unfold fpeek in Hfpk. rewrite Hidx, (slot_get _ _ _ Hslot) in Hfpk.
    injection Hfpk as <-. destruct (Hg ltac:(lia)) as ((st0 & Hst0 & Hb) & Hp). rewrite Hfp in Hst0. injection Hst0 as <-.
    destruct (fgets config_buff st) as [r st'] eqn:Eg.
    destruct (fgets_bytes _ _ _ _ Eg Hb) as [Hst Hr].
    destruct (fgets_nopct _ _ _ _ Eg Hnp) as [Hnp' Hnr].
    assert (Hgood : forall s2 ln, Forall is_byte (sdata s2) -> f_skip (set_fp e s2 ln) = false /\ file_good (set_fp e s2 ln)).
    { intros s2 ln Hs2. split; [exact Hsk|]. split; [exists s2; split; [reflexivity|assumption]|exact Hp]. }
    destruct r as [chunk|].
    - pose proof (fgets_progress config_buff st chunk st' ltac:(change config_buff with 20480; lia) Eg) as Hprog.
      destruct (Hr chunk eq_refl) as [Hc Hlc]. change config_buff with 20480 in Hlc, Hl.
      destruct (put_str_data buff chunk ltac:(lia) Hc) as (rest & -> & L). cbn [bind].
      destruct (Hgood st' ((f_line e + 1) mod 2 ^ 32) Hst) as [G1 G2].
      destruct (fpoke_ok V c _ Hf G1 (fun _ => G2)) as (t1 & -> & Hf1 & Hidx1 & Hnew1 & Hold1). cbn [bind].
      rewrite cstring_cstr by (apply cstr_of_nz; assumption). cbn [bind].
      set (c1 := with_ftb V c t1).
      assert (Hinv1 : cinvh hw c1) by (split; [exact Hx|split; [exact Hcs|exact Hf1]]).
      assert (Lb : Z.of_nat (length (cstr (cstr_of chunk) rest)) = config_buff) by (change config_buff with 20480; lia).
      rewrite Hidx in Hidx1.
      destruct (negb (has_byte 10 (cstr_of chunk)) && negb (seof st')).
      + destruct (skip_long_ok (S (length (sdata st'))) st' _ ltac:(lia) Hst Lb) as (st2 & b2 & Esk & Hst2 & Lb2).
        rewrite Esk. cbn [bind]. destruct (skip_long_shrinks _ _ _ _ _ Esk Hnp') as [Hnp2 Hsh].
        destruct (Hgood st2 ((f_line e + 1) mod 2 ^ 32) Hst2) as [G3 G4].
        destruct (fpoke_ok V c1 _ Hf1 G3 (fun _ => G4)) as (t2 & -> & Hf2 & Hidx2 & Hnew2 & Hold2). cbn [bind].
        change (ftb V c1) with t1 in Hidx2. rewrite Hidx1 in Hidx2.
        apply (IHn (length (sdata st2)) ltac:(lia) fuel true (with_ftb V c1 t2) w b2 acc (set_fp e st2 ((f_line e + 1) mod 2 ^ 32)) st2); auto; try lia.
        * split; [exact Hx|split; [exact Hcs|exact Hf2]].
        * cbn [ftb with_ftb]. rewrite Hidx2 in Hnew2. exact Hnew2.
      + destruct (cpeek_ok V hw c1 Hcs) as (top & Htop & _).
        destruct (fpeek_ok V c1 Hf1) as (f1 & Hf1p & Hsk1 & _).
        pose proof (parse_line_str W V handler expand preproc_out fs progname Hexp Hinc c1 w (cstr_of chunk) rest top f1
                      (cstr_of_nz _ Hc) Lb Htop Hf1p Hsk1) as Hpl.
        destruct (pl_str_ok W V handler expand preproc_out fs progname Hfs Hpp hw c1 w (cstr_of chunk) Hinv1 (cstr_of_nz _ Hc))
          as (c2 & w2 & ev & Epl & Hinv2 & _).
        destruct (pl_str_plain hw c1 w (cstr_of chunk) c2 w2 ev Hinv1 (cstr_of_nz _ Hc) (cstr_of_nopct _ (Hnr chunk eq_refl)) Epl)
          as (Hidxp & Hfrp).
        rewrite Epl in Hpl. destruct Hpl as (b' & -> & Lb'). cbn [bind].
        change (ftb V c1) with t1 in Hidxp, Hfrp. rewrite Hidx1 in Hidxp, Hfrp.
        destruct Hinv2 as (Hx2 & Hcs2 & Hf2). destruct Hf2 as (Ht2 & Hs2).
        destruct (Hs2 1 ltac:(lia)) as (e2 & He2 & _).
        destruct (Hfrp e2 He2) as (e1 & He1 & Efp). rewrite <- Hidx1, Hnew1 in He1. injection He1 as <-.
        cbn [f_fp set_fp] in Efp.
        apply (IHn (length (sdata st')) ltac:(lia) fuel true c2 w2 b' _ e2 st'); auto; try lia.
        split; [exact Hx2|split; [exact Hcs2|split; [exact Ht2|exact Hs2]]].
    - (* end of file: close, pop, and the outer test ends the loop *)
      destruct (Hgood st' (f_line e) Hst) as [G1 G2].
      destruct (fpoke_ok V c _ Hf G1 (fun _ => G2)) as (t1 & -> & Hf1 & Hidx1 & Hnew1 & Hold1). cbn [bind].
      destruct fuel as [|fuel]; [lia|]. cbn [ConfModel.parse_loop negb andb].
      cbn [ftb file_pop add_open add_live with_ftb t_idx]. rewrite Hidx1, Hidx. change ((1 - 1) mod 2 ^ fstate_idx_bits =? 0) with true.
      eauto.
  Qed.

  Theorem parse_terminates_plain hw (c : conf) w name content fuel :
    cinvh hw c -> t_idx (ftb V c) = 0 -> fs name = Some content -> nopct content ->
    (length content + 2 <= fuel)%nat ->
    exists r, parse fuel c w name = Ok r.
  Proof.
    intros Hinv Hidx Hfsn Hnp Hfuel. pose proof Hinv as (Hx & Hcs & Hf). unfold ConfModel.parse.
    destruct (open_file_ok fs progname Hfs (Some name)) as (r & Eo & Hr). rewrite Eo. cbn [bind].
    destruct r as [st|]; [|eauto].
    (* the stream is what is left of the content after the first line *)
    assert (Hst : nopct (sdata st) /\ (length (sdata st) <= length content)%nat).
    { unfold ConfModel.open_file in Eo. rewrite Hfsn in Eo.
      destruct (fgets open_fgets_size {| sdata := content; seof := false |}) as [r0 st0] eqn:Eg.
      destruct (fgets_nopct _ _ _ _ Eg Hnp) as [H1 _].
      assert (Hle : (length (sdata st0) <= length content)%nat).
      { unfold fgets in Eg. cbn [sdata] in Eg. destruct content as [|d0 d]; [injection Eg as _ <-; cbn; lia|].
        destruct (take_line (open_fgets_size - 1) (d0 :: d)) as [ch rest] eqn:Et. injection Eg as _ <-. cbn [sdata].
        destruct (take_line_length _ _ _ _ Et) as [_ E]. rewrite E, app_length. lia. }
      destruct (match r0 with Some chunk => _ | None => _ end) as [b1|]; cbn [bind] in Eo; [|discriminate].
      destruct (cstring b1); cbn [bind] in Eo; [|discriminate].
      destruct (beg_ci _ _); [|discriminate]. injection Eo as <-. split; assumption. }
    destruct Hst as [Hnps Hles].
    set (ent := {| f_fp := Some st; f_path := Some name; f_outfile := None; f_line := 1;
                   f_skip := false; f_preproc := false; f_owned := false |}).
    destruct (push_file_ok V (add_open V c 1) ent Hf eq_refl) as (t1 & -> & Hf1 & Hidx1 & Hnew1 & Hold1).
    { split; [exists st; split; [reflexivity|apply Hr; reflexivity]|discriminate]. }
    cbn [bind]. change (ftb V (add_open V c 1)) with (ftb V c) in Hidx1. rewrite Hidx in Hidx1. change ((0 + 1) mod 2 ^ fstate_idx_bits) with 1 in Hidx1.
    set (c1 := add_live V (with_ftb V (add_open V c 1) t1) 0).
    assert (Hinv1 : cinvh hw c1) by (split; [exact Hx|split; [exact Hcs|exact Hf1]]).
    assert (Hidx1c : t_idx (ftb V c1) = 1) by exact Hidx1.
    assert (Hslot1 : slot (ftb V c1) 1 = Some (Some ent)) by (cbn [ftb c1 add_live with_ftb]; rewrite Hidx1 in Hnew1; exact Hnew1).
    assert (Hlb : Z.of_nat (length (repeat (None : cell) (Z.to_nat config_buff))) = config_buff) by (rewrite repeat_length; reflexivity).
    destruct (plain_loop hw (length content) fuel false c1 w (repeat None (Z.to_nat config_buff)) [] ent st
                Hinv1 Hidx1c Hslot1 eq_refl Hnps Hles Hfuel Hlb) as (r1 & ->).
    destruct r1 as [[c2 w2] acc2]. cbn [bind]. eauto.
  Qed.
End Term.
