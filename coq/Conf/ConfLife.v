(* Lifecycle of the config subsystem (property C11): init establishes the table invariants from
   any state, registrations keep them, free releases the tables and resets the variable list;
   hence any sequence of init .. free cycles runs without fault and ends in the pristine state. *)
From LV Require Import Base.Buf Strings.HelpersModel Strings.HelpersProofs Strings.HelpersProofs2.
From LV Require Import Conf.ConfModel Conf.ConfSpec Conf.ConfLemmas Conf.ConfTables Conf.ConfLine Conf.ConfWords Conf.ConfSafe.
Local Open Scope Z_scope.

Section Life.
  Variable W : Type.
  Variable V : Type.
  Variable vnull : V.
  Variable handler : Z -> harg -> Z -> W -> Z * W.
  Variable expand : str -> V -> str * V * list str.
  Variable preproc_out : str -> option (list byte).
  Variable fs : str -> option (list byte).
  Variable progname : str.

  Notation conf := (conf V).
  Notation cinvh := (cinvh V).
  Notation step := (step W V vnull handler expand preproc_out fs progname).
  Notation run := (run W V vnull handler expand preproc_out fs progname).
  Notation parse := (parse W V handler expand preproc_out fs progname).

  Hypothesis Hfs : forall n content, fs n = Some content -> Forall is_byte content.
  Hypothesis Hpp : forall cmd out, preproc_out cmd = Some out -> Forall is_byte out.
  Hypothesis Hexp : expand_fits V expand.
  Hypothesis Hinc : expand_keeps_include V expand.

  (* all four table pointers NULL and no variables: what static storage holds before the first init *)
  Definition pristine (c : conf) : Prop :=
    t_mem (cxt V c) = None /\ t_mem (cst V c) = None /\ t_mem (ftb V c) = None /\ t_mem (bit V c) = None /\
    vars V c = vnull.

  Lemma register_builtins_ok : forall names (c : conf),
    binv (bit V c) ->
    exists t', register_builtins V c names = Ok (add_live V (with_bit V c t') (Z.of_nat (length names))) /\ binv t'.
  Proof.
    induction names as [|n names IH]; intros c Hb; cbn [register_builtins length].
    - exists (bit V c). split; [|assumption]. destruct c; unfold add_live, with_bit; cbn. f_equal. f_equal. lia.
    - destruct (register_builtin_ok V c n Hb) as (t1 & id & -> & Hb1). cbn [bind].
      destruct (IH (add_live V (with_bit V c t1) 1) Hb1) as (t2 & -> & Hb2).
      exists t2. split; [|assumption]. unfold add_live, with_bit. cbn. f_equal. f_equal. lia.
  Qed.

  Lemma fresh_tab_ok {A} (zero : A) ib cnt : 0 <= ib -> 0 < cnt <= 2 ^ ib -> tab_ok ib (fresh_table zero cnt).
  Proof.
    intros Hib Hc. exists (repeat (Some zero) (Z.to_nat cnt)). cbn [fresh_table t_mem t_cnt t_idx].
    rewrite repeat_length. pose proof (pow2_succ ib Hib). repeat split; try lia.
  Qed.

  Lemma fresh_slot {A} (zero : A) cnt i : 0 <= i < cnt -> slot (fresh_table zero cnt) i = Some (Some zero).
  Proof.
    intros Hi. unfold slot, fresh_table. cbn [t_mem]. destruct (Z.ltb_spec i 0); [lia|].
    apply nth_error_repeat. lia.
  Qed.

  (* init does not look at the old tables: from any state it yields the same tables *)
  Theorem init_ok (c : conf) :
    exists c', init_subsystem V c = Ok c' /\ cinvh 1 c' /\ binv (bit V c') /\
               vars V c' = vars V c /\ nopen V c' = nopen V c /\
               live V c' = live V c + 5 + Z.of_nat (length (firstn (Z.to_nat builtin_predefined) predefined)) /\
               t_idx (ftb V c') = 0 /\ t_idx (cst V c') = 0 /\ t_idx (cxt V c') = 0 /\
               slot (cxt V c') 0 = Some (Some {| cx_name := Some s_null; cx_fun := HParseNull |}) /\
               slot (cst V c') 0 = Some (Some zero_cst).
  Proof.
    destruct widths_ok as ((Hi1 & _) & (Hi2 & _) & (Hi3 & _) & (Hi4 & _)).
    destruct inits_ok as (I1 & I2 & I3 & I4 & I5).
    unfold init_subsystem.
    pose proof (fresh_tab_ok zero_ctx ctx_idx_bits ctx_cnt_init Hi1 I1) as Hcx0.
    destruct (t_set_slot (fresh_table zero_ctx ctx_cnt_init) _ 0 {| cx_name := Some s_null; cx_fun := HParseNull |} Hcx0)
      as (cx1 & -> & Hcx1 & Hidx1 & Hcnt1 & Hnew1 & Hold1).
    { cbn [fresh_table t_cnt]. lia. }
    cbn [bind].
    set (c1 := {| cxt := cx1; cst := fresh_table zero_cst ctx_state_cnt_init; ftb := fresh_table zero_fst fstate_cnt_init;
                  bit := fresh_table None builtin_cnt_init; vars := vars V c; nopen := nopen V c; live := live V c + 5 |}).
    assert (Hb : binv (bit V c1)).
    { cbn [bit c1]. split; [apply fresh_tab_ok; lia|]. split; [reflexivity|].
      exists 0. cbn [fresh_table t_idx t_cnt]. split; [lia|]. split; [intros; lia|].
      intros i Hi. apply fresh_slot. assumption. }
    destruct (register_builtins_ok (firstn (Z.to_nat builtin_predefined) predefined) c1 Hb) as (t' & -> & Hb').
    eexists. split; [reflexivity|].
    split.
    { split; [|split].
      - cbn [cxt add_live with_bit c1]. split; [assumption|]. rewrite Hidx1, Hcnt1. cbn [fresh_table t_idx t_cnt].
        split; [lia|]. intros i Hi. assert (i = 0) by lia. subst i.
        eexists. split; [exact Hnew1|]. split; discriminate.
      - cbn [cst add_live with_bit c1]. split; [apply fresh_tab_ok; lia|].
        intros i Hi. cbn [fresh_table t_idx] in Hi. assert (i = 0) by lia. subst i.
        exists zero_cst. split; [apply fresh_slot; lia|]. cbn. lia.
      - cbn [ftb add_live with_bit c1]. split; [apply fresh_tab_ok; lia|].
        intros i Hi. cbn [fresh_table t_idx] in Hi. assert (i = 0) by lia. subst i.
        exists zero_fst. split; [apply fresh_slot; lia|]. split; [reflexivity|lia]. }
    split; [exact Hb'|]. cbn [vars nopen live ftb cst cxt add_live with_bit c1].
    split; [reflexivity|]. split; [reflexivity|]. split; [lia|]. split; [reflexivity|]. split; [reflexivity|].
    split; [rewrite Hidx1; reflexivity|]. split; [exact Hnew1|]. apply fresh_slot. lia.
  Qed.

  Theorem register_context_ok hw (c : conf) name h :
    cinvh hw c ->
    exists c' id hw', register_context V c name h = Ok (c', id) /\ cinvh hw' c' /\ hw <= hw' /\
                      bit V c' = bit V c /\ vars V c' = vars V c /\ nopen V c' = nopen V c /\
                      t_idx (ftb V c') = t_idx (ftb V c) /\ t_idx (cst V c') = t_idx (cst V c) /\
                      hw' = Z.max hw (t_idx (cxt V c') + 1) /\ cst V c' = cst V c /\ ftb V c' = ftb V c.
  Proof.
    intros (Hx & Hcs & Hf). pose proof Hx as (Htx & Hhw & Hsx). destruct widths_ok as ((Hib & Hcb) & _).
    unfold register_context. destruct (negb (ci_eq name s_null)).
    - destruct (t_bump_store ctx_idx_bits ctx_cnt_bits (cxt V c) {| cx_name := Some name; cx_fun := HUser h |} Hib Hcb Htx)
        as (t' & E & Ht' & Hidx & Hcnt & Hnew & Hold & Hblk).
      cbv zeta in E. rewrite E. cbn [bind].
      pose proof Ht' as (l' & _ & _ & Hi' & _).
      assert (Hle : t_idx t' <= t_idx (cxt V c) + 1).
      { rewrite Hidx. pose proof Htx as (l0 & _ & _ & ? & _). apply Z.mod_le; [lia|apply pow2_pos; lia]. }
      exists (add_live V (with_cxt V c t') (1 + blk (t_mem (t_bump ctx_idx_bits ctx_cnt_bits (cxt V c))) - blk (t_mem (cxt V c)))),
             (t_idx (t_bump ctx_idx_bits ctx_cnt_bits (cxt V c))), (Z.max hw (t_idx t' + 1)).
      split; [reflexivity|]. split; [|split; [lia|repeat split]].
      split; [|split; [apply (cs_inv_mono hw); [lia|exact Hcs]|exact Hf]].
      cbn [cxt add_live with_cxt]. split; [assumption|]. split; [lia|].
      intros i Hi. destruct (Z.eq_dec i (t_idx t')) as [->|Hne].
      + eexists. split; [exact Hnew|]. split; discriminate.
      + rewrite (Hold i Hne) by lia. apply Hsx. lia.
    - destruct (Hsx 0 ltac:(destruct Htx as (l & _ & _ & ? & _); lia)) as (e0 & E0 & _).
      rewrite (slot_get _ _ _ E0). cbn [bind].
      destruct (t_set_slot (cxt V c) _ 0 {| cx_name := Some name; cx_fun := HUser h |} Htx)
        as (t' & -> & Ht' & Hidx & Hcnt & Hnew & Hold).
      { destruct Htx as (l & _ & _ & ? & _). lia. }
      cbn [bind]. do 2 eexists. exists hw. split; [reflexivity|]. split; [|split; [lia|repeat split]].
      2:{ cbn [cxt add_live with_cxt]. rewrite Hidx. lia. }
      split; [|split; [exact Hcs|exact Hf]].
      cbn [cxt add_live with_cxt]. split; [assumption|]. rewrite Hidx, Hcnt. split; [assumption|].
      intros i Hi. destruct (Z.eq_dec i 0) as [->|Hne].
      + eexists. split; [exact Hnew|]. split; discriminate.
      + rewrite (Hold i Hne). apply Hsx. assumption.
  Qed.

  Lemma free_names_ok {A} (name_of : A -> option str) (t : table A) :
    forall n from, (forall i, from <= i < from + Z.of_nat n -> exists e, slot t i = Some (Some e)) ->
    exists r, free_names name_of t from n = Ok r.
  Proof.
    induction n as [|n IH]; intros from H; cbn [free_names]; [eauto|].
    destruct (H from ltac:(lia)) as (e & E). rewrite (slot_get _ _ _ E). cbn [bind].
    destruct (IH (from + 1)) as (r & ->); [intros i Hi; apply H; lia|]. cbn [bind]. eauto.
  Qed.

  Theorem free_ok hw (c : conf) :
    cinvh hw c -> binv (bit V c) ->
    exists c', free_subsystem V vnull c = Ok c' /\ pristine c' /\ nopen V c' = nopen V c.
  Proof.
    intros (Hx & Hcs & Hf) (Htb & _ & z & Hz & Hlo & _). pose proof Hx as (Htx & Hhw & Hsx).
    unfold free_subsystem.
    destruct (free_names_ok (fun x : bi_t => x) (bit V c) (Z.to_nat (t_idx (bit V c))) 0) as (nb & ->).
    { intros i Hi. apply Hlo. destruct Htb as (l & _ & _ & ? & _). lia. }
    cbn [bind].
    destruct (free_names_ok cx_name (cxt V c) (Z.to_nat (t_idx (cxt V c) + 1)) 0) as (nc & ->).
    { intros i Hi. destruct Htx as (l & _ & _ & ? & _). destruct (Hsx i ltac:(lia)) as (e & E & _). eauto. }
    cbn [bind]. eexists. split; [reflexivity|]. split; [repeat split|reflexivity].
  Qed.

  (* the built-in table keeps its NULL-name terminator across any number of registrations: the scan that
     spifconf_shell_expand makes over it ends inside the table *)
  Theorem builtins_terminated (c : conf) names :
    exists c1 c2, init_subsystem V c = Ok c1 /\ register_builtins V c1 names = Ok c2 /\
                  exists k, builtin_scan V c2 0 (Z.to_nat (t_cnt (bit V c2))) = Ok k.
  Proof.
    destruct (init_ok c) as (c1 & E1 & _ & Hb & _).
    destruct (register_builtins_ok names c1 Hb) as (t' & E2 & Hb2).
    exists c1. eexists. split; [exact E1|]. split; [exact E2|].
    apply (builtin_scan_ok V). exact Hb2.
  Qed.

  (* init does not look at what an earlier cycle left in the static variables: whatever the state, it yields
     the same four tables, and keeps the variable list, the open-file count *)
  Theorem init_independent :
    exists cx cs ft bt, forall c : conf,
      exists r, init_subsystem V c = Ok r /\ cxt V r = cx /\ cst V r = cs /\ ftb V r = ft /\ bit V r = bt /\
                vars V r = vars V c /\ nopen V r = nopen V c.
  Proof.
    do 4 eexists. intros c. eexists. split; [vm_compute; reflexivity|].
    cbn [cxt cst ftb bit vars nopen]. repeat split; reflexivity.
  Qed.

  (* ---- histories ---- *)
  Inductive mid_op :=
  | MRegCtx (name : str) (h : Z)
  | MRegBuiltin (name : str)
  | MParse (fuel : nat) (name : str)
  | MOpen (name : str).
  Definition op_of (m : mid_op) : op :=
    match m with
    | MRegCtx n h => ORegCtx n h
    | MRegBuiltin n => ORegBuiltin n
    | MParse f n => OParse f n
    | MOpen n => OOpen n
    end.
  Definition cycle_ops (ms : list mid_op) : list op := OInit :: map op_of ms ++ [OFree].
  Definition history (cycles : list (list mid_op)) : list op := concat (map cycle_ops cycles).

  (* inside a cycle: between init and free *)
  Lemma mid_ok : forall ms hw (c : conf) w,
    cinvh hw c -> binv (bit V c) ->
    match run (c, w) (map op_of ms) with
    | Ok ((c', w'), rs) => (exists hw', cinvh hw' c') /\ binv (bit V c')
    | Fault x => x = Out_of_fuel
    end.
  Proof.
    induction ms as [|m ms IH]; intros hw c w Hinv Hb; cbn [map ConfModel.run].
    - split; eauto.
    - unfold ConfModel.step. destruct m as [n h|n|fuel n|n]; cbn [op_of].
      + destruct (register_context_ok hw c n h Hinv) as (c' & id & hw' & -> & Hinv' & _ & Eb & _). cbn [bind].
        specialize (IH hw' c' w Hinv' ltac:(rewrite Eb; exact Hb)).
        destruct (run (c', w) (map op_of ms)) as [[[c2 w2] rs]|x]; cbn [bind]; assumption.
      + destruct (register_builtin_ok V c n Hb) as (t' & id & -> & Hb'). cbn [bind].
        specialize (IH hw (add_live V (with_bit V c t') 1) w Hinv Hb').
        destruct (run _ (map op_of ms)) as [[[c2 w2] rs]|x]; cbn [bind]; assumption.
      + pose proof (parse_ok W V handler expand preproc_out fs progname Hfs Hpp Hexp Hinc hw fuel c w n Hinv) as HP.
        destruct (parse fuel c w n) as [[[[c' w'] ev] r]|x]; cbn [bind]; [|assumption].
        destruct HP as (Hinv' & _ & Eb).
        specialize (IH hw c' w' Hinv' ltac:(rewrite Eb; exact Hb)).
        destruct (run (c', w') (map op_of ms)) as [[[c2 w2] rs]|x]; cbn [bind]; assumption.
      + destruct (open_file_ok fs progname Hfs (Some n)) as (r & -> & _). cbn [bind].
        specialize (IH hw c w Hinv Hb).
        destruct (run (c, w) (map op_of ms)) as [[[c2 w2] rs]|x]; cbn [bind]; assumption.
  Qed.

  Lemma run_app : forall ops1 ops2 cw,
    run cw (ops1 ++ ops2) =
    match run cw ops1 with
    | Ok (cw1, rs1) => match run cw1 ops2 with Ok (cw2, rs2) => Ok (cw2, rs1 ++ rs2) | Fault x => Fault x end
    | Fault x => Fault x
    end.
  Proof.
    induction ops1 as [|o ops1 IH]; intros ops2 cw; cbn [app ConfModel.run].
    - destruct (run cw ops2) as [[cw2 rs2]|x]; reflexivity.
    - destruct (step cw o) as [[[c' w'] r]|x]; cbn [bind]; [|reflexivity].
      rewrite IH. destruct (run (c', w') ops1) as [[cw1 rs1]|x]; cbn [bind]; [|reflexivity].
      destruct (run cw1 ops2) as [[cw2 rs2]|x]; reflexivity.
  Qed.

  Lemma cycle_ok (ms : list mid_op) (c : conf) w :
    match run (c, w) (cycle_ops ms) with
    | Ok ((c', w'), rs) => pristine c'
    | Fault x => x = Out_of_fuel
    end.
  Proof.
    unfold cycle_ops. cbn [ConfModel.run ConfModel.step].
    destruct (init_ok c) as (c1 & -> & Hinv & Hb & _). cbn [bind].
    rewrite run_app. pose proof (mid_ok ms 1 c1 w Hinv Hb) as HM.
    destruct (run (c1, w) (map op_of ms)) as [[[c2 w2] rs]|x]; cbn [bind]; [|assumption].
    destruct HM as ((hw' & Hinv2) & Hb2). cbn [ConfModel.run ConfModel.step].
    destruct (free_ok hw' c2 Hinv2 Hb2) as (c3 & -> & Hp & _). cbn [bind]. exact Hp.
  Qed.

  (* any sequence of init .. free cycles, from any state: no fault (a parse may run out of the fuel
     it was given), and after the last free the subsystem is in the pristine state *)
  Theorem lifecycle : forall cycles (c : conf) w,
    match run (c, w) (history cycles) with
    | Ok ((c', w'), rs) => cycles <> [] -> pristine c'
    | Fault x => x = Out_of_fuel
    end.
  Proof.
    induction cycles as [|ms cycles IH]; intros c w; unfold history; cbn [map concat].
    - cbn [ConfModel.run]. congruence.
    - rewrite run_app. pose proof (cycle_ok ms c w) as HC.
      destruct (run (c, w) (cycle_ops ms)) as [[[c1 w1] rs1]|x]; [|assumption].
      destruct cycles as [|ms2 cycles].
      + cbn [map concat ConfModel.run]. intros _. exact HC.
      + specialize (IH c1 w1). unfold history in IH.
        destruct (run (c1, w1) (concat (map cycle_ops (ms2 :: cycles)))) as [[[c2 w2] rs2]|x]; [|assumption].
        intros _. apply IH. discriminate.
  Qed.
End Life.
