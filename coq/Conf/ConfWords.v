(* A trimmed line that begins with "begin " (any case) has a second word: spiftool_get_word(2, .)
   does not return NULL for it, so ctx_begin never passes NULL to strcasecmp. *)
From LV Require Import Base.Buf Strings.HelpersModel Strings.HelpersProofs Strings.HelpersProofs2.
From LV Require Import Split.SplitModel Split.SplitProofs Split.SplitFrame.
From LV Require Import Conf.ConfModel Conf.ConfSpec Conf.ConfLemmas Conf.ConfLine.
Local Open Scope Z_scope.

Lemma push_nonempty c l : push c l <> [].
Proof. destruct l; discriminate. Qed.

Lemma push_length c l : l <> [] -> length (push c l) = length l.
Proof. destruct l; [congruence|reflexivity]. Qed.

Lemma wsm_true_nonempty dl s : wsm true dl s <> [].
Proof.
  destruct s as [|c t]; cbn [wsm]; [discriminate|]. cbn [negb andb].
  destruct (WDELIM dl c); [discriminate|].
  destruct (c =? 92).
  - destruct t as [|c2 t2]; [discriminate|]. destruct (is_q c2); apply push_nonempty.
  - apply push_nonempty.
Qed.

Lemma wsm_false_nonempty s : (exists c, In c s /\ isspace c = false) -> wsm false 0 s <> [].
Proof.
  induction s as [|c t IH]; intros (x & Hin & Hx); [contradiction|].
  cbn [wsm negb andb]. destruct (isspace c) eqn:Es.
  - apply IH. destruct Hin as [->|Hin]; [congruence|eauto].
  - destruct (is_q c); [apply wsm_true_nonempty|].
    destruct (c =? 92).
    + destruct t as [|c2 t2]; [discriminate|]. destruct (is_q c2); apply push_nonempty.
    + apply push_nonempty.
Qed.

(* a plain character inside a plain word *)
Lemma wsm_plain_in c t :
  isspace c = false -> c <> 92 ->
  wsm true 0 (c :: t) = push c (wsm true 0 t).
Proof.
  intros Hs Hb. cbn [wsm negb andb]. unfold WDELIM. cbn [Z.eqb]. rewrite Hs.
  destruct (Z.eqb_spec c 92); [contradiction|reflexivity].
Qed.

Lemma wsm_plain_start c t :
  isspace c = false -> is_q c = false -> c <> 92 ->
  wsm false 0 (c :: t) = push c (wsm true 0 t).
Proof.
  intros Hs Hq Hb. cbn [wsm negb andb]. rewrite Hs, Hq.
  destruct (Z.eqb_spec c 92); [contradiction|reflexivity].
Qed.

Lemma wsm_space_end t : wsm true 0 (32 :: t) = [] :: wsm false 0 t.
Proof. reflexivity. Qed.

Lemma tolower_letter c l : tolower c = l -> 97 <= l <= 122 -> c = l \/ c = l - 32.
Proof.
  unfold tolower, isupper. intros H Hl.
  destruct (Z.leb_spec 65 c); destruct (Z.leb_spec c 90); cbn [andb] in H; lia.
Qed.

Lemma letter_plain c l : tolower c = l -> 97 <= l <= 122 -> isspace c = false /\ is_q c = false /\ c <> 92.
Proof.
  intros H Hl. assert (Hc : 65 <= c <= 90 \/ 97 <= c <= 122) by (destruct (tolower_letter c l H Hl); lia).
  unfold isspace, is_q. split; [|split].
  - destruct (Z.leb_spec 9 c); destruct (Z.leb_spec c 13); destruct (Z.eqb_spec c 32); cbn; try reflexivity; lia.
  - destruct (Z.eqb_spec c 34); destruct (Z.eqb_spec c 39); cbn; try reflexivity; lia.
  - lia.
Qed.

Lemma tolower_space c : tolower c = 32 -> c = 32.
Proof.
  unfold tolower, isupper. destruct (Z.leb_spec 65 c); destruct (Z.leb_spec c 90); cbn [andb]; lia.
Qed.

Lemma beg_begin_shape (t : str) :
  beg_ci s_begin t = true ->
  exists a1 a2 a3 a4 a5 r, t = a1 :: a2 :: a3 :: a4 :: a5 :: 32 :: r /\
    tolower a1 = 98 /\ tolower a2 = 101 /\ tolower a3 = 103 /\ tolower a4 = 105 /\ tolower a5 = 110.
Proof.
  unfold beg_ci, ci_eq, s_begin. cbn [length]. intros H. apply list_eqb_eq in H.
  destruct t as [|a1 [|a2 [|a3 [|a4 [|a5 [|a6 r]]]]]]; cbn [firstn map] in H; try discriminate H.
  assert (E : [98; 101; 103; 105; 110; 32] = [tolower a1; tolower a2; tolower a3; tolower a4; tolower a5; tolower a6]).
  { rewrite <- H. reflexivity. }
  injection E as E1 E2 E3 E4 E5 E6. symmetry in E6. apply tolower_space in E6. subst a6.
  exists a1, a2, a3, a4, a5, r. repeat split; auto.
Qed.

Lemma words_begin_two (t : str) :
  beg_ci s_begin t = true -> (exists l y, t = l ++ [y] /\ isspace y = false) ->
  (2 <= length (words t))%nat.
Proof.
  intros Hb (l & y & Hl & Hy).
  destruct (beg_begin_shape t Hb) as (a1 & a2 & a3 & a4 & a5 & r & -> & H1 & H2 & H3 & H4 & H5).
  destruct (letter_plain a1 98 H1 ltac:(lia)) as (S1 & Q1 & B1).
  destruct (letter_plain a2 101 H2 ltac:(lia)) as (S2 & Q2 & B2).
  destruct (letter_plain a3 103 H3 ltac:(lia)) as (S3 & Q3 & B3).
  destruct (letter_plain a4 105 H4 ltac:(lia)) as (S4 & Q4 & B4).
  destruct (letter_plain a5 110 H5 ltac:(lia)) as (S5 & Q5 & B5).
  unfold words.
  rewrite (wsm_plain_start a1 _ S1 Q1 B1), (wsm_plain_in a2 _ S2 B2), (wsm_plain_in a3 _ S3 B3),
    (wsm_plain_in a4 _ S4 B4), (wsm_plain_in a5 _ S5 B5), wsm_space_end.
  rewrite !push_length by (apply push_nonempty || discriminate).
  cbn [length].
  assert (Hne : wsm false 0 r <> []).
  { apply wsm_false_nonempty. exists y. split; [|assumption].
    (* y is the last element of the whole line and the sixth character is a blank, so y lies in r *)
    destruct r as [|r0 r'].
    - change [a1; a2; a3; a4; a5; 32] with ([a1; a2; a3; a4; a5] ++ [32]) in Hl.
      apply app_inj_tail in Hl as [_ <-]. discriminate.
    - destruct (exists_last (l := r0 :: r') ltac:(discriminate)) as (r'' & z & Er). rewrite Er.
      change (a1 :: a2 :: a3 :: a4 :: a5 :: 32 :: r0 :: r') with ([a1; a2; a3; a4; a5; 32] ++ (r0 :: r')) in Hl.
      rewrite Er, app_assoc in Hl. apply app_inj_tail in Hl as [_ ->].
      apply in_or_app. right. left. reflexivity. }
  destruct (wsm false 0 r); [congruence|cbn [length]; lia].
Qed.

(* the fact the parser needs *)
Lemma gw_begin_some (raw : str) t :
  Forall nz_byte raw -> classify raw = ABegin t -> gw 2 t <> None.
Proof.
  intros Hraw Hc. unfold classify in Hc.
  destruct raw as [|c0 raw0]; [discriminate Hc|].
  destruct ((c0 =? 10) || (c0 =? 35) || (c0 =? 60)); [discriminate Hc|].
  destruct (trim_decomp (c0 :: raw0)) as (ws1 & ws2 & _ & _ & _ & Hcases).
  destruct (trim_ws (c0 :: raw0)) as [|c1 t0] eqn:Et; [discriminate Hc|].
  destruct (c1 =? 35); [discriminate Hc|].
  destruct (c1 =? 37).
  { destruct (pword_spec 1 t0); [|discriminate Hc].
    destruct (beg_ci s_include _); [discriminate Hc|]. destruct (beg_ci s_preproc _); discriminate Hc. }
  destruct ((c1 =? 98) && beg_ci s_begin (c1 :: t0)) eqn:Eb.
  2:{ destruct (((c1 =? 98) || (c1 =? 101)) && _); discriminate Hc. }
  injection Hc as <-. apply andb_true_iff in Eb as [_ Eb].
  destruct Hcases as [[Hnil _]|[_ Hlast]]; [discriminate Hnil|].
  assert (Ht : Forall nz_byte (c1 :: t0)) by (rewrite <- Et; apply trim_ws_nz; assumption).
  pose proof (words_begin_two (c1 :: t0) Eb Hlast) as Hw.
  unfold gw. rewrite (get_word_exact (c1 :: t0) [] 2 Ht) by lia.
  destruct (nth_error (words (c1 :: t0)) (Z.to_nat (2 - 1))) eqn:En; [discriminate|].
  apply nth_error_None in En. change (Z.to_nat (2 - 1)) with 1%nat in En. lia.
Qed.
