(* No process is created for text that asks for none (property C11): if no file contains a
   backquote, the text "%exec" or the word "preproc" (case-insensitively), the trace of
   spifconf_parse contains no Spawn event.  The expansion is a parameter: what is assumed of it is
   that it runs a command only for text containing a backquote or "%exec" (property C10's part);
   what is proved here is that the parser itself spawns only on a %preproc line and hands the
   expansion nothing but pieces of the files. *)
From LV Require Import Base.Buf Strings.HelpersModel Strings.HelpersProofs Strings.HelpersProofs2.
From LV Require Import Conf.ConfModel Conf.ConfSpec Conf.ConfLemmas Conf.ConfTables Conf.ConfLine Conf.ConfWords Conf.ConfSafe.
Local Open Scope Z_scope.

Definition infix (a b : list byte) : Prop := exists p q, b = p ++ a ++ q.
Definition has_ci (pat s : list byte) : Prop := exists x, infix x s /\ ci_eq pat x = true.

Definition s_pct_exec : list byte := [37; 101; 120; 101; 99].                 (* "%exec" *)
Definition s_preproc7 : list byte := [112; 114; 101; 112; 114; 111; 99].      (* "preproc" *)

Definition clean (d : list byte) : Prop := ~ In 96 d /\ ~ has_ci s_pct_exec d /\ ~ has_ci s_preproc7 d.

Lemma infix_refl a : infix a a.
Proof. exists [], []. now rewrite app_nil_r. Qed.

Lemma infix_trans a b c : infix a b -> infix b c -> infix a c.
Proof.
  intros (p & q & ->) (p' & q' & ->). exists (p' ++ p), (q ++ q'). now rewrite <- !app_assoc.
Qed.

Lemma infix_app_l a b : infix a (a ++ b).
Proof. exists [], b. reflexivity. Qed.

Lemma infix_app_r a b : infix b (a ++ b).
Proof. exists a, []. now rewrite app_nil_r. Qed.

Lemma infix_in a b c : infix a b -> In c a -> In c b.
Proof. intros (p & q & ->) H. apply in_or_app. right. apply in_or_app. now left. Qed.

Lemma clean_infix a b : infix a b -> clean b -> clean a.
Proof.
  intros Hi (H1 & H2 & H3). split; [|split].
  - intros H. apply H1. eapply infix_in; eassumption.
  - intros (x & Hx & E). apply H2. exists x. split; [eapply infix_trans; eassumption|assumption].
  - intros (x & Hx & E). apply H3. exists x. split; [eapply infix_trans; eassumption|assumption].
Qed.

Lemma clean_nil : clean [].
Proof.
  split; [intros []|]. split; intros (x & (p & q & E) & H); symmetry in E; apply app_eq_nil in E as [_ E];
    apply app_eq_nil in E as [-> _]; discriminate.
Qed.

Lemma infix_skipn (s : list byte) n : infix (skipn n s) s.
Proof. exists (firstn n s), []. now rewrite app_nil_r, firstn_skipn. Qed.

Lemma infix_firstn (s : list byte) n : infix (firstn n s) s.
Proof. exists [], (skipn n s). cbn [app]. now rewrite firstn_skipn. Qed.

Lemma cstr_of_prefix d : exists q, d = cstr_of d ++ q.
Proof.
  induction d as [|c d (q & IH)]; cbn [cstr_of]; [exists []; reflexivity|].
  destruct (c =? 0); [exists (c :: d); reflexivity|]. exists q. cbn [app]. now rewrite <- IH.
Qed.

Lemma infix_trim (s : list byte) : infix (trim_ws s) s.
Proof. destruct (trim_decomp s) as (w1 & w2 & E & _). exists w1, w2. exact E. Qed.

(* ---- what the classification implies ---- *)
Lemma classify_trim raw t :
  classify raw = AInclude t \/ classify raw = APreproc t \/ classify raw = AExpand t \/ classify raw = AText t ->
  t = trim_ws raw.
Proof.
  unfold classify. destruct raw as [|c0 raw0]; [intros [H|[H|[H|H]]]; discriminate|].
  destruct ((c0 =? 10) || (c0 =? 35) || (c0 =? 60)); [intros [H|[H|[H|H]]]; discriminate|].
  destruct (trim_ws (c0 :: raw0)) as [|c1 t0]; [intros [H|[H|[H|H]]]; discriminate|].
  destruct (c1 =? 35); [intros [H|[H|[H|H]]]; discriminate|].
  destruct (c1 =? 37).
  - destruct (pword_spec 1 t0); [|intros [H|[H|[H|H]]]; discriminate].
    destruct (beg_ci s_include _); [intros [H|[H|[H|H]]]; congruence|].
    destruct (beg_ci s_preproc _); intros [H|[H|[H|H]]]; congruence.
  - destruct ((c1 =? 98) && _); [intros [H|[H|[H|H]]]; discriminate|].
    destruct (_ && _); intros [H|[H|[H|H]]]; congruence.
Qed.

Lemma firstn_map {A B} (f : A -> B) n (l : list A) : firstn n (map f l) = map f (firstn n l).
Proof. revert l; induction n as [|n IH]; intros [|x l]; cbn [firstn map]; auto. now rewrite IH. Qed.

Lemma preproc_line_has raw t : classify raw = APreproc t -> has_ci s_preproc7 raw.
Proof.
  intros Hc. pose proof (classify_trim raw t ltac:(auto)) as Et. unfold classify in Hc.
  destruct raw as [|c0 raw0]; [discriminate|].
  destruct ((c0 =? 10) || (c0 =? 35) || (c0 =? 60)); [discriminate|].
  destruct (trim_ws (c0 :: raw0)) as [|c1 t0] eqn:Etr; [discriminate|].
  destruct (c1 =? 35); [discriminate|].
  destruct (c1 =? 37).
  2:{ destruct ((c1 =? 98) && _); [discriminate|]. destruct (_ && _); discriminate. }
  destruct (pword_spec 1 t0) as [off|]; [|discriminate].
  destruct (beg_ci s_include _); [discriminate|].
  destruct (beg_ci s_preproc (skipn (Z.to_nat off) t0)) eqn:Eb; [|discriminate].
  set (word := skipn (Z.to_nat off) t0) in *.
  exists (firstn 7 word). split.
  - apply (infix_trans _ word); [apply infix_firstn|].
    apply (infix_trans _ t0); [apply infix_skipn|].
    apply (infix_trans _ (c1 :: t0)); [exists [c1], []; now rewrite app_nil_r|].
    rewrite <- Etr. apply infix_trim.
  - unfold beg_ci, ci_eq in Eb. apply list_eqb_eq in Eb. cbn [length s_preproc] in Eb.
    unfold ci_eq. apply list_eqb_eq.
    assert (E7 : firstn 7 (map tolower s_preproc) = firstn 7 (map tolower (firstn 8 word))) by now rewrite Eb.
    rewrite firstn_map in E7. rewrite (firstn_map tolower 7 (firstn 8 word)) in E7.
    rewrite firstn_firstn in E7. exact E7.
Qed.

Lemma upd_In {A} (l : list A) n v x : In x (upd l n v) -> x = v \/ In x l.
Proof.
  revert n; induction l as [|y l IH]; intros [|n]; cbn [upd In]; try tauto.
  - intros [<-|H]; auto.
  - intros [<-|H]; [auto|]. destruct (IH _ H); auto.
Qed.

Lemma In_firstn {A} (l : list A) n x : In x (firstn n l) -> In x l.
Proof. intros H. rewrite <- (firstn_skipn n l). apply in_or_app. now left. Qed.

Lemma In_repeat_none {A} (x : A) k : ~ In (Some x) (repeat (@None A) k).
Proof. induction k; cbn; [tauto|]. intros [H|H]; [discriminate|auto]. Qed.

Lemma slot_In {A} (t : table A) i (x : A) : slot t i = Some (Some x) -> exists l, t_mem t = Some l /\ In (Some x) l.
Proof.
  unfold slot. destruct (t_mem t) as [l|]; [|discriminate]. destruct (i <? 0); [discriminate|].
  intros H. exists l. split; [reflexivity|]. eapply nth_error_In; eassumption.
Qed.

Lemma In_slot {A} (t : table A) l (x : A) : t_mem t = Some l -> In (Some x) l -> exists i, slot t i = Some (Some x).
Proof.
  intros Hm H. apply In_nth_error in H as (n & Hn). exists (Z.of_nat n). unfold slot. rewrite Hm.
  destruct (Z.ltb_spec (Z.of_nat n) 0); [lia|]. now rewrite Nat2Z.id.
Qed.

(* the entries of a table after a store / after a push are the stored one or old ones *)
Lemma t_set_entries {A} (t t' : table A) i a x j :
  t_set t i a = Ok t' -> slot t' j = Some (Some x) -> x = a \/ exists k, slot t k = Some (Some x).
Proof.
  intros E Hs. apply slot_In in Hs as (l' & Hm' & Hin). unfold t_set in E.
  destruct (t_mem t) as [l|] eqn:Hm; [|discriminate]. destruct (_ || _); [discriminate|]. injection E as <-.
  cbn [t_mem] in Hm'. injection Hm' as <-. apply upd_In in Hin as [E|Hin]; [left; congruence|].
  right. eapply In_slot; eassumption.
Qed.

Lemma t_bump_entries {A} ib cb (t : table A) x j :
  slot (t_bump ib cb t) j = Some (Some x) -> exists k, slot t k = Some (Some x).
Proof.
  intros Hs. apply slot_In in Hs as (l' & Hm' & Hin). unfold t_bump in Hm'.
  destruct (_ =? _); cbn [t_mem] in Hm'; [|eapply In_slot; eassumption].
  unfold realloc_slots in Hm'. destruct (_ <=? 0); [discriminate|]. destruct (t_mem t) as [l|] eqn:Hm.
  - injection Hm' as <-. apply in_app_or in Hin as [Hin|Hin]; [|exfalso; eapply In_repeat_none; eassumption].
    apply In_firstn in Hin. eapply In_slot; eassumption.
  - injection Hm' as <-. exfalso. eapply In_repeat_none; eassumption.
Qed.

Section Spawn.
  Variable W : Type.
  Variable V : Type.
  Variable handler : Z -> harg -> Z -> W -> Z * W.
  Variable expand : list byte -> V -> list byte * V * list (list byte).
  Variable preproc_out : list byte -> option (list byte).
  Variable fs : list byte -> option (list byte).
  Variable progname : list byte.

  Notation conf := (conf V).
  Notation cinvh := (cinvh V).
  Notation open_file := (open_file fs progname).
  Notation call := (call W V handler).
  Notation ctx_begin := (ctx_begin W V handler).
  Notation ctx_end := (ctx_end W V handler).
  Notation pl_str := (pl_str W V handler expand preproc_out fs progname).
  Notation parse_line := (parse_line W V handler expand preproc_out fs progname).
  Notation parse_loop := (parse_loop W V handler expand preproc_out fs progname).
  Notation parse := (parse W V handler expand preproc_out fs progname).

  Hypothesis Hfs : forall n content, fs n = Some content -> Forall is_byte content.
  Hypothesis Hpp : forall cmd out, preproc_out cmd = Some out -> Forall is_byte out.
  Hypothesis Hexp : expand_fits V expand.
  Hypothesis Hinc : expand_keeps_include V expand.
  (* the expansion runs a command only for text with a backquote or "%exec" in it *)
  Hypothesis Hquiet : forall t v, ~ In 96 t -> ~ has_ci s_pct_exec t -> snd (expand t v) = [].
  (* every file is clean *)
  Hypothesis Hclean : forall n content, fs n = Some content -> clean content.

  (* every entry of the file table that holds a stream holds clean data (after init no entry holds a stream) *)
  Definition clean_files (c : conf) : Prop :=
    forall i e st, slot (ftb V c) i = Some (Some e) -> f_fp e = Some st -> clean (sdata st).

  Lemma expand_quiet raw t v :
    clean raw -> t = trim_ws raw -> snd (expand t v) = [].
  Proof.
    intros Hc ->. pose proof (clean_infix _ _ (infix_trim raw) Hc) as (H1 & H2 & _). now apply Hquiet.
  Qed.

  Lemma fgets_clean size st r st' :
    fgets size st = (r, st') -> clean (sdata st) ->
    clean (sdata st') /\ (forall chunk, r = Some chunk -> clean chunk).
  Proof.
    unfold fgets. destruct (sdata st) as [|d0 d] eqn:Ed.
    - intros [= <- <-] _. split; [apply clean_nil|discriminate].
    - destruct (take_line (size - 1) (d0 :: d)) as [chunk rest] eqn:Et.
      intros [= <- <-] Hc. destruct (take_line_length _ _ _ _ Et) as [_ E]. rewrite E in Hc.
      split; [eapply clean_infix; [apply infix_app_r|exact Hc]|].
      intros ? [= <-]. eapply clean_infix; [apply infix_app_l|exact Hc].
  Qed.

  Lemma open_file_clean name st : open_file name = Ok (Some st) -> clean (sdata st).
  Proof.
    unfold ConfModel.open_file. destruct name as [nm|]; [|discriminate].
    destruct (fs nm) as [content|] eqn:Ef; [|discriminate].
    destruct (fgets open_fgets_size {| sdata := content; seof := false |}) as [r st0] eqn:Eg.
    destruct (fgets_clean _ _ _ _ Eg (Hclean _ _ Ef)) as [Hc _].
    destruct (match r with Some chunk => _ | None => _ end) as [b1|]; cbn [bind]; [|discriminate].
    destruct (cstring b1); cbn [bind]; [|discriminate].
    destruct (beg_ci _ _); [|discriminate]. intros [= <-]. exact Hc.
  Qed.

  (* one line of clean text: only handler calls, and the open files stay clean *)
  Lemma pl_str_quiet hw (c : conf) w raw c' w' ev :
    cinvh hw c -> clean_files c -> Forall nz_byte raw -> clean raw ->
    pl_str c w raw = Ok (c', w', ev) -> Forall is_call ev /\ clean_files c'.
  Proof.
    intros Hinv Hcf Hraw Hcl. pose proof Hinv as (Hx & Hcs & Hf).
    unfold ConfLine.pl_str. destruct (classify raw) as [|t|t|t|t| |t] eqn:Ecl.
    - intros [= <- <- <-]. split; [constructor|exact Hcf].
    - (* %include *)
      pose proof (expand_quiet raw t (vars V c) Hcl (classify_trim raw t ltac:(auto))) as Hq.
      destruct (expand t (vars V c)) as [[t' v'] cmds]. cbn [snd] in Hq. subst cmds.
      destruct (open_file (gw 2 (skipn 1 t'))) as [[st|]|] eqn:Eo; cbn [bind]; [| |discriminate].
      + destruct (gw 2 (skipn 1 t')) as [path|] eqn:Ep; [|discriminate].
        set (c2 := add_open V (add_live V (with_vars V c v') 1) 1).
        set (ent := {| f_fp := Some st; f_path := Some path; f_outfile := None; f_line := 1;
                       f_skip := false; f_preproc := false; f_owned := true |}).
        destruct (open_file_ok fs progname Hfs (Some path)) as (r & Er & Hr). rewrite Eo in Er. injection Er as <-.
        destruct (push_file_ok V c2 ent Hf eq_refl) as (t1 & Epush & Hf1 & Hidx1 & Hnew1 & Hold1).
        { split; [exists st; split; [reflexivity|apply Hr; reflexivity]|discriminate]. }
        rewrite Epush. cbn [bind]. intros [= <- <- <-]. split; [constructor|].
        intros i e st0 Hs Hfp. cbn [ftb add_live with_ftb] in Hs.
        (* the new table's entries are the pushed one or old ones *)
        unfold register_fstate in Epush. cbn [f_fp f_path ent] in Epush.
        destruct (t_set (t_bump fstate_idx_bits fstate_cnt_bits (ftb V c2)) _ ent) as [tt|] eqn:Ets; cbn [bind] in Epush; [|discriminate].
        injection Epush as Etq. subst tt.
        destruct (t_set_entries _ _ _ _ _ _ Ets Hs) as [->|(k & Hk)].
        * cbn [f_fp ent] in Hfp. injection Hfp as <-. apply (open_file_clean _ _ Eo).
        * apply t_bump_entries in Hk as (k2 & Hk2). exact (Hcf k2 e st0 Hk2 Hfp).
      + intros [= <- <- <-]. split; [constructor|exact Hcf].
    - (* %preproc: cannot be, the line is clean *)
      exfalso. destruct Hcl as (_ & _ & H3). apply H3. exact (preproc_line_has raw t Ecl).
    - pose proof (expand_quiet raw t (vars V c) Hcl (classify_trim raw t ltac:(auto))) as Hq.
      destruct (expand t (vars V c)) as [[t' v'] cmds]. cbn [snd] in Hq. subst cmds.
      intros [= <- <- <-]. split; [constructor|exact Hcf].
    - (* begin *)
      destruct (gw 2 t) as [nm|]; [|discriminate].
      destruct (ctx_begin_ok W V handler hw c w nm Hinv) as (t1 & w1 & ev1 & -> & _ & Hev).
      intros [= <- <- <-]. split; [exact Hev|exact Hcf].
    - (* end *)
      destruct (cpeek_ok V hw c Hcs) as (top & -> & Hid). cbn [bind].
      destruct (ctx_end_ok W V handler hw c w (cs_id top) Hinv Hid) as (c1 & w1 & ev1 & E1 & _ & _ & _ & Hidx & Hev & Hfr & _).
      rewrite E1. intros [= <- <- <-]. split; [exact Hev|].
      intros i e' st0 Hs Hfp. destruct (Hfr i e' Hs) as (e & Hse & Efp).
      rewrite Efp in Hfp. exact (Hcf i e st0 Hse Hfp).
    - (* text *)
      destruct (cpeek_ok V hw c Hcs) as (top & -> & Hid). cbn [bind].
      pose proof (expand_quiet raw t (vars V c) Hcl (classify_trim raw t ltac:(auto))) as Hq.
      destruct (expand t (vars V c)) as [[t' v'] cmds]. cbn [snd] in Hq. subst cmds.
      set (c2 := with_vars V c v').
      destruct (cpeek_ok V hw c2 Hcs) as (top2 & -> & _). cbn [bind].
      destruct (call_ok W V handler hw c2 w (cs_id top) (HText t') (cs_state top2) Hx Hid) as (s1 & w1 & ev1 & -> & Hev). cbn [bind].
      destruct (cpoke_ok V hw c2 s1 Hcs) as (t1 & -> & _). cbn [bind].
      intros [= <- <- <-]. split; [exact Hev|exact Hcf].
  Qed.

  Lemma skip_long_clean : forall n st buff st' b',
    skip_long n st buff = Ok (st', b') -> clean (sdata st) -> clean (sdata st').
  Proof.
    induction n as [|n IH]; intros st buff st' b'; cbn [skip_long]; [discriminate|].
    destruct (fgets config_buff st) as [r st1] eqn:Eg. intros H Hc.
    destruct (fgets_clean _ _ _ _ Eg Hc) as [Hc1 _].
    destruct r as [chunk|]; [|injection H as <- _; exact Hc1].
    destruct (put_str buff chunk) as [b1|]; cbn [bind] in H; [|discriminate].
    destruct (cstring b1) as [s0|]; cbn [bind] in H; [|discriminate].
    destruct (has_byte 10 s0); [injection H as <- _; exact Hc1|]. eapply IH; eassumption.
  Qed.

  Lemma fpoke_clean (c : conf) e t1 :
    fpoke V c e = Ok (with_ftb V c t1) -> clean_files c -> (forall st, f_fp e = Some st -> clean (sdata st)) ->
    clean_files (with_ftb V c t1).
  Proof.
    intros Efk Hcf He i x st0 Hs Hfp. cbn [ftb with_ftb] in Hs. unfold fpoke in Efk.
    destruct (t_set (ftb V c) (t_idx (ftb V c)) e) as [tt|] eqn:Ets; cbn [bind] in Efk; [|discriminate].
    injection Efk as Etq. subst tt. destruct (t_set_entries _ _ _ _ _ _ Ets Hs) as [->|(k & Hk)].
    - exact (He st0 Hfp).
    - exact (Hcf k x st0 Hk Hfp).
  Qed.

  Lemma parse_loop_quiet hw : forall fuel inner (c : conf) w buff acc c' w' acc',
    cinvh hw c -> (inner = true -> 1 <= t_idx (ftb V c) \/ fall (ftb V c)) -> clean_files c ->
    Z.of_nat (length buff) = config_buff -> Forall is_call acc ->
    parse_loop fuel inner c w buff acc = Ok (c', w', acc') -> Forall is_call acc'.
  Proof.
    induction fuel as [|fuel IH]; intros inner c w buff acc c' w' acc' Hinv Hmode Hcf Hl Hacc; [discriminate|].
    cbn [ConfModel.parse_loop]. pose proof Hinv as (Hx & Hcs & Hf).
    destruct (negb inner && (t_idx (ftb V c) =? 0)) eqn:Eouter; [intros [= <- <- <-]; exact Hacc|].
    assert (Hm : 1 <= t_idx (ftb V c) \/ fall (ftb V c)).
    { destruct inner; [apply Hmode; reflexivity|]. cbn [negb andb] in Eouter. apply Z.eqb_neq in Eouter.
      left. destruct Hf as ((l & _ & _ & ? & _) & _). lia. }
    pose proof Hf as ((lf & Hmf & Hlf & Hif & Hbf & Hcf') & Hsf).
    destruct (fpeek_ok V c Hf) as (f & Hfpk & Hsk & Hg). rewrite Hfpk. cbn [bind].
    assert (Hgf : file_good f).
    { destruct Hm as [H1|(_ & Ha)]; [apply Hg; assumption|].
      destruct (Ha (t_idx (ftb V c)) ltac:(lia)) as (e & Es & _ & Ge). apply get_slot in Hfpk. congruence. }
    destruct Hgf as ((st & Hfp & Hb) & Hp). rewrite Hfp.
    assert (Hcst : clean (sdata st)).
    { apply (Hcf (t_idx (ftb V c)) f st); [apply get_slot; exact Hfpk|exact Hfp]. }
    destruct (fgets config_buff st) as [r st1] eqn:Eg.
    destruct (fgets_bytes _ _ _ _ Eg Hb) as [Hst Hr].
    destruct (fgets_clean _ _ _ _ Eg Hcst) as [Hc1 Hcr].
    assert (Hgood : forall s2 ln, Forall is_byte (sdata s2) -> f_skip (set_fp f s2 ln) = false /\ file_good (set_fp f s2 ln)).
    { intros s2 ln Hs2. split; [exact Hsk|]. split; [exists s2; split; [reflexivity|assumption]|exact Hp]. }
    (* rewriting the top entry with an open file keeps the mode *)
    assert (Hpoke : forall (cc : conf) s2 ln t1, ft_inv (ftb V cc) -> (1 <= t_idx (ftb V cc) \/ fall (ftb V cc)) ->
              Forall is_byte (sdata s2) -> fpoke V cc (set_fp f s2 ln) = Ok (with_ftb V cc t1) ->
              t_idx t1 = t_idx (ftb V cc) -> slot t1 (t_idx t1) = Some (Some (set_fp f s2 ln)) ->
              (forall j, j <> t_idx t1 -> slot t1 j = slot (ftb V cc) j) -> 1 <= t_idx t1 \/ fall t1).
    { intros cc s2 ln t1 Hfc Hmc Hs2 Efk Hi1 Hn1 Ho1.
      destruct Hmc as [H1|Hfall]; [left; lia|right].
      apply (step_fall (ftb V cc)); [|exact (proj1 Hfc)|exact Hfall].
      right. exists (t_idx (ftb V cc)), (set_fp f s2 ln). destruct (Hgood s2 ln Hs2) as [G1 G2].
      split; [left; reflexivity|]. split; [exact Hi1|]. split.
      { unfold fpoke in Efk. destruct (t_set (ftb V cc) (t_idx (ftb V cc)) _) as [tt|] eqn:Ets; cbn [bind] in Efk; [|discriminate].
        injection Efk as Etq. apply t_set_cnt in Ets as [Ec _]. subst tt. lia. }
      split; [rewrite <- Hi1; exact Hn1|]. split; [exact G1|]. split; [exact G2|]. intros j Hj _. apply Ho1. rewrite Hi1. exact Hj. }
    destruct r as [chunk|].
    - destruct (Hr chunk eq_refl) as [Hc Hlc]. change config_buff with 20480 in Hlc, Hl.
      destruct (put_str_data buff chunk ltac:(lia) Hc) as (rest & -> & L). cbn [bind].
      destruct (Hgood st1 ((f_line f + 1) mod 2 ^ 32) Hst) as [G1 G2].
      destruct (fpoke_ok V c _ Hf G1 (fun _ => G2)) as (t1 & Efk1 & Hf1 & Hidx1 & Hnew1 & Hold1). rewrite Efk1. cbn [bind].
      pose proof (Hpoke c _ _ _ Hf Hm Hst Efk1 Hidx1 Hnew1 Hold1) as Hm1.
      rewrite cstring_cstr by (apply cstr_of_nz; assumption). cbn [bind].
      set (c1 := with_ftb V c t1).
      assert (Hinv1 : cinvh hw c1) by (split; [exact Hx|split; [exact Hcs|exact Hf1]]).
      assert (Hcf1 : clean_files c1).
      { apply (fpoke_clean c _ t1 Efk1 Hcf). intros st0 [= <-]. exact Hc1. }
      assert (Lb : Z.of_nat (length (cstr (cstr_of chunk) rest)) = config_buff) by (change config_buff with 20480; lia).
      destruct (negb (has_byte 10 (cstr_of chunk)) && negb (seof st1)).
      + destruct (skip_long (S (length (sdata st1))) st1 _) as [[st2 b2]|] eqn:Esk; cbn [bind]; [|discriminate].
        pose proof (skip_long_clean _ _ _ _ _ Esk Hc1) as Hc2.
        destruct (skip_long_ok (S (length (sdata st1))) st1 _ ltac:(lia) Hst Lb) as (st2' & b2' & Esk' & Hst2 & Lb2).
        rewrite Esk in Esk'. injection Esk' as <- <-.
        destruct (Hgood st2 ((f_line f + 1) mod 2 ^ 32) Hst2) as [G3 G4].
        destruct (fpoke_ok V c1 _ Hf1 G3 (fun _ => G4)) as (t2 & Efk2 & Hf2 & Hidx2 & Hnew2 & Hold2). rewrite Efk2. cbn [bind].
        pose proof (Hpoke c1 _ _ _ Hf1 Hm1 Hst2 Efk2 Hidx2 Hnew2 Hold2) as Hm2.
        apply IH; auto.
        * split; [exact Hx|split; [exact Hcs|exact Hf2]].
        * apply (fpoke_clean c1 _ t2 Efk2 Hcf1). intros st0 [= <-]. exact Hc2.
      + assert (Hrawc : clean (cstr_of chunk)).
        { destruct (cstr_of_prefix chunk) as (q & Eq). eapply clean_infix; [|apply (Hcr chunk eq_refl)].
          rewrite Eq at 2. apply infix_app_l. }
        destruct (cpeek_ok V hw c1 Hcs) as (top & Htop & _).
        destruct (fpeek_ok V c1 Hf1) as (f1 & Hf1p & Hsk1 & _).
        pose proof (parse_line_str W V handler expand preproc_out fs progname Hexp Hinc c1 w (cstr_of chunk) rest top f1
                      (cstr_of_nz _ Hc) Lb Htop Hf1p Hsk1) as Hpl.
        destruct (pl_str_ok W V handler expand preproc_out fs progname Hfs Hpp hw c1 w (cstr_of chunk) Hinv1 (cstr_of_nz _ Hc))
          as (c2 & w2 & ev & Epl & Hinv2 & _).
        pose proof (pl_str_files W V handler expand preproc_out fs progname Hfs Hpp hw c1 w (cstr_of chunk) c2 w2 ev Hinv1 Hm1 (cstr_of_nz _ Hc) Epl) as Hstep.
        pose proof (step_wrap _ _ Hstep Hf1 Hm1) as Hm2.
        rewrite Epl in Hpl. destruct Hpl as (b' & -> & Lb'). cbn [bind].
        destruct (pl_str_quiet hw c1 w (cstr_of chunk) c2 w2 ev Hinv1 Hcf1 (cstr_of_nz _ Hc) Hrawc Epl) as [Hev Hcf2].
        apply IH; auto. rewrite rev_append_rev. apply Forall_app. split; [apply Forall_rev; exact Hev|exact Hacc].
    - destruct (Hgood st1 (f_line f) Hst) as [G1 G2].
      destruct (fpoke_ok V c _ Hf G1 (fun _ => G2)) as (t1 & Efk1 & Hf1 & Hidx1 & Hnew1 & Hold1). rewrite Efk1. cbn [bind].
      pose proof (Hpoke c _ _ _ Hf Hm Hst Efk1 Hidx1 Hnew1 Hold1) as Hm1.
      set (d := (if f_preproc f then blk (f_outfile f) else 0) + (if f_owned f then blk (f_path f) else 0)).
      set (c2 := file_pop V (add_open V (add_live V (with_ftb V c t1) (- d)) (-1))).
      (* the popped state satisfies the invariant: this is the end-of-file step of parse_loop_ok *)
      pose proof (parse_loop_ok W V handler expand preproc_out fs progname Hfs Hpp Hexp Hinc hw 1 inner c w buff acc Hinv Hmode
                    ltac:(change config_buff with 20480; exact Hl)) as Hone.
      intros Hrun.
      apply (IH false c2 w buff acc c' w' acc'); auto; [|discriminate|].
      + (* cinvh of the popped state *)
        destruct widths_ok as (_ & _ & (Hib & _) & _). pose proof (pow2_pos fstate_idx_bits Hib) as Hp2.
        split; [exact Hx|split; [exact Hcs|]].
        assert (E2 : ftb V c2 = Build_table (t_mem t1) (t_cnt t1) ((t_idx t1 - 1) mod 2 ^ fstate_idx_bits)) by reflexivity.
        rewrite E2. destruct Hf1 as ((l1 & Hm1' & Hl1 & Hi1 & Hb1 & Hc1') & Hs1).
        destruct (Z.eq_dec (t_idx t1) 0) as [Ez|Enz].
        * destruct Hm1 as [H1|(Hcntf & Ha)]; [lia|].
          assert (Em : (t_idx t1 - 1) mod 2 ^ fstate_idx_bits = 2 ^ fstate_idx_bits - 1).
          { rewrite Ez. rewrite <- (Z.mod_add (0 - 1) 1 (2 ^ fstate_idx_bits)) by lia. rewrite Z.mod_small by lia. lia. }
          rewrite Em. split.
          -- exists l1. cbn [t_mem t_cnt t_idx]. repeat split; auto; lia.
          -- intros i Hi. cbn [t_idx] in Hi. destruct (Ha i ltac:(lia)) as (e1 & Ee1 & S1 & G1'). exists e1.
             split; [unfold slot in *; cbn [t_mem]; rewrite Hm1' in *; assumption|]. split; [assumption|intros _; assumption].
        * rewrite Z.mod_small by lia. split.
          -- exists l1. cbn [t_mem t_cnt t_idx]. repeat split; auto; lia.
          -- intros i Hi. cbn [t_idx] in Hi. destruct (Hs1 i ltac:(lia)) as (e1 & Ee1 & B). exists e1. split; [|assumption].
             unfold slot in *. cbn [t_mem]. rewrite Hm1' in *. assumption.
      + (* the table memory is unchanged by the pop *)
        intros i x st0 Hs Hfp0.
        assert (Hs' : slot t1 i = Some (Some x)) by exact Hs.
        apply (fpoke_clean c _ t1 Efk1 Hcf (fun st0 (E : f_fp (set_fp f st1 (f_line f)) = Some st0) =>
                 match E in _ = y return match y with Some s => clean (sdata s) | None => True end with eq_refl => Hc1 end) i x st0 Hs' Hfp0).
  Qed.

  (* the theorem: no process is created when no file asks for one *)
  Theorem no_spawn hw fuel (c : conf) w name c' w' ev ret :
    cinvh hw c -> clean_files c ->
    parse fuel c w name = Ok (c', w', ev, ret) -> Forall is_call ev.
  Proof.
    intros Hinv Hcf. pose proof Hinv as (Hx & Hcs & Hf). unfold ConfModel.parse.
    destruct (open_file (Some name)) as [[st|]|] eqn:Eo; cbn [bind]; [| |discriminate].
    2:{ intros [= <- <- <- <-]. constructor. }
    destruct (open_file_ok fs progname Hfs (Some name)) as (r & Er & Hr). rewrite Eo in Er. injection Er as <-.
    set (ent := {| f_fp := Some st; f_path := Some name; f_outfile := None; f_line := 1;
                   f_skip := false; f_preproc := false; f_owned := false |}).
    destruct (push_file_ok V (add_open V c 1) ent Hf eq_refl) as (t1 & Epush & Hf1 & Hidx1 & Hnew1 & Hold1).
    { split; [exists st; split; [reflexivity|apply Hr; reflexivity]|discriminate]. }
    rewrite Epush. cbn [bind].
    destruct (parse_loop fuel false _ w _ []) as [[[c2 w2] acc]|] eqn:El; cbn [bind]; [|discriminate].
    intros [= <- <- <- <-]. apply Forall_rev.
    eapply (parse_loop_quiet hw fuel false); [| | | | |exact El].
    - split; [exact Hx|split; [exact Hcs|exact Hf1]].
    - discriminate.
    - intros i e st0 Hs Hfp. cbn [ftb add_live with_ftb] in Hs.
      unfold register_fstate in Epush. cbn [f_fp f_path ent] in Epush.
      destruct (t_set (t_bump fstate_idx_bits fstate_cnt_bits (ftb V (add_open V c 1))) _ ent) as [tt|] eqn:Ets; cbn [bind] in Epush; [|discriminate].
      injection Epush as Etq. subst tt.
      destruct (t_set_entries _ _ _ _ _ _ Ets Hs) as [->|(k & Hk)].
      + cbn [f_fp ent] in Hfp. injection Hfp as <-. apply (open_file_clean _ _ Eo).
      + apply t_bump_entries in Hk as (k2 & Hk2). exact (Hcf k2 e st0 Hk2 Hfp).
    - rewrite repeat_length. reflexivity.
    - constructor.
  Qed.

  (* after init no entry of the file table holds a stream *)
  Lemma init_clean_files (c : conf) : exists r, init_subsystem V c = Ok r /\ clean_files r.
  Proof.
    assert (H : exists r, init_subsystem V c = Ok r /\ ftb V r = fresh_table zero_fst fstate_cnt_init).
    { eexists. split; [vm_compute; reflexivity|vm_compute; reflexivity]. }
    destruct H as (r & E & Ef). exists r. split; [exact E|].
    intros i e st Hs Hfp. rewrite Ef in Hs. apply slot_In in Hs as (l & Hl & Hin).
    cbn [fresh_table t_mem] in Hl. injection Hl as <-.
    assert (He : Some e = Some zero_fst) by (apply (repeat_spec (Z.to_nat fstate_cnt_init) (Some zero_fst) (Some e)); exact Hin).
    injection He as ->. discriminate.
  Qed.
End Spawn.

(* ---- a decidable form of `clean`, for stating the theorem on concrete texts ---- *)
Fixpoint has_ci_b (pat s : list byte) : bool :=
  match s with
  | [] => false
  | _ :: t => beg_ci pat s || has_ci_b pat t
  end.
Definition clean_b (d : list byte) : bool :=
  negb (has_byte 96 d) && negb (has_ci_b s_pct_exec d) && negb (has_ci_b s_preproc7 d).

Lemma ci_eq_length (a b : list byte) : ci_eq a b = true -> length a = length b.
Proof. unfold ci_eq. intros H. apply list_eqb_eq in H. apply (f_equal (@length Z)) in H. now rewrite !map_length in H. Qed.

Lemma has_ci_b_complete pat s : pat <> [] -> has_ci pat s -> has_ci_b pat s = true.
Proof.
  intros Hne (x & (p & q & ->) & Hx). pose proof (ci_eq_length _ _ Hx) as Hl.
  induction p as [|c p IH]; cbn [app].
  - destruct x as [|x0 x']; [destruct pat; [congruence|discriminate]|]. cbn [app has_ci_b].
    replace (beg_ci pat (x0 :: x' ++ q)) with true; [reflexivity|]. symmetry. unfold beg_ci.
    change (x0 :: x' ++ q) with ((x0 :: x') ++ q). rewrite firstn_app, Hl, Nat.sub_diag, firstn_all. cbn [firstn].
    now rewrite app_nil_r.
  - cbn [has_ci_b]. rewrite IH. apply orb_true_r.
Qed.

Lemma has_byte_in c (s : list byte) : has_byte c s = false -> ~ In c s.
Proof.
  unfold has_byte. induction s as [|x s IH]; cbn [existsb]; [intros _ []|].
  intros H. apply orb_false_iff in H as [H1 H2]. intros [->|Hin]; [rewrite Z.eqb_refl in H1; discriminate|].
  exact (IH H2 Hin).
Qed.

Lemma clean_b_sound d : clean_b d = true -> clean d.
Proof.
  unfold clean_b. intros H. apply andb_true_iff in H as [H H3]. apply andb_true_iff in H as [H1 H2].
  apply negb_true_iff in H1, H2, H3. split; [apply has_byte_in; assumption|]. split.
  - intros Hc. rewrite (has_ci_b_complete s_pct_exec d ltac:(discriminate) Hc) in H2. discriminate.
  - intros Hc. rewrite (has_ci_b_complete s_preproc7 d ltac:(discriminate) Hc) in H3. discriminate.
Qed.
