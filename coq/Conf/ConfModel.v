(* Executable model of the config-file subsystem of src/conf.c (properties C09 and C11), after
   the repairs listed in checks/c09.py:

     spifconf_init_subsystem, spifconf_register_context, spifconf_register_fstate,
     spifconf_register_builtin, spifconf_register_context_state, spifconf_free_subsystem,
     spifconf_open_file, spifconf_parse_line (fp != NULL), spifconf_parse (path == NULL),
     the ctx_* / file_* stack macros, and - over lengths only - spifconf_find_file.

   What is modelled how
   * The four tables are `table`s: the block (None = the NULL pointer, a slot None = never
     written since MALLOC/REALLOC), the capacity variable and the index variable.  Indices and
     capacities wrap at the width of their C type; the widths and the initial capacities come
     from the source tree (Gen/ConfGen.v).  Every load and store is checked against the block.
   * A FILE is the list of bytes still to be read plus its end-of-file flag; fgets is modelled
     byte for byte (at most size-1 bytes, stops after a newline, sets the flag when it runs
     into the end).  The line buffer buff[CONFIG_BUFF] is a list of cells that persists from
     line to line; spiftool_chomp / get_word / get_pword are the cell-level models of C13/C12.
   * The handlers a client registers, the value expansion (spifconf_shell_expand with the
     variable store of C10), the preprocessor's output and the file system are parameters of
     the section: everything below is a function of them, and the theorems quantify over them.
   * Not modelled: the version comparison of spifconf_open_file (it only prints a warning), the
     search-path prefix of spifconf_parse (spifconf_find_file is modelled separately, over
     lengths), D_CONF output, the fp == NULL (command line) entry of spifconf_parse_line.
   No proofs in this file.  The specification is in ConfSpec.v. *)
From LV Require Export Base.Buf Strings.HelpersModel Split.SplitModel.
From LV Require Export Gen.Constants Gen.ConfGen.
Local Open Scope Z_scope.

(* ------------------------------------------------------------------------------------ *)
(* strings                                                                               *)
(* ------------------------------------------------------------------------------------ *)
Notation str := (list byte) (only parsing).

Fixpoint list_eqb (a b : str) : bool :=
  match a, b with
  | [], [] => true
  | x :: a', y :: b' => (x =? y) && list_eqb a' b'
  | _, _ => false
  end.
(* strcasecmp(a, b) == 0 in the "C" locale *)
Definition ci_eq (a b : str) : bool := list_eqb (map tolower a) (map tolower b).
(* BEG_STRCASECMP(s, lit) == 0, i.e. strncasecmp(s, lit, strlen(lit)) == 0 *)
Definition beg_ci (lit s : str) : bool := ci_eq lit (firstn (length lit) s).
Definition has_byte (c : byte) (s : str) : bool := existsb (Z.eqb c) s.

Definition s_include : str := [105; 110; 99; 108; 117; 100; 101; 32].      (* "include " *)
Definition s_preproc : str := [112; 114; 101; 112; 114; 111; 99; 32].      (* "preproc " *)
Definition s_begin : str := [98; 101; 103; 105; 110; 32].                  (* "begin " *)
Definition s_end_sp : str := [101; 110; 100; 32].                          (* "end " *)
Definition s_end : str := [101; 110; 100].                                 (* "end" *)
Definition s_null : str := [110; 117; 108; 108].                           (* "null" *)
Definition s_preproc_tmpl : str :=                                         (* "Eterm-preproc-" *)
  [69; 116; 101; 114; 109; 45; 112; 114; 101; 112; 114; 111; 99; 45].

(* the C string that starts at cell 0 *)
Fixpoint cstring (b : buf) : res str :=
  match b with
  | [] => Fault OOB_read
  | None :: _ => Fault Uninit_read
  | Some c :: t => if c =? 0 then Ok [] else (r <- cstring t ;; Ok (c :: r))
  end.
(* strcpy(b, s) / the store half of fgets: the bytes and a terminator, written cell by cell from cell 0
   (a write beyond the buffer is a fault) *)
Fixpoint put_at (b : buf) (cs : list cell) : res buf :=
  match cs, b with
  | [], _ => Ok b
  | _ :: _, [] => Fault OOB_write
  | c :: cs', _ :: b' => r <- put_at b' cs' ;; Ok (c :: r)
  end.
Definition put_str (b : buf) (s : str) : res buf := put_at b (bytes s ++ [Some 0]).

(* spiftool_chomp(buff): the C13 model, handed exactly the string and its terminator - the cells it may
   touch (so a read or write beyond the terminator would be a fault here); the rest of the buffer is kept *)
Definition chomp_line (b : buf) : res buf :=
  l <- strlen b ;;
  r <- chomp (firstn (S l) b) ;;
  Ok (r ++ skipn (S l) b).
(* spiftool_get_word / spiftool_get_pword on a string in the line buffer: the C12 models, handed the
   string and its terminator only (they read nothing else: C12's frame theorem) *)
Definition get_word_line (idx : Z) (b : buf) : res (option str) :=
  l <- strlen b ;; get_word idx (firstn (S l) b).
Definition get_pword_line (idx : Z) (b : buf) : res (option Z) :=
  l <- strlen b ;; get_pword idx (firstn (S l) b).

(* ------------------------------------------------------------------------------------ *)
(* streams                                                                               *)
(* ------------------------------------------------------------------------------------ *)
Record stream := { sdata : list byte; seof : bool }.

(* at most n bytes, stopping after the first newline *)
Fixpoint take_line (n : Z) (d : list byte) : list byte * list byte :=
  match d with
  | [] => ([], [])
  | c :: t =>
    if n <=? 0 then ([], d)
    else if c =? 10 then ([c], t)
    else let '(a, r) := take_line (n - 1) t in (c :: a, r)
  end.
Definition ends_nl (chunk : list byte) : bool :=
  match rev chunk with c :: _ => c =? 10 | [] => false end.
(* fgets(buf, size, fp): None = NULL (nothing read); the flag is set when the end of the data
   is run into, i.e. not when the buffer fills up or a newline ends the read first *)
Definition fgets (size : Z) (st : stream) : option (list byte) * stream :=
  match sdata st with
  | [] => (None, {| sdata := []; seof := true |})
  | _ =>
    let '(chunk, rest) := take_line (size - 1) (sdata st) in
    let hit := match rest with [] => negb (ends_nl chunk) && (Z.of_nat (length chunk) <? size - 1) | _ => false end in
    (Some chunk, {| sdata := rest; seof := seof st || hit |})
  end.

(* ------------------------------------------------------------------------------------ *)
(* tables with C-width indices and capacities                                             *)
(* ------------------------------------------------------------------------------------ *)
Record table (A : Type) := { t_mem : option (list (option A)); t_cnt : Z; t_idx : Z }.
Arguments t_mem {A} _.
Arguments t_cnt {A} _.
Arguments t_idx {A} _.
Arguments Build_table {A} _ _ _.

Definition t_get {A} (t : table A) (i : Z) : res A :=
  match t_mem t with
  | None => Fault Null_deref
  | Some l =>
    if i <? 0 then Fault OOB_read
    else match nth_error l (Z.to_nat i) with
         | None => Fault OOB_read
         | Some None => Fault Uninit_read
         | Some (Some a) => Ok a
         end
  end.
Definition t_set {A} (t : table A) (i : Z) (a : A) : res (table A) :=
  match t_mem t with
  | None => Fault Null_deref
  | Some l =>
    if (i <? 0) || negb (i <? Z.of_nat (length l)) then Fault OOB_write
    else Ok (Build_table (Some (upd l (Z.to_nat i) (Some a))) (t_cnt t) (t_idx t))
  end.
(* REALLOC(mem, n * sizeof): the first min(old, n) slots survive, new slots are not
   initialised; size 0 frees the block and yields NULL *)
Definition realloc_slots {A} (m : option (list (option A))) (n : Z) : option (list (option A)) :=
  if n <=? 0 then None
  else match m with
       | None => Some (repeat None (Z.to_nat n))
       | Some l => Some (firstn (Z.to_nat n) l ++ repeat None (Z.to_nat n - length l))
       end.
(* number of heap blocks a pointer stands for *)
Definition blk {A} (m : option A) : Z := match m with Some _ => 1 | None => 0 end.

(* if (++idx == cnt) { cnt *= 2; REALLOC }  -- then the caller stores at idx *)
Definition t_bump {A} (ib cb : Z) (t : table A) : table A :=
  let idx' := (t_idx t + 1) mod 2 ^ ib in
  if idx' =? t_cnt t then
    let cnt' := (t_cnt t * 2) mod 2 ^ cb in
    Build_table (realloc_slots (t_mem t) cnt') cnt' idx'
  else Build_table (t_mem t) (t_cnt t) idx'.

(* memset(mem + from, 0, (cnt - from) * sizeof) with `zero` the all-zero element *)
Fixpoint zero_from {A} (zero : A) (l : list (option A)) (from : nat) : list (option A) :=
  match l, from with
  | [], _ => []
  | _ :: t, O => Some zero :: zero_from zero t O
  | x :: t, S f => x :: zero_from zero t f
  end.

(* ------------------------------------------------------------------------------------ *)
(* the subsystem                                                                         *)
(* ------------------------------------------------------------------------------------ *)
Inductive hfun := HNullPtr | HParseNull | HUser (k : Z).
Inductive harg := HBegin | HEnd | HText (s : str).
Inductive event := EvCall (h : hfun) (a : harg) (sin sout : Z) | EvSpawn (cmd : str).

Record ctx_t := { cx_name : option str; cx_fun : hfun }.
Record cst_t := { cs_id : Z; cs_state : Z }.
Record fst_t := { f_fp : option stream; f_path : option str; f_outfile : option str; f_line : Z;
                  f_skip : bool; f_preproc : bool; f_owned : bool }.
(* a built-in: its name pointer (None = NULL); the function pointer plays no part here *)
Definition bi_t := option str.

Definition zero_ctx : ctx_t := {| cx_name := None; cx_fun := HNullPtr |}.
Definition zero_cst : cst_t := {| cs_id := 0; cs_state := 0 |}.
Definition zero_fst : fst_t := {| f_fp := None; f_path := None; f_outfile := None; f_line := 0;
                                   f_skip := false; f_preproc := false; f_owned := false |}.

Section Conf.
  Variable W : Type.                                   (* whatever the client's handlers keep *)
  Variable V : Type.                                   (* the variable store (spifconf_vars) *)
  Variable vnull : V.                                  (* the empty store: spifconf_vars == NULL *)
  Variable vblocks : V -> Z.                           (* heap blocks the store holds *)
  (* handler k called with (argument, state): returns the new state *)
  Variable handler : Z -> harg -> Z -> W -> Z * W.
  (* spifconf_shell_expand on a line: new text, new store, commands it ran *)
  Variable expand : str -> V -> str * V * list str.
  (* what the temporary file holds after system(cmd); None: it could not be created *)
  Variable preproc_out : str -> option (list byte).
  Variable fs : str -> option (list byte).             (* fopen(name, "rt") *)
  Variable progname : str.                             (* libast_program_name *)

  Record conf := {
    cxt : table ctx_t;          (* context[], ctx_cnt, ctx_idx *)
    cst : table cst_t;          (* ctx_state[], ctx_state_cnt, ctx_state_idx *)
    ftb : table fst_t;          (* fstate[], fstate_cnt, fstate_idx *)
    bit : table bi_t;           (* builtins[], builtin_cnt, builtin_idx *)
    vars : V;                   (* spifconf_vars *)
    nopen : Z;                  (* FILE objects open *)
    live : Z                    (* heap blocks the subsystem holds (the store's are counted by vblocks) *)
  }.
  Definition with_cxt c t := {| cxt := t; cst := cst c; ftb := ftb c; bit := bit c; vars := vars c; nopen := nopen c; live := live c |}.
  Definition with_cst c t := {| cxt := cxt c; cst := t; ftb := ftb c; bit := bit c; vars := vars c; nopen := nopen c; live := live c |}.
  Definition with_ftb c t := {| cxt := cxt c; cst := cst c; ftb := t; bit := bit c; vars := vars c; nopen := nopen c; live := live c |}.
  Definition with_bit c t := {| cxt := cxt c; cst := cst c; ftb := ftb c; bit := t; vars := vars c; nopen := nopen c; live := live c |}.
  Definition with_vars c v := {| cxt := cxt c; cst := cst c; ftb := ftb c; bit := bit c; vars := v; nopen := nopen c; live := live c |}.
  Definition add_open c d := {| cxt := cxt c; cst := cst c; ftb := ftb c; bit := bit c; vars := vars c; nopen := nopen c + d; live := live c |}.
  Definition add_live c d := {| cxt := cxt c; cst := cst c; ftb := ftb c; bit := bit c; vars := vars c; nopen := nopen c; live := live c + d |}.

  (* static storage before the first call: every pointer NULL, every counter 0 *)
  Definition null_table {A} : table A := Build_table None 0 0.
  Definition conf0 : conf :=
    {| cxt := null_table; cst := null_table; ftb := null_table; bit := null_table;
       vars := vnull; nopen := 0; live := 0 |}.

  (* ---- spifconf_register_builtin (conf.c:150) ---- *)
  Definition register_builtin (c : conf) (name : str) : res (conf * Z) :=
    let t := bit c in
    t1 <- t_set t (t_idx t) (Some name) ;;                           (* builtins[builtin_idx] = {STRDUP(name), ptr} *)
    let idx' := (t_idx t + 1) mod 2 ^ builtin_idx_bits in
    let '(t2, dl) :=
      if idx' =? t_cnt t1 then
        let cnt' := (t_cnt t1 * 2) mod 2 ^ builtin_cnt_bits in
        let m := realloc_slots (t_mem t1) cnt' in
        (* memset(builtins + builtin_idx, 0, (builtin_cnt - builtin_idx) * sizeof) *)
        let m' := match m with Some l => Some (zero_from None l (Z.to_nat idx')) | None => None end in
        (Build_table m' cnt' idx', blk m - blk (t_mem t1))
      else (Build_table (t_mem t1) (t_cnt t1) idx', 0) in
    (* with a NULL block the memset dereferences it; with a capacity below the index its
       unsigned length is astronomically large *)
    match t_mem t2 with
    | None => Fault Null_deref
    | Some _ => if t_cnt t2 <? idx' then Fault OOB_write
                else Ok (add_live (with_bit c t2) (1 + dl), (idx' - 1) mod 256)
    end.

  Definition predefined : list str :=
    [[97; 112; 112; 110; 97; 109; 101]; [118; 101; 114; 115; 105; 111; 110]; [101; 120; 101; 99];
     [114; 97; 110; 100; 111; 109]; [103; 101; 116]; [112; 117; 116]; [100; 105; 114; 115; 99; 97; 110]].

  Fixpoint register_builtins (c : conf) (names : list str) : res conf :=
    match names with
    | [] => Ok c
    | n :: r => '(c1, _) <- register_builtin c n ;; register_builtins c1 r
    end.

  (* ---- spifconf_init_subsystem (conf.c:69): MALLOC + memset 0 for each table ---- *)
  Definition fresh_table {A} (zero : A) (cnt : Z) : table A :=
    Build_table (Some (repeat (Some zero) (Z.to_nat cnt))) cnt 0.
  Definition init_subsystem (c : conf) : res conf :=
    let cx0 := fresh_table zero_ctx ctx_cnt_init in
    cx1 <- t_set cx0 0 {| cx_name := Some s_null; cx_fun := HParseNull |} ;;
    let c1 := {| cxt := cx1; cst := fresh_table zero_cst ctx_state_cnt_init;
                 ftb := fresh_table zero_fst fstate_cnt_init; bit := fresh_table None builtin_cnt_init;
                 vars := vars c; nopen := nopen c; live := live c + 5 |} in
    register_builtins c1 (firstn (Z.to_nat builtin_predefined) predefined).

  (* ---- spifconf_register_context (conf.c:109) ---- *)
  Definition register_context (c : conf) (name : str) (h : Z) : res (conf * Z) :=
    if negb (ci_eq name s_null) then
      let t0 := cxt c in
      let t := t_bump ctx_idx_bits ctx_cnt_bits t0 in
      t' <- t_set t (t_idx t) {| cx_name := Some name; cx_fun := HUser h |} ;;
      Ok (add_live (with_cxt c t') (1 + blk (t_mem t) - blk (t_mem t0)), t_idx t)
    else
      e <- t_get (cxt c) 0 ;;                                         (* FREE(context[0].name) *)
      t' <- t_set (cxt c) 0 {| cx_name := Some name; cx_fun := HUser h |} ;;
      Ok (add_live (with_cxt c t') (1 - blk (cx_name e)), 0).

  (* ---- spifconf_register_fstate (conf.c:130): ASSERT_RVAL on fp and path ---- *)
  Definition register_fstate (c : conf) (e : fst_t) : res conf :=
    match f_fp e, f_path e with
    | Some _, Some _ =>
      let t0 := ftb c in
      let t := t_bump fstate_idx_bits fstate_cnt_bits t0 in
      t' <- t_set t (t_idx t) e ;;
      Ok (add_live (with_ftb c t') (blk (t_mem t) - blk (t_mem t0)))
    | _, _ => Ok c
    end.

  (* ---- spifconf_register_context_state (conf.c:164) ---- *)
  Definition register_context_state (c : conf) (id : Z) : res conf :=
    let t0 := cst c in
    let t := t_bump ctx_state_idx_bits ctx_state_cnt_bits t0 in
    t' <- t_set t (t_idx t) {| cs_id := id; cs_state := 0 |} ;;
    Ok (add_live (with_cst c t') (blk (t_mem t) - blk (t_mem t0))).

  (* ---- spifconf_free_subsystem (conf.c:176) ---- *)
  (* for (i = from; i < upto; i++) FREE(tab[i].name): returns the number of blocks released *)
  Fixpoint free_names {A} (name_of : A -> option str) (t : table A) (from : Z) (n : nat) : res Z :=
    match n with
    | O => Ok 0
    | S n' => e <- t_get t from ;; r <- free_names name_of t (from + 1) n' ;; Ok (blk (name_of e) + r)
    end.
  Definition drop_block {A} (t : table A) : table A := Build_table None (t_cnt t) (t_idx t).
  Definition free_subsystem (c : conf) : res conf :=
    nb <- free_names (fun x : bi_t => x) (bit c) 0 (Z.to_nat (t_idx (bit c))) ;;
    nc <- free_names cx_name (cxt c) 0 (Z.to_nat (t_idx (cxt c) + 1)) ;;
    Ok {| cxt := drop_block (cxt c); cst := drop_block (cst c); ftb := drop_block (ftb c); bit := drop_block (bit c);
          vars := vnull;                                              (* spifconf_vars = NULL *)
          nopen := nopen c;
          live := live c - nb - nc - blk (t_mem (cst c)) - blk (t_mem (bit c)) - blk (t_mem (ftb c))
                  - blk (t_mem (cxt c)) |}.

  (* ---- the stack macros ---- *)
  Definition fpeek (c : conf) : res fst_t := t_get (ftb c) (t_idx (ftb c)).
  Definition fpoke (c : conf) (e : fst_t) : res conf :=
    t <- t_set (ftb c) (t_idx (ftb c)) e ;; Ok (with_ftb c t).
  (* file_pop(): fstate_idx-- *)
  Definition file_pop (c : conf) : conf :=
    with_ftb c (Build_table (t_mem (ftb c)) (t_cnt (ftb c)) ((t_idx (ftb c) - 1) mod 2 ^ fstate_idx_bits)).
  Definition cpeek (c : conf) : res cst_t := t_get (cst c) (t_idx (cst c)).
  Definition cpoke_state (c : conf) (s : Z) : res conf :=
    e <- cpeek c ;;
    t <- t_set (cst c) (t_idx (cst c)) {| cs_id := cs_id e; cs_state := s |} ;; Ok (with_cst c t).
  Definition ctx_pop (c : conf) : conf :=
    with_cst c (Build_table (t_mem (cst c)) (t_cnt (cst c)) ((t_idx (cst c) - 1) mod 2 ^ ctx_state_idx_bits)).

  (* calling context[id].handler *)
  Definition call (c : conf) (w : W) (id : Z) (a : harg) (s : Z) : res (Z * W * list event) :=
    e <- t_get (cxt c) id ;;
    match cx_fun e with
    | HNullPtr => Fault Null_deref
    | HParseNull =>                                                   (* parse_null, conf.c:1004 *)
      let s' := match a with HText _ => s | _ => 0 end in
      Ok (s', w, [EvCall HParseNull a s s'])
    | HUser k => let '(s', w') := handler k a s w in Ok (s', w', [EvCall (HUser k) a s s'])
    end.

  (* ctx_name_to_id: the first i <= ctx_idx with strcasecmp(name, context[i].name) == 0, else 0 *)
  Fixpoint name_to_id (c : conf) (name : str) (i : Z) (n : nat) : res Z :=
    match n with
    | O => Ok 0
    | S n' =>
      e <- t_get (cxt c) i ;;
      match cx_name e with
      | None => Fault Null_deref
      | Some nm => if ci_eq name nm then Ok i else name_to_id c name (i + 1) n'
      end
    end.

  (* ctx_begin(2) with `name` the word already taken from the line *)
  Definition ctx_begin (c : conf) (w : W) (name : str) : res (conf * W * list event) :=
    id <- name_to_id c name 0 (Z.to_nat (t_idx (cxt c) + 1)) ;;
    c1 <- register_context_state c id ;;                              (* ctx_push(id) *)
    let i := t_idx (cst c1) in
    below <- t_get (cst c1) (if i =? 0 then 0 else i - 1) ;;          (* ctx_peek_last_state() *)
    '(s', w', ev) <- call c1 w id HBegin (cs_state below) ;;
    c2 <- cpoke_state c1 s' ;;
    Ok (c2, w', ev).

  (* ctx_end() with `id` the local variable of spifconf_parse_line *)
  Definition ctx_end (c : conf) (w : W) (id : Z) : res (conf * W * list event) :=
    if t_idx (cst c) =? 0 then Ok (c, w, [])
    else
      top <- cpeek c ;;
      '(s', w', ev) <- call c w id HEnd (cs_state top) ;;
      c1 <- cpoke_state c 0 ;;
      let c2 := ctx_pop c1 in
      _ <- cpeek c2 ;;                                                (* id = ctx_peek_id() *)
      c3 <- cpoke_state c2 s' ;;
      f <- fpeek c3 ;;                                                (* file_poke_skip(0) *)
      c4 <- fpoke c3 {| f_fp := f_fp f; f_path := f_path f; f_outfile := f_outfile f; f_line := f_line f;
                        f_skip := false; f_preproc := f_preproc f; f_owned := f_owned f |} ;;
      Ok (c4, w', ev).

  (* ---- spifconf_open_file (conf.c:800) ---- *)
  (* snprintf(test, sizeof(test), "<%s-", libast_program_name) *)
  Definition magic : str := firstn (Z.to_nat (open_test_size - 1)) (60 :: progname ++ [45]).
  (* result: the stream positioned after the first line, or None = NULL; the caller counts it open *)
  Definition open_file (name : option str) : res (option stream) :=
    match name with
    | None => Ok None                                                 (* ASSERT_RVAL(name != NULL, NULL) *)
    | Some nm =>
      match fs nm with
      | None => Ok None
      | Some content =>
        let b0 : buf := repeat None (Z.to_nat open_buff_size) in
        let '(r, st) := fgets open_fgets_size {| sdata := content; seof := false |} in
        b1 <- (match r with
               | Some chunk => put_str b0 chunk
               | None => wrn b0 0 0                                   (* nothing read: *buff = 0 *)
               end) ;;
        ver <- cstring b1 ;;                                          (* spif_str_new_from_ptr(buff) *)
        if beg_ci magic ver then Ok (Some st) else Ok None            (* fclose(fp) *)
      end
    end.

  (* ---- spifconf_parse_line (conf.c:852), fp != NULL ---- *)
  Definition set_skip (f : fst_t) (b : bool) : fst_t :=
    {| f_fp := f_fp f; f_path := f_path f; f_outfile := f_outfile f; f_line := f_line f;
       f_skip := b; f_preproc := f_preproc f; f_owned := f_owned f |}.

  (* spifconf_shell_expand(buff): the text is replaced in place (strcpy back into buff) *)
  Definition do_expand (c : conf) (buff : buf) : res (conf * buf * list event) :=
    s <- cstring buff ;;
    let '(s', v', cmds) := expand s (vars c) in
    b' <- put_str buff s' ;;
    Ok (with_vars c v', b', map EvSpawn cmds).

  Definition parse_line (c : conf) (w : W) (buff : buf) : res (conf * W * buf * list event) :=
    c0 <- rdn buff 0 ;;
    if (c0 =? 0) || (c0 =? 10) || (c0 =? 35) || (c0 =? 60) then Ok (c, w, buff, [])
    else
      top <- cpeek c ;;                                               (* id = ctx_peek_id() *)
      let id := cs_id top in
      b1 <- chomp_line buff ;;
      c1 <- rdn b1 0 ;;
      if (c1 =? 35) || (c1 =? 0) then Ok (c, w, b1, [])
      else
      f <- fpeek c ;;
      if c1 =? 37 then                                           (* '%' *)
        pw <- get_pword_line 1 (skipn 1 b1) ;;
        match pw with
        | None => Ok (c, w, b1, [])                                   (* nothing follows the '%' *)
        | Some off =>
          word <- cstring (skipn (1 + Z.to_nat off) b1) ;;
          if beg_ci s_include word then
            '(c2, b2, ev) <- do_expand c b1 ;;
            path <- get_word_line 2 (skipn 1 b2) ;;
            fp <- open_file path ;;
            match fp with
            | None => Ok (c2, w, b2, ev)                              (* path allocated and freed *)
            | Some st =>
              c3 <- register_fstate (add_open (add_live c2 1) 1)
                      {| f_fp := Some st; f_path := path; f_outfile := None; f_line := 1;
                         f_skip := false; f_preproc := false; f_owned := true |} ;;
              Ok (c3, w, b2, ev)
            end
          else if beg_ci s_preproc word then
            if f_preproc f then Ok (c, w, b1, [])
            else
              pw2 <- get_pword_line 2 b1 ;;
              cmdw <- (match pw2 with
                       | Some o => cstring (skipn (Z.to_nat o) b1)
                       | None => Ok [40; 110; 117; 108; 108; 41]      (* "(null)" *)
                       end) ;;
              let cmd := cmdw ++ [32; 60; 32] ++ match f_path f with Some p => p | None => [] end ++ [32; 62; 32] in
              (* outfile = STRDUP(fname); system(cmd); fp = fdopen(fd, "rt") *)
              match preproc_out cmd with
              | Some out =>
                c2 <- fpoke c {| f_fp := Some {| sdata := out; seof := false |}; f_path := f_path f;
                                 f_outfile := Some s_preproc_tmpl; f_line := f_line f;
                                 f_skip := f_skip f; f_preproc := true; f_owned := f_owned f |} ;;
                Ok (add_live c2 1, w, b1, [EvSpawn cmd])              (* fclose(old) and fdopen: open count unchanged *)
              | None => Ok (c, w, b1, [EvSpawn cmd])                  (* outfile allocated and freed *)
              end
          else if f_skip f then Ok (c, w, b1, [])
          else '(c2, b2, ev) <- do_expand c b1 ;; Ok (c2, w, b2, ev)
        end
      else
        let text (_ : unit) : res (conf * W * buf * list event) :=
          if f_skip f then Ok (c, w, b1, [])
          else
            '(c2, b2, ev) <- do_expand c b1 ;;
            s <- cstring b2 ;;
            top2 <- cpeek c2 ;;
            '(s', w', ev2) <- call c2 w id (HText s) (cs_state top2) ;;
            c3 <- cpoke_state c2 s' ;;
            Ok (c3, w', b2, ev ++ ev2) in
        let try_end (_ : unit) : res (conf * W * buf * list event) :=
          s <- cstring b1 ;;
          if beg_ci s_end_sp s || ci_eq s s_end then
            '(c2, w', ev) <- ctx_end c w id ;; Ok (c2, w', b1, ev)
          else text tt in
        if c1 =? 98 then                                              (* 'b' *)
          if f_skip f then Ok (c, w, b1, [])
          else
            s <- cstring b1 ;;
            if beg_ci s_begin s then
              name <- get_word_line 2 b1 ;;
              match name with
              | None => Fault Null_deref                              (* strcasecmp(NULL, ...) *)
              | Some nm => '(c2, w', ev) <- ctx_begin c w nm ;; Ok (c2, w', b1, ev)
              end
            else try_end tt
        else if c1 =? 101 then try_end tt                             (* 'e' *)
        else text tt.

  (* ---- spifconf_parse (conf.c:948), path == NULL ---- *)
  (* the "line too long" loop: for (; fgets(buff, ...) && !strrchr(buff, '\n');); *)
  Fixpoint skip_long (n : nat) (st : stream) (buff : buf) : res (stream * buf) :=
    match n with
    | O => Fault Out_of_fuel
    | S n' =>
      match fgets config_buff st with
      | (None, st') => Ok (st', buff)
      | (Some chunk, st') =>
        b' <- put_str buff chunk ;;
        s <- cstring b' ;;
        if has_byte 10 s then Ok (st', b') else skip_long n' st' b'
      end
    end.

  Definition set_fp (f : fst_t) (st : stream) (line : Z) : fst_t :=
    {| f_fp := Some st; f_path := f_path f; f_outfile := f_outfile f; f_line := line;
       f_skip := f_skip f; f_preproc := f_preproc f; f_owned := f_owned f |}.

  (* one fgets of the reading loop per unit of fuel.  The two nested loops of the code
       for (; fstate_idx > 0;) { for (; fgets(buff, CONFIG_BUFF, file_peek_fp());) { ... } fclose; file_pop(); }
     are one function with a flag: `inner` = the next step is the inner loop's fgets, which happens without
     a look at fstate_idx (so after the 8-bit index has wrapped to 0 on the 256th nested %include the
     reading goes on with fstate[0]); otherwise the outer condition is tested first. *)
  Fixpoint parse_loop (fuel : nat) (inner : bool) (c : conf) (w : W) (buff : buf) (acc : list event)
    : res (conf * W * list event) :=
    match fuel with
    | O => Fault Out_of_fuel
    | S fuel' =>
      if negb inner && (t_idx (ftb c) =? 0) then Ok (c, w, acc)
      else
        f <- fpeek c ;;
        match f_fp f with
        | None => Fault Null_deref
        | Some st =>
          match fgets config_buff st with
          | (None, st') =>
            (* fclose; remove + FREE(outfile) for a preprocessed file; FREE(path) if owned; file_pop *)
            c1 <- fpoke c (set_fp f st' (f_line f)) ;;
            let d := (if f_preproc f then blk (f_outfile f) else 0) + (if f_owned f then blk (f_path f) else 0) in
            parse_loop fuel' false (file_pop (add_open (add_live c1 (- d)) (-1))) w buff acc
          | (Some chunk, st') =>
            b1 <- put_str buff chunk ;;
            c1 <- fpoke c (set_fp f st' ((f_line f + 1) mod 2 ^ 32)) ;;   (* file_inc_line() *)
            s <- cstring b1 ;;
            if negb (has_byte 10 s) && negb (seof st') then
              '(st2, b2) <- skip_long (S (length (sdata st'))) st' b1 ;;
              c2 <- fpoke c1 (set_fp f st2 ((f_line f + 1) mod 2 ^ 32)) ;;
              parse_loop fuel' true c2 w b2 acc
            else
              '(c2, w', b2, ev) <- parse_line c1 w b1 ;;
              parse_loop fuel' true c2 w' b2 (rev_append ev acc)
          end
        end
    end.

  (* result: the subsystem, the handlers' world, the events in order, and whether a name was
     returned (false = NULL: the file could not be opened) *)
  Definition parse (fuel : nat) (c : conf) (w : W) (name : str) : res (conf * W * list event * bool) :=
    fp <- open_file (Some name) ;;
    match fp with
    | None => Ok (c, w, [], false)
    | Some st =>
      c1 <- register_fstate (add_open c 1)
              {| f_fp := Some st; f_path := Some name; f_outfile := None; f_line := 1;
                 f_skip := false; f_preproc := false; f_owned := false |} ;;
      '(c2, w', acc) <- parse_loop fuel false c1 w (repeat None (Z.to_nat config_buff)) [] ;;
      Ok (c2, w', rev acc, true)
    end.

  (* ---- histories ---- *)
  Inductive op :=
  | OInit | OFree
  | ORegCtx (name : str) (h : Z)
  | ORegBuiltin (name : str)
  | OParse (fuel : nat) (name : str)
  | OOpen (name : str).
  Inductive opres :=
  | RUnit | RId (id : Z) | RParse (ev : list event) (ret : bool) | ROpen (ok : bool).

  Definition step (cw : conf * W) (o : op) : res (conf * W * opres) :=
    let '(c, w) := cw in
    match o with
    | OInit => c' <- init_subsystem c ;; Ok (c', w, RUnit)
    | OFree => c' <- free_subsystem c ;; Ok (c', w, RUnit)
    | ORegCtx n h => '(c', id) <- register_context c n h ;; Ok (c', w, RId id)
    | ORegBuiltin n => '(c', id) <- register_builtin c n ;; Ok (c', w, RId id)
    | OParse fuel n => '(c', w', ev, r) <- parse fuel c w n ;; Ok (c', w', RParse ev r)
    | OOpen n => r <- open_file (Some n) ;; Ok (c, w, ROpen (match r with Some _ => true | None => false end))
    end.

  Fixpoint run (cw : conf * W) (ops : list op) : res (conf * W * list opres) :=
    match ops with
    | [] => Ok (cw, [])
    | o :: r =>
      '(c', w', x) <- step cw o ;;
      '(cw2, xs) <- run (c', w') r ;;
      Ok (cw2, x :: xs)
    end.

  (* the scan of spifconf_shell_expand over the built-in table: for (k = 0; builtins[k].name; k++);
     it relies on a slot with a NULL name following the registered ones *)
  Fixpoint builtin_scan (c : conf) (k : Z) (n : nat) : res Z :=
    match n with
    | O => Fault Out_of_fuel
    | S n' => e <- t_get (bit c) k ;; match e with None => Ok k | Some _ => builtin_scan c (k + 1) n' end
    end.
End Conf.

(* ------------------------------------------------------------------------------------ *)
(* spifconf_find_file (conf.c:723) over lengths                                           *)
(* ------------------------------------------------------------------------------------ *)
(* Inputs: strlen(file), strlen(dir) (None = NULL), the lengths of the ':'-separated
   components of pathlist in order (a component is followed by ':' except the last; an empty
   component ends the walk only at the end of the string), whether each component ends in '/',
   and which access()/stat() probes succeed.  Output: the largest index written in name[] and
   in full_path[] (-1 = never written), or Fault OOB_write when a write leaves the array.
   The int32 of `len`/`maxpathlen` and the `short n` are explicit. *)
Definition s32 (z : Z) : Z := (z + 2147483648) mod 4294967296 - 2147483648.
Definition s16 (z : Z) : Z := (z + 32768) mod 65536 - 32768.

Record ff_out := { ff_name_hi : Z; ff_full_hi : Z; ff_found : Z }.   (* ff_found: -1 none, 0 direct, k>0 k-th component *)

(* a write of the cells [0, hi] into an array of PATH_MAX cells *)
Definition ff_write (hi : Z) : res Z := if hi <? conf_path_max then Ok hi else Fault OOB_write.

Fixpoint ff_walk (comps : list (Z * bool)) (probe : nat -> bool) (k : nat) (len maxpathlen : Z) (full_hi : Z)
  : res (Z * Z) :=
  match comps with
  | [] => Ok (full_hi, -1)
  | (cl, slash) :: rest =>
    (* a zero-length component: "*path != 0" fails only at the end of the string; in the
       middle n = 0 and the component is skipped *)
    let n := s16 cl in
    if (0 <? n) && (n <=? maxpathlen) then
      if n >? cl then Fault OOB_read else
      (* memcpy(full_path, path, n); maybe '/'; NUL; strcat(full_path, name) *)
      h1 <- ff_write (n - 1) ;;
      let n' := if slash then n else s16 (n + 1) in
      h2 <- (if slash then Ok h1 else ff_write n) ;;
      h3 <- ff_write n' ;;
      h4 <- ff_write (n' + len) ;;
      let hi := Z.max full_hi h4 in
      if probe k then Ok (hi, Z.of_nat k) else ff_walk rest probe (S k) len maxpathlen hi
    else ff_walk rest probe (S k) len maxpathlen full_hi
  end.

Definition find_file (flen : Z) (dlen : option Z) (comps : list (Z * bool)) (probe : nat -> bool) : res (option ff_out) :=
  (* len = strlen(file) + (dir ? strlen(dir) : 0) + 2, stored in an int32 *)
  let len := s32 (flen + match dlen with Some d => d | None => 0 end + 2) in
  if (len >? conf_path_max) || (len <=? 0) then Ok None
  else
    (* strcpy/strcat into name[]: dir, '/', file, NUL *)
    let nlen := match dlen with Some d => d + 1 + flen | None => flen end in
    hn <- ff_write nlen ;;
    if probe O then Ok (Some {| ff_name_hi := hn; ff_full_hi := -1; ff_found := 0 |})
    else
      let maxpathlen := s32 (conf_path_max - nlen - 2) in
      if maxpathlen <=? 0 then Ok None
      else
        '(fh, k) <- ff_walk comps probe 1 nlen maxpathlen (-1) ;;
        Ok (Some {| ff_name_hi := hn; ff_full_hi := fh; ff_found := k |}).

(* ------------------------------------------------------------------------------------ *)
(* the instance the correspondence check runs                                             *)
(* ------------------------------------------------------------------------------------ *)
(* handlers: every call returns a fresh token (the harness does the same) *)
Definition fresh_handler (k : Z) (a : harg) (s : Z) (w : Z) : Z * Z := (w + 1, w + 1).

(* expansion restricted to what the generated configs contain: a line "%put(k v)" stores a
   variable and yields the empty text; any other line starting with '%' loses the '%' (no
   built-in follows it); every other line is unchanged (no $ ~ \ ` in it).  The store is the
   sorted list of (name, value); each entry holds three blocks. *)
Definition vstore := list (str * str).
Fixpoint str_ltb (a b : str) : bool :=
  match a, b with
  | [], [] => false
  | [], _ => true
  | _, [] => false
  | x :: a', y :: b' => (x <? y) || ((x =? y) && str_ltb a' b')
  end.
Fixpoint store_put (v : vstore) (k val : str) : vstore :=
  match v with
  | [] => [(k, val)]
  | (k', v') :: r => if list_eqb k k' then (k, val) :: r
                     else if str_ltb k k' then (k, val) :: v else (k', v') :: store_put r k val
  end.
Fixpoint split_sp (s : str) : str * str :=
  match s with
  | [] => ([], [])
  | c :: t => if c =? 32 then ([], t) else let '(a, b) := split_sp t in (c :: a, b)
  end.
Definition ends_with_paren (s : str) : bool := match rev s with c :: _ => c =? 41 | [] => false end.
Definition expand_simple (s : str) (v : vstore) : str * vstore * list str :=
  match s with
  | 37 :: rest =>
    if list_eqb (firstn 4 rest) [112; 117; 116; 40] && ends_with_paren rest
    then let body := removelast (skipn 4 rest) in
         let '(k, val) := split_sp body in (([] : str), store_put v k val, [])
    else (rest, v, [])
  | _ => (s, v, [])
  end.
Definition vstore_blocks (v : vstore) : Z := 3 * Z.of_nat (length v).
