(* The arithmetic of the four tables: with the index wrapping at 2^ib and the capacity at 2^cb,
   ib + 1 <= cb, the index stays below the capacity across every doubling, for any number of
   pushes (the index wraps to 0 after 2^ib - 1, the capacity never exceeds 2^(ib+1)). *)
From LV Require Import Base.Buf Conf.ConfModel Conf.ConfLemmas.
Local Open Scope Z_scope.

Definition slot {A} (t : table A) (i : Z) : option (option A) :=
  match t_mem t with Some l => if i <? 0 then None else nth_error l (Z.to_nat i) | None => None end.

(* the block exists and is exactly as long as the capacity says; the index is below it *)
Definition tab_ok {A} (ib : Z) (t : table A) : Prop :=
  exists l, t_mem t = Some l /\ Z.of_nat (length l) = t_cnt t /\
            0 <= t_idx t < t_cnt t /\ t_idx t < 2 ^ ib /\ t_cnt t <= 2 ^ (ib + 1).

Lemma slot_get {A} (t : table A) i (a : A) : slot t i = Some (Some a) -> t_get t i = Ok a.
Proof.
  unfold slot, t_get. destruct (t_mem t) as [l|]; [|discriminate].
  destruct (i <? 0); [discriminate|]. now intros ->.
Qed.

Lemma get_slot {A} (t : table A) i (a : A) : t_get t i = Ok a -> slot t i = Some (Some a).
Proof.
  unfold slot, t_get. destruct (t_mem t) as [l|]; [|discriminate].
  destruct (i <? 0); [discriminate|]. destruct (nth_error l (Z.to_nat i)) as [[x|]|]; try discriminate.
  now intros [= ->].
Qed.

Lemma slot_in_range {A} (t : table A) ib i x : tab_ok ib t -> slot t i = Some x -> 0 <= i < t_cnt t.
Proof.
  intros (l & Hm & Hl & _) H. unfold slot in H. rewrite Hm in H.
  destruct (Z.ltb_spec i 0); [discriminate|].
  assert (Z.to_nat i < length l)%nat by (apply nth_error_Some; congruence). lia.
Qed.

(* a store inside the block *)
Lemma t_set_slot {A} (t : table A) ib i (a : A) :
  tab_ok ib t -> 0 <= i < t_cnt t ->
  exists t', t_set t i a = Ok t' /\ tab_ok ib t' /\ t_idx t' = t_idx t /\ t_cnt t' = t_cnt t /\
             slot t' i = Some (Some a) /\ (forall j, j <> i -> slot t' j = slot t j).
Proof.
  intros (l & Hm & Hl & Hi & Hb & Hc) Hr.
  eexists. split; [apply (t_set_ok t l i a Hm); lia|].
  split; [exists (upd l (Z.to_nat i) (Some a)); cbn; rewrite upd_length; auto|].
  split; [reflexivity|]. split; [reflexivity|].
  unfold slot; cbn [t_mem]. rewrite Hm. split.
  - destruct (Z.ltb_spec i 0); [lia|]. apply nth_error_upd_eq. lia.
  - intros j Hj. destruct (Z.ltb_spec j 0); [reflexivity|]. apply nth_error_upd_neq. lia.
Qed.

Lemma pow2_pos n : 0 <= n -> 0 < 2 ^ n.
Proof. intros. apply Z.pow_pos_nonneg; lia. Qed.

Lemma pow2_succ n : 0 <= n -> 2 ^ (n + 1) = 2 * 2 ^ n.
Proof. intros. rewrite Z.pow_add_r by lia. lia. Qed.

(* if (++idx == cnt) { cnt *= 2; REALLOC } followed by the store at idx *)
Lemma t_bump_store {A} (ib cb : Z) (t : table A) (a : A) :
  0 <= ib -> ib + 1 < cb -> tab_ok ib t ->
  let t1 := t_bump ib cb t in
  exists t', t_set t1 (t_idx t1) a = Ok t' /\ tab_ok ib t' /\
             t_idx t' = (t_idx t + 1) mod 2 ^ ib /\
             t_cnt t <= t_cnt t' /\
             slot t' (t_idx t') = Some (Some a) /\
             (forall j, j <> t_idx t' -> 0 <= j < t_cnt t -> slot t' j = slot t j) /\
             blk (t_mem t1) = blk (t_mem t).
Proof.
  intros Hib Hcb (l & Hm & Hl & Hi & Hb & Hc). cbv zeta.
  pose proof (pow2_pos ib Hib) as Hp. pose proof (pow2_succ ib Hib) as Hs.
  assert (Hcbp : 2 ^ (ib + 1) < 2 ^ cb) by (apply Z.pow_lt_mono_r; lia).
  set (idx' := (t_idx t + 1) mod 2 ^ ib).
  assert (Hidx' : 0 <= idx' < 2 ^ ib) by (apply Z.mod_pos_bound; lia).
  assert (Hle : idx' <= t_cnt t).
  { unfold idx'. destruct (Z.eq_dec (t_idx t + 1) (2 ^ ib)) as [E|E].
    - rewrite E, Z.mod_same by lia. lia.
    - rewrite Z.mod_small by lia. lia. }
  unfold t_bump. fold idx'. destruct (Z.eqb_spec idx' (t_cnt t)) as [E|E].
  - (* grow *)
    assert (Hc2 : (t_cnt t * 2) mod 2 ^ cb = t_cnt t * 2) by (apply Z.mod_small; lia).
    rewrite Hc2, Hm. unfold realloc_slots. destruct (Z.leb_spec (t_cnt t * 2) 0); [lia|].
    set (l' := firstn (Z.to_nat (t_cnt t * 2)) l ++ repeat None (Z.to_nat (t_cnt t * 2) - length l)).
    assert (Hl' : Z.of_nat (length l') = t_cnt t * 2).
    { unfold l'. rewrite app_length, firstn_length, repeat_length. lia. }
    assert (Hf : firstn (Z.to_nat (t_cnt t * 2)) l = l) by (apply firstn_all2; lia).
    cbn [t_idx t_mem t_cnt].
    eexists. split; [apply (t_set_ok (Build_table (Some l') (t_cnt t * 2) idx') l' idx' a eq_refl); cbn; lia|].
    split; [exists (upd l' (Z.to_nat idx') (Some a)); cbn; rewrite upd_length; repeat split; auto; lia|].
    cbn [t_idx t_cnt t_mem]. split; [reflexivity|]. split; [lia|].
    unfold slot; cbn [t_mem]. split; [|split].
    + destruct (Z.ltb_spec idx' 0); [lia|]. apply nth_error_upd_eq. lia.
    + intros j Hj Hr. rewrite Hm. destruct (Z.ltb_spec j 0); [lia|].
      rewrite nth_error_upd_neq by lia. unfold l'. rewrite Hf. apply nth_error_app1. lia.
    + reflexivity.
  - cbn [t_idx t_mem t_cnt].
    eexists. split; [apply (t_set_ok (Build_table (t_mem t) (t_cnt t) idx') l idx' a Hm); cbn; lia|].
    split; [exists (upd l (Z.to_nat idx') (Some a)); cbn; rewrite upd_length; repeat split; auto; lia|].
    cbn [t_idx t_cnt t_mem]. split; [reflexivity|]. split; [lia|].
    unfold slot; cbn [t_mem]. rewrite Hm. split; [|split].
    + destruct (Z.ltb_spec idx' 0); [lia|]. apply nth_error_upd_eq. lia.
    + intros j Hj Hr. destruct (Z.ltb_spec j 0); [lia|]. apply nth_error_upd_neq. lia.
    + reflexivity.
Qed.

(* the heart of `tables_never_wrap`, stated on numbers alone: whatever the number of pushes, the
   index reached is below the capacity reached, and the capacity never passes 2^(ib+1) *)
Fixpoint bump_n (ib cb : Z) (n : nat) (idx cnt : Z) : Z * Z :=
  match n with
  | O => (idx, cnt)
  | S n' =>
    let idx' := (idx + 1) mod 2 ^ ib in
    if idx' =? cnt then bump_n ib cb n' idx' ((cnt * 2) mod 2 ^ cb) else bump_n ib cb n' idx' cnt
  end.

Lemma bump_n_below (ib cb : Z) : 0 <= ib -> ib + 1 < cb ->
  forall n idx cnt, 0 <= idx < cnt -> idx < 2 ^ ib -> cnt <= 2 ^ (ib + 1) ->
  let '(i, c) := bump_n ib cb n idx cnt in 0 <= i < c /\ i < 2 ^ ib /\ c <= 2 ^ (ib + 1) /\ cnt <= c.
Proof.
  intros Hib Hcb. pose proof (pow2_pos ib Hib) as Hp. pose proof (pow2_succ ib Hib) as Hs.
  assert (Hcbp : 2 ^ (ib + 1) < 2 ^ cb) by (apply Z.pow_lt_mono_r; lia).
  induction n as [|n IH]; intros idx cnt Hi Hb Hc; cbn [bump_n]; [lia|].
  set (idx' := (idx + 1) mod 2 ^ ib).
  assert (Hidx' : 0 <= idx' < 2 ^ ib) by (apply Z.mod_pos_bound; lia).
  assert (Hle : idx' <= cnt).
  { unfold idx'. destruct (Z.eq_dec (idx + 1) (2 ^ ib)) as [E|E].
    - rewrite E, Z.mod_same by lia. lia.
    - rewrite Z.mod_small by lia. lia. }
  destruct (Z.eqb_spec idx' cnt) as [E|E].
  - assert (Hc2 : (cnt * 2) mod 2 ^ cb = cnt * 2) by (apply Z.mod_small; lia).
    rewrite Hc2. specialize (IH idx' (cnt * 2) ltac:(lia) ltac:(lia) ltac:(lia)).
    destruct (bump_n ib cb n idx' (cnt * 2)). lia.
  - specialize (IH idx' cnt ltac:(lia) ltac:(lia) ltac:(lia)).
    destruct (bump_n ib cb n idx' cnt). lia.
Qed.

Lemma t_set_cnt {A} (t t' : table A) i a : t_set t i a = Ok t' -> t_cnt t' = t_cnt t /\ t_idx t' = t_idx t.
Proof.
  unfold t_set. destruct (t_mem t); [|discriminate]. destruct (_ || _); [discriminate|]. intros [= <-]. split; reflexivity.
Qed.
