
(** val negb : bool -> bool **)

let negb = function
| true -> false
| false -> true

type nat =
| O
| S of nat

(** val fst : ('a1 * 'a2) -> 'a1 **)

let fst = function
| (x, _) -> x

(** val snd : ('a1 * 'a2) -> 'a2 **)

let snd = function
| (_, y) -> y

(** val length : 'a1 list -> nat **)

let rec length = function
| [] -> O
| _ :: l' -> S (length l')

(** val app : 'a1 list -> 'a1 list -> 'a1 list **)

let rec app l m =
  match l with
  | [] -> m
  | a :: l1 -> a :: (app l1 m)

type comparison =
| Eq
| Lt
| Gt

(** val compOpp : comparison -> comparison **)

let compOpp = function
| Eq -> Eq
| Lt -> Gt
| Gt -> Lt

module Coq__1 = struct
 (** val add : nat -> nat -> nat **)
 let rec add n0 m =
   match n0 with
   | O -> m
   | S p -> S (add p m)
end
include Coq__1

(** val sub : nat -> nat -> nat **)

let rec sub n0 m =
  match n0 with
  | O -> n0
  | S k -> (match m with
            | O -> n0
            | S l -> sub k l)

module Nat =
 struct
  (** val eqb : nat -> nat -> bool **)

  let rec eqb n0 m =
    match n0 with
    | O -> (match m with
            | O -> true
            | S _ -> false)
    | S n' -> (match m with
               | O -> false
               | S m' -> eqb n' m')

  (** val leb : nat -> nat -> bool **)

  let rec leb n0 m =
    match n0 with
    | O -> true
    | S n' -> (match m with
               | O -> false
               | S m' -> leb n' m')

  (** val ltb : nat -> nat -> bool **)

  let ltb n0 m =
    leb (S n0) m
 end

(** val tl : 'a1 list -> 'a1 list **)

let tl = function
| [] -> []
| _ :: m -> m

(** val nth_error : 'a1 list -> nat -> 'a1 option **)

let rec nth_error l = function
| O -> (match l with
        | [] -> None
        | x :: _ -> Some x)
| S n1 -> (match l with
           | [] -> None
           | _ :: l0 -> nth_error l0 n1)

(** val removelast : 'a1 list -> 'a1 list **)

let rec removelast = function
| [] -> []
| a :: l0 -> (match l0 with
              | [] -> []
              | _ :: _ -> a :: (removelast l0))

(** val rev : 'a1 list -> 'a1 list **)

let rec rev = function
| [] -> []
| x :: l' -> app (rev l') (x :: [])

(** val rev_append : 'a1 list -> 'a1 list -> 'a1 list **)

let rec rev_append l l' =
  match l with
  | [] -> l'
  | a :: l0 -> rev_append l0 (a :: l')

(** val concat : 'a1 list list -> 'a1 list **)

let rec concat = function
| [] -> []
| x :: l0 -> app x (concat l0)

(** val map : ('a1 -> 'a2) -> 'a1 list -> 'a2 list **)

let rec map f = function
| [] -> []
| a :: t -> (f a) :: (map f t)

(** val existsb : ('a1 -> bool) -> 'a1 list -> bool **)

let rec existsb f = function
| [] -> false
| a :: l0 -> (||) (f a) (existsb f l0)

(** val find : ('a1 -> bool) -> 'a1 list -> 'a1 option **)

let rec find f = function
| [] -> None
| x :: tl0 -> if f x then Some x else find f tl0

(** val firstn : nat -> 'a1 list -> 'a1 list **)

let rec firstn n0 l =
  match n0 with
  | O -> []
  | S n1 -> (match l with
             | [] -> []
             | a :: l0 -> a :: (firstn n1 l0))

(** val skipn : nat -> 'a1 list -> 'a1 list **)

let rec skipn n0 l =
  match n0 with
  | O -> l
  | S n1 -> (match l with
             | [] -> []
             | _ :: l0 -> skipn n1 l0)

(** val repeat : 'a1 -> nat -> 'a1 list **)

let rec repeat x = function
| O -> []
| S k -> x :: (repeat x k)

type positive =
| XI of positive
| XO of positive
| XH

type n =
| N0
| Npos of positive

type z =
| Z0
| Zpos of positive
| Zneg of positive

module Pos =
 struct
  (** val succ : positive -> positive **)

  let rec succ = function
  | XI p -> XO (succ p)
  | XO p -> XI p
  | XH -> XO XH

  (** val add : positive -> positive -> positive **)

  let rec add x y =
    match x with
    | XI p ->
      (match y with
       | XI q -> XO (add_carry p q)
       | XO q -> XI (add p q)
       | XH -> XO (succ p))
    | XO p ->
      (match y with
       | XI q -> XI (add p q)
       | XO q -> XO (add p q)
       | XH -> XI p)
    | XH -> (match y with
             | XI q -> XO (succ q)
             | XO q -> XI q
             | XH -> XO XH)

  (** val add_carry : positive -> positive -> positive **)

  and add_carry x y =
    match x with
    | XI p ->
      (match y with
       | XI q -> XI (add_carry p q)
       | XO q -> XO (add_carry p q)
       | XH -> XI (succ p))
    | XO p ->
      (match y with
       | XI q -> XO (add_carry p q)
       | XO q -> XI (add p q)
       | XH -> XO (succ p))
    | XH ->
      (match y with
       | XI q -> XI (succ q)
       | XO q -> XO (succ q)
       | XH -> XI XH)

  (** val pred_double : positive -> positive **)

  let rec pred_double = function
  | XI p -> XI (XO p)
  | XO p -> XI (pred_double p)
  | XH -> XH

  (** val pred_N : positive -> n **)

  let pred_N = function
  | XI p -> Npos (XO p)
  | XO p -> Npos (pred_double p)
  | XH -> N0

  (** val mul : positive -> positive -> positive **)

  let rec mul x y =
    match x with
    | XI p -> add y (XO (mul p y))
    | XO p -> XO (mul p y)
    | XH -> y

  (** val iter : ('a1 -> 'a1) -> 'a1 -> positive -> 'a1 **)

  let rec iter f x = function
  | XI n' -> f (iter f (iter f x n') n')
  | XO n' -> iter f (iter f x n') n'
  | XH -> f x

  (** val compare_cont : comparison -> positive -> positive -> comparison **)

  let rec compare_cont r x y =
    match x with
    | XI p ->
      (match y with
       | XI q -> compare_cont r p q
       | XO q -> compare_cont Gt p q
       | XH -> Gt)
    | XO p ->
      (match y with
       | XI q -> compare_cont Lt p q
       | XO q -> compare_cont r p q
       | XH -> Gt)
    | XH -> (match y with
             | XH -> r
             | _ -> Lt)

  (** val compare : positive -> positive -> comparison **)

  let compare =
    compare_cont Eq

  (** val eqb : positive -> positive -> bool **)

  let rec eqb p q =
    match p with
    | XI p0 -> (match q with
                | XI q0 -> eqb p0 q0
                | _ -> false)
    | XO p0 -> (match q with
                | XO q0 -> eqb p0 q0
                | _ -> false)
    | XH -> (match q with
             | XH -> true
             | _ -> false)

  (** val coq_Nsucc_double : n -> n **)

  let coq_Nsucc_double = function
  | N0 -> Npos XH
  | Npos p -> Npos (XI p)

  (** val coq_Ndouble : n -> n **)

  let coq_Ndouble = function
  | N0 -> N0
  | Npos p -> Npos (XO p)

  (** val coq_lor : positive -> positive -> positive **)

  let rec coq_lor p q =
    match p with
    | XI p0 ->
      (match q with
       | XI q0 -> XI (coq_lor p0 q0)
       | XO q0 -> XI (coq_lor p0 q0)
       | XH -> p)
    | XO p0 ->
      (match q with
       | XI q0 -> XI (coq_lor p0 q0)
       | XO q0 -> XO (coq_lor p0 q0)
       | XH -> XI p0)
    | XH -> (match q with
             | XO q0 -> XI q0
             | _ -> q)

  (** val coq_land : positive -> positive -> n **)

  let rec coq_land p q =
    match p with
    | XI p0 ->
      (match q with
       | XI q0 -> coq_Nsucc_double (coq_land p0 q0)
       | XO q0 -> coq_Ndouble (coq_land p0 q0)
       | XH -> Npos XH)
    | XO p0 ->
      (match q with
       | XI q0 -> coq_Ndouble (coq_land p0 q0)
       | XO q0 -> coq_Ndouble (coq_land p0 q0)
       | XH -> N0)
    | XH -> (match q with
             | XO _ -> N0
             | _ -> Npos XH)

  (** val ldiff : positive -> positive -> n **)

  let rec ldiff p q =
    match p with
    | XI p0 ->
      (match q with
       | XI q0 -> coq_Ndouble (ldiff p0 q0)
       | XO q0 -> coq_Nsucc_double (ldiff p0 q0)
       | XH -> Npos (XO p0))
    | XO p0 ->
      (match q with
       | XI q0 -> coq_Ndouble (ldiff p0 q0)
       | XO q0 -> coq_Ndouble (ldiff p0 q0)
       | XH -> Npos p)
    | XH -> (match q with
             | XO _ -> Npos XH
             | _ -> N0)

  (** val iter_op : ('a1 -> 'a1 -> 'a1) -> positive -> 'a1 -> 'a1 **)

  let rec iter_op op0 p a =
    match p with
    | XI p0 -> op0 a (iter_op op0 p0 (op0 a a))
    | XO p0 -> iter_op op0 p0 (op0 a a)
    | XH -> a

  (** val to_nat : positive -> nat **)

  let to_nat x =
    iter_op Coq__1.add x (S O)

  (** val of_succ_nat : nat -> positive **)

  let rec of_succ_nat = function
  | O -> XH
  | S x -> succ (of_succ_nat x)
 end

module N =
 struct
  (** val succ_pos : n -> positive **)

  let succ_pos = function
  | N0 -> XH
  | Npos p -> Pos.succ p

  (** val coq_lor : n -> n -> n **)

  let coq_lor n0 m =
    match n0 with
    | N0 -> m
    | Npos p -> (match m with
                 | N0 -> n0
                 | Npos q -> Npos (Pos.coq_lor p q))

  (** val coq_land : n -> n -> n **)

  let coq_land n0 m =
    match n0 with
    | N0 -> N0
    | Npos p -> (match m with
                 | N0 -> N0
                 | Npos q -> Pos.coq_land p q)

  (** val ldiff : n -> n -> n **)

  let ldiff n0 m =
    match n0 with
    | N0 -> N0
    | Npos p -> (match m with
                 | N0 -> n0
                 | Npos q -> Pos.ldiff p q)
 end

module Z =
 struct
  (** val double : z -> z **)

  let double = function
  | Z0 -> Z0
  | Zpos p -> Zpos (XO p)
  | Zneg p -> Zneg (XO p)

  (** val succ_double : z -> z **)

  let succ_double = function
  | Z0 -> Zpos XH
  | Zpos p -> Zpos (XI p)
  | Zneg p -> Zneg (Pos.pred_double p)

  (** val pred_double : z -> z **)

  let pred_double = function
  | Z0 -> Zneg XH
  | Zpos p -> Zpos (Pos.pred_double p)
  | Zneg p -> Zneg (XI p)

  (** val pos_sub : positive -> positive -> z **)

  let rec pos_sub x y =
    match x with
    | XI p ->
      (match y with
       | XI q -> double (pos_sub p q)
       | XO q -> succ_double (pos_sub p q)
       | XH -> Zpos (XO p))
    | XO p ->
      (match y with
       | XI q -> pred_double (pos_sub p q)
       | XO q -> double (pos_sub p q)
       | XH -> Zpos (Pos.pred_double p))
    | XH ->
      (match y with
       | XI q -> Zneg (XO q)
       | XO q -> Zneg (Pos.pred_double q)
       | XH -> Z0)

  (** val add : z -> z -> z **)

  let add x y =
    match x with
    | Z0 -> y
    | Zpos x' ->
      (match y with
       | Z0 -> x
       | Zpos y' -> Zpos (Pos.add x' y')
       | Zneg y' -> pos_sub x' y')
    | Zneg x' ->
      (match y with
       | Z0 -> x
       | Zpos y' -> pos_sub y' x'
       | Zneg y' -> Zneg (Pos.add x' y'))

  (** val opp : z -> z **)

  let opp = function
  | Z0 -> Z0
  | Zpos x0 -> Zneg x0
  | Zneg x0 -> Zpos x0

  (** val sub : z -> z -> z **)

  let sub m n0 =
    add m (opp n0)

  (** val mul : z -> z -> z **)

  let mul x y =
    match x with
    | Z0 -> Z0
    | Zpos x' ->
      (match y with
       | Z0 -> Z0
       | Zpos y' -> Zpos (Pos.mul x' y')
       | Zneg y' -> Zneg (Pos.mul x' y'))
    | Zneg x' ->
      (match y with
       | Z0 -> Z0
       | Zpos y' -> Zneg (Pos.mul x' y')
       | Zneg y' -> Zpos (Pos.mul x' y'))

  (** val pow_pos : z -> positive -> z **)

  let pow_pos z0 =
    Pos.iter (mul z0) (Zpos XH)

  (** val pow : z -> z -> z **)

  let pow x = function
  | Z0 -> Zpos XH
  | Zpos p -> pow_pos x p
  | Zneg _ -> Z0

  (** val compare : z -> z -> comparison **)

  let compare x y =
    match x with
    | Z0 -> (match y with
             | Z0 -> Eq
             | Zpos _ -> Lt
             | Zneg _ -> Gt)
    | Zpos x' -> (match y with
                  | Zpos y' -> Pos.compare x' y'
                  | _ -> Gt)
    | Zneg x' ->
      (match y with
       | Zneg y' -> compOpp (Pos.compare x' y')
       | _ -> Lt)

  (** val leb : z -> z -> bool **)

  let leb x y =
    match compare x y with
    | Gt -> false
    | _ -> true

  (** val ltb : z -> z -> bool **)

  let ltb x y =
    match compare x y with
    | Lt -> true
    | _ -> false

  (** val gtb : z -> z -> bool **)

  let gtb x y =
    match compare x y with
    | Gt -> true
    | _ -> false

  (** val eqb : z -> z -> bool **)

  let eqb x y =
    match x with
    | Z0 -> (match y with
             | Z0 -> true
             | _ -> false)
    | Zpos p -> (match y with
                 | Zpos q -> Pos.eqb p q
                 | _ -> false)
    | Zneg p -> (match y with
                 | Zneg q -> Pos.eqb p q
                 | _ -> false)

  (** val max : z -> z -> z **)

  let max n0 m =
    match compare n0 m with
    | Lt -> m
    | _ -> n0

  (** val to_nat : z -> nat **)

  let to_nat = function
  | Zpos p -> Pos.to_nat p
  | _ -> O

  (** val of_nat : nat -> z **)

  let of_nat = function
  | O -> Z0
  | S n1 -> Zpos (Pos.of_succ_nat n1)

  (** val of_N : n -> z **)

  let of_N = function
  | N0 -> Z0
  | Npos p -> Zpos p

  (** val pos_div_eucl : positive -> z -> z * z **)

  let rec pos_div_eucl a b =
    match a with
    | XI a' ->
      let (q, r) = pos_div_eucl a' b in
      let r' = add (mul (Zpos (XO XH)) r) (Zpos XH) in
      if ltb r' b
      then ((mul (Zpos (XO XH)) q), r')
      else ((add (mul (Zpos (XO XH)) q) (Zpos XH)), (sub r' b))
    | XO a' ->
      let (q, r) = pos_div_eucl a' b in
      let r' = mul (Zpos (XO XH)) r in
      if ltb r' b
      then ((mul (Zpos (XO XH)) q), r')
      else ((add (mul (Zpos (XO XH)) q) (Zpos XH)), (sub r' b))
    | XH -> if leb (Zpos (XO XH)) b then (Z0, (Zpos XH)) else ((Zpos XH), Z0)

  (** val div_eucl : z -> z -> z * z **)

  let div_eucl a b =
    match a with
    | Z0 -> (Z0, Z0)
    | Zpos a' ->
      (match b with
       | Z0 -> (Z0, a)
       | Zpos _ -> pos_div_eucl a' b
       | Zneg b' ->
         let (q, r) = pos_div_eucl a' (Zpos b') in
         (match r with
          | Z0 -> ((opp q), Z0)
          | _ -> ((opp (add q (Zpos XH))), (add b r))))
    | Zneg a' ->
      (match b with
       | Z0 -> (Z0, a)
       | Zpos _ ->
         let (q, r) = pos_div_eucl a' b in
         (match r with
          | Z0 -> ((opp q), Z0)
          | _ -> ((opp (add q (Zpos XH))), (sub b r)))
       | Zneg b' -> let (q, r) = pos_div_eucl a' (Zpos b') in (q, (opp r)))

  (** val modulo : z -> z -> z **)

  let modulo a b =
    let (_, r) = div_eucl a b in r

  (** val coq_land : z -> z -> z **)

  let coq_land a b =
    match a with
    | Z0 -> Z0
    | Zpos a0 ->
      (match b with
       | Z0 -> Z0
       | Zpos b0 -> of_N (Pos.coq_land a0 b0)
       | Zneg b0 -> of_N (N.ldiff (Npos a0) (Pos.pred_N b0)))
    | Zneg a0 ->
      (match b with
       | Z0 -> Z0
       | Zpos b0 -> of_N (N.ldiff (Npos b0) (Pos.pred_N a0))
       | Zneg b0 ->
         Zneg (N.succ_pos (N.coq_lor (Pos.pred_N a0) (Pos.pred_N b0))))

  (** val ldiff : z -> z -> z **)

  let ldiff a b =
    match a with
    | Z0 -> Z0
    | Zpos a0 ->
      (match b with
       | Z0 -> a
       | Zpos b0 -> of_N (Pos.ldiff a0 b0)
       | Zneg b0 -> of_N (N.coq_land (Npos a0) (Pos.pred_N b0)))
    | Zneg a0 ->
      (match b with
       | Z0 -> a
       | Zpos b0 -> Zneg (N.succ_pos (N.coq_lor (Pos.pred_N a0) (Npos b0)))
       | Zneg b0 -> of_N (N.ldiff (Pos.pred_N b0) (Pos.pred_N a0)))
 end

type fault =
| OOB_read
| OOB_write
| Uninit_read
| Null_deref
| Use_after_free
| Bad_free
| Out_of_fuel
| Int_overflow
| Abort

type 'a res =
| Ok of 'a
| Fault of fault

(** val bind : 'a1 res -> ('a1 -> 'a2 res) -> 'a2 res **)

let bind r k =
  match r with
  | Ok a -> k a
  | Fault f -> Fault f

(** val num_anchor : ((nat * positive) * n) * z **)

let num_anchor =
  (((O, XH), N0), Z0)

type cell = z option

type buf = cell list

(** val rdn : buf -> nat -> z res **)

let rdn b i =
  match nth_error b i with
  | Some c -> (match c with
               | Some v -> Ok v
               | None -> Fault Uninit_read)
  | None -> Fault OOB_read

(** val upd : 'a1 list -> nat -> 'a1 -> 'a1 list **)

let rec upd l n0 v =
  match l with
  | [] -> []
  | x :: t -> (match n0 with
               | O -> v :: t
               | S n' -> x :: (upd t n' v))

(** val wrn : buf -> nat -> z -> buf res **)

let wrn b i v =
  if Nat.ltb i (length b) then Ok (upd b i (Some v)) else Fault OOB_write

(** val bytes : z list -> buf **)

let bytes s =
  map (fun x -> Some x) s

(** val cstr : z list -> buf -> buf **)

let cstr s rest =
  app (bytes s) ((Some Z0) :: rest)

(** val strlen : buf -> nat res **)

let rec strlen = function
| [] -> Fault OOB_read
| c0 :: t ->
  (match c0 with
   | Some c ->
     if Z.eqb c Z0 then Ok O else bind (strlen t) (fun n0 -> Ok (S n0))
   | None -> Fault Uninit_read)

(** val take_str : buf -> z list **)

let rec take_str = function
| [] -> []
| c0 :: t ->
  (match c0 with
   | Some c -> if Z.eqb c Z0 then [] else c :: (take_str t)
   | None -> [])

(** val isspace : z -> bool **)

let isspace c =
  (||)
    ((&&) (Z.leb (Zpos (XI (XO (XO XH)))) c)
      (Z.leb c (Zpos (XI (XO (XI XH))))))
    (Z.eqb c (Zpos (XO (XO (XO (XO (XO XH)))))))

(** val isupper : z -> bool **)

let isupper c =
  (&&) (Z.leb (Zpos (XI (XO (XO (XO (XO (XO XH))))))) c)
    (Z.leb c (Zpos (XO (XI (XO (XI (XI (XO XH))))))))

(** val tolower : z -> z **)

let tolower c =
  if isupper c then Z.add c (Zpos (XO (XO (XO (XO (XO XH)))))) else c

(** val strncpy_loop : buf -> buf -> nat -> nat -> (bool * buf) res **)

let rec strncpy_loop src dest i maxi =
  match src with
  | [] -> Fault OOB_read
  | c0 :: src' ->
    (match c0 with
     | Some c ->
       if (||) (Z.eqb c Z0) (negb (Nat.ltb i maxi))
       then bind (wrn dest i Z0) (fun d -> Ok ((Z.eqb c Z0), d))
       else bind (wrn dest i c) (fun d -> strncpy_loop src' d (S i) maxi)
     | None -> Fault Uninit_read)

(** val safe_strncpy_at : buf -> nat -> buf -> z -> (bool * buf) res **)

let safe_strncpy_at dest off src size =
  if Z.leb size Z0
  then Ok (false, dest)
  else strncpy_loop src dest off (add off (Z.to_nat (Z.sub size (Zpos XH))))

(** val safe_strncpy : buf -> buf -> z -> (bool * buf) res **)

let safe_strncpy dest src size =
  safe_strncpy_at dest O src size

(** val sub_cells : buf -> nat -> nat -> cell list res **)

let sub_cells b start n0 =
  if Nat.leb (add start n0) (length b)
  then Ok (firstn n0 (skipn start b))
  else Fault OOB_read

(** val put_cells : buf -> nat -> cell list -> buf res **)

let put_cells b start cs =
  if Nat.leb (add start (length cs)) (length b)
  then Ok (app (firstn start b) (app cs (skipn (add start (length cs)) b)))
  else Fault OOB_write

(** val memmove : buf -> nat -> nat -> nat -> buf res **)

let memmove b dst src n0 =
  bind (sub_cells b src n0) (fun cs -> put_cells b dst cs)

(** val front_scan : buf -> nat res **)

let rec front_scan = function
| [] -> Fault OOB_read
| c0 :: t ->
  (match c0 with
   | Some c ->
     if (&&) (negb (Z.eqb c Z0)) (isspace c)
     then bind (front_scan t) (fun n0 -> Ok (S n0))
     else Ok O
   | None -> Fault Uninit_read)

(** val back_scan : buf -> nat -> nat -> nat res **)

let rec back_scan b back front =
  match rdn b back with
  | Ok c ->
    if (&&) ((&&) (negb (Z.eqb c Z0)) (isspace c)) (Nat.ltb front back)
    then (match back with
          | O -> Ok O
          | S back' -> back_scan b back' front)
    else Ok back
  | Fault f -> Fault f

(** val chomp : buf -> buf res **)

let chomp s =
  bind (rdn s O) (fun c0 ->
    if Z.eqb c0 Z0
    then Ok s
    else bind (front_scan s) (fun front ->
           bind (strlen s) (fun l ->
             bind (back_scan s (sub l (S O)) front) (fun back ->
               let back0 = S back in
               bind (wrn s back0 Z0) (fun s1 ->
                 if Nat.eqb front O
                 then Ok s1
                 else memmove s1 O front (add (sub back0 front) (S O)))))))

(** val is_q : z -> bool **)

let is_q c =
  (||) (Z.eqb c (Zpos (XO (XI (XO (XO (XO XH)))))))
    (Z.eqb c (Zpos (XI (XI (XI (XO (XO XH)))))))

(** val wDELIM : z -> z -> bool **)

let wDELIM dl c =
  if Z.eqb dl Z0 then isspace c else Z.eqb c dl

(** val skip_space : buf -> buf res **)

let rec skip_space p = match p with
| [] -> Fault OOB_read
| c0 :: t ->
  (match c0 with
   | Some c -> if isspace c then skip_space t else Ok p
   | None -> Fault Uninit_read)

(** val wesc_test : buf -> z -> bool res **)

let wesc_test p c =
  if Z.eqb c (Zpos (XO (XO (XI (XI (XI (XO XH)))))))
  then bind (rdn p (S O)) (fun c1 -> Ok (is_q c1))
  else Ok false

(** val gw_chars :
    nat -> buf -> z -> buf -> nat -> ((buf * buf) * nat) res **)

let rec gw_chars fuel p dl out k =
  match fuel with
  | O -> Fault Out_of_fuel
  | S f ->
    bind (rdn p O) (fun c ->
      if (||) (Z.eqb c Z0) (wDELIM dl c)
      then Ok ((p, out), k)
      else bind (wesc_test p c) (fun e ->
             let p1 = if e then tl p else p in
             bind (rdn p1 O) (fun c' ->
               bind (wrn out k c') (fun out' ->
                 gw_chars f (tl p1) dl out' (S k)))))

(** val open_quote : buf -> (z * buf) res **)

let open_quote p =
  bind (rdn p O) (fun c -> Ok (if is_q c then (c, (tl p)) else (Z0, p)))

(** val close_quote : buf -> buf res **)

let close_quote p =
  bind (rdn p O) (fun c -> Ok (if is_q c then tl p else p))

(** val gw_words : nat -> z -> z -> buf -> buf -> (z * buf) res **)

let rec gw_words fuel idx j p out =
  match fuel with
  | O -> Fault Out_of_fuel
  | S f ->
    if Z.ltb j idx
    then bind (rdn p O) (fun c ->
           if Z.eqb c Z0
           then Ok (j, out)
           else bind (skip_space p) (fun p1 ->
                  bind (open_quote p1) (fun x ->
                    let (dl, p2) = x in
                    bind (gw_chars (S (length p2)) p2 dl out O) (fun x0 ->
                      let (p0, k) = x0 in
                      let (p3, out1) = p0 in
                      bind (close_quote p3) (fun p4 ->
                        bind (wrn out1 k Z0) (fun out2 ->
                          gw_words f idx (Z.add j (Zpos XH)) p4 out2))))))
    else Ok (j, out)

(** val get_word : z -> buf -> z list option res **)

let get_word idx str =
  bind (strlen str) (fun l ->
    bind (wrn (repeat None (S l)) O Z0) (fun out0 ->
      bind (gw_words (S (length str)) idx Z0 str out0) (fun x ->
        let (j, out) = x in
        if Z.eqb j idx
        then bind (strlen out) (fun l2 -> Ok (Some
               (take_str (firstn (S l2) out))))
        else Ok None)))

(** val pw_space : buf -> z -> (buf * z) res **)

let rec pw_space p off =
  match p with
  | [] -> Fault OOB_read
  | c0 :: t ->
    (match c0 with
     | Some c ->
       if (&&) (isspace c) (negb (Z.eqb c Z0))
       then pw_space t (Z.add off (Zpos XH))
       else Ok (p, off)
     | None -> Fault Uninit_read)

(** val pw_nonspace : buf -> z -> (buf * z) res **)

let rec pw_nonspace p off =
  match p with
  | [] -> Fault OOB_read
  | c0 :: t ->
    (match c0 with
     | Some c ->
       if (&&) (negb (isspace c)) (negb (Z.eqb c Z0))
       then pw_nonspace t (Z.add off (Zpos XH))
       else Ok (p, off)
     | None -> Fault Uninit_read)

(** val pw_words : nat -> z -> z -> buf -> z -> (buf * z) res **)

let rec pw_words fuel idx j p off =
  match fuel with
  | O -> Fault Out_of_fuel
  | S f ->
    if Z.ltb j idx
    then bind (rdn p O) (fun c ->
           if Z.eqb c Z0
           then Ok (p, off)
           else bind (pw_nonspace p off) (fun x ->
                  let (p1, o1) = x in
                  bind (pw_space p1 o1) (fun x0 ->
                    let (p2, o2) = x0 in
                    pw_words f idx (Z.add j (Zpos XH)) p2 o2)))
    else Ok (p, off)

(** val get_pword : z -> buf -> z option res **)

let get_pword idx str =
  bind (pw_space str Z0) (fun x ->
    let (p0, o0) = x in
    bind (pw_words (S (length str)) idx (Zpos XH) p0 o0) (fun x0 ->
      let (p1, o1) = x0 in
      bind (rdn p1 O) (fun c ->
        if is_q c
        then let p2 = tl p1 in
             let o2 = Z.add o1 (Zpos XH) in
             bind (rdn p2 O) (fun c2 -> Ok
               (if Z.eqb c2 Z0 then None else Some o2))
        else bind (rdn p1 O) (fun c2 -> Ok
               (if Z.eqb c2 Z0 then None else Some o1)))))

(** val config_buff : z **)

let config_buff =
  Zpos (XO (XO (XO (XO (XO (XO (XO (XO (XO (XO (XO (XO (XI (XO
    XH))))))))))))))

(** val ctx_idx_bits : z **)

let ctx_idx_bits =
  Zpos (XO (XO (XO XH)))

(** val ctx_state_idx_bits : z **)

let ctx_state_idx_bits =
  Zpos (XO (XO (XO XH)))

(** val builtin_idx_bits : z **)

let builtin_idx_bits =
  Zpos (XO (XO (XO XH)))

(** val fstate_idx_bits : z **)

let fstate_idx_bits =
  Zpos (XO (XO (XO XH)))

(** val ctx_cnt_bits : z **)

let ctx_cnt_bits =
  Zpos (XO (XO (XO (XO (XO XH)))))

(** val ctx_state_cnt_bits : z **)

let ctx_state_cnt_bits =
  Zpos (XO (XO (XO (XO (XO XH)))))

(** val fstate_cnt_bits : z **)

let fstate_cnt_bits =
  Zpos (XO (XO (XO (XO (XO XH)))))

(** val builtin_cnt_bits : z **)

let builtin_cnt_bits =
  Zpos (XO (XO (XO (XO (XO XH)))))

(** val ctx_cnt_init : z **)

let ctx_cnt_init =
  Zpos (XO (XO (XI (XO XH))))

(** val ctx_state_cnt_init : z **)

let ctx_state_cnt_init =
  Zpos (XO (XO (XI (XO XH))))

(** val fstate_cnt_init : z **)

let fstate_cnt_init =
  Zpos (XO (XI (XO XH)))

(** val builtin_cnt_init : z **)

let builtin_cnt_init =
  Zpos (XO (XI (XO XH)))

(** val builtin_predefined : z **)

let builtin_predefined =
  Zpos (XI (XI XH))

(** val open_buff_size : z **)

let open_buff_size =
  Zpos (XO (XO (XO (XO (XO (XO (XO (XO XH))))))))

(** val open_test_size : z **)

let open_test_size =
  Zpos (XO (XI (XI (XI XH))))

(** val open_fgets_size : z **)

let open_fgets_size =
  Zpos (XO (XO (XO (XO (XO (XO (XO (XO XH))))))))

(** val conf_path_max : z **)

let conf_path_max =
  Zpos (XO (XO (XO (XO (XO (XO (XO (XO (XO (XO (XO (XO XH))))))))))))

(** val list_eqb : z list -> z list -> bool **)

let rec list_eqb a b =
  match a with
  | [] -> (match b with
           | [] -> true
           | _ :: _ -> false)
  | x :: a' ->
    (match b with
     | [] -> false
     | y :: b' -> (&&) (Z.eqb x y) (list_eqb a' b'))

(** val ci_eq : z list -> z list -> bool **)

let ci_eq a b =
  list_eqb (map tolower a) (map tolower b)

(** val beg_ci : z list -> z list -> bool **)

let beg_ci lit s =
  ci_eq lit (firstn (length lit) s)

(** val has_byte : z -> z list -> bool **)

let has_byte c s =
  existsb (Z.eqb c) s

(** val s_include : z list **)

let s_include =
  (Zpos (XI (XO (XO (XI (XO (XI XH))))))) :: ((Zpos (XO (XI (XI (XI (XO (XI
    XH))))))) :: ((Zpos (XI (XI (XO (XO (XO (XI XH))))))) :: ((Zpos (XO (XO
    (XI (XI (XO (XI XH))))))) :: ((Zpos (XI (XO (XI (XO (XI (XI
    XH))))))) :: ((Zpos (XO (XO (XI (XO (XO (XI XH))))))) :: ((Zpos (XI (XO
    (XI (XO (XO (XI XH))))))) :: ((Zpos (XO (XO (XO (XO (XO
    XH)))))) :: [])))))))

(** val s_preproc : z list **)

let s_preproc =
  (Zpos (XO (XO (XO (XO (XI (XI XH))))))) :: ((Zpos (XO (XI (XO (XO (XI (XI
    XH))))))) :: ((Zpos (XI (XO (XI (XO (XO (XI XH))))))) :: ((Zpos (XO (XO
    (XO (XO (XI (XI XH))))))) :: ((Zpos (XO (XI (XO (XO (XI (XI
    XH))))))) :: ((Zpos (XI (XI (XI (XI (XO (XI XH))))))) :: ((Zpos (XI (XI
    (XO (XO (XO (XI XH))))))) :: ((Zpos (XO (XO (XO (XO (XO
    XH)))))) :: [])))))))

(** val s_begin : z list **)

let s_begin =
  (Zpos (XO (XI (XO (XO (XO (XI XH))))))) :: ((Zpos (XI (XO (XI (XO (XO (XI
    XH))))))) :: ((Zpos (XI (XI (XI (XO (XO (XI XH))))))) :: ((Zpos (XI (XO
    (XO (XI (XO (XI XH))))))) :: ((Zpos (XO (XI (XI (XI (XO (XI
    XH))))))) :: ((Zpos (XO (XO (XO (XO (XO XH)))))) :: [])))))

(** val s_end_sp : z list **)

let s_end_sp =
  (Zpos (XI (XO (XI (XO (XO (XI XH))))))) :: ((Zpos (XO (XI (XI (XI (XO (XI
    XH))))))) :: ((Zpos (XO (XO (XI (XO (XO (XI XH))))))) :: ((Zpos (XO (XO
    (XO (XO (XO XH)))))) :: [])))

(** val s_end : z list **)

let s_end =
  (Zpos (XI (XO (XI (XO (XO (XI XH))))))) :: ((Zpos (XO (XI (XI (XI (XO (XI
    XH))))))) :: ((Zpos (XO (XO (XI (XO (XO (XI XH))))))) :: []))

(** val s_null : z list **)

let s_null =
  (Zpos (XO (XI (XI (XI (XO (XI XH))))))) :: ((Zpos (XI (XO (XI (XO (XI (XI
    XH))))))) :: ((Zpos (XO (XO (XI (XI (XO (XI XH))))))) :: ((Zpos (XO (XO
    (XI (XI (XO (XI XH))))))) :: [])))

(** val s_preproc_tmpl : z list **)

let s_preproc_tmpl =
  (Zpos (XI (XO (XI (XO (XO (XO XH))))))) :: ((Zpos (XO (XO (XI (XO (XI (XI
    XH))))))) :: ((Zpos (XI (XO (XI (XO (XO (XI XH))))))) :: ((Zpos (XO (XI
    (XO (XO (XI (XI XH))))))) :: ((Zpos (XI (XO (XI (XI (XO (XI
    XH))))))) :: ((Zpos (XI (XO (XI (XI (XO XH)))))) :: ((Zpos (XO (XO (XO
    (XO (XI (XI XH))))))) :: ((Zpos (XO (XI (XO (XO (XI (XI
    XH))))))) :: ((Zpos (XI (XO (XI (XO (XO (XI XH))))))) :: ((Zpos (XO (XO
    (XO (XO (XI (XI XH))))))) :: ((Zpos (XO (XI (XO (XO (XI (XI
    XH))))))) :: ((Zpos (XI (XI (XI (XI (XO (XI XH))))))) :: ((Zpos (XI (XI
    (XO (XO (XO (XI XH))))))) :: ((Zpos (XI (XO (XI (XI (XO
    XH)))))) :: [])))))))))))))

(** val cstring : buf -> z list res **)

let rec cstring = function
| [] -> Fault OOB_read
| c0 :: t ->
  (match c0 with
   | Some c ->
     if Z.eqb c Z0 then Ok [] else bind (cstring t) (fun r -> Ok (c :: r))
   | None -> Fault Uninit_read)

(** val put_at : buf -> cell list -> buf res **)

let rec put_at b = function
| [] -> Ok b
| c :: cs' ->
  (match b with
   | [] -> Fault OOB_write
   | _ :: b' -> bind (put_at b' cs') (fun r -> Ok (c :: r)))

(** val put_str : buf -> z list -> buf res **)

let put_str b s =
  put_at b (app (bytes s) ((Some Z0) :: []))

(** val chomp_line : buf -> buf res **)

let chomp_line b =
  bind (strlen b) (fun l ->
    bind (chomp (firstn (S l) b)) (fun r -> Ok (app r (skipn (S l) b))))

(** val get_word_line : z -> buf -> z list option res **)

let get_word_line idx b =
  bind (strlen b) (fun l -> get_word idx (firstn (S l) b))

(** val get_pword_line : z -> buf -> z option res **)

let get_pword_line idx b =
  bind (strlen b) (fun l -> get_pword idx (firstn (S l) b))

type stream = { sdata : z list; seof : bool }

(** val take_line : z -> z list -> z list * z list **)

let rec take_line n0 d = match d with
| [] -> ([], [])
| c :: t ->
  if Z.leb n0 Z0
  then ([], d)
  else if Z.eqb c (Zpos (XO (XI (XO XH))))
       then ((c :: []), t)
       else let (a, r) = take_line (Z.sub n0 (Zpos XH)) t in ((c :: a), r)

(** val ends_nl : z list -> bool **)

let ends_nl chunk =
  match rev chunk with
  | [] -> false
  | c :: _ -> Z.eqb c (Zpos (XO (XI (XO XH))))

(** val fgets : z -> stream -> z list option * stream **)

let fgets size st =
  match st.sdata with
  | [] -> (None, { sdata = []; seof = true })
  | _ :: _ ->
    let (chunk, rest) = take_line (Z.sub size (Zpos XH)) st.sdata in
    let hit =
      match rest with
      | [] ->
        (&&) (negb (ends_nl chunk))
          (Z.ltb (Z.of_nat (length chunk)) (Z.sub size (Zpos XH)))
      | _ :: _ -> false
    in
    ((Some chunk), { sdata = rest; seof = ((||) st.seof hit) })

type 'a table = { t_mem : 'a option list option; t_cnt : z; t_idx : z }

(** val t_get : 'a1 table -> z -> 'a1 res **)

let t_get t i =
  match t.t_mem with
  | Some l ->
    if Z.ltb i Z0
    then Fault OOB_read
    else (match nth_error l (Z.to_nat i) with
          | Some o ->
            (match o with
             | Some a -> Ok a
             | None -> Fault Uninit_read)
          | None -> Fault OOB_read)
  | None -> Fault Null_deref

(** val t_set : 'a1 table -> z -> 'a1 -> 'a1 table res **)

let t_set t i a =
  match t.t_mem with
  | Some l ->
    if (||) (Z.ltb i Z0) (negb (Z.ltb i (Z.of_nat (length l))))
    then Fault OOB_write
    else Ok { t_mem = (Some (upd l (Z.to_nat i) (Some a))); t_cnt = t.t_cnt;
           t_idx = t.t_idx }
  | None -> Fault Null_deref

(** val realloc_slots :
    'a1 option list option -> z -> 'a1 option list option **)

let realloc_slots m n0 =
  if Z.leb n0 Z0
  then None
  else (match m with
        | Some l ->
          Some
            (app (firstn (Z.to_nat n0) l)
              (repeat None (sub (Z.to_nat n0) (length l))))
        | None -> Some (repeat None (Z.to_nat n0)))

(** val blk : 'a1 option -> z **)

let blk = function
| Some _ -> Zpos XH
| None -> Z0

(** val t_bump : z -> z -> 'a1 table -> 'a1 table **)

let t_bump ib cb t =
  let idx' = Z.modulo (Z.add t.t_idx (Zpos XH)) (Z.pow (Zpos (XO XH)) ib) in
  if Z.eqb idx' t.t_cnt
  then let cnt' =
         Z.modulo (Z.mul t.t_cnt (Zpos (XO XH))) (Z.pow (Zpos (XO XH)) cb)
       in
       { t_mem = (realloc_slots t.t_mem cnt'); t_cnt = cnt'; t_idx = idx' }
  else { t_mem = t.t_mem; t_cnt = t.t_cnt; t_idx = idx' }

(** val zero_from : 'a1 -> 'a1 option list -> nat -> 'a1 option list **)

let rec zero_from zero l from =
  match l with
  | [] -> []
  | x :: t ->
    (match from with
     | O -> (Some zero) :: (zero_from zero t O)
     | S f -> x :: (zero_from zero t f))

type hfun =
| HNullPtr
| HParseNull
| HUser of z

type harg =
| HBegin
| HEnd
| HText of z list

type event =
| EvCall of hfun * harg * z * z
| EvSpawn of z list

type ctx_t = { cx_name : z list option; cx_fun : hfun }

type cst_t = { cs_id : z; cs_state : z }

type fst_t = { f_fp : stream option; f_path : z list option;
               f_outfile : z list option; f_line : z; f_skip : bool;
               f_preproc : bool; f_owned : bool }

type bi_t = z list option

(** val zero_ctx : ctx_t **)

let zero_ctx =
  { cx_name = None; cx_fun = HNullPtr }

(** val zero_cst : cst_t **)

let zero_cst =
  { cs_id = Z0; cs_state = Z0 }

(** val zero_fst : fst_t **)

let zero_fst =
  { f_fp = None; f_path = None; f_outfile = None; f_line = Z0; f_skip =
    false; f_preproc = false; f_owned = false }

type 'v conf = { cxt : ctx_t table; cst : cst_t table; ftb : fst_t table;
                 bit : bi_t table; vars : 'v; nopen : z; live : z }

(** val with_cxt : 'a1 conf -> ctx_t table -> 'a1 conf **)

let with_cxt c t =
  { cxt = t; cst = c.cst; ftb = c.ftb; bit = c.bit; vars = c.vars; nopen =
    c.nopen; live = c.live }

(** val with_cst : 'a1 conf -> cst_t table -> 'a1 conf **)

let with_cst c t =
  { cxt = c.cxt; cst = t; ftb = c.ftb; bit = c.bit; vars = c.vars; nopen =
    c.nopen; live = c.live }

(** val with_ftb : 'a1 conf -> fst_t table -> 'a1 conf **)

let with_ftb c t =
  { cxt = c.cxt; cst = c.cst; ftb = t; bit = c.bit; vars = c.vars; nopen =
    c.nopen; live = c.live }

(** val with_bit : 'a1 conf -> bi_t table -> 'a1 conf **)

let with_bit c t =
  { cxt = c.cxt; cst = c.cst; ftb = c.ftb; bit = t; vars = c.vars; nopen =
    c.nopen; live = c.live }

(** val with_vars : 'a1 conf -> 'a1 -> 'a1 conf **)

let with_vars c v =
  { cxt = c.cxt; cst = c.cst; ftb = c.ftb; bit = c.bit; vars = v; nopen =
    c.nopen; live = c.live }

(** val add_open : 'a1 conf -> z -> 'a1 conf **)

let add_open c d =
  { cxt = c.cxt; cst = c.cst; ftb = c.ftb; bit = c.bit; vars = c.vars;
    nopen = (Z.add c.nopen d); live = c.live }

(** val add_live : 'a1 conf -> z -> 'a1 conf **)

let add_live c d =
  { cxt = c.cxt; cst = c.cst; ftb = c.ftb; bit = c.bit; vars = c.vars;
    nopen = c.nopen; live = (Z.add c.live d) }

(** val null_table : 'a1 table **)

let null_table =
  { t_mem = None; t_cnt = Z0; t_idx = Z0 }

(** val conf0 : 'a1 -> 'a1 conf **)

let conf0 vnull =
  { cxt = null_table; cst = null_table; ftb = null_table; bit = null_table;
    vars = vnull; nopen = Z0; live = Z0 }

(** val register_builtin : 'a1 conf -> z list -> ('a1 conf * z) res **)

let register_builtin c name =
  let t = c.bit in
  bind (t_set t t.t_idx (Some name)) (fun t1 ->
    let idx' =
      Z.modulo (Z.add t.t_idx (Zpos XH))
        (Z.pow (Zpos (XO XH)) builtin_idx_bits)
    in
    let (t2, dl) =
      if Z.eqb idx' t1.t_cnt
      then let cnt' =
             Z.modulo (Z.mul t1.t_cnt (Zpos (XO XH)))
               (Z.pow (Zpos (XO XH)) builtin_cnt_bits)
           in
           let m = realloc_slots t1.t_mem cnt' in
           let m' =
             match m with
             | Some l -> Some (zero_from None l (Z.to_nat idx'))
             | None -> None
           in
           ({ t_mem = m'; t_cnt = cnt'; t_idx = idx' },
           (Z.sub (blk m) (blk t1.t_mem)))
      else ({ t_mem = t1.t_mem; t_cnt = t1.t_cnt; t_idx = idx' }, Z0)
    in
    (match t2.t_mem with
     | Some _ ->
       if Z.ltb t2.t_cnt idx'
       then Fault OOB_write
       else Ok ((add_live (with_bit c t2) (Z.add (Zpos XH) dl)),
              (Z.modulo (Z.sub idx' (Zpos XH)) (Zpos (XO (XO (XO (XO (XO (XO
                (XO (XO XH)))))))))))
     | None -> Fault Null_deref))

(** val predefined : z list list **)

let predefined =
  ((Zpos (XI (XO (XO (XO (XO (XI XH))))))) :: ((Zpos (XO (XO (XO (XO (XI (XI
    XH))))))) :: ((Zpos (XO (XO (XO (XO (XI (XI XH))))))) :: ((Zpos (XO (XI
    (XI (XI (XO (XI XH))))))) :: ((Zpos (XI (XO (XO (XO (XO (XI
    XH))))))) :: ((Zpos (XI (XO (XI (XI (XO (XI XH))))))) :: ((Zpos (XI (XO
    (XI (XO (XO (XI XH))))))) :: []))))))) :: (((Zpos (XO (XI (XI (XO (XI (XI
    XH))))))) :: ((Zpos (XI (XO (XI (XO (XO (XI XH))))))) :: ((Zpos (XO (XI
    (XO (XO (XI (XI XH))))))) :: ((Zpos (XI (XI (XO (XO (XI (XI
    XH))))))) :: ((Zpos (XI (XO (XO (XI (XO (XI XH))))))) :: ((Zpos (XI (XI
    (XI (XI (XO (XI XH))))))) :: ((Zpos (XO (XI (XI (XI (XO (XI
    XH))))))) :: []))))))) :: (((Zpos (XI (XO (XI (XO (XO (XI
    XH))))))) :: ((Zpos (XO (XO (XO (XI (XI (XI XH))))))) :: ((Zpos (XI (XO
    (XI (XO (XO (XI XH))))))) :: ((Zpos (XI (XI (XO (XO (XO (XI
    XH))))))) :: [])))) :: (((Zpos (XO (XI (XO (XO (XI (XI
    XH))))))) :: ((Zpos (XI (XO (XO (XO (XO (XI XH))))))) :: ((Zpos (XO (XI
    (XI (XI (XO (XI XH))))))) :: ((Zpos (XO (XO (XI (XO (XO (XI
    XH))))))) :: ((Zpos (XI (XI (XI (XI (XO (XI XH))))))) :: ((Zpos (XI (XO
    (XI (XI (XO (XI XH))))))) :: [])))))) :: (((Zpos (XI (XI (XI (XO (XO (XI
    XH))))))) :: ((Zpos (XI (XO (XI (XO (XO (XI XH))))))) :: ((Zpos (XO (XO
    (XI (XO (XI (XI XH))))))) :: []))) :: (((Zpos (XO (XO (XO (XO (XI (XI
    XH))))))) :: ((Zpos (XI (XO (XI (XO (XI (XI XH))))))) :: ((Zpos (XO (XO
    (XI (XO (XI (XI XH))))))) :: []))) :: (((Zpos (XO (XO (XI (XO (XO (XI
    XH))))))) :: ((Zpos (XI (XO (XO (XI (XO (XI XH))))))) :: ((Zpos (XO (XI
    (XO (XO (XI (XI XH))))))) :: ((Zpos (XI (XI (XO (XO (XI (XI
    XH))))))) :: ((Zpos (XI (XI (XO (XO (XO (XI XH))))))) :: ((Zpos (XI (XO
    (XO (XO (XO (XI XH))))))) :: ((Zpos (XO (XI (XI (XI (XO (XI
    XH))))))) :: []))))))) :: []))))))

(** val register_builtins : 'a1 conf -> z list list -> 'a1 conf res **)

let rec register_builtins c = function
| [] -> Ok c
| n0 :: r ->
  bind (register_builtin c n0) (fun x ->
    let (c1, _) = x in register_builtins c1 r)

(** val fresh_table : 'a1 -> z -> 'a1 table **)

let fresh_table zero cnt =
  { t_mem = (Some (repeat (Some zero) (Z.to_nat cnt))); t_cnt = cnt; t_idx =
    Z0 }

(** val init_subsystem : 'a1 conf -> 'a1 conf res **)

let init_subsystem c =
  let cx0 = fresh_table zero_ctx ctx_cnt_init in
  bind (t_set cx0 Z0 { cx_name = (Some s_null); cx_fun = HParseNull })
    (fun cx1 ->
    let c1 = { cxt = cx1; cst = (fresh_table zero_cst ctx_state_cnt_init);
      ftb = (fresh_table zero_fst fstate_cnt_init); bit =
      (fresh_table None builtin_cnt_init); vars = c.vars; nopen = c.nopen;
      live = (Z.add c.live (Zpos (XI (XO XH)))) }
    in
    register_builtins c1 (firstn (Z.to_nat builtin_predefined) predefined))

(** val register_context : 'a1 conf -> z list -> z -> ('a1 conf * z) res **)

let register_context c name h =
  if negb (ci_eq name s_null)
  then let t0 = c.cxt in
       let t = t_bump ctx_idx_bits ctx_cnt_bits t0 in
       bind (t_set t t.t_idx { cx_name = (Some name); cx_fun = (HUser h) })
         (fun t' -> Ok
         ((add_live (with_cxt c t')
            (Z.sub (Z.add (Zpos XH) (blk t.t_mem)) (blk t0.t_mem))), t.t_idx))
  else bind (t_get c.cxt Z0) (fun e ->
         bind (t_set c.cxt Z0 { cx_name = (Some name); cx_fun = (HUser h) })
           (fun t' -> Ok
           ((add_live (with_cxt c t') (Z.sub (Zpos XH) (blk e.cx_name))), Z0)))

(** val register_fstate : 'a1 conf -> fst_t -> 'a1 conf res **)

let register_fstate c e =
  match e.f_fp with
  | Some _ ->
    (match e.f_path with
     | Some _ ->
       let t0 = c.ftb in
       let t = t_bump fstate_idx_bits fstate_cnt_bits t0 in
       bind (t_set t t.t_idx e) (fun t' -> Ok
         (add_live (with_ftb c t') (Z.sub (blk t.t_mem) (blk t0.t_mem))))
     | None -> Ok c)
  | None -> Ok c

(** val register_context_state : 'a1 conf -> z -> 'a1 conf res **)

let register_context_state c id =
  let t0 = c.cst in
  let t = t_bump ctx_state_idx_bits ctx_state_cnt_bits t0 in
  bind (t_set t t.t_idx { cs_id = id; cs_state = Z0 }) (fun t' -> Ok
    (add_live (with_cst c t') (Z.sub (blk t.t_mem) (blk t0.t_mem))))

(** val free_names :
    ('a1 -> z list option) -> 'a1 table -> z -> nat -> z res **)

let rec free_names name_of t from = function
| O -> Ok Z0
| S n' ->
  bind (t_get t from) (fun e ->
    bind (free_names name_of t (Z.add from (Zpos XH)) n') (fun r -> Ok
      (Z.add (blk (name_of e)) r)))

(** val drop_block : 'a1 table -> 'a1 table **)

let drop_block t =
  { t_mem = None; t_cnt = t.t_cnt; t_idx = t.t_idx }

(** val free_subsystem : 'a1 -> 'a1 conf -> 'a1 conf res **)

let free_subsystem vnull c =
  bind (free_names (fun x -> x) c.bit Z0 (Z.to_nat c.bit.t_idx)) (fun nb ->
    bind
      (free_names (fun c0 -> c0.cx_name) c.cxt Z0
        (Z.to_nat (Z.add c.cxt.t_idx (Zpos XH)))) (fun nc -> Ok { cxt =
      (drop_block c.cxt); cst = (drop_block c.cst); ftb = (drop_block c.ftb);
      bit = (drop_block c.bit); vars = vnull; nopen = c.nopen; live =
      (Z.sub
        (Z.sub
          (Z.sub (Z.sub (Z.sub (Z.sub c.live nb) nc) (blk c.cst.t_mem))
            (blk c.bit.t_mem)) (blk c.ftb.t_mem)) (blk c.cxt.t_mem)) }))

(** val fpeek : 'a1 conf -> fst_t res **)

let fpeek c =
  t_get c.ftb c.ftb.t_idx

(** val fpoke : 'a1 conf -> fst_t -> 'a1 conf res **)

let fpoke c e =
  bind (t_set c.ftb c.ftb.t_idx e) (fun t -> Ok (with_ftb c t))

(** val file_pop : 'a1 conf -> 'a1 conf **)

let file_pop c =
  with_ftb c { t_mem = c.ftb.t_mem; t_cnt = c.ftb.t_cnt; t_idx =
    (Z.modulo (Z.sub c.ftb.t_idx (Zpos XH))
      (Z.pow (Zpos (XO XH)) fstate_idx_bits)) }

(** val cpeek : 'a1 conf -> cst_t res **)

let cpeek c =
  t_get c.cst c.cst.t_idx

(** val cpoke_state : 'a1 conf -> z -> 'a1 conf res **)

let cpoke_state c s =
  bind (cpeek c) (fun e ->
    bind (t_set c.cst c.cst.t_idx { cs_id = e.cs_id; cs_state = s })
      (fun t -> Ok (with_cst c t)))

(** val ctx_pop : 'a1 conf -> 'a1 conf **)

let ctx_pop c =
  with_cst c { t_mem = c.cst.t_mem; t_cnt = c.cst.t_cnt; t_idx =
    (Z.modulo (Z.sub c.cst.t_idx (Zpos XH))
      (Z.pow (Zpos (XO XH)) ctx_state_idx_bits)) }

(** val call :
    (z -> harg -> z -> 'a1 -> z * 'a1) -> 'a2 conf -> 'a1 -> z -> harg -> z
    -> ((z * 'a1) * event list) res **)

let call handler c w id a s =
  bind (t_get c.cxt id) (fun e ->
    match e.cx_fun with
    | HNullPtr -> Fault Null_deref
    | HParseNull ->
      let s' = match a with
               | HText _ -> s
               | _ -> Z0 in
      Ok ((s', w), ((EvCall (HParseNull, a, s, s')) :: []))
    | HUser k ->
      let (s', w') = handler k a s w in
      Ok ((s', w'), ((EvCall ((HUser k), a, s, s')) :: [])))

(** val name_to_id : 'a1 conf -> z list -> z -> nat -> z res **)

let rec name_to_id c name i = function
| O -> Ok Z0
| S n' ->
  bind (t_get c.cxt i) (fun e ->
    match e.cx_name with
    | Some nm ->
      if ci_eq name nm then Ok i else name_to_id c name (Z.add i (Zpos XH)) n'
    | None -> Fault Null_deref)

(** val ctx_begin :
    (z -> harg -> z -> 'a1 -> z * 'a1) -> 'a2 conf -> 'a1 -> z list -> (('a2
    conf * 'a1) * event list) res **)

let ctx_begin handler c w name =
  bind (name_to_id c name Z0 (Z.to_nat (Z.add c.cxt.t_idx (Zpos XH))))
    (fun id ->
    bind (register_context_state c id) (fun c1 ->
      let i = c1.cst.t_idx in
      bind (t_get c1.cst (if Z.eqb i Z0 then Z0 else Z.sub i (Zpos XH)))
        (fun below ->
        bind (call handler c1 w id HBegin below.cs_state) (fun x ->
          let (p, ev) = x in
          let (s', w') = p in
          bind (cpoke_state c1 s') (fun c2 -> Ok ((c2, w'), ev))))))

(** val ctx_end :
    (z -> harg -> z -> 'a1 -> z * 'a1) -> 'a2 conf -> 'a1 -> z -> (('a2
    conf * 'a1) * event list) res **)

let ctx_end handler c w id =
  if Z.eqb c.cst.t_idx Z0
  then Ok ((c, w), [])
  else bind (cpeek c) (fun top ->
         bind (call handler c w id HEnd top.cs_state) (fun x ->
           let (p, ev) = x in
           let (s', w') = p in
           bind (cpoke_state c Z0) (fun c1 ->
             let c2 = ctx_pop c1 in
             bind (cpeek c2) (fun _ ->
               bind (cpoke_state c2 s') (fun c3 ->
                 bind (fpeek c3) (fun f ->
                   bind
                     (fpoke c3 { f_fp = f.f_fp; f_path = f.f_path;
                       f_outfile = f.f_outfile; f_line = f.f_line; f_skip =
                       false; f_preproc = f.f_preproc; f_owned = f.f_owned })
                     (fun c4 -> Ok ((c4, w'), ev))))))))

(** val magic : z list -> z list **)

let magic progname =
  firstn (Z.to_nat (Z.sub open_test_size (Zpos XH))) ((Zpos (XO (XO (XI (XI
    (XI XH)))))) :: (app progname ((Zpos (XI (XO (XI (XI (XO XH)))))) :: [])))

(** val open_file :
    (z list -> z list option) -> z list -> z list option -> stream option res **)

let open_file fs progname = function
| Some nm ->
  (match fs nm with
   | Some content ->
     let b0 = repeat None (Z.to_nat open_buff_size) in
     let (r, st) = fgets open_fgets_size { sdata = content; seof = false } in
     bind (match r with
           | Some chunk -> put_str b0 chunk
           | None -> wrn b0 O Z0) (fun b1 ->
       bind (cstring b1) (fun ver ->
         if beg_ci (magic progname) ver then Ok (Some st) else Ok None))
   | None -> Ok None)
| None -> Ok None

(** val do_expand :
    (z list -> 'a1 -> (z list * 'a1) * z list list) -> 'a1 conf -> buf ->
    (('a1 conf * buf) * event list) res **)

let do_expand expand c buff =
  bind (cstring buff) (fun s ->
    let (p, cmds) = expand s c.vars in
    let (s', v') = p in
    bind (put_str buff s') (fun b' -> Ok (((with_vars c v'), b'),
      (map (fun x -> EvSpawn x) cmds))))

(** val parse_line :
    (z -> harg -> z -> 'a1 -> z * 'a1) -> (z list -> 'a2 -> (z
    list * 'a2) * z list list) -> (z list -> z list option) -> (z list -> z
    list option) -> z list -> 'a2 conf -> 'a1 -> buf -> ((('a2
    conf * 'a1) * buf) * event list) res **)

let parse_line handler expand preproc_out fs progname c w buff =
  bind (rdn buff O) (fun c0 ->
    if (||)
         ((||) ((||) (Z.eqb c0 Z0) (Z.eqb c0 (Zpos (XO (XI (XO XH))))))
           (Z.eqb c0 (Zpos (XI (XI (XO (XO (XO XH))))))))
         (Z.eqb c0 (Zpos (XO (XO (XI (XI (XI XH)))))))
    then Ok (((c, w), buff), [])
    else bind (cpeek c) (fun top ->
           let id = top.cs_id in
           bind (chomp_line buff) (fun b1 ->
             bind (rdn b1 O) (fun c1 ->
               if (||) (Z.eqb c1 (Zpos (XI (XI (XO (XO (XO XH)))))))
                    (Z.eqb c1 Z0)
               then Ok (((c, w), b1), [])
               else bind (fpeek c) (fun f ->
                      if Z.eqb c1 (Zpos (XI (XO (XI (XO (XO XH))))))
                      then bind (get_pword_line (Zpos XH) (skipn (S O) b1))
                             (fun pw ->
                             match pw with
                             | Some off ->
                               bind
                                 (cstring
                                   (skipn (add (S O) (Z.to_nat off)) b1))
                                 (fun word ->
                                 if beg_ci s_include word
                                 then bind (do_expand expand c b1) (fun x ->
                                        let (p, ev) = x in
                                        let (c2, b2) = p in
                                        bind
                                          (get_word_line (Zpos (XO XH))
                                            (skipn (S O) b2)) (fun path ->
                                          bind (open_file fs progname path)
                                            (fun fp ->
                                            match fp with
                                            | Some st ->
                                              bind
                                                (register_fstate
                                                  (add_open
                                                    (add_live c2 (Zpos XH))
                                                    (Zpos XH)) { f_fp = (Some
                                                  st); f_path = path;
                                                  f_outfile = None; f_line =
                                                  (Zpos XH); f_skip = false;
                                                  f_preproc = false;
                                                  f_owned = true })
                                                (fun c3 -> Ok (((c3, w), b2),
                                                ev))
                                            | None -> Ok (((c2, w), b2), ev))))
                                 else if beg_ci s_preproc word
                                      then if f.f_preproc
                                           then Ok (((c, w), b1), [])
                                           else bind
                                                  (get_pword_line (Zpos (XO
                                                    XH)) b1) (fun pw2 ->
                                                  bind
                                                    (match pw2 with
                                                     | Some o ->
                                                       cstring
                                                         (skipn (Z.to_nat o)
                                                           b1)
                                                     | None ->
                                                       Ok ((Zpos (XO (XO (XO
                                                         (XI (XO
                                                         XH)))))) :: ((Zpos
                                                         (XO (XI (XI (XI (XO
                                                         (XI
                                                         XH))))))) :: ((Zpos
                                                         (XI (XO (XI (XO (XI
                                                         (XI
                                                         XH))))))) :: ((Zpos
                                                         (XO (XO (XI (XI (XO
                                                         (XI
                                                         XH))))))) :: ((Zpos
                                                         (XO (XO (XI (XI (XO
                                                         (XI
                                                         XH))))))) :: ((Zpos
                                                         (XI (XO (XO (XI (XO
                                                         XH)))))) :: [])))))))
                                                    (fun cmdw ->
                                                    let cmd =
                                                      app cmdw
                                                        (app ((Zpos (XO (XO
                                                          (XO (XO (XO
                                                          XH)))))) :: ((Zpos
                                                          (XO (XO (XI (XI (XI
                                                          XH)))))) :: ((Zpos
                                                          (XO (XO (XO (XO (XO
                                                          XH)))))) :: [])))
                                                          (app
                                                            (match f.f_path with
                                                             | Some p -> p
                                                             | None -> [])
                                                            ((Zpos (XO (XO
                                                            (XO (XO (XO
                                                            XH)))))) :: ((Zpos
                                                            (XO (XI (XI (XI
                                                            (XI
                                                            XH)))))) :: ((Zpos
                                                            (XO (XO (XO (XO
                                                            (XO
                                                            XH)))))) :: [])))))
                                                    in
                                                    (match preproc_out cmd with
                                                     | Some out ->
                                                       bind
                                                         (fpoke c { f_fp =
                                                           (Some { sdata =
                                                           out; seof =
                                                           false }); f_path =
                                                           f.f_path;
                                                           f_outfile = (Some
                                                           s_preproc_tmpl);
                                                           f_line = f.f_line;
                                                           f_skip = f.f_skip;
                                                           f_preproc = true;
                                                           f_owned =
                                                           f.f_owned })
                                                         (fun c2 -> Ok
                                                         ((((add_live c2
                                                              (Zpos XH)), w),
                                                         b1), ((EvSpawn
                                                         cmd) :: [])))
                                                     | None ->
                                                       Ok (((c, w), b1),
                                                         ((EvSpawn
                                                         cmd) :: [])))))
                                      else if f.f_skip
                                           then Ok (((c, w), b1), [])
                                           else bind (do_expand expand c b1)
                                                  (fun x ->
                                                  let (p, ev) = x in
                                                  let (c2, b2) = p in
                                                  Ok (((c2, w), b2), ev)))
                             | None -> Ok (((c, w), b1), []))
                      else let text = fun _ ->
                             if f.f_skip
                             then Ok (((c, w), b1), [])
                             else bind (do_expand expand c b1) (fun x ->
                                    let (p, ev) = x in
                                    let (c2, b2) = p in
                                    bind (cstring b2) (fun s ->
                                      bind (cpeek c2) (fun top2 ->
                                        bind
                                          (call handler c2 w id (HText s)
                                            top2.cs_state) (fun x0 ->
                                          let (p0, ev2) = x0 in
                                          let (s', w') = p0 in
                                          bind (cpoke_state c2 s') (fun c3 ->
                                            Ok (((c3, w'), b2), (app ev ev2)))))))
                           in
                           let try_end = fun _ ->
                             bind (cstring b1) (fun s ->
                               if (||) (beg_ci s_end_sp s) (ci_eq s s_end)
                               then bind (ctx_end handler c w id) (fun x ->
                                      let (p, ev) = x in
                                      let (c2, w') = p in
                                      Ok (((c2, w'), b1), ev))
                               else text ())
                           in
                           if Z.eqb c1 (Zpos (XO (XI (XO (XO (XO (XI XH)))))))
                           then if f.f_skip
                                then Ok (((c, w), b1), [])
                                else bind (cstring b1) (fun s ->
                                       if beg_ci s_begin s
                                       then bind
                                              (get_word_line (Zpos (XO XH))
                                                b1) (fun name ->
                                              match name with
                                              | Some nm ->
                                                bind
                                                  (ctx_begin handler c w nm)
                                                  (fun x ->
                                                  let (p, ev) = x in
                                                  let (c2, w') = p in
                                                  Ok (((c2, w'), b1), ev))
                                              | None -> Fault Null_deref)
                                       else try_end ())
                           else if Z.eqb c1 (Zpos (XI (XO (XI (XO (XO (XI
                                     XH)))))))
                                then try_end ()
                                else text ())))))

(** val skip_long : nat -> stream -> buf -> (stream * buf) res **)

let rec skip_long n0 st buff =
  match n0 with
  | O -> Fault Out_of_fuel
  | S n' ->
    let (o, st') = fgets config_buff st in
    (match o with
     | Some chunk ->
       bind (put_str buff chunk) (fun b' ->
         bind (cstring b') (fun s ->
           if has_byte (Zpos (XO (XI (XO XH)))) s
           then Ok (st', b')
           else skip_long n' st' b'))
     | None -> Ok (st', buff))

(** val set_fp : fst_t -> stream -> z -> fst_t **)

let set_fp f st line =
  { f_fp = (Some st); f_path = f.f_path; f_outfile = f.f_outfile; f_line =
    line; f_skip = f.f_skip; f_preproc = f.f_preproc; f_owned = f.f_owned }

(** val parse_loop :
    (z -> harg -> z -> 'a1 -> z * 'a1) -> (z list -> 'a2 -> (z
    list * 'a2) * z list list) -> (z list -> z list option) -> (z list -> z
    list option) -> z list -> nat -> bool -> 'a2 conf -> 'a1 -> buf -> event
    list -> (('a2 conf * 'a1) * event list) res **)

let rec parse_loop handler expand preproc_out fs progname fuel inner c w buff acc =
  match fuel with
  | O -> Fault Out_of_fuel
  | S fuel' ->
    if (&&) (negb inner) (Z.eqb c.ftb.t_idx Z0)
    then Ok ((c, w), acc)
    else bind (fpeek c) (fun f ->
           match f.f_fp with
           | Some st ->
             let (o, st') = fgets config_buff st in
             (match o with
              | Some chunk ->
                bind (put_str buff chunk) (fun b1 ->
                  bind
                    (fpoke c
                      (set_fp f st'
                        (Z.modulo (Z.add f.f_line (Zpos XH))
                          (Z.pow (Zpos (XO XH)) (Zpos (XO (XO (XO (XO (XO
                            XH)))))))))) (fun c1 ->
                    bind (cstring b1) (fun s ->
                      if (&&) (negb (has_byte (Zpos (XO (XI (XO XH)))) s))
                           (negb st'.seof)
                      then bind (skip_long (S (length st'.sdata)) st' b1)
                             (fun x ->
                             let (st2, b2) = x in
                             bind
                               (fpoke c1
                                 (set_fp f st2
                                   (Z.modulo (Z.add f.f_line (Zpos XH))
                                     (Z.pow (Zpos (XO XH)) (Zpos (XO (XO (XO
                                       (XO (XO XH)))))))))) (fun c2 ->
                               parse_loop handler expand preproc_out fs
                                 progname fuel' true c2 w b2 acc))
                      else bind
                             (parse_line handler expand preproc_out fs
                               progname c1 w b1) (fun x ->
                             let (p, ev) = x in
                             let (p0, b2) = p in
                             let (c2, w') = p0 in
                             parse_loop handler expand preproc_out fs
                               progname fuel' true c2 w' b2
                               (rev_append ev acc)))))
              | None ->
                bind (fpoke c (set_fp f st' f.f_line)) (fun c1 ->
                  let d =
                    Z.add (if f.f_preproc then blk f.f_outfile else Z0)
                      (if f.f_owned then blk f.f_path else Z0)
                  in
                  parse_loop handler expand preproc_out fs progname fuel'
                    false
                    (file_pop (add_open (add_live c1 (Z.opp d)) (Zneg XH))) w
                    buff acc))
           | None -> Fault Null_deref)

(** val parse :
    (z -> harg -> z -> 'a1 -> z * 'a1) -> (z list -> 'a2 -> (z
    list * 'a2) * z list list) -> (z list -> z list option) -> (z list -> z
    list option) -> z list -> nat -> 'a2 conf -> 'a1 -> z list -> ((('a2
    conf * 'a1) * event list) * bool) res **)

let parse handler expand preproc_out fs progname fuel c w name =
  bind (open_file fs progname (Some name)) (fun fp ->
    match fp with
    | Some st ->
      bind
        (register_fstate (add_open c (Zpos XH)) { f_fp = (Some st); f_path =
          (Some name); f_outfile = None; f_line = (Zpos XH); f_skip = false;
          f_preproc = false; f_owned = false }) (fun c1 ->
        bind
          (parse_loop handler expand preproc_out fs progname fuel false c1 w
            (repeat None (Z.to_nat config_buff)) []) (fun x ->
          let (p, acc) = x in
          let (c2, w') = p in Ok (((c2, w'), (rev acc)), true)))
    | None -> Ok (((c, w), []), false))

type op =
| OInit
| OFree
| ORegCtx of z list * z
| ORegBuiltin of z list
| OParse of nat * z list
| OOpen of z list

type opres =
| RUnit
| RId of z
| RParse of event list * bool
| ROpen of bool

(** val step :
    'a2 -> (z -> harg -> z -> 'a1 -> z * 'a1) -> (z list -> 'a2 -> (z
    list * 'a2) * z list list) -> (z list -> z list option) -> (z list -> z
    list option) -> z list -> ('a2 conf * 'a1) -> op -> (('a2
    conf * 'a1) * opres) res **)

let step vnull handler expand preproc_out fs progname cw o =
  let (c, w) = cw in
  (match o with
   | OInit -> bind (init_subsystem c) (fun c' -> Ok ((c', w), RUnit))
   | OFree -> bind (free_subsystem vnull c) (fun c' -> Ok ((c', w), RUnit))
   | ORegCtx (n0, h) ->
     bind (register_context c n0 h) (fun x ->
       let (c', id) = x in Ok ((c', w), (RId id)))
   | ORegBuiltin n0 ->
     bind (register_builtin c n0) (fun x ->
       let (c', id) = x in Ok ((c', w), (RId id)))
   | OParse (fuel, n0) ->
     bind (parse handler expand preproc_out fs progname fuel c w n0)
       (fun x ->
       let (p, r) = x in
       let (p0, ev) = p in
       let (c', w') = p0 in Ok ((c', w'), (RParse (ev, r))))
   | OOpen n0 ->
     bind (open_file fs progname (Some n0)) (fun r -> Ok ((c, w), (ROpen
       (match r with
        | Some _ -> true
        | None -> false)))))

(** val s32 : z -> z **)

let s32 z0 =
  Z.sub
    (Z.modulo
      (Z.add z0 (Zpos (XO (XO (XO (XO (XO (XO (XO (XO (XO (XO (XO (XO (XO (XO
        (XO (XO (XO (XO (XO (XO (XO (XO (XO (XO (XO (XO (XO (XO (XO (XO (XO
        XH))))))))))))))))))))))))))))))))) (Zpos (XO (XO (XO (XO (XO (XO (XO
      (XO (XO (XO (XO (XO (XO (XO (XO (XO (XO (XO (XO (XO (XO (XO (XO (XO (XO
      (XO (XO (XO (XO (XO (XO (XO XH)))))))))))))))))))))))))))))))))) (Zpos
    (XO (XO (XO (XO (XO (XO (XO (XO (XO (XO (XO (XO (XO (XO (XO (XO (XO (XO
    (XO (XO (XO (XO (XO (XO (XO (XO (XO (XO (XO (XO (XO
    XH))))))))))))))))))))))))))))))))

(** val s16 : z -> z **)

let s16 z0 =
  Z.sub
    (Z.modulo
      (Z.add z0 (Zpos (XO (XO (XO (XO (XO (XO (XO (XO (XO (XO (XO (XO (XO (XO
        (XO XH))))))))))))))))) (Zpos (XO (XO (XO (XO (XO (XO (XO (XO (XO (XO
      (XO (XO (XO (XO (XO (XO XH)))))))))))))))))) (Zpos (XO (XO (XO (XO (XO
    (XO (XO (XO (XO (XO (XO (XO (XO (XO (XO XH))))))))))))))))

type ff_out = { ff_name_hi : z; ff_full_hi : z; ff_found : z }

(** val ff_write : z -> z res **)

let ff_write hi =
  if Z.ltb hi conf_path_max then Ok hi else Fault OOB_write

(** val ff_walk :
    (z * bool) list -> (nat -> bool) -> nat -> z -> z -> z -> (z * z) res **)

let rec ff_walk comps probe k len maxpathlen full_hi =
  match comps with
  | [] -> Ok (full_hi, (Zneg XH))
  | p :: rest ->
    let (cl, slash) = p in
    let n0 = s16 cl in
    if (&&) (Z.ltb Z0 n0) (Z.leb n0 maxpathlen)
    then if Z.gtb n0 cl
         then Fault OOB_read
         else bind (ff_write (Z.sub n0 (Zpos XH))) (fun h1 ->
                let n' = if slash then n0 else s16 (Z.add n0 (Zpos XH)) in
                bind (if slash then Ok h1 else ff_write n0) (fun _ ->
                  bind (ff_write n') (fun _ ->
                    bind (ff_write (Z.add n' len)) (fun h4 ->
                      let hi = Z.max full_hi h4 in
                      if probe k
                      then Ok (hi, (Z.of_nat k))
                      else ff_walk rest probe (S k) len maxpathlen hi))))
    else ff_walk rest probe (S k) len maxpathlen full_hi

(** val find_file :
    z -> z option -> (z * bool) list -> (nat -> bool) -> ff_out option res **)

let find_file flen dlen comps probe =
  let len =
    s32
      (Z.add (Z.add flen (match dlen with
                          | Some d -> d
                          | None -> Z0)) (Zpos (XO XH)))
  in
  if (||) (Z.gtb len conf_path_max) (Z.leb len Z0)
  then Ok None
  else let nlen =
         match dlen with
         | Some d -> Z.add (Z.add d (Zpos XH)) flen
         | None -> flen
       in
       bind (ff_write nlen) (fun hn ->
         if probe O
         then Ok (Some { ff_name_hi = hn; ff_full_hi = (Zneg XH); ff_found =
                Z0 })
         else let maxpathlen =
                s32 (Z.sub (Z.sub conf_path_max nlen) (Zpos (XO XH)))
              in
              if Z.leb maxpathlen Z0
              then Ok None
              else bind (ff_walk comps probe (S O) nlen maxpathlen (Zneg XH))
                     (fun x ->
                     let (fh, k) = x in
                     Ok (Some { ff_name_hi = hn; ff_full_hi = fh; ff_found =
                     k })))

(** val fresh_handler : z -> harg -> z -> z -> z * z **)

let fresh_handler _ _ _ w =
  ((Z.add w (Zpos XH)), (Z.add w (Zpos XH)))

type vstore = (z list * z list) list

(** val str_ltb : z list -> z list -> bool **)

let rec str_ltb a b =
  match a with
  | [] -> (match b with
           | [] -> false
           | _ :: _ -> true)
  | x :: a' ->
    (match b with
     | [] -> false
     | y :: b' -> (||) (Z.ltb x y) ((&&) (Z.eqb x y) (str_ltb a' b')))

(** val store_put : vstore -> z list -> z list -> vstore **)

let rec store_put v k val0 =
  match v with
  | [] -> (k, val0) :: []
  | p :: r ->
    let (k', v') = p in
    if list_eqb k k'
    then (k, val0) :: r
    else if str_ltb k k'
         then (k, val0) :: v
         else (k', v') :: (store_put r k val0)

(** val split_sp : z list -> z list * z list **)

let rec split_sp = function
| [] -> ([], [])
| c :: t ->
  if Z.eqb c (Zpos (XO (XO (XO (XO (XO XH))))))
  then ([], t)
  else let (a, b) = split_sp t in ((c :: a), b)

(** val ends_with_paren : z list -> bool **)

let ends_with_paren s =
  match rev s with
  | [] -> false
  | c :: _ -> Z.eqb c (Zpos (XI (XO (XO (XI (XO XH))))))

(** val expand_simple :
    z list -> vstore -> (z list * vstore) * z list list **)

let expand_simple s v =
  match s with
  | [] -> ((s, v), [])
  | z0 :: rest ->
    (match z0 with
     | Zpos p ->
       (match p with
        | XI p0 ->
          (match p0 with
           | XO p1 ->
             (match p1 with
              | XI p2 ->
                (match p2 with
                 | XO p3 ->
                   (match p3 with
                    | XO p4 ->
                      (match p4 with
                       | XH ->
                         if (&&)
                              (list_eqb (firstn (S (S (S (S O)))) rest)
                                ((Zpos (XO (XO (XO (XO (XI (XI
                                XH))))))) :: ((Zpos (XI (XO (XI (XO (XI (XI
                                XH))))))) :: ((Zpos (XO (XO (XI (XO (XI (XI
                                XH))))))) :: ((Zpos (XO (XO (XO (XI (XO
                                XH)))))) :: []))))) (ends_with_paren rest)
                         then let body =
                                removelast (skipn (S (S (S (S O)))) rest)
                              in
                              let (k, val0) = split_sp body in
                              (([], (store_put v k val0)), [])
                         else ((rest, v), [])
                       | _ -> ((s, v), []))
                    | _ -> ((s, v), []))
                 | _ -> ((s, v), []))
              | _ -> ((s, v), []))
           | _ -> ((s, v), []))
        | _ -> ((s, v), []))
     | _ -> ((s, v), []))

(** val vstore_blocks : vstore -> z **)

let vstore_blocks v =
  Z.mul (Zpos (XI XH)) (Z.of_nat (length v))

type afs = (z list * z list) list

(** val afs_lookup : afs -> z list -> z list option **)

let rec afs_lookup l n0 =
  match l with
  | [] -> None
  | p :: r ->
    let (k, v) = p in if list_eqb k n0 then Some v else afs_lookup r n0

type iconf = vstore conf

(** val iconf0 : iconf **)

let iconf0 =
  conf0 []

(** val ipreproc : bool -> z list -> z list option **)

let ipreproc tmp_ok _ =
  if tmp_ok then Some [] else None

(** val istep :
    afs -> bool -> z list -> (iconf * z) -> op -> ((iconf * z) * opres) res **)

let istep files tmp_ok prog cw o =
  step [] fresh_handler expand_simple (ipreproc tmp_ok) (afs_lookup files)
    prog cw o

(** val ifind : z -> z option -> (z * bool) list -> ff_out option res **)

let ifind flen dlen comps =
  find_file flen dlen comps (fun _ -> false)

type tpiece =
| PLit of z list
| PEnv of z list
| PTpl

type tstmt =
| TRequireLen
| TUmaskSave of z
| TUmaskSet of z
| TMkstemp
| TUmaskRestore
| TFailIfBad of z
| TCopyBack
| TReturnFd

(** val temp_buff_size : z **)

let temp_buff_size =
  Zpos (XO (XO (XO (XO (XO (XO (XO (XO XH))))))))

(** val temp_branches : (z list option * tpiece list) list **)

let temp_branches =
  ((Some ((Zpos (XO (XO (XI (XO (XI (XO XH))))))) :: ((Zpos (XI (XO (XI (XI
    (XO (XO XH))))))) :: ((Zpos (XO (XO (XO (XO (XI (XO XH))))))) :: ((Zpos
    (XO (XO (XI (XO (XO (XO XH))))))) :: ((Zpos (XI (XO (XO (XI (XO (XO
    XH))))))) :: ((Zpos (XO (XI (XO (XO (XI (XO XH))))))) :: []))))))),
    ((PEnv ((Zpos (XO (XO (XI (XO (XI (XO XH))))))) :: ((Zpos (XI (XO (XI (XI
    (XO (XO XH))))))) :: ((Zpos (XO (XO (XO (XO (XI (XO XH))))))) :: ((Zpos
    (XO (XO (XI (XO (XO (XO XH))))))) :: ((Zpos (XI (XO (XO (XI (XO (XO
    XH))))))) :: ((Zpos (XO (XI (XO (XO (XI (XO
    XH))))))) :: []))))))) :: ((PLit ((Zpos (XI (XI (XI (XI (XO
    XH)))))) :: [])) :: (PTpl :: ((PLit ((Zpos (XO (XO (XO (XI (XI (XO
    XH))))))) :: ((Zpos (XO (XO (XO (XI (XI (XO XH))))))) :: ((Zpos (XO (XO
    (XO (XI (XI (XO XH))))))) :: ((Zpos (XO (XO (XO (XI (XI (XO
    XH))))))) :: ((Zpos (XO (XO (XO (XI (XI (XO XH))))))) :: ((Zpos (XO (XO
    (XO (XI (XI (XO XH))))))) :: []))))))) :: []))))) :: (((Some ((Zpos (XO
    (XO (XI (XO (XI (XO XH))))))) :: ((Zpos (XI (XO (XI (XI (XO (XO
    XH))))))) :: ((Zpos (XO (XO (XO (XO (XI (XO XH))))))) :: [])))), ((PEnv
    ((Zpos (XO (XO (XI (XO (XI (XO XH))))))) :: ((Zpos (XI (XO (XI (XI (XO
    (XO XH))))))) :: ((Zpos (XO (XO (XO (XO (XI (XO
    XH))))))) :: [])))) :: ((PLit ((Zpos (XI (XI (XI (XI (XO
    XH)))))) :: [])) :: (PTpl :: ((PLit ((Zpos (XO (XO (XO (XI (XI (XO
    XH))))))) :: ((Zpos (XO (XO (XO (XI (XI (XO XH))))))) :: ((Zpos (XO (XO
    (XO (XI (XI (XO XH))))))) :: ((Zpos (XO (XO (XO (XI (XI (XO
    XH))))))) :: ((Zpos (XO (XO (XO (XI (XI (XO XH))))))) :: ((Zpos (XO (XO
    (XO (XI (XI (XO XH))))))) :: []))))))) :: []))))) :: ((None, ((PLit
    ((Zpos (XI (XI (XI (XI (XO XH)))))) :: ((Zpos (XO (XO (XI (XO (XI (XI
    XH))))))) :: ((Zpos (XI (XO (XI (XI (XO (XI XH))))))) :: ((Zpos (XO (XO
    (XO (XO (XI (XI XH))))))) :: ((Zpos (XI (XI (XI (XI (XO
    XH)))))) :: [])))))) :: (PTpl :: ((PLit ((Zpos (XO (XO (XO (XI (XI (XO
    XH))))))) :: ((Zpos (XO (XO (XO (XI (XI (XO XH))))))) :: ((Zpos (XO (XO
    (XO (XI (XI (XO XH))))))) :: ((Zpos (XO (XO (XO (XI (XI (XO
    XH))))))) :: ((Zpos (XO (XO (XO (XI (XI (XO XH))))))) :: ((Zpos (XO (XO
    (XO (XI (XI (XO XH))))))) :: []))))))) :: [])))) :: []))

(** val temp_prog : tstmt list **)

let temp_prog =
  TRequireLen :: ((TUmaskSave (Zpos (XI (XI (XI (XI (XI
    XH))))))) :: (TMkstemp :: (TUmaskRestore :: ((TFailIfBad (Zpos (XO (XO
    (XO (XO (XO (XO (XO (XI
    XH)))))))))) :: (TCopyBack :: (TReturnFd :: []))))))

(** val beq_bytes : z list -> z list -> bool **)

let rec beq_bytes a b =
  match a with
  | [] -> (match b with
           | [] -> true
           | _ :: _ -> false)
  | x :: a' ->
    (match b with
     | [] -> false
     | y :: b' -> (&&) (Z.eqb x y) (beq_bytes a' b'))

type world = { w_umask : z; w_files : (z list * z) list;
               w_fds : (z * z list) list }

type oracle = { o_dir_ok : bool; o_picks : z list list; o_fd : z;
                o_fchmod_ok : bool }

(** val has_file : (z list * z) list -> z list -> bool **)

let has_file files nm =
  existsb (fun f -> beq_bytes (fst f) nm) files

(** val xs6 : z list **)

let xs6 =
  (Zpos (XO (XO (XO (XI (XI (XO XH))))))) :: ((Zpos (XO (XO (XO (XI (XI (XO
    XH))))))) :: ((Zpos (XO (XO (XO (XI (XI (XO XH))))))) :: ((Zpos (XO (XO
    (XO (XI (XI (XO XH))))))) :: ((Zpos (XO (XO (XO (XI (XI (XO
    XH))))))) :: ((Zpos (XO (XO (XO (XI (XI (XO XH))))))) :: [])))))

(** val libc_create_mode : z **)

let libc_create_mode =
  Zpos (XO (XO (XO (XO (XO (XO (XO (XI XH))))))))

(** val try_picks :
    z list -> (z list * z) list -> z list list -> z list option **)

let rec try_picks stem files = function
| [] -> None
| p :: ps ->
  if has_file files (app stem p)
  then try_picks stem files ps
  else Some (app stem p)

(** val mkstemp : world -> oracle -> z list -> (world * z) * z list **)

let mkstemp w o name =
  let n0 = length name in
  if Nat.ltb n0 (S (S (S (S (S (S O))))))
  then ((w, (Zneg XH)), name)
  else let stem = firstn (sub n0 (S (S (S (S (S (S O))))))) name in
       if negb (beq_bytes (skipn (sub n0 (S (S (S (S (S (S O))))))) name) xs6)
       then ((w, (Zneg XH)), name)
       else if negb o.o_dir_ok
            then ((w, (Zneg XH)), name)
            else (match try_picks stem w.w_files o.o_picks with
                  | Some nm ->
                    (({ w_umask = w.w_umask; w_files =
                      (app w.w_files ((nm,
                        (Z.ldiff libc_create_mode w.w_umask)) :: []));
                      w_fds = ((o.o_fd, nm) :: w.w_fds) }, o.o_fd), nm)
                  | None -> ((w, (Zneg XH)), name))

(** val fd_name : (z * z list) list -> z -> z list option **)

let rec fd_name fds fd =
  match fds with
  | [] -> None
  | p :: t -> let (d, nm) = p in if Z.eqb d fd then Some nm else fd_name t fd

(** val set_mode : (z list * z) list -> z list -> z -> (z list * z) list **)

let set_mode files nm mode =
  map (fun f -> if beq_bytes (fst f) nm then ((fst f), mode) else f) files

(** val fchmod : world -> oracle -> z -> z -> world * bool **)

let fchmod w o fd mode =
  if o.o_fchmod_ok
  then (match fd_name w.w_fds fd with
        | Some nm ->
          ({ w_umask = w.w_umask; w_files = (set_mode w.w_files nm mode);
            w_fds = w.w_fds }, false)
        | None -> (w, true))
  else (w, true)

(** val piece_bytes :
    (z list -> z list option) -> z list -> tpiece -> z list **)

let piece_bytes env tpl = function
| PLit s -> s
| PEnv n0 -> (match env n0 with
              | Some v -> v
              | None -> [])
| PTpl -> tpl

(** val pick_branch :
    (z list -> z list option) -> (z list option * tpiece list) list -> tpiece
    list **)

let rec pick_branch env = function
| [] -> []
| p :: t ->
  let (o, f) = p in
  (match o with
   | Some n0 -> (match env n0 with
                 | Some _ -> f
                 | None -> pick_branch env t)
   | None -> f)

(** val temp_name : (z list -> z list option) -> z list -> z list **)

let temp_name env tpl =
  firstn (Z.to_nat (Z.sub temp_buff_size (Zpos XH)))
    (concat (map (piece_bytes env tpl) (pick_branch env temp_branches)))

type tstate = { t_w : world; t_saved : z; t_fd : z; t_buff : z list;
                t_tpl : buf; t_ret : z option }

(** val with_w : tstate -> world -> tstate **)

let with_w s w =
  { t_w = w; t_saved = s.t_saved; t_fd = s.t_fd; t_buff = s.t_buff; t_tpl =
    s.t_tpl; t_ret = s.t_ret }

(** val with_ret : tstate -> z -> tstate **)

let with_ret s r =
  { t_w = s.t_w; t_saved = s.t_saved; t_fd = s.t_fd; t_buff = s.t_buff;
    t_tpl = s.t_tpl; t_ret = (Some r) }

(** val set_umask : world -> z -> world **)

let set_umask w m =
  { w_umask = m; w_files = w.w_files; w_fds = w.w_fds }

(** val exec : oracle -> z -> tstate -> tstmt -> tstate res **)

let exec o len s st =
  match s.t_ret with
  | Some _ -> Ok s
  | None ->
    (match st with
     | TRequireLen -> if Z.leb len Z0 then Ok (with_ret s (Zneg XH)) else Ok s
     | TUmaskSave m ->
       Ok { t_w =
         (set_umask s.t_w
           (Z.coq_land m (Zpos (XI (XI (XI (XI (XI (XI (XI (XI XH)))))))))));
         t_saved = s.t_w.w_umask; t_fd = s.t_fd; t_buff = s.t_buff; t_tpl =
         s.t_tpl; t_ret = None }
     | TUmaskSet m ->
       Ok
         (with_w s
           (set_umask s.t_w
             (Z.coq_land m (Zpos (XI (XI (XI (XI (XI (XI (XI (XI XH))))))))))))
     | TMkstemp ->
       let (p, nm) = mkstemp s.t_w o s.t_buff in
       let (w', fd) = p in
       Ok { t_w = w'; t_saved = s.t_saved; t_fd = fd; t_buff = nm; t_tpl =
       s.t_tpl; t_ret = None }
     | TUmaskRestore -> Ok (with_w s (set_umask s.t_w s.t_saved))
     | TFailIfBad mode ->
       if Z.ltb s.t_fd Z0
       then Ok (with_ret s (Zneg XH))
       else let (w', failed) = fchmod s.t_w o s.t_fd mode in
            if failed
            then Ok (with_ret (with_w s w') (Zneg XH))
            else Ok (with_w s w')
     | TCopyBack ->
       if Z.eqb len Z0
       then Ok s
       else bind (safe_strncpy s.t_tpl (cstr s.t_buff []) len) (fun x ->
              let (_, d) = x in
              Ok { t_w = s.t_w; t_saved = s.t_saved; t_fd = s.t_fd; t_buff =
              s.t_buff; t_tpl = d; t_ret = None })
     | TReturnFd -> Ok (with_ret s s.t_fd))

(** val exec_all : oracle -> z -> tstate -> tstmt list -> tstate res **)

let rec exec_all o len s = function
| [] -> Ok s
| st :: p' -> bind (exec o len s st) (fun s' -> exec_all o len s' p')

(** val temp_file :
    (z list -> z list option) -> buf -> z -> world -> oracle ->
    ((z * buf) * world) res **)

let temp_file env tpl len w o =
  bind (strlen tpl) (fun _ ->
    let s0 = { t_w = w; t_saved = Z0; t_fd = (Zneg XH); t_buff =
      (temp_name env (take_str tpl)); t_tpl = tpl; t_ret = None }
    in
    bind (exec_all o len s0 temp_prog) (fun s ->
      match s.t_ret with
      | Some r -> Ok ((r, s.t_tpl), s.t_w)
      | None -> Fault Abort))

(** val env2 : z list option -> z list option -> z list -> z list option **)

let env2 tmpdir tmp n0 =
  if beq_bytes n0 ((Zpos (XO (XO (XI (XO (XI (XO XH))))))) :: ((Zpos (XI (XO
       (XI (XI (XO (XO XH))))))) :: ((Zpos (XO (XO (XO (XO (XI (XO
       XH))))))) :: ((Zpos (XO (XO (XI (XO (XO (XO XH))))))) :: ((Zpos (XI
       (XO (XO (XI (XO (XO XH))))))) :: ((Zpos (XO (XI (XO (XO (XI (XO
       XH))))))) :: []))))))
  then tmpdir
  else if beq_bytes n0 ((Zpos (XO (XO (XI (XO (XI (XO XH))))))) :: ((Zpos (XI
            (XO (XI (XI (XO (XO XH))))))) :: ((Zpos (XO (XO (XO (XO (XI (XO
            XH))))))) :: [])))
       then tmp
       else None

(** val world0 : z -> (z list * z) list -> world **)

let world0 umask0 files =
  { w_umask = umask0; w_files = files; w_fds = [] }

(** val fd_mode : world -> z -> z option **)

let fd_mode w fd =
  match fd_name w.w_fds fd with
  | Some nm ->
    (match find (fun f -> beq_bytes (fst f) nm) w.w_files with
     | Some f -> Some (snd f)
     | None -> None)
  | None -> None
