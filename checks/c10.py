"""C10: config value expansion is a pure function of line, environment and variable store (src/conf.c)."""
import os
import vlib

CONFIG_BUFF = 20480          # only used to aim the generator; the model takes the value from the source
MAXJ = CONFIG_BUFF - 1


def hx(bs):
    if isinstance(bs, str):
        bs = bs.encode('latin-1')
    return ''.join('%02x' % b for b in bs) or '-'


ORD = ['a', 'b', 'Z', ' ', '/', '.', '_', '1', '}', ')', '(', '{', '\xe9', '\t', '=', 'n', 'e']
QUOTES = ["'", '"']
ESCS = ['\\n', '\\t', '\\e', '\\E', '\\\\', "\\'", '\\"', '\\x', '\\r', '\\b', '\\f', '\\a', '\\v', '\\~', '\\$', '\\%']
NAMES = ['HOME', 'A', 'B_1', 'UNSET', 'EMPTY', 'x9', 'LONG']
KEYS = ['k', 'j', 'kk', 'a', 'K', 'm']
VALS = ['v', 'w1', 'x', '~', '$A', '%version()']


def env_ref(rng, name=None):
    n = name or rng.choice(NAMES)
    f = rng.randrange(8)
    if f < 3:
        return '$' + n
    if f < 5:
        return '${' + n + '}'
    if f < 7:
        return '$(' + n + ')'
    return rng.choice(['$', '${}', '$()', '$1', '${' + n + ')', '$(' + n + '}', '$ ' + n, '$' + n + '_'])


NFUN = [0]      # number of functions f<k> the application has registered in the case being generated (see fn_world)


def call(rng, depth):
    k = rng.choice(KEYS)
    if NFUN[0] and rng.random() < 0.3:
        # a call to a registered function, to the one just beyond the registered ones, or a near miss
        j = rng.choice([0, NFUN[0] - 1, NFUN[0], rng.randrange(NFUN[0] + 2)])
        arg = rng.choice(['', 'x', k, '100%', '$A', '~']) if depth <= 0 or rng.random() < 0.5 else call(rng, depth - 1)
        return rng.choice(['%%f%d(%s)', '%%f%d(%s)', '%%F%d(%s)', '%%f%d )%s)', '%%f%d(%s', '%%f%d %s', '%%f%d[%s]']) % (j, arg)
    f = rng.randrange(12)
    if f < 3:
        arg = k if depth <= 0 or rng.random() < 0.6 else call(rng, depth - 1)
        if rng.random() < 0.3:
            arg += ' ' + (rng.choice(VALS) if depth <= 0 or rng.random() < 0.5 else call(rng, depth - 1))
        return '%get(' + arg + ')'
    if f < 6:
        v = rng.choice(VALS) if depth <= 0 or rng.random() < 0.6 else call(rng, depth - 1)
        q = rng.choice(['', '', '', "'", '"'])
        return '%put(' + k + ' ' + q + v + q + ')'
    if f < 7:
        return rng.choice(['%version()', '%VERSION()', '%Version( )', '%version(ignored (x) y)'])
    if f < 8:
        return rng.choice(['%appname()', '%APPNAME()', '%appname(%get(k))'])
    if f < 9:
        return rng.choice(['%x', '%%', '%(', '%get', '%get k', '%put', '%version', '%ge(', '%getx(', '% ', "%'", '%$A', '%\\n', '%~'])
    if f < 10:
        return rng.choice(['%put(k)', '%put(k a b)', '%get()', '%get( )', '%get(a b c)', '%put()', '%put(  k   v  )', '%get("k")',
                           "%put('k k' \"v v\")", "%get('k k')", '%put(k "")', '%get("")', '%put("" e)'])
    if f < 11:
        return '%get(' + k + ' ' + env_ref(rng) + ')'
    return rng.choice(['%version )', '%get )', '%version ) x)', '%put ) k v)'])


def token(rng, depth=2):
    f = rng.randrange(20)
    if f < 7:
        return rng.choice(ORD)
    if f < 9:
        return rng.choice(QUOTES)
    if f < 12:
        return rng.choice(ESCS)
    if f < 13:
        return '~'
    if f < 16:
        return env_ref(rng)
    return call(rng, depth)


ENDS = ['\\', '%', '$', '${', '$(', '${A', '$(A', '$A', '%get(', '%get(k', '%put(k v', '%version(', '%get(%get(k)', "'", '"', "'\\",
        "'%", "'$", '"\\', '"%', '"${', '~', "'~", '%version )', '%get', '%g', '\\\\', "'\\'", '%appname(', '%put(', '%%', '$$', '%get((']


def value(rng, ntok, end=None, depth=2):
    s = ''.join(token(rng, depth) for _ in range(ntok))
    if end is not None:
        s += end
    return s


def mkenv(rng, big=None):
    env = {}
    r = rng.random()
    if r < 0.7:
        env['HOME'] = rng.choice(['/home/u', '/h', '/', '/root/x y', 'h~$A%x'])
    elif r < 0.8:
        env['HOME'] = ''
    if rng.random() < 0.8:
        env['A'] = rng.choice(['va', 'A', '1 2', "q'q", 'p"p', '\\n', '$B_1', '%get(k)', '~'])
    if rng.random() < 0.6:
        env['B_1'] = rng.choice(['bee', 'x'])
    if rng.random() < 0.5:
        env['EMPTY'] = ''
    if rng.random() < 0.5:
        env['x9'] = 'nine'
    if rng.random() < 0.3:
        env['LONG'] = 'L' * rng.choice([127, 128, 200, 1000])
    if big is not None:
        env['BIG'] = 'B' * big
    if rng.random() < 0.1:
        env['A'] = 'has=eq'
        env['A=has'] = 'never'   # not a settable name; skipped below
    return {k: v for k, v in env.items() if '=' not in k}


def envstr(env):
    if not env:
        return '-'
    return ','.join('%s=%s' % (hx(k), hx(v)) for k, v in env.items())


def case(env, ops, pn='Eterm', pv='0.9.6'):
    return 'x %s %s %s %s' % (hx(pn), hx(pv), envstr(env), ' '.join(ops))


def e(s):
    return 'e:' + hx(s)


# ---- the outside world of the expansion: long environment values, HOME, stored values, directories, command output ----
CB = CONFIG_BUFF
# the sizes of the fixed buffers of conf.c (128-byte name buffer, 256-byte buffers, PATH_MAX, CONFIG_BUFF) and their neighbours
LENS_QUICK = [0, 1, 127, 128, 129, 255, 256, 257, 4095, 4096, 4097, CB - 3, CB - 2, CB - 1, CB, CB + 1]
LENS_MORE = [2, 3, 7, 8, 9, 15, 16, 17, 31, 32, 33, 63, 64, 65, 300, 511, 512, 513, 1023, 1024, 1025, 2047, 2048, 2049, 8191, 8192, 8193,
             10239, 10240, 10241, 16383, 16384, 16385, CB - 20, CB + 2, 2 * CB + 3, 65535, 65536, 65537]
INSIDE_MAX_QUICK = 4097      # the extracted C12 word model is more than quadratic in the length of a call argument:
INSIDE_MAX_THOROUGH = 8193   # 0.4 s at 4 kB, 37 s at 20 kB - longer values inside calls are left to C11's sanitizer sweep


def vs(n, pat=None):
    return '*%d' % n + ('/' + hx(pat) if pat else '')


def et(*parts):
    """expansion of the concatenation of the parts (literals, or ready value specs starting with '*')"""
    out = []
    for q in parts:
        if isinstance(q, str) and q.startswith('*'):
            out.append(q)
        elif q not in ('', b''):
            out.append(hx(q))
    return 'e:' + ('+'.join(out) or '-')


def wcase(world, ops, pn='Eterm', pv='0.9.6'):
    return 'x %s %s %s %s' % (hx(pn), hx(pv), ','.join(world) or '-', ' '.join(ops))


def w_sources(n, pat=None):
    """how a text of n bytes gets into an expansion: (world entries, the text that names it, operations that must run first)"""
    return [
        (['%s=%s' % (hx('X'), vs(n, pat))], '$X', []),
        (['%s=%s' % (hx('X'), vs(n, pat))], '${X}', []),
        (['%s=%s' % (hx('X_1'), vs(n, pat))], '$(X_1)', []),
        (['%s=%s' % (hx('HOME'), vs(n, pat or b'/h'))], '~', []),
        (['%s=%s' % (hx('X'), vs(n, pat))], '%get(k)', ['p:%s:%s' % (hx('k'), vs(n, pat))] if n else []),   # a stored value
    ]


W_OUTSIDE = ['{S}', 'a{S}b', '{S}{S}', '{S} {S} {S}', '"{S}"', "'{S}'", '\\{S}', '{S}%', '{S}\\', '{S}$', '{S}${', "{S}'", '{S}%get(']
W_INSIDE = ['%put(j {S})', '%put({S} v)', '%get(nosuch {S})', '%get({S})', '%get({S} {S})', '%appname({S})', '%version({S})', '%version ){S})',
            '%get(a %get(b {S}))', '%get(a %get(b %get(c {S})))', '%put(j %get(nosuch {S}))', '%get(nosuch %appname({S}){S})',
            '%put(j "{S}")%get(j)%get(j)', "%put(j '{S}')[%get(j)]", '%get(j %get(j %get(j %get(j %get(j {S})))))',
            '%dirscan({S})', '%dirscan(d{S})']
W_INSIDE_FEW = ['%put(j {S})', '%get(nosuch {S})', '%get(a %get(b {S}))', "%put(j '{S}')[%get(j)]"]

# The extracted model pays for its checked, single-pass cell accesses: an expansion costs about (length of the input text)^2,
# a call argument (C12 word model) more than (length)^2 - 0.4 s at 4 kB, 37 s at 20 kB -, %dirscan (names) x (length of the list),
# condense_whitespace (length of the output)^2 - 21 s at 20 kB.  Long values OUTSIDE calls cost nothing.  The generator therefore
# enumerates every use for the small size classes and a few uses for the large ones; the full product at every size runs on the
# implementation alone under the sanitizers in property C11 (checks/conflib.py gen_world).


def gen_world_values(rng, lens, inside_all_max, inside_few_max, pats=(None,)):
    cases = []
    for n in lens:
        for pat in pats:
            for (world, name, pre) in w_sources(n, pat):
                inside = W_INSIDE if n <= inside_all_max else (W_INSIDE_FEW if n <= inside_few_max else [])
                if n > inside_all_max and name not in ('$X', '%get(k)'):
                    inside = inside[:1]
                uses = W_OUTSIDE + inside
                for u in uses:
                    cases.append(wcase(world, pre + [e(u.replace('{S}', name)), 'g:' + hx('j')]))
                if n <= inside_all_max:
                    pick = list(uses)
                    rng.shuffle(pick)
                    cases.append(wcase(world, pre + [e(u.replace('{S}', name)) for u in pick[:12]]))
    return cases


def gen_world_limit(rng, picks):
    """an almost full line when the long text arrives: filler of CB-1-m characters, then the source (12 s each in the model)"""
    cases = []
    for (n, si, m) in picks:
        (world, name, pre) = w_sources(n)[si]
        room = CB - 1 - len(name) - m
        cases.append(wcase(world, pre + [et(vs(room, b'x'), name)]))
    return cases


def dir_listings(tier):
    """directory listings whose names and blanks add up to less than, exactly and more than CONFIG_BUFF"""
    ls = ['-', hx('x'), '#1x255', '%s;!%s;?%s;%s' % (hx('x'), hx('sub'), hx('gone'), hx('yy')), '!' + hx('sub'), '#200x100', '#202x100', '#203x100',
          '#210x100', '#159x127', '#160x127', '#161x127', '#159x127;#1x126', '#159x127;#1x125', '#159x127;#1x128', '#1x126;#159x127',
          '#159x127;#1x127;#5x3', '#79x255', '#80x255', '#81x255', '#128x159', '#320x63', '#36x1',
          '%s;%s' % (hx('a b'), hx("q'r")), '#1x254;#3x5', '#80x254;#1x79', '#80x254;#1x78', '#80x254;#1x80']     # a name has at most 255 characters (struct dirent)
    if tier != 'quick':
        ls += ['#1024x19', '#1023x19;#1x18', '#1023x19;#1x20', '#2048x9', '#2100x9']
        for L in range(31, 256):
            c = CB // (L + 1)
            exact = CB % (L + 1) == 0
            if not exact and L % 8:
                continue
            ls += ['#%dx%d' % (c, L), '#%dx%d' % (c + 1, L)]
            r = CB - c * (L + 1)
            for d in ((-1, 0, 1) if exact or L % 16 == 0 else (0,)):
                ll = r - 1 + d
                if ll >= 1:
                    ls.append('#%dx%d;#1x%d' % (c, L, ll))
                    ls.append('#1x%d;#%dx%d' % (ll, c, L))
                elif c > 1:
                    ls.append('#%dx%d;#1x%d' % (c - 1, L, ll + L + 1))
    seen, out = set(), []
    for x in ls:
        if x not in seen:
            seen.add(x)
            out.append(x)
    return out


DIR_USES = ['%dirscan(d)', '[%dirscan(d)]', '%dirscan(d)%dirscan(d)', '%dirscan(d d)', '%dirscan()', '%dirscan(nosuch)', '%dirscan( d )',
            '%dirscan("d")', "%put(k '%dirscan(d)')%get(k)", '%put(k %dirscan(d))', '%get(nosuch %dirscan(d))', '%get(%dirscan(d))',
            '%dirscan(%dirscan(d))', '%dirscan(d/sub)', '%dirscan(.)', '%DIRSCAN(d)', '%dirscan )d)', "%dirscan('d' )", '%dirscan(d', '%dirscan(\\d)']


def gen_world_dirs(rng, tier):
    cases = []
    small = [hx('x'), '%s;!%s;?%s;%s' % (hx('x'), hx('sub'), hx('gone'), hx('yy')), '#36x1', '%s;%s' % (hx('a b'), hx("q'r")), '-']
    for ls in dir_listings(tier):
        world = ['@d%s=%s' % (hx('d'), ls), '@d%s=%s' % (hx('d/sub'), hx('inner'))]
        cases.append(wcase(world, [e('%dirscan(d)')]))
        if ls in small:
            cases.append(wcase(world, [e(u) for u in DIR_USES]))          # a long list inside a call argument is slow in the model
        elif ls in ('#160x127', '#203x100'):
            cases.append(wcase(world, [e(u) for u in DIR_USES[:8]]))
    return cases


OUT_PATS = [b'o', b'ab  c\n', b' ', b'\n', b'a\x00b', b'%exec(x)$X~\\', b'x' * 100 + b'\n', b'\t \r\x0b\x0c', b' lead', b'\xff\x01']
EXEC_USES = ['%exec(echo)', 'a%exec(echo)b', '%exec(echo)%exec(echo)', '%put(k "%exec(echo)")%get(k)', '%get(nosuch %exec(echo))',
             '%exec(%exec(echo))', '%exec()', '%exec( )', '%exec(echo', "'%exec(echo)'", '%EXEC(echo)', '%exec )echo)', '%exec($X)', '%exec(~)']


def gen_world_exec(rng, lens, tier, tmpd):
    quick = tier == 'quick'
    cases = []
    base = ['%s=%s' % (hx('TMPDIR'), hx(tmpd)), '%s=%s' % (hx('X'), hx('va'))]
    for n in lens:
        if n <= 257:
            for pat in (OUT_PATS[:6] if quick else OUT_PATS):
                cases.append(wcase(base + ['@o=' + vs(n, pat)], [e(u) for u in EXEC_USES]))
        elif n <= 4097:
            for pat in (OUT_PATS[:2] if quick else OUT_PATS[:6]):
                cases.append(wcase(base + ['@o=' + vs(n, pat)], [e('[%exec(echo)]')] if quick and n != 4096 else [e('[%exec(echo)]'), e('%get(nosuch %exec(echo))')]))
        elif not quick and n <= 8193:
            cases.append(wcase(base + ['@o=' + vs(n, b'ab  c\n')], [e('[%exec(echo)]')]))
    if not quick:
        cases.append(wcase(base + ['@o=' + vs(CB + 1, b'ab ')], [e('%exec(echo)')]))        # 21 s in the model
    cases.append(wcase(base + ['@o=-'], [e(u) for u in EXEC_USES]))
    # the command length at which builtin_exec gives up: strlen(param) + strlen(OutFile) + 8 > CONFIG_BUFF; the command comes from
    # the environment so that the input text stays short
    outfile = len(tmpd) + 18
    edge = CB - 8 - outfile
    span = range(edge - 3, edge + 4) if quick else range(edge - 40, edge + 41)
    for plen in list(span) + [CB - 9, CB - 8, CB - 2]:
        if plen > 0:
            cases.append(wcase(['%s=%s' % (hx('TMPDIR'), hx(tmpd)), '%s=%s' % (hx('X'), vs(plen, b'c')), '@o=' + hx('out')], [e('[%exec($X)]')]))
    if not quick:
        cases.append(wcase(base + ['@o=' + hx('out')], [et('%exec(', vs(edge + 1, b'c'), ')')]))     # the same from the text itself (26 s)
    # a temporary directory whose name does not fit spiftool_temp_file's 256-byte buffer: the name is cut, mkstemp refuses it
    for tl in (236, 237, 238, 239, 255, 256, 300):
        pad = tmpd + '/.' * ((tl - len(tmpd)) // 2) + ('/' if (tl - len(tmpd)) % 2 else '')
        if len(pad) == tl:
            cases.append(wcase(['%s=%s' % (hx('TMPDIR'), hx(pad)), '@o=' + hx('out')], [e('[%exec(echo)]')]))
    return cases


# ---- functions the application registers with spifconf_register_builtin ----
# the function table starts with room for 10 entries, 7 of them taken by the library, and doubles: 3, 13, 33, 73 and 153
# registrations fill it to the brim; the context table (room for 20) doubles at the 20th, 40th, 80th registered context
FN_COUNTS_QUICK = [0, 1, 2, 3, 4, 5, 9, 10, 11, 12, 13, 14, 19, 20, 21, 32, 33, 34, 39, 40, 41, 72, 73, 74]
FN_COUNTS_MORE = [6, 7, 8, 15, 16, 31, 35, 63, 64, 65, 71, 75, 79, 80, 81, 100, 127, 128, 129, 152, 153, 154, 159, 160, 161, 199, 200]
CTX_COUNTS = [0, 1, 18, 19, 20, 21, 38, 39, 40, 41, 78, 79, 80, 81]


def fn_texts(n):
    """values for a table of 7 + n functions: a % that starts no call, calls to unknown names (among them the name just
    beyond the registered ones), near misses of known names, calls to the registered functions in both call forms, nested"""
    t = ['a 100% b', '%nosuch(1)', '%', '%%', '100%', '50%(', '% )', '%(x)', '%f', '%f(', '%%f%d(x)' % n, '%%f%d' % n, '%%F%d )x)' % n,
         "'%nosuch(1)'", '"%nosuch(1) ~"', '%nosuch(%get(k d))', '%get(k 100%)', '%put(k 5%)%get(k)', '\\%%\\%', '%$A', '%~', '%\\n',
         '%version', '%version%', '%ge(', '%getx(1)', '%xget(k)', '%put', '%%get(k d)', '%%%', 'x%', '%dirscanx(d)', '%rando(1)', '%e(x)']
    if n:
        last = n - 1
        t += ['%f0(x)', '%F0(x)', '%f0 )x)', '%f0()', '%f0( )', '%f0', '%f0(', '%f0(x', '%%f%d(x)' % last, '%%f%d(%%f0(%%get(k d)))' % last,
              '%f0(100%)', '%f0(%nosuch(1))', '%nosuch(%f0(a))', '%put(k %f0(v))[%get(k)]', '%f0($A)%f0(~)', "'%f0(x)'",
              '%f0(%f0(%f0(%f0(x))))', '%%f0(a)%%f%d(b)%%f0(c)' % last, '%%f%d(' % last, '%f0(%get((x)', '%f0(%get ) x)', '%f00(x)', '%f0x(x)']
    return t


def fn_world(total, start=None, nctx=0, extra=()):
    w = ['@F=%d' % total] if total else []
    w += list(extra)
    if start is not None:
        w.append('@n=%d' % start)
    if nctx:
        w.append('@c=%d' % nctx)
    return w


def gen_functions(rng, tier):
    quick = tier == 'quick'
    counts = FN_COUNTS_QUICK if quick else sorted(set(FN_COUNTS_QUICK + FN_COUNTS_MORE))
    env = ['%s=%s' % (hx('HOME'), hx('/h')), '%s=%s' % (hx('A'), hx('va'))]
    cases = []
    for i, n in enumerate(counts):
        # one cycle: n functions registered, every text; then more registrations in the same cycle, the texts again
        n2 = counts[(i + 1) % len(counts)] if i + 1 < len(counts) else n
        n3 = rng.choice(counts)
        n4 = rng.choice([0, 1, 3, 4, 13, 14, rng.choice(counts)])
        total = max(n, n2, n3, n4)
        ops = [e(t) for t in fn_texts(n)] + ['g:' + hx('k')]
        if n2 > n:
            ops += ['r:%d' % n2] + [e(t) for t in fn_texts(n2)]
        # a second and a third init / register / use / free cycle with other numbers of registrations
        ops += ['c:%d' % n3] + [e(t) for t in fn_texts(n3)] + ['g:' + hx('k')]
        ops += ['c:%d' % n4] + [e(t) for t in fn_texts(n4)] + ['r:%d' % total, e('%%f%d(x)%%f%d(y)' % (max(0, total - 1), total)), 'g:' + hx('k')]
        cases.append(wcase(env + fn_world(total, n, rng.choice(CTX_COUNTS)), ops))
        # the shortest form: registrations, then one value
        for t in ('a 100% b', '%nosuch(1)', '%%f%d(x)' % n, '%%f%d(x)' % max(0, n - 1)):
            cases.append(wcase(fn_world(n), [e(t)]))
    # registrations one at a time, a value with an unmatched % after each
    steps = []
    for k in range(0, 42 if quick else 200):
        steps += ['r:%d' % k, e('100%% %%f%d(x)%%f%d(y)' % (max(0, k - 1), k))]
    cases.append(wcase(fn_world(42 if quick else 200, 0), steps))
    cases.append(wcase(fn_world(42 if quick else 200, 0, 41), steps))
    # names: empty, a built-in's name (the built-in comes first), prefixes and extensions of names, blanks and parentheses inside,
    # high-bit bytes, either case, the same name twice (the first registration wins), a long name; answers: NULL, empty,
    # expansion characters (an answer is not expanded again), long (cut at the line limit)
    odd = [('', '[E:'), ('get', '[shadowed:'), ('ge', '[ge:'), ('getx', '[getx:'), ('f', '[f:'), ('f1', '[f1:'), ('f10', '[f10:'), ('F2', '[F2:'),
           ('a b', '[a b:'), ('p(', '[p(:'), ('q ', '[q :'), ('%', '[pct:'), ('\xe9t\xc9', '[hi:'), ('\xc9T', '[HI:'), ('dup', '[dup1:'), ('dup', '[dup2:'),
           ('n' * 300, '[long:'), ('null', None), ('empty', ''), ('meta', "%get(k)$A~\\n'`\""), ('version', '[version2:'), ('1', '[1:')]
    oddw = ['@f%s=%s' % (hx(nm), '!' if r is None else hx(r)) for nm, r in odd]
    oddt = ['%(x)', '%()', '% )x)', '%get(k d)', '%GET(k d)', '%ge(x)', '%getx(x)', '%f(x)', '%f1(x)', '%f10(x)', '%f100(x)', '%f2(x)', '%F2(x)', '%f3(x)',
            '%a b(x)', '%a(x)', '%a b )x)', '%p((x)', '%p(x)', '%p( )x)', '%q (x)', '%q )x)', '%q  )x)', '%%(x)', '%% )x)', '%\xe9t\xc9(x)', '%\xc9T\xe9(x)',
            '%\xc9t(x)', '%dup(x)', '%DUP( )', '%' + 'n' * 300 + '(x)', '%' + 'n' * 299 + '(x)', '%' + 'N' * 301 + '(x)', '[%null(x)]', '[%null()]',
            '[%empty()]', '[%empty(x)]', '[%empty(%null(x))]', '%meta()', '%meta(%meta())', '%put(k %meta(v))%get(k)', '%version(x)', '%1(x)', '%1',
            '%f1(%f10(%f(%(%ge(%getx(deep))))))', '%f(%get((x)', '%f(%f()', "%f(')')", '%f(\\))', '100%', '%nosuch(%f(x))']
    for start in (None, 0, 1, 3, 4):
        ops = [e(t) for t in oddt]
        if start is not None:
            ops += ['r:%d' % len(odd)] + [e(t) for t in oddt]
        ops += ['c:2'] + [e(t) for t in oddt[:12]] + ['c:%d' % len(odd)] + [e(t) for t in oddt[:20]]
        cases.append(wcase(['%s=%s' % (hx('A'), hx('va'))] + fn_world(0, start, 20 if start else 0, oddw), ops))
    # long answers and long arguments: the sizes of the fixed buffers and their neighbours (a long value inside a call is slow in the model)
    for n in ([255, 256, 4096, CB - 2, CB - 1, CB, CB + 1] if quick else [1, 127, 128, 255, 256, 257, 4095, 4096, 4097, CB - 3, CB - 2, CB - 1, CB, CB + 1, 65536]):
        w = ['%s=%s' % (hx('X'), vs(min(n, 4097)))] + fn_world(4, None, 0, ['@f%s=%s' % (hx('big'), vs(n, b'r'))])
        ops = [e('%big()'), e('a%big()b'), e('%big()%big()'), e('%f3(%big())') if n <= (4097 if quick else 8193) else e('%f3()'), e('%big($X)') if n <= 4097 else e('%big(x)'),
               e('%f0($X)%nosuch($X)100%'), e('%put(k %big())') if n <= 4097 else e('%put(k v)'), 'g:' + hx('k')]
        cases.append(wcase(w, ops))
    return cases


class C10(vlib.PropertyCheck):
    id = 'C10'
    family = 'c10'
    harness = 'c10.c'
    impl_kwargs = dict(exclude=('conf.c',),
                       ldflags=['-Wl,--wrap=system', '-Wl,--wrap=popen', '-Wl,--wrap=fork', '-Wl,--wrap=execve', '-Wl,--wrap=malloc',
                                '-Wl,--wrap=realloc', '-Wl,--wrap=strdup', '-Wl,--wrap=free'])
    case_timeout = 300
    nontrivial_rule = ('histories of 1-8 operations (expansions, direct put/delete/get on the store) from an empty store; value '
                       'strings are token sequences over ordinary characters, both quotes, backslash sequences, ~, the three $ forms '
                       '(set, unset, empty, over-long names), %get/%put/%version/%appname with nesting, malformed and unterminated '
                       'constructs at the end of the text; a stratum enumerates every 1-3 token string over a reduced token set; a '
                       'stratum places each ending within the last 300 bytes of the 20 kB limit; a stratum takes environment values, HOME and stored '
                       'values of 0, 1, 127-129, 255-257, 4095-4097 and CONFIG_BUFF-3..CONFIG_BUFF+1 bytes (thorough: every power of two and its neighbours, '
                       '65535-65537) through every use outside calls and - up to 4 kB, the model being quadratic - inside the arguments of the built-ins and of '
                       'nested calls; a stratum expands %dirscan on interposed directory listings whose names and blanks add up to less than, exactly and more '
                       'than CONFIG_BUFF (0 to 2100 names of 1-255 characters, non-regular entries); a stratum expands %exec with the interposed command '
                       'printing 0 to 4097 (thorough: CONFIG_BUFF+1) bytes over ten byte patterns, commands around the length at which %exec refuses, '
                       'temporary-directory names around the 256-byte name buffer; a stratum registers 0-5, 9-14, 19-21, 32-34, 39-41, 72-74 (thorough: up to 200) '
                       'application functions - every doubling of the function table, next to 0-81 registered contexts - and then expands values with a % that '
                       'starts no call, calls to unknown names (among them the name one beyond the registered ones), near misses, calls to the registered functions '
                       'in both call forms and nested, again after further registrations in the same cycle, and in a second and third init/register/use/free cycle '
                       'with other numbers of registrations; registrations one at a time with an unmatched % after each; odd names (empty, a built-in\'s name, '
                       'prefixes/extensions, blanks and parentheses inside, high-bit bytes, duplicates, 300 characters) and answers (NULL, empty, expansion '
                       'characters, up to CONFIG_BUFF+1 bytes); a third of the random histories run with registered functions; before every init the heap is '
                       'dirtied and every malloc\'ed and realloc\'ed byte is painted; nesting depth up to 100 (thorough: 1000); non-trivial = the model result is '
                       'not a fault and the history contains at least one construct other than ordinary characters; distinct = '
                       'distinct case lines')
    assumptions = ['the input sits in an object of CONFIG_BUFF bytes (what spifconf_parse_line and the recursive call provide) and is shorter than CONFIG_BUFF',
                   'getenv is an oracle: the harness builds the environment with clearenv/setenv from the case line; model side: first NAME=value entry with that prefix, as glibc',
                   'environment values, program name and version contain no NUL byte and are shorter than 4 GB (strlen - 1 is kept in 32 bits)',
                   'the function table holds the seven built-ins registered by spifconf_init_subsystem (generated from the source) followed by the functions the application '
                   'registered, up to the first entry with a NULL name: that spifconf_register_builtin keeps that terminator is proved on the table model of C11 '
                   '(C11_builtins_terminated) and observed here on the implementation for 0-200 registrations with painted heap blocks',
                   'functions registered by the application are parameters like getenv: names are C strings; a function reads its argument and answers NULL or a '
                   'C string shorter than 4 GB (the harness registers functions that answer a fixed text followed by their argument)',
                   '%random and backquotes are outside this property (the model stops with an event; C11 covers spawning and runs them under the sanitizers)',
                   'the outside world is a parameter like getenv: what a command run by %exec writes into its temporary file (a list of bytes shorter than 4 GB, '
                   'or "refused": no temporary file / command line too long) and the names of the regular files of a directory in readdir order (NUL-free; at most '
                   '255 characters in the harness, any length in the theorems); the harness supplies both by interposing system() and opendir/readdir/closedir/stat; '
                   'the temporary-file handling and the assembly of the shell command inside builtin_exec are not modelled',
                   'spiftool_get_word / spiftool_num_words behave as their C12 model (Split/SplitModel.v)',
                   'nesting depth of %calls small enough for the C stack (the C stack is not modelled)',
                   '"C" locale character classes']
    MANIFEST = dict(
        technique='Rocq theorems about an executable Gallina model of spifconf_shell_expand, the variable store and the built-ins + extracted-model/implementation correspondence check with painted stack, heap and input slack',
        text='(filled in below)',
        design_ref='DESIGN.md section 7, C10')

    def build_impl(self):
        # scratch directory for the temporary files builtin_exec creates before it reaches the trapped system()
        tmpd = os.path.join(vlib.BUILD, 'work', 'c10', 'tmp')
        os.makedirs(tmpd, exist_ok=True)
        return vlib.build_impl(getattr(self, 'runkey', self.id.lower()), os.path.join(vlib.VERIF, 'harness', self.harness), **self.impl_kwargs)

    def extra_steps(self, ctx):
        tmpd = os.path.join(vlib.BUILD, 'work', 'c10', 'tmp')
        if os.path.isdir(tmpd):
            for f in os.listdir(tmpd):
                if f.startswith('Eterm-exec-'):
                    os.unlink(os.path.join(tmpd, f))
        return []

    # ------------------------------------------------------------------ generator
    def gen(self, tier, rng):
        cases = []
        quick = tier == 'quick'
        env0 = {'HOME': '/home/u', 'A': 'va', 'EMPTY': ''}
        # 1. every ending alone and after one ordinary character, in and out of quotes
        for end in ENDS:
            for pre in ['', 'a', "a'", 'a"', 'a ~ ']:
                cases.append(case(env0, [e(pre + end)]))
        # 2. bounded-exhaustive: all strings of 1..n tokens over a reduced token set
        small = ['a', "'", '"', '\\', '\\n', "\\'", '~', '$A', '${A}', '$(U)', '$', '%', '%get(k)', '%put(k v)', '%version()', '(', ')', '}', ' ']
        import itertools
        n = 2 if quick else 3
        for l in range(1, n + 1):
            for t in itertools.product(small, repeat=l):
                cases.append(case(env0, [e(''.join(t)), 'g:' + hx('k')]))
        # 3. random histories
        for _ in range(1000 if quick else 15000):
            env = mkenv(rng)
            ops = []
            NFUN[0] = rng.choice(FN_COUNTS_QUICK) if rng.random() < 0.35 else 0
            for _ in range(rng.choice([1, 1, 2, 3, 5, 8])):
                r = rng.random()
                if r < 0.7:
                    end = rng.choice(ENDS) if rng.random() < 0.25 else None
                    ops.append(e(value(rng, rng.choice([1, 2, 3, 5, 8, 13, 30]), end)))
                elif r < 0.8:
                    ops.append('p:%s:%s' % (hx(rng.choice(KEYS)), hx(rng.choice(['v', 'w', 'x y', '']))))
                elif r < 0.87:
                    ops.append('d:' + hx(rng.choice(KEYS)))
                else:
                    ops.append('g:' + hx(rng.choice(KEYS)))
            c = case(env, ops, rng.choice(['Eterm', 'libast', 'p' * 300, '']), rng.choice(['0.9.6', '', 'v' * 40]))
            if NFUN[0]:
                # the application's functions f0 .. f<n-1>, contexts registered next to them, and now and then a second cycle
                t = c.split(' ')
                t[3] = ','.join(([] if t[3] == '-' else [t[3]]) + fn_world(NFUN[0], None, rng.choice(CTX_COUNTS)))
                if rng.random() < 0.3:
                    t.insert(rng.randrange(4, len(t) + 1), 'c:%d' % NFUN[0])
                c = ' '.join(t)
            NFUN[0] = 0
            cases.append(c)
        # 4. store histories: many put/delete/get through both the built-ins and the direct calls
        for _ in range(250 if quick else 4000):
            ops = []
            for _ in range(rng.choice([4, 8, 16, 30])):
                k = rng.choice(KEYS + ['', 'k k', '\xff', 'ka'])
                r = rng.random()
                if r < 0.3:
                    q = "'" if ' ' in k or k == '' else ''
                    ops.append(e('%put(' + q + k + q + ' ' + rng.choice(['v', 'w', "'x y'", '""']) + ')'))
                elif r < 0.5:
                    q = "'" if ' ' in k or k == '' else ''
                    ops.append(e('[%get(' + q + k + q + rng.choice(['', ' dflt']) + ')]'))
                elif r < 0.7:
                    ops.append('p:%s:%s' % (hx(k), hx(rng.choice(['v', 'w', 'x y', '']))))
                elif r < 0.85:
                    ops.append('d:' + hx(k))
                else:
                    ops.append('g:' + hx(k))
            cases.append(case({}, ops))
        # 5. the last 300 bytes before the limit: j is carried there by one long value, then a tail
        for _ in range(40 if quick else 250):
            tail_tokens = rng.choice([1, 2, 4, 8, 20])
            end = rng.choice(ENDS + [None] * 10)
            tail = value(rng, tail_tokens, end, depth=1)
            big = MAXJ - rng.choice([0, 1, 2, 3, 4, 5, 8, 16, 40, 100, 299, 300]) - rng.choice([0, 0, len(tail)])
            big = max(1, big)
            how = rng.randrange(3) if rng.random() < 0.9 else 3
            if how == 3:
                # part of the text arrives through the store (kept short: the C12 word model is quadratic)
                mid = rng.choice([1, 7, 300, 1500])
                big = max(1, big - mid)
            env = mkenv(rng, big)
            if how == 0:
                text = '$BIG' + tail
            elif how == 1:
                text = '${BIG}' + tail
            elif how == 2:
                env['HOME'] = env.pop('BIG')
                text = '~' + tail
            else:
                env['MID'] = 'm' * mid
                text = '$BIG%put(k $MID)%get(k)' + tail
            cases.append(case(env, [e(text)]))
        # 6. long plain inputs (the line limit is CONFIG_BUFF - 2 characters after chomp)
        for _ in range(3 if quick else 25):
            n = rng.choice([CONFIG_BUFF - 2, CONFIG_BUFF - 3, CONFIG_BUFF - 1 - rng.randrange(300), rng.randrange(2000, 20000)])
            end = rng.choice(ENDS + [None] * 5)
            tail = value(rng, rng.choice([0, 1, 3, 10]), end, depth=1)
            fill = rng.choice(['x', 'x', "'", '\\n', '$A', '~'])
            body = (fill * (n // len(fill) + 1))[:max(0, n - len(tail))]
            cases.append(case(mkenv(rng), [e(body + tail)]))
        # 7. constructs outside the property's alphabet: the model stops with an event, the harness traps system()
        tmpd = os.path.join(vlib.BUILD, 'work', 'c10', 'tmp')
        envx = dict(env0, TMPDIR=tmpd)
        for t in ['a`ls`b', 'a`ls', '`', "'`ls`'", 'a%exec(ls)b', '%exec(', "'`", '"`x', '`%put(k v)`']:
            cases.append(case(envx, [e(t), 'g:' + hx('k')]))
        # 8. the outside world: values of every buffer-size class outside and inside (nested) calls, directory listings,
        #    command output (followed by the model: exec_out / dir_list are parameters of the theorems)
        small = [0, 1, 127, 128, 129, 255, 256, 257]
        if quick:
            lens = LENS_QUICK
            cases += gen_world_values(rng, lens, 257, 4096)
        else:
            lens = sorted(set(LENS_QUICK + LENS_MORE))
            cases += gen_world_values(rng, [n for n in lens if n <= 257], 257, 257, pats=(None, b'a b', b"q'\"\\ "))
            cases += gen_world_values(rng, [n for n in lens if 257 < n <= 1025], 1025, 1025)
            cases += gen_world_values(rng, [n for n in lens if n > 1025], 0, 4097)
            cases.append(wcase(['%s=%s' % (hx('X'), vs(8192))], [e('%put(j $X)'), e('%get(a %get(j))')]))
            # the stratum-5 cases carry j to the limit with one long VALUE; here the input text itself is almost full (12 s each)
            cases += gen_world_limit(rng, [(4096, 0, 3), (CB - 2, 4, 0)])
        cases += gen_world_dirs(rng, tier)
        cases += gen_world_exec(rng, lens, tier, tmpd)
        # 10. functions registered by the application: every doubling of the function table and of the context table, values with
        #     a % that starts no call, unknown names, calls to the registered functions; a second and a third cycle
        cases += gen_functions(rng, tier)
        # 9. nesting depth: 1000 nested calls (the scratch buffers are heap blocks since the repair; 160 s in the model)
        for depth in ([12, 100] if quick else [12, 100, 399, 400, 401, 1000]):
            cases.append(case(env0, [e('%get(' * depth + 'k' + ')' * depth)]))
        return cases

    def search_gen(self, tier, rng):
        return self.gen('thorough' if tier == 'thorough' else 'quick', rng)

    def split(self, case, out):
        # A: result texts, NULL results, store contents and order - what the property constrains.
        # B: the number of heap blocks each expansion leaves allocated (L fields): the property is silent on leaks.
        import re
        return re.sub(r' L-?\d+', '', out), ' '.join(re.findall(r' L(-?\d+)', out))

    def nontrivial(self, case, mout):
        if mout.startswith('FAULT'):
            return False
        for op in case.split(' ')[4:]:
            if op.startswith('e:') and op != 'e:-':
                raw = b''.join(bytes.fromhex(q) for q in op[2:].split('+') if q and q != '-' and not q.startswith('*'))
                if any(c in raw for c in b'~\\$%\'"'):
                    return True
            elif op[0] in 'pd':
                return True
        return False


C10.MANIFEST['text'] = (
    'Rocq theorems about an executable Gallina model of spifconf_shell_expand, spifconf_get_var/put_var and the built-ins '
    '%get %put %version %appname (coq/Expand/ExpandModel.v; mirrors the code after the C10 repairs: every cell access is checked, '
    'newbuff/Command/EnvVar start out unwritten, j is a 32-bit unsigned). Proved for every NUL-free input shorter than CONFIG_BUFF, '
    'every environment (getenv as a function with NUL-free values < 4 GB), every well-formed store, unbounded nesting: '
    'C10_expand_no_overread (the reading part never faults on an exactly sized object: no read past the terminator, whatever the '
    'input ends in); C10_expand_cells_below_j_written and C10_expand_initialised (no fault at all on a CONFIG_BUFF object whose slack '
    'is arbitrary, hence no dependence on leftover memory; every cell below the final j written; result NUL-terminated and shorter '
    'than CONFIG_BUFF; store stays sorted and well-formed); C10_expand_spec (model = the recursive specification of the expansion '
    'rules in ExpandSpec.v, all constructs and nestings, whenever the expanded text and every nested argument expansion stay below '
    'CONFIG_BUFF - 2 characters; beyond that the code truncates and the specification is silent); C10_store_law and four store '
    'corollaries (all put/delete histories; sorted, one entry per name, get returns the last put unless deleted); '
    'C10_copy_is_safe_strncpy (the bounded copy is the C13 model). The proof goes through a list-level loop (ExpandList.v) that the '
    'buffer model refines for all inputs. spiftool_get_word/num_words are taken from the C12 model with its exactness theorems. '
    'The outside world of %exec and %dirscan is a pair of parameters (exec_out: command text -> not followed | refused | bytes written to the '
    'temporary file; dir_list: directory name -> not followed | cannot be opened | names of the regular files in readdir order) over which every theorem '
    'above quantifies, like getenv; the functions the application registered with spifconf_register_builtin are two more such parameters (the '
    '(name, code) list in registration order that follows the library\'s own entries in the table, any number of them, and the answer of each function '
    'to NULL or to the text of its argument): every theorem holds for every such table, in particular a % that starts no call of the whole table is dropped '
    'and the first matching entry is called; what the code does with the answers is modelled and covered by the same theorems: builtin_exec takes the bytes up to '
    'the first NUL through the C13 model of spiftool_condense_whitespace, builtin_dirscan runs its accumulation loop over a CONFIG_BUFF block. '
    'C10_dirscan_in_bounds: for EVERY listing (any number of names of any length) that loop - strcat of the name and of a blank while name, blank and '
    'terminator fit the room left (the repaired test; the unrepaired `len < n` wrote one byte past the block when names and blanks add up to exactly '
    'CONFIG_BUFF) - never faults and leaves a NUL-terminated, NUL-free text shorter than CONFIG_BUFF; C10_dirscan_lists_names: that text is the names of a '
    'subsequence of the listing, each followed by a blank, and the whole listing when it fits. The temporary-file handling and the assembly of the shell '
    'command inside builtin_exec are not modelled (answer "refused"). '
    'Not followed by the model (it stops with an event): %random and backquotes; heap leaks are not modelled (the '
    'harness counts blocks left allocated and compares with 3 per new store entry as a level-B observable). The C stack is not '
    'modelled: with newbuff a local array each nesting level kept a CONFIG_BUFF frame and about 400 nested calls overflowed an 8 MB '
    'stack (reported; repaired by the fix that moves newbuff to a MALLOC(CONFIG_BUFF) block per call, which the model - a fresh '
    'unwritten block - and tools/gen_c10.py accept in either shape; generated nesting stays below 12). Tied to the current tree by running the extracted model and the ASan/UBSan build (conf.c '
    '#included by the harness so the static store can be reset and put/delete/get called directly) on the same generated histories; '
    'each history runs three times, each time from a fresh cycle - heap dirtied with freed painted blocks of every table size, spifconf_init_subsystem, the '
    'case\'s functions and contexts registered with every malloc\'ed and realloc\'ed byte painted, spifconf_free_subsystem at the end -: stack, malloc blocks and input slack painted 0xA5, then 0x5A (transcripts must be identical), then '
    'with every non-growing input in an exactly sized heap block so ASan traps a one-byte over-read; system/popen/fork/execve are '
    'wrapped: with a world entry @o the intercepted system() writes the given bytes to the command\'s output file, without it a call is reported as an '
    'event; opendir, readdir, closedir and stat of conf.c are redirected to the listings of the case line.')

# The extracted model is a single-threaded list program whose cost grows with the square of the text length (20 s for one
# expansion near the 20 kB limit).  Case files are run on stripes in parallel; every case is independent, so the results are
# those of one sequential run.  Only this check's process is affected (same arrangement as checks/c01.py).
_seq_run_model = vlib.run_model


def _par_run_model(exe, cases_path, ncases, timeout=600):
    import subprocess
    jobs = min(max(1, (os.cpu_count() or 2) - 2), 12)
    if ncases < 400 or jobs < 2 or not os.path.basename(exe).startswith('c10_'):
        return _seq_run_model(exe, cases_path, ncases, timeout=timeout)
    with open(cases_path) as f:
        lines = f.readlines()
    procs = []
    for j in range(jobs):
        part = lines[j::jobs]       # striped: the expensive cases sit next to each other in the file
        if not part:
            break
        pp = '%s.part%d' % (cases_path, j)
        with open(pp, 'w') as f:
            f.writelines(part)
        of = open(pp + '.out', 'wb')
        procs.append((j, pp, subprocess.Popen([exe, pp], stdout=of, stderr=subprocess.PIPE,
                                               env=dict(os.environ, OCAMLRUNPARAM='l=512M'))))
        of.close()
    results = [None] * ncases
    rc_all, err_all = 0, ''
    for off, pp, pr in procs:
        try:
            _, er = pr.communicate(timeout=timeout)
        except subprocess.TimeoutExpired:
            pr.kill()
            _, er = pr.communicate()
            rc_all, err_all = -9, err_all + '[timeout]'
        rc_all = rc_all or pr.returncode
        err_all += er.decode(errors='replace')[-500:]
        with open(pp + '.out', 'rb') as f:
            o = f.read()
        os.unlink(pp + '.out')
        lines_out = o.decode(errors='replace').split('\n')
        for n, line in enumerate(lines_out):
            if line.startswith('#') and n + 1 < len(lines_out):      # a last line without its newline is a killed worker's fragment
                sp = line.find(' ')
                k = off + int(line[1:sp]) * jobs
                if k < ncases:
                    results[k] = line[sp + 1:]
        os.unlink(pp)
    return results, (rc_all, err_all)


vlib.run_model = _par_run_model

CHECK = C10()
