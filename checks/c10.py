"""C10: config value expansion is a pure function of line, environment and variable store (src/conf.c)."""
import os
import vlib

CONFIG_BUFF = 20480          # only used to aim the generator; the model takes the value from the source
MAXJ = CONFIG_BUFF - 1


def hx(bs):
    if isinstance(bs, str):
        bs = bs.encode('latin-1')
    return ''.join('%02x' % b for b in bs) or '-'


ORD = ['a', 'b', 'Z', ' ', '/', '.', '_', '1', '}', ')', '(', '{', '\xe9', '\t', '=', 'n', 'e']
QUOTES = ["'", '"']
ESCS = ['\\n', '\\t', '\\e', '\\E', '\\\\', "\\'", '\\"', '\\x', '\\r', '\\b', '\\f', '\\a', '\\v', '\\~', '\\$', '\\%']
NAMES = ['HOME', 'A', 'B_1', 'UNSET', 'EMPTY', 'x9', 'LONG']
KEYS = ['k', 'j', 'kk', 'a', 'K', 'm']
VALS = ['v', 'w1', 'x', '~', '$A', '%version()']


def env_ref(rng, name=None):
    n = name or rng.choice(NAMES)
    f = rng.randrange(8)
    if f < 3:
        return '$' + n
    if f < 5:
        return '${' + n + '}'
    if f < 7:
        return '$(' + n + ')'
    return rng.choice(['$', '${}', '$()', '$1', '${' + n + ')', '$(' + n + '}', '$ ' + n, '$' + n + '_'])


def call(rng, depth):
    f = rng.randrange(12)
    k = rng.choice(KEYS)
    if f < 3:
        arg = k if depth <= 0 or rng.random() < 0.6 else call(rng, depth - 1)
        if rng.random() < 0.3:
            arg += ' ' + (rng.choice(VALS) if depth <= 0 or rng.random() < 0.5 else call(rng, depth - 1))
        return '%get(' + arg + ')'
    if f < 6:
        v = rng.choice(VALS) if depth <= 0 or rng.random() < 0.6 else call(rng, depth - 1)
        q = rng.choice(['', '', '', "'", '"'])
        return '%put(' + k + ' ' + q + v + q + ')'
    if f < 7:
        return rng.choice(['%version()', '%VERSION()', '%Version( )', '%version(ignored (x) y)'])
    if f < 8:
        return rng.choice(['%appname()', '%APPNAME()', '%appname(%get(k))'])
    if f < 9:
        return rng.choice(['%x', '%%', '%(', '%get', '%get k', '%put', '%version', '%ge(', '%getx(', '% ', "%'", '%$A', '%\\n', '%~'])
    if f < 10:
        return rng.choice(['%put(k)', '%put(k a b)', '%get()', '%get( )', '%get(a b c)', '%put()', '%put(  k   v  )', '%get("k")',
                           "%put('k k' \"v v\")", "%get('k k')", '%put(k "")', '%get("")', '%put("" e)'])
    if f < 11:
        return '%get(' + k + ' ' + env_ref(rng) + ')'
    return rng.choice(['%version )', '%get )', '%version ) x)', '%put ) k v)'])


def token(rng, depth=2):
    f = rng.randrange(20)
    if f < 7:
        return rng.choice(ORD)
    if f < 9:
        return rng.choice(QUOTES)
    if f < 12:
        return rng.choice(ESCS)
    if f < 13:
        return '~'
    if f < 16:
        return env_ref(rng)
    return call(rng, depth)


ENDS = ['\\', '%', '$', '${', '$(', '${A', '$(A', '$A', '%get(', '%get(k', '%put(k v', '%version(', '%get(%get(k)', "'", '"', "'\\",
        "'%", "'$", '"\\', '"%', '"${', '~', "'~", '%version )', '%get', '%g', '\\\\', "'\\'", '%appname(', '%put(', '%%', '$$', '%get((']


def value(rng, ntok, end=None, depth=2):
    s = ''.join(token(rng, depth) for _ in range(ntok))
    if end is not None:
        s += end
    return s


def mkenv(rng, big=None):
    env = {}
    r = rng.random()
    if r < 0.7:
        env['HOME'] = rng.choice(['/home/u', '/h', '/', '/root/x y', 'h~$A%x'])
    elif r < 0.8:
        env['HOME'] = ''
    if rng.random() < 0.8:
        env['A'] = rng.choice(['va', 'A', '1 2', "q'q", 'p"p', '\\n', '$B_1', '%get(k)', '~'])
    if rng.random() < 0.6:
        env['B_1'] = rng.choice(['bee', 'x'])
    if rng.random() < 0.5:
        env['EMPTY'] = ''
    if rng.random() < 0.5:
        env['x9'] = 'nine'
    if rng.random() < 0.3:
        env['LONG'] = 'L' * rng.choice([127, 128, 200, 1000])
    if big is not None:
        env['BIG'] = 'B' * big
    if rng.random() < 0.1:
        env['A'] = 'has=eq'
        env['A=has'] = 'never'   # not a settable name; skipped below
    return {k: v for k, v in env.items() if '=' not in k}


def envstr(env):
    if not env:
        return '-'
    return ','.join('%s=%s' % (hx(k), hx(v)) for k, v in env.items())


def case(env, ops, pn='Eterm', pv='0.9.6'):
    return 'x %s %s %s %s' % (hx(pn), hx(pv), envstr(env), ' '.join(ops))


def e(s):
    return 'e:' + hx(s)


class C10(vlib.PropertyCheck):
    id = 'C10'
    family = 'c10'
    harness = 'c10.c'
    impl_kwargs = dict(exclude=('conf.c',),
                       ldflags=['-Wl,--wrap=system', '-Wl,--wrap=popen', '-Wl,--wrap=fork', '-Wl,--wrap=execve', '-Wl,--wrap=malloc',
                                '-Wl,--wrap=realloc', '-Wl,--wrap=strdup', '-Wl,--wrap=free'])
    case_timeout = 300
    nontrivial_rule = ('histories of 1-8 operations (expansions, direct put/delete/get on the store) from an empty store; value '
                       'strings are token sequences over ordinary characters, both quotes, backslash sequences, ~, the three $ forms '
                       '(set, unset, empty, over-long names), %get/%put/%version/%appname with nesting, malformed and unterminated '
                       'constructs at the end of the text; a stratum enumerates every 1-3 token string over a reduced token set; a '
                       'stratum places each ending within the last 300 bytes of the 20 kB limit; non-trivial = the model result is '
                       'not a fault and the history contains at least one construct other than ordinary characters; distinct = '
                       'distinct case lines')
    assumptions = ['the input sits in an object of CONFIG_BUFF bytes (what spifconf_parse_line and the recursive call provide) and is shorter than CONFIG_BUFF',
                   'getenv is an oracle: the harness builds the environment with clearenv/setenv from the case line; model side: first NAME=value entry with that prefix, as glibc',
                   'environment values, program name and version contain no NUL byte and are shorter than 4 GB (strlen - 1 is kept in 32 bits)',
                   'only the seven built-ins registered by spifconf_init_subsystem are present (table generated from the source)',
                   '%exec, %dirscan, %random and backquotes are outside this property (model stops with an event; C11 covers spawning)',
                   'spiftool_get_word / spiftool_num_words behave as their C12 model (Split/SplitModel.v)',
                   'nesting depth of %calls small enough for the C stack (the C stack is not modelled)',
                   '"C" locale character classes']
    MANIFEST = dict(
        technique='Rocq theorems about an executable Gallina model of spifconf_shell_expand, the variable store and the built-ins + extracted-model/implementation correspondence check with painted stack, heap and input slack',
        text='(filled in below)',
        design_ref='DESIGN.md section 7, C10')

    def build_impl(self):
        # scratch directory for the temporary files builtin_exec creates before it reaches the trapped system()
        tmpd = os.path.join(vlib.BUILD, 'work', 'c10', 'tmp')
        os.makedirs(tmpd, exist_ok=True)
        return vlib.build_impl(self.id.lower(), os.path.join(vlib.VERIF, 'harness', self.harness), **self.impl_kwargs)

    def extra_steps(self, ctx):
        tmpd = os.path.join(vlib.BUILD, 'work', 'c10', 'tmp')
        if os.path.isdir(tmpd):
            for f in os.listdir(tmpd):
                if f.startswith('Eterm-exec-'):
                    os.unlink(os.path.join(tmpd, f))
        return []

    # ------------------------------------------------------------------ generator
    def gen(self, tier, rng):
        cases = []
        quick = tier == 'quick'
        env0 = {'HOME': '/home/u', 'A': 'va', 'EMPTY': ''}
        # 1. every ending alone and after one ordinary character, in and out of quotes
        for end in ENDS:
            for pre in ['', 'a', "a'", 'a"', 'a ~ ']:
                cases.append(case(env0, [e(pre + end)]))
        # 2. bounded-exhaustive: all strings of 1..n tokens over a reduced token set
        small = ['a', "'", '"', '\\', '\\n', "\\'", '~', '$A', '${A}', '$(U)', '$', '%', '%get(k)', '%put(k v)', '%version()', '(', ')', '}', ' ']
        import itertools
        n = 2 if quick else 3
        for l in range(1, n + 1):
            for t in itertools.product(small, repeat=l):
                cases.append(case(env0, [e(''.join(t)), 'g:' + hx('k')]))
        # 3. random histories
        for _ in range(1000 if quick else 15000):
            env = mkenv(rng)
            ops = []
            for _ in range(rng.choice([1, 1, 2, 3, 5, 8])):
                r = rng.random()
                if r < 0.7:
                    end = rng.choice(ENDS) if rng.random() < 0.25 else None
                    ops.append(e(value(rng, rng.choice([1, 2, 3, 5, 8, 13, 30]), end)))
                elif r < 0.8:
                    ops.append('p:%s:%s' % (hx(rng.choice(KEYS)), hx(rng.choice(['v', 'w', 'x y', '']))))
                elif r < 0.87:
                    ops.append('d:' + hx(rng.choice(KEYS)))
                else:
                    ops.append('g:' + hx(rng.choice(KEYS)))
            cases.append(case(env, ops, rng.choice(['Eterm', 'libast', 'p' * 300, '']), rng.choice(['0.9.6', '', 'v' * 40])))
        # 4. store histories: many put/delete/get through both the built-ins and the direct calls
        for _ in range(250 if quick else 4000):
            ops = []
            for _ in range(rng.choice([4, 8, 16, 30])):
                k = rng.choice(KEYS + ['', 'k k', '\xff', 'ka'])
                r = rng.random()
                if r < 0.3:
                    q = "'" if ' ' in k or k == '' else ''
                    ops.append(e('%put(' + q + k + q + ' ' + rng.choice(['v', 'w', "'x y'", '""']) + ')'))
                elif r < 0.5:
                    q = "'" if ' ' in k or k == '' else ''
                    ops.append(e('[%get(' + q + k + q + rng.choice(['', ' dflt']) + ')]'))
                elif r < 0.7:
                    ops.append('p:%s:%s' % (hx(k), hx(rng.choice(['v', 'w', 'x y', '']))))
                elif r < 0.85:
                    ops.append('d:' + hx(k))
                else:
                    ops.append('g:' + hx(k))
            cases.append(case({}, ops))
        # 5. the last 300 bytes before the limit: j is carried there by one long value, then a tail
        for _ in range(40 if quick else 250):
            tail_tokens = rng.choice([1, 2, 4, 8, 20])
            end = rng.choice(ENDS + [None] * 10)
            tail = value(rng, tail_tokens, end, depth=1)
            big = MAXJ - rng.choice([0, 1, 2, 3, 4, 5, 8, 16, 40, 100, 299, 300]) - rng.choice([0, 0, len(tail)])
            big = max(1, big)
            how = rng.randrange(3) if rng.random() < 0.9 else 3
            if how == 3:
                # part of the text arrives through the store (kept short: the C12 word model is quadratic)
                mid = rng.choice([1, 7, 300, 1500])
                big = max(1, big - mid)
            env = mkenv(rng, big)
            if how == 0:
                text = '$BIG' + tail
            elif how == 1:
                text = '${BIG}' + tail
            elif how == 2:
                env['HOME'] = env.pop('BIG')
                text = '~' + tail
            else:
                env['MID'] = 'm' * mid
                text = '$BIG%put(k $MID)%get(k)' + tail
            cases.append(case(env, [e(text)]))
        # 6. long plain inputs (the line limit is CONFIG_BUFF - 2 characters after chomp)
        for _ in range(3 if quick else 25):
            n = rng.choice([CONFIG_BUFF - 2, CONFIG_BUFF - 3, CONFIG_BUFF - 1 - rng.randrange(300), rng.randrange(2000, 20000)])
            end = rng.choice(ENDS + [None] * 5)
            tail = value(rng, rng.choice([0, 1, 3, 10]), end, depth=1)
            fill = rng.choice(['x', 'x', "'", '\\n', '$A', '~'])
            body = (fill * (n // len(fill) + 1))[:max(0, n - len(tail))]
            cases.append(case(mkenv(rng), [e(body + tail)]))
        # 7. constructs outside the property's alphabet: the model stops with an event, the harness traps system()
        tmpd = os.path.join(vlib.BUILD, 'work', 'c10', 'tmp')
        envx = dict(env0, TMPDIR=tmpd)
        for t in ['a`ls`b', 'a`ls', '`', "'`ls`'", 'a%exec(ls)b', '%exec(', "'`", '"`x', '`%put(k v)`']:
            cases.append(case(envx, [e(t), 'g:' + hx('k')]))
        return cases

    def search_gen(self, tier, rng):
        return self.gen('thorough' if tier == 'thorough' else 'quick', rng)

    def split(self, case, out):
        # A: result texts, NULL results, store contents and order - what the property constrains.
        # B: the number of heap blocks each expansion leaves allocated (L fields): the property is silent on leaks.
        import re
        return re.sub(r' L-?\d+', '', out), ' '.join(re.findall(r' L(-?\d+)', out))

    def nontrivial(self, case, mout):
        if mout.startswith('FAULT'):
            return False
        for op in case.split(' ')[4:]:
            if op.startswith('e:') and op != 'e:-':
                raw = bytes.fromhex(op[2:])
                if any(c in raw for c in b'~\\$%\'"'):
                    return True
            elif op[0] in 'pd':
                return True
        return False


C10.MANIFEST['text'] = (
    'Rocq theorems about an executable Gallina model of spifconf_shell_expand, spifconf_get_var/put_var and the built-ins '
    '%get %put %version %appname (coq/Expand/ExpandModel.v; mirrors the code after the C10 repairs: every cell access is checked, '
    'newbuff/Command/EnvVar start out unwritten, j is a 32-bit unsigned). Proved for every NUL-free input shorter than CONFIG_BUFF, '
    'every environment (getenv as a function with NUL-free values < 4 GB), every well-formed store, unbounded nesting: '
    'C10_expand_no_overread (the reading part never faults on an exactly sized object: no read past the terminator, whatever the '
    'input ends in); C10_expand_cells_below_j_written and C10_expand_initialised (no fault at all on a CONFIG_BUFF object whose slack '
    'is arbitrary, hence no dependence on leftover memory; every cell below the final j written; result NUL-terminated and shorter '
    'than CONFIG_BUFF; store stays sorted and well-formed); C10_expand_spec (model = the recursive specification of the expansion '
    'rules in ExpandSpec.v, all constructs and nestings, whenever the expanded text and every nested argument expansion stay below '
    'CONFIG_BUFF - 2 characters; beyond that the code truncates and the specification is silent); C10_store_law and four store '
    'corollaries (all put/delete histories; sorted, one entry per name, get returns the last put unless deleted); '
    'C10_copy_is_safe_strncpy (the bounded copy is the C13 model). The proof goes through a list-level loop (ExpandList.v) that the '
    'buffer model refines for all inputs. spiftool_get_word/num_words are taken from the C12 model with its exactness theorems. '
    'Not followed by the model (it stops with an event): %exec, %dirscan, %random and backquotes; heap leaks are not modelled (the '
    'harness counts blocks left allocated and compares with 3 per new store entry as a level-B observable). The C stack is not '
    'modelled: with newbuff a local array each nesting level kept a CONFIG_BUFF frame and about 400 nested calls overflowed an 8 MB '
    'stack (reported; repaired by the fix that moves newbuff to a MALLOC(CONFIG_BUFF) block per call, which the model - a fresh '
    'unwritten block - and tools/gen_c10.py accept in either shape; generated nesting stays below 12). Tied to the current tree by running the extracted model and the ASan/UBSan build (conf.c '
    '#included by the harness so the static store can be reset and put/delete/get called directly) on the same generated histories; '
    'each history runs three times: stack, malloc blocks and input slack painted 0xA5, then 0x5A (transcripts must be identical), then '
    'with every non-growing input in an exactly sized heap block so ASan traps a one-byte over-read; system/popen/fork/execve are '
    'wrapped and a call is reported as an event.')

CHECK = C10()
