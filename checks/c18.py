"""C18: built-in hash functions are pure functions equal to their published definitions
(src/builtin_hashes.c, SPIFHASH_JENKINS_MIX in include/libast.h)."""
import re
import vlib
import bigsize


def hx(bs):
    return ''.join('%02x' % b for b in bs) or '-'


SEEDS = [0, 1, 0xffffffff, 0x80000000, 0xf721b64d, 0x811c9dc5, 0xdeadbeef]


def contents(kind, n, rng):
    if kind == 'rand':
        return [rng.randrange(256) for _ in range(n)]
    if kind == 'zero':
        return [0] * n
    if kind == 'ff':
        return [255] * n
    if kind == 'inc':
        return [(i + 1) & 255 for i in range(n)]
    if kind == 'hi':          # only the top bit of every byte: carries out of every lane
        return [128] * n
    if kind == 'onebit':      # a single non-zero byte: which lane a byte lands in
        l = [0] * n
        if n:
            l[rng.randrange(n)] = 1 << rng.randrange(8)
        return l
    if kind == 'text':
        return [rng.choice(b'abcdefghijklmnopqrstuvwxyz_0123456789') for _ in range(n)]
    raise ValueError(kind)


KINDS = ['rand', 'zero', 'ff', 'inc', 'hi', 'onebit', 'text']


class C18(vlib.PropertyCheck):
    id = 'C18'
    family = 'c18'
    harness = 'c18.c'
    nontrivial_rule = ('every case hashes a key with all six functions in two placements; lengths 0..64 and '
                       'every multiple of 12 +-1 beyond, all 8 start alignments, seeds incl. 0 and 2^32-1, random and '
                       'structured contents; a case counts when the model returns six values (no fault) - distinct = '
                       'distinct (alignment, seed, length, key) lines')
    assumptions = ['little-endian host with 8-bit bytes (spifhash_jenkinsLE is only compiled when !WORDS_BIGENDIAN; the model reads '
                   'a 32-bit word as the little-endian composition of four bytes)',
                   'spifhash_jenkins32 is called on 4-byte aligned word arrays (its documented domain)',
                   'key length below 2^32 and equal to the number of accessible bytes at the key pointer',
                   'lengths of 2^31-1 and more are tied on the implementation side only (implementation against the harness\'s C transcription '
                   'of the reference definitions, itself compared with the extracted reference on every small case); the extracted model is '
                   'not run there',
                   'gcc branch (__GNUC__) of spifhash_fnv; the other branch is the multiplication the theorem '
                   'fnv_shift_add_is_multiply equates it with']

    MANIFEST = dict(
        technique=('Rocq theorems relating an executable Gallina model of the six hash functions (interpreting tables regenerated '
                   'from the source on every run) to independent reference definitions + three-way value comparison '
                   'implementation / extracted model / extracted reference'),
        text=('The six functions of src/builtin_hashes.c are modelled as written (countdown block loop, fall-through tail switch, '
              'alignment dispatch, shift-add FNV step, explicit mod-2^32 arithmetic, checked key reads). The mix macro, seeds, shift '
              'amounts, block-loop tests/loads/advances and tail-switch entries are data regenerated from the source by '
              'tools/gen_constants.py and tools/gen_c18.py (the latter rebuilds each Jenkins function body from the extracted data and '
              'compares it with the source text). Proved for all keys, lengths < 2^32, seeds and key addresses: each model function '
              'equals its reference definition (lookup2 hash()/hash2() with libast\'s initial value 0xf721b64d in place of the golden '
              'ratio, rotating hash as a rotation, one-at-a-time, FNV-1a by multiplication with the 32-bit FNV prime), jenkinsLE equals '
              'jenkins at every address, the generated mix equals the published mix, the shift-add FNV step equals multiplication by the '
              'prime, every function returns Ok on a key buffer of exactly `length` cells and is independent of whatever follows '
              '(uninitialised cells included), zero seeds are replaced. The tie to the tree: implementation (ASan/UBSan build, keys at all '
              '8 alignments flush against a PROT_NONE page and in exact-size malloc blocks), extracted model and extracted reference '
              'are compared value for value; implementation /= reference is a failing input, implementation /= model alone is a '
              'broken correspondence.  Decided only by the comparison: that the compiled C code computes what the model computes '
              '(in particular the host being little-endian and the aligned word loads), and placement independence of the compiled code.  '
              'Length arguments of 2^31-1 up to 2^32-1 (jenkins32: up to 2^32-1 words) are run on the implementation only, over sparse '
              'mappings ending at a PROT_NONE page, against the harness\'s C transcription of the reference definitions (the same one every '
              'small case compares with); the extracted model is too slow there, the theorems cover those lengths.'),
        design_ref='DESIGN.md section 7, C18')

    def case(self, align, seed, length, key):
        return 'h %d %d %d %s' % (align, seed, length, hx(key))

    def lengths(self, tier):
        """(length, how many of the 8 alignments, cases per alignment)"""
        out = [(n, 8, 4 if tier == 'quick' else 8) for n in range(0, 65)]
        top = 22 if tier == 'quick' else 60
        for k in range(6, top):
            for n in (12 * k - 1, 12 * k, 12 * k + 1):
                out.append((n, 8, 2 if tier == 'quick' else 4))
        big = [255, 256, 257, 1023, 1024, 1025] + ([] if tier == 'quick' else [2047, 2048, 2049, 4095, 4096, 4097, 4103, 4104, 8000])
        for n in big:
            out.append((n, 2 if tier == 'quick' else 8, 1))
        return out

    def gen(self, tier, rng):
        cases = []
        # the empty key and one-byte keys, every seed, every alignment
        for align in range(8):
            for seed in SEEDS:
                cases.append(self.case(align, seed, 0, []))
                cases.append(self.case(align, seed, 1, [rng.randrange(256)]))
        for (n, nalign, per) in self.lengths(tier):
            aligns = list(range(8)) if nalign == 8 else rng.sample(range(8), nalign)
            for align in aligns:
                for j in range(per):
                    seed = SEEDS[j] if j < 2 else (rng.choice(SEEDS) if rng.random() < 0.3 else rng.randrange(1 << 32))
                    kind = 'rand' if j == 0 else rng.choice(KINDS)
                    extra = rng.choice([0, 0, 1, 3, 12]) if n < 200 else 0   # bytes after `length` that must not matter
                    key = contents(kind, n, rng) + contents('rand', extra, rng)
                    cases.append(self.case(align, seed, n, key))
        # which lane does each byte of the last block and of the tail land in: every single-byte key position
        for n in (11, 12, 23, 24, 35, 36):
            for pos in range(n):
                key = [0] * n
                key[pos] = 0x81
                cases.append(self.case(rng.randrange(8), 0, n, key))
        nrand = 2000 if tier == 'quick' else 25000
        for _ in range(nrand):
            n = rng.choice([rng.randrange(0, 64), rng.randrange(0, 100), rng.randrange(0, 300)])
            cases.append(self.case(rng.randrange(8), rng.choice(SEEDS) if rng.random() < 0.2 else rng.randrange(1 << 32),
                                   n, contents(rng.choice(KINDS), n, rng)))
        return cases

    def search_gen(self, tier, rng):
        cases = []
        for _ in range(4000):
            n = rng.choice([rng.randrange(0, 30), rng.randrange(0, 100), rng.randrange(0, 400)])
            cases.append(self.case(rng.randrange(8), rng.choice(SEEDS) if rng.random() < 0.3 else rng.randrange(1 << 32),
                                   n, contents(rng.choice(KINDS), n, rng)))
        return cases

    # ---- length arguments of 2^31-1 .. 2^32-1 (see checks/bigsize.py and the "big" case of harness/c18.c) ----
    def big_cases(self, tier):
        """`big <hashes> <len> <seed> <align> <cseed>`; one (hash, length) per line so that they run in parallel.
        The length parameter is a spif_uint32_t, so 2^32-1 is the largest length there is (2^32+5 would arrive as 5).
        Around 2^31: the last length a signed 32-bit counter holds, the first it does not, and every tail-switch
        position of the 12-byte block loop next to it (2^31 = 12*178956970 + 8: 2^31+4 has an empty tail, 2^31+3 a
        full one; +11/+12/+17 are the lengths at which `length - 12` crosses 2^31)."""
        B = 1 << 31
        bytewise = '01345'
        if tier == 'quick':
            plan = [(B + 17, bytewise, 0x811c9dc5, 5, 9), (B - 1, '03', 0, 2, 3), (B, '345', 12345, 0, 7)]
            plan32 = [((B >> 2) + 5, 1, 4, 5)]                          # 2^29+5 words = 2 GiB + 20 bytes
        else:
            plan = [(B - 1, bytewise, 0, 1, 3), (B, bytewise, 12345, 0, 7), (B + 3, '01', 1, 7, 4), (B + 4, '01', 0xffffffff, 6, 0),
                    (B + 11, bytewise, 5, 3, 7), (B + 12, bytewise, 0xdeadbeef, 4, 0), (B + 17, bytewise, 0x811c9dc5, 5, 9),
                    (3 * (B >> 1) + 7, bytewise, 0x80000000, 2, 11), ((1 << 32) - 13, '01', 7, 0, 2), ((1 << 32) - 1, bytewise, 0, 7, 13)]
            # the word-wise hash: its length counts words - 2^31 words are 8 GiB of key
            plan32 = [((B >> 2) + 5, 1, 4, 5), (B - 1, 0, 0, 6), (B, 12345, 4, 0), (B + 1, 0xf721b64d, 0, 8), ((1 << 32) - 1, 3, 4, 10)]
        cases = []
        for (n, hashes, seed, align, cseed) in plan:
            for h in hashes:
                cases.append('big %s %d %d %d %d' % (h, n, seed, align, cseed))
        for (n, seed, align, cseed) in plan32:
            cases.append('big 2 %d %d %d %d' % (n, seed, align, cseed))
        # longest first: the pool then finishes as early as it can
        cases.sort(key=lambda c: -(int(c.split()[2]) * (4 if c.split()[1] == '2' else 1)))
        return cases

    def extra_steps(self, ctx):
        return bigsize.big_pass(self, ctx, self.big_cases(ctx['tier']), lambda c: 'BIG:ok',
                                what=('spifhash_* with length arguments 2^31-1 .. 2^32-1 (jenkins32: up to 2^32-1 words = 16 GiB) over sparse '
                                      'mappings flush against a PROT_NONE page, compared with the C transcription of the reference definitions'))

    def split(self, case, out):
        # A: the reference values (model side) / implementation values (harness side), the placement and
        #    C-reference verdicts.  B: the model's values.
        m = re.match(r'(S:.*?) (M:.*?) (R:.*)$', out)
        if not m:
            return out, ''
        return m.group(1) + ' ' + m.group(3), m.group(2)

    def nontrivial(self, case, mout):
        return mout.startswith('S:') or mout.startswith('BIG:')


CHECK = C18()
