"""C16: NULL-argument calls fail soft (translator-based: the model is regenerated from the sources on every run).

tools/gen_c16.py writes coq/Gen/NullGuardTable.v and build/c16/table.json from the source tree; the theorems of
coq/Properties/C16.v are re-checked against that table; this module generates, from the same table, the C code that
calls every cell (function x guarded pointer parameter) with NULL in that position in a forked child at runtime
levels 0 and 1 (harness/c16.c), and compares with the prediction of the extracted model (driver/c16_main.ml)."""
import json, os, re, subprocess
os.environ['VERIF_C16_GEN'] = '1'      # tells tools/gen_c16.py that this run owns the table (see there)
import vlib

TABLE_JSON = os.path.join(vlib.BUILD, 'c16', 'table.json')
PENDING = os.path.join(vlib.VERIF, 'checks', 'c16_pending.json')
GENDIR = os.path.join(vlib.BUILD, 'c16', 'gen')
SIDE = os.path.join(vlib.BUILD, 'c16', 'inconclusive.txt')
os.environ['LV_C16_SIDE'] = SIDE

# ---------------------------------------------------------------------------------------------------------------
# pending / proposed findings are treated like entries of known_findings.json (the coordinator empties the file)
# ---------------------------------------------------------------------------------------------------------------
def pending_findings():
    try:
        with open(PENDING) as f:
            j = json.load(f)
    except (OSError, ValueError):
        return []
    out = []
    for key in ('pending', 'findings_proposed'):
        for ent in j.get(key, []):
            out.append(dict(property='C16', kind='finding', what=ent.get('what', ''), cells=ent.get('cells', []),
                            source=key, owner=ent.get('owner')))
    return out


_orig_load_known = vlib.load_known
def _load_known():
    return _orig_load_known() + pending_findings()
vlib.load_known = _load_known


def load_table():
    with open(TABLE_JSON) as f:
        return json.load(f)


# ---------------------------------------------------------------------------------------------------------------
# python mirror of GuardModel.guard_class (only used to choose how the generated C reports a value)
# ---------------------------------------------------------------------------------------------------------------
def guard_rv(byname, e, pname, depth=8):
    if depth == 0 or e.get('unparsed'):
        return None
    for it in e['prelude']:
        if it[0] == 'Guard' and pname in it[2]:
            return (it[3], it[4], e)
        if it[0] == 'CompNull' and pname in (it[1], it[2]):
            return ('RvCmp', '', e)
        if it[0] == 'Delegate':
            if pname in it[2]:
                cal = byname.get(it[1])
                k = it[2].index(pname)
                if cal is None or k >= len(cal['params']) or not cal['params'][k]['name']:
                    return None
                return guard_rv(byname, cal, cal['params'][k]['name'], depth - 1)
            return None
        if it[0] == 'Body':
            return None
    return None


# ---------------------------------------------------------------------------------------------------------------
# generation of the calling code
# ---------------------------------------------------------------------------------------------------------------
OBJ = {'obj': 'mk_obj()', 'str': 'mk_str()', 'ustr': 'mk_ustr()', 'mbuff': 'mk_mbuff()', 'objpair': 'mk_objpair()',
       'tok': 'mk_tok()', 'url': 'mk_url()', 'regexp': 'mk_regexp()', 'socket': 'mk_socket()',
       'array': 'mk_array()', 'linked_list': 'mk_llist()', 'dlinked_list': 'mk_dllist()',
       'list': 'mk_array()', 'vector': 'mk_array()', 'map': 'mk_array()',
       'array_iterator': 'mk_iter(mk_array())', 'linked_list_iterator': 'mk_iter(mk_llist())',
       'dlinked_list_iterator': 'mk_iter(mk_dllist())', 'iterator': 'mk_iter(mk_array())',
       'linked_list_item': 'mk_item(SPIF_CLASS_VAR(linked_list_item))',
       'dlinked_list_item': 'mk_item(SPIF_CLASS_VAR(dlinked_list_item))'}
INTS = {'int', 'long', 'size_t', 'spif_bool_t', 'spif_listidx_t', 'spif_memidx_t', 'spif_stridx_t', 'spif_ustridx_t',
        'spif_int32_t', 'spif_uint8_t', 'spif_uint16_t', 'spif_uint32_t', 'unsigned char', 'unsigned long', 'unsigned short',
        'unsigned int', 'short', 'spif_sockport_t', 'SPIF_TYPE(listidx)', 'SPIF_TYPE(bool)'}
CHARS = {'spif_char_t', 'char', 'SPIF_TYPE(char)', 'const char'}
STRS = {'spif_charptr_t', 'char *', 'const char *', 'spif_byteptr_t', 'unsigned char *', 'const unsigned char *', 'spif_classname_t'}
# probe-only cells that are not called: the body that runs after the (plain C) NULL test does real I/O
NO_PROBE = {'spif_socket_init_from_urls': 'would open a network connection',
            'spifconf_parse': 'reads and interprets configuration files from the file system',
            'spifconf_parse_line': 'drives the configuration parser state machine',
            'spifconf_find_file': 'walks the file system'}


def norm_type(t):
    t = re.sub(r'\b(register|const)\b', '', t)
    return re.sub(r'\s+', ' ', t).strip().replace(' *', ' *')


def c_type(t, local):
    """type text usable in the probe translation unit"""
    n = norm_type(t)
    if n in local or re.sub(r'^SPIF_TYPE\((\w+)\)$', r'spif_\1_t', n) in local:
        return 'void *'
    if n == 'fnptr':
        return 'void (*)(void)'
    return n


def value_for(t, name, local):
    n = norm_type(t)
    m = re.match(r'^(?:spif_(\w+)_t|SPIF_TYPE\((\w+)\))$', n)
    key = (m.group(1) or m.group(2)) if m else None
    ct = c_type(t, local)
    if key in OBJ:
        return '(%s) %s' % (ct, OBJ[key])
    if n in STRS:
        return '(%s) mk_cstr()' % ct
    if n == 'spif_charptr_t *' or n == 'char **':
        return '(%s) mk_strv()' % ct
    if n in ('void *', 'spif_ptr_t'):
        return '(%s) mk_mem()' % ct
    if n == 'FILE *':
        return 'mk_fp()'
    if n == 'spif_class_t':
        return 'SPIF_CLASS_VAR(str)'
    if n in ('ctx_handler_t', 'spifconf_func_ptr_t', 'fnptr'):
        return '(%s) lv_dummy_fn' % ct
    if n in INTS:
        return 'mk_fd()' if name == 'fd' else '(%s) 1' % ct
    if n in CHARS:
        return "(%s) 'a'" % ct
    if n in ('double', 'float'):
        return '1.0'
    return None


def gen_cells_inc(T, cells):
    """cells: list of (entry index, position, mode) with mode in FailSoft/Fallback/Handled/probe.
    returns (C text, skipped list)"""
    local = set(T.get('local_types', []))
    byname = {e['name']: e for e in T['entries']}
    pubvar = {}
    for t in T['tables']:
        if t['public']:
            pubvar[t['var']] = t['public'][-1][1]
    out = ['/* GENERATED by checks/c16.py from build/c16/table.json - do not edit */']
    # the class tables are published through these variables; not all of them are declared in the headers
    for t in T['tables']:
        for (ty, var) in t['public']:
            if not ty.startswith('static'):
                out.append('extern %s %s;' % (ty, var))
    out.append('static int cell_index(const char *name)\n{')
    for e in T['entries']:
        if e['reach'] != 'Helper':
            out.append('    if (!strcmp(name, "%s")) return %d;' % (e['name'], e['index']))
    out.append('    return -1;\n}\n')
    out.append('static const char *cell_name(int idx)\n{\n    switch (idx) {')
    skipped = []
    seen = set()
    for (idx, pos, mode) in cells:
        if idx not in seen:
            seen.add(idx)
            out.append('    case %d: return "%s";' % (idx, T['entries'][idx]['name']))
    out.append('    default: return "?";\n    }\n}\n')
    out.append('static int call_cell(int idx, int pos)\n{\n    switch (idx * 32 + pos) {')
    done = set()
    cells = list(cells) + [(idx, 31, 'valid') for (idx, pos, mode) in cells if mode == 'probe']
    for (idx, pos, mode) in cells:
        if (idx, pos) in done:
            continue
        e = T['entries'][idx]
        params = [p for p in e['params'] if p['type'] != '...']
        varargs = any(p['type'] == '...' for p in e['params'])
        why = None
        if e['reach'] == 'Slot' and not (e['slots'] and e['slots'][0]['table'] in pubvar):
            why = 'static function, class table not published'
        if mode == 'probe' and e['name'] in NO_PROBE:
            why = NO_PROBE[e['name']]
        vals = []
        for k, p in enumerate(params):
            if k == pos:
                vals.append('(%s) 0' % c_type(p['type'], local))
                continue
            v = value_for(p['type'], p['name'], local)
            if v is None:
                why = why or 'no constructor for parameter type %s' % p['type']
            vals.append(v)
        if why:
            if mode != 'valid':
                skipped.append(dict(function=e['name'], param=pos, reason=why))
            continue
        done.add((idx, pos))
        rett = c_type(e['ret'], local)
        sig = '%s (*)(%s)' % (rett, ', '.join([c_type(p['type'], local) for p in params] + (['...'] if varargs else [])) or 'void')
        if e['reach'] == 'Slot':
            s0 = e['slots'][0]
            fn = '((%s) lv_slot((void *) %s, %d))' % (sig, pubvar[s0['table']], s0['index'])
        else:
            fn = '((%s) %s)' % (sig, e['name'])
        L = ['    case %d: { /* %s, parameter %d (%s) NULL [%s] */' % (idx * 32 + pos, e['name'], pos, params[pos]['name'] if pos < len(params) else 'none', mode)]
        for k, p in enumerate(params):
            L.append('        %s a%d = %s;' % (c_type(p['type'], local), k, vals[k]))
        for k, p in enumerate(params):
            if p['ptr'] and k != pos and norm_type(p['type']) not in ('FILE *', 'spif_class_t', 'ctx_handler_t', 'spifconf_func_ptr_t', 'fnptr'):
                L.append('        snap_add((const void *) a%d);' % k)
        args = ', '.join('a%d' % k for k in range(len(params)))
        rc = e['ret_class']
        if rc == 'TVoid':
            L.append('        CALL_BEGIN(); %s(%s); CALL_END();' % (fn, args))
            res = '"VOID"'
        else:
            L.append('        %s r;' % rett)
            L.append('        CALL_BEGIN(); r = %s(%s); CALL_END();' % (fn, args))
            if rc == 'TBool':
                res = 'cls_bool((long) r)'
            elif rc == 'TCmp':
                res = 'cls_cmp((long) r)'
            elif rc == 'TFloat':
                res = 'cls_dbl((double) r)'
            elif rc == 'TInt':
                res = 'CLS_INT(r, %s)' % rett
            else:
                res = 'cls_ptr((const void *) r)' if norm_type(e['ret']) in STRS else 'cls_ptr_opaque((const void *) r)'
        if mode == 'Handled':
            res = '"HANDLED"'
        elif mode == 'Fallback':
            g = guard_rv(byname, e, params[pos]['name'])
            # the documented alternative: evaluate the guard's value expression on a second, fresh argument set
            if g and g[2] is e and g[0].startswith('RvCall:'):
                expr = g[1]
                for k, p in enumerate(params):
                    if p['name']:
                        expr = re.sub(r'\b%s\b' % re.escape(p['name']), 'b%d' % k, expr)
                for k, p in enumerate(params):
                    L.append('        %s b%d = %s;' % (c_type(p['type'], local), k, vals[k]))
                L.append('        put_res(((long) r == (long) (%s)) ? "CALL:%s" : %s);' % (expr, g[0][7:], res))
                L.append('        } return 1;')
                out.extend(L)
                continue
        L.append('        put_res(%s);' % res)
        L.append('        } return 1;')
        out.extend(L)
    out.append('    default: return 0;\n    }\n}')
    return '\n'.join(out) + '\n', skipped


# ---------------------------------------------------------------------------------------------------------------
ALLOWED = {'TVoid': {'VOID'}, 'TBool': {'FALSE'}, 'TPtr': {'NULL', 'NULLSTR'}, 'TInt': {'-1', '0'}, 'TFloat': {'NAN'}}


class C16(vlib.PropertyCheck):
    id = 'C16'
    env_passes = False     # the runtime debug level is part of this property's cases
    family = 'c16'
    harness = 'c16.c'
    case_timeout = 300
    nontrivial_rule = ('one case per table cell (function x pointer parameter named by a guard, or reached through a delegation, '
                       'or the object argument of a class-table method) and runtime level; the enumeration is exhaustive over '
                       'the regenerated table; a case is non-trivial when the model predicts a guard firing (RET or FATAL); '
                       'distinct = distinct (function, parameter, level)')
    assumptions = ['DEBUG >= 1 build as configured (config.h); runtime level set through libast_debug_level',
                   'every other argument is a valid object built by the type -> constructor map of checks/c16.py',
                   'the prelude model covers the statements up to the first one that is neither a guard nor a declaration; '
                   'what a function does after its guards is outside this property']
    MANIFEST = dict(
        engine='rocq-translated',
        technique='Rocq theorems over a table TRANSLATED from the sources on every run (tools/gen_c16.py) + generated fork probe of every table cell',
        text=('The NULL-guard table (every function of the 15 anchored .c files: return class, pointer parameters, class-table slots, '
              'prelude as Deref/Use/Call_alloc/Guard/CompNull/Delegate/Body) and the meaning of ASSERT_RVAL/REQUIRE_RVAL/ASSERT/REQUIRE/'
              'SPIF_OBJ_COMP_CHECK_NULL (from their active definitions) are regenerated from the tree on every run. Proved in full: '
              'C16_checker_sound (for ANY table, ANY macro translation and EVERY runtime level l : nat the boolean cell checker implies: '
              'level 0 returns the failure value of the return type with no allocation/dereference/use before it; every level does that '
              'or takes the fatal path; never a NULL dereference, never carrying on), lifted by forallb_forall over the finite table '
              '(vm_compute, table size stated) to C16_null_fail_soft, C16_null_alternative_safe (guards that hand back a call / plain-if '
              'NULL handling: no crash, no carrying on), C16_slots_guard_self (every class-table method guards its object argument or '
              'delegates it unchanged to one that does; with guards_sound this gives no-crash at every level), C16_source_shape (every anchor, '
              'class table and function was read; nothing Unparsed). Cells listed in checks/c16_pending.json / known_findings.json are '
              'excluded in the statements (`exempt`). Decided by the probe only (no theorem): the no-effect clause beyond the prelude '
              '(byte comparison of argument heap blocks), actual return values, the fatal path\'s exit status and diagnostic, malloc counts, '
              'and the probe-only strata (parameters a sibling implementation of the same interface slot guards; parameters a function '
              'tests for NULL in plain C). What the functions do after their guards is not part of C16.'),
        design_ref='DESIGN.md section 4.2, section 7 C16')

    def __init__(self):
        self._table = None
        self._cells = None
        self.skipped = []
        self.stale_model = None

    # -- table and cells --------------------------------------------------------------------------------------
    def table(self):
        if self._table is None:
            self._table = load_table()
        return self._table

    def entry(self, name):
        try:
            for e in self.table()['entries']:
                if e['name'] == name:
                    return e
        except (OSError, ValueError):
            pass
        return None

    def model_lines(self, lines):
        exe = os.path.join(vlib.BUILD, 'c16_model')
        if not os.path.exists(exe):
            return None
        d = os.path.join(vlib.BUILD, 'work', 'c16')
        os.makedirs(d, exist_ok=True)
        p = os.path.join(d, 'meta.txt')
        with open(p, 'w') as f:
            f.write('\n'.join(lines) + '\n')
        outs, _ = vlib.run_model(exe, p, len(lines))
        return outs

    def cells(self):
        """list of dict(idx, name, pos, cls, ok, mode) - from the extracted model when it exists, else from the JSON"""
        if self._cells is not None:
            return self._cells
        T = self.table()
        idx = {e['name']: e['index'] for e in T['entries']}
        byname = {e['name']: e for e in T['entries']}
        cells = []
        outs = self.model_lines(['listcells', 'listslots', 'listmeta'])
        if outs and outs[2] and ('digest=%s ' % T.get('digest')) not in outs[2]:
            # the executable model was extracted from another table than build/c16/table.json (a concurrent build of
            # the shared tree): extract again
            vlib.build_model(self.family)
            outs = self.model_lines(['listcells', 'listslots', 'listmeta'])
            if outs and outs[2] and ('digest=%s ' % T.get('digest')) not in outs[2]:
                self.stale_model = outs[2]
        have = set()
        if outs and outs[0] is not None and not outs[0].startswith('DRIVER-ERROR'):
            for item in [x for x in outs[0].split(';') if x]:
                f, p, cls, ok = item.split(':')
                if f in idx:
                    cells.append(dict(idx=idx[f], name=f, pos=int(p), cls=cls, ok=(ok == '1'), mode=cls))
                    have.add((f, int(p)))
            for item in [x for x in (outs[1] or '').split(';') if x]:
                f, p = item.split(':')
                if (f, int(p)) not in have and f in idx:
                    # a class-table method without any guard for its object argument: strongest claim
                    cells.append(dict(idx=idx[f], name=f, pos=int(p), cls='FailSoft', ok=False, mode='FailSoft', slot_only=True))
                    have.add((f, int(p)))
        else:
            for e in T['entries']:
                if e['reach'] == 'Helper' or e['unparsed']:
                    continue
                for k, p in enumerate(e['params']):
                    if p['ptr'] and p['name'] and (p['name'] in e['guarded'] or guard_rv(byname, e, p['name'])):
                        g = guard_rv(byname, e, p['name'])
                        cls = 'FailSoft' if not g else ('Fallback' if g[0].startswith('RvCall') else ('Handled' if g[0] == 'RvHandled' else 'FailSoft'))
                        cells.append(dict(idx=e['index'], name=e['name'], pos=k, cls=cls, ok=None, mode=cls))
                        have.add((e['name'], k))
        # probe-only strata
        for sb in T.get('sibling', []):
            if (sb['function'], sb['index']) not in have and sb['function'] in idx:
                cells.append(dict(idx=idx[sb['function']], name=sb['function'], pos=sb['index'], cls='probe', ok=None, mode='probe', why='sibling'))
                have.add((sb['function'], sb['index']))
        for e in T['entries']:
            for pn in e.get('null_aware', []):
                k = [i for i, p in enumerate(e['params']) if p['name'] == pn][0]
                if (e['name'], k) not in have:
                    cells.append(dict(idx=e['index'], name=e['name'], pos=k, cls='probe', ok=None, mode='probe', why='plain NULL test'))
                    have.add((e['name'], k))
        self._cells = cells
        return cells

    # -- implementation -----------------------------------------------------------------------------------------
    def build_impl(self):
        try:
            T = self.table()
        except (OSError, ValueError) as ex:
            return None, 'build/c16/table.json missing or unreadable (tools/gen_c16.py): %s' % ex
        os.makedirs(GENDIR, exist_ok=True)
        open(SIDE, 'w').close()
        text, self.skipped = gen_cells_inc(T, [(c['idx'], c['pos'], c['mode']) for c in self.cells()])
        with open(os.path.join(GENDIR, 'c16_cells.inc'), 'w') as f:
            f.write(text)
        return vlib.build_impl('c16', os.path.join(vlib.VERIF, 'harness', self.harness), cflags=['-I' + GENDIR])

    # -- cases -----------------------------------------------------------------------------------------------------
    def gen(self, tier, rng):
        levels = [0, 1] if tier == 'quick' else [0, 1, 2, 3, 9]
        skip = {(s['function'], s['param']) for s in self.skipped}
        cases = []
        for c in self.cells():
            if (c['name'], c['pos']) in skip:
                continue
            for l in levels:
                if c['mode'] == 'probe':
                    cases.append('probe %s %d %d' % (c['name'], c['pos'], l))
                else:
                    cases.append('cell %s %d %d %s' % (c['name'], c['pos'], l, c['cls']))
        return cases

    def search_gen(self, tier, rng):
        return self.gen('thorough', rng)

    def split(self, case, out):
        a, _, b = out.partition('|')
        return a.strip(), b.strip()

    def is_fault(self, out):
        return out is not None and out.startswith('FAULT')

    def nontrivial(self, case, mout):
        return mout.startswith('RET') or mout.startswith('FATAL') or mout == 'NOFAULT'

    def oracle(self, case, iout):
        """the property's own reading of the implementation's output, independent of the model"""
        t = case.split()
        if t[0] == 'probe':
            return None if iout in ('NOFAULT', 'GONE') else 'call with NULL for a parameter the function tests for NULL (or a sibling guards) did not come back: %s' % iout
        if t[0] != 'cell':
            return None
        if iout == 'GONE' or len(t) < 5:
            return None
        pos, level, cls = int(t[2]), int(t[3]), t[4]
        e = self.entry(t[1])
        if e is None:
            return None
        a = iout.partition('|')[0].split()
        if not a or a[0] not in ('RET', 'FATAL'):
            return 'neither a return nor the fatal path: %s' % iout
        if cls != 'FailSoft':
            return None
        if a[0] == 'FATAL':
            if level == 0:
                return 'fatal path at runtime level 0'
            if 'alloc=0' not in a or 'chg=0' not in a:
                return 'allocation or change of another argument before the fatal path: %s' % iout
            return None
        v = a[1]
        selfpos = [k for k, p in enumerate(e['params']) if p['name'] == 'self' and p['ptr']]
        first = (pos == selfpos[0]) if selfpos else (pos == 0)
        ok = ALLOWED.get(e['ret_class'], set())
        if e['ret_class'] == 'TCmp':
            ok = {'LESS'} if first else {'GREATER'}
        if v not in ok:
            return 'returned %s, which is not the failure value of a %s function' % (v, e['ret_class'])
        if 'alloc=0' not in a:
            return 'allocated before returning the failure value'
        if 'chg=0' not in a:
            return 'changed another argument before returning the failure value'
        return None

    def known_match(self, finding, case, mout, iout):
        t = case.split()
        if 'cells' in finding and len(t) >= 3:
            e = self.entry(t[1])
            if e is None:
                return False
            pn = e['params'][int(t[2])]['name'] if int(t[2]) < len(e['params']) else None
            return any(c[0] == t[1] and c[1] == pn for c in finding['cells'])
        return vlib.PropertyCheck.known_match(self, finding, case, mout, iout)

    # -- evidence ------------------------------------------------------------------------------------------------
    def extra_steps(self, ctx):
        cov = ctx['cov']
        try:
            T = self.table()
        except (OSError, ValueError):
            return [('B', 'table', 'build/c16/table.json missing')]
        cells = self.cells()
        extra = []
        if self.stale_model:
            extra.append(('B', 'listmeta', 'extracted model does not belong to the current table (%s vs %s)' % (self.stale_model[:40], T.get('digest'))))
        skip = {(s['function'], s['param']) for s in self.skipped}
        thm = [c for c in cells if c['mode'] != 'probe']
        po = [c for c in cells if c['mode'] == 'probe']
        cov['table'] = dict(
            functions=len(T['entries']),
            exported=sum(1 for e in T['entries'] if e['reach'] == 'Exported'),
            class_table_statics=sum(1 for e in T['entries'] if e['reach'] == 'Slot'),
            static_helpers=sum(1 for e in T['entries'] if e['reach'] == 'Helper'),
            class_tables=len(T['tables']),
            unparsed=[dict(function=e['name'], reason=e['unparsed']) for e in T['entries'] if e['unparsed']],
            unparsed_headers=T['unparsed_headers'], translator_errors=T['errors'],
            cells=len(thm), cells_by_class={k: sum(1 for c in thm if c['cls'] == k) for k in ('FailSoft', 'Fallback', 'Handled')},
            cells_failing_checker=['%s:%d' % (c['name'], c['pos']) for c in thm if c['ok'] is False],
            probe_only_cells=len(po),
            probed=sum(1 for c in cells if (c['name'], c['pos']) not in skip), skipped=self.skipped,
            exempt=T['exempt'], macro_semantics=T['sem'])
        # listed, not claimed: pointer parameters without any guard
        byname = {e['name']: e for e in T['entries']}
        ung_self, ung_other = [], 0
        for e in T['entries']:
            if e['reach'] == 'Helper':
                continue
            for p in e['params']:
                if p['ptr'] and p['name'] and p['name'] not in e['guarded'] and not guard_rv(byname, e, p['name']):
                    if p['name'] == 'self':
                        ung_self.append(e['name'])
                    else:
                        ung_other += 1
        cov['unguarded_object_argument'] = dict(
            note='functions whose object argument has no guard at all; class-table methods among them fail C16_slots_guard_self, the others '
                 '(property accessors generated by SPIF_DEFINE_PROPERTY_FUNC*) are not documented to guard and are only listed',
            functions=ung_self, other_unguarded_pointer_parameters=ung_other)
        cov['sibling_differences'] = T.get('sibling', [])
        try:
            with open(SIDE) as f:
                inc = sorted(set(' '.join(l.split()[1:3] + l.split()[4:]) for l in f if l.strip()))
        except OSError:
            inc = []
        cov['probe_only_inconclusive'] = dict(
            note='probe-only cells (no theorem) where the call faults with NULL but ALSO faults with a valid object in that position: '
                 'not attributable to the NULL argument, not counted as a violation of C16',
            cells=inc)
        # exemptions that are no longer needed
        stale = []
        for x in T['exempt']:
            c = [c for c in thm if c['name'] == x['function'] and c['pos'] == x['param']]
            if c and all(cc['ok'] for cc in c):
                stale.append('%s:%d' % (x['function'], x['param']))
        cov['stale_exemptions'] = stale
        for s in stale:
            print('NOTE: C16 exemption %s is no longer needed (the cell passes the checker); remove it from checks/c16_pending.json' % s)
        return extra


CHECK = C16()
