"""C09: the config parser delivers every line once, in order, to the innermost open context (src/conf.c)."""
import re
import vlib
import conflib as L


class C09(vlib.PropertyCheck):
    id = 'C09'
    family = 'c09'
    harness = 'c09.c'
    case_timeout = 300
    impl_kwargs = L.IMPL_KW
    nontrivial_rule = ('generated config texts over the line grammar (comment | begin NAME | end | %include F | text, plus the '
                       'odd spellings the classifier distinguishes), nested 0-255 deep with emphasis on every capacity doubling, '
                       'include trees of 1-4 files, contexts registered at random (with "null" re-registration and duplicates); '
                       'a case is non-trivial when the model does not fault and at least one registered handler was called; '
                       'distinct = distinct case lines')
    assumptions = ['handlers do not touch the parser\'s own state (they are functions of their arguments and of their own world)',
                   'value expansion is a parameter of the model; the generated lines contain no $ ~ \\ ` and quotes only where '
                   'no expansion takes place, so the harness sees the identity (a leading % is dropped, %put(k v) stores a variable)',
                   'spiftool_get_word / spiftool_get_pword return what property C12 says (hypotheses of the theorems until '
                   'LV.Split.SplitProofs provides them)',
                   'nesting of contexts and of included files at most 255 deep, no include cycles; "C" locale',
                   'spifconf_parse is entered with the file stack empty (fstate_idx = 0), as after spifconf_init_subsystem']

    MANIFEST = dict(
        technique='Rocq theorems about an executable Gallina model of spifconf_parse and the table/stack functions + extracted-model/implementation correspondence check',
        text='',
        design_ref='DESIGN.md section 7, C09')

    def gen(self, tier, rng):
        quick = tier == 'quick'
        cases = []
        cases += L.gen_depth_sweep(rng, [0, 1, 9, 10, 11, 19, 20, 21, 39, 40, 41, 79, 80, 81, 159, 160, 161, 254, 255] if quick else L.DEPTHS)
        cases += L.gen_include_depth(rng, [1, 2, 4, 9, 10, 11, 19, 20, 21, 39, 40, 41] if quick else [1, 2, 3, 4, 8, 9, 10, 11, 12, 19, 20, 21, 22, 39, 40, 41, 42, 50])
        cases += L.gen_tables(rng, [1, 18, 19, 20, 21, 39, 40, 159, 160, 161, 255] if quick else [0, 1, 2, 18, 19, 20, 21, 38, 39, 40, 41, 78, 79, 80, 81, 158, 159, 160, 161, 200, 247, 248, 254, 255])
        cases += L.gen_open(rng, long_version=False)
        cases += L.gen_structured(rng, 500 if quick else 8000)
        cases += L.gen_structured(rng, 40 if quick else 600, long_lines=True)
        return cases

    def build_impl(self):
        return L.build_impl_consistent(self)

    def search_gen(self, tier, rng):
        return L.gen_depth_sweep(rng, L.DEPTHS) + L.gen_tables(rng, [19, 20, 159, 160, 161, 255]) + L.gen_structured(rng, 300)

    # level A: handler traces, return values, stack indices, open files, ids; level B: capacities and raw counters
    def split(self, case, out):
        toks = out.split(' ')
        a = [t for t in toks if not t.startswith('d=')]
        b = [t for t in toks if t.startswith('d=')]
        return ' '.join(a), ' '.join(b)

    def nontrivial(self, case, mout):
        return (not mout.startswith('FAULT')) and bool(re.search(r'p\[\d', mout))


CHECK = C09()
MANIFEST = C09.MANIFEST
