"""C09: the config parser delivers every line once, in order, to the innermost open context (src/conf.c).

The model (coq/Conf/ConfModel.v) follows the code after these repairs (fix: commits of the scratch copy):
  * table capacities ctx_cnt / ctx_state_cnt / fstate_cnt / builtin_cnt were unsigned char: 160 * 2 wrapped to 64 and the
    next store ran past the shrunken block (160 nested begin lines, the 160th context, built-in, nested %include)
  * spifconf_register_context("null", h) after other registrations stored at context[ctx_idx] instead of context[0]
  * a line consisting of '%' passed NULL to strncasecmp
  * the last line of a file without a newline was reported over-long and dropped
  * spifconf_open_file on an empty file used its uninitialised first-line buffer
  * growing the built-in table lost the NULL-name terminator spifconf_shell_expand scans for
  * (C11) spifconf_free_subsystem left spifconf_vars dangling; every %include leaked its path; %preproc leaked the output
    file name when the temporary file could not be opened
"""
import re
import vlib
import conflib as L


class C09(vlib.PropertyCheck):
    id = 'C09'
    family = 'c09'
    harness = 'c09.c'
    case_timeout = 300
    impl_kwargs = L.IMPL_KW
    nontrivial_rule = ('generated config texts over the line grammar (comment | begin NAME | end | %include F | text, plus the '
                       'odd spellings the classifier distinguishes), nested 0-255 deep with emphasis on every capacity doubling, '
                       'include trees of 1-4 files, contexts registered at random (with "null" re-registration and duplicates); contexts AND application '
                       'functions registered 0-5, 9-11, 19-21, 39-41 (thorough: every doubling of both tables up to 240) strong, in either order and interleaved, '
                       'before files that open blocks of the first, middle and last registered context and of names just outside the registered range '
                       '(a name of an earlier cycle among them) and hold %-lines with a % that starts no call, unknown calls and calls to the registered '
                       'functions, then a second and third init/register/use/free cycle with other numbers; the heap is dirtied before every init and '
                       'every realloc\'ed byte is painted; '
                       'a case is non-trivial when the model does not fault and at least one registered handler was called; '
                       'distinct = distinct case lines')
    assumptions = ['handlers do not touch the parser\'s own state (they are functions of their arguments and of their own world)',
                   'value expansion is a parameter of the model; the generated lines contain no $ ~ \\ ` and quotes only where '
                   'no expansion takes place, so the harness sees the identity (a leading % is dropped, %put(k v) stores a variable)',
                   'spiftool_get_word / spiftool_get_pword are the models of property C12; their theorems (LV.Split.SplitProofs, '
                   'SplitFrame: totality, frame, exactness) are used, not assumed',
                   'nesting of contexts and of included files at most 255 deep, no include cycles; "C" locale',
                   'spifconf_parse is entered with the file stack empty (fstate_idx = 0), as after spifconf_init_subsystem']

    MANIFEST = dict(
        technique='Rocq theorems about an executable Gallina model of spifconf_parse and the table/stack functions + extracted-model/implementation correspondence check',
        text=('Rocq 8.16.1 theorems, all closed under the global context, about a Gallina model of spifconf_parse / '
              'spifconf_parse_line / spifconf_open_file, the ctx_*/file_* stack macros and the four register_* functions '
              '(tables with the index and capacity widths read from src/conf.c by tools/gen_c11.py, byte-level fgets with the '
              'end-of-file flag, the cell-level 20480-byte line buffer with the C13 model of chomp and the C12 models of '
              'get_word/get_pword, the two nested reading loops). C09_conf_trace: from spifconf_init_subsystem through any (<= 255) '
              'registrations, for every tree of well-formed config files, every handler oracle (handlers with their own world) and '
              'every expansion function, the model returns exactly what the specification (Conf/ConfSpec.v: a walk over line lists '
              'with a stack of (context, state)) defines - the trace of handler calls (context, Begin | End | text, state in, state '
              'out), the return value, the context stack, the variable store - with the file stack empty and every file closed, '
              'whenever nesting stays within 255 (TooDeep) and no %preproc occurs (OutOfGrammar); NoFuel on one side is Out_of_fuel '
              'on the other. C09_conf_trace_any_state: the same from every related state, the relation is kept (sequences of parses, '
              'blocks left open). C09_register_context: registration is the specification\'s ("null" replaces entry 0). '
              'C09_conf_stacks_restored: fstate_idx and the open-file count are back at their entry values and ctx_state_idx = entry '
              'value + Begin calls - End calls of the trace (so restored for balanced input). C09_conf_index_below_capacity / '
              'C09_push_in_bounds: the index is below the capacity before every store, across every doubling, for any number of '
              'pushes. Hypotheses of the theorems: the expansion yields a C string that fits the line buffer and does not make a '
              '%include line vanish (property C10); spiftool_get_word / get_pword are used through LV.Split.SplitProofs and '
              'SplitFrame (property C12, proved there). The model is tied to the current tree by running its extracted OCaml form and '
              'the ASan/UBSan build of the sources (harness/c09.c #includes src/conf.c so the static indices and capacities are read '
              'directly) on the same generated histories: nesting 0-255 with every capacity boundary, %include chains up to 255 deep, '
              'include trees of 1-4 files, random registrations with "null" re-registration, every odd spelling the classifier '
              'distinguishes, lines around the 20480-byte limit, missing final newline; handler traces, return values, stack '
              'indices and open descriptors are level A, raw counters and capacities level B.'),
        design_ref='DESIGN.md section 7, C09')

    def gen(self, tier, rng):
        quick = tier == 'quick'
        cases = []
        cases += L.gen_depth_sweep(rng, [0, 1, 9, 10, 11, 19, 20, 21, 39, 40, 41, 79, 80, 81, 159, 160, 161, 254, 255] if quick else L.DEPTHS)
        cases += L.gen_include_depth(rng, [1, 2, 4, 9, 10, 11, 19, 20, 21, 39, 40, 41] if quick else [1, 2, 3, 4, 8, 9, 10, 11, 12, 19, 20, 21, 22, 39, 40, 41, 42, 50])
        cases += L.gen_chain([9, 10, 11, 19, 20, 21, 39, 40, 41, 79, 80, 81, 159, 160, 161, 254, 255] if quick else [1, 2, 8, 9, 10, 11, 12, 19, 20, 21, 22, 39, 40, 41, 42, 79, 80, 81, 82, 159, 160, 161, 162, 200, 253, 254, 255])
        cases += L.gen_tables(rng, [1, 18, 19, 20, 21, 39, 40, 159, 160, 161, 255] if quick else [0, 1, 2, 18, 19, 20, 21, 38, 39, 40, 41, 78, 79, 80, 81, 158, 159, 160, 161, 200, 247, 248, 254, 255])
        cases += L.gen_open(rng, long_version=False)
        cases += L.gen_keyword_edges()
        cases += L.gen_registered(rng, L.REG_COUNTS_QUICK if quick else sorted(set(L.REG_COUNTS_QUICK + L.REG_COUNTS_MORE)))
        cases += L.gen_structured(rng, 500 if quick else 8000)
        cases += L.gen_structured(rng, 40 if quick else 600, long_lines=True)
        return cases

    def build_impl(self):
        return L.build_impl_consistent(self)

    def extra_steps(self, ctx):
        rng = ctx['rng']
        cases = (L.gen_depth_sweep(rng, [19, 20, 21, 159, 160, 161, 254, 255]) + L.gen_chain([10, 20, 40, 80, 160, 255]) +
                 L.gen_tables(rng, [20, 160, 255]) + L.gen_registered(rng, [3, 4, 13, 20, 40], cycles=2)[:5])
        return L.impl_faults(self, ctx, cases)

    def search_gen(self, tier, rng):
        return L.gen_depth_sweep(rng, L.DEPTHS) + L.gen_tables(rng, [19, 20, 159, 160, 161, 255]) + L.gen_structured(rng, 300)

    # level A: handler traces, return values, stack indices, open files, ids; level B: capacities and raw counters
    def split(self, case, out):
        toks = out.split(' ')
        a = [t for t in toks if not t.startswith('d=')]
        b = [t for t in toks if t.startswith('d=')]
        return ' '.join(a), ' '.join(b)

    def nontrivial(self, case, mout):
        return (not mout.startswith('FAULT')) and bool(re.search(r'p\[\d', mout))


CHECK = C09()
MANIFEST = C09.MANIFEST
