"""C12: split, tok and the word utilities implement one quoting grammar (src/strings.c, src/tok.c)."""
import itertools, os
import vlib

def hx(bs):
    return ''.join('%02x' % b for b in bs) or '-'

ALPHA = [0x61, 0x62, 0x20, 0x09, 0x27, 0x22, 0x5c, 0x3a]      # a b space tab ' " \ :
DSETS = ['N', '3a', '203a', '6162']                            # default, ":", " :", "ab"
EXTRA = [0x80, 0xff, 0x0a, 0x0b, 0x0c, 0x0d, 0x41, 0x01]

def strings_of(n, alpha):
    for t in itertools.product(alpha, repeat=n):
        yield t

def split_words(out):
    """words output: 'N n ; e0 ; e1 ; ... ; e(n+1)' -> (A, B): indices 1..n are constrained, 0 and n+1 are open"""
    parts = out.split(' ; ')
    if len(parts) < 3:
        return out, ''
    return ' ; '.join([parts[0]] + parts[2:-1]), ' ; '.join([parts[1], parts[-1]])

class C12(vlib.PropertyCheck):
    id = 'C12'
    family = 'c12'
    harness = 'c12.c'
    case_timeout = 900
    nontrivial_rule = ('a case is non-trivial when the model result is not a fault/NULL and contains at least one token '
                       '(T n with n >= 1), one word (N n with n >= 1) or a joined string; the bounded stratum enumerates '
                       'every string over {a, b, space, tab, \', ", \\, :} up to the tier length, each put through split and '
                       'tok with the delimiter sets {NULL, ":", " :", "ab"} and through num_words / get_word / get_pword '
                       'for every index 0..n+1; distinct = distinct case lines')
    assumptions = ['inputs are valid C strings in exactly sized heap blocks (the harness allocates them so)',
                   'object sizes below 2^31 (counters are modelled as unbounded integers)',
                   '"C" locale isspace; the delimiter set is a valid C string or NULL',
                   'tok uses its default quote, dquote and escape characters',
                   'spif_str_trim strips all leading and trailing whitespace (the C01 repair of str.c)']

    MANIFEST = dict(
        technique='Rocq theorems about an executable Gallina model of the scanners + extracted-model/implementation correspondence check',
        text=('Rocq theorems (all Qed, closed under the global context) about Gallina mirrors of spiftool_split, the scanner and '
              'trimming of spif_tok_eval, spiftool_join, spiftool_get_word, spiftool_get_pword and spiftool_num_words, with every read '
              'and write bounds-checked: for every NUL-free byte string s, every delimiter set d (NULL or any string) and whatever '
              'follows the terminator, split d s = tokens d s and tok_eval d s = map trim (tokens d s), where tokens is a separate '
              'one-pass state machine for the quoting grammar (C12_split_is_tokens, C12_tok_is_tokens_trimmed, C12_split_tok_agree); '
              'join is the separator-interleaved concatenation in an exactly sized block and split d (join sep ts) = ts for plain '
              'tokens and a non-empty separator of delimiter characters (C12_join_exact, C12_join_split_round_trip); num_words s = '
              'length (words s), get_word i s is the i-th element of words s for every 1 <= i <= num_words s, get_pword i s = '
              'pword_spec i s for every i (C12_num_words_counts_words, C12_get_word_is_ith_word, C12_get_pword_points_at_ith_ws_word); '
              'no function faults on the block that holds exactly s and its terminator, for every s including a final backslash and '
              'unbalanced quotes (C12_scanners_stay_inside). Nothing is left _partial. Not modelled: the str/list objects that hold '
              'tok\'s tokens (property C01/C02; tokens are byte lists, trimmed as the repaired spif_str_trim does), tok\'s '
              'configurable quote/escape members (defaults only), get_word results outside 1..n other than index 0 (left open by the '
              'property; the model follows the code and the check compares them at level B). The model is tied to the current tree by '
              'running its extracted OCaml form and the ASan/UBSan build of src/strings.c, src/tok.c on the same cases: every string '
              'over {a, b, space, tab, \', ", \\, :} up to length 5 (quick) / 7 (thorough) through split and tok with the delimiter sets '
              '{NULL, ":", " :", "ab"} and through num_words/get_word/get_pword for all indices 0..n+1, random strings up to 300 bytes '
              'with further delimiter sets, join and join-then-split cases, and the 65536-token boundary of split; the driver also '
              'compares the model with the extracted specification on every case.'),
        design_ref='DESIGN.md section 7, C12')

    EXH_QUICK = 5
    EXH_MAIN_THOROUGH = 6
    EXH_THOROUGH = 7

    def fixed_cases(self, rng, tier):
        cases = []
        # the 65536-token boundary of split's token counter (specification only on the model side)
        # (65536 itself is in corpus/C12 and runs every time)
        if tier == 'thorough':
            cases += ['splitbig N 6120 65535', 'splitbig N 6120 65537', 'splitbig 3a 3a61 65537']
        # join: every list of up to 3 tokens over a small token set x separators; NULL and empty array
        toks = [[], [0x61], [0x61, 0x62], [0x20], [0x22], [0x5c], [0x3a, 0x61]]
        seps = ['N', '-', '3a', '20', '3a20', '6162']
        for sep in seps:
            cases.append('join %s' % sep)
            for n in (1, 2, 3):
                for ts in itertools.product(toks, repeat=n):
                    cases.append('join %s %s' % (sep, ' '.join(hx(t) for t in ts)))
        # round trip: plain tokens (no delimiter, quote, backslash), separator drawn from the delimiter set
        plain_alpha = {'N': [0x61, 0x62, 0x3a, 0x41], '3a': [0x61, 0x62, 0x20, 0x09], '203a': [0x61, 0x62, 0x09, 0x41],
                       '6162': [0x63, 0x20, 0x3a, 0x09]}
        sep_of = {'N': [[0x20], [0x09], [0x20, 0x20], [0x0a, 0x20]], '3a': [[0x3a], [0x3a, 0x3a]],
                  '203a': [[0x20], [0x3a], [0x3a, 0x20]], '6162': [[0x61], [0x62], [0x61, 0x62, 0x61]]}
        for d in DSETS:
            pt = [list(t) for n in (1, 2) for t in strings_of(n, plain_alpha[d])]
            for sep in sep_of[d]:
                for n in (1, 2, 3):
                    for _ in range(40 if tier == 'quick' else 400):
                        ts = [rng.choice(pt) for _ in range(n)]
                        cases.append('rt %s %s %s' % (d, hx(sep), ' '.join(hx(t) for t in ts)))
                ts = [[rng.choice(plain_alpha[d]) for _ in range(rng.choice([1, 3, 17]))] for _ in range(40)]
                cases.append('rt %s %s %s' % (d, hx(sep), ' '.join(hx(t) for t in ts)))
        return cases

    def random_cases(self, rng, count):
        cases = []
        for _ in range(count):
            n = rng.choice([6, 7, 8, 9, 12, 16, 31, 64, 150, 300])
            alpha = ALPHA + (EXTRA if rng.random() < 0.3 else [])
            # bias: runs of structure characters, trailing backslash / quote
            s = [rng.choice(alpha) for _ in range(n)]
            r = rng.random()
            if r < 0.15:
                s[-1] = 0x5c
            elif r < 0.25:
                s[-1] = rng.choice([0x22, 0x27])
            elif r < 0.30:
                s[-2:] = [0x5c, 0x5c]
            d = rng.choice(DSETS + DSETS + ['-', '22', '5c', '2027', '615c', '20093a'])
            op = rng.choice(['split', 'tok', 'words', 'all'])
            if op == 'words':
                cases.append('words %s' % hx(s))
            elif op == 'all':
                cases.append('all %s' % hx(s))
            else:
                cases.append('%s %s %s' % (op, d, hx(s)))
        return cases

    def gen(self, tier, rng):
        cases = self.fixed_cases(rng, tier)
        top = self.EXH_QUICK if tier == 'quick' else self.EXH_MAIN_THOROUGH
        for n in range(top + 1):
            for t in strings_of(n, ALPHA):
                cases.append('all ' + hx(t))
        cases += self.random_cases(rng, 3000 if tier == 'quick' else 60000)
        return cases

    def search_gen(self, tier, rng):
        cases = []
        for n in range(self.EXH_MAIN_THOROUGH + 1):
            for t in strings_of(n, ALPHA):
                cases.append('all ' + hx(t))
        return cases + self.random_cases(rng, 20000)

    def extra_steps(self, ctx):
        """thorough: the length-7 stratum, in chunks so that the outputs never sit in memory together"""
        if ctx['tier'] != 'thorough' or not ctx['model_exe']:
            ctx['cov']['exhaustive'] = dict(alphabet='a b space tab \' " \\ :', max_len=self.EXH_QUICK, delimiter_sets=DSETS)
            return []
        out = []
        n = self.EXH_THOROUGH
        chunk, total, bad = [], 0, 0
        def flush():
            nonlocal chunk, total, bad
            if not chunk:
                return
            mo, io, det = vlib.run_pair(self, ctx['model_exe'], ctx['impl_exe'], chunk, 'exh')
            for d in vlib.compare(self, chunk, mo, io):
                bad += 1
                if len(out) < 50:
                    out.append((d['level'], d['case'], '%s (model: %s / impl: %s)' % (d['msg'], d['model'], d['impl'])))
            total += len(chunk)
            chunk = []
        for t in strings_of(n, ALPHA):
            chunk.append('all ' + hx(t))
            if len(chunk) >= 262144:
                flush()
        flush()
        cov = ctx['cov']
        cov['evaluations'] = cov.get('evaluations', 0) + total
        cov['distinct_nontrivial'] = cov.get('distinct_nontrivial', 0) + total
        cov['traces_validated_against_impl'] = cov.get('traces_validated_against_impl', 0) + total - bad
        cov['exhaustive'] = dict(alphabet='a b space tab \' " \\ :', max_len=n, delimiter_sets=DSETS)
        return out

    def split(self, case, out):
        op = case.split(' ', 1)[0]
        if op == 'words':
            return split_words(out)
        if op == 'all':
            parts = out.split(' | ')
            if len(parts) == 9:
                a, b = split_words(parts[8])
                return ' | '.join(parts[:8] + [a]), b
        return out, ''

    def nontrivial(self, case, mout):
        if mout.startswith('FAULT') or mout == 'NULL':
            return False
        return ('T 0' != mout) and ('N 0' not in mout.split(' ; ')[0] or ' T ' in mout)

CHECK = C12()
