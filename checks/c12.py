"""C12: split, tok and the word utilities implement one quoting grammar (src/strings.c, src/tok.c)."""
import itertools, os
import vlib

def hx(bs):
    return ''.join('%02x' % b for b in bs) or '-'

ALPHA = [0x61, 0x62, 0x20, 0x09, 0x27, 0x22, 0x5c, 0x3a]      # a b space tab ' " \ :
DSETS = ['N', '3a', '203a', '6162']                            # default, ":", " :", "ab"
EXTRA = [0x80, 0xff, 0x0a, 0x0b, 0x0c, 0x0d, 0x41, 0x01]
# the high-bit twin (c | 0x80) of every character the scanners treat specially (and of the two letters that are
# delimiters in the set "ab"): a table indexed by c & 0x7f, a signed-char comparison or an isascii() shortcut
# confuses exactly these with their ASCII partners
TWINS = [c | 0x80 for c in ALPHA]                              # e1 e2 a0 89 a7 a2 dc ba
WS_TWINS = [c | 0x80 for c in (0x0a, 0x0b, 0x0c, 0x0d)]
ALPHA16 = ALPHA + TWINS
# delimiter sets that contain bytes >= 0x80 (alone, next to their ASCII partner, next to another delimiter)
HDSETS = ['ba', '3aba', 'a0', '20a0', 'e1e2', '61e2', 'dc', 'a7a2', '89', 'ff80', '3aff']

def strings_of(n, alpha):
    for t in itertools.product(alpha, repeat=n):
        yield t

def split_words(out):
    """words output: 'N n ; e0 ; e1 ; ... ; e(n+1)' -> (A, B): indices 1..n are constrained, 0 and n+1 are open"""
    parts = out.split(' ; ')
    if len(parts) < 3:
        return out, ''
    return ' ; '.join([parts[0]] + parts[2:-1]), ' ; '.join([parts[1], parts[-1]])

class C12(vlib.PropertyCheck):
    id = 'C12'
    family = 'c12'
    harness = 'c12.c'
    case_timeout = 900
    nontrivial_rule = ('a case is non-trivial when the model result is not a fault/NULL and contains at least one token '
                       '(T n with n >= 1), one word (N n with n >= 1) or a joined string; the bounded stratum enumerates '
                       'every string over {a, b, space, tab, \', ", \\, :} up to the tier length, each put through split and '
                       'tok with the delimiter sets {NULL, ":", " :", "ab"} and through num_words / get_word / get_pword '
                       'for every index 0..n+1; a second bounded stratum does the same over these eight characters plus '
                       'their eight high-bit twins (c|0x80) and adds split/tok with delimiter sets containing bytes >= 0x80; '
                       'tok object histories (tokobj): one object evaluated two and three times with source, separators and '
                       'quote/dquote/escape characters changed in between, copied (continue with the copy; evaluate the copy and drop '
                       'it), reset; every pair of token counts from {0,1,2,3,4,5,8,31..33,63..65,255..257,511..513} before/after a '
                       'change; every string over the eight characters up to length 3 as the source of a SECOND evaluation; a history '
                       'is non-trivial when it prints at least two results one of which has a token; '
                       'distinct = distinct case lines')
    assumptions = ['inputs are valid C strings in exactly sized heap blocks (the harness allocates them so)',
                   'object sizes below 2^31 (counters are modelled as unbounded integers)',
                   '"C" locale isspace; the delimiter set is a valid C string or NULL',
                   'tok quote, dquote and escape members hold any byte (set through their setters); split has no such members '
                   'and is compared with tok only while they hold the defaults',
                   'spif_str_trim strips all leading and trailing whitespace (the C01 repair of str.c)']

    MANIFEST = dict(
        technique='Rocq theorems about an executable Gallina model of the scanners + extracted-model/implementation correspondence check',
        text=('Rocq theorems (all Qed, closed under the global context) about Gallina mirrors of spiftool_split, the scanner and '
              'trimming of spif_tok_eval, spiftool_join, spiftool_get_word, spiftool_get_pword and spiftool_num_words, with every read '
              'and write bounds-checked: for every NUL-free byte string s, every delimiter set d (NULL or any string) and whatever '
              'follows the terminator, split d s = tokens d s and tok_eval d s = map trim (tokens d s), where tokens is a separate '
              'one-pass state machine for the quoting grammar (C12_split_is_tokens, C12_tok_is_tokens_trimmed, C12_split_tok_agree); '
              'join is the separator-interleaved concatenation in an exactly sized block and split d (join sep ts) = ts for plain '
              'tokens and a non-empty separator of delimiter characters (C12_join_exact, C12_join_split_round_trip); num_words s = '
              'length (words s), get_word i s is the i-th element of words s for every 1 <= i <= num_words s, get_pword i s = '
              'pword_spec i s for every i (C12_num_words_counts_words, C12_get_word_is_ith_word, C12_get_pword_points_at_ith_ws_word); '
              'no function faults on the block that holds exactly s and its terminator, for every s including a final backslash and '
              'unbalanced quotes (C12_scanners_stay_inside). The tok OBJECT (C12_tokobj.v, Split/TokObjModel.v): members src, sep, '
              'quote, dquote, escape, tokens with their setters, eval on an object evaluated before, dup, done; the scanner restated over '
              'the three character members equals the grammar over them for every configuration (C12_tok_eval_any_quotes_is_grammar) and '
              'is C12.v\'s scanner and grammar at the defaults (C12_tok_default_quotes_scanner/_grammar); for every list of operations '
              'set_src/set_sep/set_quote/set_dquote/set_escape/eval/dup/fork/done from any object the model never faults and every '
              'evaluation yields the trimmed grammar tokens of the members the object has at that moment, nothing of an earlier '
              'evaluation (C12_tok_history_exact, C12_tok_second_eval). Nothing is left _partial. Not modelled: the str/list objects that '
              'hold tok\'s tokens (property C01/C02; tokens are byte lists, trimmed as the repaired spif_str_trim does; that eval '
              'replaces the list and dup copies it deeply is decided by the correspondence check, under ASan), get_word results outside '
              '1..n other than index 0 (left open by the '
              'property; the model follows the code and the check compares them at level B). The model is tied to the current tree by '
              'running its extracted OCaml form and the ASan/UBSan build of src/strings.c, src/tok.c on the same cases: every string '
              'over {a, b, space, tab, \', ", \\, :} up to length 5 (quick) / 7 (thorough) through split and tok with the delimiter sets '
              '{NULL, ":", " :", "ab"} and through num_words/get_word/get_pword for all indices 0..n+1; every string over these eight '
              'characters plus the high-bit twin (c|0x80) of each up to length 4 (quick) / 5 (thorough) the same way, and up to length 3 '
              'through split and tok with eleven delimiter sets containing bytes >= 0x80; every byte value 1..255 as text, as delimiter and '
              'next to its twin; random strings up to 300 bytes over all 255 non-NUL values with further delimiter sets (drawn from the '
              'string and from the twins of its characters), join and join-then-split cases with high bytes in tokens and separators, and '
              'the 65536-token boundary of split; tok object histories (one real spif_tok_t through set_src/set_sep/set_quote/'
              'set_dquote/set_escape/eval/dup/done, token list read after every evaluation and off every copy; while the quote '
              'characters are the defaults each evaluation is also compared, inside the harness output and by a model-independent oracle, '
              'with spiftool_split of the object\'s current source and separators): all pairs and triples of token counts 0..8 and '
              '31..33, 63..65, 255..257, 511..513 around a change of source/separators, repeated plain evaluation, evaluation after dup, '
              'dup after the second evaluation, every string over the eight special characters up to length 3 (4 thorough) as the '
              'source of a second evaluation with each delimiter set, eleven quote/escape character values (defaults, |, high-bit '
              'twins, NUL, blank, a delimiter, a letter) set and set back, 1500 (30000) random histories; '
              'the driver also compares the model with the extracted specification on every case.'),
        design_ref='DESIGN.md section 7, C12')

    EXH_QUICK = 5
    EXH_MAIN_THOROUGH = 6
    EXH_THOROUGH = 7
    # second exhaustive stratum: the same eight characters plus their eight high-bit twins
    EXH16_QUICK = 4
    EXH16_THOROUGH = 5
    # explicit high-byte delimiter sets on every string over the sixteen characters
    EXH16_DSETS = 3

    def twin_cases(self, top):
        """every string over the eight special characters and their high-bit twins up to length top through all
        scanners ('all': delimiter sets NULL, ":", " :", "ab"), and up to length EXH16_DSETS through split and tok
        with every delimiter set that contains a high byte"""
        cases = []
        for n in range(1, top + 1):
            for t in strings_of(n, ALPHA16):
                if all(c < 0x80 for c in t):
                    continue            # already in the eight-character stratum
                cases.append('all ' + hx(t))
        for n in range(0, self.EXH16_DSETS + 1):
            for t in strings_of(n, ALPHA16):
                h = hx(t)
                for d in HDSETS:
                    cases.append('split %s %s' % (d, h))
                    cases.append('tok %s %s' % (d, h))
        return cases

    def fixed_cases(self, rng, tier):
        cases = []
        # the 65536-token boundary of split's token counter (specification only on the model side)
        # 65536 itself (the minimised failing input of the repaired counter defect) runs every time, once: 10 s under ASan
        cases.append('splitbig N 6120 65536')
        if tier == 'thorough':
            cases += ['splitbig N 6120 65535', 'splitbig N 6120 65537', 'splitbig 3a 3a61 65537']
        # join: every list of up to 3 tokens over a small token set x separators; NULL and empty array
        toks = [[], [0x61], [0x61, 0x62], [0x20], [0x22], [0x5c], [0x3a, 0x61], [0xba], [0xa0, 0x61, 0xff]]
        seps = ['N', '-', '3a', '20', '3a20', '6162', 'ba', 'a03a']
        for sep in seps:
            cases.append('join %s' % sep)
            for n in (1, 2, 3):
                for ts in itertools.product(toks, repeat=n):
                    cases.append('join %s %s' % (sep, ' '.join(hx(t) for t in ts)))
        # round trip: plain tokens (no delimiter, quote, backslash), separator drawn from the delimiter set
        # (the high-bit twins of the set's delimiters are plain characters and must survive the round trip)
        plain_alpha = {'N': [0x61, 0x62, 0x3a, 0x41, 0xa0, 0x89, 0x8a], '3a': [0x61, 0x62, 0x20, 0x09, 0xba],
                       '203a': [0x61, 0x62, 0x09, 0x41, 0xa0, 0xba], '6162': [0x63, 0x20, 0x3a, 0x09, 0xe1, 0xe2],
                       'ba': [0x3a, 0x61, 0x20, 0xbb], '20a0': [0x61, 0x09, 0xa1, 0x80], 'e1e2': [0x61, 0x62, 0x20, 0xe3]}
        sep_of = {'N': [[0x20], [0x09], [0x20, 0x20], [0x0a, 0x20]], '3a': [[0x3a], [0x3a, 0x3a]],
                  '203a': [[0x20], [0x3a], [0x3a, 0x20]], '6162': [[0x61], [0x62], [0x61, 0x62, 0x61]],
                  'ba': [[0xba], [0xba, 0xba]], '20a0': [[0xa0], [0x20, 0xa0]], 'e1e2': [[0xe1], [0xe2, 0xe1]]}
        for d in DSETS + ['ba', '20a0', 'e1e2']:
            pt = [list(t) for n in (1, 2) for t in strings_of(n, plain_alpha[d])]
            for sep in sep_of[d]:
                for n in (1, 2, 3):
                    for _ in range(40 if tier == 'quick' else 400):
                        ts = [rng.choice(pt) for _ in range(n)]
                        cases.append('rt %s %s %s' % (d, hx(sep), ' '.join(hx(t) for t in ts)))
                ts = [[rng.choice(plain_alpha[d]) for _ in range(rng.choice([1, 3, 17]))] for _ in range(40)]
                cases.append('rt %s %s %s' % (d, hx(sep), ' '.join(hx(t) for t in ts)))
        return cases

    def random_cases(self, rng, count):
        cases = []
        for _ in range(count):
            n = rng.choice([6, 7, 8, 9, 12, 16, 31, 64, 150, 300])
            m = rng.random()
            if m < 0.35:
                alpha = ALPHA + (EXTRA if rng.random() < 0.3 else [])
            elif m < 0.65:
                # the special characters and their high-bit twins
                alpha = ALPHA16 + (WS_TWINS + EXTRA if rng.random() < 0.3 else [])
            else:
                # any of the 255 non-NUL byte values between the structure characters
                alpha = ALPHA + TWINS[2:] + [rng.randrange(1, 256) for _ in range(16)]
            # bias: runs of structure characters, trailing backslash / quote
            s = [rng.choice(alpha) for _ in range(n)]
            r = rng.random()
            if r < 0.15:
                s[-1] = 0x5c
            elif r < 0.25:
                s[-1] = rng.choice([0x22, 0x27])
            elif r < 0.30:
                s[-2:] = [0x5c, 0x5c]
            d = rng.choice(DSETS + DSETS + ['-', '22', '5c', '2027', '615c', '20093a'] + HDSETS)
            if rng.random() < 0.15:
                # a set drawn from the string itself: a character, the twin of another one, any byte
                c1, c2 = rng.choice(s), rng.choice(s) ^ 0x80
                d = hx([c for c in (c1, c2, rng.randrange(1, 256))[:rng.choice([1, 2, 3])] if c])
            op = rng.choice(['split', 'tok', 'words', 'all'])
            if op == 'words':
                cases.append('words %s' % hx(s))
            elif op == 'all':
                cases.append('all %s' % hx(s))
            else:
                cases.append('%s %s %s' % (op, d, hx(s)))
        return cases

    # ---- tok OBJECT histories (harness/c12.c "tokobj"): one object evaluated two and three times with its source,
    #      separators and quote characters changed in between, copied, reset ----
    # token counts of the evaluation that precedes / follows a change: empty, one, two (the first count at which a
    # stale element can survive), the list implementations' strides and their neighbours
    TOK_COUNTS_SMALL = [0, 1, 2, 3, 4, 5, 8]
    TOK_COUNTS_BIG = [31, 32, 33, 63, 64, 65, 255, 256, 257, 511, 512, 513]
    QCHARS = ['27', '22', '5c', '7c', 'a7', 'a2', 'dc', '00', '20', '3a', '61']     # ' " \ | twins-of-'"\ NUL space : a

    @staticmethod
    def numbered(k, sep=0x20, salt=0):
        """a source with exactly k distinct, recognisable tokens (letters only) separated by sep"""
        out = []
        for i in range(k):
            if i:
                out.append(sep)
            v, w = i + salt * 7, []
            while True:
                w.append(0x62 + v % 20)         # b..u: none of them is in a delimiter set used with these sources
                v //= 20
                if not v:
                    break
            out += [0x76 + salt % 4] + w        # v..y marks which source the token came from
        return out

    def tokobj_cases(self, tier, rng):
        quick = (tier == 'quick')
        cases = []
        H = lambda ops: cases.append('tokobj ' + ' ; '.join(ops))
        nm = self.numbered
        # 1. every pair / triple of token counts: eval, new source, eval (, new source, eval); plain repeated eval;
        #    eval after dup, dup after the second eval, the copy evaluated and dropped, reset and reuse
        cnts = self.TOK_COUNTS_SMALL
        for k1 in cnts + self.TOK_COUNTS_BIG:
            for k2 in cnts + ([] if k1 in self.TOK_COUNTS_BIG and quick else self.TOK_COUNTS_BIG[:6] if quick else self.TOK_COUNTS_BIG):
                if quick and k1 > 65 and k2 not in (0, 1, 3):
                    continue
                s1, s2 = hx(nm(k1, 0x20, 0)), hx(nm(k2, 0x20, 1))
                H([s1, 'eval', 'src ' + s2, 'eval'])
                if k1 <= 65 and k2 <= 65:
                    c1, c2 = hx(nm(k1, 0x3a, 2)), hx(nm(k2, 0x3a, 3))
                    H([c1, 'sep 3a', 'eval', 'src ' + c2, 'eval'])
                    H([s1, 'eval', 'src ' + c2, 'sep 3a', 'eval', 'dup', 'eval'])
                    H([c1, 'eval', 'sep 3a', 'eval', 'sep N', 'eval'])
            s1 = hx(nm(k1, 0x20, 0))
            H([s1, 'eval', 'eval'])
            H([s1, 'eval', 'eval', 'eval', 'dup'])
            H([s1, 'eval', 'dup', 'eval', 'dup', 'eval'])
            H([s1, 'dup', 'eval', 'fork', 'eval'])
            H([s1, 'eval', 'fork', 'src ' + hx(nm(3, 0x20, 1)), 'fork', 'eval', 'fork'])
            H([s1, 'eval', 'done', 'eval', 'src ' + hx(nm(2, 0x20, 1)), 'eval', 'dup'])
            H(['N', 'eval', 'src ' + s1, 'eval', 'src N', 'eval', 'dup', 'src ' + hx(nm(2, 0x20, 1)), 'eval'])
        for k1 in cnts:
            for k2 in cnts:
                for k3 in (0, 1, 2, 4):
                    H([hx(nm(k1, 0x20, 0)), 'eval', 'src ' + hx(nm(k2, 0x3a, 1)), 'sep 3a', 'eval',
                       'src ' + hx(nm(k3, 0x20, 2)), 'sep N', 'eval'])
                    H([hx(nm(k1, 0x09, 0)), 'eval', 'src ' + hx(nm(k2, 0x20, 1)), 'eval', 'dup',
                       'src ' + hx(nm(k3, 0x20, 2)), 'eval'])
        # 2. the grammar on a SECOND evaluation: every string over the eight special characters up to length 3 (quick) /
        #    4 (thorough) as the new source of an object that already holds three tokens, with each delimiter set
        first = hx(nm(3, 0x20, 0))
        for n in range(0, (3 if quick else 4) + 1):
            for t in strings_of(n, ALPHA):
                h = hx(t)
                for d in DSETS:
                    H([first, 'eval', 'src ' + h, 'sep ' + d, 'eval'])
        #    ... and as the FIRST source, followed by a plain one (length <= 2 / 3)
        for n in range(1, (2 if quick else 3) + 1):
            for t in strings_of(n, ALPHA16):
                H([hx(t), 'eval', 'src ' + first, 'eval', 'src ' + hx(t), 'sep 3a', 'eval'])
        # 3. quote, dquote and escape setters between evaluations of one source, and set back to the defaults
        texts = [[0x61, 0x7c, 0x62, 0x20, 0x63, 0x7c, 0x64], [0x27, 0x61, 0x20, 0x62, 0x27, 0x20, 0x22, 0x63, 0x20, 0x64, 0x22],
                 [0x61, 0x5c, 0x20, 0x62, 0x20, 0x63, 0x7c, 0x20, 0x64], [0xa7, 0x61, 0x20, 0x62, 0xa7, 0x20, 0x27, 0x63, 0x27],
                 [0x61, 0x3a, 0x62, 0x5c, 0x3a, 0x63, 0x7c, 0x3a, 0x64], [0x7c, 0x61, 0x5c, 0x7c, 0x62, 0x7c, 0x20, 0x63]]
        for tx in texts:
            h = hx(tx)
            for c in self.QCHARS:
                for (setter, dflt) in (('q', '27'), ('dq', '22'), ('esc', '5c')):
                    H([h, 'eval', '%s %s' % (setter, c), 'eval', '%s %s' % (setter, dflt), 'eval'])
                    H([h, 'sep 3a', '%s %s' % (setter, c), 'eval', 'dup', 'eval', 'done', 'src ' + h, 'eval'])
            for c1 in self.QCHARS[:8]:
                for c2 in self.QCHARS[:8]:
                    H([h, 'q ' + c1, 'dq ' + c2, 'eval', 'esc ' + c1, 'eval', 'fork'])
        # 4. random histories over random sources
        for _ in range(1500 if quick else 30000):
            nsrc = rng.choice([1, 2, 3, 4])
            srcs = []
            for _ in range(nsrc + 1):
                m = rng.random()
                n = rng.choice([0, 1, 2, 3, 5, 8, 13, 30, 80])
                alpha = ALPHA if m < 0.5 else (ALPHA16 if m < 0.8 else ALPHA + EXTRA + [rng.randrange(1, 256) for _ in range(6)])
                srcs.append(hx([rng.choice(alpha) for _ in range(n)]) if rng.random() < 0.8
                            else hx(nm(rng.choice([2, 3, 6, 33, 64]), rng.choice([0x20, 0x3a, 0x09]), rng.randrange(4))))
            ops = [srcs[0] if rng.random() < 0.9 else 'N']
            nev = 0
            for _ in range(rng.choice([3, 4, 6, 9, 12])):
                r = rng.random()
                if r < 0.30:
                    ops.append('eval'); nev += 1
                elif r < 0.50:
                    ops.append('src ' + (rng.choice(srcs) if rng.random() < 0.95 else 'N'))
                elif r < 0.65:
                    ops.append('sep ' + rng.choice(DSETS + DSETS + ['-', '2027', '20093a'] + HDSETS[:4]))
                elif r < 0.75:
                    ops.append(rng.choice(['q', 'dq', 'esc']) + ' ' + rng.choice(self.QCHARS))
                elif r < 0.80:
                    ops.append(rng.choice(['q 27', 'dq 22', 'esc 5c']))
                elif r < 0.88:
                    ops.append('dup')
                elif r < 0.96:
                    ops.append('fork')
                else:
                    ops.append('done')
            ops.append('eval')
            H(ops)
        return cases

    def gen(self, tier, rng):
        cases = self.fixed_cases(rng, tier)
        cases += self.tokobj_cases(tier, rng)
        top = self.EXH_QUICK if tier == 'quick' else self.EXH_MAIN_THOROUGH
        for n in range(top + 1):
            for t in strings_of(n, ALPHA):
                cases.append('all ' + hx(t))
        cases += self.twin_cases(self.EXH16_QUICK)
        # every byte value 1..255 alone, doubled, between letters and next to each structure character
        for c in range(1, 256):
            tw = (c ^ 0x80) or 0x41
            cases.append('all %s' % hx([c]))
            cases.append('all %s' % hx([0x61, c, 0x62, c, c, 0x20, c]))
            body = hx([0x61, c, 0x62, tw, 0x63, 0x5c, c, 0x22, c, 0x22])
            for d in ([c], [tw], [c, tw]):
                cases.append('split %s %s' % (hx(d), body))
                cases.append('tok %s %s' % (hx(d), body))
        cases += self.random_cases(rng, 6000 if tier == 'quick' else 60000)
        return cases

    def search_gen(self, tier, rng):
        cases = []
        for n in range(self.EXH_MAIN_THOROUGH + 1):
            for t in strings_of(n, ALPHA):
                cases.append('all ' + hx(t))
        return cases + self.twin_cases(self.EXH16_QUICK) + self.random_cases(rng, 20000)

    def extra_steps(self, ctx):
        """thorough: the length-7 stratum, in chunks so that the outputs never sit in memory together"""
        twin_note = dict(alphabet='a b space tab \' " \\ : and the high-bit twin (c|0x80) of each', delimiter_sets=DSETS,
                         high_byte_delimiter_sets=HDSETS, high_byte_delimiter_sets_max_len=self.EXH16_DSETS)
        if ctx['tier'] != 'thorough' or not ctx['model_exe']:
            ctx['cov']['exhaustive'] = dict(alphabet='a b space tab \' " \\ :', max_len=self.EXH_QUICK, delimiter_sets=DSETS)
            ctx['cov']['exhaustive_twins'] = dict(twin_note, max_len=self.EXH16_QUICK)
            return []
        out = []
        n = self.EXH_THOROUGH
        chunk, total, bad = [], 0, 0
        def flush():
            nonlocal chunk, total, bad
            if not chunk:
                return
            mo, io, det = vlib.run_pair(self, ctx['model_exe'], ctx['impl_exe'], chunk, 'exh')
            for d in vlib.compare(self, chunk, mo, io):
                bad += 1
                if len(out) < 50:
                    out.append((d['level'], d['case'], '%s (model: %s / impl: %s)' % (d['msg'], d['model'], d['impl'])))
            total += len(chunk)
            chunk = []
        for t in strings_of(n, ALPHA):
            chunk.append('all ' + hx(t))
            if len(chunk) >= 262144:
                flush()
        flush()
        # the sixteen-character stratum one length further than the main run
        for t in strings_of(self.EXH16_THOROUGH, ALPHA16):
            if all(c < 0x80 for c in t):
                continue
            chunk.append('all ' + hx(t))
            if len(chunk) >= 262144:
                flush()
        flush()
        ctx['cov']['exhaustive_twins'] = dict(twin_note, max_len=self.EXH16_THOROUGH)
        cov = ctx['cov']
        cov['evaluations'] = cov.get('evaluations', 0) + total
        cov['distinct_nontrivial'] = cov.get('distinct_nontrivial', 0) + total
        cov['traces_validated_against_impl'] = cov.get('traces_validated_against_impl', 0) + total - bad
        cov['exhaustive'] = dict(alphabet='a b space tab \' " \\ :', max_len=n, delimiter_sets=DSETS)
        return out

    WS = b' \t\n\x0b\x0c\r'

    def oracle(self, case, iout):
        """model-independent: in a tok object history every evaluation made with the default quote characters is printed
        as 'T n t.. / T m s..' = the object's tokens and spiftool_split() of its CURRENT source with its CURRENT
        separators; tok trims each token and otherwise they must be the same list (the property's 'the two agree with
        each other token for token')"""
        if not case.startswith('tokobj '):
            return None
        for part in iout.split(' ; '):
            if ' / ' not in part:
                continue
            a, b = part.split(' / ', 1)
            ta, tb = a.split()[2:], b.split()[2:]
            trimmed = [(bytes.fromhex(x) if x != '-' else b'').strip(self.WS).hex() or '-' for x in tb]
            if ta != trimmed:
                return 'tok object and split disagree on the same source: tok %s / split %s' % (a, b)
        return None

    def split(self, case, out):
        op = case.split(' ', 1)[0]
        if op == 'words':
            return split_words(out)
        if op == 'all':
            parts = out.split(' | ')
            if len(parts) == 9:
                a, b = split_words(parts[8])
                return ' | '.join(parts[:8] + [a]), b
        return out, ''

    def nontrivial(self, case, mout):
        if mout.startswith('FAULT') or mout == 'NULL':
            return False
        if case.startswith('tokobj '):
            # at least two evaluations (or an evaluation and a copy) with a token in one of them
            parts = mout.split(' ; ')
            return len(parts) >= 2 and any(p.startswith(('T ', 'D T ')) and not p.startswith(('T 0', 'D T 0')) for p in parts)
        return ('T 0' != mout) and ('N 0' not in mout.split(' ; ')[0] or ' T ' in mout)

CHECK = C12()
