"""C01: str / ustr objects are faithful character-sequence values under any history.

Case grammar (one line = one whole history, at most 62 operations because of the token limit of
harness/common.h; the generator stays at <= 40):
    <class> <ctor> <op> ...                class = str | ustr
  texts: hex, "-" empty, "N" NULL pointer, "<hex>*<n>" pattern repeated / cut to n bytes
  ctor : init | ptr,T | buff,CELLS,size | fp,T (file) | fpp,T (pipe + fdopen) |
         fd,EV:EV:.. (read schedule, EV = dT data | i EINTR | a EAGAIN | e EOF | x EIO) |
         fdp,T (real pipe) | num,n
  ops  : re,<ctor> done onull on,<ctor> odup osub,i,c swap app appp,T appc,b pre prep,T prec,b
         spl,i,c splp,i,c,T trim rev up down clr,b spf,N spf,E spf,s,T spf,d,n,T subp,i,c
         cmp,K cmpp,K,T (K = p | c | n,cnt | nc,cnt) find findp,T idx,b ridx,b tonum,base flt
         glen gsize same
"""
import re
import vlib

def hx(bs):
    return ''.join('%02x' % b for b in bs) or '-'

LETTERS = [0x61, 0x62, 0x41, 0x5a, 0x7a, 0x20, 0x09, 0x0a, 0x31, 0x39, 0x30, 0x78, 0x2d, 0x2b, 0x80, 0xff, 0x66, 0x46]
WS = [0x20, 0x09, 0x0a, 0x0d, 0x0b, 0x0c]
BUFF_INC = 4096
# high-bit twins (c | 0x80) of the characters the methods treat specially: whitespace (trim), letters at both ends of
# both case ranges and their neighbours (upcase/downcase/casecmp), digits and sign (to_num): a table indexed with
# c & 0x7f, an isascii() shortcut or a signed-char comparison confuses exactly these with their ASCII partners
WS_TWINS = [c | 0x80 for c in WS]
CASE_EDGES = [0x40, 0x41, 0x5a, 0x5b, 0x60, 0x61, 0x7a, 0x7b]
CASE_TWINS = [c | 0x80 for c in CASE_EDGES]
TWINS = WS_TWINS + CASE_TWINS + [0xb0, 0xb9, 0xad, 0xab]
KMAX = 14
# NUL-free pattern of 7 bytes (a period that no power of two is a multiple of): A b space z c 0x80 0xe1
PAT = '4162207a6380e1'
PAT2 = '7a41e1206280'


def pow2_lengths(kmax=KMAX):
    """0 and every 2^k - 1, 2^k, 2^k + 1 for k <= kmax"""
    s = set()
    for k in range(kmax + 1):
        s.update([2 ** k - 1, 2 ** k, 2 ** k + 1])
    return sorted(s)


def rep(pat, n):
    """pattern token of exactly n bytes ("-" for none)"""
    return '%s*%d' % (pat, n) if n > 0 else '-'

def isspace(c):
    return c == 32 or 9 <= c <= 13


class Sim:
    """rough ideal state, used only to aim arguments at the boundaries (never as an oracle)"""
    def __init__(self):
        self.t = []
        self.o = None

    def norm(self, idx):
        n = len(self.t)
        i = n + idx if idx < 0 else idx
        return i if 0 <= i < n else None

    def splice(self, idx, cnt, ins):
        i = self.norm(idx)
        if i is None:
            return
        n = len(self.t)
        c = i + n + cnt if cnt < 0 else cnt
        if 0 <= c <= n - i:
            self.t = self.t[:i] + list(ins) + self.t[i + c:]

    def substr(self, idx, cnt):
        i = self.norm(idx)
        if i is None:
            return None
        n = len(self.t)
        c = n - i + cnt if cnt <= 0 else cnt
        if c < 0:
            return None
        return self.t[i:i + min(c, n - i)]


def expand(tok):
    """text token -> list of ints (None for N)"""
    if tok == 'N':
        return None
    if '*' in tok:
        h, n = tok.split('*')
        pat = [int(h[i:i + 2], 16) for i in range(0, len(h), 2)]
        return [pat[i % len(pat)] for i in range(int(n))]
    if tok == '-':
        return []
    return [int(tok[i:i + 2], 16) for i in range(0, len(tok), 2)]


class Gen:
    def __init__(self, rng, tier):
        self.rng = rng
        self.tier = tier
        self.bigp = 0.0     # chance that a text argument is multi-kilobyte (set per history)

    # ---- texts ----
    def small_text(self, maxlen=8, nl=True):
        r = self.rng
        n = r.choice([0, 1, 1, 2, 3, 3, 5, maxlen])
        k = r.random()
        if r.random() < 0.12:
            # the special characters next to their high-bit twins
            pool = WS + WS_TWINS + CASE_EDGES + CASE_TWINS
            body = [r.choice(pool) for _ in range(n + 1)]
        elif k < 0.15:
            body = [r.choice(WS) for _ in range(n)]
        elif k < 0.35:
            body = [r.choice(WS) for _ in range(r.choice([0, 1, 2]))] + \
                   [r.choice(LETTERS) for _ in range(n)] + [r.choice(WS) for _ in range(r.choice([0, 1, 2]))]
        elif k < 0.5:
            body = [r.choice([0x31, 0x32, 0x39, 0x30, 0x37, 0x61, 0x46, 0x78, 0x2d, 0x2b, 0x20, 0x2e, 0x65]) for _ in range(n + 2)]
        else:
            body = [r.choice(LETTERS) for _ in range(n)]
        if not nl:
            body = [c for c in body if c != 0x0a]
        return body

    def text_tok(self, allow_null=True, big=False):
        r = self.rng
        if allow_null and r.random() < 0.06:
            return 'N'
        if big or r.random() < self.bigp:
            n = r.choice([4094, 4095, 4096, 4097, 8191, 8192, 3 * 4096 + 5, 300])
            pat = r.choice(['61', '6162', '20', '41627a', '6120'])
            return '%s*%d' % (pat, n)
        return hx(self.small_text())

    def byte(self):
        r = self.rng
        if r.random() < 0.1:
            return r.choice(TWINS)
        return r.choice(LETTERS + [0x6c, 0x01, 0x7f, 0xfe])

    # ---- constructors ----
    def sched(self, big=False):
        r = self.rng
        evs = []
        for _ in range(r.choice([0, 1, 1, 2, 2, 3, 4, 6])):
            k = r.random()
            if k < 0.55:
                if big or r.random() < self.bigp:
                    evs.append('d%s*%d' % (r.choice(['61', '6263']), r.choice([1, 4095, 4096, 4097, 8192, 8193, 3 * 4096 + 5])))
                else:
                    t = [c for c in self.small_text()]
                    evs.append('d' + hx(t))
            elif k < 0.8:
                evs.append('i')
            elif k < 0.87:
                evs.append('a')
            elif k < 0.94:
                evs.append('e')
            else:
                evs.append('x')
        return ':'.join(evs) or '-'

    def ctor(self, big=False):
        r = self.rng
        k = r.choice(['init', 'ptr', 'ptr', 'buff', 'buff', 'fp', 'fpp', 'fd', 'fd', 'fdp', 'num'])
        if k == 'init':
            return 'init'
        if k == 'ptr':
            return 'ptr,' + self.text_tok(big=big)
        if k == 'buff':
            if r.random() < 0.08:
                return 'buff,N,%d' % r.choice([0, 0, 1, 5])
            t = expand(self.text_tok(allow_null=False, big=big))
            mode = r.random()
            if mode < 0.4:      # counted buffer without terminator, size = number of cells
                return 'buff,%s,%d' % (hx(t), len(t))
            if mode < 0.7:      # terminated inside, slack after it (painted cells)
                extra = r.choice([0, 1, 3, 9])
                cells = hx(t + [0]) + '??' * extra
                return 'buff,%s,%d' % (cells, len(t) + 1 + extra)
            cut = r.randrange(0, len(t) + 1)   # size smaller than the text
            return 'buff,%s,%d' % (hx(t), cut)
        if k in ('fp', 'fpp'):
            t = self.text_tok(allow_null=False, big=big)
            if r.random() < 0.6:   # a newline somewhere and more lines after it
                tail = hx([0x0a] + self.small_text())
                if '*' in t:
                    ex = expand(t)
                    t = hx(ex) if len(ex) < 200 else t
                if '*' not in t:
                    t = (t if t != '-' else '') + tail
            return '%s,%s' % (k, t)
        if k == 'fd':
            return 'fd,' + self.sched(big=big)
        if k == 'fdp':
            return 'fdp,' + self.text_tok(allow_null=False, big=big)
        return 'num,%d' % r.choice([0, 1, -1, 42, -2147483648, 9223372036854775807, -9223372036854775807 - 1, r.randrange(-10 ** 6, 10 ** 6)])

    def ctor_text(self, tok):
        """rough ideal text of a constructor token"""
        a = tok.split(',')
        if a[0] == 'init':
            return []
        if a[0] == 'ptr':
            return expand(a[1]) or []
        if a[0] == 'buff':
            if a[1] == 'N':
                return []
            cells = a[1].replace('??', '01')
            t = expand(cells)
            if 0 in t:
                t = t[:t.index(0)]
            return t[:int(a[2])]
        if a[0] in ('fp', 'fpp'):
            t = expand(a[1])
            return t[:t.index(10)] if 10 in t else t
        if a[0] == 'fdp':
            return expand(a[1])
        if a[0] == 'fd':
            out = []
            if a[1] != '-':
                for e in a[1].split(':'):
                    if e[0] == 'd':
                        d = expand(e[1:])
                        if not d:
                            break
                        out += d
                    elif e[0] == 'i':
                        continue
                    else:
                        break
            return out
        if a[0] == 'num':
            return [ord(c) for c in str(int(a[1]))]
        return []

    # ---- positions ----
    def idx(self, n):
        r = self.rng
        k = r.random()
        if k < 0.75:
            return r.randrange(-n - 2, n + 3)
        if k < 0.9:
            return r.choice([0, -1, n - 1, n, -n, -n - 1, 1])
        return r.choice([2 ** 31, -2 ** 31, 2 ** 40, -2 ** 40, 10 ** 6])

    # ---- one random operation; updates the rough state ----
    def op(self, sim):
        r = self.rng
        n = len(sim.t)
        k = self.pick_op()
        if n > 1500 and k in ('rev', 'trim') and r.random() < 0.9:
            k = 'glen'      # the list-based model reverses in quadratic time; keep long reversals rare
        return self.op_k(k, sim)

    def pick_op(self):
        return self.rng.choice(['app', 'appp', 'appc', 'pre', 'prep', 'prec', 'spl', 'splp', 'trim', 'rev', 'up', 'down',
                      'clr', 'spf', 'subp', 'cmp', 'cmpp', 'find', 'findp', 'idx', 'ridx', 'tonum', 'flt',
                      'glen', 'gsize', 'same', 'done', 're', 'onull', 'on', 'on', 'odup', 'odup', 'osub', 'osub',
                      'swap', 'app', 'appp', 'appc', 'pre', 'prep', 'prec', 'spl', 'splp', 'trim'])

    def op_k(self, k, sim):
        r = self.rng
        n = len(sim.t)
        if k == 'app':
            if sim.o is not None:
                sim.t = sim.t + sim.o
            return 'app'
        if k == 'pre':
            if sim.o is not None:
                sim.t = sim.o + sim.t
            return 'pre'
        if k in ('appp', 'prep'):
            tok = self.text_tok()
            t = expand(tok)
            if t:
                sim.t = sim.t + t if k == 'appp' else t + sim.t
            return '%s,%s' % (k, tok)
        if k in ('appc', 'prec'):
            c = self.byte()
            sim.t = sim.t + [c] if k == 'appc' else [c] + sim.t
            return '%s,%d' % (k, c)
        if k == 'spl':
            i, c = self.idx(n), self.idx(n)
            sim.splice(i, c, sim.o or [])
            return 'spl,%d,%d' % (i, c)
        if k == 'splp':
            i, c = self.idx(n), self.idx(n)
            tok = self.text_tok()
            sim.splice(i, c, expand(tok) or [])
            return 'splp,%d,%d,%s' % (i, c, tok)
        if k == 'trim':
            t = sim.t
            while t and isspace(t[0]):
                t = t[1:]
            while t and isspace(t[-1]):
                t = t[:-1]
            sim.t = t
            return 'trim'
        if k == 'rev':
            sim.t = sim.t[::-1]
            return 'rev'
        if k in ('up', 'down'):
            return k
        if k == 'clr':
            c = self.byte()
            sim.t = [c] * n
            return 'clr,%d' % c
        if k == 'spf':
            m = r.random()
            if m < 0.1:
                sim.t = []
                return 'spf,N'
            if m < 0.2:
                sim.t = []
                return 'spf,E'
            tok = self.text_tok(allow_null=False)
            if m < 0.6:
                sim.t = expand(tok)
                return 'spf,s,' + tok
            d = r.choice([0, -1, 7, 123456, -2147483648])
            sim.t = [ord(c) for c in '[%d]' % d] + expand(tok)
            return 'spf,d,%d,%s' % (d, tok)
        if k == 'subp':
            return 'subp,%d,%d' % (self.idx(n), self.idx(n))
        if k in ('cmp', 'cmpp'):
            kind = r.choice(['p', 'c', 'n,%d' % self.idx(n), 'nc,%d' % self.idx(n)])
            if k == 'cmp':
                return 'cmp,' + kind
            # compare with a near copy of the text
            t = list(sim.t[:60])
            m = r.random()
            if m < 0.3 and t:
                j = r.randrange(len(t))
                t[j] = (t[j] ^ 0x20) if 0x41 <= (t[j] & 0xdf) <= 0x5a else r.choice(LETTERS)
                if r.random() < 0.2:
                    t[j] = (t[j] ^ 0x80) or 0x41
            elif m < 0.5:
                t = t[:r.randrange(len(t) + 1)]
            elif m < 0.6:
                t = t + [r.choice(LETTERS)]
            elif m < 0.7:
                return 'cmpp,%s,%s' % (kind, self.text_tok())
            return 'cmpp,%s,%s' % (kind, hx(t))
        if k == 'find':
            return 'find'
        if k == 'findp':
            if n and r.random() < 0.6:
                a = r.randrange(n)
                b = min(n, a + r.choice([1, 1, 2, 3]))
                nd = sim.t[a:b][:30]
                if r.random() < 0.15:
                    j = r.randrange(len(nd))
                    nd = nd[:j] + [(nd[j] ^ 0x80) or 0x41] + nd[j + 1:]
                return 'findp,' + hx(nd)
            return 'findp,' + self.text_tok()
        if k in ('idx', 'ridx'):
            c = r.choice(sim.t) if (sim.t and r.random() < 0.6) else self.byte()
            if sim.t and r.random() < 0.15:
                c = r.choice(sim.t) ^ 0x80          # the twin of a character of the text
            if r.random() < 0.03:
                c = 0
            return '%s,%d' % (k, c)
        if k == 'tonum':
            return 'tonum,%d' % r.choice([10, 10, 16, 8, 0, 2, 36])
        if k in ('flt', 'glen', 'gsize', 'same'):
            return k
        if k == 'done':
            sim.t = []
            return 'done'
        if k == 're':
            c = self.ctor()
            sim.t = self.ctor_text(c)
            return 're,' + c
        if k == 'onull':
            sim.o = None
            return 'onull'
        if k == 'on':
            c = self.ctor()
            sim.o = self.ctor_text(c)
            return 'on,' + c
        if k == 'odup':
            sim.o = list(sim.t)
            return 'odup'
        if k == 'osub':
            i, c = self.idx(n), self.idx(n)
            sim.o = sim.substr(i, c)
            return 'osub,%d,%d' % (i, c)
        if k == 'swap':
            if sim.o is not None:
                sim.t, sim.o = sim.o, sim.t
            return 'swap'
        return 'glen'

    def history(self, nops, big=False):
        # the list-based model needs ~30 ms for a history over multi-kilobyte texts and ~0.3 ms
        # otherwise: long texts are concentrated in a few histories
        self.bigp = 0.12 if big else 0.0
        sim = Sim()
        c = self.ctor(big=big)
        sim.t = self.ctor_text(c)
        toks = [c]
        for _ in range(nops):
            toks.append(self.op(sim))
            if len(sim.t) > 60000:
                break
        return ' '.join(toks)



def boundary_histories(rng, tier):
    """every length-driven operation at 2^k - 1, 2^k, 2^k + 1 for k <= 14: sprintf output, append / prepend / splice
    texts (pointer and object form), constructor texts and init_from_buff sizes, stream lines and read chunks,
    substring counts, comparison / search / case / clear / trim lengths.  Long texts sit in short histories (the
    extracted list model needs 20-90 ms per step on 16 KB; reverse is quadratic and stops at 1025 / 4097)."""
    hist = []
    revmax = 1025 if tier == 'quick' else 4097
    for L in pow2_lengths():
        P, P2 = rep(PAT, L), rep(PAT2, L)
        full = expand(P) if L else []
        # ---- sprintf: first use, later use, a format with a number in front (output exactly L)
        if L >= 1:
            hist.append('init spf,s,%s glen idx,0' % P)
            hist.append('ptr,616263 spf,s,%s glen spf,s,%s glen spf,s,41 spf,s,%s glen' % (P, P2, P))
            hist.append('buff,%s,%d spf,s,%s appc,33 glen' % (P, L, P2))
        if L >= 4:
            hist.append('init spf,d,7,%s glen' % rep(PAT, L - 3))
        if L >= 14:
            hist.append('ptr,6162 spf,d,-2147483648,%s glen' % rep(PAT2, L - 13))
        # ---- append: pointer, object and character form; the added text or the total on the boundary
        hist.append('init appp,%s glen appc,33 glen' % P)
        hist.append('ptr,6162 appp,%s glen appp,%s glen' % (P, hx([0x7a])))
        hist.append('ptr,6162 on,ptr,%s app glen app glen' % P)
        hist.append('init on,buff,%s,%d app glen appc,33' % (P, L))
        hist.append('ptr,%s appc,33 glen appp,7a7a glen' % P)
        hist.append('buff,%s,%d appc,33 glen' % (P, L))
        hist.append('ptr,%s odup app glen' % P)
        if L >= 3:
            hist.append('ptr,%s appp,%s glen' % (rep(PAT, 3), rep(PAT2, L - 3)))
            hist.append('ptr,%s appc,33 glen appc,34 glen' % rep(PAT, L - 1))
        # ---- prepend
        hist.append('init prep,%s glen prec,33 glen' % P)
        hist.append('ptr,6162 prep,%s glen prep,7a glen' % P)
        hist.append('ptr,6162 on,ptr,%s pre glen pre glen' % P)
        hist.append('ptr,%s prec,33 glen prep,7a7a glen' % P)
        if L >= 3:
            hist.append('ptr,%s prep,%s glen' % (rep(PAT, 3), rep(PAT2, L - 3)))
        # ---- splice: insert L, remove L, replace L by L, result of length L
        hist.append('ptr,616263 splp,1,1,%s glen splp,1,%d,N glen' % (P, L))
        hist.append('ptr,616263 on,ptr,%s spl,-1,0 glen spl,2,%d glen' % (P, L))
        hist.append('ptr,%s splp,1,%d,5a glen' % (rep(PAT, L + 2), L))
        hist.append('ptr,%s splp,1,-1,%s glen' % (rep(PAT, L + 2), P2))
        hist.append('ptr,%s on,ptr,%s spl,1,%d glen' % (rep(PAT, L + 2), P2, L))
        if L >= 2:
            hist.append('ptr,%s splp,1,1,7a glen splp,0,1,- glen' % P)
        # ---- constructors: text length, init_from_buff size below / at / above the text, with and without terminator
        hist.append('ptr,%s glen odup swap appc,33 glen' % P)
        hist.append('buff,%s,%d glen gsize appc,33' % (P, L))
        if L >= 1:
            hist.append('buff,%s,%d glen gsize appc,33' % (P, L - 1))
            hist.append('buff,%s,%d glen gsize appc,33' % (rep(PAT, L + 5), L))
        cells = hx(full + [0])
        hist.append('buff,%s,%d glen gsize appc,33' % (cells, L + 1))
        hist.append('buff,%s????,%d glen gsize appc,33' % (cells, L + 3))
        if L >= 2:
            # terminator inside: the size argument on the boundary, the text shorter
            hist.append('buff,%s,%d glen gsize' % (hx(full[:L // 2] + [0] + full[L // 2 + 1:]), L))
        hist.append('buff,N,%d glen gsize appc,33' % L)
        # ---- stream lines: a line of L bytes then newline and more; L bytes counting the newline; no newline at all
        for c in ('fp', 'fpp'):
            hist.append('%s,%s glen appc,33' % (c, P))
            hist.append('%s,%s glen appc,33' % (c, hx(full + [0x0a, 0x62, 0x63])))
            if L >= 1:
                hist.append('%s,%s glen' % (c, hx(full[:L - 1] + [0x0a])))
                hist.append('%s,%s glen' % (c, hx([0x0a] + full)))
        # ---- read chunks: one chunk of L, chunks of L in a row, the total on the boundary in uneven pieces
        hist.append('fdp,%s glen appc,33' % P)
        hist.append('fd,d%s glen appc,33' % P if L else 'fd,- glen appc,33')
        if L >= 1:
            hist.append('fd,d%s:d%s:i:d%s:e glen' % (P, P2, P))
            hist.append('fd,d%s:d%s:x glen' % (hx([0x7a]), P))
            hist.append('fd,d%s:a:d%s glen' % (P, P2))
        if L >= 2:
            cut = rng.randrange(1, L)
            hist.append('fd,d%s:i:d%s glen' % (rep(PAT, cut), rep(PAT2, L - cut)))
        # ---- substrings of L characters
        if L >= 1:
            hist.append('ptr,%s subp,1,%d osub,1,%d swap glen' % (rep(PAT, L + 2), L, L))
            hist.append('ptr,%s subp,0,%d osub,-%d,0 swap glen subp,0,%d' % (P, L, L, L + 1))
        # ---- comparisons and searches over L characters
        d = list(full)
        if d:
            d[-1] = 0x42 if d[-1] != 0x42 else 0x43
        hist.append('ptr,%s odup cmp,p cmp,c cmp,n,%d cmp,nc,%d find' % (P, L, L))
        hist.append('ptr,%s cmpp,p,%s cmpp,c,%s cmpp,n,%d,%s cmpp,nc,%d,%s cmpp,n,%d,%s'
                    % (P, hx(d), hx(d), L, hx(d), L, hx(d), max(L - 1, 0), hx(d)))
        hist.append('ptr,%s findp,%s findp,%s findp,%s idx,90 ridx,65 idx,0' % (P, hx(full[-3:] or [0x41]), hx(full[-3:] + [0x7a]), P))
        # ---- in-place edits at that length
        core = ([0x41] + full[1:-1] + [0x5a]) if L >= 2 else [0x41] * L
        hist.append('ptr,%s trim glen trim glen' % hx([0x20, 0x0a] + core + [0x09, 0x20]))
        hist.append('ptr,%s trim glen' % hx(core + [0x20]))
        hist.append('ptr,%s up glen down glen clr,120 glen' % P)
        if L <= revmax:
            hist.append('ptr,%s rev glen idx,65 ridx,65' % P)
    return hist


def twin_histories():
    """high-bit twins of every special character as trim / case / index / find / compare arguments, and every one
    of the 255 non-NUL byte values through the character-level methods"""
    hist = []
    pairs = [(c, c | 0x80) for c in WS + CASE_EDGES + [0x30, 0x39, 0x2d, 0x2b, 0x78]]
    for c, tw in pairs:
        for a, b in ((c, tw), (tw, c)):
            t = [a, 0x61, b, 0x5a, a, b]
            # trim must only strip whitespace (not its twin); the case methods only touch ASCII letters
            hist.append('ptr,%s trim glen up down rev trim glen' % hx(t))
            hist.append('ptr,%s trim glen' % hx([a, a, 0x61, b, b]))
            hist.append('ptr,%s trim glen' % hx([b, a, b]))
            hist.append('ptr,%s up glen down glen' % hx(t))
            # index / rindex / find: the twin is absent where only the partner occurs, and found where it occurs
            hist.append('ptr,%s idx,%d ridx,%d idx,%d ridx,%d' % (hx([0x62, a, 0x63, a]), a, a, b, b))
            hist.append('ptr,%s findp,%s findp,%s findp,%s' % (hx([0x62, a, 0x63, b, 0x64]), hx([b]), hx([a, 0x63]), hx([b, 0x63])))
            hist.append('ptr,%s on,ptr,%s find swap find' % (hx([0x62, a, 0x63, b, 0x64]), hx([0x63, b])))
            # comparisons: a character and its twin are different under every comparison, and ordered as unsigned bytes
            for k in ('p', 'c', 'n,3', 'nc,3', 'n,1', 'nc,2'):
                hist.append('ptr,%s cmpp,%s,%s cmpp,%s,%s' % (hx([0x61, a, 0x62]), k, hx([0x61, b, 0x62]), k, hx([0x61, a, 0x62])))
            hist.append('ptr,%s on,ptr,%s cmp,p cmp,c cmp,n,2 cmp,nc,2 swap cmp,p cmp,c' % (hx([0x61, a]), hx([0x61, b])))
            # character-form editing with the twin; clear
            hist.append('ptr,%s appc,%d prec,%d glen clr,%d idx,%d ridx,%d' % (hx([a]), b, b, b, a, b))
            # numbers: a twin of a digit / sign / space is not part of the number
            hist.append('ptr,%s tonum,10 tonum,16 tonum,0 flt' % hx([a, 0x31, 0x32, b, 0x33]))
            hist.append('ptr,%s tonum,10 tonum,16' % hx([0x31, b, 0x32]))
    for c in range(1, 256):
        t = [0x20, c, 0x61, c, 0x20]
        hist.append('ptr,%s idx,%d ridx,%d idx,%d ridx,%d findp,%s findp,%s up down trim glen'
                    % (hx(t), c, c, c ^ 0x80, c ^ 0x80, hx([c, 0x61]), hx([(c ^ 0x80) or 0x41, 0x61]), ))
        hist.append('ptr,%s trim glen cmpp,c,%s cmpp,p,%s' % (hx([c, 0x62, c]), hx([c ^ 0x20 or 0x41, 0x62, c]), hx([(c ^ 0x80) or 0x41, 0x62, c])))
        hist.append('init appc,%d prec,%d clr,%d glen' % (c, c, c))
    return hist

def every_op(n, others):
    """all single operations with every index / count in -n-2..n+2 (enumerated stratum)"""
    rng = list(range(-n - 2, n + 3))
    ops = ['app', 'pre', 'trim', 'rev', 'up', 'down', 'clr,120', 'spf,N', 'spf,E', 'spf,s,-', 'spf,s,7171', 'spf,d,5,-',
           'find', 'cmp,p', 'cmp,c', 'tonum,10', 'tonum,16', 'flt', 'glen', 'gsize', 'same', 'done', 'odup', 'swap',
           'appc,97', 'prec,32', 'appp,N', 'appp,-', 'appp,6162', 'prep,N', 'prep,-', 'prep,2061',
           'findp,N', 'findp,-', 'findp,61', 'idx,97', 'idx,0', 'ridx,97', 'ridx,0', 'idx,32', 'cmpp,p,N', 'cmpp,p,-',
           'cmpp,p,61', 'cmpp,c,41']
    for i in rng:
        ops.append('cmp,n,%d' % i)
        ops.append('cmpp,nc,%d,4120' % i)
        for c in rng:
            ops.append('spl,%d,%d' % (i, c))
            ops.append('splp,%d,%d,5a' % (i, c))
            ops.append('osub,%d,%d' % (i, c))
            ops.append('subp,%d,%d' % (i, c))
    return ops


class C01(vlib.PropertyCheck):
    id = 'C01'
    family = 'c01'
    harness = 'c01.c'
    impl_kwargs = dict(ldflags=['-Wl,--wrap=read'])
    case_timeout = 300
    nontrivial_rule = ('a history is non-trivial when the model run does not fault and at least one state-changing '
                       'operation after the constructor returned TRUE; distinct = distinct case lines. Strata: every single '
                       'operation with every index/count in -len-2..len+2 after every way of building each of six short texts '
                       '(including all ways of being empty), every read schedule up to 3 (quick) / 4 (thorough) events over a '
                       '7-letter event alphabet, stream texts of 0,1,4094..4097,8191,8192,12293 bytes, every length-driven operation '
                       '(sprintf output, append/prepend/splice text, constructor text and init_from_buff size, stream line, read chunk, '
                       'substring count, compare/find/case/clear/trim length) at 0 and 2^k-1, 2^k, 2^k+1 for every k <= 14, the high-bit '
                       'twin (c|0x80) of every whitespace character, case-range edge, digit and sign as trim/case/index/find/compare/'
                       'to_num argument, every byte value 1..255 through the character-level methods, random histories of '
                       '1-40 operations; each history is run through spif_str_* and spif_ustr_*')
    assumptions = ['texts, stream contents and delivered chunks contain no NUL byte; characters given to append_char / '
                   'prepend_char / clear are not NUL',
                   'init_from_buff is given size >= 0 and a buffer holding a terminator or at least size bytes',
                   'object sizes below 2^31 (strrev keeps its indices in int)',
                   '"C" locale; vsnprintf, strtod, strtoul, fgets and read(2) behave as modelled',
                   'malloc does not fail; set_len/set_size are only called with the current values (they are raw field writes)']

    tie_text = ('correspondence harness: gcc + ASan/UBSan build of src/*.c, harness/c01.c + c01_body.h (every history through '
                'spif_str_* and spif_ustr_*), driver/c01_main.ml, lib/vlib.py; read(2) schedules injected with -Wl,--wrap=read, '
                'streams are real files and pipes under build/work/c01')

    MANIFEST = dict(
        technique='Rocq refinement proof (executable Gallina model of every str/ustr method vs. ideal list-of-bytes value, by '
                  'induction over operation histories) + extracted-model/implementation correspondence check under ASan/UBSan',
        text=('Str/StrModel.v mirrors the repaired src/str.c (= src/ustr.c after renaming) method by method - six constructors, done, dup, '
              'append*/prepend*/splice*, substr*, trim, reverse (strrev of strings.c), upcase/downcase, clear, sprintf, cmp family, find*, '
              'index/rindex, to_num, to_float, accessors - on an object {text pointer or NULL, len, size} whose buffer has exactly as many '
              'cells as the allocation; every access is bounds- and initialisation-checked, so "stays inside its own buffer" is "never Fault". '
              'Proved in full (Closed under the global context): C01_str_refines - for every constructor and EVERY finite list of operations of a '
              'two-object machine (self + an argument object, so dup/substr results are used as later arguments and swapped in) the model returns '
              'Ok, its outputs equal those of the ideal sequence (Str/StrSpec.v), both final texts are the ideal ones and both objects satisfy the '
              'invariant NULL/0/0 or 0<=len<size=|buffer|, cells below len non-NUL, cell len NUL; C01_str_no_fault; C01_str_refused_unchanged / '
              '_refusal_exact (positions outside the text: failure value, object bit-for-bit unchanged); C01_str_queries (index, rindex, find*, cmp '
              'family, substr*, to_num, get_len on any object satisfying the invariant) with C01_spec_* giving the meaning of the ideal answers '
              '(first/last occurrence, first match, not-found = length, order laws); C01_str_stream_chunks_fp/_fd for streams, lines and read '
              'schedules of ANY length and any chunk size >= 2 / >= 1 (EINTR retried, EOF/EAGAIN/error stop), instantiated with buff_inc read from '
              'the source. Not proved, decided by the correspondence check only: that libc behaves as modelled (strtoul digits/prefix/overflow rule, '
              'fgets, read, vsnprintf as an oracle, strtod compared bit-for-bit by the harness), the exact capacity after each operation (level B), '
              'ustr.c = str.c (every history runs through both), and that the C code is the modelled function. set_len/set_size are raw field '
              'writes and appear in histories only with the current values. The unchanged library violated the property in 15 ways (fix: commits '
              'listed in the report; corpus/C01/00-defects.txt holds one minimal history per defect).'),
        design_ref='DESIGN.md section 7, C01; section 9 items 1-7')

    def split(self, case, out):
        a = re.sub(r' o?z=-?\d+', '', out)
        a = re.sub(r'r=S-?\d+', 'r=S', a)
        a = re.sub(r'r=O\d', 'r=O', a)
        a = re.sub(r'r=p\d+:', 'r=p:', a)
        return a, out

    def nontrivial(self, case, mout):
        if mout.startswith('FAULT'):
            return False
        segs = mout.split(' | ')
        return any(s.startswith('r=b1') for s in segs[1:])

    def gen(self, tier, rng):
        g = Gen(rng, tier)
        hist = []
        # 1. enumerated stratum: each way of building a short text, then each single operation
        texts = [[], [0x61], [0x20], [0x61, 0x62], [0x20, 0x61, 0x20], [0x09, 0x20]]
        for t in texts:
            h = hx(t)
            builds = ['ptr,' + h, 'buff,%s,%d' % (hx(t + [0]) + '????', len(t) + 3), 'buff,%s,%d' % (h, len(t)),
                      'fp,' + h, 'fd,d' + h if t else 'fd,-', 'init appp,' + h, 'ptr,7a7a osub,0,1 swap done re,ptr,' + h]
            if not t:
                builds += ['init', 'ptr,N', 'buff,N,0', 'ptr,61 done', 'ptr,2020 trim', 'init spf,E', 'fpp,-', 'fdp,-',
                           'fp,0a61', 'fd,e:d61', 'fd,a', 'fd,x', 'fd,i:i:e']
            others = ['', 'on,ptr,6263', 'on,init', 'on,buff,64650000,4', 'odup']
            ops = every_op(len(t), others)
            if tier == 'quick':
                builds = builds if not t else builds[:3] + [rng.choice(builds[3:])]
            for b in builds:
                for o in others:
                    sel = ops
                    if tier == 'quick' and (o or len(t) > 1):
                        sel = [x for x in ops if rng.random() < (0.12 if len(t) > 1 else 0.3)]
                    elif o:
                        sel = [x for x in ops if x.split(',')[0] in ('app', 'pre', 'spl', 'find', 'cmp', 'swap')]
                    for x in sel:
                        hist.append(' '.join(p for p in (b, o, x, 'glen') if p))
        # 2. read schedules, enumerated
        alpha = ['d61', 'd6263*4096', 'd64*4097', 'i', 'a', 'e', 'x']
        depth = 3 if tier == 'quick' else 4
        def scheds(d):
            if d == 0:
                yield []
                return
            for s in scheds(d - 1):
                yield s
                if len(s) == d - 1:
                    for e in alpha:
                        yield s + [e]
        seen = set()
        for s in scheds(depth):
            k = ':'.join(s) or '-'
            if k in seen:
                continue
            seen.add(k)
            hist.append('fd,%s appc,33' % k)
        for n in [0, 1, 4095, 4096, 4097, 8191, 8192, 8193, 3 * 4096 + 5]:
            for pat in ['61', '6a20']:
                t = '%s*%d' % (pat, n) if n else '-'
                for c in ['fp', 'fpp', 'fdp', 'ptr']:
                    tail = ' trim rev' if (n <= 1 or (n == 4097 and c == 'ptr' and pat == '6a20')) else ''
                    hist.append('%s,%s appc,33%s glen' % (c, t, tail))
                hist.append('fd,d%s:i:d%s appp,%s prec,35' % (t, t, t) if n else 'fd,i:e prec,35')
                if n:
                    hist.append('fp,%s' % hx(expand(t) + [0x0a, 0x62]) if n < 200 else 'fp,%s appc,10' % t)
        # lines of 4094..4097 bytes followed by a newline and more text: written out in full
        for n in [4094, 4095, 4096, 4097, 8190, 8191]:
            body = [0x61 + (i % 7) for i in range(n)]
            hist.append('fp,%s glen appc,33' % hx(body + [0x0a] + [0x62] * 3))
            hist.append('fpp,%s glen' % hx(body + [0x0a]))
        # 2b. powers of two and their neighbours as the length of every length-driven operation
        hist += boundary_histories(rng, tier)
        # 2c. high-bit twins of the special characters, every byte value
        hist += twin_histories()
        # 3. random histories
        nrand = 700 if tier == 'quick' else 110000
        for i in range(nrand):
            nops = rng.choice([1, 2, 3, 5, 8, 13, 20, 30, 40])
            hist.append(g.history(nops, big=(rng.random() < (0.04 if tier == 'quick' else 0.02))))
        cases = []
        for h in hist:
            cases.append('str ' + h)
            cases.append('ustr ' + h)
        return cases




# The extracted model is a single-threaded list program (about 0.3 ms per short history, 30 ms per
# multi-kilobyte one).  For large case files run it on slices in parallel; results are identical
# to one sequential run (each case is independent).  Only this check's process is affected.
_seq_run_model = vlib.run_model

def _par_run_model(exe, cases_path, ncases, timeout=600):
    import os, subprocess
    jobs = min(max(1, (os.cpu_count() or 2) - 2), 12)
    if ncases < 4000 or jobs < 2 or not os.path.basename(exe).startswith('c01_'):
        return _seq_run_model(exe, cases_path, ncases, timeout=timeout)
    with open(cases_path) as f:
        lines = f.readlines()
    # striped, not sliced: the expensive histories (multi-kilobyte texts) sit next to each other in the file
    procs = []
    for j in range(jobs):
        part = lines[j::jobs]
        if not part:
            break
        pp = '%s.part%d' % (cases_path, j)
        with open(pp, 'w') as f:
            f.writelines(part)
        # output to a file: with pipes every worker but the one being read stalls once 64 KB are pending
        of = open(pp + '.out', 'wb')
        procs.append((j, pp, subprocess.Popen([exe, pp], stdout=of, stderr=subprocess.PIPE,
                                               env=dict(os.environ, OCAMLRUNPARAM='l=512M'))))
        of.close()
    results = [None] * ncases
    rc_all, err_all = 0, ''
    for off, pp, pr in procs:
        try:
            _, e = pr.communicate(timeout=timeout)
        except subprocess.TimeoutExpired:
            pr.kill()
            _, e = pr.communicate()
            rc_all, err_all = -9, err_all + '[timeout]'
        rc_all = rc_all or pr.returncode
        err_all += e.decode(errors='replace')[-500:]
        with open(pp + '.out', 'rb') as f:
            o = f.read()
        os.unlink(pp + '.out')
        for line in o.decode(errors='replace').split('\n'):
            if line.startswith('#'):
                sp = line.find(' ')
                k = off + int(line[1:sp]) * jobs
                if k < ncases:
                    results[k] = line[sp + 1:]
        os.unlink(pp)
    return results, (rc_all, err_all)

vlib.run_model = _par_run_model

CHECK = C01()
