"""C14: URL objects decompose and recompose every well-formed URL exactly (src/url.c)."""
import itertools
import vlib

def hx(bs):
    return ''.join('%02x' % b for b in bs) or '-'

def b(s):
    return [ord(c) for c in s]

LOOKUPS = ['N', 'P', 'S:80:1', 'S:65535:1', 'S:0:1', 'S:8080:0', 'U:69:1', 'U:32768:1', 'U:40000:0', 'S:10000:1', 'S:32767:1']

class C14(vlib.PropertyCheck):
    id = 'C14'
    family = 'c14'
    harness = 'c14.c'
    nontrivial_rule = ('component tuples with every optional part present/absent rendered in the accepted shape (with and '
                       'without "//"), hostile separators inside components, exhaustive strings over {a,1,:,/,?,@} up to a '
                       'length bound, random byte strings; each crossed with the lookup outcomes {none, protocol, service '
                       'with port, service whose protocol does not resolve}; non-trivial = at least one component present; '
                       'distinct = distinct case lines')
    assumptions = ['getprotobyname/getservbyname are an oracle: the harness defines both and answers from the case line',
                   'the C01 string operations used to copy components and to build the canonical text behave as their model (property C01)',
                   'port numbers 0..65535 as returned by ntohs of a 16-bit field']
    MANIFEST = dict(
        technique='Rocq theorems (totality/safety = refinement of the checked scanner to a pure parser; parse-render round trip; canonical fixpoint) + extracted-model/implementation correspondence check with interposed netdb',
        text=('url_total: for every byte string and every lookup answer the checked model of spif_url_parse returns Ok and equals a pure '
              'list-level parser (no read outside the text, no use of a lookup result that was not obtained). url_parse_render: for every '
              'component tuple meeting the stated charset conditions (record wf: proto alphanumeric; user without :@/?; passwd, port without @/?; host non-empty without :@/?; path starts with / and has no ?; a query contains no / when there is no path; without // the text after the protocol must not begin with // and, without a protocol, the text before the first : must not be purely alphanumeric), with or without //, parsing the rendered text gives the components back with the port filled '
              'from the oracle exactly when a protocol but no port was given. url_canonical_fixpoint as a corollary. Tied to src/url.c by '
              'running the extracted model and the ASan build on generated URLs with all lookup outcomes (none, protocol, tcp service, udp-only service, service whose protocol does not resolve; ports 0..65535); the interposed lookups also check the arguments they are called with.'),
        design_ref='DESIGN.md section 7, C14')

    def gen(self, tier, rng):
        cases = []
        def add(text, lks=LOOKUPS):
            if 0 in text:
                return
            for lk in lks:
                cases.append('url %s %s' % (lk, hx(text)))
        # 1. component tuples
        protos = [None, b('http'), b('tcp'), b('x9')]
        users = [None, b('u'), b('bob')]
        pws = [None, b('pw'), b('p:w'), b('')]
        hosts = [None, b('h'), b('host.dom'), b('10.0.0.1')]
        ports = [None, b('80'), b('x')]
        paths = [None, b('/'), b('/a/b'), b('/a@b:c')]
        queries = [None, b('q=1'), b('a?b/c@d:e'), b('')]
        tuples = list(itertools.product(protos, users, pws, hosts, ports, paths, queries, [True, False]))
        if tier == 'quick':
            rng.shuffle(tuples)
            tuples = tuples[:1500]
        for (pr, us, pw, ho, po, pa, qu, sl) in tuples:
            if pw is not None and us is None:
                continue
            t = []
            if pr is not None: t += pr + b(':')
            if sl: t += b('//')
            if us is not None:
                t += us
                if pw is not None: t += b(':') + pw
                t += b('@')
            if ho is not None:
                t += ho
                if po is not None: t += b(':') + po
            elif po is not None:
                t += b(':') + po
            if pa is not None: t += pa
            if qu is not None: t += b('?') + qu
            add(t, LOOKUPS if tier != 'quick' else [rng.choice(LOOKUPS), 'P'])
        # 2. exhaustive small strings over the separator alphabet
        alpha = b('a1:/?@')
        L = 5 if tier == 'quick' else 7
        for l in range(0, L + 1):
            for tup in itertools.product(alpha, repeat=l):
                add(list(tup), ['N', 'P'] if l > 3 else LOOKUPS)
        # 3. random bytes and hostile placements
        for _ in range(300 if tier == 'quick' else 20000):
            n = rng.choice([1, 2, 5, 12, 40])
            add([rng.choice(alpha + [0x80, 0xff, 0x20, 0x2e, 0x41]) for _ in range(n)], [rng.choice(LOOKUPS)])
        return cases

    def nontrivial(self, case, mout):
        return not mout.startswith('FAULT') and any(tok not in ('_',) for tok in mout.split(' U ')[0].split(' '))

CHECK = C14()
