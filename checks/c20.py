"""C20: debug output and assertions are gated exactly by the compile-time and the runtime level.

Translator based: tools/gen_c20.py regenerates coq/Gen/DebugLadder.v from include/libast.h on every run;
the theorems of coq/Properties/C20.v are re-checked against it.  The translator's reading (and the hand
model of the msgs.c primitives) is tied to the real preprocessor / compiler by probe programs built here:
one probe per compile-time level c, generated from the same macro list, compiled against the tree's headers
with a config.h whose DEBUG line is rewritten, linked with the library objects built at the same DEBUG,
and run once per cell (macro, r, silent, program name, condition value) in a child process."""
import concurrent.futures, json, os, re, shutil, subprocess, sys, time
import vlib

sys.path.insert(0, os.path.join(vlib.VERIF, 'tools'))
import gen_c20

LEVELS_QUICK = [0, 1, 2, 3, 4, 5, 9998, 9999, 10000]
LEVELS_THOROUGH = [0, 1, 2, 3, 4, 5, 6, 9998, 9999, 10000, 2147483647]
RUNTIME_QUICK = [0, 1, 2, 3, 4, 5, 6, 9999]
RUNTIME_THOROUGH = [0, 1, 2, 3, 4, 5, 6, 7, 8, 9, 10, 9998, 9999, 10000, 4294967295]
PRIMS = ['prim:dprintf', 'prim:warning', 'prim:error', 'prim:fatal']
IMPL_DIR = os.path.join(vlib.BUILD, 'impl', 'c20')
RUNNER = os.path.join(vlib.VERIF, 'harness', 'c20_run.py')
GEN_OUT = os.path.join(vlib.COQ, 'Gen', 'DebugLadder.v')


# --------------------------------------------------------------------------------------
# the macro list of the current tree (same function the Coq side is generated with)
# --------------------------------------------------------------------------------------
_info_cache = {}


def tree_info():
    """(coq text, info) of the translator for the current tree, or (None, error message)"""
    if 'v' not in _info_cache:
        try:
            _info_cache['v'] = gen_c20.generate(vlib.REPO)
        except gen_c20.GenError as e:
            _info_cache['v'] = (None, str(e))
    return _info_cache['v']


def probe_info():
    """the macro list the probe programs are generated from: that of the translation, or - when the translation
    failed only because an output call is outside the `constant format + matching arguments` grammar - that of
    a lenient second reading (the theorems stay broken; the probes then look for a failing cell)"""
    if 'p' not in _info_cache:
        text, info = tree_info()
        if text is None:
            try:
                _, info = gen_c20.generate(vlib.REPO, lenient=True)
            except gen_c20.GenError:
                info = None
        _info_cache['p'] = info
    return _info_cache['p']


def probe_variants(info):
    """list of (macro name, takes a condition, has a second variant of its use) in ladder order, then the primitives"""
    fam = info['families']
    v = []
    for n in fam['hdr']:
        v.append((n, False, False))
    for (n, rv) in fam['assert_cond']:
        v.append((n, True, True))
    for (n, rv) in fam['notreached']:
        v.append((n, False, False))
    for (n, rv) in fam['require']:
        v.append((n, True, True))
    for n in fam['abort']:
        v.append((n, False, False))
    for n in fam['dprintf_plain']:
        v.append((n, False, True))
    for (n, k) in fam['dprintf']:
        v.append((n, False, True))
    for n in fam['never']:
        v.append((n, False, True))
    for d in fam['d']:
        v.append((d['name'], False, True))
        v.append((d['if_name'], False, False))
    for p in PRIMS:
        v.append((p, False, True))
    return v


# the condition of the second variant: evaluates to g_cond, counts one evaluation, and its spelling is full
# of text that looks like printf conversions (a log call that takes the stringified condition for its format
# string prints garbage or dies in vfprintf).  No %n.
COND2 = '(n_cond++, (g_cond % 2) && "%s%d%%% s%5.3s%lu"[0] == \'%\')'


def uses_header(info):
    """C text of c20_uses.h: two functions per macro of the generated list (second variant: condition text /
    argument strings that look like conversions), plus the text each must log literally"""
    fam = info['families']
    fn, tab = [], []

    def cid(n, second=False):
        return 'use_' + re.sub(r'\W', '_', n) + ('_2' if second else '')

    def void(n, stmt, expect='NULL', stmt2=None, expect2='NULL'):
        fn.append('static void %s(void) { fell = 0; %s fell = 1; }' % (cid(n), stmt))
        if stmt2 is not None:
            fn.append('static void %s(void) { fell = 0; %s fell = 1; }' % (cid(n, True), stmt2))
        tab.append('    { "%s", 0, %s, NULL, %s, %s, NULL, %s },' % (n, cid(n), expect, cid(n, True) if stmt2 is not None else 'NULL',
                                                                    expect2 if stmt2 is not None else expect))

    def intf(n, stmt, expect='NULL', stmt2=None, expect2='NULL'):
        fn.append('static int %s(void) { fell = 0; %s fell = 1; return P_FALLTHROUGH; }' % (cid(n), stmt))
        if stmt2 is not None:
            fn.append('static int %s(void) { fell = 0; %s fell = 1; return P_FALLTHROUGH; }' % (cid(n, True), stmt2))
        tab.append('    { "%s", 1, NULL, %s, %s, NULL, %s, %s },' % (n, cid(n), expect, cid(n, True) if stmt2 is not None else 'NULL',
                                                                    expect2 if stmt2 is not None else expect))
    for n in fam['hdr']:
        void(n, '%s();' % n)
    for (n, rv) in fam['assert_cond'] + fam['require']:
        tail = ', P_VAL' if rv else ''
        (intf if rv else void)(n, '%s(P_COND%s);' % (n, tail), '"P_COND"',
                               '%s(%s%s);' % (n, COND2, tail), 'P_STR(%s)' % COND2)
    for (n, rv) in fam['notreached']:
        (intf if rv else void)(n, '%s(%s);' % (n, 'P_VAL' if rv else ''))
    for n in fam['abort']:
        void(n, '%s();' % n)
    for n in fam['dprintf_plain'] + [x for (x, _) in fam['dprintf']] + fam['never']:
        void(n, '%s(P_ARGS);' % n, 'P_ARGS_TEXT', '%s(P_ARGS2);' % n, 'P_ARGS2_TEXT')
    for d in fam['d']:
        void(d['name'], '%s(P_ARGS);' % d['name'], 'P_ARGS_TEXT', '%s(P_ARGS2);' % d['name'], 'P_ARGS2_TEXT')
        void(d['if_name'], '%s { n_mark++; }' % d['if_name'])
    for (pn, f) in (('prim:dprintf', 'libast_dprintf'), ('prim:warning', 'libast_print_warning'),
                    ('prim:error', 'libast_print_error'), ('prim:fatal', 'libast_fatal_error')):
        void(pn, '%s("probe-msg %%d\\n", 7);' % f, 'P_ARGS_TEXT',
             '%s("probe-arg [%%s] %%d%%%% [%%-4s] %%%%s\\n", "100%%s %%d %%%% %% s %%lu", 7, "%%x");' % f, 'P_ARGS2_TEXT')
    return ('/* GENERATED by checks/c20.py from the macro list of tools/gen_c20.py - do not edit */\n' +
            '\n'.join(fn) + '\nstatic const struct use uses[] = {\n' + '\n'.join(tab) + '\n    { NULL, 0, NULL, NULL, NULL, NULL, NULL, NULL }\n};\n')


# --------------------------------------------------------------------------------------
# builds: library + probe at DEBUG = c, nothing kept across runs
# --------------------------------------------------------------------------------------
def _cc(cmd):
    p = subprocess.run(cmd, stdout=subprocess.PIPE, stderr=subprocess.STDOUT)
    return p.returncode, p.stdout.decode(errors='replace')


def build_levels(levels, fresh=True):
    """compile the library sources of the current tree and the probe at every DEBUG value in levels
    (all compile jobs of all levels share one pool).  Returns (dict c -> exe, log)."""
    info = probe_info()
    if info is None:
        return {}, 'translator: ' + tree_info()[1]
    if fresh:
        shutil.rmtree(IMPL_DIR, ignore_errors=True)
    os.makedirs(IMPL_DIR, exist_ok=True)
    with open(os.path.join(vlib.REPO, 'config.h')) as f:
        cfg = f.read()
    gen_dir = os.path.join(IMPL_DIR, 'gen')
    os.makedirs(gen_dir, exist_ok=True)
    with open(os.path.join(gen_dir, 'c20_uses.h'), 'w') as f:
        f.write(uses_header(info))
    srcs = [os.path.join(vlib.REPO, 'src', s) for s in vlib.lib_sources()]
    jobs, objs = [], {}
    for c in levels:
        d = os.path.join(IMPL_DIR, 'c%d' % c)
        shutil.rmtree(d, ignore_errors=True)
        os.makedirs(d)
        cfg2, n = re.subn(r'#define DEBUG \d+', '#define DEBUG %d' % c, cfg)
        if n != 1:
            return {}, 'config.h: DEBUG line not found'
        with open(os.path.join(d, 'config.h'), 'w') as f:
            f.write(cfg2)
        # the rewritten config.h comes first: libast_internal.h includes "config.h"
        base = ['gcc', '-O1', '-w', '-fno-optimize-sibling-calls', '-DHAVE_CONFIG_H', '-DLIBAST_VERIF',
                '-I' + d, '-I' + vlib.REPO, '-I' + os.path.join(vlib.REPO, 'include'),
                '-I' + os.path.join(vlib.REPO, 'include', 'libast'), '-I' + os.path.join(vlib.REPO, 'src'), '-I' + gen_dir]
        objs[c] = []
        for s in srcs + [os.path.join(vlib.VERIF, 'harness', 'c20.c')]:
            o = os.path.join(d, os.path.basename(s)[:-2] + '.o')
            objs[c].append(o)
            jobs.append(base + ['-c', s, '-o', o])
    log = ''
    ok = True
    with concurrent.futures.ThreadPoolExecutor(max_workers=vlib.NCPU) as ex:
        for (rc, out) in ex.map(_cc, jobs):
            log += out
            ok = ok and rc == 0
    if not ok:
        return {}, log
    exes = {}
    links = []
    for c in levels:
        exe = os.path.join(IMPL_DIR, 'c%d' % c, 'probe')
        exes[c] = exe
        links.append(['gcc'] + objs[c] + ['-o', exe, '-lpcre', '-lX11', '-lm', '-ldl', '-lpthread'])
    with concurrent.futures.ThreadPoolExecutor(max_workers=vlib.NCPU) as ex:
        for (rc, out) in ex.map(_cc, links):
            log += out
            ok = ok and rc == 0
    if not ok:
        return {}, log
    return exes, log


def run_cells(cases, start=0):
    """cases: list of 'macro c r silent name cond' lines; returns list of result strings (None before start).
    Levels without a probe binary are built on demand (replay of an arbitrary cell)."""
    parsed = []
    for k, line in enumerate(cases):
        t = line.split()
        if k < start:
            parsed.append(None)
            continue
        if len(t) == 6 and re.match(r'^\d+$', t[1]) and t[5] in ('0', '1', '2', '3'):
            parsed.append((t[0], int(t[1]), t[2], t[3], t[4], t[5]))
        else:
            parsed.append('HARNESS-ERROR:bad-case')
    need = sorted(set(p[1] for p in parsed if isinstance(p, tuple)))
    missing = [c for c in need if not os.path.exists(os.path.join(IMPL_DIR, 'c%d' % c, 'probe'))]
    blog = ''
    if missing:
        _, blog = build_levels(missing, fresh=False)
    results = [None] * len(cases)
    chunks = []
    nchunk = max(1, vlib.NCPU // max(1, len(need)) + 1)
    for c in need:
        idx = [k for k, p in enumerate(parsed) if isinstance(p, tuple) and p[1] == c]
        step = (len(idx) + nchunk - 1) // nchunk
        for j in range(0, len(idx), max(1, step)):
            chunks.append((c, idx[j:j + step]))
    work = os.path.join(vlib.BUILD, 'work', 'c20')
    os.makedirs(work, exist_ok=True)

    def run_chunk(arg):
        c, idx = arg
        exe = os.path.join(IMPL_DIR, 'c%d' % c, 'probe')
        out = {}
        if not os.path.exists(exe):
            for k in idx:
                out[k] = 'HARNESS-ERROR:no-probe-binary-for-DEBUG=%d' % c
            return out
        path = os.path.join(work, 'cells-%d-%d-%d.txt' % (os.getpid(), c, idx[0]))
        with open(path, 'w') as f:
            for k in idx:
                p = parsed[k]
                f.write('%d %s %s %s %s %s\n' % (k, p[0], p[2], p[3], p[4], p[5]))
        rc, o, e = vlib.sh([exe, path], timeout=600)
        os.unlink(path)
        for line in o.split('\n'):
            m = re.match(r'^#(\d+) (.*)$', line)
            if m:
                out[int(m.group(1))] = m.group(2)
        for k in idx:
            out.setdefault(k, 'HARNESS-ERROR:probe-runner-died rc=%d' % rc)
        return out
    with concurrent.futures.ThreadPoolExecutor(max_workers=vlib.NCPU) as ex:
        for out in ex.map(run_chunk, chunks):
            for k, v in out.items():
                results[k] = v
    for k, p in enumerate(parsed):
        if isinstance(p, str):
            results[k] = p
    return results


# --------------------------------------------------------------------------------------
# Coq side helpers
# --------------------------------------------------------------------------------------
def ladder_is_current():
    """coq/Gen is shared with checks of other properties that may run against other trees"""
    text, _ = tree_info()
    if text is None:
        return True
    try:
        with open(GEN_OUT) as f:
            return f.read() == text
    except OSError:
        return False


_orig_coq_property = vlib.coq_property


def coq_property(prop_id, **kw):
    if prop_id != 'C20':
        return _orig_coq_property(prop_id, **kw)
    res = None
    for attempt in range(4):
        res = _orig_coq_property(prop_id, **kw)
        if ladder_is_current():
            break
    if not res['ok']:
        # name the lemma of Debug/DebugFacts.v (or the file) the build stopped at
        log = res.get('build_log', '') + res.get('log', '')
        m = re.search(r'File "\./(Debug/\w+\.v)", line (\d+)', log)
        if m:
            try:
                with open(os.path.join(vlib.COQ, m.group(1))) as f:
                    upto = f.read().split('\n')[:int(m.group(2))]
                names = re.findall(r'^\s*(?:Lemma|Theorem)\s+(\w+)', '\n'.join(upto), flags=re.M)
                if names:
                    res['failed'] = 'LV.%s.%s (%s:%s)' % (m.group(1)[:-2].replace('/', '.'), names[-1], m.group(1), m.group(2))
            except OSError:
                pass
        text, info = tree_info()
        if text is None:
            res['failed'] = 'translator tools/gen_c20.py: ' + info
    return res


vlib.coq_property = coq_property


def vm_compute_failing_cells(per_macro=12):
    """cells on which behaviour and specification differ, listed by the boolean checker under vm_compute"""
    work = os.path.join(vlib.BUILD, 'work', 'c20')
    os.makedirs(work, exist_ok=True)
    path = os.path.join(work, 'Diag%d.v' % os.getpid())
    with open(path, 'w') as f:
        f.write('From LV Require Import Debug.DebugModel.\n'
                'Eval vm_compute in (failing_cells_summary %d).\n' % per_macro)
    with vlib.Lock('coq'):
        rc, o, e = vlib.sh('cd %s && timeout 300 coqc -Q %s LV %s 2>&1' % (work, vlib.COQ, path))
    for junk in [path[:-2] + ext for ext in ('.v', '.vo', '.vok', '.vos', '.glob')] + \
                [os.path.join(work, '.' + os.path.basename(path)[:-2] + '.aux')]:
        try:
            os.unlink(junk)
        except OSError:
            pass
    if rc != 0:
        return None, 0, o[-1500:]
    m = re.search(r'=\s*\((\d+)(?:%nat)?\s*,', o)
    total = int(m.group(1)) if m else -1
    cells = []
    for m in re.finditer(r'\("([^"]+)"(?:%mn)?,\s*\(?(-?\d+)\)?(?:%Z)?,\s*\(?(-?\d+)\)?(?:%Z)?,\s*(true|false),\s*(true|false),\s*(true|false)\)', o):
        cells.append((m.group(1), int(m.group(2)), int(m.group(3)), m.group(4) == 'true', m.group(5) == 'true', m.group(6) == 'true'))
    return cells, total, ''


# --------------------------------------------------------------------------------------
class C20(vlib.PropertyCheck):
    id = 'C20'
    env_passes = False     # the runtime debug level is part of this property's cases
    family = 'c20'
    harness = 'c20.c'
    nontrivial_rule = ('the probe matrix is enumerated completely: every macro of the generated families (and the four msgs.c '
                       'primitives) x compile-time level x runtime level x silent x program name x condition value; a cell is '
                       'non-trivial when something observable happens in it (text on stderr, an argument evaluated, or control '
                       'does not fall through); distinct = distinct cells')
    assumptions = ['format strings are non-NULL', 'the client does not pre-define DPRINTF before including libast.h',
                   'gcc configuration (__FILE__, __LINE__, __GNUC__ defined) for the probes; the theorems cover the other branches of the header too',
                   'LIBAST_DEBUG_FD is stderr (checked by the translator)', 'DEBUG_LEVEL is an unsigned int (runtime levels 0 .. 2^32-1)']

    MANIFEST = dict(
        technique='Rocq theorems about a model regenerated from the header by a translator on every run + probe-program matrix against the real preprocessor/compiler',
        engine='rocq-model',
        text=('tools/gen_c20.py parses the __DEBUG, ASSERT/REQUIRE, DPRINTFn and D_* blocks of include/libast.h between explicit anchors into '
              'coq/Gen/DebugLadder.v (per macro: alternatives (compile-time condition, body) in a nine-constructor statement language; a macro '
              'outside the language is an error, never a default). Debug/DebugModel.v interprets it (first alternative whose #if path holds) on top of a '
              'hand model of the four msgs.c output functions. Proved for ALL integers c (DEBUG) and r (DEBUG_LEVEL), both compiler predicates the '
              'header tests, silent flag, program name set/NULL and condition value, for EVERY macro of each generated family: D_X of documented level L '
              'prints iff c>=L and r>=L and not silenced, and evaluates its arguments exactly then (same for the D_X_IF prefix); DEBUG_X equals its '
              'documented level; DPRINTFn iff c>=1 and r>=n; DPRINTF iff c>=1; with the silent flag set (or no program name) no macro and no primitive '
              'prints; for c>=1 a failed ASSERT/ASSERT_RVAL/ASSERT_NOTREACHED(_RVAL) warns and returns the stated value at r<1 and is fatal at r>=1, a '
              'failed REQUIRE(_RVAL) returns the value and logs iff c>=1 and r>=1; for c<1 ASSERT vanishes (nothing evaluated) and REQUIRE / '
              'ASSERT_NOTREACHED are bare returns; ABORT is fatal; exactly one #define of each macro is reached in every environment. The proofs are '
              'boolean checkers evaluated by vm_compute on the finitely many regions cut out by the level constants, lifted to all c and r by a '
              'soundness theorem proved once for any ladder (behaviour depends on c, r only through comparisons with constants occurring in the '
              'ladder). Tie, decided by the probe matrix only: that gcc expands the macros as the translator reads them, and that msgs.c behaves as '
              'Debug/MsgsModel.v (probe per macro and primitive, DEBUG in {0..5,9998,9999,10000}, runtime levels 0..6 and 9999, silent on/off, '
              'program name set/NULL; stderr line classes, exit status, argument side-effect counters, return value; every use also in a second '
              'variant whose condition spelling / argument strings are full of text that looks like printf conversions (%s %d %% "% s"), with the '
              'logged text required to contain the stringified condition exactly as the preprocessor spells it, resp. the correctly formatted '
              'message). The translator holds every output call of a macro body to `constant format string + one argument of the right type per '
              'conversion`, the stringified parameter only as an argument of %s: a format built from the parameter is outside the language '
              '(broken tie; the probes are then generated from a lenient second reading of the macro list and supply the failing cell). The non-gcc branches of the '
              'header are proved on the translator\'s reading but not probed.'),
        design_ref='DESIGN.md section 7, C20')

    def __init__(self):
        self._spec = {}
        self._search_round = 0
        self._cov = None

    # ---- builds ---------------------------------------------------------------------------
    def build_impl(self):
        tier = 'thorough' if ('thorough' in sys.argv[2:] or (len(sys.argv) <= 2 and os.environ.get('VERIF_TIER') == 'thorough')) else 'quick'
        self._tier = tier
        levels = LEVELS_THOROUGH if tier == 'thorough' else LEVELS_QUICK
        t0 = time.time()
        # the extracted model must come from this tree's ladder as well (coq/Gen is shared)
        for attempt in range(3):
            if ladder_is_current():
                break
            vlib.sh(['python3', os.path.join(vlib.VERIF, 'tools', 'gen_c20.py'), vlib.REPO])
            vlib.build_model(self.family)
        exes, log = build_levels(levels)
        self._build_s = round(time.time() - t0, 2)
        self._levels = levels
        if not exes:
            return None, log
        return RUNNER, log

    # ---- cells ----------------------------------------------------------------------------
    def cells(self, tier):
        info = probe_info()
        if info is None:
            return []
        levels = LEVELS_THOROUGH if tier == 'thorough' else LEVELS_QUICK
        rts = RUNTIME_THOROUGH if tier == 'thorough' else RUNTIME_QUICK
        out = []
        for (name, has_cond, has_second) in probe_variants(info):
            # condition field: bit 0 = value of the condition, bit 1 = second variant of the use (condition /
            # argument strings that look like printf conversions)
            conds = (1, 0) if has_cond else (1,)
            if has_second:
                conds = conds + tuple(x + 2 for x in conds)
            for c in levels:
                if name.startswith('prim:') and tier == 'quick' and c not in (0, 1, 4, 9999):
                    continue
                for r in rts:
                    for silent in (0, 1):
                        for nm in (1, 0):
                            if nm == 0 and tier == 'quick' and r not in (0, 1, 9999):
                                continue
                            for cond in conds:
                                out.append('%s %d %d %d %d %d' % (name, c, r, silent, nm, cond))
        return out

    def _load_spec(self, cases):
        """specification lines for the cases, from the extracted Coq definitions (model driver, 'spec' mode)"""
        todo = [c for c in cases if c not in self._spec]
        exe = os.path.join(vlib.BUILD, 'c20_model')
        if tree_info()[0] is None:
            # no translation of this tree: the specification of the families as last extracted from a tree
            # whose theorems checked (build/c20_model would be a stale file)
            exe = vlib.good_model(self.family) or exe
        if not todo or not os.path.exists(exe):
            return
        work = os.path.join(vlib.BUILD, 'work', 'c20')
        os.makedirs(work, exist_ok=True)
        path = os.path.join(work, 'spec-%d.txt' % os.getpid())
        with open(path, 'w') as f:
            for c in todo:
                f.write('spec ' + c + '\n')
        outs, _ = vlib.run_model(exe, path, len(todo))
        os.unlink(path)
        for c, o in zip(todo, outs):
            self._spec[c] = o

    def gen(self, tier, rng):
        cases = self.cells(tier)
        self._load_spec(cases)
        self._ncells = len(cases)
        return cases

    def search_gen(self, tier, rng):
        """cells listed by the vm_compute checker (exact for a translator-based property), then the thorough grid"""
        self._search_round += 1
        cases = []
        cells, total, err = vm_compute_failing_cells()
        if cells:
            for (n, c, r, si, na, co) in cells:
                if c >= 0 and 0 <= r < 2 ** 32:
                    cases.append('%s %d %d %d %d %d' % (n, c, r, int(si), int(na), int(co)))
        if self._search_round == 1:
            cases += self.cells('thorough')
        cases = cases[:6000]
        self._load_spec(cases)
        return cases

    # ---- comparison ------------------------------------------------------------------------
    def split(self, case, out):
        # level A is decided by the specification oracle below; model agreement is level B
        return '', out

    def oracle(self, case, iout):
        if case not in self._spec:
            self._load_spec([case])
        sp = self._spec.get(case)
        if sp is None or sp.startswith('DRIVER-ERROR'):
            return None
        if iout != sp:
            note = ''
            if ' txt=BAD' in iout and ' txt=ok' in sp:
                note = ' (the text it logged does not contain the literal condition / message text of the use)'
            return 'specification of the macro family says "%s", the implementation did "%s"%s' % (sp, iout, note)
        return None

    def nontrivial(self, case, mout):
        return not (mout.startswith('out=- cond=0 args=0 val=0 mark=0 ctl=fall'))

    def extra_steps(self, ctx):
        cov = ctx['cov']
        self._cov = cov
        tier = ctx['tier']
        text, info = tree_info()
        levels = LEVELS_THOROUGH if tier == 'thorough' else LEVELS_QUICK
        rts = RUNTIME_THOROUGH if tier == 'thorough' else RUNTIME_QUICK
        cov['exhaustive'] = True
        cov['exhaustive_bounds'] = dict(
            macros=[n for (n, _, _) in probe_variants(info)] if text else [],
            compile_time_levels=levels, runtime_levels=rts, silent=[0, 1],
            program_name=['set', 'NULL (quick: at runtime levels 0, 1, 9999)'], condition=['true', 'false (macros that take one)'],
            use_variant=['plain', 'condition text / argument strings full of %-conversions (macros that take a condition or an argument list, primitives)'],
            note='every cell of the product is executed against the implementation, the extracted model and the extracted specification')
        cov['probe_cells'] = getattr(self, '_ncells', 0)
        cov['probe_builds'] = dict(levels=levels, seconds=getattr(self, '_build_s', None),
                                   flags='gcc -O1 -fno-optimize-sibling-calls, no sanitizer (one child process per cell, 1 MiB stack limit)')
        if text is None:
            cov['translator_error'] = info
        else:
            cov['translator'] = dict(macros=len(info['macros']), alternatives=sum(len(m['lines']) for m in info['macros']),
                                     levels=info['levels'], digest=info['digest'])
        cov['trusted_base'] = cov.get('trusted_base', []) + [
            'translator tools/gen_c20.py (regular expressions + recursive-descent parser over the four anchored blocks of libast.h); its output is '
            'validated against gcc on every probe cell',
            'probe harness harness/c20.c + generated c20_uses.h, checks/c20.py build orchestration']
        out = []
        broken = cov.get('discharged', 0) < cov.get('obligations', 0)
        if broken and text is not None and ctx.get('model_exe'):
            # exact step of DESIGN.md section 5: list the failing cells with vm_compute, run each on the implementation
            cells, total, err = vm_compute_failing_cells()
            if cells is None:
                cov['vm_compute_failing_cells'] = 'checker did not run: ' + err
            else:
                cov['vm_compute_failing_cells'] = dict(total=total, first=['%s c=%d r=%d silent=%d name=%d cond=%d' % (n, c, r, si, na, co)
                                                                           for (n, c, r, si, na, co) in cells[:40]])
                cases = ['%s %d %d %d %d %d' % (n, c, r, int(si), int(na), int(co)) for (n, c, r, si, na, co) in cells
                         if c >= 0 and 0 <= r < 2 ** 32]
                # one cell per macro first, so that few extra builds are needed
                seen, pick = set(), []
                for cs in cases:
                    k = cs.split()[0]
                    if k not in seen:
                        seen.add(k)
                        pick.append(cs)
                pick = pick[:12]
                self._load_spec(pick)
                res = run_cells(pick)
                confirmed = 0
                for cs, io in zip(pick, res):
                    msg = self.oracle(cs, io)
                    if msg:
                        confirmed += 1
                        out.append(('A', cs, 'cell listed by the vm_compute checker, confirmed on the implementation: oracle: ' + msg))
                cov['vm_compute_cells_confirmed_on_impl'] = '%d of %d' % (confirmed, len(pick))
        return out


CHECK = C20()
