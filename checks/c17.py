"""C17: spiftool_version_compare is a safe, deterministic, antisymmetric order (src/strings.c)."""
import sys
sys.set_int_max_str_digits(0)
import itertools, os, re
import sys
sys.set_int_max_str_digits(0)
import vlib


def hx(bs):
    return ''.join('%02x' % b for b in bs) or '-'


def unhx(h):
    return b'' if h == '-' else bytes.fromhex(h)


SMALL = [0x61, 0x62, 0x31, 0x32, 0x2e, 0x2d]        # a b 1 2 . -
RANK = {b'snap': 1, b'pre': 2, b'alpha': 3, b'beta': 4, b'rc': 5}
BELOW = (b'snap', b'pre', b'alpha', b'beta')
WF = re.compile(rb'(\d+(?:\.\d+)*)(?:([A-Za-z]+)(\d*))?')


def sign(x):
    return (x > 0) - (x < 0)


def parse_wf(s):
    m = WF.fullmatch(s)
    if not m:
        return None
    nums = [int(x) for x in m.group(1).split(b'.')]
    word = m.group(2).lower() if m.group(2) else None
    return nums, word, (m.group(3) or b'')


def expected(a, b):
    """What the property text fixes for two well-formed versions: -1 / 0 / 1, or None where it is silent."""
    pa, pb = parse_wf(a), parse_wf(b)
    if pa is None or pb is None:
        return None
    (na, wa, xa), (nb, wb, xb) = pa, pb
    for u, v in zip(na, nb):
        if u != v:
            return sign(u - v)                       # numeric components numerically
    if len(na) != len(nb):
        if wa is None and wb is None:                # the longer one merely adds numeric components
            return -1 if len(na) < len(nb) else 1
        return None
    if wa is None and wb is None:
        return 0
    if wa is None or wb is None:
        w = wa if wb is None else wb
        if w in BELOW:
            r = -1                                   # suffixed version below the bare one
        elif any(w.startswith(p) for p in BELOW):
            return None                              # "prerelease", "alphabet": the text does not say
        else:
            r = 1                                    # any other suffix above
        return r if wb is None else -r
    ra, rb = RANK.get(wa), RANK.get(wb)
    if ra and rb and ra != rb:
        return sign(ra - rb)                         # snap < pre < alpha < beta < rc
    if wa == wb:
        if xa and xb:
            return sign(int(xa) - int(xb))
        if not xa and not xb:
            return 0
        return -1 if not xa else 1                   # the other one adds a numeric component
    return None


class C17(vlib.PropertyCheck):
    id = 'C17'
    family = 'c17'
    generators = ['gen_constants.py', 'gen_vercmp.py']
    harness = 'c17.c'
    nontrivial_rule = ('a case is one unordered pair {a,b} (compared in both orders, each call twice under different stack '
                       'paint); non-trivial when a != b and the model result is not a fault; distinct = distinct case lines')
    assumptions = ['arguments are valid non-NULL C strings in exactly sized heap blocks (the harness allocates them so)',
                   '"C" locale; glibc ctype tables accept the negative values of bytes >= 0x80 passed as plain char',
                   'strcmp/strcasecmp/strncmp/strncasecmp/tolower are modelled from their C/POSIX specification, not verified',
                   'stack painting reaches the callee frame (detect_stack_use_after_return=0, 32 KiB alloca frame filled before each call)']

    MANIFEST = dict(
        technique='Rocq theorems about an executable Gallina model of spiftool_version_compare (scratch buffers as initially '
                  'uninitialised cell lists) + extracted-model/implementation correspondence check with painted stack',
        text=('Proved in Rocq (12 theorems, closed under the global context) for all pairs of C strings (all lengths, all bytes '
              '1..255): the model of the repaired function never faults - no out-of-bounds access to the two scratch buffers whatever '
              'the run lengths, no read of an uninitialised cell, termination within length+1 iterations (C17_vercmp_safe); started on '
              'any prior content of the scratch buffers it returns the same value (C17_vercmp_deterministic); cmp(a,a) = equal; '
              'cmp(b,a) = opposite of cmp(a,b). As general lemmas: dotted numeric versions (all component lists, all digit strings) are '
              'ordered lexicographically by component value, arbitrary precision, leading zeros ignored, a proper prefix below '
              '(C17_numeric_order, C17_longer_numeric_wins); V against V+t where t starts a new run is below V exactly when t begins '
              'case-insensitively with snap/pre/alpha/beta and above otherwise (C17_suffix_rule, C17_wf_suffix); snap < pre < alpha < '
              'beta < rc in any letter case after the same numeric version whatever follows (C17_wf_prerelease_order); numbers after '
              'a common prefix compare by value (C17_number_after_prefix). The property text says "a snap/pre/alpha/beta suffix"; the '
              'code and the theorem use "begins with" (1.0prefix < 1.0). Transitivity is not part of the property and does not hold '
              '(1.0pre2 < 1.0 < 1.0.1 < 1.0pre2, Example C17_ex_not_transitive). The unrepaired run copies and class-mismatch branch '
              'are faults of the same model (C17_orig_copy_refuted, C17_orig_mismatch_refuted). Decided by the correspondence check '
              'only: that the C function computes what the model computes (including strcmp/strcasecmp/strncmp/strncasecmp/ctype of '
              'glibc in the C locale and bytes >= 0x80), that reads of the two argument strings stay inside them (by construction in '
              'the model; exactly sized heap blocks under ASan on the implementation side), and stack independence of the compiled '
              'code (each call twice with the stack painted 0xA5 / 0x5A). The tie: gen_vercmp.py regenerates buffer sizes, word ranks '
              'and tail prefixes from the source each run; extracted model and ASan/UBSan build run on all unordered pairs of strings '
              'up to length 4 (quick: 3) over {a,b,1,2,.,-}, random pairs with runs of 126-130 and 300 characters, token strings '
              'with upper case and high-bit bytes, and all pairs of a pool of well-formed versions, both argument orders; '
              'determinism, antisymmetry, reflexivity and the order facts the text fixes are also checked directly on the '
              'implementation output (level A), exact agreement with the model is level B.'),
        design_ref='DESIGN.md section 7, C17')

    # ---- generators -------------------------------------------------------------------
    def pool(self, tier, rng):
        comps = [b'0', b'1', b'2', b'9', b'10', b'01', b'007', b'99', b'2147483647', b'2147483648', b'4294967296',
                 b'9223372036854775807', b'9223372036854775808', b'99999999999999999999', b'100000000000000000000']
        heads = [[b'1'], [b'1', b'0'], [b'0', b'9', b'2'], [b'2', b'2', b'4']]
        for c in comps:
            heads.append([c])
            heads.append([b'1', c])
        for _ in range(6 if tier == 'quick' else 40):
            heads.append([rng.choice(comps) for _ in range(rng.randint(1, 4))])
        words = [b'', b'snap', b'pre', b'alpha', b'beta', b'rc', b'a', b'p', b'b', b'foo', b'SNAP', b'Alpha', b'RC',
                 b'prealpha', b'alphabet', b'rcx', b'sna', b'z']
        if tier == 'quick':
            words = words[:12]
        nums = [b'', b'1', b'2', b'10', b'02'] if tier != 'quick' else [b'', b'1', b'10']
        out = []
        for h in heads:
            base = b'.'.join(h)
            for w in words:
                for n in (nums if w else [b'']):
                    out.append(base + w + n)
        # keep the pool size bounded: all heads with a few suffixes, a few heads with all suffixes
        out = sorted(set(out))
        limit = 260 if tier == 'quick' else 1100
        if len(out) > limit:
            keep = set(rng.sample(range(len(out)), limit))
            out = [v for i, v in enumerate(out) if i in keep]
        return out

    def long_pairs(self, tier, rng):
        cls = {'a': b'abAZsnprelht', 'd': b'0123456789', 'p': b'.-_+~ '}
        lens = [126, 127, 128, 129, 130, 300]
        out = []
        n = 150 if tier == 'quick' else 3000
        for _ in range(n):
            k = rng.choice('adp')
            c = rng.choice(cls[k])
            l1 = rng.choice(lens)
            l2 = rng.choice([l1, l1, rng.choice(lens)])
            r1 = bytearray([c]) * l1
            r2 = bytearray([c]) * l2
            if k == 'd' and rng.random() < 0.5:
                r1[0] = r2[0] = rng.choice(b'123456789')
            # a difference near the buffer boundary or anywhere
            how = rng.random()
            if how < 0.6:
                pos = rng.choice([0, 1, 125, 126, 127, 128, 129, min(l1, l2) - 1, rng.randrange(min(l1, l2))])
                if pos < len(r2):
                    r2[pos] = rng.choice(cls[k])
            pre = rng.choice([b'', b'1.', b'1.0', b'x-', b'2.2.'])
            if pre and (chr(pre[-1]).isdigit() and k == 'd' or chr(pre[-1]).isalpha() and k == 'a' or (not chr(pre[-1]).isalnum()) and k == 'p'):
                pre = b''
            post1 = rng.choice([b'', b'.1', b'rc1', b'-', b'7'])
            post2 = rng.choice([post1, post1, b'', b'.2', b'pre', b'8'])
            out.append((pre + bytes(r1) + post1, pre + bytes(r2) + post2))
        # run lengths around every power of two up to 2^17 (counters narrower than the run length:
        # 8-bit, 16-bit), a few per class; the pair differs in the last character, in the first, in
        # length by one, or not at all
        ks = [8, 9, 10, 12, 15, 16, 17] if tier == 'quick' else list(range(7, 18))
        for k2 in ks:
            for L in (2 ** k2 - 1, 2 ** k2, 2 ** k2 + 1):
                for kk in 'adp':
                    c = cls[kk][1]
                    a = bytearray([c]) * L
                    for variant in range(4):
                        b = bytearray(a)
                        if variant == 0:
                            b[-1] = cls[kk][2]
                        elif variant == 1:
                            b[0] = cls[kk][2]
                        elif variant == 2:
                            b = b[:-1]
                        if kk == 'd':
                            a2, b2 = bytearray(a), bytearray(b)
                            a2[0] = ord('1'); b2[0] = ord('1') if variant != 1 else ord('2')
                            out.append((b'1.' + bytes(a2), b'1.' + bytes(b2)))
                            if variant == 2:
                                out.append((b'1.1' + b'0' * L, b'1.1'))      # L zeros appended: 10^L times larger
                                out.append((b'1.1' + b'0' * L, b'1.2'))
                        else:
                            out.append((b'1' + bytes(a) + b'2', b'1' + bytes(b) + b'2'))
        # one long run against a short string of another class (class mismatch with long input)
        for l in lens:
            out.append((b'a' * l, b'1'))
            out.append((b'1' * l, b'.'))
            out.append((b'.' * l, b'a' * l))
        return out

    def token_pairs(self, tier, rng):
        toks = [b'snap', b'pre', b'alpha', b'beta', b'rc', b'SNAP', b'Pre', b'aLpHa', b'a', b'b', b'z', b'Z', b'1', b'2', b'10',
                b'01', b'007', b'0', b'.', b'-', b'..', b'_', b' ', b'2147483648', b'4294967297', b'\x80', b'\xe9', b'\xff', b'\x01',
                b'@', b'[', b'`', b'{']
        out = []
        for _ in range(3000 if tier == 'quick' else 60000):
            a = b''.join(rng.choice(toks) for _ in range(rng.randint(0, 5)))
            if rng.random() < 0.5:
                # b shares a prefix with a
                cut = rng.randint(0, len(a))
                b = a[:cut] + b''.join(rng.choice(toks) for _ in range(rng.randint(0, 3)))
            else:
                b = b''.join(rng.choice(toks) for _ in range(rng.randint(0, 5)))
            out.append((a, b))
        return out

    def build_impl(self):
        exe, log = super().build_impl()
        self._impl_exe = exe
        return exe, log

    def gen(self, tier, rng):
        """All cases - unless a sample of them already makes the implementation crash more than 20 times (every
        sanitizer abort costs a restart of the harness; a tree with the class-mismatch defect aborts on ~40% of the
        cases): then only the sample is run, which is enough to report the failing input quickly."""
        full = self.gen_all(tier, rng)
        exe = getattr(self, '_impl_exe', None)
        if exe:
            smoke = []
            cdir = os.path.join(vlib.VERIF, 'corpus', self.id)
            if os.path.isdir(cdir):
                for fn in sorted(os.listdir(cdir)):
                    with open(os.path.join(cdir, fn)) as f:
                        smoke += [l.rstrip('\n') for l in f if l.strip() and not l.startswith('//')]
            smoke += full[::max(1, len(full) // 300)]
            work = os.path.join(vlib.BUILD, 'work', self.id.lower())
            os.makedirs(work, exist_ok=True)
            path = os.path.join(work, 'cases-smoke.txt')
            with open(path, 'w') as f:
                f.write(''.join(c + '\n' for c in smoke))
            res, _ = vlib.run_cases(exe, path, len(smoke), timeout_per_run=60)
            if sum(1 for r in res if r and r.startswith('FAULT')) > 20:
                return smoke
        return full

    def gen_all(self, tier, rng):
        cases = []
        L = 3 if tier == 'quick' else 4
        strs = [bytes(t) for l in range(L + 1) for t in itertools.product(SMALL, repeat=l)]
        for i, a in enumerate(strs):
            ha = hx(a)
            for b in strs[i:]:
                cases.append('cmp %s %s' % (ha, hx(b)))
        for a, b in self.long_pairs(tier, rng):
            cases.append('cmp %s %s' % (hx(a), hx(b)))
        for a, b in self.token_pairs(tier, rng):
            cases.append('cmp %s %s' % (hx(a), hx(b)))
        pool = self.pool(tier, rng)
        for i, a in enumerate(pool):
            ha = hx(a)
            for b in pool[i:]:
                cases.append('wf %s %s' % (ha, hx(b)))
        return cases

    def search_gen(self, tier, rng):
        cases = []
        for a, b in self.token_pairs('thorough', rng)[:20000] + self.long_pairs('quick', rng):
            cases.append('cmp %s %s' % (hx(a), hx(b)))
        pool = self.pool('thorough', rng)
        pool = rng.sample(pool, min(len(pool), 300))
        for i, a in enumerate(pool):
            for b in pool[i:]:
                cases.append('wf %s %s' % (hx(a), hx(b)))
        return cases

    # ---- comparison ---------------------------------------------------------------------
    def split(self, case, out):
        # the exact value is constrained by the property only through the oracle below
        return '', out

    def oracle(self, case, iout):
        t = case.split()
        try:
            r = [int(x) for x in iout.split()]
        except ValueError:
            return 'unparsable output'
        if len(r) != 4 or any(x not in (-1, 0, 1) for x in r):
            return 'result is not one of SPIF_CMP_LESS/EQUAL/GREATER'
        if r[0] != r[1] or r[2] != r[3]:
            return 'the same call returned different values under different stack contents'
        if r[0] != -r[2]:
            return 'compare(a,b) = %d but compare(b,a) = %d' % (r[0], r[2])
        a, b = unhx(t[1]), unhx(t[2])
        if a == b and r[0] != 0:
            return 'compare(a,a) is not EQUAL'
        e = expected(a, b)
        if t[0] == 'wf':
            self._wf_seen = getattr(self, '_wf_seen', 0) + 1
            if e is not None:
                self._wf_decided = getattr(self, '_wf_decided', 0) + 1
        if e is not None and e != r[0]:
            return 'well-formed versions: the property text fixes %d, got %d' % (e, r[0])
        return None

    def extra_steps(self, ctx):
        ctx['cov']['wf_pairs_checked'] = getattr(self, '_wf_seen', 0)
        ctx['cov']['wf_pairs_value_fixed_by_property_text'] = getattr(self, '_wf_decided', 0)
        return []

    def nontrivial(self, case, mout):
        t = case.split()
        return t[1] != t[2] and not mout.startswith('FAULT')


CHECK = C17()
